/-
  Lemmas/CollectorFinal.lean — a `collRule` reports on the state collected from the whole
  document; what that state says about each operation, in terms of the spec's notions.
-/
import GqlVerif.Lemmas.Collector
import GqlVerif.Spec.Variables
namespace Gql
open Gql.Spec

section
variable {ι : Type} (itemsOf : Ev × Snap → List ι)

/-- the collected state after all definitions -/
def finalColl (s : Schema) (d : Document) : Coll ι := (d.flatMap (defTrace s)).foldl (Coll.on itemsOf) {}

def collStepT (report : Schema → Coll ι → List Err) (s : Schema) (d : Document) (acc : Coll ι × List Err) (e : Ev × Snap) :
    Coll ι × List Err :=
  (collRule itemsOf report).step s d acc e

theorem coll_fold_quiet (report : Schema → Coll ι → List Err) (s : Schema) (d : Document) :
    ∀ (tr : Trace) (st : Coll ι) (errs : List Err), (∀ e ∈ tr, ∀ d', e.1 ≠ .leave (.document d')) →
      tr.foldl (collStepT itemsOf report s d) (st, errs) = (tr.foldl (Coll.on itemsOf) st, errs)
  | [], _, _, _ => rfl
  | e :: tr, st, errs, h => by
      have he := h e (by simp)
      have hstep : collStepT itemsOf report s d (st, errs) e = (st.on itemsOf e, errs) := by
        obtain ⟨ev, sn⟩ := e
        cases ev with
        | enter n => cases n <;> simp [collStepT, Rule.step, collRule]
        | leave n =>
          cases n <;> first
            | (exact absurd rfl (he _))
            | simp [collStepT, Rule.step, collRule]
      rw [List.foldl_cons, hstep, List.foldl_cons]
      exact coll_fold_quiet report s d tr _ errs (fun x hx => h x (by simp [hx]))

theorem defTrace_no_leaveDoc (s : Schema) (x : Definition) (h : (walkDefinition s Snap.empty x).isSome = true) :
    ∀ e ∈ defTrace s x, ∀ d', e.1 ≠ .leave (.document d') := by
  obtain ⟨e1, body, hshape, hbody⟩ := defTrace_shape s x h
  intro e he d' heq
  rw [hshape] at he
  simp only [List.mem_cons, List.mem_append, List.not_mem_nil, or_false] at he
  rcases he with (rfl | he) | rfl
  · cases x <;> simp [defEnter] at heq
  · have hin : Inner (body.map Prod.fst) := by rw [hbody]; exact inner_body x
    have := hin e.1 (List.mem_map.2 ⟨e, he, rfl⟩)
    rw [heq] at this
    simp [Ev.node, Node.isDefinitionLevel] at this
  · cases x <;> simp [defLeave] at heq

/-- a collecting rule reports exactly `report` of the state collected from the definitions -/
theorem collRule_run (hok : ItemsOk itemsOf) (report : Schema → Coll ι → List Err) (s : Schema) (d : Document)
    (hq : s.queryType.isSome = true) :
    (collRule itemsOf report).runOn s d (walkOf s d) = report s (finalColl itemsOf s d) := by
  obtain ⟨hw, hall⟩ := walkOf_defs s d hq
  show (List.foldl (collStepT itemsOf report s d) ({}, []) (walkOf s d)).2 ++ [] = _
  rw [hw, List.append_nil]
  have hsplit : ∀ (f : Coll ι × List Err → Ev × Snap → Coll ι × List Err) (init : Coll ι × List Err) (a last : Ev × Snap)
      (flat : Trace), List.foldl f init (a :: flat ++ [last]) = f (List.foldl f (f init a) flat) last := by
    intro f init a last flat
    simp [List.foldl_append]
  rw [hsplit]
  have h0 : collStepT itemsOf report s d (({} : Coll ι), ([] : List Err)) (.enter (.document d), Snap.empty) = ({}, []) := by
    simp [collStepT, Rule.step, collRule, Coll.on]
  rw [h0, coll_fold_quiet itemsOf report s d (d.flatMap (defTrace s)) {} [] (by
    intro e he
    obtain ⟨x, hx, hex⟩ := List.mem_flatMap.1 he
    exact defTrace_no_leaveDoc s x (hall x hx) e hex)]
  simp [collStepT, Rule.step, collRule, finalColl]

/-- item `x` belongs to operation `o`: met in the operation or in a fragment in its scope -/
def ItemOf (s : Schema) (d : Document) (o : Operation) (x : ι) : Prop :=
  x ∈ defItems itemsOf s (.op o) ∨ ∃ f ∈ d.fragments, InScope d o f.name ∧ x ∈ defItems itemsOf s (.frag f)

theorem finalColl_facts (hok : ItemsOk itemsOf) (s : Schema) (d : Document) (hq : s.queryType.isSome = true) :
    (finalColl itemsOf s d).defs = indexedDefs 0 d ∧
    (∀ k, lookup (finalColl itemsOf s d).spreads k = contribS s 0 d k) ∧
    (∀ k, lookup (finalColl itemsOf s d).items k = contribI itemsOf s 0 d k) := by
  obtain ⟨_, hall⟩ := walkOf_defs s d hq
  obtain ⟨a, b, c⟩ := docPost itemsOf hok s d {} hall (by intro p hp; simp at hp)
  refine ⟨by simpa [finalColl] using a, fun k => ?_, fun k => ?_⟩
  · have := b k; simpa [lookup, finalColl] using this
  · have := c k; simpa [lookup, finalColl] using this

theorem frag_edges_eq (hok : ItemsOk itemsOf) (s : Schema) (d : Document) (hq : s.queryType.isSome = true) :
    (fun k => lookup (finalColl itemsOf s d).spreads (.frag k)) = spreadsOf d := by
  obtain ⟨_, hall⟩ := walkOf_defs s d hq
  obtain ⟨_, hsp, _⟩ := finalColl_facts itemsOf hok s d hq
  funext k
  rw [hsp, contribS_frag]
  unfold spreadsOf
  have : ∀ l : List FragDef, (∀ f ∈ l, f ∈ d.fragments) →
      (l.flatMap fun f => defSpreads s (.frag f)) = l.flatMap fun f => (recursiveSpreads f.sel).map (·.name) := by
    intro l hl
    induction l with
    | nil => rfl
    | cons f fs ih =>
      simp only [List.flatMap_cons]
      rw [defSpreads_eq s (.frag f) (hall _ ((mem_fragments_iff d f).1 (hl f (by simp)))), ih (fun g hg => hl g (by simp [hg]))]
      rfl
  exact this _ (fun f hf => (List.mem_filter.1 hf).1)

/-- reading one entry of the table whose scope received the contributions of operation `o` -/
theorem entry_read (hok : ItemsOk itemsOf) (s : Schema) (d : Document) (hq : s.queryType.isSome = true)
    (o : Operation) (ho : Definition.op o ∈ d) (i : Nat)
    (h4 : contribS s 0 d (.op i o.name) = defSpreads s (.op o))
    (h5 : contribI itemsOf s 0 d (.op i o.name) = defItems itemsOf s (.op o)) (x : ι) :
    x ∈ (finalColl itemsOf s d).itemsFrom (i, o.name) ↔ ItemOf itemsOf s d o x := by
  obtain ⟨_, hall⟩ := walkOf_defs s d hq
  obtain ⟨_, hsp, hit⟩ := finalColl_facts itemsOf hok s d hq
  rw [mem_itemsFrom, frag_edges_eq itemsOf hok s d hq, hit, hsp, h4, h5]
  rw [defSpreads_eq s (.op o) (hall _ ho)]
  unfold ItemOf InScope
  constructor
  · rintro (h | ⟨m, hm, k, hr, hx⟩)
    · exact Or.inl h
    · rw [hit, contribI_frag] at hx
      obtain ⟨f, hf, hxf⟩ := List.mem_flatMap.1 hx
      obtain ⟨hfm, hfn⟩ := List.mem_filter.1 hf
      have hfn' : f.name = k := by simpa using hfn
      obtain ⟨sp, hsp', rfl⟩ := List.mem_map.1 hm
      exact Or.inr ⟨f, hfm, ⟨sp, hsp', by rw [hfn']; exact hr⟩, hxf⟩
  · rintro (h | ⟨f, hfm, ⟨sp, hsp', hr⟩, hxf⟩)
    · exact Or.inl h
    · refine Or.inr ⟨sp.name, List.mem_map.2 ⟨sp, hsp', rfl⟩, f.name, hr, ?_⟩
      rw [hit, contribI_frag]
      exact List.mem_flatMap.2 ⟨f, List.mem_filter.2 ⟨hfm, by simp⟩, hxf⟩

/-- the items the rule gathers for an entry of its per-operation table are the items of that operation -/
theorem entry_items (hok : ItemsOk itemsOf) (s : Schema) (d : Document) (hq : s.queryType.isSome = true)
    (p : (Nat × Option Name) × List VarDef) (hp : p ∈ (finalColl itemsOf s d).defs) :
    ∃ o ∈ d.operations, p.2 = o.vars ∧ ∀ x, x ∈ (finalColl itemsOf s d).itemsFrom p.1 ↔ ItemOf itemsOf s d o x := by
  obtain ⟨hdefs, _, _⟩ := finalColl_facts itemsOf hok s d hq
  rw [hdefs] at hp
  obtain ⟨o, ho, h1, h2, _, h4, h5⟩ := indexed_mem itemsOf s 0 d p hp
  refine ⟨o, (mem_operations_iff d o).2 ho, h2, fun x => ?_⟩
  have hpair : p.1 = (p.1.1, o.name) := by rw [← h1]
  rw [hpair]
  rw [h1] at h4 h5
  exact entry_read itemsOf hok s d hq o ho p.1.1 h4 h5 x

/-- every operation has an entry in the table -/
theorem entry_of_op (hok : ItemsOk itemsOf) (s : Schema) (d : Document) (hq : s.queryType.isSome = true)
    (o : Operation) (ho : o ∈ d.operations) :
    ∃ p ∈ (finalColl itemsOf s d).defs, p.2 = o.vars ∧ ∀ x, x ∈ (finalColl itemsOf s d).itemsFrom p.1 ↔ ItemOf itemsOf s d o x := by
  obtain ⟨hdefs, _, _⟩ := finalColl_facts itemsOf hok s d hq
  have ho' := (mem_operations_iff d o).1 ho
  obtain ⟨i, hi, _, h4, h5⟩ := indexed_of_mem itemsOf s o 0 d ho'
  exact ⟨((i, o.name), o.vars), by rw [hdefs]; exact hi, rfl, fun x => entry_read itemsOf hok s d hq o ho' i h4 h5 x⟩

end
end Gql
