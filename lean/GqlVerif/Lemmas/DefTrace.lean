/-
  Lemmas/DefTrace.lean — the walk of a document is the concatenation of the walks of its
  definitions (each from the empty environment), between the two document callbacks; the walk of a
  definition is its own enter / leave around callbacks below definition level.
-/
import GqlVerif.Lemmas.TraverseMem
namespace Gql

/-- the callbacks of one definition -/
def defTrace (s : Schema) (x : Definition) : Trace := (walkDefinition s Snap.empty x).getD []

theorem walkDocument_isSome (s : Schema) (d : Document) (hq : s.queryType.isSome = true) :
    ∃ t, walkDocument s Snap.empty d = some t := by
  cases hv : visitDocument s d with
  | none =>
    obtain ⟨o, _, _, hnone⟩ := (C15.visit_none_iff s d).1 hv
    simp [hnone] at hq
  | some v =>
    have hl := visitDocument_lexical s d
    rw [hv] at hl
    obtain ⟨t, ht, _⟩ := hl Stacks.empty
    exact ⟨t, ht⟩

theorem walkDefinitions_flatMap (s : Schema) (e : Snap) :
    ∀ (ds : List Definition) (t : Trace), walkDefinitions s e ds = some t →
      t = ds.flatMap (fun x => (walkDefinition s e x).getD []) ∧ ∀ x ∈ ds, (walkDefinition s e x).isSome = true
  | [], t, h => by simp [walkDefinitions] at h; subst h; simp
  | x :: ds, t, h => by
      simp only [walkDefinitions] at h
      cases h1 : walkDefinition s e x with
      | none => simp [h1] at h
      | some a =>
        cases h2 : walkDefinitions s e ds with
        | none => simp [h1, h2] at h
        | some b =>
          simp only [h1, h2, Option.some.injEq] at h
          subst h
          obtain ⟨hb, hall⟩ := walkDefinitions_flatMap s e ds b h2
          refine ⟨by simp [h1, ← hb], ?_⟩
          intro y hy
          rcases List.mem_cons.1 hy with rfl | hy
          · simp [h1]
          · exact hall y hy

/-- the walk of the document, definition by definition -/
theorem walkOf_defs (s : Schema) (d : Document) (hq : s.queryType.isSome = true) :
    walkOf s d = (.enter (.document d), Snap.empty) :: d.flatMap (defTrace s) ++ [(.leave (.document d), Snap.empty)]
      ∧ ∀ x ∈ d, (walkDefinition s Snap.empty x).isSome = true := by
  obtain ⟨t, ht⟩ := walkDocument_isSome s d hq
  unfold walkOf
  rw [ht]
  simp only [walkDocument, Option.map_eq_some_iff] at ht
  obtain ⟨t', ht', rfl⟩ := ht
  obtain ⟨h1, h2⟩ := walkDefinitions_flatMap s Snap.empty d t' ht'
  refine ⟨?_, h2⟩
  simp only [Option.getD_some, h1]
  rfl

def defEnter : Definition → Ev
  | .op o => .enter (.operation o)
  | .frag f => .enter (.fragmentDef f)
def defLeave : Definition → Ev
  | .op o => .leave (.operation o)
  | .frag f => .leave (.fragmentDef f)

/-- the directives, variable definitions and selection set of a definition -/
def traverseBody : Definition → List Ev
  | .op o => traverseDirectives o.dirs ++ traverseVarDefs o.vars ++ traverseSelectionSet o.sel
  | .frag f => traverseDirectives f.dirs ++ traverseSelectionSet f.sel

theorem inner_body (x : Definition) : Inner (traverseBody x) := by
  cases x with
  | op o => exact Inner.append (Inner.append (inner_directives o.dirs) (inner_varDefs o.vars)) (inner_selectionSet o.sel)
  | frag f => exact Inner.append (inner_directives f.dirs) (inner_selectionSet f.sel)

/-- the shape of a definition's walk -/
theorem defTrace_shape (s : Schema) (x : Definition) (h : (walkDefinition s Snap.empty x).isSome = true) :
    ∃ (e1 : Snap) (body : Trace), defTrace s x = (defEnter x, e1) :: body ++ [(defLeave x, e1)] ∧
      body.map Prod.fst = traverseBody x := by
  obtain ⟨t, ht⟩ := Option.isSome_iff_exists.1 h
  unfold defTrace
  rw [ht]
  cases x with
  | frag f =>
    simp only [walkDefinition, Option.some.injEq] at ht
    subst ht
    refine ⟨Snap.withType s (some (.named f.tc)) Snap.empty,
      walkDirectives s (Snap.withType s (some (.named f.tc)) Snap.empty) f.dirs
        ++ walkSelectionSet s (Snap.withType s (some (.named f.tc)) Snap.empty) f.sel, ?_, ?_⟩
    · simp [defEnter, defLeave, List.append_assoc]
    · simp [traverseBody, walkDirectives_events, walkSelectionSet_events]
  | op o =>
    simp only [walkDefinition, Option.map_eq_some_iff] at ht
    obtain ⟨tn, _, rfl⟩ := ht
    refine ⟨Snap.withType s (tn.map .named) Snap.empty,
      walkDirectives s (Snap.withType s (tn.map .named) Snap.empty) o.dirs
        ++ walkVarDefs s (Snap.withType s (tn.map .named) Snap.empty) o.vars
        ++ walkSelectionSet s (Snap.withType s (tn.map .named) Snap.empty) o.sel, ?_, ?_⟩
    · simp [defEnter, defLeave, List.append_assoc]
    · simp [traverseBody, walkDirectives_events, walkVarDefs_events, walkSelectionSet_events]

end Gql
