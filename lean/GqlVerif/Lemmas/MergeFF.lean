/-
  Lemmas/MergeFF.lean — the field-merging rule on documents without fragment spreads: with the
  memo tables and the visited vector out of play, `find_conflict` is a plain recursion on the two
  fields (`pcD`), needs three units of fuel per nesting level and leaves the state alone.
-/
import GqlVerif.Lemmas.MergeCollect
namespace Gql
open Gql.Spec

def depOf (a : AstAndDef) : Nat := selsDepth a.field.sel
def ffOf (a : AstAndDef) : Prop := recursiveSpreads a.field.sel = []

/-- the collected fields of a field's own selection set (no spreads to follow) -/
def subOf (s : Schema) (a : AstAndDef) : List AstAndDef :=
  specFieldsWith s (fun _ => []) ((a.fdef.map (·.ty.inner)).bind s.typeByName) a.field.sel

def meOf (pe : Bool) (a b : AstAndDef) : Bool :=
  pe || (optName a.parent != optName b.parent && optIsObject a.parent && optIsObject b.parent)

def typeConflictB (s : Schema) (a b : AstAndDef) : Bool :=
  match a.fdef, b.fdef with
  | some x, some y => isTypeConflict s x.ty y.ty
  | _, _ => false

/-- the part of `find_conflict` that looks at the two fields only -/
def pcFlat (s : Schema) (pe : Bool) (a b : AstAndDef) : Bool :=
  (!meOf pe a b && a.field.name != b.field.name) ||
  (!meOf pe a b && !sameArguments a.field.args b.field.args) ||
  typeConflictB s a b

def crossAny (p : AstAndDef → AstAndDef → Bool) (F1 F2 : List AstAndDef) : Bool :=
  F1.any fun x => F2.any fun y => keyOf x == keyOf y && p x y

/-- `find_conflict` reports something (fuel = nesting levels it may descend) -/
def pcD (s : Schema) : Nat → Bool → AstAndDef → AstAndDef → Bool
  | 0, _, _, _ => false
  | k + 1, pe, a, b => pcFlat s pe a b || crossAny (pcD s k (meOf pe a b)) (subOf s a) (subOf s b)

/-! ### depth of collected fields -/

theorem selsDepth_eq_zero : ∀ sel : List Selection, selsDepth sel = 0 → sel = []
  | [], _ => rfl
  | x :: xs, h => by
      simp only [selsDepth] at h
      have : selDepth x ≥ 1 := by cases x <;> simp [selDepth] <;> omega
      omega

mutual
theorem mem_specSel_dep (s : Schema) (sp : Name → List AstAndDef) :
    ∀ (x : Selection) (P : Option TypeDef) (a : AstAndDef), recursiveSpreadsSel x = [] → a ∈ specFieldsSelWith s sp P x →
      depOf a + 1 ≤ selDepth x ∧ ffOf a
  | .field pos alias name args dirs sel, P, a, h, hm => by
      simp only [specFieldsSelWith, List.mem_singleton] at hm
      subst hm
      simp only [recursiveSpreadsSel] at h
      exact ⟨by simp [depOf, selDepth]; omega, h⟩
  | .spread _ _ _, _, _, h, _ => by simp [recursiveSpreadsSel] at h
  | .inline _ tc _ sel, P, a, h, hm => by
      simp only [specFieldsSelWith] at hm
      simp only [recursiveSpreadsSel] at h
      obtain ⟨h1, h2⟩ := mem_specSels_dep s sp sel _ a h hm
      exact ⟨by simp only [selDepth]; omega, h2⟩
theorem mem_specSels_dep (s : Schema) (sp : Name → List AstAndDef) :
    ∀ (xs : List Selection) (P : Option TypeDef) (a : AstAndDef), recursiveSpreads xs = [] → a ∈ specFieldsWith s sp P xs →
      depOf a + 1 ≤ selsDepth xs ∧ ffOf a
  | [], _, _, _, hm => by simp [specFieldsWith] at hm
  | x :: xs, P, a, h, hm => by
      simp only [recursiveSpreads, List.append_eq_nil_iff] at h
      simp only [specFieldsWith, List.mem_append] at hm
      simp only [selsDepth]
      rcases hm with hm | hm
      · obtain ⟨h1, h2⟩ := mem_specSel_dep s sp x P a h.1 hm
        exact ⟨by omega, h2⟩
      · obtain ⟨h1, h2⟩ := mem_specSels_dep s sp xs P a h.2 hm
        exact ⟨by omega, h2⟩
end

theorem mem_subOf (s : Schema) (a x : AstAndDef) (ha : ffOf a) (hx : x ∈ subOf s a) : depOf x + 1 ≤ depOf a ∧ ffOf x :=
  mem_specSels_dep s _ a.field.sel _ x ha hx

theorem subOf_nil (s : Schema) (a : AstAndDef) (h : a.field.sel = []) : subOf s a = [] := by
  simp [subOf, h, specFieldsWith]

/-! ### folds whose steps leave the state alone -/

theorem pushConflict_none (acc : MRes) (st : MState) : pushConflict acc (none, st) = (acc.1, st) := rfl
theorem pushConflict_some (acc : MRes) (c : Conflict) (st : MState) : pushConflict acc (some c, st) = (acc.1 ++ [c], st) := rfl

/-- a fold of comparisons each of which returns the state it was given -/
theorem foldl_push {α : Type} (g : α → MState → Option Conflict × MState) (st : MState) :
    ∀ (L : List α) (cs0 : List Conflict), (∀ x ∈ L, (g x st).2 = st) →
      ∃ extra, L.foldl (fun (acc : MRes) x => pushConflict acc (g x acc.2)) (cs0, st) = (cs0 ++ extra, st) ∧
        (extra = [] ↔ ∀ x ∈ L, (g x st).1 = none)
  | [], cs0, _ => ⟨[], by simp, by simp⟩
  | x :: L, cs0, h => by
      have hx := h x (by simp)
      simp only [List.foldl_cons]
      cases hc : (g x st).1 with
      | none =>
        have e : pushConflict (cs0, st) (g x st) = (cs0, st) := by
          have : g x st = (none, st) := Prod.ext hc hx
          rw [this]; rfl
        rw [e]
        obtain ⟨extra, he, hiff⟩ := foldl_push g st L cs0 (fun y hy => h y (by simp [hy]))
        refine ⟨extra, he, ?_⟩
        rw [hiff]
        simp [hc]
      | some c =>
        have e : pushConflict (cs0, st) (g x st) = (cs0 ++ [c], st) := by
          have : g x st = (some c, st) := Prod.ext hc hx
          rw [this]; rfl
        rw [e]
        obtain ⟨extra, he, _⟩ := foldl_push g st L (cs0 ++ [c]) (fun y hy => h y (by simp [hy]))
        refine ⟨[c] ++ extra, by rw [he]; simp, ?_⟩
        simp [hc]

/-- folding a state-preserving, list-extending step over a list -/
theorem foldl_ext_step {α : Type} (step : MRes → α → MRes) (st : MState) (P : α → Prop)
    (hstep : ∀ x cs0, ∃ extra, step (cs0, st) x = (cs0 ++ extra, st) ∧ (extra = [] ↔ P x)) :
    ∀ (L : List α) (cs0 : List Conflict),
      ∃ extra, L.foldl step (cs0, st) = (cs0 ++ extra, st) ∧ (extra = [] ↔ ∀ x ∈ L, P x)
  | [], cs0 => ⟨[], by simp, by simp⟩
  | x :: L, cs0 => by
      obtain ⟨e1, h1, i1⟩ := hstep x cs0
      obtain ⟨e2, h2, i2⟩ := foldl_ext_step step st P hstep L (cs0 ++ e1)
      refine ⟨e1 ++ e2, by simp only [List.foldl_cons, h1, h2, List.append_assoc], ?_⟩
      simp only [List.append_eq_nil_iff, i1, i2, List.mem_cons, forall_eq_or_imp]

end Gql

namespace Gql
open Gql.Spec

theorem typeConflictB_eq (s : Schema) (a b : AstAndDef) : typeConflictB s a b = (typeConflictOf s a b).isSome := by
  unfold typeConflictB typeConflictOf
  cases a.fdef <;> cases b.fdef <;> simp
  split <;> simp_all

theorem subfieldConflicts_none (cs : List Conflict) (key : Name) (p1 p2 : Pos) :
    (subfieldConflicts cs key p1 p2).isSome = !cs.isEmpty := by
  unfold subfieldConflicts
  cases cs <;> simp

/-- comparing every field of `F1` with the fields of the same key of `F2`, all comparisons
    state-preserving: nothing is reported iff no comparison reports -/
theorem between_maps (fc : Name → AstAndDef → AstAndDef → Bool → MState → Option Conflict × MState)
    (me : Bool) (st : MState) (F1 F2 : List AstAndDef)
    (hfc : ∀ f1 ∈ F1, ∀ f2 ∈ F2, ∀ k, (fc k f1 f2 me st).2 = st) :
    ∃ cs, (groupInto [] F1).foldl (betweenKeyStep fc me (groupInto [] F2)) ([], st) = (cs, st) ∧
      (cs = [] ↔ ∀ f1 ∈ F1, ∀ f2 ∈ F2, keyOf f1 = keyOf f2 → (fc (keyOf f1) f1 f2 me st).1 = none) := by
  -- one entry
  have hentry : ∀ (kv : Name × List AstAndDef) (cs0 : List Conflict), kv ∈ groupInto [] F1 →
      ∃ extra, betweenKeyStep fc me (groupInto [] F2) (cs0, st) kv = (cs0 ++ extra, st) ∧
        (extra = [] ↔ ∀ f1 ∈ kv.2, ∀ f2 ∈ F2, keyOf f2 = kv.1 → (fc kv.1 f1 f2 me st).1 = none) := by
    intro kv cs0 hkv
    have hfs := mem_groupInto F1 kv.1 kv.2 hkv
    unfold betweenKeyStep
    rw [alGet_groupInto_nil]
    have hin : ∀ f1 ∈ kv.2, f1 ∈ F1 := by
      intro f1 hf1; rw [hfs] at hf1; exact (List.mem_filter.1 hf1).1
    have hone : ∀ (f1 : AstAndDef) (cs1 : List Conflict), f1 ∈ kv.2 →
        ∃ extra, betweenFieldsStep fc kv.1 me (F2.filter fun a => keyOf a == kv.1) (cs1, st) f1 = (cs1 ++ extra, st) ∧
          (extra = [] ↔ ∀ f2 ∈ F2, keyOf f2 = kv.1 → (fc kv.1 f1 f2 me st).1 = none) := by
      intro f1 cs1 hf1
      unfold betweenFieldsStep
      obtain ⟨extra, he, hiff⟩ := foldl_push (fun f2 st' => fc kv.1 f1 f2 me st') st (F2.filter fun a => keyOf a == kv.1) cs1
        (fun f2 hf2 => hfc f1 (hin f1 hf1) f2 (List.mem_filter.1 hf2).1 kv.1)
      refine ⟨extra, he, ?_⟩
      rw [hiff]
      simp only [List.mem_filter, beq_iff_eq, and_imp]
    -- fold over the fields of the entry (membership-restricted step lemma)
    have hfold : ∀ (L : List AstAndDef) (cs1 : List Conflict), (∀ f1 ∈ L, f1 ∈ kv.2) →
        ∃ extra, L.foldl (betweenFieldsStep fc kv.1 me (F2.filter fun a => keyOf a == kv.1)) (cs1, st) = (cs1 ++ extra, st) ∧
          (extra = [] ↔ ∀ f1 ∈ L, ∀ f2 ∈ F2, keyOf f2 = kv.1 → (fc kv.1 f1 f2 me st).1 = none) := by
      intro L
      induction L with
      | nil => intro cs1 _; exact ⟨[], by simp, by simp⟩
      | cons f1 L ih =>
        intro cs1 hL
        obtain ⟨e1, h1, i1⟩ := hone f1 cs1 (hL f1 (by simp))
        obtain ⟨e2, h2, i2⟩ := ih (cs1 ++ e1) (fun x hx => hL x (by simp [hx]))
        refine ⟨e1 ++ e2, by simp only [List.foldl_cons, h1, h2, List.append_assoc], ?_⟩
        simp only [List.append_eq_nil_iff, i1, i2, List.mem_cons, forall_eq_or_imp]
    exact hfold kv.2 cs0 (fun _ h => h)
  -- fold over the entries
  have hall : ∀ (L : List (Name × List AstAndDef)) (cs0 : List Conflict), (∀ kv ∈ L, kv ∈ groupInto [] F1) →
      ∃ extra, L.foldl (betweenKeyStep fc me (groupInto [] F2)) (cs0, st) = (cs0 ++ extra, st) ∧
        (extra = [] ↔ ∀ kv ∈ L, ∀ f1 ∈ kv.2, ∀ f2 ∈ F2, keyOf f2 = kv.1 → (fc kv.1 f1 f2 me st).1 = none) := by
    intro L
    induction L with
    | nil => intro cs0 _; exact ⟨[], by simp, by simp⟩
    | cons kv L ih =>
      intro cs0 hL
      obtain ⟨e1, h1, i1⟩ := hentry kv cs0 (hL kv (by simp))
      obtain ⟨e2, h2, i2⟩ := ih (cs0 ++ e1) (fun x hx => hL x (by simp [hx]))
      refine ⟨e1 ++ e2, by simp only [List.foldl_cons, h1, h2, List.append_assoc], ?_⟩
      simp only [List.append_eq_nil_iff, i1, i2, List.mem_cons, forall_eq_or_imp]
  obtain ⟨extra, he, hiff⟩ := hall (groupInto [] F1) [] (fun _ h => h)
  refine ⟨extra, by simpa using he, ?_⟩
  rw [hiff]
  constructor
  · intro h f1 hf1 f2 hf2 hk
    obtain ⟨fs, hfs⟩ := groupInto_covers F1 [] f1 hf1
    have hmem : f1 ∈ fs := by
      rw [mem_groupInto F1 _ fs hfs]; exact List.mem_filter.2 ⟨hf1, by simp⟩
    exact h _ hfs f1 hmem f2 hf2 hk.symm
  · intro h kv hkv f1 hf1 f2 hf2 hk
    have hfs := mem_groupInto F1 kv.1 kv.2 hkv
    rw [hfs] at hf1
    obtain ⟨hf1m, hf1k⟩ := List.mem_filter.1 hf1
    have hf1k' : keyOf f1 = kv.1 := by simpa using hf1k
    have := h f1 hf1m f2 hf2 (by rw [hf1k', hk])
    rwa [hf1k'] at this

/-- **`find_conflict` on spread-free fields**: with fuel for the nesting it returns the state it
    was given, and reports something exactly when `pcD` says so -/
theorem findConflict_ff (s : Schema) (d : Document) :
    ∀ (D n : Nat) (key : Name) (a b : AstAndDef) (pe : Bool) (st : MState),
      depOf a ≤ D → 3 * D + 1 ≤ n → ffOf a → ffOf b → st.stuck = false →
      (findConflict s d n key a b pe st).2 = st ∧
      ((findConflict s d n key a b pe st).1.isSome = pcD s (D + 1) pe a b)
  | D, 0, _, _, _, _, _, _, hn, _, _, _ => by omega
  | D, n + 1, key, a, b, pe, st, hD, hn, ha, hb, hst => by
      rw [findConflict]
      simp only [hst, Bool.false_eq_true, if_false]
      have hme : (pe || (optName a.parent != optName b.parent && optIsObject a.parent && optIsObject b.parent)) = meOf pe a b := rfl
      simp only [hme]
      simp only [pcD, pcFlat, typeConflictB_eq]
      by_cases h1 : (!meOf pe a b && a.field.name != b.field.name) = true
      · simp [h1]
      · have h1' : (!meOf pe a b && a.field.name != b.field.name) = false := by simpa using h1
        simp only [h1', Bool.false_eq_true, if_false, Bool.false_or]
        by_cases h2 : (!meOf pe a b && !sameArguments a.field.args b.field.args) = true
        · simp [h2]
        · have h2' : (!meOf pe a b && !sameArguments a.field.args b.field.args) = false := by simpa using h2
          simp only [h2', Bool.false_eq_true, if_false, Bool.false_or]
          cases htc : typeConflictOf s a b with
          | some xy => simp
          | none =>
            simp only [Option.isSome_none, Bool.false_or]
            by_cases hsel : (!a.field.sel.isEmpty && !b.field.sel.isEmpty) = true
            · simp only [hsel, if_true]
              -- both have sub-selections: D ≥ 1
              have hane : a.field.sel ≠ [] := by
                intro e; simp [e] at hsel
              have hD1 : 1 ≤ D := by
                have : selsDepth a.field.sel ≠ 0 := fun e => hane (selsDepth_eq_zero _ e)
                unfold depOf at hD; omega
              obtain ⟨D', rfl⟩ : ∃ D', D = D' + 1 := ⟨D - 1, by omega⟩
              obtain ⟨n1, rfl⟩ : ∃ n1, n = n1 + 1 := ⟨n - 1, by omega⟩
              obtain ⟨n2, rfl⟩ : ∃ n2, n1 = n2 + 1 := ⟨n1 - 1, by omega⟩
              rw [betweenSubSelectionSets]
              simp only [hst, Bool.false_eq_true, if_false]
              have hc1 := fieldsAndFragmentNames_ff s (fun _ => []) ((a.fdef.map (·.ty.inner)).bind s.typeByName) a.field.sel ha
              have hc2 := fieldsAndFragmentNames_ff s (fun _ => []) ((b.fdef.map (·.ty.inner)).bind s.typeByName) b.field.sel hb
              simp only [hc1, hc2, List.foldl_nil]
              rw [conflictsBetween]
              simp only [hst, Bool.false_eq_true, if_false]
              -- the comparisons one level down
              have hsub : ∀ f1 ∈ subOf s a, ∀ f2 ∈ subOf s b, ∀ k,
                  (findConflict s d n2 k f1 f2 (meOf pe a b) st).2 = st ∧
                  ((findConflict s d n2 k f1 f2 (meOf pe a b) st).1.isSome = pcD s (D' + 1) (meOf pe a b) f1 f2) := by
                intro f1 hf1 f2 hf2 k
                obtain ⟨hd1, hff1⟩ := mem_subOf s a f1 ha hf1
                obtain ⟨_, hff2⟩ := mem_subOf s b f2 hb hf2
                exact findConflict_ff s d D' n2 k f1 f2 (meOf pe a b) st (by omega) (by omega) hff1 hff2 hst
              obtain ⟨cs, hcs, hiff⟩ := between_maps (findConflict s d n2) (meOf pe a b) st (subOf s a) (subOf s b)
                (fun f1 hf1 f2 hf2 k => (hsub f1 hf1 f2 hf2 k).1)
              have hcs' : List.foldl (betweenKeyStep (findConflict s d n2) (meOf pe a b) (groupInto [] (subOf s b))) ([], st)
                  (groupInto [] (subOf s a)) = (cs, st) := hcs
              unfold subOf at hcs'
              simp only [hcs', subfieldConflicts_none, true_and]
              -- cs = [] ↔ no cross pair conflicts
              have : cs.isEmpty = !crossAny (pcD s (D' + 1) (meOf pe a b)) (subOf s a) (subOf s b) := by
                rw [Bool.eq_iff_iff]
                simp only [List.isEmpty_iff, hiff, crossAny, Bool.not_eq_true', List.any_eq_false, Bool.and_eq_true,
                  beq_iff_eq, not_and, Bool.not_eq_true]
                constructor
                · intro h f1 hf1 f2 hf2 hk
                  have := h f1 hf1 f2 hf2 hk
                  rw [← (hsub f1 hf1 f2 hf2 (keyOf f1)).2, this]; rfl
                · intro h f1 hf1 f2 hf2 hk
                  have := h f1 hf1 f2 hf2 hk
                  rw [← (hsub f1 hf1 f2 hf2 (keyOf f1)).2] at this
                  cases hx : (findConflict s d n2 (keyOf f1) f1 f2 (meOf pe a b) st).1 with
                  | none => rfl
                  | some c => rw [hx] at this; simp at this
              rw [this]; simp
            · have hsel' : (!a.field.sel.isEmpty && !b.field.sel.isEmpty) = false := by simpa using hsel
              simp only [hsel', Bool.false_eq_true, if_false, Option.isSome_none, true_and]
              -- one of the two has no sub-selection: no cross pair
              symm
              simp only [crossAny, List.any_eq_false, Bool.and_eq_true, beq_iff_eq, not_and, Bool.not_eq_true]
              intro f1 hf1 f2 hf2
              simp only [Bool.and_eq_false_iff, Bool.not_eq_false', List.isEmpty_iff] at hsel'
              rcases hsel' with h | h
              · rw [subOf_nil s a h] at hf1; simp at hf1
              · rw [subOf_nil s b h] at hf2; simp at hf2

end Gql

namespace Gql
open Gql.Spec

theorem crossAny_congr {p q : AstAndDef → AstAndDef → Bool} {F1 F2 : List AstAndDef}
    (h : ∀ x ∈ F1, ∀ y ∈ F2, p x y = q x y) : crossAny p F1 F2 = crossAny q F1 F2 := by
  unfold crossAny
  have inner : ∀ x ∈ F1, (F2.any fun y => keyOf x == keyOf y && p x y) = (F2.any fun y => keyOf x == keyOf y && q x y) := by
    intro x hx
    induction F2 with
    | nil => rfl
    | cons y ys ih =>
      simp only [List.any_cons, h x hx y (by simp)]
      rw [ih (fun x' hx' y' hy' => h x' hx' y' (by simp [hy']))]
  clear h
  induction F1 with
  | nil => rfl
  | cons x xs ih =>
    simp only [List.any_cons, inner x (by simp)]
    rw [ih (fun x' hx' => inner x' (by simp [hx']))]

/-- beyond the nesting depth more fuel changes nothing -/
theorem pcD_stable (s : Schema) : ∀ (k : Nat) (pe : Bool) (a b : AstAndDef), ffOf a → depOf a + 1 ≤ k →
    pcD s (k + 1) pe a b = pcD s k pe a b
  | 0, _, _, _, _, h => by omega
  | k + 1, pe, a, b, ha, hk => by
      show (pcFlat s pe a b || crossAny (pcD s (k + 1) (meOf pe a b)) (subOf s a) (subOf s b))
        = (pcFlat s pe a b || crossAny (pcD s k (meOf pe a b)) (subOf s a) (subOf s b))
      congr 1
      apply crossAny_congr
      intro x hx y _
      obtain ⟨hd, hfx⟩ := mem_subOf s a x ha hx
      exact pcD_stable s k _ x y hfx (by omega)

theorem pcD_stable_le (s : Schema) (pe : Bool) (a b : AstAndDef) (ha : ffOf a) :
    ∀ (k k' : Nat), depOf a + 1 ≤ k → k ≤ k' → pcD s k' pe a b = pcD s k pe a b := by
  intro k k' hk hkk'
  induction k' with
  | zero => have : k = 0 := by omega
            subst this; rfl
  | succ m ih =>
    by_cases hm : k ≤ m
    · rw [pcD_stable s m pe a b ha (by omega)]; exact ih hm
    · have : k = m + 1 := by omega
      subst this; rfl

/-- conflict between two fields of a spread-free document (any sufficient fuel) -/
def PCb (s : Schema) (pe : Bool) (a b : AstAndDef) : Bool := pcD s (depOf a + 1) pe a b

/-- the recursion equation, fuel-free -/
theorem PCb_eq (s : Schema) (pe : Bool) (a b : AstAndDef) (ha : ffOf a) :
    PCb s pe a b = (pcFlat s pe a b || crossAny (PCb s (meOf pe a b)) (subOf s a) (subOf s b)) := by
  unfold PCb
  rw [pcD]
  congr 1
  apply crossAny_congr
  intro x hx y _
  obtain ⟨hd, hfx⟩ := mem_subOf s a x ha hx
  exact pcD_stable_le s _ x y hfx (depOf x + 1) (depOf a) (Nat.le_refl _) (by omega)

/-- ordered pairs of a list, as `Pairwise` -/
theorem orderedPairs_forall {α : Type} (R : α → α → Prop) : ∀ L : List α,
    (∀ p ∈ orderedPairs L, R p.1 p.2) ↔ L.Pairwise R
  | [] => by simp [orderedPairs]
  | x :: xs => by
      simp only [orderedPairs, List.mem_append, List.mem_map, List.pairwise_cons]
      rw [← orderedPairs_forall R xs]
      constructor
      · intro h
        exact ⟨fun y hy => h (x, y) (Or.inl ⟨y, hy, rfl⟩), fun p hp => h p (Or.inr hp)⟩
      · rintro ⟨h1, h2⟩ p (⟨y, hy, rfl⟩ | hp)
        · exact h1 y hy
        · exact h2 p hp

/-- `Pairwise` within every key class = `Pairwise` restricted to equal keys -/
theorem pairwise_by_key (R : AstAndDef → AstAndDef → Prop) : ∀ F : List AstAndDef,
    (∀ k, (F.filter fun a => keyOf a == k).Pairwise R) ↔ F.Pairwise (fun a b => keyOf a = keyOf b → R a b)
  | [] => by simp
  | a :: F => by
      simp only [List.pairwise_cons, ← pairwise_by_key R F]
      constructor
      · intro h
        refine ⟨fun b hb hk => ?_, fun k => ?_⟩
        · have := h (keyOf a)
          simp only [List.filter_cons, beq_self_eq_true, if_true, List.pairwise_cons] at this
          exact this.1 b (List.mem_filter.2 ⟨hb, by simp [hk]⟩)
        · have := h k
          simp only [List.filter_cons] at this
          split at this
          · exact (List.pairwise_cons.1 this).2
          · exact this
      · rintro ⟨h1, h2⟩ k
        simp only [List.filter_cons]
        split
        · rename_i hk
          rw [List.pairwise_cons]
          refine ⟨fun b hb => ?_, h2 k⟩
          obtain ⟨hb1, hb2⟩ := List.mem_filter.1 hb
          exact h1 b hb1 (by rw [beq_iff_eq] at hk hb2; rw [hk, hb2])
        · exact h2 k

/-- **one selection set** of a spread-free document: `collect_conflicts_within` leaves the state
    alone and reports nothing iff no two same-key fields conflict -/
theorem conflictsWithin_ff (s : Schema) (d : Document) (D n : Nat) (F : List AstAndDef) (st : MState)
    (hF : ∀ a ∈ F, depOf a ≤ D ∧ ffOf a) (hn : 3 * D + 1 ≤ n) (hst : st.stuck = false) :
    ∃ cs, conflictsWithin s d n (groupInto [] F) st = (cs, st) ∧
      (cs = [] ↔ F.Pairwise (fun a b => keyOf a = keyOf b → PCb s false a b = false)) := by
  unfold conflictsWithin
  have hpair : ∀ (a b : AstAndDef), a ∈ F → b ∈ F → ∀ k,
      (findConflict s d n k a b false st).2 = st ∧ ((findConflict s d n k a b false st).1.isSome = PCb s false a b) := by
    intro a b ha hb k
    obtain ⟨h1, h2⟩ := findConflict_ff s d D n k a b false st (hF a ha).1 hn (hF a ha).2 (hF b hb).2 hst
    refine ⟨h1, ?_⟩
    rw [h2]
    exact pcD_stable_le s false a b (hF a ha).2 (depOf a + 1) (D + 1) (Nat.le_refl _) (by have := (hF a ha).1; omega)
  -- one entry
  have hentry : ∀ (kv : Name × List AstAndDef) (cs0 : List Conflict), kv ∈ groupInto [] F →
      ∃ extra, (orderedPairs kv.2).foldl (fun (acc : MRes) p => pushConflict acc (findConflict s d n kv.1 p.1 p.2 false acc.2)) (cs0, st)
          = (cs0 ++ extra, st) ∧
        (extra = [] ↔ kv.2.Pairwise (fun a b => PCb s false a b = false)) := by
    intro kv cs0 hkv
    have hfs := mem_groupInto F kv.1 kv.2 hkv
    have hin : ∀ a ∈ kv.2, a ∈ F := by intro a ha; rw [hfs] at ha; exact (List.mem_filter.1 ha).1
    have hop : ∀ p ∈ orderedPairs kv.2, p.1 ∈ kv.2 ∧ p.2 ∈ kv.2 := by
      have : ∀ (L : List AstAndDef) (p : AstAndDef × AstAndDef), p ∈ orderedPairs L → p.1 ∈ L ∧ p.2 ∈ L := by
        intro L
        induction L with
        | nil => intro p hp; simp [orderedPairs] at hp
        | cons x xs ih =>
          intro p hp
          simp only [orderedPairs, List.mem_append, List.mem_map] at hp
          rcases hp with ⟨y, hy, rfl⟩ | hp
          · exact ⟨by simp, by simp [hy]⟩
          · obtain ⟨h1, h2⟩ := ih p hp; exact ⟨by simp [h1], by simp [h2]⟩
      exact this kv.2
    obtain ⟨extra, he, hiff⟩ := foldl_push (fun (p : AstAndDef × AstAndDef) st' => findConflict s d n kv.1 p.1 p.2 false st') st
      (orderedPairs kv.2) cs0 (fun p hp => (hpair p.1 p.2 (hin _ (hop p hp).1) (hin _ (hop p hp).2) kv.1).1)
    refine ⟨extra, he, ?_⟩
    rw [hiff, ← orderedPairs_forall]
    constructor
    · intro h p hp
      have := h p hp
      rw [← (hpair p.1 p.2 (hin _ (hop p hp).1) (hin _ (hop p hp).2) kv.1).2, this]; rfl
    · intro h p hp
      have := h p hp
      rw [← (hpair p.1 p.2 (hin _ (hop p hp).1) (hin _ (hop p hp).2) kv.1).2] at this
      cases hx : (findConflict s d n kv.1 p.1 p.2 false st).1 with
      | none => rfl
      | some c => rw [hx] at this; simp at this
  have hall : ∀ (L : List (Name × List AstAndDef)) (cs0 : List Conflict), (∀ kv ∈ L, kv ∈ groupInto [] F) →
      ∃ extra, L.foldl (fun (acc : MRes) (kv : Name × List AstAndDef) =>
          (orderedPairs kv.2).foldl (fun (acc : MRes) p => pushConflict acc (findConflict s d n kv.1 p.1 p.2 false acc.2)) acc) (cs0, st)
          = (cs0 ++ extra, st) ∧
        (extra = [] ↔ ∀ kv ∈ L, kv.2.Pairwise (fun a b => PCb s false a b = false)) := by
    intro L
    induction L with
    | nil => intro cs0 _; exact ⟨[], by simp, by simp⟩
    | cons kv L ih =>
      intro cs0 hL
      obtain ⟨e1, h1, i1⟩ := hentry kv cs0 (hL kv (by simp))
      obtain ⟨e2, h2, i2⟩ := ih (cs0 ++ e1) (fun x hx => hL x (by simp [hx]))
      refine ⟨e1 ++ e2, by simp only [List.foldl_cons, h1, h2, List.append_assoc], ?_⟩
      simp only [List.append_eq_nil_iff, i1, i2, List.mem_cons, forall_eq_or_imp]
  obtain ⟨extra, he, hiff⟩ := hall (groupInto [] F) [] (fun _ h => h)
  refine ⟨extra, by simpa using he, ?_⟩
  rw [hiff, ← pairwise_by_key]
  constructor
  · intro h k
    by_cases hk : (F.filter fun a => keyOf a == k) = []
    · rw [hk]; exact List.Pairwise.nil
    · obtain ⟨a, ha⟩ := List.exists_mem_of_ne_nil _ hk
      obtain ⟨haF, hak⟩ := List.mem_filter.1 ha
      obtain ⟨fs, hfs⟩ := groupInto_covers F [] a haF
      have hk' : keyOf a = k := by simpa using hak
      have := h _ hfs
      rw [mem_groupInto F _ fs hfs, hk'] at this
      exact this
  · intro h kv hkv
    rw [mem_groupInto F kv.1 kv.2 hkv]
    exact h kv.1

end Gql
