/-
  Lemmas/MergeCompleteFinal.lean — from the specification's FieldsInSetCanMerge to the rule:
  a failing unrolling of FieldsInSetCanMerge gives a sized witness between two fields some
  visited selection set collects (`target_of_violated`); every sized witness can be made canonical
  or moved into a fragment's own selection set (`noBad`), where the silent run of the rule has
  excluded it (`silent_topOK`).  Hence: on a document without fragment cycles the rule reports
  whenever FieldsInSetCanMerge fails (`merge_complete`).
-/
import GqlVerif.Lemmas.MergeCompleteTop
namespace Gql
open Gql.Spec

/-! ### witnesses with a size -/

def ShapeBadN (s : Schema) (d : Document) : Nat → AstAndDef → AstAndDef → Prop
  | 0, a, b => typesAgree s a b = false
  | k + 1, a, b => typesAgree s a b = false ∨
      ∃ x y, MemSub s d a x ∧ MemSub s d b y ∧ keyOf x = keyOf y ∧ ShapeBadN s d k x y

def localBad (a b : AstAndDef) : Prop :=
  (a.field.name == b.field.name) = false ∨ identicalArguments a.field.args b.field.args = false ∨
    identicalArguments b.field.args a.field.args = false

def PairBadN (s : Schema) (d : Document) : Nat → AstAndDef → AstAndDef → Prop
  | 0, a, b => ShapeBadN s d 0 a b ∨ (parentsMayCoincide a b = true ∧ localBad a b)
  | k + 1, a, b => ShapeBadN s d (k + 1) a b ∨ (parentsMayCoincide a b = true ∧
      (localBad a b ∨ ∃ x y, MemSub s d a x ∧ MemSub s d b y ∧ keyOf x = keyOf y ∧ PairBadN s d k x y))

theorem ShapeBadN.symm {s : Schema} {d : Document} : ∀ {k : Nat} {a b : AstAndDef}, ShapeBadN s d k a b → ShapeBadN s d k b a
  | 0, a, b, h => by simp only [ShapeBadN] at h ⊢; rw [typesAgree_comm]; exact h
  | k + 1, a, b, h => by
      simp only [ShapeBadN] at h ⊢
      rcases h with h | ⟨x, y, hx, hy, hk, h⟩
      · left; rw [typesAgree_comm]; exact h
      · exact Or.inr ⟨y, x, hy, hx, hk.symm, ShapeBadN.symm h⟩

theorem localBad_symm {a b : AstAndDef} (h : localBad a b) : localBad b a := by
  rcases h with h | h | h
  · left
    simp only [beq_eq_false_iff_ne, ne_eq] at h ⊢
    exact fun e => h e.symm
  · exact Or.inr (Or.inr h)
  · exact Or.inr (Or.inl h)

theorem PairBadN.symm {s : Schema} {d : Document} : ∀ {k : Nat} {a b : AstAndDef}, PairBadN s d k a b → PairBadN s d k b a
  | 0, a, b, h => by
      simp only [PairBadN] at h ⊢
      rcases h with h | ⟨hp, h⟩
      · exact Or.inl h.symm
      · exact Or.inr ⟨by rw [parentsMayCoincide_comm]; exact hp, localBad_symm h⟩
  | k + 1, a, b, h => by
      simp only [PairBadN] at h ⊢
      rcases h with h | ⟨hp, h⟩
      · exact Or.inl h.symm
      · refine Or.inr ⟨by rw [parentsMayCoincide_comm]; exact hp, ?_⟩
        rcases h with h | ⟨x, y, hx, hy, hk, h⟩
        · exact Or.inl (localBad_symm h)
        · exact Or.inr ⟨y, x, hy, hx, hk.symm, PairBadN.symm h⟩

theorem PairBadN.of_shape {s : Schema} {d : Document} : ∀ {k : Nat} {a b : AstAndDef}, ShapeBadN s d k a b → PairBadN s d k a b
  | 0, _, _, h => Or.inl h
  | _ + 1, _, _, h => Or.inl h

/-- a visited selection set with two same-key collected fields and a witness of size `k` between them -/
def TargetN (s : Schema) (d : Document) (k : Nat) : Prop :=
  ∃ parent sel, Reg s d parent sel ∧ ∃ x y, Mem s d parent sel x ∧ Mem s d parent sel y ∧ keyOf x = keyOf y ∧ PairBadN s d k x y

/-! ### from the executable spec to a witness -/

theorem not_pairwise_exists {α : Type} {R : α → α → Prop} : ∀ {L : List α}, ¬ L.Pairwise R → ∃ a b, a ∈ L ∧ b ∈ L ∧ ¬ R a b
  | [], h => absurd List.Pairwise.nil h
  | x :: xs, h => by
      rw [List.pairwise_cons] at h
      by_cases h1 : ∀ b ∈ xs, R x b
      · have h2 : ¬ xs.Pairwise R := fun hp => h ⟨h1, hp⟩
        obtain ⟨a, b, ha, hb, hr⟩ := not_pairwise_exists h2
        exact ⟨a, b, by simp [ha], by simp [hb], hr⟩
      · have h2 : ∃ b, b ∈ xs ∧ ¬ R x b := by
          apply Classical.byContradiction
          intro hne
          exact h1 (fun b hb => Classical.byContradiction (fun hr => hne ⟨b, hb, hr⟩))
        obtain ⟨b, hb, hr⟩ := h2
        exact ⟨x, b, by simp, by simp [hb], hr⟩

theorem allPairs_false_exists (p : AstAndDef → AstAndDef → Bool) (L : List AstAndDef) (h : allPairs p L = false) :
    ∃ a b, a ∈ L ∧ b ∈ L ∧ keyOf a = keyOf b ∧ p a b = false := by
  have h1 : ¬ L.Pairwise (fun a b => keyOf a = keyOf b → p a b = true) := by
    rw [← allPairs_iff]; rw [h]; simp
  obtain ⟨a, b, ha, hb, hr⟩ := not_pairwise_exists h1
  simp only [Classical.not_imp, Bool.not_eq_true] at hr
  exact ⟨a, b, ha, hb, hr.1, hr.2⟩

/-- the own selection set of the field is visited on the type the spec collects it on -/
def RegS (s : Schema) (d : Document) (a : AstAndDef) : Prop := Reg s d (subParent s a) a.field.sel

theorem regS_sub (s : Schema) (d : Document) (hq : s.queryType.isSome = true) (htc : TcKnown s d)
    {a x : AstAndDef} (ha : RegS s d a) (hx : MemSub s d a x) : RegS s d x :=
  (reg_sub s d hq htc _ _ ha x hx).1

/-- SameResponseShape fails: a sized witness, or a target elsewhere -/
theorem shape_witness (s : Schema) (d : Document) (hq : s.queryType.isSome = true) (htc : TcKnown s d) (sf : Nat) :
    ∀ (n : Nat) (a b : AstAndDef), RegS s d a → RegS s d b → sameResponseShape s d sf n a b = false →
      (∃ k, ShapeBadN s d k a b) ∨ ∃ k, TargetN s d k
  | 0, a, b, _, _, h => by simp [sameResponseShape] at h
  | n + 1, a, b, ra, rb, h => by
      rw [srs_succ] at h
      simp only [Bool.and_eq_false_iff] at h
      rcases h with h | h
      · exact Or.inl ⟨0, h⟩
      · obtain ⟨x, y, hx, hy, hk, hp⟩ := allPairs_false_exists _ _ h
        have mx : MemSub s d a x ∨ MemSub s d b x := by
          rcases List.mem_append.1 hx with hx | hx
          · exact Or.inl ⟨sf, hx⟩
          · exact Or.inr ⟨sf, hx⟩
        have my : MemSub s d a y ∨ MemSub s d b y := by
          rcases List.mem_append.1 hy with hy | hy
          · exact Or.inl ⟨sf, hy⟩
          · exact Or.inr ⟨sf, hy⟩
        have rx : RegS s d x := mx.elim (regS_sub s d hq htc ra) (regS_sub s d hq htc rb)
        have ry : RegS s d y := my.elim (regS_sub s d hq htc ra) (regS_sub s d hq htc rb)
        rcases shape_witness s d hq htc sf n x y rx ry hp with ⟨k, hw⟩ | ht
        · rcases mx with mx | mx
          · rcases my with my | my
            · exact Or.inr ⟨k, _, _, ra, x, y, mx, my, hk, PairBadN.of_shape hw⟩
            · exact Or.inl ⟨k + 1, Or.inr ⟨x, y, mx, my, hk, hw⟩⟩
          · rcases my with my | my
            · exact Or.inl ⟨k + 1, Or.inr ⟨y, x, my, mx, hk.symm, hw.symm⟩⟩
            · exact Or.inr ⟨k, _, _, rb, x, y, mx, my, hk, PairBadN.of_shape hw⟩
        · exact Or.inr ht

/-- FieldsInSetCanMerge fails on a list of fields: a sized witness between two of them, or a target elsewhere -/
theorem merge_witness (s : Schema) (d : Document) (hq : s.queryType.isSome = true) (htc : TcKnown s d) (sf : Nat) :
    ∀ (n : Nat) (L : List AstAndDef), (∀ z ∈ L, RegS s d z) → fieldsInSetCanMerge s d sf n L = false →
      (∃ x y, x ∈ L ∧ y ∈ L ∧ keyOf x = keyOf y ∧ ∃ k, PairBadN s d k x y) ∨ ∃ k, TargetN s d k
  | 0, L, _, h => by simp [fieldsInSetCanMerge] at h
  | n + 1, L, hL, h => by
      rw [cm_succ] at h
      obtain ⟨a, b, ha, hb, hk, hp⟩ := allPairs_false_exists _ _ h
      have ra := hL a ha
      have rb := hL b hb
      unfold pairOk at hp
      simp only [Bool.and_eq_false_iff] at hp
      rcases hp with hp | hp
      · rcases shape_witness s d hq htc sf n a b ra rb hp with ⟨k, hw⟩ | ht
        · exact Or.inl ⟨a, b, ha, hb, hk, k, PairBadN.of_shape hw⟩
        · exact Or.inr ht
      · split at hp
        · rename_i hc
          simp only [Bool.and_eq_false_iff] at hp
          rcases hp with (hp | hp) | hp
          · exact Or.inl ⟨a, b, ha, hb, hk, 0, Or.inr ⟨hc, Or.inl hp⟩⟩
          · exact Or.inl ⟨a, b, ha, hb, hk, 0, Or.inr ⟨hc, Or.inr (Or.inl hp)⟩⟩
          · have hsub : ∀ z ∈ subFields s d sf a ++ subFields s d sf b, RegS s d z := by
              intro z hz
              rcases List.mem_append.1 hz with hz | hz
              · exact regS_sub s d hq htc ra ⟨sf, hz⟩
              · exact regS_sub s d hq htc rb ⟨sf, hz⟩
            rcases merge_witness s d hq htc sf n _ hsub hp with ⟨x, y, hx, hy, hkk, k, hw⟩ | ht
            · rcases List.mem_append.1 hx with hx | hx
              · rcases List.mem_append.1 hy with hy | hy
                · exact Or.inr ⟨k, _, _, ra, x, y, ⟨sf, hx⟩, ⟨sf, hy⟩, hkk, hw⟩
                · exact Or.inl ⟨a, b, ha, hb, hk, k + 1, Or.inr ⟨hc, Or.inr ⟨x, y, ⟨sf, hx⟩, ⟨sf, hy⟩, hkk, hw⟩⟩⟩
              · rcases List.mem_append.1 hy with hy | hy
                · exact Or.inl ⟨a, b, ha, hb, hk, k + 1, Or.inr ⟨hc, Or.inr ⟨y, x, ⟨sf, hy⟩, ⟨sf, hx⟩, hkk.symm, hw.symm⟩⟩⟩
                · exact Or.inr ⟨k, _, _, rb, x, y, ⟨sf, hx⟩, ⟨sf, hy⟩, hkk, hw⟩
            · exact Or.inr ht
        · cases hp

theorem target_of_violated (s : Schema) (d : Document) (hq : s.queryType.isSome = true) (htc : TcKnown s d)
    (h : MergeViolated s d) : ∃ k, TargetN s d k := by
  obtain ⟨sel, env, hm, hf⟩ := h
  have hr : Reg s d env.parent sel := ⟨env, hm, rfl⟩
  have hL : ∀ z ∈ specFields s d (spreadFuelOf d) env.parent sel, RegS s d z :=
    fun z hz => (reg_sub s d hq htc _ _ hr z ⟨_, hz⟩).1
  rcases merge_witness s d hq htc _ _ _ hL hf with ⟨x, y, hx, hy, hk, k, hw⟩ | ht
  · exact ⟨k, _, _, hr, x, y, ⟨_, hx⟩, ⟨_, hy⟩, hk, hw⟩
  · exact ht

/-! ### no witness survives a silent run -/

/-- no visited selection set has a witness of size `k` -/
def NoBad (s : Schema) (d : Document) (k : Nat) : Prop := ¬ TargetN s d k

theorem regS_of_shared (s : Schema) (d : Document) (hq : s.queryType.isSome = true) {x y : AstAndDef}
    (h : Shared s d x y) : ∃ parent sel, Reg s d parent sel ∧ Mem s d parent sel x ∧ Mem s d parent sel y := by
  obtain ⟨F, hx, hy⟩ := h
  obtain ⟨fr, hfr, _⟩ := memFrag_decomp s d F x hx
  exact ⟨_, _, reg_fragment s d hq F fr hfr, (memFrag_iff_mem s d F fr hfr x).1 hx, (memFrag_iff_mem s d F fr hfr y).1 hy⟩

theorem canon_shape (s : Schema) (d : Document) (hq : s.queryType.isSome = true) (K : Nat) (hnb : ∀ j, j < K → NoBad s d j) :
    ∀ (k : Nat), k ≤ K → ∀ a b, ShapeBadN s d k a b → ShapeBadC s d a b
  | 0, _, a, b, h => .types h
  | k + 1, hk, a, b, h => by
      simp only [ShapeBadN] at h
      rcases h with h | ⟨x, y, hx, hy, hkk, hw⟩
      · exact .types h
      · refine .nested hx hy hkk ?_ (canon_shape s d hq K hnb k (by omega) x y hw)
        intro hs
        obtain ⟨parent, sel, hr, mx, my⟩ := regS_of_shared s d hq hs
        exact hnb k (by omega) ⟨parent, sel, hr, x, y, mx, my, hkk, PairBadN.of_shape hw⟩

theorem canon_pair (s : Schema) (d : Document) (hq : s.queryType.isSome = true) (htc : TcKnown s d) (hu : ArgsUniq s d)
    (K : Nat) (hnb : ∀ j, j < K → NoBad s d j) :
    ∀ (k : Nat), k ≤ K → ∀ a b, RegF s d a → RegF s d b → PairBadN s d k a b → PairBadC s d a b := by
  have hlocal : ∀ a b, RegF s d a → RegF s d b → parentsMayCoincide a b = true → localBad a b → PairBadC s d a b := by
    intro a b ra rb hp h
    rcases h with h | h
    · exact .name hp h
    · exact .args hp ra.2 rb.2 (identicalArguments_false_symm _ _ ra.2 rb.2 h)
  intro k
  induction k with
  | zero =>
    intro _ a b ra rb h
    simp only [PairBadN] at h
    rcases h with h | ⟨hp, h⟩
    · exact .shape (canon_shape s d hq K hnb 0 (by omega) a b h)
    · exact hlocal a b ra rb hp h
  | succ k ih =>
    intro hk a b ra rb h
    simp only [PairBadN] at h
    rcases h with h | ⟨hp, h | ⟨x, y, hx, hy, hkk, hw⟩⟩
    · exact .shape (canon_shape s d hq K hnb (k + 1) hk a b h)
    · exact hlocal a b ra rb hp h
    · refine .nested hp hx hy hkk ?_ (ih (by omega) x y (regF_sub s d hq htc hu ra hx) (regF_sub s d hq htc hu rb hy) hw)
      intro hs
      obtain ⟨parent, sel, hr, mx, my⟩ := regS_of_shared s d hq hs
      exact hnb k (by omega) ⟨parent, sel, hr, x, y, mx, my, hkk, hw⟩

/-- a field is never in conflict with itself, beyond conflicts inside its own selection set -/
theorem self_pair (s : Schema) (d : Document) (x : AstAndDef) (hx : RegF s d x) :
    ∀ k, PairBadN s d k x x → ∃ j, j < k ∧ TargetN s d j := by
  have hl : ¬ localBad x x := by
    intro h
    rcases h with h | h | h
    · simp at h
    · rw [identicalArguments_refl _ hx.2] at h; cases h
    · rw [identicalArguments_refl _ hx.2] at h; cases h
  have hsh : ∀ k, ShapeBadN s d k x x → ∃ j, j < k ∧ TargetN s d j := by
    intro k h
    cases k with
    | zero => simp only [ShapeBadN] at h; rw [typesAgree_refl] at h; cases h
    | succ k =>
      simp only [ShapeBadN] at h
      rcases h with h | ⟨a, b, ha, hb, hk, hw⟩
      · rw [typesAgree_refl] at h; cases h
      · exact ⟨k, by omega, _, _, hx.1, a, b, ha, hb, hk, PairBadN.of_shape hw⟩
  intro k h
  cases k with
  | zero =>
    simp only [PairBadN] at h
    rcases h with h | ⟨_, h⟩
    · exact hsh 0 h
    · exact absurd h hl
  | succ k =>
    simp only [PairBadN] at h
    rcases h with h | ⟨_, h | ⟨a, b, ha, hb, hk, hw⟩⟩
    · exact hsh (k + 1) h
    · exact absurd h hl
    · exact ⟨k, by omega, _, _, hx.1, a, b, ha, hb, hk, hw⟩

/-- **no witness of any size survives** a run of the rule that reports nothing -/
theorem noBad (s : Schema) (d : Document) (hq : s.queryType.isSome = true) (htc : TcKnown s d) (hu : ArgsUniq s d)
    (hac : ¬ FragmentCycle d) (htop : ∀ parent sel, Reg s d parent sel → TopOK s d parent sel) : ∀ k, NoBad s d k := by
  intro k
  induction k using Nat.strongRecOn with
  | _ k ihk =>
    -- inner induction on the rank of the selection set
    have inner : ∀ (r : Nat) parent sel, Rs d sel ≤ r → Reg s d parent sel → ∀ x y, Mem s d parent sel x → Mem s d parent sel y →
        keyOf x = keyOf y → ¬ PairBadN s d k x y := by
      intro r
      induction r with
      | zero =>
        intro parent sel hr hreg x y mx my hk hw
        have rx := regF_of_mem s d hq htc hu _ _ hreg x mx
        have ry := regF_of_mem s d hq htc hu _ _ hreg y my
        by_cases hxy : x = y
        · subst hxy
          obtain ⟨j, hj, ht⟩ := self_pair s d x rx k hw
          exact ihk j hj ht
        · rcases htop _ _ hreg x y mx my hk hxy with ⟨F, hF, _, _⟩ | h
          · omega
          · exact h (canon_pair s d hq htc hu k ihk k (Nat.le_refl _) x y rx ry hw)
      | succ r ihr =>
        intro parent sel hr hreg x y mx my hk hw
        have rx := regF_of_mem s d hq htc hu _ _ hreg x mx
        have ry := regF_of_mem s d hq htc hu _ _ hreg y my
        by_cases hxy : x = y
        · subst hxy
          obtain ⟨j, hj, ht⟩ := self_pair s d x rx k hw
          exact ihk j hj ht
        · rcases htop _ _ hreg x y mx my hk hxy with ⟨F, hF, fx, fy⟩ | h
          · obtain ⟨fr, hfr, _⟩ := memFrag_decomp s d F x fx
            have hrk : Rs d fr.sel ≤ r := by
              rw [← Dr_some d hac F fr hfr]; omega
            exact ihr _ _ hrk (reg_fragment s d hq F fr hfr) x y ((memFrag_iff_mem s d F fr hfr x).1 fx)
              ((memFrag_iff_mem s d F fr hfr y).1 fy) hk hw
          · exact h (canon_pair s d hq htc hu k ihk k (Nat.le_refl _) x y rx ry hw)
    rintro ⟨parent, sel, hreg, x, y, mx, my, hk, hw⟩
    exact inner (Rs d sel) parent sel (Nat.le_refl _) hreg x y mx my hk hw

/-- **completeness of the field-merging rule**: on a document without fragment cycles, whenever
    FieldsInSetCanMerge fails for some selection set of the document, the rule reports -/
theorem merge_complete (s : Schema) (d : Document) (hq : s.queryType.isSome = true) (htc : TcKnown s d) (hu : ArgsUniq s d)
    (hac : ¬ FragmentCycle d) (h : MergeViolated s d) : fires .overlappingFieldsCanBeMerged s d := by
  apply Classical.byContradiction
  intro hnf
  obtain ⟨k, ht⟩ := target_of_violated s d hq htc h
  exact noBad s d hq htc hu hac (silent_topOK s d hq hac hnf) k ht

end Gql
