/-
  Lemmas/FragRules.lean — no_fragments_cycle.rs and no_unused_fragments.rs as folds over the
  graph events of the document.
-/
import GqlVerif.Lemmas.Cycle
import GqlVerif.Lemmas.GraphEvents
namespace Gql
open Gql.Spec

theorem foldl_map_fst {σ : Type} (step : σ → Ev × Snap → σ) (step' : σ → Ev → σ)
    (h : ∀ acc e, step acc e = step' acc e.1) :
    ∀ (tr : Trace) (acc : σ), tr.foldl step acc = (tr.map Prod.fst).foldl step' acc
  | [], _ => rfl
  | e :: tr, acc => by
      rw [List.foldl_cons, List.map_cons, List.foldl_cons, h]
      exact foldl_map_fst step step' h tr _

/-! ### no_fragments_cycle -/

abbrev CycAcc := CycleState × List Err

def cycG (d : Document) (acc : CycAcc) : GEv → CycAcc
  | .enterFrag f =>
    let st' := detectCycles d (d.fragments.length + 1) f [] [] { acc.1 with errs := [] }
    (st', acc.2 ++ st'.errs)
  | _ => acc

def cycEv (d : Document) (acc : CycAcc) (e : Ev) : CycAcc :=
  match gev e with
  | some b => cycG d acc b
  | none => acc

theorem cyc_step_eq (s : Schema) (d : Document) (acc : noFragmentsCycle.σ × List Err) (e : Ev × Snap) :
    noFragmentsCycle.step s d acc e = cycEv d acc e.1 := by
  obtain ⟨ev, sn⟩ := e
  obtain ⟨st, errs⟩ := acc
  cases ev with
  | enter n => cases n <;> simp [Rule.step, noFragmentsCycle, cycEv, gev, cycG]
  | leave n => cases n <;> simp [Rule.step, noFragmentsCycle, cycEv, gev, cycG]

theorem cycG_spreads (d : Document) (acc : CycAcc) (sps : List SpreadNode) :
    (sps.map GEv.spread).foldl (cycG d) acc = acc := by
  induction sps generalizing acc with
  | nil => rfl
  | cons sp sps ih => simp only [List.map_cons, List.foldl_cons, cycG]; exact ih acc

theorem cycG_def (d : Document) (acc : CycAcc) : ∀ x : Definition,
    (defGEvs x).foldl (cycG d) acc = (match x with | .frag f => cycG d acc (.enterFrag f) | .op _ => acc)
  | .frag f => by
      simp only [defGEvs, List.cons_append, List.foldl_cons, List.foldl_append, cycG_spreads, List.foldl_nil]
      rfl
  | .op o => by simp only [defGEvs, cycG_spreads]

theorem stackOk_nil : StackOk ([] : List (Name × Nat)) [] := by
  intro k; simp

/-- the rule run over a list of definitions of the document -/
theorem cyc_run (d : Document) (hn : (d.fragments.map (·.name)).Nodup) :
    ∀ (ds : List Definition) (acc : CycAcc), (∀ x ∈ ds, x ∈ d) → acc.1.stuck = false →
      let acc' := (ds.flatMap defGEvs).foldl (cycG d) acc
      acc'.1.stuck = false ∧ (∀ z ∈ acc.1.visited, z ∈ acc'.1.visited) ∧
      ∃ new, acc'.2 = acc.2 ++ new ∧ (new ≠ [] → FragmentCycle d) ∧
        (new = [] → Good d acc.1.visited [] →
          Good d acc'.1.visited [] ∧ ∀ f, Definition.frag f ∈ ds → f.name ∈ acc'.1.visited)
  | [], acc, _, hst => by
      refine ⟨hst, fun _ h => h, [], by simp, fun h => absurd rfl h, fun _ hg => ⟨hg, fun f hf => by simp at hf⟩⟩
  | .op o :: ds, acc, hds, hst => by
      simp only [List.flatMap_cons, List.foldl_append, cycG_def]
      obtain ⟨h1, h2, new, he, hc, hg⟩ := cyc_run d hn ds acc (fun x hx => hds x (by simp [hx])) hst
      refine ⟨h1, h2, new, he, hc, fun hnil hgood => ?_⟩
      obtain ⟨hg1, hg2⟩ := hg hnil hgood
      exact ⟨hg1, fun f hf => hg2 f (by simpa using hf)⟩
  | .frag f :: ds, acc, hds, hst => by
      simp only [List.flatMap_cons, List.foldl_append, cycG_def]
      have hf : f ∈ d.fragments := (mem_fragments_iff d f).2 (hds _ (by simp))
      have hum : unmarked (fragUniverse d) acc.1.visited < d.fragments.length + 1 := by
        have h1 : unmarked (fragUniverse d) acc.1.visited ≤ (fragUniverse d).length := List.length_filter_le _ _
        have h2 : (fragUniverse d).length = d.fragments.length := by simp [fragUniverse]
        omega
      have hcall := detect_spec d hn (d.fragments.length + 1) f [] [] { acc.1 with errs := [] } []
        hf stackOk_nil (by simp) (by simp) (by simp) hst hum
      obtain ⟨hm1, hs1, hin1, new1, he1, hc1, hg1⟩ := hcall
      obtain ⟨hs2, hm2, new2, he2, hc2, hg2⟩ := cyc_run d hn ds (cycG d acc (.enterFrag f))
        (fun x hx => hds x (by simp [hx])) hs1
      refine ⟨hs2, fun z hz => hm2 z (hm1 z hz), new1 ++ new2, ?_, ?_, ?_⟩
      · rw [he2]
        simp only [cycG]
        simp only [List.nil_append] at he1
        rw [he1, List.append_assoc]
      · intro hne
        by_cases h1 : new1 = []
        · subst h1; exact hc2 (by simpa using hne)
        · exact hc1 h1
      · intro hnil hgood
        have h1 : new1 = [] := (List.append_eq_nil_iff.1 hnil).1
        have h2 : new2 = [] := (List.append_eq_nil_iff.1 hnil).2
        obtain ⟨hgA, hgB⟩ := hg2 h2 (hg1 h1 hgood)
        refine ⟨hgA, fun f' hf' => ?_⟩
        simp only [List.mem_cons, Definition.frag.injEq] at hf'
        rcases hf' with rfl | hf'
        · exact hm2 _ hin1
        · exact hgB f' hf'

/-- **no_fragments_cycle reports iff the spread graph has a cycle** (on the graph events) -/
theorem cyc_document (d : Document) (hn : (d.fragments.map (·.name)).Nodup) :
    ((d.flatMap defGEvs ++ [GEv.leaveDoc]).foldl (cycG d) (({} : CycleState), ([] : List Err))).2 ≠ [] ↔ FragmentCycle d := by
  rw [List.foldl_append]
  simp only [List.foldl_cons, List.foldl_nil, cycG]
  obtain ⟨_, _, new, he, hc, hg⟩ := cyc_run d hn d ({}, []) (fun _ h => h) rfl
  simp only [List.nil_append] at he
  rw [he]
  constructor
  · exact hc
  · rintro ⟨a, b, hb, hr⟩ hnil
    have hgood0 : Good d ([] : List Name) [] := by intro v hv; simp at hv
    obtain ⟨hgood, hall⟩ := hg hnil hgood0
    have hdef := defined_of_edge d hb
    obtain ⟨fa, hfa⟩ := Option.isSome_iff_exists.1 hdef
    obtain ⟨hfm, hfn⟩ := fragByName_some_mem d hfa
    have hav := hall fa ((mem_fragments_iff d fa).1 hfm)
    rw [hfn] at hav
    exact (hgood a hav (by simp)).2 ⟨b, hb, hr⟩

/-! ### no_unused_fragments -/

def nufG (st : UnusedState) : GEv → UnusedState
  | .enterFrag f => { st with cur := some f.name }
  | .leaveFrag => { st with cur := none }
  | .spread sp =>
    (match st.cur with
     | some f => { st with fragSpreads := alUpdate st.fragSpreads f [] (· ++ [sp.name]) }
     | none => { st with opSpreads := st.opSpreads ++ [sp.name] })
  | .leaveDoc => st

def nufReport (d : Document) (st : UnusedState) : List Err :=
  (d.fragNames.filter fun n => !st.used.visited.contains n).map fun n =>
    ⟨.noUnusedFragments, [], .unusedFragment n⟩

abbrev NufAcc := UnusedState × List Err

def nufAcc (d : Document) (acc : NufAcc) (b : GEv) : NufAcc :=
  match b with
  | .leaveDoc => (acc.1, acc.2 ++ nufReport d acc.1)
  | b => (nufG acc.1 b, acc.2)

def nufEv (d : Document) (acc : NufAcc) (e : Ev) : NufAcc :=
  match gev e with
  | some b => nufAcc d acc b
  | none => acc

theorem nuf_step_eq (s : Schema) (d : Document) (acc : noUnusedFragments.σ × List Err) (e : Ev × Snap) :
    noUnusedFragments.step s d acc e = nufEv d acc e.1 := by
  obtain ⟨ev, sn⟩ := e
  obtain ⟨st, errs⟩ := acc
  cases ev with
  | enter n =>
    cases n
    all_goals first
      | (simp [Rule.step, noUnusedFragments, nufEv, gev, nufAcc, nufG]; done)
      | (have hst : ∃ c : Option Name, c = UnusedState.cur st := ⟨_, rfl⟩
         obtain ⟨c, hc⟩ := hst
         cases c <;> simp [Rule.step, noUnusedFragments, nufEv, gev, nufAcc, nufG, ← hc])
  | leave n => cases n <;> simp [Rule.step, noUnusedFragments, nufEv, gev, nufAcc, nufG, nufReport]

/-- before the end of the document nothing is reported -/
theorem nufAcc_fold (d : Document) : ∀ (l : List GEv) (acc : NufAcc), GEv.leaveDoc ∉ l →
    l.foldl (nufAcc d) acc = (l.foldl nufG acc.1, acc.2)
  | [], _, _ => rfl
  | b :: l, acc, h => by
      have hb : b ≠ .leaveDoc := fun hb => h (by simp [hb])
      have hl : GEv.leaveDoc ∉ l := fun hl => h (by simp [hl])
      rw [List.foldl_cons, nufAcc_fold d l _ hl]
      cases b <;> first | rfl | exact absurd rfl hb

/-- names spread within operations of a definition list -/
def opSpreadNames (ds : List Definition) : List Name :=
  ds.flatMap fun | .op o => (recursiveSpreads o.sel).map (·.name) | .frag _ => []

/-- names spread within the fragment definitions named `n` of a definition list -/
def fragSpreadNames (ds : List Definition) (n : Name) : List Name :=
  ds.flatMap fun | .frag f => if f.name = n then (recursiveSpreads f.sel).map (·.name) else [] | .op _ => []

theorem fragSucc_alUpdate (m : List (Name × List Name)) (f x n : Name) :
    fragSucc (alUpdate m f [] (· ++ [x])) n = if n = f then fragSucc m f ++ [x] else fragSucc m n := by
  unfold fragSucc
  rw [alGet_alUpdate]
  by_cases h : n = f <;> simp [h]

theorem nufG_spreads_op : ∀ (sps : List SpreadNode) (st : UnusedState), st.cur = none →
    let st' := (sps.map GEv.spread).foldl nufG st
    st'.cur = none ∧ st'.opSpreads = st.opSpreads ++ sps.map (·.name) ∧ st'.fragSpreads = st.fragSpreads
  | [], st, h => by simp [h]
  | sp :: sps, st, h => by
      simp only [List.map_cons, List.foldl_cons]
      have h1 : nufG st (.spread sp) = { st with opSpreads := st.opSpreads ++ [sp.name] } := by simp [nufG, h]
      rw [h1]
      obtain ⟨a, b, c⟩ := nufG_spreads_op sps { st with opSpreads := st.opSpreads ++ [sp.name] } h
      exact ⟨a, by rw [b]; simp, c⟩

theorem nufG_spreads_frag (f : Name) : ∀ (sps : List SpreadNode) (st : UnusedState), st.cur = some f →
    let st' := (sps.map GEv.spread).foldl nufG st
    st'.cur = some f ∧ st'.opSpreads = st.opSpreads ∧
    ∀ n, fragSucc st'.fragSpreads n = fragSucc st.fragSpreads n ++ (if f = n then sps.map (·.name) else [])
  | [], st, h => by simp [h]
  | sp :: sps, st, h => by
      simp only [List.map_cons, List.foldl_cons]
      have h1 : nufG st (.spread sp) = { st with fragSpreads := alUpdate st.fragSpreads f [] (· ++ [sp.name]) } := by
        simp [nufG, h]
      rw [h1]
      obtain ⟨a, b, c⟩ := nufG_spreads_frag f sps { st with fragSpreads := alUpdate st.fragSpreads f [] (· ++ [sp.name]) } h
      refine ⟨a, b, fun n => ?_⟩
      rw [c n]
      simp only [fragSucc_alUpdate]
      by_cases hn : n = f
      · subst hn; simp
      · have : ¬ f = n := fun h => hn h.symm
        simp [hn, this]

/-- the state after the definitions: which names each operation / fragment name spreads -/
theorem nufG_defs : ∀ (ds : List Definition) (st : UnusedState), st.cur = none →
    let st' := (ds.flatMap defGEvs).foldl nufG st
    st'.cur = none ∧ st'.opSpreads = st.opSpreads ++ opSpreadNames ds ∧
    ∀ n, fragSucc st'.fragSpreads n = fragSucc st.fragSpreads n ++ fragSpreadNames ds n
  | [], st, h => by simp [h, opSpreadNames, fragSpreadNames]
  | .op o :: ds, st, h => by
      simp only [List.flatMap_cons, List.foldl_append, defGEvs]
      obtain ⟨a, b, c⟩ := nufG_spreads_op (recursiveSpreads o.sel) st h
      obtain ⟨a', b', c'⟩ := nufG_defs ds _ a
      refine ⟨a', ?_, fun n => ?_⟩
      · rw [b', b]; simp [opSpreadNames, List.append_assoc]
      · rw [c' n, c]; simp [fragSpreadNames]
  | .frag f :: ds, st, h => by
      simp only [List.flatMap_cons, List.foldl_append, defGEvs, List.cons_append, List.foldl_cons, List.foldl_nil]
      obtain ⟨a, b, c⟩ := nufG_spreads_frag f.name (recursiveSpreads f.sel) (nufG st (.enterFrag f)) rfl
      have hcur : (nufG ((List.map GEv.spread (recursiveSpreads f.sel)).foldl nufG (nufG st (.enterFrag f))) .leaveFrag).cur = none := rfl
      obtain ⟨a', b', c'⟩ := nufG_defs ds _ hcur
      refine ⟨a', ?_, fun n => ?_⟩
      · rw [b']
        show (List.foldl nufG (nufG st (.enterFrag f)) (List.map GEv.spread (recursiveSpreads f.sel))).opSpreads ++ _ = _
        rw [b]; simp [opSpreadNames, nufG]
      · rw [c' n]
        show fragSucc (List.foldl nufG (nufG st (.enterFrag f)) (List.map GEv.spread (recursiveSpreads f.sel))).fragSpreads n ++ _ = _
        rw [c n]
        simp [fragSpreadNames, nufG, List.append_assoc]

theorem fragSpreadNames_eq (d : Document) (n : Name) : fragSpreadNames d n = spreadsOf d n := by
  unfold fragSpreadNames spreadsOf
  induction d with
  | nil => simp [Document.fragments]
  | cons x xs ih =>
    cases x with
    | op o => simpa [Document.fragments] using ih
    | frag f =>
      simp only [List.flatMap_cons, Document.fragments, List.filter_cons, beq_iff_eq]
      by_cases h : f.name = n
      · simp only [h, if_true, List.flatMap_cons]; rw [← ih]
      · simp only [h, if_false, List.nil_append]; exact ih

theorem opSpreadNames_eq (d : Document) :
    opSpreadNames d = d.operations.flatMap fun o => (recursiveSpreads o.sel).map (·.name) := by
  unfold opSpreadNames
  induction d with
  | nil => simp [Document.operations]
  | cons x xs ih => cases x <;> simp [Document.operations, ih]

end Gql
