/-
  Lemmas/Collect.lean — the fuel-driven `collectN` computes the spec relation `Collects`
  (soundness), and never runs out of fuel when given more fuel than there are fragment
  definitions whose name is still unvisited (termination, also on cyclic fragment graphs).
-/
import GqlVerif.Spec.Collect
import GqlVerif.Lemmas.Schema
namespace Gql
open Gql.Spec

section
variable (s : Schema) (d : Document) (R : TypeDef)

/-- the parent type is an object type defined in a schema with unique type names -/
structure ParentOk : Prop where
  nodup : s.typeNames.Nodup
  mem : SDef.type R ∈ s
  obj : R.isObject = true

theorem conditionMatches_iff (h : ParentOk s R) (tc : Option Name) :
    conditionMatches s tc R = true ↔ Applies s R tc := by
  cases tc with
  | none => simp [conditionMatches, Applies]
  | some c =>
    simp only [conditionMatches, Applies]
    cases hc : s.typeByName c with
    | none => simp
    | some ct =>
      have hname := (typeByName_some hc).2
      by_cases heq : ct.name = R.name
      · -- same name: with unique names `ct` is `R`, an object type
        have hR := typeByName_of_mem h.nodup h.mem
        rw [← heq, hname, hc] at hR
        have : ct = R := Option.some.inj hR
        subst this
        have hobj := h.obj
        cases ct <;> simp [TypeDef.isObject] at hobj
        simp [TypeDef.name]
      · have hne : (ct.name == R.name) = false := by simpa using heq
        simp only [hne, Bool.false_eq_true, if_false]
        cases ct with
        | object n is fs => simp [TypeDef.name] at heq ⊢; exact heq
        | interface n is fs =>
          simp only [isImplementedBy, List.any_eq_true, beq_iff_eq]
          exact ⟨fun ⟨x, hx, h⟩ => h ▸ hx, fun hx => ⟨n, hx, rfl⟩⟩
        | union n ms =>
          simp only [List.any_eq_true, beq_iff_eq]
          exact ⟨fun ⟨x, hx, h⟩ => h ▸ hx, fun hx => ⟨R.name, hx, rfl⟩⟩
        | scalar n => simp
        | enum n vs => simp
        | inputObject n fs => simp

def SelsOk (xs : List Selection) (st st2 : CState) : Prop :=
  st2.stuck = false → st.stuck = false ∧
    ∃ fs, Collects s d R xs st.visited fs st2.visited ∧ st2.groups = fs.foldl addField st.groups

def SelOk (x : Selection) (st st1 : CState) : Prop :=
  st1.stuck = false → st.stuck = false ∧
    ∀ rest fs2 vis2, Collects s d R rest st1.visited fs2 vis2 →
      ∃ fs1, Collects s d R (x :: rest) st.visited (fs1 ++ fs2) vis2 ∧ st1.groups = fs1.foldl addField st.groups

/-- what the structural part needs to know about the function called at a spread -/
def ExpandSpec (expand : Name → CState → CState) : Prop :=
  ∀ name st,
    match d.fragByName name with
    | none => expand name st = st
    | some frag =>
      if conditionMatches s (some frag.tc) R then SelsOk s d R frag.sel st (expand name st)
      else expand name st = st

mutual
theorem collectSel_ok (h : ParentOk s R) (expand : Name → CState → CState) (hE : ExpandSpec s d R expand) :
    ∀ (x : Selection) (st : CState), SelOk s d R x st (collectSel s R expand x st)
  | .field pos alias name args dirs sel, st => by
      intro hns
      simp only [collectSel] at hns ⊢
      refine ⟨hns, fun rest fs2 vis2 hc => ⟨[⟨pos, alias, name, args, dirs, sel⟩], ?_, by simp⟩⟩
      exact Collects.field hc
  | .inline pos tc dirs sel, st => by
      intro hns
      simp only [collectSel] at hns ⊢
      by_cases hm : conditionMatches s tc R = true
      · simp only [hm, if_true] at hns ⊢
        obtain ⟨h0, fs1, hc1, hg⟩ := collectSels_ok h expand hE sel st hns
        refine ⟨h0, fun rest fs2 vis2 hc => ⟨fs1, ?_, hg⟩⟩
        exact Collects.inlineExpand ((conditionMatches_iff s R h tc).1 hm) hc1 hc
      · simp only [hm, Bool.false_eq_true, if_false] at hns ⊢
        refine ⟨hns, fun rest fs2 vis2 hc => ⟨[], ?_, by simp⟩⟩
        exact Collects.inlineSkip (fun ha => hm ((conditionMatches_iff s R h tc).2 ha)) hc
  | .spread pos name dirs, st => by
      intro hns
      simp only [collectSel] at hns ⊢
      by_cases hv : st.visited.contains name = true
      · simp only [hv, if_true] at hns ⊢
        refine ⟨hns, fun rest fs2 vis2 hc => ⟨[], ?_, by simp⟩⟩
        exact Collects.spreadVisited (by simpa using hv) hc
      · simp only [hv, Bool.false_eq_true, if_false] at hns ⊢
        have hnv : name ∉ st.visited := by simpa using hv
        have hspec := hE name { st with visited := st.visited ++ [name] }
        cases hf : d.fragByName name with
        | none =>
          simp only [hf] at hspec
          rw [hspec] at hns ⊢
          refine ⟨hns, fun rest fs2 vis2 hc => ⟨[], ?_, by simp⟩⟩
          exact Collects.spreadUnknown hnv hf hc
        | some frag =>
          simp only [hf] at hspec
          by_cases hm : conditionMatches s (some frag.tc) R = true
          · simp only [hm, if_true] at hspec
            obtain ⟨h0, fs1, hc1, hg⟩ := hspec hns
            refine ⟨h0, fun rest fs2 vis2 hc => ⟨fs1, ?_, hg⟩⟩
            exact Collects.spreadExpand hnv hf ((conditionMatches_iff s R h _).1 hm) hc1 hc
          · simp only [hm, Bool.false_eq_true, if_false] at hspec
            rw [hspec] at hns ⊢
            refine ⟨hns, fun rest fs2 vis2 hc => ⟨[], ?_, by simp⟩⟩
            exact Collects.spreadSkip hnv hf (fun ha => hm ((conditionMatches_iff s R h _).2 ha)) hc
theorem collectSels_ok (h : ParentOk s R) (expand : Name → CState → CState) (hE : ExpandSpec s d R expand) :
    ∀ (xs : List Selection) (st : CState), SelsOk s d R xs st (collectSels s R expand xs st)
  | [], st => by
      intro hns
      simp only [collectSels] at hns ⊢
      exact ⟨hns, [], Collects.nil _, rfl⟩
  | x :: xs, st => by
      intro hns
      simp only [collectSels] at hns ⊢
      obtain ⟨h1, fs2, hc2, hg2⟩ := collectSels_ok h expand hE xs _ hns
      obtain ⟨h0, hk⟩ := collectSel_ok h expand hE x st h1
      obtain ⟨fs1, hc1, hg1⟩ := hk xs fs2 _ hc2
      exact ⟨h0, fs1 ++ fs2, hc1, by rw [hg2, hg1, List.foldl_append]⟩
end

theorem collectN_ok (h : ParentOk s R) : ∀ (n : Nat) (sel : List Selection) (st : CState),
    SelsOk s d R sel st (collectN s d R n sel st)
  | 0, sel, st => by intro hns; simp [collectN] at hns
  | n + 1, sel, st => by
      simp only [collectN]
      apply collectSels_ok s d R h
      intro name st'
      cases hf : d.fragByName name with
      | none => simp only [hf]
      | some frag =>
        by_cases hm : conditionMatches s (some frag.tc) R = true
        · simp only [hf, hm, if_true]; exact collectN_ok h n frag.sel st'
        · simp only [hf, hm, Bool.false_eq_true, if_false]

/-! ### Termination -/

/-- fragment definitions whose name has not been visited yet -/
def remaining (vis : List Name) : Nat := (d.fragments.filter fun f => !vis.contains f.name).length

theorem fragByName_some_mem {name : Name} {frag : FragDef} (hf : d.fragByName name = some frag) :
    frag ∈ d.fragments ∧ frag.name = name := by
  unfold Document.fragByName at hf
  have h1 := List.find?_some hf
  have h2 := List.mem_of_find?_eq_some hf
  exact ⟨by simpa using h2, by simpa using h1⟩

theorem filter_length_lt {α : Type} (l : List α) (p q : α → Bool) (hpq : ∀ x, q x = true → p x = true)
    (x : α) (hx : x ∈ l) (hp : p x = true) (hq : q x = false) :
    (l.filter q).length < (l.filter p).length := by
  induction l with
  | nil => simp at hx
  | cons y ys ih =>
    simp only [List.mem_cons] at hx
    have hle : (ys.filter q).length ≤ (ys.filter p).length := by
      clear ih hx
      induction ys with
      | nil => simp
      | cons z zs ihz =>
        simp only [List.filter_cons]
        by_cases hz : q z = true
        · simp [hz, hpq z hz]; omega
        · have : q z = false := by simpa using hz
          simp only [this, Bool.false_eq_true, if_false]
          split <;> simp <;> omega
    rcases hx with rfl | hx
    · simp [List.filter_cons, hp, hq]; omega
    · have := ih hx
      simp only [List.filter_cons]
      by_cases hy : q y = true
      · simp [hy, hpq y hy]; omega
      · have hy' : q y = false := by simpa using hy
        simp only [hy', Bool.false_eq_true, if_false]
        split <;> simp <;> omega

theorem filter_length_le {α : Type} (l : List α) (p q : α → Bool) (hpq : ∀ x, q x = true → p x = true) :
    (l.filter q).length ≤ (l.filter p).length := by
  induction l with
  | nil => simp
  | cons z zs ihz =>
    simp only [List.filter_cons]
    by_cases hz : q z = true
    · simp [hz, hpq z hz]; omega
    · have : q z = false := by simpa using hz
      simp only [this, Bool.false_eq_true, if_false]
      split <;> simp <;> omega

theorem remaining_mono {v1 v2 : List Name} (h : ∀ x ∈ v1, x ∈ v2) : remaining d v2 ≤ remaining d v1 := by
  unfold remaining
  apply filter_length_le
  intro f hf
  simp only [Bool.not_eq_eq_eq_not, Bool.not_true, List.contains_eq_mem, decide_eq_false_iff_not] at hf ⊢
  exact fun hm => hf (h _ hm)

theorem remaining_push {vis : List Name} {name : Name} {frag : FragDef}
    (hf : d.fragByName name = some frag) (hnv : name ∉ vis) : remaining d (vis ++ [name]) < remaining d vis := by
  obtain ⟨hmem, hname⟩ := fragByName_some_mem d hf
  unfold remaining
  apply filter_length_lt _ _ _ _ frag hmem
  · simpa [hname] using hnv
  · simp [hname]
  · intro f hf'
    simp only [Bool.not_eq_eq_eq_not, Bool.not_true, List.contains_eq_mem, decide_eq_false_iff_not,
      List.mem_append, List.mem_singleton, not_or] at hf' ⊢
    exact hf'.1

/-- not stuck, and the visited list only grows -/
def TermOk (st st' : CState) : Prop := st'.stuck = false ∧ ∀ x ∈ st.visited, x ∈ st'.visited

def ExpandTerm (expand : Name → CState → CState) (n : Nat) : Prop :=
  ∀ name st, st.stuck = false →
    match d.fragByName name with
    | none => expand name st = st
    | some _ => remaining d st.visited < n → TermOk st (expand name st)

mutual
theorem collectSel_term (expand : Name → CState → CState) (n : Nat) (hE : ExpandTerm d expand n) :
    ∀ (x : Selection) (st : CState), st.stuck = false → remaining d st.visited ≤ n →
      TermOk st (collectSel s R expand x st)
  | .field pos alias name args dirs sel, st, h0, _ => by
      simp only [collectSel]; exact ⟨h0, fun x hx => hx⟩
  | .inline pos tc dirs sel, st, h0, hr => by
      simp only [collectSel]
      split
      · exact collectSels_term expand n hE sel st h0 hr
      · exact ⟨h0, fun x hx => hx⟩
  | .spread pos name dirs, st, h0, hr => by
      simp only [collectSel]
      split
      · exact ⟨h0, fun x hx => hx⟩
      · next hv =>
        have hnv : name ∉ st.visited := by simpa using hv
        have hspec := hE name { st with visited := st.visited ++ [name] } h0
        cases hf : d.fragByName name with
        | none =>
          simp only [hf] at hspec
          rw [hspec]
          exact ⟨h0, fun x hx => by simp [hx]⟩
        | some frag =>
          simp only [hf] at hspec
          have hlt : remaining d (st.visited ++ [name]) < n := by
            have := remaining_push d hf hnv; omega
          obtain ⟨h1, h2⟩ := hspec hlt
          exact ⟨h1, fun x hx => h2 x (by simp [hx])⟩
theorem collectSels_term (expand : Name → CState → CState) (n : Nat) (hE : ExpandTerm d expand n) :
    ∀ (xs : List Selection) (st : CState), st.stuck = false → remaining d st.visited ≤ n →
      TermOk st (collectSels s R expand xs st)
  | [], st, h0, _ => by simp only [collectSels]; exact ⟨h0, fun x hx => hx⟩
  | x :: xs, st, h0, hr => by
      simp only [collectSels]
      obtain ⟨h1, hm1⟩ := collectSel_term expand n hE x st h0 hr
      have hr1 : remaining d (collectSel s R expand x st).visited ≤ n := by
        have := remaining_mono d hm1; omega
      obtain ⟨h2, hm2⟩ := collectSels_term expand n hE xs _ h1 hr1
      exact ⟨h2, fun y hy => hm2 y (hm1 y hy)⟩
end

theorem collectN_term : ∀ (n : Nat) (sel : List Selection) (st : CState),
    st.stuck = false → remaining d st.visited < n → TermOk st (collectN s d R n sel st)
  | 0, _, _, _, hr => by omega
  | n + 1, sel, st, h0, hr => by
      simp only [collectN]
      apply collectSels_term s d R _ n _ sel st h0 (by omega)
      intro name st' h0'
      cases hf : d.fragByName name with
      | none => simp only [hf]
      | some frag =>
        simp only [hf]
        intro hlt
        split
        · exact collectN_term n frag.sel st' h0' hlt
        · exact ⟨h0', fun x hx => hx⟩

end

end Gql
