/-
  Lemmas/SelPermFinal.lean — the hypotheses of `merge_iff_acyclic` are unaffected by reordering
  selections, and `MergeViolated` is invariant under it.
-/
import GqlVerif.Lemmas.SelPermWalk
import GqlVerif.Thm.C14c
namespace Gql
open Gql.Spec

theorem DocRel.symm {d d' : Document} (h : DocRel d d') : DocRel d' d := by
  induction h with
  | refl d => exact .refl d
  | op o l hs =>
    have := DocRel.op { o with sel := _ } l hs.symm
    exact this
  | frag f l hs =>
    have := DocRel.frag { f with sel := _ } l hs.symm
    exact this
  | cons x _ ih => exact .cons x ih
  | trans _ _ ih1 ih2 => exact .trans ih2 ih1

/-- a property of every definition's selections that reordering preserves -/
theorem docRel_forall {P : List Selection → Prop} (hP : ∀ a b, SelsEq a b → P a → P b) {d d' : Document} (h : DocRel d d') :
    (∀ x ∈ d, P x.selections) → ∀ x ∈ d', P x.selections := by
  induction h with
  | refl d => exact id
  | op o l hs =>
    intro hd x hx
    rcases List.mem_cons.1 hx with rfl | hx
    · exact hP _ _ hs (hd (.op o) (by simp))
    · exact hd x (by simp [hx])
  | frag f l hs =>
    intro hd x hx
    rcases List.mem_cons.1 hx with rfl | hx
    · exact hP _ _ hs (hd (.frag f) (by simp))
    · exact hd x (by simp [hx])
  | cons y _ ih =>
    intro hd x hx
    rcases List.mem_cons.1 hx with rfl | hx
    · exact hd x (by simp)
    · exact ih (fun z hz => hd z (by simp [hz])) x hx
  | trans _ _ ih1 ih2 => exact fun hd => ih2 (ih1 hd)

theorem aoDoc_rel {d d' : Document} (h : DocRel d d') (hd : AODoc d) : AODoc d' :=
  docRel_forall (P := aoSels) (fun _ _ hs ha => (aoSels_rel hs).1 ha) h hd

theorem tcKnownSels_rel (s : Schema) {a b : List Selection} (h : SelsEq a b) : tcKnownSels s a = tcKnownSels s b := by
  induction h with
  | refl l => rfl
  | swap x y l => simp only [tcKnownSels]; cases tcKnownSel s x <;> cases tcKnownSel s y <;> simp
  | cons x _ ih => simp only [tcKnownSels, ih]
  | field pos alias name args dirs l _ ih => simp only [tcKnownSels, tcKnownSel, ih]
  | inline pos tc dirs l _ ih => simp only [tcKnownSels, tcKnownSel, ih]
  | trans _ _ ih1 ih2 => exact ih1.trans ih2

theorem tcKnown_rel (s : Schema) {d d' : Document} (h : DocRel d d') (ht : TcKnown s d) : TcKnown s d' :=
  docRel_forall (P := fun sel => tcKnownSels s sel = true) (fun _ _ hs ha => by rw [← tcKnownSels_rel s hs]; exact ha) h ht

/-! ### the spread graph -/

theorem recSpreads_rel {a b : List Selection} (h : SelsEq a b) : ∀ x, x ∈ recursiveSpreads a ↔ x ∈ recursiveSpreads b := by
  induction h with
  | refl l => intro x; exact Iff.rfl
  | swap x y l =>
    intro z
    simp only [recursiveSpreads, List.mem_append]
    constructor <;> (rintro (h | h | h); exact Or.inr (Or.inl h); exact Or.inl h; exact Or.inr (Or.inr h))
  | cons x _ ih => intro z; simp only [recursiveSpreads, List.mem_append, ih z]
  | field pos alias name args dirs l _ ih => intro z; simp only [recursiveSpreads, recursiveSpreadsSel, List.mem_append, ih z]
  | inline pos tc dirs l _ ih => intro z; simp only [recursiveSpreads, recursiveSpreadsSel, List.mem_append, ih z]
  | trans _ _ ih1 ih2 => intro z; exact (ih1 z).trans (ih2 z)

theorem spreadsOf_cons_frag (f : FragDef) (l : Document) (n x : Name) :
    x ∈ spreadsOf (.frag f :: l) n ↔ (f.name = n ∧ x ∈ (recursiveSpreads f.sel).map (·.name)) ∨ x ∈ spreadsOf l n := by
  unfold spreadsOf
  simp only [Document.fragments, List.filter_cons]
  by_cases h : f.name = n
  · simp [h]
  · simp [h]

theorem spreadsOf_cons_op (o : Operation) (l : Document) (n : Name) : spreadsOf (.op o :: l) n = spreadsOf l n := by
  unfold spreadsOf; simp only [Document.fragments]

theorem mem_spreadsOf_rel {d d' : Document} (h : DocRel d d') : ∀ n x, x ∈ spreadsOf d n ↔ x ∈ spreadsOf d' n := by
  induction h with
  | refl d => intro n x; exact Iff.rfl
  | op o l _ => intro n x; rw [spreadsOf_cons_op, spreadsOf_cons_op]
  | frag f l hs =>
    intro n x
    rw [spreadsOf_cons_frag, spreadsOf_cons_frag]
    simp only [List.mem_map]
    constructor
    · rintro (⟨h1, sp, hsp, rfl⟩ | h)
      · exact Or.inl ⟨h1, sp, (recSpreads_rel hs sp).1 hsp, rfl⟩
      · exact Or.inr h
    · rintro (⟨h1, sp, hsp, rfl⟩ | h)
      · exact Or.inl ⟨h1, sp, (recSpreads_rel hs sp).2 hsp, rfl⟩
      · exact Or.inr h
  | cons y _ ih =>
    intro n x
    cases y with
    | op o => rw [spreadsOf_cons_op, spreadsOf_cons_op]; exact ih n x
    | frag f => rw [spreadsOf_cons_frag, spreadsOf_cons_frag, ih n x]
  | trans _ _ ih1 ih2 => intro n x; exact (ih1 n x).trans (ih2 n x)

theorem fragmentCycle_rel {d d' : Document} (h : DocRel d d') (hc : FragmentCycle d) : FragmentCycle d' := by
  obtain ⟨a, b, hb, hr⟩ := hc
  exact ⟨a, b, (mem_spreadsOf_rel h a b).1 hb, C14.reachable_congr (mem_spreadsOf_rel h) hr⟩

/-! ### unique argument names: the syntactic and the walk-based reading -/

mutual
theorem aoField_of_sel : ∀ (x : Selection) (f : FieldNode), aoSel x → Ev.enter (.field f) ∈ traverseSelection x → (f.args.map (·.1)).Nodup
  | .field pos alias name args dirs sel0, f, h, hm => by
      simp only [aoSel] at h
      simp only [traverseSelection, List.cons_append, List.mem_cons, List.mem_append, List.not_mem_nil, or_false, or_assoc] at hm
      rcases hm with hm | hm | hm | hm | hm | hm | hm
      · have : f = ⟨pos, alias, name, args, dirs, sel0⟩ := by simpa using hm
        subst this; exact h.1
      · have := (below_arguments args) _ hm; simp [Ev.node, Node.level] at this
      · have := (below_directives dirs) _ hm; simp [Ev.node, Node.level] at this
      · cases hm
      · exact aoField_of_sels sel0 f h.2 hm
      · cases hm
      · cases hm
  | .spread pos name dirs, f, _, hm => by
      simp only [traverseSelection, List.cons_append, List.mem_cons, List.mem_append, List.not_mem_nil, or_false, or_assoc] at hm
      rcases hm with hm | hm | hm
      · cases hm
      · have := (below_directives dirs) _ hm; simp [Ev.node, Node.level] at this
      · cases hm
  | .inline pos tc dirs sel0, f, h, hm => by
      simp only [aoSel] at h
      simp only [traverseSelection, List.cons_append, List.mem_cons, List.mem_append, List.not_mem_nil, or_false, or_assoc] at hm
      rcases hm with hm | hm | hm | hm | hm | hm
      · cases hm
      · have := (below_directives dirs) _ hm; simp [Ev.node, Node.level] at this
      · cases hm
      · exact aoField_of_sels sel0 f h hm
      · cases hm
      · cases hm
theorem aoField_of_sels : ∀ (xs : List Selection) (f : FieldNode), aoSels xs → Ev.enter (.field f) ∈ traverseSelections xs → (f.args.map (·.1)).Nodup
  | [], _, _, hm => by simp [traverseSelections] at hm
  | x :: xs, f, h, hm => by
      simp only [aoSels] at h
      simp only [traverseSelections, List.mem_append] at hm
      rcases hm with hm | hm
      · exact aoField_of_sel x f h.1 hm
      · exact aoField_of_sels xs f h.2 hm
end

/-- an event below the definitions of the document lies in the traversal of one definition's selection set,
    or is one of the few callbacks of the definition itself -/
theorem traverse_defs_cases : ∀ (ds : List Definition) (ev : Ev), ev ∈ traverseDefinitions ds →
    ∃ x ∈ ds, ev ∈ traverseDefinition x
  | [], ev, h => by simp [traverseDefinitions] at h
  | x :: ds, ev, h => by
      simp only [traverseDefinitions, List.mem_append] at h
      rcases h with h | h
      · exact ⟨x, by simp, h⟩
      · obtain ⟨y, hy, hev⟩ := traverse_defs_cases ds ev h
        exact ⟨y, by simp [hy], hev⟩

theorem level_varDefs : ∀ (vs : List VarDef) (ev : Ev), ev ∈ traverseVarDefs vs → ev.node.level = 4 ∨ ev.node.level ≤ 0
  | [], ev, h => by simp [traverseVarDefs] at h
  | v :: vs, ev, h => by
      simp only [traverseVarDefs, List.cons_append, List.mem_cons, List.mem_append, List.not_mem_nil, or_false, or_assoc] at h
      rcases h with h | h | h | h
      · subst h; simp [Ev.node, Node.level]
      · cases hd : v.default with
        | none => rw [hd] at h; simp at h
        | some dv => rw [hd] at h; exact Or.inr ((below_value dv) _ h)
      · subst h; simp [Ev.node, Node.level]
      · exact level_varDefs vs ev h

/-- what the walk enters of a definition lies in its selection set, for the two kinds of callbacks used here -/
theorem selset_of_def (x : Definition) (sel : List Selection) (h : Ev.enter (.selectionSet sel) ∈ traverseDefinition x) :
    sel = x.selections ∨ Ev.enter (.selectionSet sel) ∈ traverseSelections x.selections := by
  cases x with
  | frag f =>
    simp only [traverseDefinition, traverseSelectionSet, List.cons_append, List.mem_cons, List.mem_append, List.not_mem_nil, or_false, or_assoc] at h
    rcases h with h | h | h | h | h | h
    · cases h
    · have := (below_directives f.dirs) _ h; simp [Ev.node, Node.level] at this
    · exact Or.inl (by simpa [Definition.selections] using h)
    · exact Or.inr h
    · cases h
    · cases h
  | op o =>
    simp only [traverseDefinition, traverseSelectionSet, List.cons_append, List.mem_cons, List.mem_append, List.not_mem_nil, or_false, or_assoc] at h
    rcases h with h | h | h | h | h | h | h
    · cases h
    · have := (below_directives o.dirs) _ h; simp [Ev.node, Node.level] at this
    · have := level_varDefs o.vars _ h; simp [Ev.node, Node.level] at this
    · exact Or.inl (by simpa [Definition.selections] using h)
    · exact Or.inr h
    · cases h
    · cases h

theorem field_of_def (x : Definition) (f : FieldNode) (h : Ev.enter (.field f) ∈ traverseDefinition x) :
    Ev.enter (.field f) ∈ traverseSelections x.selections := by
  cases x with
  | frag fr =>
    simp only [traverseDefinition, traverseSelectionSet, List.cons_append, List.mem_cons, List.mem_append, List.not_mem_nil, or_false, or_assoc] at h
    rcases h with h | h | h | h | h | h
    · cases h
    · have := (below_directives fr.dirs) _ h; simp [Ev.node, Node.level] at this
    · cases h
    · exact h
    · cases h
    · cases h
  | op o =>
    simp only [traverseDefinition, traverseSelectionSet, List.cons_append, List.mem_cons, List.mem_append, List.not_mem_nil, or_false, or_assoc] at h
    rcases h with h | h | h | h | h | h | h
    · cases h
    · have := (below_directives o.dirs) _ h; simp [Ev.node, Node.level] at this
    · have := level_varDefs o.vars _ h; simp [Ev.node, Node.level] at this
    · cases h
    · exact h
    · cases h
    · cases h

theorem aoSels_of_walk (s : Schema) (d : Document) (hq : s.queryType.isSome = true) (hd : AODoc d)
    (sel : List Selection) (env : Snap) (hm : (Ev.enter (.selectionSet sel), env) ∈ walkOf s d) : aoSels sel := by
  have h := enter_of_walk s d hq hm
  simp only [traverseDocument, List.cons_append, List.mem_cons, List.mem_append, List.not_mem_nil, or_false] at h
  rcases h with h | h | h
  · cases h
  · obtain ⟨x, hx, hev⟩ := traverse_defs_cases d _ h
    rcases selset_of_def x sel hev with rfl | h'
    · exact hd x hx
    · exact aoSels_of_traverse _ sel (hd x hx) h'
  · cases h

theorem argsUniq_of_aoDoc (s : Schema) (d : Document) (hq : s.queryType.isSome = true) (hd : AODoc d) : ArgsUniq s d := by
  intro f env hm
  have h := enter_of_walk s d hq hm
  simp only [traverseDocument, List.cons_append, List.mem_cons, List.mem_append, List.not_mem_nil, or_false] at h
  rcases h with h | h | h
  · cases h
  · obtain ⟨x, hx, hev⟩ := traverse_defs_cases d _ h
    exact aoField_of_sels _ f (hd x hx) (field_of_def x f hev)
  · cases h

/-! ### FieldsInSetCanMerge for the whole document -/

theorem mergeViolated_selrel_mp (s : Schema) (hq : s.queryType.isSome = true) {d d' : Document} (h : DocRel d d') (hd : AODoc d)
    (hv : MergeViolated s d) : MergeViolated s d' := by
  obtain ⟨sel, env, hm, hf⟩ := hv
  obtain ⟨sel', hs, hm'⟩ := selset_doc_rel s hq h sel env hm
  refine ⟨sel', env, hm', ?_⟩
  have hlen := fragments_length_rel h
  have hsf : spreadFuelOf d' = spreadFuelOf d := by unfold spreadFuelOf; rw [hlen]
  have hnf : nestFuelOf d' = nestFuelOf d := by unfold nestFuelOf; rw [hlen, docDepth_rel h]
  rw [hsf, hnf]
  have hl : LRel (specFields s d (spreadFuelOf d) env.parent sel) (specFields s d' (spreadFuelOf d) env.parent sel') :=
    specFieldsWith_rel s hs _ _ (spreadFields_rel s h _) _
  have hg : ∀ a ∈ specFields s d (spreadFuelOf d) env.parent sel, GA a :=
    specSels_good s _ (spread_good s d hd _) sel _ (aoSels_of_walk s d hq hd sel env hm)
  rw [← cm_rel s h hd _ _ hl hg]
  exact hf

theorem mergeViolated_selrel (s : Schema) (hq : s.queryType.isSome = true) {d d' : Document} (h : DocRel d d') (hd : AODoc d) :
    MergeViolated s d ↔ MergeViolated s d' :=
  ⟨mergeViolated_selrel_mp s hq h hd, mergeViolated_selrel_mp s hq h.symm (aoDoc_rel h hd)⟩

end Gql
