/-
  Lemmas/MergeVisited.lean — the selection sets the walk visits in a spread-free document: each is
  followed by the walk of its own items, its items' sub-selections are visited with exactly the
  parent type the spec collects them on, and the field-merging rule's state never changes.
-/
import GqlVerif.Lemmas.MergeSpecFF
import GqlVerif.Lemmas.Levels
import GqlVerif.Lemmas.Traverse
import GqlVerif.Lemmas.DefTrace
namespace Gql
open Gql.Spec

mutual
/-- every inline fragment's type condition is a declared type -/
def tcKnownSel (s : Schema) : Selection → Bool
  | .field _ _ _ _ _ sel => tcKnownSels s sel
  | .spread _ _ _ => true
  | .inline _ tc _ sel => (match tc with | some c => (s.typeByName c).isSome | none => true) && tcKnownSels s sel
def tcKnownSels (s : Schema) : List Selection → Bool
  | [] => true
  | x :: xs => tcKnownSel s x && tcKnownSels s xs
end

/-- what the merging proof needs of a selection set: no spreads, declared type conditions, bounded depth -/
def GoodSel (s : Schema) (D : Nat) (sel : List Selection) : Prop :=
  recursiveSpreads sel = [] ∧ tcKnownSels s sel = true ∧ selsDepth sel ≤ D

/-- the selection-set callbacks of the trace: same current and parent type, a good selection set,
    and the walk of its items is part of the trace -/
def SSC (s : Schema) (D : Nat) (tr : Trace) : Prop :=
  ∀ sel env, (Ev.enter (.selectionSet sel), env) ∈ tr →
    env.cur = env.parent ∧ GoodSel s D sel ∧ ∀ ev ∈ walkSelections s env sel, ev ∈ tr

theorem SSC.nil (s : Schema) (D : Nat) : SSC s D [] := by intro sel env h; simp at h
theorem SSC.append {s : Schema} {D : Nat} {a b : Trace} (ha : SSC s D a) (hb : SSC s D b) : SSC s D (a ++ b) := by
  intro sel env h
  rcases List.mem_append.1 h with h | h
  · obtain ⟨h1, h2, h3⟩ := ha sel env h
    exact ⟨h1, h2, fun ev hev => List.mem_append_left _ (h3 ev hev)⟩
  · obtain ⟨h1, h2, h3⟩ := hb sel env h
    exact ⟨h1, h2, fun ev hev => List.mem_append_right _ (h3 ev hev)⟩
theorem SSC.cons {s : Schema} {D : Nat} {e : Ev × Snap} {t : Trace} (he : ∀ sel, e.1 ≠ .enter (.selectionSet sel))
    (ht : SSC s D t) : SSC s D (e :: t) := by
  intro sel env h
  rcases List.mem_cons.1 h with h | h
  · exact absurd (congrArg Prod.fst h).symm (he sel)
  · obtain ⟨h1, h2, h3⟩ := ht sel env h
    exact ⟨h1, h2, fun ev hev => List.mem_cons_of_mem _ (h3 ev hev)⟩

/-- traces whose events sit below the selection level have no selection-set callback -/
theorem SSC.of_below {s : Schema} {D : Nat} {t : Trace} (h : Below 2 (t.map Prod.fst)) : SSC s D t := by
  intro sel env hm
  have := h _ (List.mem_map.2 ⟨_, hm, rfl⟩)
  simp [Ev.node, Node.level] at this

theorem ssc_arguments (s : Schema) (D : Nat) (defs : Option (List InputValueDef)) (e : Snap) (as : List Arg) :
    SSC s D (walkArguments s defs e as) :=
  SSC.of_below (by rw [walkArguments_events]; exact (below_arguments as).mono (by omega))
theorem ssc_directives (s : Schema) (D : Nat) (e : Snap) (ds : List Directive) : SSC s D (walkDirectives s e ds) :=
  SSC.of_below (by rw [walkDirectives_events]; exact below_directives ds)

theorem goodSel_cons {s : Schema} {D : Nat} {x : Selection} {xs : List Selection} (h : GoodSel s D (x :: xs)) :
    GoodSel s D xs ∧ recursiveSpreadsSel x = [] ∧ tcKnownSel s x = true ∧ selDepth x ≤ D := by
  obtain ⟨h1, h2, h3⟩ := h
  simp only [recursiveSpreads, List.append_eq_nil_iff] at h1
  simp only [tcKnownSels, Bool.and_eq_true] at h2
  simp only [selsDepth] at h3
  exact ⟨⟨h1.2, h2.2, by omega⟩, h1.1, h2.1, by omega⟩

theorem ssc_selectionSetWith (s : Schema) (D : Nat) (e : Snap) (sel : List Selection) (hg : GoodSel s D sel)
    (hin : SSC s D (walkSelections s e.withParent sel)) :
    SSC s D (walkSelectionSetWith e sel (fun e' => walkSelections s e' sel)) := by
  intro sel' env h
  simp only [walkSelectionSetWith, List.cons_append, List.mem_cons, List.mem_append, List.not_mem_nil, or_false] at h
  rcases h with h | h | h
  · -- the selection set itself
    obtain ⟨hs, he⟩ := Prod.mk.inj h
    have hs' : sel' = sel := by simpa using hs
    subst hs'; subst he
    refine ⟨rfl, hg, fun ev hev => ?_⟩
    simp only [walkSelectionSetWith, List.cons_append, List.mem_cons, List.mem_append]
    exact Or.inr (Or.inl hev)
  · obtain ⟨a, b, c⟩ := hin sel' env h
    refine ⟨a, b, fun ev hev => ?_⟩
    simp only [walkSelectionSetWith, List.cons_append, List.mem_cons, List.mem_append]
    exact Or.inr (Or.inl (c ev hev))
  · have := congrArg Prod.fst h
    simp at this

mutual
theorem ssc_selection (s : Schema) (D : Nat) : ∀ (x : Selection) (e : Snap),
    recursiveSpreadsSel x = [] → tcKnownSel s x = true → selDepth x ≤ D → SSC s D (walkSelection s e x)
  | .field pos alias name args dirs sel, e, h1, h2, h3 => by
      simp only [walkSelection, List.cons_append]
      have hg : GoodSel s D sel := ⟨by simpa [recursiveSpreadsSel] using h1, by simpa [tcKnownSel] using h2,
        by simp only [selDepth] at h3; omega⟩
      refine SSC.cons (by intro sel'; simp) ?_
      refine SSC.append (SSC.append (SSC.append (ssc_arguments s D _ _ args) (ssc_directives s D _ dirs)) ?_)
        (SSC.cons (by intro sel'; simp) (SSC.nil s D))
      exact ssc_selectionSetWith s D _ sel hg (ssc_selections s D sel _ hg)
  | .spread pos name dirs, e, h1, _, _ => by simp [recursiveSpreadsSel] at h1
  | .inline pos tc dirs sel, e, h1, h2, h3 => by
      simp only [walkSelection, List.cons_append]
      have hg : GoodSel s D sel := ⟨by simpa [recursiveSpreadsSel] using h1, by
        simp only [tcKnownSel, Bool.and_eq_true] at h2; exact h2.2, by simp only [selDepth] at h3; omega⟩
      refine SSC.cons (by intro sel'; simp) ?_
      refine SSC.append (SSC.append (ssc_directives s D _ dirs) ?_) (SSC.cons (by intro sel'; simp) (SSC.nil s D))
      exact ssc_selectionSetWith s D _ sel hg (ssc_selections s D sel _ hg)
theorem ssc_selections (s : Schema) (D : Nat) : ∀ (xs : List Selection) (e : Snap), GoodSel s D xs →
    SSC s D (walkSelections s e xs)
  | [], _, _ => SSC.nil s D
  | x :: xs, e, hg => by
      obtain ⟨hgx, h1, h2, h3⟩ := goodSel_cons hg
      simp only [walkSelections]
      exact SSC.append (ssc_selection s D x e h1 h2 h3) (ssc_selections s D xs e hgx)
end

end Gql

namespace Gql
open Gql.Spec

theorem SSC.of_noSelSet {s : Schema} {D : Nat} {t : Trace} (h : ∀ e ∈ t, ∀ sel, e.1 ≠ .enter (.selectionSet sel)) : SSC s D t := by
  intro sel env hm
  exact absurd rfl (h _ hm sel)

theorem ssc_varDefs (s : Schema) (D : Nat) (e : Snap) : ∀ vs : List VarDef, SSC s D (walkVarDefs s e vs)
  | [] => SSC.nil s D
  | v :: vs => by
      simp only [walkVarDefs, List.cons_append]
      refine SSC.cons (by intro sel; simp) (SSC.append (SSC.append ?_ (SSC.cons (by intro sel; simp) (SSC.nil s D))) (ssc_varDefs s D e vs))
      cases v.default with
      | none => exact SSC.nil s D
      | some dv => exact SSC.of_below (by rw [walkValue_events]; exact (below_value dv).mono (by omega))

theorem selsDepth_le_docDepth : ∀ (d : Document) (x : Definition), x ∈ d → selsDepth x.selections ≤ docDepth d
  | [], _, h => by simp at h
  | y :: ys, x, h => by
      simp only [docDepth]
      rcases List.mem_cons.1 h with rfl | h
      · omega
      · have := selsDepth_le_docDepth ys x h; omega

/-- no fragment spread anywhere / every inline type condition declared -/
def SpreadFree (d : Document) : Prop := ∀ x ∈ d, recursiveSpreads x.selections = []
def TcKnown (s : Schema) (d : Document) : Prop := ∀ x ∈ d, tcKnownSels s x.selections = true

theorem ssc_definition (s : Schema) (D : Nat) (e : Snap) (x : Definition) (hg : GoodSel s D x.selections) (t : Trace)
    (h : walkDefinition s e x = some t) : SSC s D t := by
  cases x with
  | frag f =>
    simp only [walkDefinition, Option.some.injEq] at h
    subst h
    refine SSC.cons (by intro sel; simp) (SSC.append (SSC.append (ssc_directives s D _ f.dirs) ?_) (SSC.cons (by intro sel; simp) (SSC.nil s D)))
    exact ssc_selectionSetWith s D _ f.sel hg (ssc_selections s D f.sel _ hg)
  | op o =>
    simp only [walkDefinition, Option.map_eq_some_iff] at h
    obtain ⟨tn, _, rfl⟩ := h
    refine SSC.cons (by intro sel; simp) (SSC.append (SSC.append (SSC.append (ssc_directives s D _ o.dirs) (ssc_varDefs s D _ o.vars)) ?_)
      (SSC.cons (by intro sel; simp) (SSC.nil s D)))
    exact ssc_selectionSetWith s D _ o.sel hg (ssc_selections s D o.sel _ hg)

/-- the whole walk of a spread-free document with declared type conditions -/
theorem ssc_walkOf (s : Schema) (d : Document) (hq : s.queryType.isSome = true) (hsf : SpreadFree d) (htc : TcKnown s d) :
    SSC s (docDepth d) (walkOf s d) := by
  obtain ⟨hw, hall⟩ := walkOf_defs s d hq
  rw [hw]
  refine SSC.cons (by intro sel; simp) (SSC.append ?_ (SSC.cons (by intro sel; simp) (SSC.nil s _)))
  have : ∀ ds : List Definition, (∀ x ∈ ds, x ∈ d) → SSC s (docDepth d) (ds.flatMap (defTrace s)) := by
    intro ds
    induction ds with
    | nil => intro _; exact SSC.nil s _
    | cons x xs ih =>
      intro hsub
      simp only [List.flatMap_cons]
      refine SSC.append ?_ (ih (fun y hy => hsub y (by simp [hy])))
      have hx := hsub x (by simp)
      obtain ⟨t, ht⟩ := Option.isSome_iff_exists.1 (hall x hx)
      have hdt : defTrace s x = t := by simp [defTrace, ht]
      rw [hdt]
      exact ssc_definition s _ _ x ⟨hsf x hx, htc x hx, selsDepth_le_docDepth d x hx⟩ t ht
  exact this d (fun _ h => h)

/-! ### the sub-selection of a collected field is visited, with the type the spec collects it on -/

theorem resolve_fieldType (s : Schema) (fd : Option FieldDef) :
    s.resolve (fd.map (·.ty)) = (fd.map (·.ty.inner)).bind s.typeByName := by
  cases fd <;> simp [Schema.resolve]

mutual
theorem selwalk_selection (s : Schema) : ∀ (x : Selection) (e : Snap), e.cur = e.parent →
    recursiveSpreadsSel x = [] → tcKnownSel s x = true →
    ∀ a ∈ specFieldsSelWith s (fun _ => []) e.parent x, a.field.sel ≠ [] →
      ∃ env', (Ev.enter (.selectionSet a.field.sel), env') ∈ walkSelection s e x ∧
        env'.parent = (a.fdef.map (·.ty.inner)).bind s.typeByName
  | .field pos alias name args dirs sel, e, _, _, _, a, ha, _ => by
      simp only [specFieldsSelWith, List.mem_singleton] at ha
      subst ha
      refine ⟨(((e.withType s ((e.parent.bind (·.fieldByName name)).map (·.ty))).withField
          (e.parent.bind (·.fieldByName name))).withParent), ?_, ?_⟩
      · simp [walkSelection, walkSelectionSetWith]
      · simp only [Snap.withParent, Snap.withField, Snap.withType]
        exact resolve_fieldType s _
  | .spread _ _ _, _, _, h, _, _, _, _ => by simp [recursiveSpreadsSel] at h
  | .inline pos tc dirs sel, e, hcp, hff, htc, a, ha, hne => by
      simp only [specFieldsSelWith] at ha
      simp only [recursiveSpreadsSel] at hff
      simp only [tcKnownSel, Bool.and_eq_true] at htc
      -- the environment the inline fragment's selection set is walked in
      have key : ∀ (e1 : Snap), e1.cur = inlineParent s tc e.parent →
          ∃ env', (Ev.enter (.selectionSet a.field.sel), env') ∈ walkSelections s e1.withParent sel ∧
            env'.parent = (a.fdef.map (·.ty.inner)).bind s.typeByName := by
        intro e1 h1
        have hp : e1.withParent.parent = inlineParent s tc e.parent := by simp [Snap.withParent, h1]
        have := selwalk_selections s sel e1.withParent (by simp [Snap.withParent]) hff htc.2 a (by rw [hp]; exact ha) hne
        exact this
      cases tc with
      | none =>
        obtain ⟨env', hm, hp⟩ := key e (by simp [inlineParent, hcp])
        refine ⟨env', ?_, hp⟩
        simp only [walkSelection, walkSelectionSetWith, List.cons_append, List.mem_cons, List.mem_append]
        right; left; right; right; left; exact hm
      | some c =>
        obtain ⟨t, ht⟩ := Option.isSome_iff_exists.1 htc.1
        obtain ⟨env', hm, hp⟩ := key (e.withType s (some (.named c))) (by
          simp [Snap.withType, Schema.resolve, Ty.inner, inlineParent, ht])
        refine ⟨env', ?_, hp⟩
        simp only [walkSelection, walkSelectionSetWith, List.cons_append, List.mem_cons, List.mem_append]
        right; left; right; right; left; exact hm
theorem selwalk_selections (s : Schema) : ∀ (xs : List Selection) (e : Snap), e.cur = e.parent →
    recursiveSpreads xs = [] → tcKnownSels s xs = true →
    ∀ a ∈ specFieldsWith s (fun _ => []) e.parent xs, a.field.sel ≠ [] →
      ∃ env', (Ev.enter (.selectionSet a.field.sel), env') ∈ walkSelections s e xs ∧
        env'.parent = (a.fdef.map (·.ty.inner)).bind s.typeByName
  | [], _, _, _, _, a, ha, _ => by simp [specFieldsWith] at ha
  | x :: xs, e, hcp, hff, htc, a, ha, hne => by
      simp only [recursiveSpreads, List.append_eq_nil_iff] at hff
      simp only [tcKnownSels, Bool.and_eq_true] at htc
      simp only [specFieldsWith, List.mem_append] at ha
      simp only [walkSelections, List.mem_append]
      rcases ha with ha | ha
      · obtain ⟨env', hm, hp⟩ := selwalk_selection s x e hcp hff.1 htc.1 a ha hne
        exact ⟨env', Or.inl hm, hp⟩
      · obtain ⟨env', hm, hp⟩ := selwalk_selections s xs e hcp hff.2 htc.2 a ha hne
        exact ⟨env', Or.inr hm, hp⟩
end

theorem desc_nil (s : Schema) {G : List AstAndDef} (h : Desc s [] G) : G = [] := by
  cases h with
  | refl => rfl
  | step hm _ => simp at hm

/-- the field lists the walk visits -/
def Vis (s : Schema) (d : Document) (F : List AstAndDef) : Prop :=
  ∃ sel env, (Ev.enter (.selectionSet sel), env) ∈ walkOf s d ∧ F = specFieldsWith s (fun _ => []) env.parent sel

/-- visited lists are closed under descending into a field's sub-selection -/
theorem vis_desc (s : Schema) (d : Document) (hssc : SSC s (docDepth d) (walkOf s d)) :
    ∀ {F F' : List AstAndDef}, Desc s F F' → Vis s d F → F' ≠ [] → Vis s d F' := by
  intro F F' hd
  induction hd with
  | refl F => intro hv _; exact hv
  | @step F F' a ha _ ih =>
    intro hv hne
    by_cases hsel : a.field.sel = []
    · -- nothing below a leaf
      rename_i hdesc
      rw [subOf_nil s a hsel] at hdesc
      exact absurd (desc_nil s hdesc) hne
    · obtain ⟨sel, env, hm, rfl⟩ := hv
      obtain ⟨hcp, hg, hitems⟩ := hssc sel env hm
      obtain ⟨env', hm', hp⟩ := selwalk_selections s sel env hcp hg.1 hg.2.1 a ha hsel
      refine ih ⟨a.field.sel, env', hitems _ hm', ?_⟩ hne
      unfold subOf
      rw [hp]

end Gql
