/-
  Lemmas/Collector.lean — the bookkeeping shared by no_unused_variables.rs,
  no_undefined_variables.rs and variables_in_allowed_position.rs (`Coll.on`), characterised after
  a whole document: per operation its variable definitions, per scope what was met there.
-/
import GqlVerif.Lemmas.DefTrace
import GqlVerif.Lemmas.Levels
import GqlVerif.Lemmas.GraphEvents
import GqlVerif.Lemmas.Dfs
import GqlVerif.Lemmas.AssocList
import GqlVerif.Model.Rules.Variables
namespace Gql

section
variable {ι : Type}

/-- value recorded for a key (empty when absent) -/
def lookup {κ ν : Type} [DecidableEq κ] (m : List (κ × List ν)) (k : κ) : List ν := (alGet m k).getD []

theorem lookup_alUpdate {κ ν : Type} [DecidableEq κ] (m : List (κ × List ν)) (k0 k : κ) (xs : List ν) :
    lookup (alUpdate m k0 [] (· ++ xs)) k = lookup m k ++ (if k = k0 then xs else []) := by
  unfold lookup
  rw [alGet_alUpdate]
  by_cases h : k = k0
  · subst h; simp
  · simp [h]

theorem alUpdate_last {κ ν : Type} [DecidableEq κ] (pre : List (κ × ν)) (k : κ) (v d : ν) (f : ν → ν)
    (h : ∀ p ∈ pre, p.1 ≠ k) : alUpdate (pre ++ [(k, v)]) k d f = pre ++ [(k, f v)] := by
  unfold alUpdate
  have hany : (pre ++ [(k, v)]).any (fun p => decide (p.1 = k)) = true := by simp
  rw [hany]
  simp only [if_true, List.map_append, List.map_cons, List.map_nil]
  congr 1
  rw [List.map_congr_left (g := id)]
  · simp
  · intro p hp; simp [h p hp]

/-- what `itemsOf` may look at: nothing at definition level, spreads and variable definitions -/
structure ItemsOk (itemsOf : Ev × Snap → List ι) : Prop where
  defLevel : ∀ e, e.1.node.isDefinitionLevel = true → itemsOf e = []
  spread : ∀ sp sn, itemsOf (.enter (.spread sp), sn) = []
  varDef : ∀ v sn, itemsOf (.enter (.varDef v), sn) = []

def spreadNamesOf (tr : Trace) : List Name :=
  tr.filterMap fun e => match e.1 with | .enter (.spread sp) => some sp.name | _ => none
def varDefsOf (tr : Trace) : List VarDef :=
  tr.filterMap fun e => match e.1 with | .enter (.varDef v) => some v | _ => none

variable (itemsOf : Ev × Snap → List ι)

/-- state after the callbacks `tr` below definition level, met in scope `sc` -/
structure BodyPost (sc : Scope) (st st' : Coll ι) (tr : Trace) : Prop where
  scope : st'.scope = some sc
  ops : st'.ops = st.ops
  spreads : ∀ k, lookup st'.spreads k = lookup st.spreads k ++ (if k = sc then spreadNamesOf tr else [])
  items : ∀ k, lookup st'.items k = lookup st.items k ++ (if k = sc then tr.flatMap itemsOf else [])
  defsOp : ∀ i n pre vs, sc = .op i n → st.defs = pre ++ [((i, n), vs)] → (∀ p ∈ pre, p.1 ≠ (i, n)) →
    st'.defs = pre ++ [((i, n), vs ++ varDefsOf tr)]
  defsFrag : ∀ m, sc = .frag m → st'.defs = st.defs

theorem BodyPost.nil (sc : Scope) (st : Coll ι) (h : st.scope = some sc) : BodyPost itemsOf sc st st [] where
  scope := h
  ops := rfl
  spreads := fun k => by simp [spreadNamesOf]
  items := fun k => by simp
  defsOp := fun i n pre vs _ hd _ => by simp [varDefsOf, hd]
  defsFrag := fun _ _ => rfl

theorem BodyPost.trans {sc : Scope} {st st1 st2 : Coll ι} {a b : Trace}
    (h1 : BodyPost itemsOf sc st st1 a) (h2 : BodyPost itemsOf sc st1 st2 b) : BodyPost itemsOf sc st st2 (a ++ b) where
  scope := h2.scope
  ops := h2.ops.trans h1.ops
  spreads := fun k => by
    rw [h2.spreads k, h1.spreads k]
    by_cases hk : k = sc <;> simp [hk, spreadNamesOf, List.filterMap_append]
  items := fun k => by
    rw [h2.items k, h1.items k]
    by_cases hk : k = sc <;> simp [hk, List.flatMap_append]
  defsOp := fun i n pre vs hsc hd hp => by
    have e1 := h1.defsOp i n pre vs hsc hd hp
    have e2 := h2.defsOp i n pre _ hsc e1 hp
    rw [e2]; simp [varDefsOf, List.filterMap_append, List.append_assoc]
  defsFrag := fun m hm => (h2.defsFrag m hm).trans (h1.defsFrag m hm)

/-- one callback below definition level -/
theorem bodyPost_one (hok : ItemsOk itemsOf) (sc : Scope) (st : Coll ι) (h : st.scope = some sc) (e : Ev × Snap)
    (he : e.1.node.isDefinitionLevel = false) : BodyPost itemsOf sc st (st.on itemsOf e) [e] := by
  obtain ⟨ev, sn⟩ := e
  -- the three interesting callbacks first
  by_cases hsp : ∃ sp, ev = .enter (.spread sp)
  · obtain ⟨sp, rfl⟩ := hsp
    have hon : st.on itemsOf (.enter (.spread sp), sn) = { st with spreads := alUpdate st.spreads sc [] (· ++ [sp.name]) } := by
      simp [Coll.on, h]
    rw [hon]
    refine ⟨h, rfl, fun k => ?_, fun k => ?_, fun i n pre vs _ hd _ => ?_, fun _ _ => rfl⟩
    · simp only [lookup_alUpdate, spreadNamesOf, List.filterMap_cons, List.filterMap_nil]
    · simp [hok.spread]
    · simp [varDefsOf, hd]
  · by_cases hvd : ∃ v, ev = .enter (.varDef v)
    · obtain ⟨v, rfl⟩ := hvd
      cases sc with
      | frag m =>
        have hon : st.on itemsOf (.enter (.varDef v), sn) = st := by simp [Coll.on, h]
        rw [hon]
        refine ⟨h, rfl, fun k => ?_, fun k => ?_, fun i n pre vs hsc _ _ => (by cases hsc), fun _ _ => rfl⟩
        · simp [spreadNamesOf]
        · simp [hok.varDef]
      | op i n =>
        have hon : st.on itemsOf (.enter (.varDef v), sn) = { st with defs := alUpdate st.defs (i, n) [] (· ++ [v]) } := by
          simp [Coll.on, h]
        rw [hon]
        refine ⟨h, rfl, fun k => ?_, fun k => ?_, fun i' n' pre vs hsc hd hp => ?_, fun m hm => (by cases hm)⟩
        · simp [spreadNamesOf]
        · simp [hok.varDef]
        · cases hsc
          simp only [hd]
          rw [alUpdate_last pre (i, n) vs [] _ hp]
          simp [varDefsOf]
    · -- any other callback: only `itemsOf` matters
      have hon : st.on itemsOf (ev, sn) = st.addItems sc (itemsOf (ev, sn)) := by
        cases ev with
        | enter n =>
          cases n <;> first
            | (simp [Ev.node, Node.isDefinitionLevel] at he; done)
            | (exact absurd ⟨_, rfl⟩ hsp)
            | (exact absurd ⟨_, rfl⟩ hvd)
            | simp [Coll.on, h]
        | leave n =>
          cases n <;> first
            | (simp [Ev.node, Node.isDefinitionLevel] at he; done)
            | simp [Coll.on, h]
      have hsn : spreadNamesOf [(ev, sn)] = [] := by
        cases ev with
        | enter n => cases n <;> first | rfl | exact absurd ⟨_, rfl⟩ hsp
        | leave n => rfl
      have hvn : varDefsOf [(ev, sn)] = [] := by
        cases ev with
        | enter n => cases n <;> first | rfl | exact absurd ⟨_, rfl⟩ hvd
        | leave n => rfl
      rw [hon]
      cases hit : itemsOf (ev, sn) with
      | nil =>
        simp only [Coll.addItems]
        refine ⟨h, rfl, fun k => by simp [hsn], fun k => by simp [hit], fun i n pre vs _ hd _ => by simp [hvn, hd], fun _ _ => rfl⟩
      | cons a as =>
        simp only [Coll.addItems]
        refine ⟨h, rfl, fun k => by simp [hsn], fun k => ?_, fun i n pre vs _ hd _ => by simp [hvn, hd], fun _ _ => rfl⟩
        simp only [lookup_alUpdate, List.flatMap_cons, List.flatMap_nil, List.append_nil, hit]

theorem bodyPost_fold (hok : ItemsOk itemsOf) (sc : Scope) :
    ∀ (tr : Trace) (st : Coll ι), st.scope = some sc → Inner (tr.map Prod.fst) →
      BodyPost itemsOf sc st (tr.foldl (Coll.on itemsOf) st) tr
  | [], st, h, _ => BodyPost.nil itemsOf sc st h
  | e :: tr, st, h, hin => by
      have he : e.1.node.isDefinitionLevel = false := hin e.1 (by simp)
      have h1 := bodyPost_one itemsOf hok sc st h e he
      have h2 := bodyPost_fold hok sc tr (st.on itemsOf e) h1.scope (fun x hx => hin x (by simp at hx ⊢; exact Or.inr hx))
      have := BodyPost.trans itemsOf h1 h2
      simpa using this

end
end Gql

namespace Gql

/-! ### one definition, then the whole document -/

theorem filterMap_congr' {α β : Type} {f g : α → Option β} : ∀ {l : List α}, (∀ a ∈ l, f a = g a) → l.filterMap f = l.filterMap g
  | [], _ => rfl
  | a :: l, h => by
      simp only [List.filterMap_cons, h a (by simp)]
      rw [filterMap_congr' (l := l) (fun x hx => h x (by simp [hx]))]


def varDef? : Ev → Option VarDef
  | .enter (.varDef v) => some v
  | _ => none
def spreadName? : Ev → Option Name
  | .enter (.spread sp) => some sp.name
  | _ => none

theorem varDefsOf_eq (tr : Trace) : varDefsOf tr = (tr.map Prod.fst).filterMap varDef? := by
  unfold varDefsOf
  rw [List.filterMap_map]
  apply filterMap_congr'
  intro e _
  obtain ⟨ev, sn⟩ := e
  cases ev with
  | enter n => cases n <;> rfl
  | leave n => rfl

theorem spreadNamesOf_eq (tr : Trace) : spreadNamesOf tr = (tr.map Prod.fst).filterMap spreadName? := by
  unfold spreadNamesOf
  rw [List.filterMap_map]
  apply filterMap_congr'
  intro e _
  obtain ⟨ev, sn⟩ := e
  cases ev with
  | enter n => cases n <;> rfl
  | leave n => rfl

theorem varDef?_low (e : Ev) (h : e.node.level ≤ 3) : varDef? e = none := by
  cases e with
  | enter n => cases n <;> first | rfl | (simp [Ev.node, Node.level] at h)
  | leave n => rfl

theorem varDefs_traverse : ∀ vs : List VarDef, (traverseVarDefs vs).filterMap varDef? = vs
  | [] => rfl
  | v :: vs => by
      simp only [traverseVarDefs, List.cons_append, List.filterMap_cons, List.filterMap_append, varDef?,
        List.filterMap_nil, List.nil_append, varDefs_traverse vs]
      cases v.default with
      | none => rfl
      | some dv =>
        simp only
        rw [((below_value dv).mono (by omega : 0 ≤ 3)).filterMap_nil varDef? varDef?_low]; rfl

def Definition.sel : Definition → List Selection
  | .op o => o.sel
  | .frag f => f.sel

def Definition.vars : Definition → List VarDef
  | .op o => o.vars
  | .frag _ => []

theorem varDefs_body : ∀ x : Definition, (traverseBody x).filterMap varDef? = x.vars
  | .op o => by
      simp only [traverseBody, List.filterMap_append, varDefs_traverse,
        ((below_directives o.dirs).mono (by omega : 2 ≤ 3)).filterMap_nil varDef? varDef?_low,
        (below_selectionSet o.sel).filterMap_nil varDef? varDef?_low, List.nil_append, List.append_nil]
      rfl
  | .frag f => by
      simp only [traverseBody, List.filterMap_append,
        ((below_directives f.dirs).mono (by omega : 2 ≤ 3)).filterMap_nil varDef? varDef?_low,
        (below_selectionSet f.sel).filterMap_nil varDef? varDef?_low, List.append_nil]
      rfl

def GEv.spreadName? : GEv → Option Name
  | .spread sp => some sp.name
  | _ => none

theorem spreadName?_gev (e : Ev) : spreadName? e = (gev e).bind GEv.spreadName? := by
  cases e with
  | enter n => cases n <;> rfl
  | leave n => cases n <;> rfl

theorem filterMap_spreadName (l : List Ev) : l.filterMap spreadName? = (l.filterMap gev).filterMap GEv.spreadName? := by
  rw [List.filterMap_filterMap]
  apply filterMap_congr'
  intro e _
  exact spreadName?_gev e

theorem spreadNames_body (x : Definition) :
    (traverseBody x).filterMap spreadName? = (recursiveSpreads x.sel).map (·.name) := by
  rw [filterMap_spreadName]
  have hsp : ∀ sps : List SpreadNode, (sps.map GEv.spread).filterMap GEv.spreadName? = sps.map (·.name) := by
    intro sps
    induction sps with
    | nil => rfl
    | cons a as ih => simp [GEv.spreadName?, ih]
  cases x with
  | op o =>
    simp only [traverseBody, List.filterMap_append, (noGraph_directives o.dirs).filterMap,
      (noGraph_varDefs o.vars).filterMap, gev_selectionSet, List.nil_append, Definition.sel, hsp]
  | frag f =>
    simp only [traverseBody, List.filterMap_append, (noGraph_directives f.dirs).filterMap,
      gev_selectionSet, List.nil_append, Definition.sel, hsp]

section
variable {ι : Type} (itemsOf : Ev × Snap → List ι)

/-- what one definition contributes -/
def defItems (s : Schema) (x : Definition) : List ι := (defTrace s x).flatMap itemsOf
def defSpreads (s : Schema) (x : Definition) : List Name := spreadNamesOf (defTrace s x)

def defScope (c : Nat) : Definition → Scope
  | .op o => .op c o.name
  | .frag f => .frag f.name
def opInc : Definition → Nat
  | .op _ => 1
  | .frag _ => 0
def defEntry (c : Nat) : Definition → List ((Nat × Option Name) × List VarDef)
  | .op o => [((c, o.name), o.vars)]
  | .frag _ => []

theorem defSpreads_eq (s : Schema) (x : Definition) (h : (walkDefinition s Snap.empty x).isSome = true) :
    defSpreads s x = (recursiveSpreads x.sel).map (·.name) := by
  obtain ⟨e1, body, hshape, hbody⟩ := defTrace_shape s x h
  unfold defSpreads
  rw [spreadNamesOf_eq, hshape]
  simp only [List.map_cons, List.map_append, List.map_nil, List.filterMap_cons, List.filterMap_append, hbody,
    spreadNames_body, List.filterMap_nil]
  cases x <;> simp [defEnter, defLeave, spreadName?]

/-- state after the walk of one definition -/
structure DefPost (s : Schema) (c : Nat) (x : Definition) (st st' : Coll ι) : Prop where
  ops : st'.ops = c + opInc x
  defs : st'.defs = st.defs ++ defEntry c x
  spreads : ∀ k, lookup st'.spreads k = lookup st.spreads k ++ (if k = defScope c x then defSpreads s x else [])
  items : ∀ k, lookup st'.items k = lookup st.items k ++ (if k = defScope c x then defItems itemsOf s x else [])

theorem defPost (hok : ItemsOk itemsOf) (s : Schema) (x : Definition) (h : (walkDefinition s Snap.empty x).isSome = true)
    (st : Coll ι) (hfresh : ∀ p ∈ st.defs, p.1.1 < st.ops) :
    DefPost itemsOf s st.ops x st ((defTrace s x).foldl (Coll.on itemsOf) st) := by
  obtain ⟨e1, body, hshape, hbody⟩ := defTrace_shape s x h
  have hin : Inner (body.map Prod.fst) := by rw [hbody]; exact inner_body x
  have hitems : defItems itemsOf s x = body.flatMap itemsOf := by
    unfold defItems
    rw [hshape]
    simp only [List.flatMap_cons, List.flatMap_append, List.flatMap_nil, List.append_nil]
    rw [hok.defLevel (defEnter x, e1) (by cases x <;> rfl), hok.defLevel (defLeave x, e1) (by cases x <;> rfl)]
    simp
  have hspreads : defSpreads s x = spreadNamesOf body := by
    unfold defSpreads
    rw [hshape]
    simp only [spreadNamesOf, List.filterMap_cons, List.filterMap_append, List.filterMap_nil]
    cases x <;> simp [defEnter, defLeave]
  have hvars : varDefsOf body = x.vars := by
    rw [varDefsOf_eq, hbody, varDefs_body]
  rw [hshape]
  simp only [List.foldl_cons, List.foldl_append, List.foldl_nil]
  cases x with
  | op o =>
    -- enter: a fresh scope and an empty entry for the variable definitions
    have h1 : st.on itemsOf (defEnter (.op o), e1) =
        { st with scope := some (.op st.ops o.name), ops := st.ops + 1, defs := st.defs ++ [((st.ops, o.name), [])] } := rfl
    rw [h1]
    have hb := bodyPost_fold itemsOf hok (.op st.ops o.name) body
      { st with scope := some (.op st.ops o.name), ops := st.ops + 1, defs := st.defs ++ [((st.ops, o.name), [])] } rfl hin
    -- leave: nothing
    have h3 : ∀ st2 : Coll ι, st2.scope = some (.op st.ops o.name) → st2.on itemsOf (defLeave (.op o), e1) = st2 := by
      intro st2 hsc
      simp only [Coll.on, defLeave, hsc]
      rw [hok.defLevel (Ev.leave (.operation o), e1) rfl]
      rfl
    rw [h3 _ hb.scope]
    refine ⟨by rw [hb.ops]; rfl, ?_, fun k => ?_, fun k => ?_⟩
    · have := hb.defsOp st.ops o.name st.defs [] rfl rfl (by
        intro p hp hk
        have := hfresh p hp
        rw [hk] at this
        simp at this)
      rw [this, hvars]; rfl
    · rw [hb.spreads k, hspreads]; rfl
    · rw [hb.items k, hitems]; rfl
  | frag f =>
    have h1 : st.on itemsOf (defEnter (.frag f), e1) = { st with scope := some (.frag f.name) } := rfl
    rw [h1]
    have hb := bodyPost_fold itemsOf hok (.frag f.name) body { st with scope := some (.frag f.name) } rfl hin
    have h3 : ∀ st2 : Coll ι, st2.scope = some (.frag f.name) → st2.on itemsOf (defLeave (.frag f), e1) = st2 := by
      intro st2 hsc
      simp only [Coll.on, defLeave, hsc]
      rw [hok.defLevel (Ev.leave (.fragmentDef f), e1) rfl]
      rfl
    rw [h3 _ hb.scope]
    refine ⟨by rw [hb.ops]; rfl, ?_, fun k => ?_, fun k => ?_⟩
    · rw [hb.defsFrag f.name rfl]; simp [defEntry]
    · rw [hb.spreads k, hspreads]; rfl
    · rw [hb.items k, hitems]; rfl

/-- contributions of a definition list whose first operation has index `c` -/
def contribS (s : Schema) : Nat → List Definition → Scope → List Name
  | _, [], _ => []
  | c, x :: ds, k => (if k = defScope c x then defSpreads s x else []) ++ contribS s (c + opInc x) ds k
def contribI (s : Schema) : Nat → List Definition → Scope → List ι
  | _, [], _ => []
  | c, x :: ds, k => (if k = defScope c x then defItems itemsOf s x else []) ++ contribI s (c + opInc x) ds k
def indexedDefs : Nat → List Definition → List ((Nat × Option Name) × List VarDef)
  | _, [] => []
  | c, x :: ds => defEntry c x ++ indexedDefs (c + opInc x) ds

/-- state after the walks of a list of definitions -/
theorem docPost (hok : ItemsOk itemsOf) (s : Schema) :
    ∀ (ds : List Definition) (st : Coll ι), (∀ x ∈ ds, (walkDefinition s Snap.empty x).isSome = true) →
      (∀ p ∈ st.defs, p.1.1 < st.ops) →
      let st' := (ds.flatMap (defTrace s)).foldl (Coll.on itemsOf) st
      st'.defs = st.defs ++ indexedDefs st.ops ds ∧
      (∀ k, lookup st'.spreads k = lookup st.spreads k ++ contribS s st.ops ds k) ∧
      (∀ k, lookup st'.items k = lookup st.items k ++ contribI itemsOf s st.ops ds k)
  | [], st, _, _ => by simp [indexedDefs, contribS, contribI]
  | x :: ds, st, hall, hfresh => by
      simp only [List.flatMap_cons, List.foldl_append]
      have h1 := defPost itemsOf hok s x (hall x (by simp)) st hfresh
      have hfresh' : ∀ p ∈ ((defTrace s x).foldl (Coll.on itemsOf) st).defs,
          p.1.1 < ((defTrace s x).foldl (Coll.on itemsOf) st).ops := by
        intro p hp
        rw [h1.defs] at hp
        rw [h1.ops]
        rcases List.mem_append.1 hp with hp | hp
        · have := hfresh p hp; omega
        · cases x with
          | op o => simp [defEntry] at hp; subst hp; simp [opInc]
          | frag f => simp [defEntry] at hp
      obtain ⟨a, b, c⟩ := docPost hok s ds _ (fun y hy => hall y (by simp [hy])) hfresh'
      refine ⟨?_, fun k => ?_, fun k => ?_⟩
      · rw [a, h1.defs, h1.ops]; simp [indexedDefs, List.append_assoc]
      · rw [b k, h1.spreads k, h1.ops]; simp [contribS, List.append_assoc]
      · rw [c k, h1.items k, h1.ops]; simp [contribI, List.append_assoc]

end
end Gql

namespace Gql
open Gql.Spec

/-! ### reading the final state -/

section
variable {ι : Type} (itemsOf : Ev × Snap → List ι)

theorem contribS_frag (s : Schema) (n : Name) : ∀ (c : Nat) (ds : List Definition),
    contribS s c ds (.frag n) = ((Document.fragments ds).filter (·.name == n)).flatMap fun f => defSpreads s (.frag f)
  | _, [] => rfl
  | c, .op o :: ds => by
      simp only [contribS, defScope, Document.fragments, reduceCtorEq, if_false, List.nil_append]
      exact contribS_frag s n _ ds
  | c, .frag f :: ds => by
      simp only [contribS, defScope, Document.fragments, Scope.frag.injEq, opInc, Nat.add_zero, List.filter_cons, beq_iff_eq]
      by_cases h : f.name = n
      · simp only [h, if_true, List.flatMap_cons]; rw [contribS_frag s n c ds]
      · have h' : ¬ n = f.name := fun e => h e.symm
        simp only [h, h', if_false, List.nil_append]; exact contribS_frag s n c ds

theorem contribI_frag (s : Schema) (n : Name) : ∀ (c : Nat) (ds : List Definition),
    contribI itemsOf s c ds (.frag n) = ((Document.fragments ds).filter (·.name == n)).flatMap fun f => defItems itemsOf s (.frag f)
  | _, [] => rfl
  | c, .op o :: ds => by
      simp only [contribI, defScope, Document.fragments, reduceCtorEq, if_false, List.nil_append]
      exact contribI_frag s n _ ds
  | c, .frag f :: ds => by
      simp only [contribI, defScope, Document.fragments, Scope.frag.injEq, opInc, Nat.add_zero, List.filter_cons, beq_iff_eq]
      by_cases h : f.name = n
      · simp only [h, if_true, List.flatMap_cons]; rw [contribI_frag s n c ds]
      · have h' : ¬ n = f.name := fun e => h e.symm
        simp only [h, h', if_false, List.nil_append]; exact contribI_frag s n c ds

theorem contribS_lt (s : Schema) (i : Nat) (n : Option Name) : ∀ (c : Nat) (ds : List Definition), i < c →
    contribS s c ds (.op i n) = []
  | _, [], _ => rfl
  | c, .op o :: ds, h => by
      have : ¬ (i = c ∧ n = o.name) := fun e => by omega
      simp only [contribS, defScope, Scope.op.injEq, this, if_false, List.nil_append]
      exact contribS_lt s i n _ ds (by simp [opInc]; omega)
  | c, .frag f :: ds, h => by
      simp only [contribS, defScope, reduceCtorEq, if_false, List.nil_append, opInc, Nat.add_zero]
      exact contribS_lt s i n c ds h

theorem contribI_lt (s : Schema) (i : Nat) (n : Option Name) : ∀ (c : Nat) (ds : List Definition), i < c →
    contribI itemsOf s c ds (.op i n) = []
  | _, [], _ => rfl
  | c, .op o :: ds, h => by
      have : ¬ (i = c ∧ n = o.name) := fun e => by omega
      simp only [contribI, defScope, Scope.op.injEq, this, if_false, List.nil_append]
      exact contribI_lt s i n _ ds (by simp [opInc]; omega)
  | c, .frag f :: ds, h => by
      simp only [contribI, defScope, reduceCtorEq, if_false, List.nil_append, opInc, Nat.add_zero]
      exact contribI_lt s i n c ds h

/-- every entry of the per-operation table belongs to an operation of the list, and the scope of
    that entry received exactly that operation's contributions -/
theorem indexed_mem (s : Schema) : ∀ (c : Nat) (ds : List Definition) (p : (Nat × Option Name) × List VarDef),
    p ∈ indexedDefs c ds →
      ∃ o, Definition.op o ∈ ds ∧ p.1.2 = o.name ∧ p.2 = o.vars ∧ c ≤ p.1.1 ∧
        contribS s c ds (.op p.1.1 p.1.2) = defSpreads s (.op o) ∧
        contribI itemsOf s c ds (.op p.1.1 p.1.2) = defItems itemsOf s (.op o)
  | _, [], p, h => by simp [indexedDefs] at h
  | c, .frag f :: ds, p, h => by
      simp only [indexedDefs, defEntry, List.nil_append, opInc, Nat.add_zero] at h
      obtain ⟨o, ho, h1, h2, h3, h4, h5⟩ := indexed_mem s c ds p h
      refine ⟨o, by simp [ho], h1, h2, h3, ?_, ?_⟩
      · simp only [contribS, defScope, reduceCtorEq, if_false, List.nil_append, opInc, Nat.add_zero]; exact h4
      · simp only [contribI, defScope, reduceCtorEq, if_false, List.nil_append, opInc, Nat.add_zero]; exact h5
  | c, .op o' :: ds, p, h => by
      simp only [indexedDefs, defEntry, opInc, List.cons_append, List.nil_append, List.mem_cons] at h
      rcases h with rfl | h
      · refine ⟨o', by simp, rfl, rfl, Nat.le_refl _, ?_, ?_⟩
        · simp only [contribS, defScope, if_true, opInc]
          rw [contribS_lt s c o'.name (c + 1) ds (by omega)]; simp
        · simp only [contribI, defScope, if_true, opInc]
          rw [contribI_lt itemsOf s c o'.name (c + 1) ds (by omega)]; simp
      · obtain ⟨o, ho, h1, h2, h3, h4, h5⟩ := indexed_mem s (c + 1) ds p h
        have hne : ¬ (p.1.1 = c ∧ p.1.2 = o'.name) := fun e => by omega
        refine ⟨o, by simp [ho], h1, h2, by omega, ?_, ?_⟩
        · simp only [contribS, defScope, Scope.op.injEq, hne, if_false, List.nil_append, opInc]; exact h4
        · simp only [contribI, defScope, Scope.op.injEq, hne, if_false, List.nil_append, opInc]; exact h5

theorem indexed_of_mem (s : Schema) (o : Operation) : ∀ (c : Nat) (ds : List Definition), Definition.op o ∈ ds →
    ∃ i, ((i, o.name), o.vars) ∈ indexedDefs c ds ∧ c ≤ i ∧
      contribS s c ds (.op i o.name) = defSpreads s (.op o) ∧
      contribI itemsOf s c ds (.op i o.name) = defItems itemsOf s (.op o)
  | _, [], h => by simp at h
  | c, .frag f :: ds, h => by
      have h' : Definition.op o ∈ ds := by simpa using h
      obtain ⟨i, hi, hc, h4, h5⟩ := indexed_of_mem s o c ds h'
      refine ⟨i, by simpa [indexedDefs, defEntry, opInc] using hi, hc, ?_, ?_⟩
      · simp only [contribS, defScope, reduceCtorEq, if_false, List.nil_append, opInc, Nat.add_zero]; exact h4
      · simp only [contribI, defScope, reduceCtorEq, if_false, List.nil_append, opInc, Nat.add_zero]; exact h5
  | c, .op o' :: ds, h => by
      simp only [List.mem_cons, Definition.op.injEq] at h
      rcases h with rfl | h
      · refine ⟨c, by simp [indexedDefs, defEntry], Nat.le_refl _, ?_, ?_⟩
        · simp only [contribS, defScope, if_true, opInc]
          rw [contribS_lt s c o.name (c + 1) ds (by omega)]; simp
        · simp only [contribI, defScope, if_true, opInc]
          rw [contribI_lt itemsOf s c o.name (c + 1) ds (by omega)]; simp
      · obtain ⟨i, hi, hc, h4, h5⟩ := indexed_of_mem s o (c + 1) ds h
        have hne : ¬ (i = c ∧ o.name = o'.name) := fun e => by omega
        refine ⟨i, by simp [indexedDefs, defEntry, opInc, hi], by omega, ?_, ?_⟩
        · simp only [contribS, defScope, Scope.op.injEq, hne, if_false, List.nil_append, opInc]; exact h4
        · simp only [contribI, defScope, Scope.op.injEq, hne, if_false, List.nil_append, opInc]; exact h5

end

/-! ### the scopes reached from an operation -/

theorem dfs_eq_dfsList {α : Type} [DecidableEq α] (succ : α → List α) (n : Nat) (x : α) (r : Reach α) :
    dfs succ n x r = dfsList succ n [x] r := rfl

/-- the marking pass over scopes never runs out of fuel -/
theorem reach_not_stuck (spreads : List (Scope × List Name)) (root : Scope) :
    (reachScopes spreads (spreadFuel spreads) root {}).stuck = false := by
  unfold reachScopes
  rw [dfs_eq_dfsList]
  apply dfsList_roots_not_stuck (scopeSucc spreads) (root :: spreads.flatMap fun p => p.2.map Scope.frag)
  · intro u _ w hw
    unfold scopeSucc at hw
    cases hg : alGet spreads u with
    | none => simp [hg] at hw
    | some v =>
      simp only [hg, Option.getD_some] at hw
      refine List.mem_cons_of_mem _ (List.mem_flatMap.2 ⟨(u, v), ?_, hw⟩)
      unfold alGet at hg
      simp only [Option.map_eq_some_iff] at hg
      obtain ⟨p, hp, rfl⟩ := hg
      have h1 := List.find?_some hp
      simp only [decide_eq_true_eq] at h1
      have h2 := List.mem_of_find?_eq_some hp
      rw [← h1]; exact h2
  · intro y hy; simp only [List.mem_singleton] at hy; subst hy; exact List.mem_cons_self ..
  · simp [spreadFuel, List.length_flatMap, Function.comp_def]

/-- the marking pass over scopes computes reachability -/
theorem reach_iff (spreads : List (Scope × List Name)) (root sc : Scope) :
    sc ∈ (reachScopes spreads (spreadFuel spreads) root {}).visited ↔ Reachable (scopeSucc spreads) root sc := by
  have hns0 := reach_not_stuck spreads root
  unfold reachScopes at hns0 ⊢
  rw [dfs_eq_dfsList] at hns0 ⊢
  have hns : (dfsList (scopeSucc spreads) (spreadFuel spreads) [root] {}).stuck = false := by
    exact hns0
  have hns' : (dfsList (scopeSucc spreads) (spreadFuel spreads) [root] {}).stuck = false := by
    apply dfsList_roots_not_stuck (scopeSucc spreads) (root :: spreads.flatMap fun p => p.2.map Scope.frag)
    · intro u _ w hw
      unfold scopeSucc at hw
      cases hg : alGet spreads u with
      | none => simp [hg] at hw
      | some v =>
        simp only [hg, Option.getD_some] at hw
        refine List.mem_cons_of_mem _ (List.mem_flatMap.2 ⟨(u, v), ?_, hw⟩)
        unfold alGet at hg
        simp only [Option.map_eq_some_iff] at hg
        obtain ⟨p, hp, rfl⟩ := hg
        have h1 := List.find?_some hp
        simp only [decide_eq_true_eq] at h1
        have h2 := List.mem_of_find?_eq_some hp
        rw [← h1]; exact h2
    · intro y hy; simp only [List.mem_singleton] at hy; subst hy; exact List.mem_cons_self ..
    · simp [spreadFuel, List.length_flatMap, Function.comp_def]
  have := mem_dfsList_iff (scopeSucc spreads) (spreadFuel spreads) [root] hns sc
  rw [this]
  simp

theorem reachable_frag_of (spreads : List (Scope × List Name)) {a sc : Scope}
    (hr : Reachable (scopeSucc spreads) a sc) :
    ∀ m, a = .frag m → ∃ k, sc = .frag k ∧ Reachable (fun k => lookup spreads (.frag k)) m k := by
  induction hr with
  | refl a => intro m hm; exact ⟨m, hm, .refl m⟩
  | @step a b c hb _ ih =>
    intro m hm
    subst hm
    simp only [scopeSucc, List.mem_map] at hb
    obtain ⟨m', hm', rfl⟩ := hb
    obtain ⟨k, hk, hrk⟩ := ih m' rfl
    exact ⟨k, hk, .step hm' hrk⟩

theorem reachable_frag_to (spreads : List (Scope × List Name)) {m k : Name}
    (hr : Reachable (fun k => lookup spreads (.frag k)) m k) : Reachable (scopeSucc spreads) (.frag m) (.frag k) := by
  induction hr with
  | refl a => exact .refl _
  | @step a b c hb _ ih => exact .step (List.mem_map.2 ⟨b, hb, rfl⟩) ih

/-- from an operation's scope one reaches the scope itself and the fragments reachable from its spreads -/
theorem reachable_op_iff (spreads : List (Scope × List Name)) (i : Nat) (n : Option Name) (sc : Scope) :
    Reachable (scopeSucc spreads) (.op i n) sc ↔
      sc = .op i n ∨ ∃ m ∈ lookup spreads (.op i n), ∃ k, sc = .frag k ∧ Reachable (fun k => lookup spreads (.frag k)) m k := by
  constructor
  · intro h
    cases h with
    | refl => exact Or.inl rfl
    | @step _ b _ hb hr =>
      simp only [scopeSucc, List.mem_map] at hb
      obtain ⟨m, hm, rfl⟩ := hb
      obtain ⟨k, hk, hrk⟩ := reachable_frag_of spreads hr m rfl
      exact Or.inr ⟨m, hm, k, hk, hrk⟩
  · rintro (rfl | ⟨m, hm, k, rfl, hrk⟩)
    · exact .refl _
    · exact .step (List.mem_map.2 ⟨m, hm, rfl⟩) (reachable_frag_to spreads hrk)

/-- what `itemsFrom` collects -/
theorem mem_itemsFrom {ι : Type} (st : Coll ι) (i : Nat) (n : Option Name) (x : ι) :
    x ∈ st.itemsFrom (i, n) ↔
      x ∈ lookup st.items (.op i n) ∨
      ∃ m ∈ lookup st.spreads (.op i n), ∃ k, Reachable (fun k => lookup st.spreads (.frag k)) m k ∧ x ∈ lookup st.items (.frag k) := by
  unfold Coll.itemsFrom Coll.reach
  simp only [List.mem_flatMap]
  constructor
  · rintro ⟨sc, hsc, hx⟩
    rcases (reachable_op_iff st.spreads i n sc).1 ((reach_iff st.spreads _ sc).1 hsc) with rfl | ⟨m, hm, k, rfl, hr⟩
    · exact Or.inl hx
    · exact Or.inr ⟨m, hm, k, hr, hx⟩
  · rintro (hx | ⟨m, hm, k, hr, hx⟩)
    · exact ⟨.op i n, (reach_iff st.spreads _ _).2 (.refl _), hx⟩
    · exact ⟨.frag k, (reach_iff st.spreads _ _).2 ((reachable_op_iff st.spreads i n _).2 (Or.inr ⟨m, hm, k, rfl, hr⟩)), hx⟩

end Gql
