/-
  Lemmas/PositionsMerge.lean — every position the field-merging rule puts into a conflict is the
  position of a field node of the document (whatever it compares, through whatever fragments).
-/
import GqlVerif.Lemmas.Positions
import GqlVerif.Lemmas.MergeSound
namespace Gql
open Gql.Spec

theorem foldl_all_conflicts {α : Type} (Q : Conflict → Prop) (step : MRes → α → MRes)
    (hstep : ∀ acc x, (∀ c ∈ acc.1, Q c) → ∀ c ∈ (step acc x).1, Q c) :
    ∀ (L : List α) (acc : MRes), (∀ c ∈ acc.1, Q c) → ∀ c ∈ (L.foldl step acc).1, Q c
  | [], acc, h => h
  | x :: L, acc, h => by
      simp only [List.foldl_cons]
      exact foldl_all_conflicts Q step hstep L _ (hstep acc x h)

/-- both position lists of a conflict are positions of nodes of `d` -/
def GoodC (d : Document) (c : Conflict) : Prop := ∀ p ∈ c.pos1 ++ c.pos2, p ∈ docPositions d
def GoodFM (d : Document) (fm : FieldMap) : Prop := ∀ a, FM fm a → FieldIn (traverseDocument d) a

theorem fieldIn_pos {d : Document} {a : AstAndDef} (h : FieldIn (traverseDocument d) a) : a.field.pos ∈ docPositions d :=
  pos_of_enter h.1 rfl

theorem cat_all {d : Document} (acc : MRes) (x : MRes) (h1 : ∀ c ∈ acc.1, GoodC d c) (h2 : ∀ c ∈ x.1, GoodC d c) :
    ∀ c ∈ ((acc.1 ++ x.1, x.2) : MRes).1, GoodC d c := by
  intro c hc
  rcases List.mem_append.1 hc with hc | hc
  · exact h1 c hc
  · exact h2 c hc

theorem push_all {d : Document} (acc : MRes) (r : Option Conflict × MState) (h1 : ∀ c ∈ acc.1, GoodC d c)
    (h2 : ∀ c, r.1 = some c → GoodC d c) : ∀ c ∈ (pushConflict acc r).1, GoodC d c := by
  intro c hc
  unfold pushConflict at hc
  cases hr : r.1 with
  | none => rw [hr] at hc; exact h1 c hc
  | some c' =>
    rw [hr] at hc
    simp only [List.mem_append, List.mem_singleton] at hc
    rcases hc with hc | rfl
    · exact h1 c hc
    · exact h2 c hr

/-- `collect_conflicts_between` -/
theorem between_all (d : Document) (fc : Name → AstAndDef → AstAndDef → Bool → MState → Option Conflict × MState)
    (me : Bool) (fm1 fm2 : FieldMap) (h1 : GoodFM d fm1) (h2 : GoodFM d fm2)
    (hfc : ∀ k a b st c, FieldIn (traverseDocument d) a → FieldIn (traverseDocument d) b → (fc k a b me st).1 = some c → GoodC d c)
    (acc : MRes) (hacc : ∀ c ∈ acc.1, GoodC d c) :
    ∀ c ∈ (fm1.foldl (betweenKeyStep fc me fm2) acc).1, GoodC d c := by
  have hfields : ∀ (k : Name) (a : AstAndDef) (L : List AstAndDef), FieldIn (traverseDocument d) a →
      (∀ b ∈ L, FieldIn (traverseDocument d) b) → ∀ acc : MRes, (∀ c ∈ acc.1, GoodC d c) →
      ∀ c ∈ (betweenFieldsStep fc k me L acc a).1, GoodC d c := by
    intro k a L ha hL acc hacc
    unfold betweenFieldsStep
    -- restrict the fold to members of L
    have key : ∀ (L' : List AstAndDef), (∀ b ∈ L', b ∈ L) → ∀ acc : MRes, (∀ c ∈ acc.1, GoodC d c) →
        ∀ c ∈ (L'.foldl (fun (acc : MRes) f2 => pushConflict acc (fc k a f2 me acc.2)) acc).1, GoodC d c := by
      intro L'
      induction L' with
      | nil => intro _ acc h; exact h
      | cons b L' ih =>
        intro hsub acc h
        simp only [List.foldl_cons]
        exact ih (fun x hx => hsub x (by simp [hx])) _
          (push_all acc _ h (fun c hc => hfc k a b acc.2 c ha (hL b (hsub b (by simp))) hc))
    exact key L (fun _ h => h) acc hacc
  have key : ∀ (L : FieldMap), (∀ kv ∈ L, kv ∈ fm1) → ∀ acc : MRes, (∀ c ∈ acc.1, GoodC d c) →
      ∀ c ∈ (L.foldl (betweenKeyStep fc me fm2) acc).1, GoodC d c := by
    intro L
    induction L with
    | nil => intro _ acc h; exact h
    | cons kv L ih =>
      intro hsub acc h
      simp only [List.foldl_cons]
      refine ih (fun x hx => hsub x (by simp [hx])) _ ?_
      unfold betweenKeyStep
      have hkv := hsub kv (by simp)
      have hL2 : ∀ b ∈ (alGet fm2 kv.1).getD [], FieldIn (traverseDocument d) b := by
        intro b hb
        cases hg : alGet fm2 kv.1 with
        | none => rw [hg] at hb; simp at hb
        | some l =>
          rw [hg] at hb
          exact h2 b ⟨(kv.1, l), mem_of_alGet fm2 kv.1 l hg, hb⟩
      have key2 : ∀ (L' : List AstAndDef), (∀ a ∈ L', a ∈ kv.2) → ∀ acc : MRes, (∀ c ∈ acc.1, GoodC d c) →
          ∀ c ∈ (L'.foldl (betweenFieldsStep fc kv.1 me ((alGet fm2 kv.1).getD [])) acc).1, GoodC d c := by
        intro L'
        induction L' with
        | nil => intro _ acc h; exact h
        | cons a L' ih2 =>
          intro hsub2 acc h
          simp only [List.foldl_cons]
          exact ih2 (fun x hx => hsub2 x (by simp [hx])) _
            (hfields kv.1 a _ (h1 a ⟨kv, hkv, hsub2 a (by simp)⟩) hL2 acc h)
      exact key2 kv.2 (fun _ h => h) acc h
  exact key fm1 (fun _ h => h) acc hacc

/-- what the five functions guarantee about positions at fuel `n` -/
structure PosAt (s : Schema) (d : Document) (n : Nat) : Prop where
  fc : ∀ key a b me st c, FieldIn (traverseDocument d) a → FieldIn (traverseDocument d) b →
    (findConflict s d n key a b me st).1 = some c → GoodC d c
  cb : ∀ me fm1 fm2 st, GoodFM d fm1 → GoodFM d fm2 → ∀ c ∈ (conflictsBetween s d n me fm1 fm2 st).1, GoodC d c
  bs : ∀ me pn1 sel1 pn2 sel2 st, Incl d sel1 → Incl d sel2 →
    ∀ c ∈ (betweenSubSelectionSets s d n me pn1 sel1 pn2 sel2 st).1, GoodC d c
  ff : ∀ fm nm me st, GoodFM d fm → ∀ c ∈ (fieldsAndFragment s d n fm nm me st).1, GoodC d c
  bf : ∀ n1 n2 me st, ∀ c ∈ (betweenFragments s d n n1 n2 me st).1, GoodC d c

theorem posAt_zero (s : Schema) (d : Document) : PosAt s d 0 where
  fc := by intro key a b me st c _ _ h; simp [findConflict] at h
  cb := by intro me fm1 fm2 st _ _ c h; simp [conflictsBetween] at h
  bs := by intro me pn1 sel1 pn2 sel2 st _ _ c h; simp [betweenSubSelectionSets] at h
  ff := by intro fm nm me st _ c h; simp [fieldsAndFragment] at h
  bf := by intro n1 n2 me st c h; simp [betweenFragments] at h

theorem goodC_pair {d : Document} {a b : AstAndDef} (ha : FieldIn (traverseDocument d) a) (hb : FieldIn (traverseDocument d) b)
    (key : Name) (r : Reason) : GoodC d ⟨key, r, [a.field.pos], [b.field.pos]⟩ := by
  intro p hp
  simp only [List.cons_append, List.nil_append, List.mem_cons, List.not_mem_nil, or_false] at hp
  rcases hp with rfl | rfl
  · exact fieldIn_pos ha
  · exact fieldIn_pos hb

theorem goodFM_fafn (s : Schema) (d : Document) (parent : Option TypeDef) (sel : List Selection) (h : Incl d sel) :
    GoodFM d (fieldsAndFragmentNames s parent sel).1 :=
  fun a ha => fafn_fieldIn s d parent sel h a ha

theorem posAt_succ (s : Schema) (d : Document) (n : Nat) (ih : PosAt s d n) : PosAt s d (n + 1) where
  fc := by
    intro key a b me st c ha hb h
    simp only [findConflict] at h
    split at h
    · simp at h
    · split at h
      · simp only [Option.some.injEq] at h; subst h; exact goodC_pair ha hb _ _
      · split at h
        · simp only [Option.some.injEq] at h; subst h; exact goodC_pair ha hb _ _
        · split at h
          · simp only [Option.some.injEq] at h; subst h; exact goodC_pair ha hb _ _
          · split at h
            · -- nested conflicts: the first position lists of the sub-conflicts
              have hsub : ∀ me' pn1 pn2 st', ∀ c ∈ (betweenSubSelectionSets s d n me' pn1 a.field.sel pn2 b.field.sel st').1, GoodC d c :=
                fun me' pn1 pn2 st' => ih.bs me' pn1 _ pn2 _ st' ha.2 hb.2
              unfold subfieldConflicts at h
              split at h
              · simp at h
              · simp only [Option.some.injEq] at h
                subst h
                intro p hp
                simp only [List.cons_append, List.mem_cons, List.mem_append, List.mem_flatMap] at hp
                rcases hp with rfl | ⟨c', hc', hp⟩ | rfl | ⟨c', hc', hp⟩
                · exact fieldIn_pos ha
                · exact hsub _ _ _ _ c' hc' p (List.mem_append_left _ hp)
                · exact fieldIn_pos ha
                · exact hsub _ _ _ _ c' hc' p (List.mem_append_left _ hp)
            · simp at h
  cb := by
    intro me fm1 fm2 st h1 h2 c hc
    simp only [conflictsBetween] at hc
    split at hc
    · simp at hc
    · exact between_all d (findConflict s d n) me fm1 fm2 h1 h2 (fun k a b st c ha hb h => ih.fc k a b me st c ha hb h) _ (by simp) c hc
  bs := by
    intro me pn1 sel1 pn2 sel2 st hi1 hi2 c hc
    simp only [betweenSubSelectionSets] at hc
    split at hc
    · simp at hc
    · have g1 := goodFM_fafn s d (pn1.bind s.typeByName) sel1 hi1
      have g2 := goodFM_fafn s d (pn2.bind s.typeByName) sel2 hi2
      refine foldl_all_conflicts (GoodC d) _ (fun acc a hacc => ?_) _ _ ?_ c hc
      · exact foldl_all_conflicts (GoodC d) _ (fun acc b hacc => cat_all acc _ hacc (ih.bf _ _ _ _)) _ acc hacc
      · refine foldl_all_conflicts (GoodC d) _ (fun acc fn hacc => cat_all acc _ hacc (ih.ff _ _ _ _ g2)) _ _ ?_
        refine foldl_all_conflicts (GoodC d) _ (fun acc fn hacc => cat_all acc _ hacc (ih.ff _ _ _ _ g1)) _ _ ?_
        exact ih.cb _ _ _ _ g1 g2
  ff := by
    intro fm nm me st hfm c hc
    simp only [fieldsAndFragment] at hc
    split at hc
    · simp at hc
    · split at hc
      · simp at hc
      · rename_i frag hfrag
        split at hc
        · simp at hc
        · have g2 : GoodFM d (referencedFieldsAndFragmentNames s frag).1 :=
            goodFM_fafn s d _ _ (incl_fragByName d nm frag hfrag)
          refine foldl_all_conflicts (GoodC d) _ (fun acc fn2 hacc => ?_) _ _ (ih.cb _ _ _ _ hfm g2) c hc
          split
          · exact hacc
          · exact cat_all acc _ hacc (ih.ff _ _ _ _ hfm)
  bf := by
    intro n1 n2 me st c hc
    simp only [betweenFragments] at hc
    split at hc
    · simp at hc
    · split at hc
      · simp at hc
      · split at hc
        · simp at hc
        · split at hc
          · rename_i f1 f2 hf1 hf2
            have g1 : GoodFM d (referencedFieldsAndFragmentNames s f1).1 := goodFM_fafn s d _ _ (incl_fragByName d n1 f1 hf1)
            have g2 : GoodFM d (referencedFieldsAndFragmentNames s f2).1 := goodFM_fafn s d _ _ (incl_fragByName d n2 f2 hf2)
            refine foldl_all_conflicts (GoodC d) _ (fun acc x hacc => cat_all acc _ hacc (ih.bf _ _ _ _)) _ _ ?_ c hc
            refine foldl_all_conflicts (GoodC d) _ (fun acc x hacc => cat_all acc _ hacc (ih.bf _ _ _ _)) _ _ ?_
            exact ih.cb _ _ _ _ g1 g2
          · simp at hc

theorem posAt (s : Schema) (d : Document) : ∀ n, PosAt s d n
  | 0 => posAt_zero s d
  | n + 1 => posAt_succ s d n (posAt s d n)

/-- one selection set inside the document -/
theorem selset_positions (s : Schema) (d : Document) (fuel : Nat) (parent : Option TypeDef) (sel : List Selection) (st : MState)
    (hin : Incl d sel) : ∀ c ∈ (conflictsWithinSelectionSet s d fuel parent sel st).1, GoodC d c := by
  unfold conflictsWithinSelectionSet
  have g := goodFM_fafn s d parent sel hin
  have hwithin : ∀ c ∈ (conflictsWithin s d fuel (fieldsAndFragmentNames s parent sel).1 st).1, GoodC d c := by
    unfold conflictsWithin
    have key : ∀ (L : FieldMap), (∀ kv ∈ L, kv ∈ (fieldsAndFragmentNames s parent sel).1) → ∀ acc : MRes, (∀ c ∈ acc.1, GoodC d c) →
        ∀ c ∈ (L.foldl (fun (acc : MRes) (kv : Name × List AstAndDef) =>
          (orderedPairs kv.2).foldl (fun (acc : MRes) p => pushConflict acc (findConflict s d fuel kv.1 p.1 p.2 false acc.2)) acc) acc).1, GoodC d c := by
      intro L
      induction L with
      | nil => intro _ acc h; exact h
      | cons kv L ih =>
        intro hsub acc h
        simp only [List.foldl_cons]
        refine ih (fun x hx => hsub x (by simp [hx])) _ ?_
        have hkv := hsub kv (by simp)
        have key2 : ∀ (P : List (AstAndDef × AstAndDef)), (∀ p ∈ P, p.1 ∈ kv.2 ∧ p.2 ∈ kv.2) → ∀ acc : MRes, (∀ c ∈ acc.1, GoodC d c) →
            ∀ c ∈ (P.foldl (fun (acc : MRes) p => pushConflict acc (findConflict s d fuel kv.1 p.1 p.2 false acc.2)) acc).1, GoodC d c := by
          intro P
          induction P with
          | nil => intro _ acc h; exact h
          | cons p P ih2 =>
            intro hP acc h
            simp only [List.foldl_cons]
            obtain ⟨m1, m2⟩ := hP p (by simp)
            exact ih2 (fun x hx => hP x (by simp [hx])) _
              (push_all acc _ h (fun c hc => (posAt s d fuel).fc _ _ _ _ _ c (g _ ⟨kv, hkv, m1⟩) (g _ ⟨kv, hkv, m2⟩) hc))
        exact key2 _ (fun p hp => mem_orderedPairs kv.2 p hp) acc h
    exact key _ (fun _ h => h) _ (by simp)
  have hloop : ∀ (names : List Name) (acc : MRes), (∀ c ∈ acc.1, GoodC d c) →
      ∀ c ∈ (conflictsWithinSelectionSet.loop s d fuel (fieldsAndFragmentNames s parent sel) names acc).1, GoodC d c := by
    intro names
    induction names with
    | nil => intro acc h; simpa only [conflictsWithinSelectionSet.loop] using h
    | cons f1 rest ih =>
      intro acc h
      simp only [conflictsWithinSelectionSet.loop]
      refine ih _ ?_
      refine foldl_all_conflicts (GoodC d) _ (fun acc f2 hacc => cat_all acc _ hacc ((posAt s d fuel).bf _ _ _ _)) _ _ ?_
      exact cat_all acc _ h ((posAt s d fuel).ff _ _ _ _ g)
  exact hloop _ _ hwithin

end Gql
