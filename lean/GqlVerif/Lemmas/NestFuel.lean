/-
  Lemmas/NestFuel.lean — the nesting fuel of the executable spec is enough on documents whose
  fragment spreads form no cycle.  The "expanded height" of a selection set (fields nested through
  inline fragments and spreads) is well defined there, strictly decreases from a collected field
  to the fields of its own selection set, and is bounded by the document's depth times the number
  of fragments; FieldsInSetCanMerge / SameResponseShape do not change once the fuel exceeds it.
-/
import GqlVerif.Lemmas.SpreadFuel
import GqlVerif.Lemmas.MergeVisited
import GqlVerif.Lemmas.Positions
namespace Gql
open Gql.Spec

/-! ### expanded height -/

mutual
def hSelW (sp : Name → Nat) : Selection → Nat
  | .field _ _ _ _ _ sel => 1 + hSelsW sp sel
  | .spread _ nm _ => sp nm
  | .inline _ _ _ sel => hSelsW sp sel
def hSelsW (sp : Name → Nat) : List Selection → Nat
  | [] => 0
  | x :: xs => max (hSelW sp x) (hSelsW sp xs)
end

/-- height of what a spread of `nm` contributes, following at most `k` nested spreads -/
def fragH (d : Document) : Nat → Name → Nat
  | 0, _ => 0
  | k + 1, nm =>
    match d.fragByName nm with
    | some fr => hSelsW (fragH d k) fr.sel
    | none => 0

mutual
theorem hSelW_congr (sp1 sp2 : Name → Nat) : ∀ x : Selection,
    (∀ nm ∈ (recursiveSpreadsSel x).map (·.name), sp1 nm = sp2 nm) → hSelW sp1 x = hSelW sp2 x
  | .field _ _ _ _ _ sel, h => by
      simp only [hSelW]
      rw [hSelsW_congr sp1 sp2 sel (fun nm hnm => h nm (by simpa [recursiveSpreadsSel] using hnm))]
  | .spread _ nm _, h => by simpa [hSelW] using h nm (by simp [recursiveSpreadsSel])
  | .inline _ _ _ sel, h => by
      simp only [hSelW]
      exact hSelsW_congr sp1 sp2 sel (fun nm hnm => h nm (by simpa [recursiveSpreadsSel] using hnm))
theorem hSelsW_congr (sp1 sp2 : Name → Nat) : ∀ xs : List Selection,
    (∀ nm ∈ (recursiveSpreads xs).map (·.name), sp1 nm = sp2 nm) → hSelsW sp1 xs = hSelsW sp2 xs
  | [], _ => by simp [hSelsW]
  | x :: xs, h => by
      simp only [hSelsW]
      rw [hSelW_congr sp1 sp2 x (fun nm hnm => h nm (by simp only [recursiveSpreads, List.map_append, List.mem_append]; exact Or.inl hnm)),
        hSelsW_congr sp1 sp2 xs (fun nm hnm => h nm (by simp only [recursiveSpreads, List.map_append, List.mem_append]; exact Or.inr hnm))]
end

/-- the full spread graph restricted to defined fragments (first/last match as the code resolves names) -/
def fullSucc (d : Document) (nm : Name) : List Name :=
  match d.fragByName nm with
  | some fr => (recursiveSpreads fr.sel).map (·.name)
  | none => []

theorem fullSucc_spreadSucc (d : Document) : SpreadSucc d (fullSucc d) where
  sub := by
    intro a b h
    unfold fullSucc at h
    cases hf : d.fragByName a with
    | none => rw [hf] at h; cases h
    | some fr =>
      rw [hf] at h
      obtain ⟨hm, hnm⟩ := fragByName_name d a fr hf
      unfold spreadsOf
      simp only [List.mem_flatMap, List.mem_filter, beq_iff_eq]
      exact ⟨fr, ⟨hm, hnm⟩, h⟩
  defined := by
    intro a h
    unfold fullSucc at h
    cases hf : d.fragByName a with
    | none => rw [hf] at h; exact absurd rfl h
    | some fr =>
      obtain ⟨hm, hnm⟩ := fragByName_name d a fr hf
      exact List.mem_map.2 ⟨fr, hm, hnm⟩

theorem fragH_stable (d : Document) : ∀ (k : Nat) (nm : Name), ChainBound (fullSucc d) k nm →
    ∀ m, k + 1 ≤ m → fragH d m nm = fragH d (k + 1) nm
  | k, nm, hb, m, hm => by
      obtain ⟨m', rfl⟩ : ∃ m', m = m' + 1 := ⟨m - 1, by omega⟩
      simp only [fragH]
      cases hf : d.fragByName nm with
      | none => rfl
      | some fr =>
        simp only
        apply hSelsW_congr
        intro nm' hnm'
        have hs : nm' ∈ fullSucc d nm := by simp only [fullSucc, hf]; exact hnm'
        match k, hb with
        | 0, hb =>
          simp only [ChainBound] at hb
          rw [hb] at hs; cases hs
        | k + 1, hb =>
          have hb' : ChainBound (fullSucc d) k nm' := hb nm' hs
          rw [fragH_stable d k nm' hb' m' (by omega)]

/-- the height of a fragment in an acyclic document -/
def Hf (d : Document) (nm : Name) : Nat := fragH d (d.fragments.length + 1) nm
/-- the expanded height of a selection set -/
def Hs (d : Document) (sel : List Selection) : Nat := hSelsW (Hf d) sel

/-- in an acyclic document the height of a fragment is that of its selection set -/
theorem Hf_eq (d : Document) (hac : ¬ FragmentCycle d) (nm : Name) :
    Hf d nm = match d.fragByName nm with | some fr => Hs d fr.sel | none => 0 := by
  have hb : ∀ nm', ChainBound (fullSucc d) d.fragments.length nm' :=
    fun nm' => chainBound_acyclic d (fullSucc d) (fullSucc_spreadSucc d) hac nm'
  have h1 : fragH d (d.fragments.length + 2) nm = Hf d nm := fragH_stable d _ nm (hb nm) _ (by omega)
  rw [← h1]
  simp only [fragH]
  cases hf : d.fragByName nm with
  | none => rfl
  | some fr => rfl

mutual
/-- from a collected field to the fields of its own selection set the height drops -/
theorem descent_sel (s : Schema) (d : Document) (sp : Name → List AstAndDef)
    (hsp : ∀ nm, ∀ a ∈ sp nm, Hs d a.field.sel + 1 ≤ Hf d nm) : ∀ (x : Selection) (parent : Option TypeDef),
    ∀ a ∈ specFieldsSelWith s sp parent x, Hs d a.field.sel + 1 ≤ hSelW (Hf d) x
  | .field pos alias name args dirs sel, parent, a, h => by
      simp only [specFieldsSelWith, List.mem_singleton] at h
      subst h
      simp only [hSelW, Hs]; omega
  | .spread _ nm _, _, a, h => by
      simp only [specFieldsSelWith] at h
      simpa [hSelW] using hsp nm a h
  | .inline _ tc _ sel, parent, a, h => by
      simp only [specFieldsSelWith] at h
      simpa [hSelW] using descent_sels s d sp hsp sel _ a h
theorem descent_sels (s : Schema) (d : Document) (sp : Name → List AstAndDef)
    (hsp : ∀ nm, ∀ a ∈ sp nm, Hs d a.field.sel + 1 ≤ Hf d nm) : ∀ (xs : List Selection) (parent : Option TypeDef),
    ∀ a ∈ specFieldsWith s sp parent xs, Hs d a.field.sel + 1 ≤ hSelsW (Hf d) xs
  | [], _, a, h => by simp [specFieldsWith] at h
  | x :: xs, parent, a, h => by
      simp only [specFieldsWith, List.mem_append] at h
      simp only [hSelsW]
      rcases h with h | h
      · have := descent_sel s d sp hsp x parent a h; omega
      · have := descent_sels s d sp hsp xs parent a h; omega
end

theorem descent_spread (s : Schema) (d : Document) (hac : ¬ FragmentCycle d) : ∀ (n : Nat) (nm : Name),
    ∀ a ∈ spreadFields s d n nm, Hs d a.field.sel + 1 ≤ Hf d nm
  | 0, nm, a, h => by simp [spreadFields] at h
  | n + 1, nm, a, h => by
      cases hf : d.fragByName nm with
      | none => rw [spreadFields_succ_none s d n nm hf] at h; cases h
      | some fr =>
        rw [spreadFields_succ_some s d n nm fr hf] at h
        have := descent_sels s d (spreadFields s d n) (fun nm' a' ha' => descent_spread s d hac n nm' a' ha') fr.sel _ a h
        rw [Hf_eq d hac nm, hf]
        exact this

/-- **descent**: a field collected from `sel` has a selection set of smaller height -/
theorem descent (s : Schema) (d : Document) (hac : ¬ FragmentCycle d) (sf : Nat) (parent : Option TypeDef) (sel : List Selection)
    (a : AstAndDef) (h : a ∈ specFields s d sf parent sel) : Hs d a.field.sel + 1 ≤ Hs d sel :=
  descent_sels s d (spreadFields s d sf) (fun nm a' ha' => descent_spread s d hac sf nm a' ha') sel parent a h

/-- the height of a field: that of its own selection set -/
def ha (d : Document) (a : AstAndDef) : Nat := Hs d a.field.sel

theorem ha_sub (s : Schema) (d : Document) (hac : ¬ FragmentCycle d) (sf : Nat) (a x : AstAndDef) (h : x ∈ subFields s d sf a) :
    ha d x + 1 ≤ ha d a :=
  descent s d hac sf _ _ x h

/-! ### the tests do not change once the fuel exceeds the height -/

theorem all_congr_mem {α : Type} (f g : α → Bool) : ∀ (L : List α), (∀ b ∈ L, f b = g b) → L.all f = L.all g
  | [], _ => rfl
  | x :: L, h => by
      simp only [List.all_cons]
      rw [h x (by simp), all_congr_mem f g L (fun b hb => h b (by simp [hb]))]

theorem allPairs_congr' (p q : AstAndDef → AstAndDef → Bool) : ∀ (L : List AstAndDef),
    (∀ a ∈ L, ∀ b ∈ L, p a b = q a b) → allPairs p L = allPairs q L
  | [], _ => rfl
  | a :: L, h => by
      simp only [allPairs]
      rw [allPairs_congr' p q L (fun x hx y hy => h x (by simp [hx]) y (by simp [hy]))]
      congr 1
      apply all_congr_mem
      intro b hb
      rw [h a (by simp) b (by simp [hb])]

theorem srs_stable (s : Schema) (d : Document) (hac : ¬ FragmentCycle d) (sf : Nat) : ∀ (M : Nat) (a b : AstAndDef),
    max (ha d a) (ha d b) ≤ M → ∀ m m', M < m → M < m' → sameResponseShape s d sf m a b = sameResponseShape s d sf m' a b
  | M, a, b, hM, m, m', hm, hm' => by
      obtain ⟨m1, rfl⟩ : ∃ m1, m = m1 + 1 := ⟨m - 1, by omega⟩
      obtain ⟨m2, rfl⟩ : ∃ m2, m' = m2 + 1 := ⟨m' - 1, by omega⟩
      rw [srs_succ, srs_succ]
      congr 1
      apply allPairs_congr'
      intro x hx y hy
      have hxa : ha d x + 1 ≤ M := by
        rcases List.mem_append.1 hx with hx | hx
        · have := ha_sub s d hac sf a x hx; omega
        · have := ha_sub s d hac sf b x hx; omega
      have hya : ha d y + 1 ≤ M := by
        rcases List.mem_append.1 hy with hy | hy
        · have := ha_sub s d hac sf a y hy; omega
        · have := ha_sub s d hac sf b y hy; omega
      match M, hM, hxa with
      | M' + 1, _, _ => exact srs_stable s d hac sf M' x y (by omega) m1 m2 (by omega) (by omega)

/-- height of a field list: one more than the highest member's -/
def hL (d : Document) : List AstAndDef → Nat
  | [] => 0
  | a :: L => max (ha d a + 1) (hL d L)

theorem ha_lt_hL (d : Document) : ∀ (L : List AstAndDef) (a : AstAndDef), a ∈ L → ha d a + 1 ≤ hL d L
  | [], _, h => by cases h
  | b :: L, a, h => by
      simp only [hL]
      rcases List.mem_cons.1 h with rfl | h
      · omega
      · have := ha_lt_hL d L a h; omega

theorem hL_le (d : Document) (M : Nat) : ∀ (L : List AstAndDef), (∀ a ∈ L, ha d a + 1 ≤ M) → hL d L ≤ M
  | [], _ => by simp [hL]
  | a :: L, h => by
      simp only [hL]
      have h1 := h a (by simp)
      have h2 := hL_le d M L (fun x hx => h x (by simp [hx]))
      omega

theorem cm_stable (s : Schema) (d : Document) (hac : ¬ FragmentCycle d) (sf : Nat) : ∀ (M : Nat) (L : List AstAndDef),
    hL d L ≤ M → ∀ m m', M < m → M < m' → fieldsInSetCanMerge s d sf m L = fieldsInSetCanMerge s d sf m' L
  | M, L, hM, m, m', hm, hm' => by
      obtain ⟨m1, rfl⟩ : ∃ m1, m = m1 + 1 := ⟨m - 1, by omega⟩
      obtain ⟨m2, rfl⟩ : ∃ m2, m' = m2 + 1 := ⟨m' - 1, by omega⟩
      rw [cm_succ, cm_succ]
      apply allPairs_congr'
      intro a haL b hbL
      have h1 := ha_lt_hL d L a haL
      have h2 := ha_lt_hL d L b hbL
      match M, hM, h1 with
      | 0, hM, h1 => omega
      | M' + 1, hM, h1 =>
        simp only [pairOk]
        rw [srs_stable s d hac sf M' a b (by omega) m1 m2 (by omega) (by omega)]
        congr 1
        split
        · congr 1
          apply cm_stable s d hac sf M' _ ?_ m1 m2 (by omega) (by omega)
          apply hL_le
          intro x hx
          rcases List.mem_append.1 hx with hx | hx
          · have := ha_sub s d hac sf a x hx; omega
          · have := ha_sub s d hac sf b x hx; omega
        · rfl

/-! ### a bound on the height -/

mutual
theorem hSelW_bound (sp : Name → Nat) (B : Nat) (hsp : ∀ nm, sp nm ≤ B) : ∀ x : Selection, hSelW sp x ≤ selDepth x + B
  | .field _ _ _ _ _ sel => by
      simp only [hSelW, selDepth]; have := hSelsW_bound sp B hsp sel; omega
  | .spread _ nm _ => by simp only [hSelW, selDepth]; have := hsp nm; omega
  | .inline _ _ _ sel => by
      simp only [hSelW, selDepth]; have := hSelsW_bound sp B hsp sel; omega
theorem hSelsW_bound (sp : Name → Nat) (B : Nat) (hsp : ∀ nm, sp nm ≤ B) : ∀ xs : List Selection, hSelsW sp xs ≤ selsDepth xs + B
  | [] => by simp [hSelsW]
  | x :: xs => by
      simp only [hSelsW, selsDepth]
      have h1 := hSelW_bound sp B hsp x
      have h2 := hSelsW_bound sp B hsp xs
      omega
end

theorem fragH_bound (d : Document) : ∀ (k : Nat) (nm : Name), fragH d k nm ≤ k * docDepth d
  | 0, _ => by simp [fragH]
  | k + 1, nm => by
      simp only [fragH]
      cases hf : d.fragByName nm with
      | none => simp
      | some fr =>
        simp only
        obtain ⟨hm, _⟩ := fragByName_name d nm fr hf
        have h1 := hSelsW_bound (fragH d k) (k * docDepth d) (fun nm' => fragH_bound d k nm') fr.sel
        have h2 : selsDepth fr.sel ≤ docDepth d :=
          selsDepth_le_docDepth d (.frag fr) ((mem_fragments_iff d fr).1 hm)
        have : (k + 1) * docDepth d = k * docDepth d + docDepth d := Nat.succ_mul _ _
        omega

theorem Hs_bound (d : Document) (sel : List Selection) : Hs d sel ≤ selsDepth sel + (d.fragments.length + 1) * docDepth d :=
  hSelsW_bound (Hf d) _ (fun nm => fragH_bound d _ nm) sel

/-! ### every selection set of the document is at most as deep as the document -/

mutual
theorem selset_depth_sel : ∀ (x : Selection) (sel : List Selection), Ev.enter (.selectionSet sel) ∈ traverseSelection x →
    selsDepth sel + 1 ≤ selDepth x
  | .field pos alias name args dirs sub, sel, h => by
      simp only [traverseSelection, List.cons_append, List.mem_cons, List.mem_append] at h
      simp only [selDepth]
      rcases h with h | ((h | h) | h | h | h) | h
      · cases h
      · exact absurd h (no_selset_arguments args sel)
      · exact absurd h (no_selset_directives dirs sel)
      · have : sel = sub := by simpa using h
        subst this; omega
      · have := selset_depth_sels sub sel h; omega
      · simp at h
      · simp at h
  | .spread pos name dirs, sel, h => by
      simp only [traverseSelection, List.cons_append, List.mem_cons, List.mem_append] at h
      rcases h with h | h | h
      · cases h
      · exact absurd h (no_selset_directives dirs sel)
      · simp at h
  | .inline pos tc dirs sub, sel, h => by
      simp only [traverseSelection, List.cons_append, List.mem_cons, List.mem_append] at h
      simp only [selDepth]
      rcases h with h | (h | h | h | h) | h
      · cases h
      · exact absurd h (no_selset_directives dirs sel)
      · have : sel = sub := by simpa using h
        subst this; omega
      · have := selset_depth_sels sub sel h; omega
      · simp at h
      · simp at h
theorem selset_depth_sels : ∀ (xs : List Selection) (sel : List Selection), Ev.enter (.selectionSet sel) ∈ traverseSelections xs →
    selsDepth sel + 1 ≤ selsDepth xs
  | [], sel, h => by simp [traverseSelections] at h
  | x :: xs, sel, h => by
      simp only [traverseSelections, List.mem_append] at h
      simp only [selsDepth]
      rcases h with h | h
      · have := selset_depth_sel x sel h; omega
      · have := selset_depth_sels xs sel h; omega
end

theorem selset_depth_definition (x : Definition) (sel : List Selection) (h : Ev.enter (.selectionSet sel) ∈ traverseDefinition x) :
    selsDepth sel ≤ selsDepth x.selections := by
  cases x with
  | frag f =>
    simp only [traverseDefinition, traverseSelectionSet, List.cons_append, List.mem_cons, List.mem_append] at h
    simp only [Definition.selections]
    rcases h with h | (h | h | h | h) | h
    · cases h
    · exact absurd h (no_selset_directives f.dirs sel)
    · have : sel = f.sel := by simpa using h
      subst this; exact Nat.le_refl _
    · have := selset_depth_sels f.sel sel h; omega
    · simp at h
    · simp at h
  | op o =>
    simp only [traverseDefinition, traverseSelectionSet, List.cons_append, List.mem_cons, List.mem_append] at h
    simp only [Definition.selections]
    rcases h with h | ((h | h) | h | h | h) | h
    · cases h
    · exact absurd h (no_selset_directives o.dirs sel)
    · exact absurd h (no_selset_varDefs o.vars sel)
    · have : sel = o.sel := by simpa using h
      subst this; exact Nat.le_refl _
    · have := selset_depth_sels o.sel sel h; omega
    · simp at h
    · simp at h

theorem selset_depth_document (d : Document) (sel : List Selection) (h : Ev.enter (.selectionSet sel) ∈ traverseDocument d) :
    selsDepth sel ≤ docDepth d := by
  simp only [traverseDocument, List.cons_append, List.mem_cons, List.mem_append] at h
  rcases h with h | h | h
  · cases h
  · have key : ∀ ds : List Definition, (∀ x ∈ ds, x ∈ d) → Ev.enter (.selectionSet sel) ∈ traverseDefinitions ds → selsDepth sel ≤ docDepth d := by
      intro ds
      induction ds with
      | nil => intro _ h; simp [traverseDefinitions] at h
      | cons x xs ih =>
        intro hsub h
        simp only [traverseDefinitions, List.mem_append] at h
        rcases h with h | h
        · have h1 := selset_depth_definition x sel h
          have h2 := selsDepth_le_docDepth d x (hsub x (by simp))
          omega
        · exact ih (fun y hy => hsub y (by simp [hy])) h
    exact key d (fun _ h => h) h
  · simp at h

end Gql
