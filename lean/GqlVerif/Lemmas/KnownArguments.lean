/-
  Lemmas/KnownArguments.lean — the `current_known_arguments` slot of known_argument_names.rs.
  Main result: the rule's report is what you get by checking, at every `enter field` /
  `enter directive` callback, that node's own arguments against that node's own declaration
  (`ka_document`).  I.e. the slot always belongs to the node whose arguments are being visited —
  which is what went wrong before the F8 repair.
-/
import GqlVerif.Lemmas.TraverseMem
namespace Gql

abbrev KaAcc := KaSlot × List Err

/-- errors for the arguments `args` of a node whose declaration is `slot` -/
def kaArgErrs (slot : KaSlot) (args : List Arg) : List Err := args.flatMap (kaArgCheck slot)

/-- per-owner check: a field's / directive's own arguments against its own declaration -/
def kaOwnerCheck (s : Schema) (e : Ev × Snap) : List Err :=
  match e.1 with
  | .enter (.field f) => kaArgErrs (fieldSlot e.2.parent f) f.args
  | .enter (.directive dir) => kaArgErrs (dirSlot s dir) dir.args
  | _ => []

def kaStep (s : Schema) (acc : KaAcc) (e : Ev × Snap) : KaAcc := knownArgumentNames.step s [] acc e

theorem ka_step_eq (s : Schema) (d : Document) (acc : knownArgumentNames.σ × List Err) (e : Ev × Snap) :
    knownArgumentNames.step s d acc e = kaStep s acc e := rfl

/-- traces that neither touch the slot nor contain owners -/
def KaNeutral (s : Schema) (t : Trace) : Prop :=
  (∀ acc : KaAcc, t.foldl (kaStep s) acc = acc) ∧ t.flatMap (kaOwnerCheck s) = []

theorem KaNeutral.nil (s : Schema) : KaNeutral s [] := ⟨fun _ => rfl, rfl⟩
theorem KaNeutral.append {s : Schema} {a b : Trace} (ha : KaNeutral s a) (hb : KaNeutral s b) :
    KaNeutral s (a ++ b) :=
  ⟨fun acc => by rw [List.foldl_append, ha.1, hb.1], by rw [List.flatMap_append, ha.2, hb.2]; rfl⟩
theorem KaNeutral.cons {s : Schema} {e : Ev × Snap} {t : Trace}
    (he : (∀ acc, kaStep s acc e = acc) ∧ kaOwnerCheck s e = []) (ht : KaNeutral s t) : KaNeutral s (e :: t) :=
  ⟨fun acc => by rw [List.foldl_cons, he.1, ht.1], by rw [List.flatMap_cons, he.2, ht.2]; rfl⟩

/-- value callbacks are neutral -/
theorem ka_neutral_ev (s : Schema) (n : Node) (sn : Snap)
    (h : match n with
      | .nullValue | .scalar _ | .enumValue _ | .variable _ | .list _ | .object _ | .objectField _
      | .selectionSet _ | .varDef _ | .document _ => True
      | _ => False) :
    ((∀ acc, kaStep s acc (.enter n, sn) = acc) ∧ kaOwnerCheck s (.enter n, sn) = []) ∧
    ((∀ acc, kaStep s acc (.leave n, sn) = acc) ∧ kaOwnerCheck s (.leave n, sn) = []) := by
  cases n <;> simp at h <;>
    exact ⟨⟨fun acc => by simp [kaStep, Rule.step, knownArgumentNames], rfl⟩,
           ⟨fun acc => by simp [kaStep, Rule.step, knownArgumentNames], rfl⟩⟩

mutual
theorem ka_value (s : Schema) : ∀ (e : Snap) (v : Value), KaNeutral s (walkValue s e v)
  | e, .bool b => by
      simp only [walkValue]
      exact KaNeutral.cons (ka_neutral_ev s (.scalar (.bool b)) e trivial).1 (KaNeutral.cons (ka_neutral_ev s (.scalar (.bool b)) e trivial).2 (KaNeutral.nil s))
  | e, .float b => by
      simp only [walkValue]
      exact KaNeutral.cons (ka_neutral_ev s (.scalar (.float b)) e trivial).1 (KaNeutral.cons (ka_neutral_ev s (.scalar (.float b)) e trivial).2 (KaNeutral.nil s))
  | e, .int b => by
      simp only [walkValue]
      exact KaNeutral.cons (ka_neutral_ev s (.scalar (.int b)) e trivial).1 (KaNeutral.cons (ka_neutral_ev s (.scalar (.int b)) e trivial).2 (KaNeutral.nil s))
  | e, .str b => by
      simp only [walkValue]
      exact KaNeutral.cons (ka_neutral_ev s (.scalar (.str b)) e trivial).1 (KaNeutral.cons (ka_neutral_ev s (.scalar (.str b)) e trivial).2 (KaNeutral.nil s))
  | e, .null => by
      simp only [walkValue]
      exact KaNeutral.cons (ka_neutral_ev s .nullValue e trivial).1 (KaNeutral.cons (ka_neutral_ev s .nullValue e trivial).2 (KaNeutral.nil s))
  | e, .enum n => by
      simp only [walkValue]
      exact KaNeutral.cons (ka_neutral_ev s (.enumValue n) e trivial).1 (KaNeutral.cons (ka_neutral_ev s (.enumValue n) e trivial).2 (KaNeutral.nil s))
  | e, .var n => by
      simp only [walkValue]
      exact KaNeutral.cons (ka_neutral_ev s (.variable n) e trivial).1 (KaNeutral.cons (ka_neutral_ev s (.variable n) e trivial).2 (KaNeutral.nil s))
  | e, .list vs => by
      simp only [walkValue]
      exact KaNeutral.cons (ka_neutral_ev s (.list vs) e trivial).1
        (KaNeutral.append (ka_values s _ vs) (KaNeutral.cons (ka_neutral_ev s (.list vs) e trivial).2 (KaNeutral.nil s)))
  | e, .obj fs => by
      simp only [walkValue]
      exact KaNeutral.cons (ka_neutral_ev s (.object fs) e trivial).1
        (KaNeutral.append (ka_objFields s e fs) (KaNeutral.cons (ka_neutral_ev s (.object fs) e trivial).2 (KaNeutral.nil s)))
theorem ka_values (s : Schema) : ∀ (e : Snap) (vs : List Value), KaNeutral s (walkValues s e vs)
  | e, [] => by simp only [walkValues]; exact KaNeutral.nil s
  | e, v :: vs => by simp only [walkValues]; exact (ka_value s e v).append (ka_values s e vs)
theorem ka_objFields (s : Schema) : ∀ (e : Snap) (fs : List (Name × Value)), KaNeutral s (walkObjFields s e fs)
  | e, [] => by simp only [walkObjFields]; exact KaNeutral.nil s
  | e, (k, v) :: fs => by
      simp only [walkObjFields]
      exact KaNeutral.append
        (KaNeutral.cons (ka_neutral_ev s (.objectField (k, v)) _ trivial).1
          (KaNeutral.append (ka_value s _ v) (KaNeutral.cons (ka_neutral_ev s (.objectField (k, v)) _ trivial).2 (KaNeutral.nil s))))
        (ka_objFields s e fs)
end

/-- the arguments of a node are checked against the slot as it stands; no owners inside -/
theorem ka_arguments (s : Schema) (defs : Option (List InputValueDef)) (e : Snap) (slot : KaSlot) :
    ∀ (args : List Arg) (acc : List Err),
      (walkArguments s defs e args).foldl (kaStep s) (slot, acc) = (slot, acc ++ kaArgErrs slot args) ∧
      (walkArguments s defs e args).flatMap (kaOwnerCheck s) = []
  | [], acc => by simp [walkArguments, kaArgErrs]
  | a :: as, acc => by
      have ih := ka_arguments s defs e slot as
      have hv := ka_value s (e.withInput s (argType defs a.1)) a.2
      simp only [walkArguments, List.foldl_append, List.foldl_cons, List.foldl_nil, List.cons_append,
        List.flatMap_cons, List.flatMap_append, List.flatMap_nil]
      have e1 : kaStep s (slot, acc) (.enter (.argument a), e.withInput s (argType defs a.1))
          = (slot, acc ++ kaArgCheck slot a) := rfl
      have e2 : ∀ acc', kaStep s (slot, acc') (.leave (.argument a), e.withInput s (argType defs a.1)) = (slot, acc') := by
        intro acc'; simp [kaStep, Rule.step, knownArgumentNames]
      rw [e1, hv.1, e2]
      constructor
      · rw [(ih _).1]; simp [kaArgErrs, List.append_assoc]
      · simp [kaOwnerCheck, hv.2, (ih []).2]

/-- the shape of every statement below: whatever the slot holds on entry, the trace's report is
    the per-owner check of its callbacks (every owner resets the slot when it is entered, so a
    stale slot is never consulted) -/
def KaOk (s : Schema) (t : Trace) : Prop :=
  ∀ (slot : KaSlot) (acc : List Err), ∃ slot' : KaSlot,
    t.foldl (kaStep s) (slot, acc) = (slot', acc ++ t.flatMap (kaOwnerCheck s))

theorem KaOk.nil (s : Schema) : KaOk s [] := fun slot acc => ⟨slot, by simp⟩

theorem KaOk.append {s : Schema} {a b : Trace} (ha : KaOk s a) (hb : KaOk s b) : KaOk s (a ++ b) := by
  intro slot acc
  obtain ⟨s1, h1⟩ := ha slot acc
  obtain ⟨s2, h2⟩ := hb s1 (acc ++ a.flatMap (kaOwnerCheck s))
  exact ⟨s2, by rw [List.foldl_append, h1, h2, List.flatMap_append, List.append_assoc]⟩

theorem KaOk.of_neutral {s : Schema} {t : Trace} (h : KaNeutral s t) : KaOk s t :=
  fun slot acc => ⟨slot, by rw [h.1, h.2, List.append_nil]⟩

/-- a callback that reports nothing and is no owner -/
theorem KaOk.single {s : Schema} (e : Ev × Snap) (h : ∀ acc, (kaStep s acc e).2 = acc.2)
    (ho : kaOwnerCheck s e = []) : KaOk s [e] := by
  intro slot acc
  refine ⟨(kaStep s (slot, acc) e).1, ?_⟩
  have := h (slot, acc)
  simp only [List.foldl_cons, List.foldl_nil, List.flatMap_cons, List.flatMap_nil, ho, List.append_nil]
  exact Prod.ext rfl this

theorem ka_directives (s : Schema) (e : Snap) : ∀ ds : List Directive, KaOk s (walkDirectives s e ds)
  | [] => by simp only [walkDirectives]; exact KaOk.nil s
  | dir :: ds => by
      have ih := ka_directives s e ds
      intro slot acc
      simp only [walkDirectives, List.foldl_append, List.foldl_cons, List.foldl_nil, List.cons_append,
        List.flatMap_cons, List.flatMap_append, List.flatMap_nil]
      have e1 : kaStep s (slot, acc) (.enter (.directive dir), e) = (dirSlot s dir, acc) := by
        simp [kaStep, Rule.step, knownArgumentNames]
      have ha := ka_arguments s ((s.directiveByName dir.name).map (·.args)) e (dirSlot s dir) dir.args acc
      rw [e1, ha.1]
      have e2 : ∀ (q : KaSlot) acc', kaStep s (q, acc') (.leave (.directive dir), e) = (none, acc') := by
        intro q acc'; simp [kaStep, Rule.step, knownArgumentNames]
      rw [e2]
      obtain ⟨q, hq⟩ := ih none (acc ++ kaArgErrs (dirSlot s dir) dir.args)
      exact ⟨q, by rw [hq]; simp [kaOwnerCheck, ha.2, List.append_assoc]⟩

theorem ka_varDefs (s : Schema) (e : Snap) : ∀ vs : List VarDef, KaNeutral s (walkVarDefs s e vs)
  | [] => by simp only [walkVarDefs]; exact KaNeutral.nil s
  | v :: vs => by
      simp only [walkVarDefs]
      refine KaNeutral.append (KaNeutral.cons (ka_neutral_ev s (.varDef v) _ trivial).1
        (KaNeutral.append ?_ (KaNeutral.cons (ka_neutral_ev s (.varDef v) _ trivial).2 (KaNeutral.nil s)))) (ka_varDefs s e vs)
      cases v.default with
      | none => exact KaNeutral.nil s
      | some dv => exact ka_value s _ dv

theorem ka_plain (s : Schema) (e : Ev × Snap)
    (h : match e.1 with
      | .enter (.selectionSet _) | .leave (.selectionSet _) | .leave (.field _) | .enter (.spread _) | .leave (.spread _)
      | .enter (.inline _) | .leave (.inline _) | .enter (.operation _) | .leave (.operation _)
      | .enter (.fragmentDef _) | .leave (.fragmentDef _) | .enter (.document _) | .leave (.document _) => True
      | _ => False) : KaOk s [e] := by
  obtain ⟨ev, sn⟩ := e
  apply KaOk.single
  · intro acc
    cases ev with
    | enter n => cases n <;> simp at h <;> simp [kaStep, Rule.step, knownArgumentNames]
    | leave n => cases n <;> simp at h <;> simp [kaStep, Rule.step, knownArgumentNames]
  · cases ev with
    | enter n => cases n <;> simp at h <;> rfl
    | leave n => cases n <;> simp at h <;> rfl

theorem KaOk.cons_plain {s : Schema} {e : Ev × Snap} {t : Trace} (he : KaOk s [e]) (ht : KaOk s t) : KaOk s (e :: t) :=
  KaOk.append he ht

mutual
theorem ka_selection (s : Schema) : ∀ (e : Snap) (x : Selection), KaOk s (walkSelection s e x)
  | e, .field pos alias name args dirs sel => by
      intro slot acc
      simp only [walkSelection, walkSelectionSetWith, List.foldl_append, List.foldl_cons, List.foldl_nil, List.cons_append,
        List.flatMap_cons, List.flatMap_append, List.flatMap_nil]
      have h1 : ∀ sn : Snap, kaStep s (slot, acc) (.enter (.field ⟨pos, alias, name, args, dirs, sel⟩), sn)
          = (fieldSlot sn.parent ⟨pos, alias, name, args, dirs, sel⟩, acc) := by
        intro sn; simp [kaStep, Rule.step, knownArgumentNames]
      rw [h1]
      have ha := fun sl => ka_arguments s ((e.parent.bind (·.fieldByName name)).map (·.args))
        ((e.withType s ((e.parent.bind (·.fieldByName name)).map (·.ty))).withField (e.parent.bind (·.fieldByName name)))
        sl args acc
      rw [(ha _).1]
      -- the rest: directives, the selection set, leave field
      have hrest : KaOk s (walkDirectives s ((e.withType s ((e.parent.bind (·.fieldByName name)).map (·.ty))).withField (e.parent.bind (·.fieldByName name))) dirs
          ++ ((.enter (.selectionSet sel), ((e.withType s ((e.parent.bind (·.fieldByName name)).map (·.ty))).withField (e.parent.bind (·.fieldByName name))).withParent)
            :: walkSelections s ((e.withType s ((e.parent.bind (·.fieldByName name)).map (·.ty))).withField (e.parent.bind (·.fieldByName name))).withParent sel
            ++ [(.leave (.selectionSet sel), ((e.withType s ((e.parent.bind (·.fieldByName name)).map (·.ty))).withField (e.parent.bind (·.fieldByName name))).withParent)])
          ++ [(.leave (.field ⟨pos, alias, name, args, dirs, sel⟩), e.withType s ((e.parent.bind (·.fieldByName name)).map (·.ty)))]) :=
        KaOk.append (KaOk.append (ka_directives s _ dirs)
          (KaOk.cons_plain (ka_plain s _ trivial) (KaOk.append (ka_selections s _ sel) (ka_plain s _ trivial))))
          (ka_plain s _ trivial)
      obtain ⟨q, hq⟩ := hrest (fieldSlot (e.withType s ((e.parent.bind (·.fieldByName name)).map (·.ty))).parent ⟨pos, alias, name, args, dirs, sel⟩)
        (acc ++ kaArgErrs (fieldSlot (e.withType s ((e.parent.bind (·.fieldByName name)).map (·.ty))).parent ⟨pos, alias, name, args, dirs, sel⟩) args)
      refine ⟨q, ?_⟩
      simp only [List.foldl_append, List.foldl_cons, List.foldl_nil, List.cons_append, List.flatMap_cons,
        List.flatMap_append, List.flatMap_nil] at hq
      rw [hq, (ha none).2]
      simp [kaOwnerCheck, List.append_assoc]
  | e, .spread pos name dirs => by
      simp only [walkSelection]
      exact KaOk.cons_plain (ka_plain s _ trivial) (KaOk.append (ka_directives s _ dirs) (ka_plain s _ trivial))
  | e, .inline pos tc dirs sel => by
      simp only [walkSelection, walkSelectionSetWith]
      exact KaOk.cons_plain (ka_plain s _ trivial)
        (KaOk.append (KaOk.append (ka_directives s _ dirs)
          (KaOk.cons_plain (ka_plain s _ trivial) (KaOk.append (ka_selections s _ sel) (ka_plain s _ trivial))))
          (ka_plain s _ trivial))
theorem ka_selections (s : Schema) : ∀ (e : Snap) (xs : List Selection), KaOk s (walkSelections s e xs)
  | e, [] => by simp only [walkSelections]; exact KaOk.nil s
  | e, x :: xs => by simp only [walkSelections]; exact (ka_selection s e x).append (ka_selections s e xs)
end

theorem ka_selectionSet (s : Schema) (e : Snap) (sel : List Selection) : KaOk s (walkSelectionSet s e sel) := by
  simp only [walkSelectionSet, walkSelectionSetWith]
  exact KaOk.cons_plain (ka_plain s _ trivial) (KaOk.append (ka_selections s _ sel) (ka_plain s _ trivial))

theorem ka_definition (s : Schema) (e : Snap) (x : Definition) (t : Trace) (h : walkDefinition s e x = some t) :
    KaOk s t := by
  cases x with
  | frag f =>
    simp only [walkDefinition, Option.some.injEq] at h
    subst h
    exact KaOk.cons_plain (ka_plain s _ trivial)
      (KaOk.append (KaOk.append (ka_directives s _ f.dirs) (ka_selectionSet s _ f.sel)) (ka_plain s _ trivial))
  | op o =>
    simp only [walkDefinition, Option.map_eq_some_iff] at h
    obtain ⟨tn, _, rfl⟩ := h
    exact KaOk.cons_plain (ka_plain s _ trivial)
      (KaOk.append (KaOk.append (KaOk.append (ka_directives s _ o.dirs) (KaOk.of_neutral (ka_varDefs s _ o.vars)))
        (ka_selectionSet s _ o.sel)) (ka_plain s _ trivial))

theorem ka_definitions (s : Schema) (e : Snap) : ∀ (ds : List Definition) (t : Trace),
    walkDefinitions s e ds = some t → KaOk s t
  | [], t, h => by simp [walkDefinitions] at h; subst h; exact KaOk.nil s
  | x :: xs, t, h => by
      simp only [walkDefinitions] at h
      cases h1 : walkDefinition s e x with
      | none => simp [h1] at h
      | some a =>
        cases h2 : walkDefinitions s e xs with
        | none => simp [h1, h2] at h
        | some b =>
          simp [h1, h2] at h
          subst h
          exact (ka_definition s e x a h1).append (ka_definitions s e xs b h2)

/-- **the rule's report** = per-owner check of every `enter field` / `enter directive` callback -/
theorem ka_document (s : Schema) (d : Document) :
    (ruleOf .knownArgumentNames).runOn s d (walkOf s d) = (walkOf s d).flatMap (kaOwnerCheck s) := by
  have hok : KaOk s (walkOf s d) := by
    unfold walkOf
    cases h : walkDocument s Snap.empty d with
    | none => exact KaOk.nil s
    | some t =>
      simp only [walkDocument, Option.map_eq_some_iff] at h
      obtain ⟨t', ht', rfl⟩ := h
      simp only [Option.getD_some]
      exact KaOk.cons_plain (ka_plain s _ trivial) (KaOk.append (ka_definitions s _ d t' ht') (ka_plain s _ trivial))
  obtain ⟨q, hq⟩ := hok none []
  simp only [ruleOf, Rule.runOn]
  have : (walkOf s d).foldl (knownArgumentNames.step s d) (knownArgumentNames.init, []) = (q, [] ++ (walkOf s d).flatMap (kaOwnerCheck s)) := hq
  rw [this]
  simp [knownArgumentNames]

end Gql
