/-
  Lemmas/KnownDirectives.lean — the `recent_location` slot of known_directives.rs: whenever the
  directives of a node are visited the slot holds that node's location.  Proved by running the
  rule's fold over the (schema-independent) event traversal, structurally.
-/
import GqlVerif.Spec.Directives
import GqlVerif.Lemmas.TraverseMem
namespace Gql
open Gql.Spec

abbrev KdAcc := Option DirLoc × List Err

/-- the rule's step on a bare event (it never looks at the context answers) -/
def kdStep (s : Schema) (acc : KdAcc) (ev : Ev) : KdAcc :=
  knownDirectives.step s [] acc (ev, default)

theorem kd_step_eq (s : Schema) (d : Document) (acc : knownDirectives.σ × List Err) (e : Ev × Snap) :
    knownDirectives.step s d acc e = kdStep s acc e.1 := by
  obtain ⟨ev, sn⟩ := e
  cases ev with
  | enter n => cases n <;> rfl
  | leave n => cases n <;> rfl

theorem kd_fold_eq (s : Schema) (d : Document) (tr : Trace) (acc : knownDirectives.σ × List Err) :
    tr.foldl (knownDirectives.step s d) acc = (tr.map Prod.fst).foldl (kdStep s) acc := by
  induction tr generalizing acc with
  | nil => rfl
  | cons e tr ih =>
    show List.foldl (knownDirectives.step s d) (knownDirectives.step s d acc e) tr
      = List.foldl (kdStep s) (kdStep s acc e.1) (tr.map Prod.fst)
    rw [kd_step_eq]
    exact ih _

/-- what `enter_directive` reports when the slot holds `recent` -/
def dirCheck (s : Schema) (recent : Option DirLoc) (dir : Directive) : List Err :=
  match s.directiveMapGet dir.name with
  | some dd =>
    (match recent with
     | some loc =>
       if !dd.locations.any (fun l => l == loc) then
         [⟨.knownDirectives, [dir.pos], .misplacedDirective dir.name loc⟩]
       else []
     | none => [])
  | none => [⟨.knownDirectives, [dir.pos], .unknownDirective dir.name⟩]

theorem kdStep_enter_directive (s : Schema) (r : Option DirLoc) (acc : List Err) (dir : Directive) :
    kdStep s (r, acc) (.enter (.directive dir)) = (r, acc ++ dirCheck s r dir) := by
  simp only [kdStep, Rule.step, knownDirectives, dirCheck]
  cases s.directiveMapGet dir.name with
  | none => rfl
  | some dd =>
    cases r with
    | none => rfl
    | some loc => dsimp only; split <;> rfl

/-- events that leave the slot alone -/
def KdNeutral (l : List Ev) : Prop := ∀ (s : Schema) (acc : KdAcc), l.foldl (kdStep s) acc = acc

theorem KdNeutral.nil : KdNeutral [] := fun _ _ => rfl
theorem KdNeutral.append {a b : List Ev} (ha : KdNeutral a) (hb : KdNeutral b) : KdNeutral (a ++ b) := by
  intro s acc; rw [List.foldl_append, ha, hb]
theorem KdNeutral.cons {e : Ev} {l : List Ev} (he : ∀ s acc, kdStep s acc e = acc) (hl : KdNeutral l) :
    KdNeutral (e :: l) := by
  intro s acc; rw [List.foldl_cons, he, hl]

mutual
theorem kd_value : ∀ v, KdNeutral (traverseValue v)
  | .bool _ | .float _ | .int _ | .str _ | .null | .enum _ | .var _ => by
      intro s acc; simp [traverseValue, kdStep, Rule.step, knownDirectives]
  | .list vs => by
      simp only [traverseValue]
      exact KdNeutral.cons (fun _ _ => by simp [kdStep, Rule.step, knownDirectives])
        (KdNeutral.append (kd_values vs) (KdNeutral.cons (fun _ _ => by simp [kdStep, Rule.step, knownDirectives]) KdNeutral.nil))
  | .obj fs => by
      simp only [traverseValue]
      exact KdNeutral.cons (fun _ _ => by simp [kdStep, Rule.step, knownDirectives])
        (KdNeutral.append (kd_objFields fs) (KdNeutral.cons (fun _ _ => by simp [kdStep, Rule.step, knownDirectives]) KdNeutral.nil))
theorem kd_values : ∀ vs, KdNeutral (traverseValues vs)
  | [] => by simp only [traverseValues]; exact KdNeutral.nil
  | v :: vs => by simp only [traverseValues]; exact (kd_value v).append (kd_values vs)
theorem kd_objFields : ∀ fs, KdNeutral (traverseObjFields fs)
  | [] => by simp only [traverseObjFields]; exact KdNeutral.nil
  | (k, v) :: fs => by
      simp only [traverseObjFields]
      exact KdNeutral.append (KdNeutral.cons (fun _ _ => by simp [kdStep, Rule.step, knownDirectives])
        (KdNeutral.append (kd_value v) (KdNeutral.cons (fun _ _ => by simp [kdStep, Rule.step, knownDirectives]) KdNeutral.nil))) (kd_objFields fs)
end

theorem kd_arguments : ∀ as, KdNeutral (traverseArguments as)
  | [] => KdNeutral.nil
  | a :: as => by
      simp only [traverseArguments]
      exact KdNeutral.append (KdNeutral.cons (fun _ _ => by simp [kdStep, Rule.step, knownDirectives])
        (KdNeutral.append (kd_value a.2) (KdNeutral.cons (fun _ _ => by simp [kdStep, Rule.step, knownDirectives]) KdNeutral.nil))) (kd_arguments as)

theorem kd_varDefs : ∀ vs, KdNeutral (traverseVarDefs vs)
  | [] => KdNeutral.nil
  | v :: vs => by
      simp only [traverseVarDefs]
      refine KdNeutral.append (KdNeutral.cons (fun _ _ => by simp [kdStep, Rule.step, knownDirectives])
        (KdNeutral.append ?_ (KdNeutral.cons (fun _ _ => by simp [kdStep, Rule.step, knownDirectives]) KdNeutral.nil))) (kd_varDefs vs)
      cases v.default with
      | none => exact KdNeutral.nil
      | some dv => exact kd_value dv

/-- directives of a node: each is checked against the slot as it stands; the slot is untouched -/
theorem kd_directives (s : Schema) (r : Option DirLoc) :
    ∀ (ds : List Directive) (acc : List Err),
      (traverseDirectives ds).foldl (kdStep s) (r, acc) = (r, acc ++ ds.flatMap (dirCheck s r))
  | [], acc => by simp [traverseDirectives]
  | dir :: ds, acc => by
      simp only [traverseDirectives, List.foldl_append, List.foldl_cons, List.foldl_nil, List.cons_append]
      rw [kdStep_enter_directive, kd_arguments dir.args]
      have : kdStep s (r, acc ++ dirCheck s r dir) (.leave (.directive dir)) = (r, acc ++ dirCheck s r dir) := by
        simp [kdStep, Rule.step, knownDirectives]
      rw [this, kd_directives s r ds]
      simp [List.append_assoc]

mutual
/-- what the rule reports inside a selection (structural) -/
def kdSelErrs (s : Schema) : Selection → List Err
  | .field _ _ _ _ dirs sel => dirs.flatMap (dirCheck s (some .field)) ++ kdSelsErrs s sel
  | .spread _ _ dirs => dirs.flatMap (dirCheck s (some .fragmentSpread))
  | .inline _ _ dirs sel => dirs.flatMap (dirCheck s (some .inlineFragment)) ++ kdSelsErrs s sel
def kdSelsErrs (s : Schema) : List Selection → List Err
  | [] => []
  | x :: xs => kdSelErrs s x ++ kdSelsErrs s xs
end

mutual
theorem kd_selection (s : Schema) : ∀ (x : Selection) (r : Option DirLoc) (acc : List Err),
    (traverseSelection x).foldl (kdStep s) (r, acc) = (none, acc ++ kdSelErrs s x)
  | .field pos alias name args dirs sel, r, acc => by
      simp only [traverseSelection, List.foldl_append, List.foldl_cons, List.foldl_nil, List.cons_append]
      have e1 : kdStep s (r, acc) (.enter (.field ⟨pos, alias, name, args, dirs, sel⟩)) = (some .field, acc) := by
        simp [kdStep, Rule.step, knownDirectives]
      rw [e1, kd_arguments args, kd_directives s (some .field) dirs]
      have e2 : ∀ a, kdStep s (some DirLoc.field, a) (.enter (.selectionSet sel)) = (some .field, a) := by
        intro a; simp [kdStep, Rule.step, knownDirectives]
      rw [e2, kd_selections s sel]
      have e3 : ∀ (q : Option DirLoc) a, kdStep s (q, a) (.leave (.selectionSet sel)) = (q, a) := by
        intro q a; simp [kdStep, Rule.step, knownDirectives]
      have e4 : ∀ (q : Option DirLoc) a, kdStep s (q, a) (.leave (.field ⟨pos, alias, name, args, dirs, sel⟩)) = (none, a) := by
        intro q a; simp [kdStep, Rule.step, knownDirectives]
      rw [e3, e4]
      simp [kdSelErrs, List.append_assoc]
  | .spread pos name dirs, r, acc => by
      simp only [traverseSelection, List.foldl_append, List.foldl_cons, List.foldl_nil, List.cons_append]
      have e1 : kdStep s (r, acc) (.enter (.spread ⟨pos, name, dirs⟩)) = (some .fragmentSpread, acc) := by
        simp [kdStep, Rule.step, knownDirectives]
      rw [e1, kd_directives s (some .fragmentSpread) dirs]
      simp [kdStep, Rule.step, knownDirectives, kdSelErrs]
  | .inline pos tc dirs sel, r, acc => by
      simp only [traverseSelection, List.foldl_append, List.foldl_cons, List.foldl_nil, List.cons_append]
      have e1 : kdStep s (r, acc) (.enter (.inline ⟨pos, tc, dirs, sel⟩)) = (some .inlineFragment, acc) := by
        simp [kdStep, Rule.step, knownDirectives]
      rw [e1, kd_directives s (some .inlineFragment) dirs]
      have e2 : ∀ a, kdStep s (some DirLoc.inlineFragment, a) (.enter (.selectionSet sel)) = (some .inlineFragment, a) := by
        intro a; simp [kdStep, Rule.step, knownDirectives]
      rw [e2, kd_selections s sel]
      have e3 : ∀ (q : Option DirLoc) a, kdStep s (q, a) (.leave (.selectionSet sel)) = (q, a) := by
        intro q a; simp [kdStep, Rule.step, knownDirectives]
      have e4 : ∀ (q : Option DirLoc) a, kdStep s (q, a) (.leave (.inline ⟨pos, tc, dirs, sel⟩)) = (none, a) := by
        intro q a; simp [kdStep, Rule.step, knownDirectives]
      rw [e3, e4]
      simp [kdSelErrs, List.append_assoc]
theorem kd_selections (s : Schema) : ∀ (xs : List Selection) (r : Option DirLoc) (acc : List Err),
    (traverseSelections xs).foldl (kdStep s) (r, acc) = (if xs = [] then r else none, acc ++ kdSelsErrs s xs)
  | [], r, acc => by simp [traverseSelections, kdSelsErrs]
  | x :: xs, r, acc => by
      simp only [traverseSelections, List.foldl_append]
      rw [kd_selection s x r acc, kd_selections s xs none]
      simp [kdSelsErrs, List.append_assoc]
end

theorem flatMap_dirCheck_map (s : Schema) (loc : DirLoc) (ds : List Directive) :
    (ds.map (·, loc)).flatMap (fun p => dirCheck s (some p.2) p.1) = ds.flatMap (dirCheck s (some loc)) := by
  simp [List.flatMap_map]

mutual
/-- errors inside a selection = the check applied to every directive with its node's location -/
theorem kdSelErrs_eq (s : Schema) :
    ∀ x, kdSelErrs s x = (directivesOfSelection x).flatMap fun p => dirCheck s (some p.2) p.1
  | .field _ _ _ _ dirs sel => by
      simp only [kdSelErrs, directivesOfSelection, List.flatMap_append, flatMap_dirCheck_map, kdSelsErrs_eq s sel]
  | .spread _ _ dirs => by
      simp only [kdSelErrs, directivesOfSelection, flatMap_dirCheck_map]
  | .inline _ _ dirs sel => by
      simp only [kdSelErrs, directivesOfSelection, List.flatMap_append, flatMap_dirCheck_map, kdSelsErrs_eq s sel]
theorem kdSelsErrs_eq (s : Schema) :
    ∀ xs, kdSelsErrs s xs = (directivesOfSelections xs).flatMap fun p => dirCheck s (some p.2) p.1
  | [] => by simp [kdSelsErrs, directivesOfSelections]
  | x :: xs => by
      simp only [kdSelsErrs, directivesOfSelections, List.flatMap_append, kdSelErrs_eq s x, kdSelsErrs_eq s xs]
end

theorem opLocation_eq_opLoc (k : OpKind) : opLocation k = opLoc k := by cases k <;> rfl

/-- one definition: the slot ends empty, the errors are the checks of its directives -/
theorem kd_definition (s : Schema) (x : Definition) (r : Option DirLoc) (acc : List Err) :
    (traverseDefinition x).foldl (kdStep s) (r, acc)
      = (none, acc ++ (directivesOfDefinition x).flatMap fun p => dirCheck s (some p.2) p.1) := by
  cases x with
  | op o =>
    simp only [traverseDefinition, traverseSelectionSet, List.foldl_append, List.foldl_cons, List.foldl_nil, List.cons_append]
    have e1 : kdStep s (r, acc) (.enter (.operation o)) = (some (opLocation o.kind), acc) := by
      simp [kdStep, Rule.step, knownDirectives]
    rw [e1, kd_directives s _ o.dirs, kd_varDefs o.vars]
    have e2 : ∀ (q : Option DirLoc) a, kdStep s (q, a) (.enter (.selectionSet o.sel)) = (q, a) := by
      intro q a; simp [kdStep, Rule.step, knownDirectives]
    rw [e2, kd_selections s o.sel]
    have e3 : ∀ (q : Option DirLoc) a, kdStep s (q, a) (.leave (.selectionSet o.sel)) = (q, a) := by
      intro q a; simp [kdStep, Rule.step, knownDirectives]
    have e4 : ∀ (q : Option DirLoc) a, kdStep s (q, a) (.leave (.operation o)) = (none, a) := by
      intro q a; simp [kdStep, Rule.step, knownDirectives]
    rw [e3, e4]
    simp [directivesOfDefinition, List.flatMap_append, flatMap_dirCheck_map, kdSelsErrs_eq, opLocation_eq_opLoc, List.append_assoc]
  | frag f =>
    simp only [traverseDefinition, traverseSelectionSet, List.foldl_append, List.foldl_cons, List.foldl_nil, List.cons_append]
    have e1 : kdStep s (r, acc) (.enter (.fragmentDef f)) = (some .fragmentDefinition, acc) := by
      simp [kdStep, Rule.step, knownDirectives]
    rw [e1, kd_directives s _ f.dirs]
    have e2 : ∀ (q : Option DirLoc) a, kdStep s (q, a) (.enter (.selectionSet f.sel)) = (q, a) := by
      intro q a; simp [kdStep, Rule.step, knownDirectives]
    rw [e2, kd_selections s f.sel]
    have e3 : ∀ (q : Option DirLoc) a, kdStep s (q, a) (.leave (.selectionSet f.sel)) = (q, a) := by
      intro q a; simp [kdStep, Rule.step, knownDirectives]
    have e4 : ∀ (q : Option DirLoc) a, kdStep s (q, a) (.leave (.fragmentDef f)) = (none, a) := by
      intro q a; simp [kdStep, Rule.step, knownDirectives]
    rw [e3, e4]
    simp [directivesOfDefinition, List.flatMap_append, flatMap_dirCheck_map, kdSelsErrs_eq, List.append_assoc]

theorem kd_definitions (s : Schema) : ∀ (ds : List Definition) (r : Option DirLoc) (acc : List Err),
    ((traverseDefinitions ds).foldl (kdStep s) (r, acc)).2
      = acc ++ (ds.flatMap directivesOfDefinition).flatMap fun p => dirCheck s (some p.2) p.1
  | [], r, acc => by simp [traverseDefinitions]
  | x :: xs, r, acc => by
      simp only [traverseDefinitions, List.foldl_append]
      rw [kd_definition s x r acc, kd_definitions s xs none]
      simp [List.flatMap_append, List.append_assoc]

/-- the rule's whole report on the event traversal of a document -/
theorem kd_document (s : Schema) (d : Document) :
    ((traverseDocument d).foldl (kdStep s) (none, [])).2
      = (directivesAt d).flatMap fun p => dirCheck s (some p.2) p.1 := by
  simp only [traverseDocument, List.foldl_cons, List.foldl_append, List.foldl_nil]
  have e1 : kdStep s (none, []) (.enter (.document d)) = (none, []) := by
    simp [kdStep, Rule.step, knownDirectives]
  rw [e1]
  have h := kd_definitions s d none []
  generalize hx : (traverseDefinitions d).foldl (kdStep s) (none, []) = x at h
  obtain ⟨q, a⟩ := x
  simp only at h
  subst h
  simp [kdStep, Rule.step, knownDirectives, directivesAt]

end Gql
