/-
  Lemmas/Values.lean — what values_of_correct_type.rs reports inside one literal, as a function of
  the expected type at its root only (`vErrs`), and the decomposition of the rule's whole report
  into the top-level literals of the document.
-/
import GqlVerif.Spec.Coercion
import GqlVerif.Lemmas.Fires
namespace Gql

/-- the per-callback check of the rule -/
def vocCheck (s : Schema) (e : Ev × Snap) : List Err := (valuesOfCorrectType.on s [] () e).2

theorem voc_runOn (s : Schema) (d : Document) (tr : Trace) :
    valuesOfCorrectType.runOn s d tr = tr.flatMap (vocCheck s) := by
  unfold valuesOfCorrectType
  rw [stateless_runOn]
  rfl

/-- required members missing / unknown members of an object literal at input object type -/
def objectMemberErrs (s : Schema) (τ : Option Ty) (fs : List (Name × Value)) : List Err :=
  match s.resolve τ with
  | some (.inputObject n fields) =>
    ((fields.filter fun f => f.isRequired && !fs.any (fun kv => kv.1 == f.name)).map fun f =>
      (⟨.valuesOfCorrectType, [], .requiredInputFieldMissing n f.name f.ty⟩ : Err))
    ++ ((fs.filter fun kv => !fields.any (fun f => f.name == kv.1)).map fun kv =>
      (⟨.valuesOfCorrectType, [], .unknownInputField kv.1 n⟩ : Err))
  | _ => []

/-- a context snapshot that only knows the expected input type -/
def snapOf (s : Schema) (τ : Option Ty) : Snap := { Snap.empty with inpLit := τ, inp := s.resolve τ }

mutual
/-- everything the rule reports inside the literal `v` expected at type `τ` -/
def vErrs (s : Schema) (τ : Option Ty) : Value → List Err
  | .var _ => []
  | .null => (match τ with | some t => if t.isNonNull then [⟨.valuesOfCorrectType, [], .expectedNonNullFoundNull t⟩] else [] | none => [])
  | .int i => validateValue s (snapOf s τ) (.int i)
  | .float f => validateValue s (snapOf s τ) (.float f)
  | .str x => validateValue s (snapOf s τ) (.str x)
  | .bool b => validateValue s (snapOf s τ) (.bool b)
  | .enum n => validateValue s (snapOf s τ) (.enum n)
  | .list vs =>
      (if !expectsList τ then validateCompositeValue s (snapOf s τ) (.list vs) else [])
        ++ vErrsList s (listItemType τ) vs
  | .obj fs =>
      validateCompositeValue s (snapOf s τ) (.obj fs) ++ objectMemberErrs s τ fs ++ vErrsFields s τ fs
def vErrsList (s : Schema) (ι : Option Ty) : List Value → List Err
  | [] => []
  | v :: vs => vErrs s ι v ++ vErrsList s ι vs
def vErrsFields (s : Schema) (τ : Option Ty) : List (Name × Value) → List Err
  | [] => []
  | (k, v) :: fs => vErrs s (objectFieldType s τ k) v ++ vErrsFields s τ fs
end

/-- the context answers the rule looks at -/
def InpOk (s : Schema) (e : Snap) : Prop := e.inp = s.resolve e.inpLit

theorem inpOk_withInput (s : Schema) (t : Option Ty) (e : Snap) : InpOk s (e.withInput s t) := rfl

theorem validateValue_snap (s : Schema) (e : Snap) (v : Value) :
    validateValue s e v = validateValue s (snapOf s e.inpLit) v := by
  simp [validateValue, snapOf]
theorem validateCompositeValue_snap (s : Schema) (e : Snap) (v : Value) :
    validateCompositeValue s e v = validateCompositeValue s (snapOf s e.inpLit) v := by
  simp [validateCompositeValue, snapOf]

mutual
theorem walkValue_voc (s : Schema) : ∀ (v : Value) (e : Snap), InpOk s e →
    (walkValue s e v).flatMap (vocCheck s) = vErrs s e.inpLit v
  | .var n, e, _ => by simp [walkValue, vErrs, vocCheck, valuesOfCorrectType, Rule.stateless]
  | .null, e, _ => by
      simp only [walkValue, vErrs, vocCheck, valuesOfCorrectType, Rule.stateless, List.flatMap_cons, List.flatMap_nil, List.append_nil]
      cases e.inpLit <;> simp
  | .int i, e, _ => by
      simp [walkValue, vErrs, vocCheck, valuesOfCorrectType, Rule.stateless, ← validateValue_snap]
  | .float f, e, _ => by
      simp [walkValue, vErrs, vocCheck, valuesOfCorrectType, Rule.stateless, ← validateValue_snap]
  | .str x, e, _ => by
      simp [walkValue, vErrs, vocCheck, valuesOfCorrectType, Rule.stateless, ← validateValue_snap]
  | .bool b, e, _ => by
      simp [walkValue, vErrs, vocCheck, valuesOfCorrectType, Rule.stateless, ← validateValue_snap]
  | .enum n, e, _ => by
      simp [walkValue, vErrs, vocCheck, valuesOfCorrectType, Rule.stateless, ← validateValue_snap]
  | .list vs, e, _ => by
      have ih := walkValues_voc s vs (e.withInput s (listItemType e.inpLit)) (inpOk_withInput s _ e)
      simp only [walkValue, vErrs, List.flatMap_cons, List.flatMap_append, List.flatMap_nil, ih]
      simp [vocCheck, valuesOfCorrectType, Rule.stateless, ← validateCompositeValue_snap, Snap.withInput]
  | .obj fs, e, he => by
      have ih := walkObjFields_voc s fs e he
      simp only [walkValue, vErrs, List.flatMap_cons, List.flatMap_append, List.flatMap_nil, ih]
      simp only [vocCheck, valuesOfCorrectType, Rule.stateless, ← validateCompositeValue_snap, objectMemberErrs]
      rw [← he]
      cases e.inp with
      | none => simp
      | some t => cases t <;> simp [List.append_assoc]
theorem walkValues_voc (s : Schema) : ∀ (vs : List Value) (e : Snap), InpOk s e →
    (walkValues s e vs).flatMap (vocCheck s) = vErrsList s e.inpLit vs
  | [], e, _ => by simp [walkValues, vErrsList]
  | v :: vs, e, he => by
      simp [walkValues, vErrsList, List.flatMap_append, walkValue_voc s v e he, walkValues_voc s vs e he]
theorem walkObjFields_voc (s : Schema) : ∀ (fs : List (Name × Value)) (e : Snap), InpOk s e →
    (walkObjFields s e fs).flatMap (vocCheck s) = vErrsFields s e.inpLit fs
  | [], e, _ => by simp [walkObjFields, vErrsFields]
  | (k, v) :: fs, e, he => by
      have h1 := walkValue_voc s v (e.withInput s (objectFieldType s e.inpLit k)) (inpOk_withInput s _ e)
      simp only [walkObjFields, vErrsFields, List.flatMap_cons, List.flatMap_append, List.flatMap_nil, h1,
        walkObjFields_voc s fs e he]
      simp [vocCheck, valuesOfCorrectType, Rule.stateless, Snap.withInput]
end

end Gql
