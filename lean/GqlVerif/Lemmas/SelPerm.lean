/-
  Lemmas/SelPerm.lean — documents that differ only in the ORDER of the selections inside their
  selection sets (at any depth: fields, fragment spreads and inline fragments permuted within the
  set they belong to), and the invariance of the specification's FieldsInSetCanMerge under that:
  the collected fields are the same up to order and up to the same reordering inside their own
  sub-selections, and the pairwise tests are symmetric.
-/
import GqlVerif.Thm.C05c
namespace Gql
open Gql.Spec

/-- the two lists of selections are equal up to the order of selections, at every depth -/
inductive SelsEq : List Selection → List Selection → Prop
  | refl (l : List Selection) : SelsEq l l
  | swap (x y : Selection) (l : List Selection) : SelsEq (x :: y :: l) (y :: x :: l)
  | cons (x : Selection) {xs ys : List Selection} : SelsEq xs ys → SelsEq (x :: xs) (x :: ys)
  | field (pos : Pos) (alias : Option Name) (name : Name) (args : List Arg) (dirs : List Directive) {sel sel' : List Selection}
      (l : List Selection) : SelsEq sel sel' →
      SelsEq (.field pos alias name args dirs sel :: l) (.field pos alias name args dirs sel' :: l)
  | inline (pos : Pos) (tc : Option Name) (dirs : List Directive) {sel sel' : List Selection} (l : List Selection) :
      SelsEq sel sel' → SelsEq (.inline pos tc dirs sel :: l) (.inline pos tc dirs sel' :: l)
  | trans {a b c : List Selection} : SelsEq a b → SelsEq b c → SelsEq a c

theorem SelsEq.symm {a b : List Selection} (h : SelsEq a b) : SelsEq b a := by
  induction h with
  | refl l => exact .refl l
  | swap x y l => exact .swap y x l
  | cons x _ ih => exact .cons x ih
  | field pos alias name args dirs l _ ih => exact .field pos alias name args dirs l ih
  | inline pos tc dirs l _ ih => exact .inline pos tc dirs l ih
  | trans _ _ ih1 ih2 => exact .trans ih2 ih1

/-- the field with its own selections replaced -/
def AstAndDef.withSel (a : AstAndDef) (sel : List Selection) : AstAndDef := { a with field := { a.field with sel := sel } }

/-- the same field up to the order of the selections below it -/
def ARel (a a' : AstAndDef) : Prop := ∃ sel', a' = a.withSel sel' ∧ SelsEq a.field.sel sel'

theorem ARel.refl (a : AstAndDef) : ARel a a := ⟨a.field.sel, rfl, .refl _⟩
theorem ARel.key {a a' : AstAndDef} (h : ARel a a') : keyOf a' = keyOf a := by
  obtain ⟨sel', rfl, _⟩ := h; rfl
theorem ARel.parent {a a' : AstAndDef} (h : ARel a a') : a'.parent = a.parent := by
  obtain ⟨sel', rfl, _⟩ := h; rfl
theorem ARel.fdef {a a' : AstAndDef} (h : ARel a a') : a'.fdef = a.fdef := by
  obtain ⟨sel', rfl, _⟩ := h; rfl
theorem ARel.name {a a' : AstAndDef} (h : ARel a a') : a'.field.name = a.field.name := by
  obtain ⟨sel', rfl, _⟩ := h; rfl
theorem ARel.args {a a' : AstAndDef} (h : ARel a a') : a'.field.args = a.field.args := by
  obtain ⟨sel', rfl, _⟩ := h; rfl
theorem ARel.sel {a a' : AstAndDef} (h : ARel a a') : SelsEq a.field.sel a'.field.sel := by
  obtain ⟨sel', rfl, h⟩ := h; exact h

/-- two lists of collected fields, equal up to order and up to `ARel` -/
inductive LRel : List AstAndDef → List AstAndDef → Prop
  | refl (l : List AstAndDef) : LRel l l
  | swap (x y : AstAndDef) (l : List AstAndDef) : LRel (x :: y :: l) (y :: x :: l)
  | cons (x : AstAndDef) {xs ys : List AstAndDef} : LRel xs ys → LRel (x :: xs) (x :: ys)
  | head {a a' : AstAndDef} (l : List AstAndDef) : ARel a a' → LRel (a :: l) (a' :: l)
  | trans {a b c : List AstAndDef} : LRel a b → LRel b c → LRel a c

theorem LRel.of_perm {a b : List AstAndDef} (h : a.Perm b) : LRel a b := by
  induction h with
  | nil => exact .refl _
  | cons x _ ih => exact .cons x ih
  | swap x y l => exact .swap y x l
  | trans _ _ ih1 ih2 => exact .trans ih1 ih2

theorem LRel.append_left (c : List AstAndDef) {a b : List AstAndDef} (h : LRel a b) : LRel (a ++ c) (b ++ c) := by
  induction h with
  | refl l => exact .refl _
  | swap x y l => exact .swap x y (l ++ c)
  | cons x _ ih => exact .cons x ih
  | head l h => exact .head (l ++ c) h
  | trans _ _ ih1 ih2 => exact .trans ih1 ih2

theorem LRel.append_right : ∀ (c : List AstAndDef) {a b : List AstAndDef}, LRel a b → LRel (c ++ a) (c ++ b)
  | [], _, _, h => h
  | x :: c, _, _, h => .cons x (LRel.append_right c h)

theorem LRel.append {a a' b b' : List AstAndDef} (h1 : LRel a a') (h2 : LRel b b') : LRel (a ++ b) (a' ++ b') :=
  .trans (h1.append_left b) (LRel.append_right a' h2)

/-! ### the collected fields of reordered selections -/

mutual
theorem specSel_sp_rel (s : Schema) (sp sp' : Name → List AstAndDef) (hsp : ∀ nm, LRel (sp nm) (sp' nm)) :
    ∀ (x : Selection) (parent : Option TypeDef), LRel (specFieldsSelWith s sp parent x) (specFieldsSelWith s sp' parent x)
  | .field _ _ _ _ _ _, _ => by simp only [specFieldsSelWith]; exact .refl _
  | .spread _ nm _, _ => by simp only [specFieldsSelWith]; exact hsp nm
  | .inline _ tc _ sel, parent => by
      simp only [specFieldsSelWith]
      exact specSels_sp_rel s sp sp' hsp sel _
theorem specSels_sp_rel (s : Schema) (sp sp' : Name → List AstAndDef) (hsp : ∀ nm, LRel (sp nm) (sp' nm)) :
    ∀ (xs : List Selection) (parent : Option TypeDef), LRel (specFieldsWith s sp parent xs) (specFieldsWith s sp' parent xs)
  | [], _ => by simp only [specFieldsWith]; exact .refl _
  | x :: xs, parent => by
      simp only [specFieldsWith]
      exact (specSel_sp_rel s sp sp' hsp x parent).append (specSels_sp_rel s sp sp' hsp xs parent)
end

theorem specFieldsWith_rel (s : Schema) {xs ys : List Selection} (h : SelsEq xs ys) :
    ∀ (sp sp' : Name → List AstAndDef), (∀ nm, LRel (sp nm) (sp' nm)) → ∀ parent : Option TypeDef,
      LRel (specFieldsWith s sp parent xs) (specFieldsWith s sp' parent ys) := by
  induction h with
  | refl l => intro sp sp' hsp parent; exact specSels_sp_rel s sp sp' hsp l parent
  | swap x y l =>
    intro sp sp' hsp parent
    refine .trans (specSels_sp_rel s sp sp' hsp _ parent) ?_
    simp only [specFieldsWith]
    rw [← List.append_assoc, ← List.append_assoc]
    exact (LRel.of_perm List.perm_append_comm).append_left _
  | cons x _ ih =>
    intro sp sp' hsp parent
    simp only [specFieldsWith]
    exact (specSel_sp_rel s sp sp' hsp x parent).append (ih sp sp' hsp parent)
  | field pos alias name args dirs l hsel _ =>
    intro sp sp' hsp parent
    simp only [specFieldsWith, specFieldsSelWith, List.singleton_append]
    refine .trans (.head _ ⟨_, rfl, hsel⟩) (.cons _ (specSels_sp_rel s sp sp' hsp l parent))
  | inline pos tc dirs l _ ih =>
    intro sp sp' hsp parent
    simp only [specFieldsWith, specFieldsSelWith]
    exact (ih sp sp' hsp _).append (specSels_sp_rel s sp sp' hsp l parent)
  | trans _ _ ih1 ih2 =>
    intro sp sp' hsp parent
    exact .trans (ih1 sp sp' hsp parent) (ih2 sp' sp' (fun nm => .refl _) parent)

/-! ### Boolean tests over related lists -/

theorem LRel.mem {l l' : List AstAndDef} (h : LRel l l') : ∀ a' ∈ l', ∃ a ∈ l, ARel a a' := by
  induction h with
  | refl l => intro a' ha'; exact ⟨a', ha', ARel.refl a'⟩
  | swap x y l =>
    intro a' ha'
    refine ⟨a', ?_, ARel.refl a'⟩
    simp only [List.mem_cons] at ha' ⊢
    rcases ha' with h | h | h
    · exact Or.inr (Or.inl h)
    · exact Or.inl h
    · exact Or.inr (Or.inr h)
  | cons x _ ih =>
    intro a' ha'
    rcases List.mem_cons.1 ha' with rfl | h
    · exact ⟨a', by simp, ARel.refl a'⟩
    · obtain ⟨a, ha, hr⟩ := ih a' h
      exact ⟨a, by simp [ha], hr⟩
  | @head a a2 l hr =>
    intro a' ha'
    rcases List.mem_cons.1 ha' with rfl | h
    · exact ⟨a, by simp, hr⟩
    · exact ⟨a', by simp [h], ARel.refl a'⟩
  | trans _ _ ih1 ih2 =>
    intro a' ha'
    obtain ⟨b, hb, hr2⟩ := ih2 a' ha'
    obtain ⟨a, ha, hr1⟩ := ih1 b hb
    obtain ⟨sel1, rfl, h1⟩ := hr1
    obtain ⟨sel2, rfl, h2⟩ := hr2
    exact ⟨a, ha, sel2, rfl, .trans h1 h2⟩

/-- a predicate on collected fields that reordering below a field does not change -/
def GClosed (G : AstAndDef → Prop) : Prop := ∀ a a', G a → ARel a a' → G a'

theorem LRel.allG {G : AstAndDef → Prop} (hG : GClosed G) {l l' : List AstAndDef} (h : LRel l l') (hg : ∀ a ∈ l, G a) :
    ∀ a' ∈ l', G a' := by
  intro a' ha'
  obtain ⟨a, ha, hr⟩ := h.mem a' ha'
  exact hG a a' (hg a ha) hr

theorem all_rel (G : AstAndDef → Prop) (hG : GClosed G) (f g : AstAndDef → Bool)
    (hfg : ∀ a a', G a → ARel a a' → f a = g a') {l l' : List AstAndDef} (h : LRel l l') (hg : ∀ a ∈ l, G a) :
    l.all f = l'.all g := by
  have hff : ∀ a a', G a → ARel a a' → f a = f a' :=
    fun a a' ga h => (hfg a a' ga h).trans (hfg a' a' (hG a a' ga h) (ARel.refl a')).symm
  have key : ∀ {l l' : List AstAndDef}, LRel l l' → (∀ a ∈ l, G a) → l.all f = l'.all f := by
    intro l l' h
    induction h with
    | refl l => intro _; rfl
    | swap x y l => intro _; simp only [List.all_cons]; cases f x <;> cases f y <;> simp
    | cons x _ ih => intro hg; simp only [List.all_cons, ih (fun a ha => hg a (by simp [ha]))]
    | head l ha => intro hg; simp only [List.all_cons, hff _ _ (hg _ (by simp)) ha]
    | trans h1 _ ih1 ih2 => intro hg; exact (ih1 hg).trans (ih2 (h1.allG hG hg))
  refine (key h hg).trans (all_congr_mem f g l' (fun b hb => ?_))
  exact hfg b b (h.allG hG hg b hb) (ARel.refl b)

/-- pair tests that agree on related fields satisfying `G` -/
def PRelG (G : AstAndDef → Prop) (p q : AstAndDef → AstAndDef → Bool) : Prop :=
  ∀ a a' b b', G a → G b → ARel a a' → ARel b b' → p a b = q a' b'
/-- symmetric on the fields satisfying `G` -/
def PSymG (G : AstAndDef → Prop) (p : AstAndDef → AstAndDef → Bool) : Prop := ∀ a b, G a → G b → p a b = p b a

theorem PRelG.self_left {G : AstAndDef → Prop} (hG : GClosed G) {p q : AstAndDef → AstAndDef → Bool} (h : PRelG G p q) : PRelG G p p :=
  fun a a' b b' ga gb ha hb => (h a a' b b' ga gb ha hb).trans
    (h a' a' b' b' (hG a a' ga ha) (hG b b' gb hb) (ARel.refl _) (ARel.refl _)).symm

theorem allPairs_rel_same (G : AstAndDef → Prop) (hG : GClosed G)
    (p : AstAndDef → AstAndDef → Bool) (hp : PRelG G p p) (hs : PSymG G p) {l l' : List AstAndDef} (h : LRel l l') :
    (∀ a ∈ l, G a) → allPairs p l = allPairs p l' := by
  have key1 : ∀ (a : AstAndDef) a', G a → ARel a a' → ∀ b b', G b → ARel b b' →
      (a.field.responseKey != b.field.responseKey || p a b) = (a'.field.responseKey != b'.field.responseKey || p a' b') := by
    intro a a' ga ha b b' gb hb
    have k1 : a'.field.responseKey = a.field.responseKey := ha.key
    have k2 : b'.field.responseKey = b.field.responseKey := hb.key
    rw [k1, k2, hp a a' b b' ga gb ha hb]
  induction h with
  | refl l => intro _; rfl
  | swap x y l =>
    intro hg
    simp only [allPairs, List.all_cons]
    have hk : (x.field.responseKey != y.field.responseKey) = (y.field.responseKey != x.field.responseKey) := by
      by_cases h : x.field.responseKey = y.field.responseKey
      · simp [h]
      · have h' : ¬ y.field.responseKey = x.field.responseKey := fun e => h e.symm
        simp [bne, beq_eq_false_iff_ne.2 h, beq_eq_false_iff_ne.2 h']
    rw [hk, hs x y (hg x (by simp)) (hg y (by simp))]
    cases (y.field.responseKey != x.field.responseKey || p y x) <;>
      cases (l.all fun b => x.field.responseKey != b.field.responseKey || p x b) <;>
      cases (l.all fun b => y.field.responseKey != b.field.responseKey || p y b) <;> simp
  | @cons x xs ys hl ih =>
    intro hg
    have gx := hg x (by simp)
    have gl : ∀ a ∈ xs, G a := fun a ha => hg a (by simp [ha])
    simp only [allPairs]
    rw [ih gl, all_rel G hG _ _ (fun b b' gb hb => key1 x x gx (ARel.refl x) b b' gb hb) hl gl]
  | @head a a' l ha =>
    intro hg
    have ga := hg a (by simp)
    have gl : ∀ b ∈ l, G b := fun b hb => hg b (by simp [hb])
    simp only [allPairs]
    rw [all_rel G hG _ _ (fun b b' gb hb => key1 a a' ga ha b b' gb hb) (LRel.refl l) gl]
  | trans h1 _ ih1 ih2 =>
    intro hg
    exact (ih1 hg).trans (ih2 (h1.allG hG hg))

theorem allPairs_congr_mem (p q : AstAndDef → AstAndDef → Bool) : ∀ l : List AstAndDef,
    (∀ a ∈ l, ∀ b ∈ l, p a b = q a b) → allPairs p l = allPairs q l
  | [], _ => rfl
  | a :: l, h => by
      simp only [allPairs]
      rw [allPairs_congr_mem p q l (fun x hx y hy => h x (by simp [hx]) y (by simp [hy])),
        all_congr_mem _ _ l (fun b hb => by rw [h a (by simp) b (by simp [hb])])]

/-- related pair tests give the same verdict on related lists -/
theorem allPairs_rel (G : AstAndDef → Prop) (hG : GClosed G)
    (p q : AstAndDef → AstAndDef → Bool) (hpq : PRelG G p q) (hs : PSymG G p) {l l' : List AstAndDef} (h : LRel l l')
    (hg : ∀ a ∈ l, G a) : allPairs p l = allPairs q l' :=
  (allPairs_rel_same G hG p (hpq.self_left hG) hs h hg).trans
    (allPairs_congr_mem p q l' (fun a ha b hb =>
      hpq a a b b (h.allG hG hg a ha) (h.allG hG hg b hb) (ARel.refl a) (ARel.refl b)))

end Gql
