/-
  Lemmas/MergeComplete.lean — completeness of the five mutually recursive functions of the
  field-merging rule on documents without fragment cycles: a call that reports no conflict (and
  does not run out of fuel) has compared its two collections of fields completely, for whatever
  the memo table `compared_fragments` and the `visited_fragments` list contained when it started —
  provided what they contained was justified:

  * every memo entry is either *pending* (its comparison is still running further up the call
    stack) or has the completeness it promises (`FragOK`); pending entries rank above every pair
    of fragments compared underneath (`Safe`, by the rank of Lemmas/MergeRank.lean), so they are
    never hit;
  * every name in the visited list that can still be met on the way down has been compared
    completely with the same collection of fields.
-/
import GqlVerif.Lemmas.MergeDecomp
namespace Gql
open Gql.Spec

/-! ### folds that thread a state and collect conflicts -/

structure StepOk {α : Type} (step : MRes → α → MRes) : Prop where
  nil : ∀ acc x, (step acc x).1 = [] → acc.1 = []
  stuck : ∀ acc x, acc.2.stuck = true → (step acc x).2.stuck = true

theorem foldl_stuck {α : Type} {step : MRes → α → MRes} (h : StepOk step) :
    ∀ (L : List α) (acc : MRes), acc.2.stuck = true → (L.foldl step acc).2.stuck = true
  | [], _, hs => hs
  | x :: L, acc, hs => by
      simp only [List.foldl_cons]
      exact foldl_stuck h L _ (h.stuck acc x hs)

theorem foldl_nil {α : Type} {step : MRes → α → MRes} (h : StepOk step) :
    ∀ (L : List α) (acc : MRes), (L.foldl step acc).1 = [] → acc.1 = []
  | [], _, hn => hn
  | x :: L, acc, hn => by
      simp only [List.foldl_cons] at hn
      exact h.nil acc x (foldl_nil h L _ hn)

theorem StepOk.fold {α β : Type} {step : β → MRes → α → MRes} (h : ∀ b, StepOk (step b)) (L : β → List α) :
    StepOk (fun acc (b : β) => (L b).foldl (step b) acc) where
  nil := fun acc b hn => foldl_nil (h b) (L b) acc hn
  stuck := fun acc b hs => foldl_stuck (h b) (L b) acc hs

/-- an invariant of the state and a fact about every element, from a fold that ends with no conflict and not stuck -/
theorem foldl_inv {α : Type} {step : MRes → α → MRes} (hok : StepOk step) (I : MState → Prop) (Q : α → Prop) :
    ∀ (L : List α) (acc : MRes),
      (∀ x ∈ L, ∀ acc : MRes, I acc.2 → (step acc x).1 = [] → (step acc x).2.stuck = false → I (step acc x).2 ∧ Q x) →
      (L.foldl step acc).1 = [] → (L.foldl step acc).2.stuck = false → I acc.2 →
      I (L.foldl step acc).2 ∧ ∀ x ∈ L, Q x
  | [], acc, _, _, _, hI => ⟨hI, by simp⟩
  | x :: L, acc, hstep, hn, hs, hI => by
      simp only [List.foldl_cons] at hn hs ⊢
      have h1 : (step acc x).1 = [] := foldl_nil hok L _ hn
      have h2 : (step acc x).2.stuck = false := by
        cases h : (step acc x).2.stuck with
        | false => rfl
        | true => rw [foldl_stuck hok L _ h] at hs; cases hs
      obtain ⟨hI', hq⟩ := hstep x (by simp) acc hI h1 h2
      obtain ⟨hI'', hqs⟩ := foldl_inv hok I Q L _ (fun y hy => hstep y (by simp [hy])) hn hs hI'
      exact ⟨hI'', by
        intro y hy
        rcases List.mem_cons.1 hy with rfl | hy
        · exact hq
        · exact hqs y hy⟩

theorem stepOk_cat {α : Type} (f : α → MState → MRes) (hmono : ∀ x st, st.stuck = true → (f x st).2.stuck = true) :
    StepOk (fun (acc : MRes) x => ((acc.1 ++ (f x acc.2).1, (f x acc.2).2) : MRes)) where
  nil := fun acc x hn => by
    simp only [List.append_eq_nil_iff] at hn
    exact hn.1
  stuck := fun acc x hs => hmono x acc.2 hs

theorem stepOk_push {α : Type} (g : α → MState → Option Conflict × MState)
    (hmono : ∀ x st, st.stuck = true → (g x st).2.stuck = true) :
    StepOk (fun (acc : MRes) x => pushConflict acc (g x acc.2)) where
  nil := fun acc x hn => by
    unfold pushConflict at hn
    cases h : (g x acc.2).1 with
    | none => rw [h] at hn; exact hn
    | some c => rw [h] at hn; simp at hn
  stuck := fun acc x hs => by
    unfold pushConflict
    exact hmono x acc.2 hs

theorem pushConflict_nil {acc : MRes} {r : Option Conflict × MState} (h : (pushConflict acc r).1 = []) : r.1 = none := by
  unfold pushConflict at h
  cases hr : r.1 with
  | none => rfl
  | some c => rw [hr] at h; simp at h

/-! ### a call that starts stuck stays stuck -/

theorem stuck_fc (s : Schema) (d : Document) (n : Nat) (key : Name) (a b : AstAndDef) (pe : Bool) (st : MState)
    (h : st.stuck = true) : (findConflict s d n key a b pe st).2.stuck = true := by
  cases n <;> simp [findConflict, h]
theorem stuck_cb (s : Schema) (d : Document) (n : Nat) (me : Bool) (fm1 fm2 : FieldMap) (st : MState)
    (h : st.stuck = true) : (conflictsBetween s d n me fm1 fm2 st).2.stuck = true := by
  cases n <;> simp [conflictsBetween, h]
theorem stuck_bs (s : Schema) (d : Document) (n : Nat) (me : Bool) (pn1 : Option Name) (sel1 : List Selection)
    (pn2 : Option Name) (sel2 : List Selection) (st : MState)
    (h : st.stuck = true) : (betweenSubSelectionSets s d n me pn1 sel1 pn2 sel2 st).2.stuck = true := by
  cases n <;> simp [betweenSubSelectionSets, h]
theorem stuck_ff (s : Schema) (d : Document) (n : Nat) (fm : FieldMap) (nm : Name) (me : Bool) (st : MState)
    (h : st.stuck = true) : (fieldsAndFragment s d n fm nm me st).2.stuck = true := by
  cases n <;> simp [fieldsAndFragment, h]
theorem stuck_bf (s : Schema) (d : Document) (n : Nat) (n1 n2 : Name) (me : Bool) (st : MState)
    (h : st.stuck = true) : (betweenFragments s d n n1 n2 me st).2.stuck = true := by
  cases n <;> simp [betweenFragments, h]

/-! ### the vocabulary of the invariant -/

/-- memo entries whose comparison is still running -/
abbrev Pend := List ((Name × Name) × Bool)

def MemoOK (s : Schema) (d : Document) (P : Pend) (c : PairSet) : Prop :=
  ∀ e ∈ c, e ∈ P ∨ FragOK s d e.2 e.1.1 e.1.2

/-- every pending pair ranks above every pair of fragments (of ranks below `r1`, `r2`) compared underneath -/
def Safe (d : Document) (P : Pend) (r1 r2 : Nat) : Prop := ∀ p ∈ P, r1 + r2 ≤ Dr d p.1.1 + Dr d p.1.2 + 1

theorem Safe.mono {d : Document} {P : Pend} {r1 r2 r1' r2' : Nat} (h : Safe d P r1 r2) (h1 : r1' ≤ r1) (h2 : r2' ≤ r2) :
    Safe d P r1' r2' := fun p hp => by have := h p hp; omega

/-- the own selection sets of the map's fields rank at most `r` -/
def FMR (d : Document) (fm : FieldMap) (r : Nat) : Prop := ∀ a, FM fm a → Rs d a.field.sel ≤ r

/-- the fields of the map have been compared completely with what the fragment contributes -/
def FFOK (s : Schema) (d : Document) (fm : FieldMap) (h : Name) (me : Bool) : Prop :=
  ∀ x y, FM fm x → MemFrag s d h y → keyOf x = keyOf y → ¬ FailsC s d me x y

theorem mem_alInsert {κ ν : Type} [DecidableEq κ] (m : List (κ × ν)) (k : κ) (v : ν) (e : κ × ν)
    (h : e ∈ alInsert m k v) : e ∈ m ∨ e = (k, v) := by
  unfold alInsert at h
  split at h
  · simp only [List.mem_map] at h
    obtain ⟨p, hp, rfl⟩ := h
    split
    · exact Or.inr rfl
    · exact Or.inl hp
  · simp only [List.mem_append, List.mem_singleton] at h
    exact h

theorem typesAgree_of_none (s : Schema) (a b : AstAndDef) (h : typeConflictOf s a b = none) : typesAgree s a b = true := by
  have h1 : typeConflictB s a b = false := by rw [typeConflictB_eq, h]; rfl
  rw [typeConflictB_iff] at h1
  simpa using h1

theorem memSub_nil (s : Schema) (d : Document) (a x : AstAndDef) (h : a.field.sel = []) : ¬ MemSub s d a x := by
  rintro ⟨n, hx⟩
  rw [h] at hx
  simp [specFields, specFieldsWith] at hx

/-- the part of `find_conflict` that does not touch the state: if the four local tests pass and the
    nested fields have been compared completely, no canonical witness exists -/
theorem not_failsC_of (s : Schema) (d : Document) (pe : Bool) (a b : AstAndDef)
    (hname : ¬ ((!meOf pe a b && a.field.name != b.field.name) = true))
    (hargs : ¬ ((!meOf pe a b && !sameArguments a.field.args b.field.args) = true))
    (htc : typeConflictOf s a b = none)
    (hsub : ∀ x y, MemSub s d a x → MemSub s d b y → keyOf x = keyOf y → Shared s d x y ∨ ¬ FailsC s d (meOf pe a b) x y) :
    ¬ FailsC s d pe a b := by
  have hta := typesAgree_of_none s a b htc
  have shape : ¬ ShapeBadC s d a b := by
    intro hf
    cases hf with
    | types h => rw [hta] at h; cases h
    | nested hx hy hk hns hsh =>
      rcases hsub _ _ hx hy hk with h | h
      · exact hns h
      · exact h (FailsC.of_true hsh)
  intro hf
  cases pe with
  | true => exact shape hf
  | false =>
    have hm := meOf_false a b
    cases hf with
    | shape hs => exact shape hs
    | name hp hn =>
      rw [hm, hp] at hname
      simp only [Bool.not_true, Bool.not_false, Bool.true_and, bne_iff_ne, ne_eq, Decidable.not_not] at hname
      simp only [beq_eq_false_iff_ne, ne_eq] at hn
      exact hn hname
    | args hp _ _ ha =>
      rw [hm, hp] at hargs
      simp only [Bool.not_true, Bool.not_false, Bool.true_and, Bool.not_eq_true', Bool.not_eq_false] at hargs
      rw [C05.sameArguments_eq, ha] at hargs
      cases hargs
    | nested hp hx hy hk hns hpb =>
      rcases hsub _ _ hx hy hk with h | h
      · exact hns h
      · rw [hm, hp] at h
        exact h hpb

/-! ### `collect_conflicts_between` over two keyed maps -/

theorem between_inv (fc : Name → AstAndDef → AstAndDef → Bool → MState → Option Conflict × MState)
    (hmono : ∀ k a b me st, st.stuck = true → (fc k a b me st).2.stuck = true)
    (me : Bool) (fm1 fm2 : FieldMap) (I : MState → Prop) (Q : AstAndDef → AstAndDef → Prop)
    (h2 : KeyOk fm2) (hn2 : (alKeys fm2).Nodup)
    (hfc : ∀ k a b st, FM fm1 a → FM fm2 b → I st → (fc k a b me st).1 = none → (fc k a b me st).2.stuck = false →
      I (fc k a b me st).2 ∧ Q a b)
    (st : MState) (hnil : (fm1.foldl (betweenKeyStep fc me fm2) ([], st)).1 = [])
    (hns : (fm1.foldl (betweenKeyStep fc me fm2) ([], st)).2.stuck = false) (hI : I st) :
    I (fm1.foldl (betweenKeyStep fc me fm2) ([], st)).2 ∧
      ∀ a b, FM fm1 a → FM fm2 b → keyOf a = keyOf b → (∀ kv ∈ fm1, ∀ x ∈ kv.2, keyOf x = kv.1) → Q a b := by
  have okF : ∀ (k : Name) (a : AstAndDef), StepOk (fun (acc : MRes) f2 => pushConflict acc (fc k a f2 me acc.2)) :=
    fun k a => stepOk_push (fun f2 st => fc k a f2 me st) (fun f2 st hs => hmono k a f2 me st hs)
  have okA : ∀ (k : Name) (L : List AstAndDef), StepOk (betweenFieldsStep fc k me L) := by
    intro k L
    exact ⟨fun acc a hn => foldl_nil (okF k a) L acc hn, fun acc a hs => foldl_stuck (okF k a) L acc hs⟩
  have okK : StepOk (betweenKeyStep fc me fm2) := by
    exact ⟨fun acc kv hn => foldl_nil (okA kv.1 _) kv.2 acc hn, fun acc kv hs => foldl_stuck (okA kv.1 _) kv.2 acc hs⟩
  obtain ⟨hI', hq⟩ := foldl_inv okK I
    (fun kv => ∀ a ∈ kv.2, ∀ b ∈ (alGet fm2 kv.1).getD [], Q a b) fm1 ([], st)
    (by
      intro kv hkv acc hIa hn hs
      unfold betweenKeyStep at hn hs ⊢
      exact foldl_inv (okA kv.1 _) I (fun a => ∀ b ∈ (alGet fm2 kv.1).getD [], Q a b) kv.2 acc
        (by
          intro a ha acc hIa hn hs
          unfold betweenFieldsStep at hn hs ⊢
          exact foldl_inv (okF kv.1 a) I (fun b => Q a b) _ acc
            (by
              intro b hb acc hIa hn hs
              have hbm : FM fm2 b := by
                cases hg : alGet fm2 kv.1 with
                | none => rw [hg] at hb; simp at hb
                | some l =>
                  rw [hg] at hb
                  exact ⟨(kv.1, l), mem_of_alGet fm2 kv.1 l hg, hb⟩
              have hnone := pushConflict_nil hn
              exact hfc kv.1 a b acc.2 ⟨kv, hkv, ha⟩ hbm hIa hnone hs)
            hn hs hIa)
        hn hs hIa)
    hnil hns hI
  refine ⟨hI', ?_⟩
  intro a b ⟨kv, hkv, ha⟩ hb hk h1
  obtain ⟨l, hl, hbl, _⟩ := fm_alGet h2 hn2 hb
  have hkey : kv.1 = keyOf b := by rw [← h1 kv hkv a ha]; exact hk
  have := hq kv hkv a ha b (by rw [hkey, hl]; exact hbl)
  exact this

/-! ### the five functions -/

/-- what each of the five functions guarantees at fuel `n` -/
structure CompleteAt (s : Schema) (d : Document) (n : Nat) : Prop where
  fc : ∀ key a b pe st P r1 r2 res, findConflict s d n key a b pe st = res → res.1 = none → res.2.stuck = false →
    MemoOK s d P st.compared → Safe d P r1 r2 → Rs d a.field.sel ≤ r1 → Rs d b.field.sel ≤ r2 →
    MemoOK s d P res.2.compared ∧ res.2.visited = st.visited ∧ ¬ FailsC s d pe a b
  cb : ∀ me fm1 fm2 st P r1 r2 res, conflictsBetween s d n me fm1 fm2 st = res → res.1 = [] → res.2.stuck = false →
    KeyOk fm1 → KeyOk fm2 → (alKeys fm2).Nodup →
    MemoOK s d P st.compared → Safe d P r1 r2 → FMR d fm1 r1 → FMR d fm2 r2 →
    MemoOK s d P res.2.compared ∧ res.2.visited = st.visited ∧
      ∀ x y, FM fm1 x → FM fm2 y → keyOf x = keyOf y → ¬ FailsC s d me x y
  bs : ∀ me pn1 sel1 pn2 sel2 st P r1 r2 res, betweenSubSelectionSets s d n me pn1 sel1 pn2 sel2 st = res →
    res.1 = [] → res.2.stuck = false →
    MemoOK s d P st.compared → Safe d P r1 r2 → Rs d sel1 ≤ r1 → Rs d sel2 ≤ r2 →
    MemoOK s d P res.2.compared ∧ res.2.visited = st.visited ∧
      Cross s d me (min r1 r2) (Mem s d (pn1.bind s.typeByName) sel1) (Mem s d (pn2.bind s.typeByName) sel2)
  ff : ∀ fm nm me st P r1 r2 res, fieldsAndFragment s d n fm nm me st = res → res.1 = [] → res.2.stuck = false →
    KeyOk fm → MemoOK s d P st.compared → Safe d P r1 r2 → FMR d fm r1 → Dr d nm + 1 ≤ r2 →
    (∀ h ∈ st.visited, Dr d h < Dr d nm → FFOK s d fm h me) →
    MemoOK s d P res.2.compared ∧ FFOK s d fm nm me ∧ ∀ h ∈ res.2.visited, h ∈ st.visited ∨ FFOK s d fm h me
  bf : ∀ n1 n2 me st P r1 r2 res, betweenFragments s d n n1 n2 me st = res → res.1 = [] → res.2.stuck = false →
    MemoOK s d P st.compared → Safe d P r1 r2 → Dr d n1 + 1 ≤ r1 → Dr d n2 + 1 ≤ r2 →
    MemoOK s d P res.2.compared ∧ res.2.visited = st.visited ∧ FragOK s d me n1 n2

theorem completeAt_zero (s : Schema) (d : Document) : CompleteAt s d 0 where
  fc := by intro key a b pe st P r1 r2 res h _ hs; subst h; simp [findConflict] at hs
  cb := by intro me fm1 fm2 st P r1 r2 res h _ hs; subst h; simp [conflictsBetween] at hs
  bs := by intro me pn1 sel1 pn2 sel2 st P r1 r2 res h _ hs; subst h; simp [betweenSubSelectionSets] at hs
  ff := by intro fm nm me st P r1 r2 res h _ hs; subst h; simp [fieldsAndFragment] at hs
  bf := by intro n1 n2 me st P r1 r2 res h _ hs; subst h; simp [betweenFragments] at hs

end Gql
