/-
  Lemmas/MergeCompleteStep.lean — the induction step of `CompleteAt` (Lemmas/MergeComplete.lean):
  the five functions of the field-merging rule, one unit of fuel up.
-/
import GqlVerif.Lemmas.MergeComplete
namespace Gql
open Gql.Spec

theorem subfield_nil {cs : List Conflict} {key : Name} {p1 p2 : Pos} (h : subfieldConflicts cs key p1 p2 = none) : cs = [] := by
  have h1 := subfieldConflicts_none cs key p1 p2
  rw [h] at h1
  cases cs with
  | nil => rfl
  | cons c cs => simp at h1

theorem isEmpty_false_or {α : Type} {l1 l2 : List α} (h : ¬ ((!l1.isEmpty && !l2.isEmpty) = true)) : l1 = [] ∨ l2 = [] := by
  cases l1 with
  | nil => exact Or.inl rfl
  | cons a l1 =>
    cases l2 with
    | nil => exact Or.inr rfl
    | cons b l2 => simp at h

theorem ref_rank (s : Schema) (d : Document) (hac : ¬ FragmentCycle d) (nm : Name) (fr : FragDef) (hf : d.fragByName nm = some fr) :
    FMR d (referencedFieldsAndFragmentNames s fr).1 (Dr d nm) := by
  intro a ha
  rw [Dr_some d hac nm fr hf]
  exact fafn_rank s d _ fr.sel a ha

theorem ref_name_rank (s : Schema) (d : Document) (hac : ¬ FragmentCycle d) (nm : Name) (fr : FragDef) (hf : d.fragByName nm = some fr)
    (x : Name) (hx : x ∈ (referencedFieldsAndFragmentNames s fr).2) : Dr d x + 1 ≤ Dr d nm := by
  rw [Dr_some d hac nm fr hf]
  exact fafn_name_rank s d _ fr.sel x hx

theorem fragOK_of_undefined (s : Schema) (d : Document) (me : Bool) (n1 n2 : Name)
    (h : d.fragByName n1 = none ∨ d.fragByName n2 = none) : FragOK s d me n1 n2 := by
  intro x y hx hy _
  rcases h with h | h
  · obtain ⟨fr, hfr, _⟩ := memFrag_decomp s d n1 x hx
    rw [h] at hfr; cases hfr
  · obtain ⟨fr, hfr, _⟩ := memFrag_decomp s d n2 y hy
    rw [h] at hfr; cases hfr

theorem completeAt_succ (s : Schema) (d : Document) (hac : ¬ FragmentCycle d) (n : Nat) (ih : CompleteAt s d n) :
    CompleteAt s d (n + 1) where
  fc := by
    intro key a b pe st P r1 r2 res heq hnone hns hmemo hsafe hr1 hr2
    simp only [findConflict] at heq
    split at heq
    · rename_i hst
      subst heq
      simp only at hns
      rw [hst] at hns; cases hns
    · have hme : (pe || (optName a.parent != optName b.parent && optIsObject a.parent && optIsObject b.parent)) = meOf pe a b := rfl
      simp only [hme] at heq
      split at heq
      · subst heq; cases hnone
      · rename_i hname
        split at heq
        · subst heq; cases hnone
        · rename_i hargs
          split at heq
          · subst heq; cases hnone
          · rename_i htc
            split at heq
            · subst heq
              simp only at hnone hns ⊢
              obtain ⟨m', v', hc⟩ := ih.bs _ _ _ _ _ st P r1 r2 _ rfl (subfield_nil hnone) hns hmemo hsafe hr1 hr2
              refine ⟨m', v', not_failsC_of s d pe a b hname hargs htc ?_⟩
              intro x y hx hy hk
              exact (hc x y hx hy hk).imp (fun h => h.shared) id
            · rename_i hsel
              subst heq
              refine ⟨hmemo, rfl, not_failsC_of s d pe a b hname hargs htc ?_⟩
              intro x y hx hy _
              rcases isEmpty_false_or hsel with h | h
              · exact absurd hx (memSub_nil s d a x h)
              · exact absurd hy (memSub_nil s d b y h)
  cb := by
    intro me fm1 fm2 st P r1 r2 res heq hnil hns k1 k2 hn2 hmemo hsafe hf1 hf2
    simp only [conflictsBetween] at heq
    split at heq
    · rename_i hst
      subst heq
      simp only at hns
      rw [hst] at hns; cases hns
    · subst heq
      obtain ⟨hI, hq⟩ := between_inv (findConflict s d n) (fun k a b me st hs => stuck_fc s d n k a b me st hs) me fm1 fm2
        (fun st' => MemoOK s d P st'.compared ∧ st'.visited = st.visited)
        (fun a b => ¬ FailsC s d me a b) k2 hn2
        (by
          intro k a b st' ha hb hI hnone hs
          obtain ⟨m', v', hc⟩ := ih.fc k a b me st' P r1 r2 _ rfl hnone hs hI.1 hsafe (hf1 a ha) (hf2 b hb)
          exact ⟨⟨m', v'.trans hI.2⟩, hc⟩)
        st hnil hns ⟨hmemo, rfl⟩
      exact ⟨hI.1, hI.2, fun x y hx hy hk => hq x y hx hy hk k1⟩
  bs := by
    intro me pn1 sel1 pn2 sel2 st P r1 r2 res heq hnil hns hmemo hsafe hr1 hr2
    simp only [betweenSubSelectionSets] at heq
    split at heq
    · rename_i hst
      subst heq
      simp only at hns
      rw [hst] at hns; cases hns
    · subst heq
      -- abbreviations
      generalize hc1 : fieldsAndFragmentNames s (pn1.bind s.typeByName) sel1 = c1 at hnil hns ⊢
      generalize hc2 : fieldsAndFragmentNames s (pn2.bind s.typeByName) sel2 = c2 at hnil hns ⊢
      have k1 : KeyOk c1.1 := by rw [← hc1]; exact (fafn_facts s d _ sel1).1
      have k2 : KeyOk c2.1 := by rw [← hc2]; exact (fafn_facts s d _ sel2).1
      have nd2 : (alKeys c2.1).Nodup := by rw [← hc2]; exact fafn_nodup s _ sel2
      have f1 : FMR d c1.1 r1 := by
        intro a ha; rw [← hc1] at ha
        exact Nat.le_trans (fafn_rank s d _ sel1 a ha) hr1
      have f2 : FMR d c2.1 r2 := by
        intro a ha; rw [← hc2] at ha
        exact Nat.le_trans (fafn_rank s d _ sel2 a ha) hr2
      have g1 : ∀ f ∈ c1.2, Dr d f + 1 ≤ r1 := by
        intro f hf; rw [← hc1] at hf
        exact Nat.le_trans (fafn_name_rank s d _ sel1 f hf) hr1
      have g2 : ∀ f ∈ c2.2, Dr d f + 1 ≤ r2 := by
        intro f hf; rw [← hc2] at hf
        exact Nat.le_trans (fafn_name_rank s d _ sel2 f hf) hr2
      -- the four stages, last first
      have ok3i : ∀ a : Name, StepOk (fun (acc : MRes) b => ((acc.1 ++ (betweenFragments s d n a b me acc.2).1, (betweenFragments s d n a b me acc.2).2) : MRes)) :=
        fun a => stepOk_cat (fun b st' => betweenFragments s d n a b me st') (fun b st' hs => stuck_bf s d n a b me st' hs)
      have ok3 := StepOk.fold ok3i (fun _ => c2.2)
      have ok2 := stepOk_cat (fun fn st' => fieldsAndFragment s d n c2.1 fn me st') (fun fn st' hs => stuck_ff s d n c2.1 fn me st' hs)
      have ok1 := stepOk_cat (fun fn st' => fieldsAndFragment s d n c1.1 fn me st') (fun fn st' hs => stuck_ff s d n c1.1 fn me st' hs)
      -- names of the intermediate results
      generalize hr0 : conflictsBetween s d n me c1.1 c2.1 st = r0 at hnil hns ⊢
      generalize hra : c2.2.foldl (fun (acc : MRes) fn =>
          ((acc.1 ++ (fieldsAndFragment s d n c1.1 fn me acc.2).1, (fieldsAndFragment s d n c1.1 fn me acc.2).2) : MRes))
          (r0.1, { r0.2 with visited := [] }) = ra at hnil hns ⊢
      generalize hrb : c1.2.foldl (fun (acc : MRes) fn =>
          ((acc.1 ++ (fieldsAndFragment s d n c2.1 fn me acc.2).1, (fieldsAndFragment s d n c2.1 fn me acc.2).2) : MRes))
          (ra.1, { ra.2 with visited := [] }) = rb at hnil hns ⊢
      -- backwards: nothing reported, never stuck
      have hb1 : rb.1 = [] := foldl_nil ok3 c1.2 (rb.1, { rb.2 with visited := r0.2.visited }) hnil
      have hb2 : rb.2.stuck = false := by
        cases h : rb.2.stuck with
        | false => rfl
        | true =>
          have := foldl_stuck ok3 c1.2 (rb.1, { rb.2 with visited := r0.2.visited }) h
          rw [this] at hns; cases hns
      have ha1 : ra.1 = [] := by rw [← hrb] at hb1; exact foldl_nil ok2 c1.2 (ra.1, { ra.2 with visited := [] }) hb1
      have ha2 : ra.2.stuck = false := by
        cases h : ra.2.stuck with
        | false => rfl
        | true =>
          have := foldl_stuck ok2 c1.2 (ra.1, { ra.2 with visited := [] }) h
          rw [hrb] at this; rw [this] at hb2; cases hb2
      have h01 : r0.1 = [] := by rw [← hra] at ha1; exact foldl_nil ok1 c2.2 (r0.1, { r0.2 with visited := [] }) ha1
      have h02 : r0.2.stuck = false := by
        cases h : r0.2.stuck with
        | false => rfl
        | true =>
          have := foldl_stuck ok1 c2.2 (r0.1, { r0.2 with visited := [] }) h
          rw [hra] at this; rw [this] at ha2; cases ha2
      -- forwards
      obtain ⟨m0, v0, q0⟩ := ih.cb me c1.1 c2.1 st P r1 r2 r0 hr0 h01 h02 k1 k2 nd2 hmemo hsafe f1 f2
      obtain ⟨⟨ma, _⟩, qa⟩ := foldl_inv ok1
        (fun st' => MemoOK s d P st'.compared ∧ ∀ h ∈ st'.visited, FFOK s d c1.1 h me)
        (fun g => FFOK s d c1.1 g me) c2.2 (r0.1, { r0.2 with visited := [] })
        (by
          intro g hg acc hI hn hs
          simp only [List.append_eq_nil_iff] at hn
          obtain ⟨m', q', v'⟩ := ih.ff c1.1 g me acc.2 P r1 r2 _ rfl hn.2 hs k1 hI.1 hsafe f1 (g2 g hg) (fun h hh _ => hI.2 h hh)
          exact ⟨⟨m', fun h hh => (v' h hh).elim (hI.2 h) id⟩, q'⟩)
        (by rw [hra]; exact ha1) (by rw [hra]; exact ha2) ⟨m0, by simp⟩
      rw [hra] at ma
      obtain ⟨⟨mb, _⟩, qb⟩ := foldl_inv ok2
        (fun st' => MemoOK s d P st'.compared ∧ ∀ h ∈ st'.visited, FFOK s d c2.1 h me)
        (fun g => FFOK s d c2.1 g me) c1.2 (ra.1, { ra.2 with visited := [] })
        (by
          intro g hg acc hI hn hs
          simp only [List.append_eq_nil_iff] at hn
          obtain ⟨m', q', v'⟩ := ih.ff c2.1 g me acc.2 P r2 r1 _ rfl hn.2 hs k2 hI.1
            (fun p hp => by have := hsafe p hp; omega) f2 (g1 g hg) (fun h hh _ => hI.2 h hh)
          exact ⟨⟨m', fun h hh => (v' h hh).elim (hI.2 h) id⟩, q'⟩)
        (by rw [hrb]; exact hb1) (by rw [hrb]; exact hb2) ⟨ma, by simp⟩
      rw [hrb] at mb
      obtain ⟨⟨mc, vc⟩, qc⟩ := foldl_inv ok3
        (fun st' => MemoOK s d P st'.compared ∧ st'.visited = r0.2.visited)
        (fun a => ∀ b ∈ c2.2, FragOK s d me a b) c1.2 (rb.1, { rb.2 with visited := r0.2.visited })
        (by
          intro a ha acc hI hn hs
          exact foldl_inv (ok3i a) (fun st' => MemoOK s d P st'.compared ∧ st'.visited = r0.2.visited)
            (fun b => FragOK s d me a b) c2.2 acc
            (by
              intro b hb acc hI hn hs
              simp only [List.append_eq_nil_iff] at hn
              obtain ⟨m', v', q'⟩ := ih.bf a b me acc.2 P r1 r2 _ rfl hn.2 hs hI.1 hsafe (g1 a ha) (g2 b hb)
              exact ⟨⟨m', v'.trans hI.2⟩, q'⟩)
            hn hs hI)
        hnil hns ⟨mb, rfl⟩
      refine ⟨mc, vc.trans v0, ?_⟩
      intro x y hx hy hk
      rw [← hc1] at qa qc f1 g1
      rw [← hc2] at qb qc q0 g2
      rw [← hc1] at q0 qb
      rw [← hc2] at qa
      rcases mem_decomp s d _ sel1 x hx with hx | ⟨f, hf, hx⟩
      · rcases mem_decomp s d _ sel2 y hy with hy | ⟨g, hg, hy⟩
        · exact Or.inr (q0 x y hx hy hk)
        · exact Or.inr (qa g hg x y hx hy hk)
      · rcases mem_decomp s d _ sel2 y hy with hy | ⟨g, hg, hy⟩
        · exact Or.inr (fun hf' => qb f hf y x hy hx hk.symm hf'.symm)
        · have := g1 f hf
          have := g2 g hg
          exact (Cross.mono (qc f hf g hg) (by omega)) x y hx hy hk
  ff := by
    intro fm nm me st P r1 r2 res heq hnil hns kfm hmemo hsafe hfm hnm hvis
    simp only [fieldsAndFragment] at heq
    split at heq
    · rename_i hst
      subst heq
      simp only at hns
      rw [hst] at hns; cases hns
    · split at heq
      · rename_i hfrag
        subst heq
        refine ⟨hmemo, ?_, fun h hh => Or.inl hh⟩
        intro x y _ hy _
        obtain ⟨fr, hfr, _⟩ := memFrag_decomp s d nm y hy
        rw [hfrag] at hfr; cases hfr
      · rename_i frag hfrag
        split at heq
        · rename_i hself
          have hself' : nm ∈ (referencedFieldsAndFragmentNames s frag).2 := by simpa using hself
          have := ref_name_rank s d hac nm frag hfrag nm hself'
          omega
        · subst heq
          generalize hc2 : referencedFieldsAndFragmentNames s frag = c2 at hnil hns ⊢
          have k2 : KeyOk c2.1 := by rw [← hc2]; exact (fafn_facts s d _ frag.sel).1
          have nd2 : (alKeys c2.1).Nodup := by rw [← hc2]; exact fafn_nodup s _ frag.sel
          have f2 : FMR d c2.1 (Dr d nm) := by rw [← hc2]; exact ref_rank s d hac nm frag hfrag
          have g2 : ∀ x ∈ c2.2, Dr d x + 1 ≤ Dr d nm := by
            intro x hx; rw [← hc2] at hx; exact ref_name_rank s d hac nm frag hfrag x hx
          generalize hr0 : conflictsBetween s d n me fm c2.1 st = r0 at hnil hns ⊢
          have okS : StepOk (fun (acc : MRes) fn2 =>
              if acc.2.visited.contains fn2 then ((acc.1, { acc.2 with guardHit := true }) : MRes)
              else ((acc.1 ++ (fieldsAndFragment s d n fm fn2 me { acc.2 with visited := acc.2.visited ++ [fn2] }).1,
                (fieldsAndFragment s d n fm fn2 me { acc.2 with visited := acc.2.visited ++ [fn2] }).2) : MRes)) := by
            constructor
            · intro acc x hn
              split at hn
              · exact hn
              · simp only [List.append_eq_nil_iff] at hn; exact hn.1
            · intro acc x hs
              split
              · exact hs
              · exact stuck_ff s d n fm x me _ hs
          have h01 : r0.1 = [] := foldl_nil okS c2.2 _ hnil
          have h02 : r0.2.stuck = false := by
            cases h : r0.2.stuck with
            | false => rfl
            | true => rw [foldl_stuck okS c2.2 r0 h] at hns; cases hns
          have hsafe' : Safe d P r1 (Dr d nm) := hsafe.mono (Nat.le_refl _) (by omega)
          obtain ⟨m0, v0, q0⟩ := ih.cb me fm c2.1 st P r1 (Dr d nm) r0 hr0 h01 h02 kfm k2 nd2 hmemo hsafe' hfm f2
          obtain ⟨⟨ma, va⟩, qa⟩ := foldl_inv okS
            (fun st' => MemoOK s d P st'.compared ∧ ∀ h ∈ st'.visited, h ∈ st.visited ∨ FFOK s d fm h me)
            (fun g => FFOK s d fm g me) c2.2 r0
            (by
              intro g hg acc hI hn hs
              have hgr := g2 g hg
              split at hn
              · rename_i hc
                have hc' : g ∈ acc.2.visited := by simpa using hc
                simp only [hc, if_true] at hs ⊢
                refine ⟨⟨hI.1, hI.2⟩, ?_⟩
                rcases hI.2 g hc' with h | h
                · exact hvis g h (by omega)
                · exact h
              · rename_i hc
                simp only [hc] at hs ⊢
                simp only [List.append_eq_nil_iff] at hn
                obtain ⟨m', q', v'⟩ := ih.ff fm g me { acc.2 with visited := acc.2.visited ++ [g] } P r1 (Dr d nm) _ rfl hn.2 hs kfm hI.1 hsafe' hfm hgr
                  (by
                    intro h hh hlt
                    simp only [List.mem_append, List.mem_singleton] at hh
                    rcases hh with hh | rfl
                    · rcases hI.2 h hh with h' | h'
                      · exact hvis h h' (by omega)
                      · exact h'
                    · omega)
                refine ⟨⟨m', ?_⟩, q'⟩
                intro h hh
                rcases v' h hh with h' | h'
                · simp only [List.mem_append, List.mem_singleton] at h'
                  rcases h' with h' | rfl
                  · exact hI.2 h h'
                  · exact Or.inr q'
                · exact Or.inr h')
            hnil hns ⟨m0, fun h hh => Or.inl (v0 ▸ hh)⟩
          refine ⟨ma, ?_, va⟩
          intro x y hx hy hk
          obtain ⟨fr, hfr, hy⟩ := memFrag_decomp s d nm y hy
          rw [hfrag] at hfr
          cases hfr
          rw [hc2] at hy
          rcases hy with hy | ⟨g, hg, hy⟩
          · exact q0 x y hx hy hk
          · exact qa g hg x y hx hy hk
  bf := by
    intro n1 n2 me st P r1 r2 res heq hnil hns hmemo hsafe hn1 hn2
    simp only [betweenFragments] at heq
    split at heq
    · rename_i hst
      subst heq
      simp only at hns
      rw [hst] at hns; cases hns
    · split at heq
      · rename_i heqn
        have heqn' : n1 = n2 := by simpa using heqn
        subst heq
        refine ⟨hmemo, rfl, ?_⟩
        subst heqn'
        intro x y hx hy _
        exact Or.inl ⟨n1, by omega, hx, hy⟩
      · split at heq
        · rename_i hcont
          subst heq
          refine ⟨hmemo, rfl, ?_⟩
          unfold PairSet.containsPair at hcont
          cases hg : alGet st.compared (n1, n2) with
          | none => rw [hg] at hcont; cases hcont
          | some flag =>
            rw [hg] at hcont
            have hm := mem_of_alGet st.compared (n1, n2) flag hg
            rcases hmemo _ hm with hp | hok
            · have := hsafe _ hp
              simp only at this
              omega
            · simp only at hok
              cases me with
              | false =>
                cases flag with
                | false => exact hok
                | true => simp at hcont
              | true =>
                cases flag with
                | false => exact Cross.weaken hok
                | true => exact hok
        · -- the comparison is made
          rename_i hne hcont
          have hmemo1 : MemoOK s d (((n1, n2), me) :: ((n2, n1), me) :: P) (st.compared.insertPair n1 n2 me) := by
            intro e he
            unfold PairSet.insertPair at he
            rcases mem_alInsert _ _ _ _ he with he | rfl
            · rcases mem_alInsert _ _ _ _ he with he | rfl
              · rcases hmemo e he with h | h
                · exact Or.inl (by simp [h])
                · exact Or.inr h
              · exact Or.inl (by simp)
            · exact Or.inl (by simp)
          have close : ∀ c : PairSet, MemoOK s d (((n1, n2), me) :: ((n2, n1), me) :: P) c → FragOK s d me n1 n2 → MemoOK s d P c := by
            intro c hc hok e he
            rcases hc e he with h | h
            · simp only [List.mem_cons] at h
              rcases h with rfl | rfl | h
              · exact Or.inr hok
              · exact Or.inr hok.symm
              · exact Or.inl h
            · exact Or.inr h
          split at heq
          · rename_i fr1 fr2 hf1 hf2
            subst heq
            generalize hc1 : referencedFieldsAndFragmentNames s fr1 = c1 at hnil hns ⊢
            generalize hc2 : referencedFieldsAndFragmentNames s fr2 = c2 at hnil hns ⊢
            have k1 : KeyOk c1.1 := by rw [← hc1]; exact (fafn_facts s d _ fr1.sel).1
            have k2 : KeyOk c2.1 := by rw [← hc2]; exact (fafn_facts s d _ fr2.sel).1
            have nd2 : (alKeys c2.1).Nodup := by rw [← hc2]; exact fafn_nodup s _ fr2.sel
            have f1 : FMR d c1.1 (Dr d n1) := by rw [← hc1]; exact ref_rank s d hac n1 fr1 hf1
            have f2 : FMR d c2.1 (Dr d n2) := by rw [← hc2]; exact ref_rank s d hac n2 fr2 hf2
            have g1 : ∀ x ∈ c1.2, Dr d x + 1 ≤ Dr d n1 := by
              intro x hx; rw [← hc1] at hx; exact ref_name_rank s d hac n1 fr1 hf1 x hx
            have g2 : ∀ x ∈ c2.2, Dr d x + 1 ≤ Dr d n2 := by
              intro x hx; rw [← hc2] at hx; exact ref_name_rank s d hac n2 fr2 hf2 x hx
            have okA := stepOk_cat (fun x st' => betweenFragments s d n n1 x me st') (fun x st' hs => stuck_bf s d n n1 x me st' hs)
            have okB := stepOk_cat (fun x st' => betweenFragments s d n x n2 me st') (fun x st' hs => stuck_bf s d n x n2 me st' hs)
            generalize hr0 : conflictsBetween s d n me c1.1 c2.1 { st with compared := st.compared.insertPair n1 n2 me } = r0 at hnil hns ⊢
            generalize hra : c2.2.foldl (fun (acc : MRes) x =>
                ((acc.1 ++ (betweenFragments s d n n1 x me acc.2).1, (betweenFragments s d n n1 x me acc.2).2) : MRes)) r0 = ra at hnil hns ⊢
            have ha1 : ra.1 = [] := foldl_nil okB c1.2 _ hnil
            have ha2 : ra.2.stuck = false := by
              cases h : ra.2.stuck with
              | false => rfl
              | true => rw [foldl_stuck okB c1.2 ra h] at hns; cases hns
            have h01 : r0.1 = [] := by rw [← hra] at ha1; exact foldl_nil okA c2.2 _ ha1
            have h02 : r0.2.stuck = false := by
              cases h : r0.2.stuck with
              | false => rfl
              | true =>
                have := foldl_stuck okA c2.2 r0 h
                rw [hra] at this; rw [this] at ha2; cases ha2
            have hsafeP : ∀ q1 q2, q1 + q2 ≤ Dr d n1 + Dr d n2 + 1 → q1 ≤ r1 → q2 ≤ r2 →
                Safe d (((n1, n2), me) :: ((n2, n1), me) :: P) q1 q2 := by
              intro q1 q2 hq h1 h2 p hp
              simp only [List.mem_cons] at hp
              rcases hp with rfl | rfl | hp
              · simp only; omega
              · simp only; omega
              · have := hsafe p hp; omega
            obtain ⟨m0, v0, q0⟩ := ih.cb me c1.1 c2.1 _ _ (Dr d n1) (Dr d n2) r0 hr0 h01 h02 k1 k2 nd2 hmemo1
              (hsafeP _ _ (by omega) (by omega) (by omega)) f1 f2
            obtain ⟨⟨ma, va⟩, qa⟩ := foldl_inv okA
              (fun st' => MemoOK s d (((n1, n2), me) :: ((n2, n1), me) :: P) st'.compared ∧ st'.visited = st.visited)
              (fun x => FragOK s d me n1 x) c2.2 r0
              (by
                intro x hx acc hI hn hs
                simp only [List.append_eq_nil_iff] at hn
                have := g2 x hx
                obtain ⟨m', v', q'⟩ := ih.bf n1 x me acc.2 _ (Dr d n1 + 1) (Dr d n2) _ rfl hn.2 hs hI.1
                  (hsafeP _ _ (by omega) (by omega) (by omega)) (by omega) (by omega)
                exact ⟨⟨m', v'.trans hI.2⟩, q'⟩)
              (by rw [hra]; exact ha1) (by rw [hra]; exact ha2) ⟨m0, v0⟩
            rw [hra] at ma va
            obtain ⟨⟨mb, vb⟩, qb⟩ := foldl_inv okB
              (fun st' => MemoOK s d (((n1, n2), me) :: ((n2, n1), me) :: P) st'.compared ∧ st'.visited = st.visited)
              (fun x => FragOK s d me x n2) c1.2 ra
              (by
                intro x hx acc hI hn hs
                simp only [List.append_eq_nil_iff] at hn
                have := g1 x hx
                obtain ⟨m', v', q'⟩ := ih.bf x n2 me acc.2 _ (Dr d n1) (Dr d n2 + 1) _ rfl hn.2 hs hI.1
                  (hsafeP _ _ (by omega) (by omega) (by omega)) (by omega) (by omega)
                exact ⟨⟨m', v'.trans hI.2⟩, q'⟩)
              hnil hns ⟨ma, va⟩
            have hok : FragOK s d me n1 n2 := by
              intro x y hx hy hk
              obtain ⟨fx, hfx, hx'⟩ := memFrag_decomp s d n1 x hx
              obtain ⟨fy, hfy, hy'⟩ := memFrag_decomp s d n2 y hy
              rw [hf1] at hfx; cases hfx
              rw [hf2] at hfy; cases hfy
              rw [hc1] at hx'
              rw [hc2] at hy'
              rcases hy' with hy' | ⟨h, hh, hy'⟩
              · rcases hx' with hx' | ⟨g, hg, hx'⟩
                · exact Or.inr (q0 x y hx' hy' hk)
                · have := g1 g hg
                  exact (Cross.mono (qb g hg) (by omega)) x y hx' hy hk
              · have := g2 h hh
                exact (Cross.mono (qa h hh) (by omega)) x y hx hy' hk
            exact ⟨close _ mb hok, vb, hok⟩
          · rename_i hundef
            subst heq
            have hok : FragOK s d me n1 n2 := by
              apply fragOK_of_undefined
              cases h1 : d.fragByName n1 with
              | none => exact Or.inl rfl
              | some f1 =>
                cases h2 : d.fragByName n2 with
                | none => exact Or.inr rfl
                | some f2 => exact absurd h2 (hundef f1 f2 h1)
            exact ⟨close _ hmemo1 hok, rfl, hok⟩

theorem completeAt (s : Schema) (d : Document) (hac : ¬ FragmentCycle d) : ∀ n, CompleteAt s d n
  | 0 => completeAt_zero s d
  | n + 1 => completeAt_succ s d hac n (completeAt s d hac n)

end Gql
