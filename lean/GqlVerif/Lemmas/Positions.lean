/-
  Lemmas/Positions.lean — the positions of the nodes of a document, and the structural facts
  that put a position a rule reports among them: what lies inside a visited selection set, a
  fragment definition, a collected field.
-/
import GqlVerif.Lemmas.TraverseMem
import GqlVerif.Lemmas.Rules
import GqlVerif.Lemmas.MergeRel
import GqlVerif.Lemmas.Levels
namespace Gql
open Gql.Spec

/-- the position a node carries (values, arguments and selection sets carry none in the AST) -/
def Node.pos? : Node → Option Pos
  | .operation o => some o.pos
  | .fragmentDef f => some f.pos
  | .varDef v => some v.pos
  | .directive d => some d.pos
  | .field f => some f.pos
  | .spread sp => some sp.pos
  | .inline i => some i.pos
  | _ => none

def Ev.pos? : Ev → Option Pos
  | .enter n => n.pos?
  | .leave _ => none

/-- the positions of the nodes of the document -/
def docPositions (d : Document) : List Pos := (traverseDocument d).filterMap Ev.pos?

theorem pos_of_enter {d : Document} {n : Node} {p : Pos} (h : Ev.enter n ∈ traverseDocument d) (hp : n.pos? = some p) :
    p ∈ docPositions d :=
  List.mem_filterMap.2 ⟨_, h, hp⟩

theorem enter_of_walk (s : Schema) (d : Document) (hq : s.queryType.isSome = true) {ev : Ev} {env : Snap}
    (h : (ev, env) ∈ walkOf s d) : ev ∈ traverseDocument d := by
  rw [← walkOf_events s d hq]
  exact List.mem_map.2 ⟨_, h, rfl⟩

theorem pos_of_walk (s : Schema) (d : Document) (hq : s.queryType.isSome = true) {n : Node} {env : Snap} {p : Pos}
    (h : (Ev.enter n, env) ∈ walkOf s d) (hp : n.pos? = some p) : p ∈ docPositions d :=
  pos_of_enter (enter_of_walk s d hq h) hp

/-! ### a rule with an invariant on its state, along a given trace -/

theorem runOn_inv (r : Rule) (s : Schema) (d : Document) (I : r.σ → Prop) (P : Err → Prop) (tr : Trace)
    (hinit : I r.init)
    (hon : ∀ σ, I σ → ∀ e ∈ tr, I (r.on s d σ e).1 ∧ ∀ x ∈ (r.on s d σ e).2, P x)
    (hfin : ∀ σ, I σ → ∀ x ∈ r.finish s d σ, P x) : ∀ x ∈ r.runOn s d tr, P x := by
  have key : ∀ (t : Trace) (acc : r.σ × List Err), (∀ e ∈ t, e ∈ tr) → I acc.1 → (∀ x ∈ acc.2, P x) →
      I (t.foldl (r.step s d) acc).1 ∧ ∀ x ∈ (t.foldl (r.step s d) acc).2, P x := by
    intro t
    induction t with
    | nil => intro acc _ h1 h2; exact ⟨h1, h2⟩
    | cons e t ih =>
      intro acc hsub h1 h2
      simp only [List.foldl_cons]
      obtain ⟨i1, i2⟩ := hon acc.1 h1 e (hsub e (by simp))
      refine ih _ (fun e' he' => hsub e' (by simp [he'])) i1 ?_
      intro x hx
      simp only [Rule.step, List.mem_append] at hx
      rcases hx with hx | hx
      · exact h2 x hx
      · exact i2 x hx
  intro x hx
  obtain ⟨k1, k2⟩ := key tr (r.init, []) (fun _ h => h) hinit (by simp)
  simp only [Rule.runOn, List.mem_append] at hx
  rcases hx with hx | hx
  · exact k2 x hx
  · exact hfin _ k1 x hx

/-! ### what lies inside a visited selection set -/

/-- every selection set entered in `L` has the traversal of its items in `L` -/
def Closed (L : List Ev) : Prop := ∀ sel, Ev.enter (.selectionSet sel) ∈ L → ∀ ev ∈ traverseSelections sel, ev ∈ L

theorem Closed.nil : Closed [] := by intro sel h; simp at h
theorem Closed.append {a b : List Ev} (ha : Closed a) (hb : Closed b) : Closed (a ++ b) := by
  intro sel h ev hev
  rcases List.mem_append.1 h with h | h
  · exact List.mem_append_left _ (ha sel h ev hev)
  · exact List.mem_append_right _ (hb sel h ev hev)
theorem Closed.cons {e : Ev} {t : List Ev} (he : ∀ sel, e ≠ .enter (.selectionSet sel)) (ht : Closed t) : Closed (e :: t) := by
  intro sel h ev hev
  rcases List.mem_cons.1 h with h | h
  · exact absurd h.symm (he sel)
  · exact List.mem_cons_of_mem _ (ht sel h ev hev)
theorem Closed.of_inner {l : List Ev} (h : ∀ sel, Ev.enter (.selectionSet sel) ∉ l) : Closed l := by
  intro sel hm; exact absurd hm (h sel)

theorem no_selset_value : ∀ v sel, Ev.enter (.selectionSet sel) ∉ traverseValue v := by
  intro v sel h
  have := below_value v _ h
  simp [Ev.node, Node.level] at this
theorem no_selset_arguments (as : List Arg) (sel : List Selection) : Ev.enter (.selectionSet sel) ∉ traverseArguments as := by
  intro h
  have := below_arguments as _ h
  simp [Ev.node, Node.level] at this
theorem no_selset_directives (ds : List Directive) (sel : List Selection) : Ev.enter (.selectionSet sel) ∉ traverseDirectives ds := by
  intro h
  have := below_directives ds _ h
  simp [Ev.node, Node.level] at this

theorem closed_selectionSet (sel : List Selection) (hin : Closed (traverseSelections sel)) :
    Closed (Ev.enter (.selectionSet sel) :: traverseSelections sel ++ [Ev.leave (.selectionSet sel)]) := by
  intro sel' h ev hev
  simp only [List.cons_append, List.mem_cons, List.mem_append, List.not_mem_nil, or_false] at h
  rcases h with h | h | h
  · have : sel' = sel := by simpa using h
    subst this
    simp only [List.cons_append, List.mem_cons, List.mem_append]
    exact Or.inr (Or.inl hev)
  · simp only [List.cons_append, List.mem_cons, List.mem_append]
    exact Or.inr (Or.inl (hin sel' h ev hev))
  · cases h

mutual
theorem closed_selection : ∀ x : Selection, Closed (traverseSelection x)
  | .field pos alias name args dirs sel => by
      simp only [traverseSelection]
      refine Closed.cons (by intro s'; simp) (Closed.append (Closed.append (Closed.append
        (Closed.of_inner (no_selset_arguments args)) (Closed.of_inner (no_selset_directives dirs))) ?_)
        (Closed.cons (by intro s'; simp) Closed.nil))
      exact closed_selectionSet sel (closed_selections sel)
  | .spread pos name dirs => by
      simp only [traverseSelection]
      exact Closed.cons (by intro s'; simp) (Closed.append (Closed.of_inner (no_selset_directives dirs))
        (Closed.cons (by intro s'; simp) Closed.nil))
  | .inline pos tc dirs sel => by
      simp only [traverseSelection]
      refine Closed.cons (by intro s'; simp) (Closed.append (Closed.append
        (Closed.of_inner (no_selset_directives dirs)) ?_) (Closed.cons (by intro s'; simp) Closed.nil))
      exact closed_selectionSet sel (closed_selections sel)
theorem closed_selections : ∀ xs : List Selection, Closed (traverseSelections xs)
  | [] => by simp only [traverseSelections]; exact Closed.nil
  | x :: xs => by
      simp only [traverseSelections]
      exact Closed.append (closed_selection x) (closed_selections xs)
end

theorem no_selset_varDefs : ∀ (vs : List VarDef) (sel : List Selection), Ev.enter (.selectionSet sel) ∉ traverseVarDefs vs
  | [], sel => by simp [traverseVarDefs]
  | v :: vs, sel => by
      simp only [traverseVarDefs, List.cons_append, List.mem_cons, List.mem_append, not_or]
      refine ⟨by simp, ⟨?_, by simp⟩, no_selset_varDefs vs sel⟩
      cases v.default with
      | none => simp
      | some dv => exact no_selset_value dv sel

theorem closed_definition : ∀ x : Definition, Closed (traverseDefinition x)
  | .frag f => by
      simp only [traverseDefinition, traverseSelectionSet]
      exact Closed.cons (by intro s'; simp) (Closed.append (Closed.append (Closed.of_inner (no_selset_directives f.dirs))
        (closed_selectionSet f.sel (closed_selections f.sel))) (Closed.cons (by intro s'; simp) Closed.nil))
  | .op o => by
      simp only [traverseDefinition, traverseSelectionSet]
      exact Closed.cons (by intro s'; simp) (Closed.append (Closed.append (Closed.append
        (Closed.of_inner (no_selset_directives o.dirs)) (Closed.of_inner (no_selset_varDefs o.vars)))
        (closed_selectionSet o.sel (closed_selections o.sel))) (Closed.cons (by intro s'; simp) Closed.nil))

theorem closed_definitions : ∀ ds : List Definition, Closed (traverseDefinitions ds)
  | [] => by simp only [traverseDefinitions]; exact Closed.nil
  | x :: xs => by simp only [traverseDefinitions]; exact Closed.append (closed_definition x) (closed_definitions xs)

/-- the items of every selection set the traversal of the document enters are traversed in it -/
theorem closed_document (d : Document) : Closed (traverseDocument d) := by
  simp only [traverseDocument]
  exact Closed.cons (by intro s'; simp) (Closed.append (closed_definitions d) (Closed.cons (by intro s'; simp) Closed.nil))

/-- the traversal of the items lies inside the traversal of the document -/
def Incl (d : Document) (sel : List Selection) : Prop := ∀ ev ∈ traverseSelections sel, ev ∈ traverseDocument d

theorem incl_of_walk (s : Schema) (d : Document) (hq : s.queryType.isSome = true) {sel : List Selection} {env : Snap}
    (h : (Ev.enter (.selectionSet sel), env) ∈ walkOf s d) : Incl d sel :=
  closed_document d sel (enter_of_walk s d hq h)

theorem mem_traverseDefinitions' {x : Definition} {e : Ev} : ∀ {ds : List Definition}, x ∈ ds → e ∈ traverseDefinition x →
    e ∈ traverseDefinitions ds
  | [], h, _ => by simp at h
  | y :: ys, h, he => by
      simp only [traverseDefinitions, List.mem_append]
      rcases List.mem_cons.1 h with rfl | h
      · exact Or.inl he
      · exact Or.inr (mem_traverseDefinitions' h he)

/-- a fragment definition's selection set lies inside the document -/
theorem incl_fragment (d : Document) (f : FragDef) (h : f ∈ d.fragments) : Incl d f.sel := by
  apply closed_document d f.sel
  simp only [traverseDocument, List.cons_append, List.mem_cons, List.mem_append]
  right; left
  refine mem_traverseDefinitions' ((mem_fragments_iff d f).1 h) ?_
  simp [traverseDefinition, traverseSelectionSet]

theorem incl_fragByName (d : Document) (nm : Name) (f : FragDef) (h : d.fragByName nm = some f) : Incl d f.sel := by
  apply incl_fragment
  unfold Document.fragByName at h
  exact List.mem_reverse.1 (List.mem_of_find?_eq_some h)

/-! ### spreads and collected fields of a selection set are traversed with it -/

mutual
theorem spread_traversed_sel : ∀ (x : Selection) (sp : SpreadNode), sp ∈ recursiveSpreadsSel x → Ev.enter (.spread sp) ∈ traverseSelection x
  | .spread p n ds, sp, h => by
      simp only [recursiveSpreadsSel, List.mem_singleton] at h
      subst h; simp [traverseSelection]
  | .field pos alias name args dirs sel, sp, h => by
      simp only [recursiveSpreadsSel] at h
      simp only [traverseSelection, List.cons_append, List.mem_cons, List.mem_append]
      right; left; right; right; left; exact spread_traversed_sels sel sp h
  | .inline pos tc dirs sel, sp, h => by
      simp only [recursiveSpreadsSel] at h
      simp only [traverseSelection, List.cons_append, List.mem_cons, List.mem_append]
      right; left; right; right; left; exact spread_traversed_sels sel sp h
theorem spread_traversed_sels : ∀ (xs : List Selection) (sp : SpreadNode), sp ∈ recursiveSpreads xs → Ev.enter (.spread sp) ∈ traverseSelections xs
  | [], sp, h => by simp [recursiveSpreads] at h
  | x :: xs, sp, h => by
      simp only [recursiveSpreads, List.mem_append] at h
      simp only [traverseSelections, List.mem_append]
      rcases h with h | h
      · exact Or.inl (spread_traversed_sel x sp h)
      · exact Or.inr (spread_traversed_sels xs sp h)
end

/-- the field node of a collected field is traversed, together with its own selection set -/
def FieldIn (L : List Ev) (a : AstAndDef) : Prop :=
  Ev.enter (.field a.field) ∈ L ∧ ∀ ev ∈ traverseSelections a.field.sel, ev ∈ L

theorem FieldIn.mono {L1 L2 : List Ev} {a : AstAndDef} (h : FieldIn L1 a) (hsub : ∀ ev ∈ L1, ev ∈ L2) : FieldIn L2 a :=
  ⟨hsub _ h.1, fun ev hev => hsub _ (h.2 ev hev)⟩

mutual
theorem field_traversed_sel (s : Schema) (sp : Name → List AstAndDef) : ∀ (x : Selection) (parent : Option TypeDef) (a : AstAndDef),
    a ∈ specFieldsSelWith s sp parent x → (∃ nm, a ∈ sp nm) ∨ FieldIn (traverseSelection x) a
  | .field pos alias name args dirs sel, parent, a, h => by
      simp only [specFieldsSelWith, List.mem_singleton] at h
      subst h
      right
      refine ⟨by simp [traverseSelection], fun ev hev => ?_⟩
      simp only [traverseSelection, List.cons_append, List.mem_cons, List.mem_append]
      right; left; right; right; left; exact hev
  | .spread _ nm _, _, a, h => by
      simp only [specFieldsSelWith] at h
      exact Or.inl ⟨nm, h⟩
  | .inline pos tc dirs sel, parent, a, h => by
      simp only [specFieldsSelWith] at h
      rcases field_traversed_sels s sp sel _ a h with h | h
      · exact Or.inl h
      · right
        refine h.mono (fun ev hev => ?_)
        simp only [traverseSelection, List.cons_append, List.mem_cons, List.mem_append]
        right; left; right; right; left; exact hev
theorem field_traversed_sels (s : Schema) (sp : Name → List AstAndDef) : ∀ (xs : List Selection) (parent : Option TypeDef) (a : AstAndDef),
    a ∈ specFieldsWith s sp parent xs → (∃ nm, a ∈ sp nm) ∨ FieldIn (traverseSelections xs) a
  | [], _, a, h => by simp [specFieldsWith] at h
  | x :: xs, parent, a, h => by
      simp only [specFieldsWith, List.mem_append] at h
      rcases h with h | h
      · rcases field_traversed_sel s sp x parent a h with h | h
        · exact Or.inl h
        · exact Or.inr (h.mono (fun ev hev => by simp only [traverseSelections, List.mem_append]; exact Or.inl hev))
      · rcases field_traversed_sels s sp xs parent a h with h | h
        · exact Or.inl h
        · exact Or.inr (h.mono (fun ev hev => by simp only [traverseSelections, List.mem_append]; exact Or.inr hev))
end

/-- the values of the map the collector builds from a selection set inside the document are fields of the document -/
theorem fafn_fieldIn (s : Schema) (d : Document) (parent : Option TypeDef) (sel : List Selection) (hin : Incl d sel)
    (a : AstAndDef) (h : FM (fieldsAndFragmentNames s parent sel).1 a) : FieldIn (traverseDocument d) a := by
  unfold fieldsAndFragmentNames at h
  rcases collectSels_fields s sel parent ([], []) a h with h | h
  · obtain ⟨kv, hkv, _⟩ := h; simp at hkv
  · rcases field_traversed_sels s (fun _ => []) sel parent a h with ⟨nm, h⟩ | h
    · simp at h
    · exact h.mono hin

/-! ### the directives of an entered node are entered -/

def Node.dirs : Node → List Directive
  | .operation o => o.dirs
  | .fragmentDef f => f.dirs
  | .field f => f.dirs
  | .spread sp => sp.dirs
  | .inline i => i.dirs
  | _ => []

def DirsIn (L : List Ev) : Prop := ∀ n, Ev.enter n ∈ L → ∀ dir ∈ n.dirs, Ev.enter (.directive dir) ∈ L

theorem DirsIn.nil : DirsIn [] := by intro n h; simp at h
theorem DirsIn.append {a b : List Ev} (ha : DirsIn a) (hb : DirsIn b) : DirsIn (a ++ b) := by
  intro n h dir hdir
  rcases List.mem_append.1 h with h | h
  · exact List.mem_append_left _ (ha n h dir hdir)
  · exact List.mem_append_right _ (hb n h dir hdir)
theorem DirsIn.cons {e : Ev} {t : List Ev} (he : ∀ n, e = .enter n → ∀ dir ∈ n.dirs, Ev.enter (.directive dir) ∈ t)
    (ht : DirsIn t) : DirsIn (e :: t) := by
  intro n h dir hdir
  rcases List.mem_cons.1 h with h | h
  · exact List.mem_cons_of_mem _ (he n h.symm dir hdir)
  · exact List.mem_cons_of_mem _ (ht n h dir hdir)
/-- lists of events of nodes that carry no directives -/
theorem DirsIn.of_none {l : List Ev} (h : ∀ n, Ev.enter n ∈ l → n.dirs = []) : DirsIn l := by
  intro n hm dir hdir; rw [h n hm] at hdir; cases hdir

theorem nodirs_of_level {n : Node} (h : n.level ≤ 2) : n.dirs = [] := by
  cases n <;> simp [Node.level] at h <;> rfl

theorem dirsIn_arguments (as : List Arg) : DirsIn (traverseArguments as) :=
  DirsIn.of_none (fun n hm => nodirs_of_level (by have := below_arguments as _ hm; simp only [Ev.node] at this; omega))
theorem dirsIn_directives (ds : List Directive) : DirsIn (traverseDirectives ds) :=
  DirsIn.of_none (fun n hm => nodirs_of_level (by have := below_directives ds _ hm; simpa only [Ev.node] using this))

theorem directive_mem_traverse : ∀ (ds : List Directive) (dir : Directive), dir ∈ ds → Ev.enter (.directive dir) ∈ traverseDirectives ds
  | [], _, h => by simp at h
  | x :: xs, dir, h => by
      simp only [traverseDirectives, List.cons_append, List.mem_cons, List.mem_append]
      rcases List.mem_cons.1 h with rfl | h
      · left; rfl
      · right; right; exact directive_mem_traverse xs dir h

mutual
theorem dirsIn_selection : ∀ x : Selection, DirsIn (traverseSelection x)
  | .field pos alias name args dirs sel => by
      simp only [traverseSelection]
      refine DirsIn.cons ?_ (DirsIn.append (DirsIn.append (DirsIn.append (dirsIn_arguments args) (dirsIn_directives dirs)) ?_)
        (DirsIn.cons (by intro n h; cases h) DirsIn.nil))
      · intro n h dir hdir
        cases h
        simp only [List.append_eq, List.mem_append]
        left; left; right; exact directive_mem_traverse dirs dir hdir
      · exact DirsIn.cons (by intro n h dir hdir; cases h; cases hdir)
          (DirsIn.append (dirsIn_selections sel) (DirsIn.cons (by intro n h; cases h) DirsIn.nil))
  | .spread pos name dirs => by
      simp only [traverseSelection]
      refine DirsIn.cons ?_ (DirsIn.append (dirsIn_directives dirs) (DirsIn.cons (by intro n h; cases h) DirsIn.nil))
      intro n h dir hdir
      cases h
      exact List.mem_append_left _ (directive_mem_traverse dirs dir hdir)
  | .inline pos tc dirs sel => by
      simp only [traverseSelection]
      refine DirsIn.cons ?_ (DirsIn.append (DirsIn.append (dirsIn_directives dirs) ?_) (DirsIn.cons (by intro n h; cases h) DirsIn.nil))
      · intro n h dir hdir
        cases h
        simp only [List.append_eq, List.mem_append]
        left; left; exact directive_mem_traverse dirs dir hdir
      · exact DirsIn.cons (by intro n h dir hdir; cases h; cases hdir)
          (DirsIn.append (dirsIn_selections sel) (DirsIn.cons (by intro n h; cases h) DirsIn.nil))
theorem dirsIn_selections : ∀ xs : List Selection, DirsIn (traverseSelections xs)
  | [] => by simp only [traverseSelections]; exact DirsIn.nil
  | x :: xs => by simp only [traverseSelections]; exact DirsIn.append (dirsIn_selection x) (dirsIn_selections xs)
end

theorem dirsIn_varDefs (vs : List VarDef) : DirsIn (traverseVarDefs vs) := by
  apply DirsIn.of_none
  intro n hm
  induction vs with
  | nil => simp [traverseVarDefs] at hm
  | cons v vs ih =>
    simp only [traverseVarDefs, List.cons_append, List.mem_cons, List.mem_append] at hm
    rcases hm with hm | (hm | hm) | hm
    · cases hm; rfl
    · cases hv : v.default with
      | none => rw [hv] at hm; simp at hm
      | some dv =>
        rw [hv] at hm
        exact nodirs_of_level (by have := below_value dv _ hm; simp only [Ev.node] at this; omega)
    · simp at hm
    · exact ih hm

theorem dirsIn_selectionSet (sel : List Selection) : DirsIn (traverseSelectionSet sel) := by
  simp only [traverseSelectionSet]
  exact DirsIn.cons (by intro n h dir hdir; cases h; cases hdir)
    (DirsIn.append (dirsIn_selections sel) (DirsIn.cons (by intro n h; cases h) DirsIn.nil))

theorem dirsIn_definition : ∀ x : Definition, DirsIn (traverseDefinition x)
  | .frag f => by
      simp only [traverseDefinition]
      refine DirsIn.cons ?_ (DirsIn.append (DirsIn.append (dirsIn_directives f.dirs) (dirsIn_selectionSet f.sel))
        (DirsIn.cons (by intro n h; cases h) DirsIn.nil))
      intro n h dir hdir
      cases h
      simp only [List.append_eq, List.mem_append]
      left; left; exact directive_mem_traverse f.dirs dir hdir
  | .op o => by
      simp only [traverseDefinition]
      refine DirsIn.cons ?_ (DirsIn.append (DirsIn.append (DirsIn.append (dirsIn_directives o.dirs) (dirsIn_varDefs o.vars))
        (dirsIn_selectionSet o.sel)) (DirsIn.cons (by intro n h; cases h) DirsIn.nil))
      intro n h dir hdir
      cases h
      simp only [List.append_eq, List.mem_append]
      left; left; left; exact directive_mem_traverse o.dirs dir hdir

theorem dirsIn_definitions : ∀ ds : List Definition, DirsIn (traverseDefinitions ds)
  | [] => by simp only [traverseDefinitions]; exact DirsIn.nil
  | x :: xs => by simp only [traverseDefinitions]; exact DirsIn.append (dirsIn_definition x) (dirsIn_definitions xs)

theorem dirsIn_document (d : Document) : DirsIn (traverseDocument d) := by
  simp only [traverseDocument]
  exact DirsIn.cons (by intro n h dir hdir; cases h; cases hdir)
    (DirsIn.append (dirsIn_definitions d) (DirsIn.cons (by intro n h; cases h) DirsIn.nil))

end Gql
