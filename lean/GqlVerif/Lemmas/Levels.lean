/-
  Lemmas/Levels.lean — which kinds of node occur in which part of a traversal: values < arguments
  < directives < selections < variable definitions < definitions < document.
-/
import GqlVerif.Lemmas.TraverseMem
namespace Gql

def Node.level : Node → Nat
  | .nullValue | .scalar _ | .enumValue _ | .variable _ | .list _ | .object _ | .objectField _ => 0
  | .argument _ => 1
  | .directive _ => 2
  | .selectionSet _ | .field _ | .spread _ | .inline _ => 3
  | .varDef _ => 4
  | .operation _ | .fragmentDef _ => 5
  | .document _ => 6

/-- every node of the list is at level `n` or below -/
def Below (n : Nat) (l : List Ev) : Prop := ∀ e ∈ l, e.node.level ≤ n

theorem Below.nil {n : Nat} : Below n [] := by simp [Below]
theorem Below.append {n : Nat} {a b : List Ev} (ha : Below n a) (hb : Below n b) : Below n (a ++ b) := by
  intro e he; rcases List.mem_append.1 he with h | h; exact ha e h; exact hb e h
theorem Below.cons {n : Nat} {e : Ev} {l : List Ev} (he : e.node.level ≤ n) (hl : Below n l) : Below n (e :: l) := by
  intro x hx; rcases List.mem_cons.1 hx with rfl | h; exact he; exact hl x h
theorem Below.mono {n m : Nat} {l : List Ev} (h : Below n l) (hnm : n ≤ m) : Below m l :=
  fun e he => Nat.le_trans (h e he) hnm

mutual
theorem below_value : ∀ v, Below 0 (traverseValue v)
  | .bool _ | .float _ | .int _ | .str _ | .null | .enum _ | .var _ => by
      simp [traverseValue, Below, Ev.node, Node.level]
  | .list vs => by
      simp only [traverseValue]
      exact Below.cons (by simp [Ev.node, Node.level]) (Below.append (below_values vs) (Below.cons (by simp [Ev.node, Node.level]) Below.nil))
  | .obj fs => by
      simp only [traverseValue]
      exact Below.cons (by simp [Ev.node, Node.level]) (Below.append (below_objFields fs) (Below.cons (by simp [Ev.node, Node.level]) Below.nil))
theorem below_values : ∀ vs, Below 0 (traverseValues vs)
  | [] => by simp [traverseValues, Below]
  | v :: vs => by simp only [traverseValues]; exact (below_value v).append (below_values vs)
theorem below_objFields : ∀ fs, Below 0 (traverseObjFields fs)
  | [] => by simp [traverseObjFields, Below]
  | (k, v) :: fs => by
      simp only [traverseObjFields]
      exact Below.append (Below.cons (by simp [Ev.node, Node.level]) (Below.append (below_value v) (Below.cons (by simp [Ev.node, Node.level]) Below.nil))) (below_objFields fs)
end

theorem below_arguments : ∀ as, Below 1 (traverseArguments as)
  | [] => by simp [traverseArguments, Below]
  | a :: as => by
      simp only [traverseArguments]
      exact Below.append (Below.cons (by simp [Ev.node, Node.level]) (Below.append ((below_value a.2).mono (by omega))
        (Below.cons (by simp [Ev.node, Node.level]) Below.nil))) (below_arguments as)

theorem below_directives : ∀ ds, Below 2 (traverseDirectives ds)
  | [] => by simp [traverseDirectives, Below]
  | d :: ds => by
      simp only [traverseDirectives]
      exact Below.append (Below.cons (by simp [Ev.node, Node.level]) (Below.append ((below_arguments d.args).mono (by omega))
        (Below.cons (by simp [Ev.node, Node.level]) Below.nil))) (below_directives ds)

mutual
theorem below_selection : ∀ x, Below 3 (traverseSelection x)
  | .field pos alias name args dirs sel => by
      simp only [traverseSelection]
      exact Below.cons (by simp [Ev.node, Node.level]) (Below.append (Below.append (Below.append
        ((below_arguments args).mono (by omega)) ((below_directives dirs).mono (by omega)))
        (Below.cons (by simp [Ev.node, Node.level]) (Below.append (below_selections sel) (Below.cons (by simp [Ev.node, Node.level]) Below.nil))))
        (Below.cons (by simp [Ev.node, Node.level]) Below.nil))
  | .spread pos name dirs => by
      simp only [traverseSelection]
      exact Below.cons (by simp [Ev.node, Node.level]) (Below.append ((below_directives dirs).mono (by omega))
        (Below.cons (by simp [Ev.node, Node.level]) Below.nil))
  | .inline pos tc dirs sel => by
      simp only [traverseSelection]
      exact Below.cons (by simp [Ev.node, Node.level]) (Below.append (Below.append ((below_directives dirs).mono (by omega))
        (Below.cons (by simp [Ev.node, Node.level]) (Below.append (below_selections sel) (Below.cons (by simp [Ev.node, Node.level]) Below.nil))))
        (Below.cons (by simp [Ev.node, Node.level]) Below.nil))
theorem below_selections : ∀ xs, Below 3 (traverseSelections xs)
  | [] => by simp [traverseSelections, Below]
  | x :: xs => by simp only [traverseSelections]; exact (below_selection x).append (below_selections xs)
end

theorem below_selectionSet (sel : List Selection) : Below 3 (traverseSelectionSet sel) := by
  simp only [traverseSelectionSet]
  exact Below.cons (by simp [Ev.node, Node.level]) (Below.append (below_selections sel) (Below.cons (by simp [Ev.node, Node.level]) Below.nil))

/-- a projection that is silent at and below level `n` yields nothing on such a list -/
theorem Below.filterMap_nil {β : Type} {n : Nat} {l : List Ev} (h : Below n l) (π : Ev → Option β)
    (hπ : ∀ e, e.node.level ≤ n → π e = none) : l.filterMap π = [] := by
  rw [List.filterMap_eq_nil_iff]
  intro e he
  exact hπ e (h e he)

end Gql
