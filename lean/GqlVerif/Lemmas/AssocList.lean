/-
  Lemmas/AssocList.lean — lookup lemmas for the association-list model of `HashMap`.
-/
import GqlVerif.Model.Rules.Basic
namespace Gql

variable {κ ν : Type} [DecidableEq κ]

@[simp] theorem alGet_nil (k : κ) : alGet ([] : List (κ × ν)) k = none := rfl

theorem alGet_cons (a : κ) (v : ν) (m : List (κ × ν)) (k : κ) :
    alGet ((a, v) :: m) k = if a = k then some v else alGet m k := by
  unfold alGet
  simp only [List.find?_cons]
  by_cases h : a = k <;> simp [h]

theorem alGet_map_update (m : List (κ × ν)) (k0 k : κ) (g : ν → ν) :
    alGet (m.map fun p => if p.1 = k0 then (k0, g p.2) else p) k
      = if k = k0 then (alGet m k0).map g else alGet m k := by
  induction m with
  | nil => simp
  | cons p ps ih =>
    obtain ⟨a, v⟩ := p
    simp only [List.map_cons]
    by_cases ha : a = k0
    · subst ha
      simp only [if_true, alGet_cons, ih]
      by_cases hk : a = k
      · subst hk; simp
      · have : ¬ k = a := fun h => hk h.symm
        simp [hk, this]
    · simp only [ha, if_false, alGet_cons, ih]
      by_cases hk : a = k
      · subst hk; simp [ha]
      · simp [hk]

theorem alGet_isSome_iff_any (m : List (κ × ν)) (k : κ) :
    (alGet m k).isSome = m.any (fun p => decide (p.1 = k)) := by
  induction m with
  | nil => simp
  | cons p ps ih =>
    obtain ⟨a, v⟩ := p
    simp only [alGet_cons, List.any_cons]
    by_cases h : a = k <;> simp [h, ih]

theorem alGet_append_single (m : List (κ × ν)) (k0 k : κ) (v : ν) :
    alGet (m ++ [(k0, v)]) k = match alGet m k with | some x => some x | none => if k0 = k then some v else none := by
  induction m with
  | nil => simp [alGet_cons]
  | cons p ps ih =>
    obtain ⟨a, w⟩ := p
    simp only [List.cons_append, alGet_cons, ih]
    by_cases h : a = k <;> simp [h]

theorem alGet_alUpdate (m : List (κ × ν)) (k0 k : κ) (dflt : ν) (f : ν → ν) :
    alGet (alUpdate m k0 dflt f) k = if k = k0 then some (f ((alGet m k0).getD dflt)) else alGet m k := by
  unfold alUpdate
  have hany := alGet_isSome_iff_any m k0
  by_cases h : m.any (fun p => decide (p.1 = k0)) = true
  · simp only [h, if_true, alGet_map_update]
    rw [h] at hany
    obtain ⟨x, hx⟩ := Option.isSome_iff_exists.1 hany
    by_cases hk : k = k0 <;> simp [hk, hx]
  · have h' : m.any (fun p => decide (p.1 = k0)) = false := Bool.eq_false_iff.2 h
    simp only [h', Bool.false_eq_true, if_false, alGet_append_single]
    rw [h'] at hany
    have hnone : alGet m k0 = none := by
      cases hg : alGet m k0 with
      | none => rfl
      | some x => rw [hg] at hany; simp at hany
    by_cases hk : k = k0
    · subst hk; simp [hnone]
    · have : ¬ k0 = k := fun h => hk h.symm
      simp only [hk, if_false, this]
      cases alGet m k <;> rfl

theorem alGet_alInsert (m : List (κ × ν)) (k0 k : κ) (v : ν) :
    alGet (alInsert m k0 v) k = if k = k0 then some v else alGet m k := by
  unfold alInsert
  have hany := alGet_isSome_iff_any m k0
  by_cases h : m.any (fun p => decide (p.1 = k0)) = true
  · simp only [h, if_true]
    rw [alGet_map_update m k0 k (fun _ => v)]
    rw [h] at hany
    obtain ⟨x, hx⟩ := Option.isSome_iff_exists.1 hany
    by_cases hk : k = k0 <;> simp [hk, hx]
  · have h' : m.any (fun p => decide (p.1 = k0)) = false := Bool.eq_false_iff.2 h
    simp only [h', Bool.false_eq_true, if_false, alGet_append_single]
    rw [h'] at hany
    have hnone : alGet m k0 = none := by
      cases hg : alGet m k0 with
      | none => rfl
      | some x => rw [hg] at hany; simp at hany
    by_cases hk : k = k0
    · subst hk; simp [hnone]
    · have : ¬ k0 = k := fun h => hk h.symm
      simp only [hk, if_false, this]
      cases alGet m k <;> rfl

end Gql

namespace Gql
variable {κ ν : Type} [DecidableEq κ]

def alKeys (m : List (κ × ν)) : List κ := m.map (·.1)

theorem any_key_iff_mem (m : List (κ × ν)) (k : κ) :
    m.any (fun p => decide (p.1 = k)) = true ↔ k ∈ alKeys m := by
  simp only [alKeys, List.any_eq_true, decide_eq_true_eq, List.mem_map]

theorem alKeys_alUpdate (m : List (κ × ν)) (k : κ) (dflt : ν) (f : ν → ν) :
    alKeys (alUpdate m k dflt f) = if k ∈ alKeys m then alKeys m else alKeys m ++ [k] := by
  unfold alUpdate
  by_cases h : m.any (fun p => decide (p.1 = k)) = true
  · have hk := (any_key_iff_mem m k).1 h
    simp only [h, if_true, hk]
    unfold alKeys
    rw [List.map_map]
    apply List.map_congr_left
    intro p _
    simp only [Function.comp]
    split <;> simp_all
  · have hk : k ∉ alKeys m := fun hm => h ((any_key_iff_mem m k).2 hm)
    have h' : m.any (fun p => decide (p.1 = k)) = false := Bool.eq_false_iff.2 h
    have hk' : k ∉ List.map (fun x => x.fst) m := hk
    simp [h', alKeys, hk']

theorem alGet_of_mem (m : List (κ × ν)) (hn : (alKeys m).Nodup) (k : κ) (v : ν) (h : (k, v) ∈ m) :
    alGet m k = some v := by
  induction m with
  | nil => simp at h
  | cons p ps ih =>
    obtain ⟨a, w⟩ := p
    simp only [alKeys, List.map_cons, List.nodup_cons] at hn
    simp only [List.mem_cons, Prod.mk.injEq] at h
    rw [alGet_cons]
    rcases h with ⟨rfl, rfl⟩ | h
    · simp
    · have : a ≠ k := by
        intro hak; subst hak
        exact hn.1 (List.mem_map.2 ⟨(a, v), h, rfl⟩)
      simp only [this, if_false]
      exact ih hn.2 h

theorem nodup_length_gt_one {α : Type} (l : List α) (hn : l.Nodup) :
    1 < l.length ↔ ∃ a ∈ l, ∃ b ∈ l, a ≠ b := by
  constructor
  · intro h
    match l, hn, h with
    | a :: b :: rest, hn, _ =>
      simp only [List.nodup_cons, List.mem_cons, not_or] at hn
      exact ⟨a, by simp, b, by simp, hn.1.1⟩
  · rintro ⟨a, ha, b, hb, hab⟩
    match l, ha, hb with
    | [], ha, _ => simp at ha
    | [x], ha, hb =>
      simp only [List.mem_singleton] at ha hb
      exact absurd (ha.trans hb.symm) hab
    | _ :: _ :: _, _, _ => simp

end Gql
