/-
  Lemmas/AssocList.lean — lookup lemmas for the association-list model of `HashMap`.
-/
import GqlVerif.Model.Rules.Basic
namespace Gql

variable {κ ν : Type} [DecidableEq κ]

@[simp] theorem alGet_nil (k : κ) : alGet ([] : List (κ × ν)) k = none := rfl

theorem alGet_cons (a : κ) (v : ν) (m : List (κ × ν)) (k : κ) :
    alGet ((a, v) :: m) k = if a = k then some v else alGet m k := by
  unfold alGet
  simp only [List.find?_cons]
  by_cases h : a = k <;> simp [h]

theorem alGet_map_update (m : List (κ × ν)) (k0 k : κ) (g : ν → ν) :
    alGet (m.map fun p => if p.1 = k0 then (k0, g p.2) else p) k
      = if k = k0 then (alGet m k0).map g else alGet m k := by
  induction m with
  | nil => simp
  | cons p ps ih =>
    obtain ⟨a, v⟩ := p
    simp only [List.map_cons]
    by_cases ha : a = k0
    · subst ha
      simp only [if_true, alGet_cons, ih]
      by_cases hk : a = k
      · subst hk; simp
      · have : ¬ k = a := fun h => hk h.symm
        simp [hk, this]
    · simp only [ha, if_false, alGet_cons, ih]
      by_cases hk : a = k
      · subst hk; simp [ha]
      · simp [hk]

theorem alGet_isSome_iff_any (m : List (κ × ν)) (k : κ) :
    (alGet m k).isSome = m.any (fun p => decide (p.1 = k)) := by
  induction m with
  | nil => simp
  | cons p ps ih =>
    obtain ⟨a, v⟩ := p
    simp only [alGet_cons, List.any_cons]
    by_cases h : a = k <;> simp [h, ih]

theorem alGet_append_single (m : List (κ × ν)) (k0 k : κ) (v : ν) :
    alGet (m ++ [(k0, v)]) k = match alGet m k with | some x => some x | none => if k0 = k then some v else none := by
  induction m with
  | nil => simp [alGet_cons]
  | cons p ps ih =>
    obtain ⟨a, w⟩ := p
    simp only [List.cons_append, alGet_cons, ih]
    by_cases h : a = k <;> simp [h]

theorem alGet_alUpdate (m : List (κ × ν)) (k0 k : κ) (dflt : ν) (f : ν → ν) :
    alGet (alUpdate m k0 dflt f) k = if k = k0 then some (f ((alGet m k0).getD dflt)) else alGet m k := by
  unfold alUpdate
  have hany := alGet_isSome_iff_any m k0
  by_cases h : m.any (fun p => decide (p.1 = k0)) = true
  · simp only [h, if_true, alGet_map_update]
    rw [h] at hany
    obtain ⟨x, hx⟩ := Option.isSome_iff_exists.1 hany
    by_cases hk : k = k0 <;> simp [hk, hx]
  · have h' : m.any (fun p => decide (p.1 = k0)) = false := Bool.eq_false_iff.2 h
    simp only [h', Bool.false_eq_true, if_false, alGet_append_single]
    rw [h'] at hany
    have hnone : alGet m k0 = none := by
      cases hg : alGet m k0 with
      | none => rfl
      | some x => rw [hg] at hany; simp at hany
    by_cases hk : k = k0
    · subst hk; simp [hnone]
    · have : ¬ k0 = k := fun h => hk h.symm
      simp only [hk, if_false, this]
      cases alGet m k <;> rfl

theorem alGet_alInsert (m : List (κ × ν)) (k0 k : κ) (v : ν) :
    alGet (alInsert m k0 v) k = if k = k0 then some v else alGet m k := by
  unfold alInsert
  have hany := alGet_isSome_iff_any m k0
  by_cases h : m.any (fun p => decide (p.1 = k0)) = true
  · simp only [h, if_true]
    rw [alGet_map_update m k0 k (fun _ => v)]
    rw [h] at hany
    obtain ⟨x, hx⟩ := Option.isSome_iff_exists.1 hany
    by_cases hk : k = k0 <;> simp [hk, hx]
  · have h' : m.any (fun p => decide (p.1 = k0)) = false := Bool.eq_false_iff.2 h
    simp only [h', Bool.false_eq_true, if_false, alGet_append_single]
    rw [h'] at hany
    have hnone : alGet m k0 = none := by
      cases hg : alGet m k0 with
      | none => rfl
      | some x => rw [hg] at hany; simp at hany
    by_cases hk : k = k0
    · subst hk; simp [hnone]
    · have : ¬ k0 = k := fun h => hk h.symm
      simp only [hk, if_false, this]
      cases alGet m k <;> rfl

end Gql
