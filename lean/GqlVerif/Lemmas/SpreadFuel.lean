/-
  Lemmas/SpreadFuel.lean — the spread fuel of the executable spec is enough on documents whose
  fragment spreads form no cycle: following more than `#fragments + 1` nested spreads adds nothing
  to the fields a selection set collects (`specFields_stable`).  Pigeonhole on the names of the
  defined fragments.
-/
import GqlVerif.Lemmas.MergeRel
import GqlVerif.Lemmas.FragGraph
namespace Gql
open Gql.Spec

/-! ### the spreads a collection follows from a selection set (through inline fragments, not fields) -/

mutual
def topSpreadsSel : Selection → List Name
  | .field _ _ _ _ _ _ => []
  | .spread _ nm _ => [nm]
  | .inline _ _ _ sel => topSpreads sel
def topSpreads : List Selection → List Name
  | [] => []
  | x :: xs => topSpreadsSel x ++ topSpreads xs
end

mutual
theorem specFieldsSelWith_congr (s : Schema) (sp1 sp2 : Name → List AstAndDef) : ∀ (x : Selection) (parent : Option TypeDef),
    (∀ nm ∈ topSpreadsSel x, sp1 nm = sp2 nm) → specFieldsSelWith s sp1 parent x = specFieldsSelWith s sp2 parent x
  | .field _ _ _ _ _ _, _, _ => by simp [specFieldsSelWith]
  | .spread _ nm _, _, h => by simpa [specFieldsSelWith] using h nm (by simp [topSpreadsSel])
  | .inline _ tc _ sel, parent, h => by
      simp only [specFieldsSelWith]
      exact specFieldsWith_congr s sp1 sp2 sel _ (fun nm hnm => h nm (by simpa [topSpreadsSel] using hnm))
theorem specFieldsWith_congr (s : Schema) (sp1 sp2 : Name → List AstAndDef) : ∀ (xs : List Selection) (parent : Option TypeDef),
    (∀ nm ∈ topSpreads xs, sp1 nm = sp2 nm) → specFieldsWith s sp1 parent xs = specFieldsWith s sp2 parent xs
  | [], _, _ => by simp [specFieldsWith]
  | x :: xs, parent, h => by
      simp only [specFieldsWith]
      rw [specFieldsSelWith_congr s sp1 sp2 x parent (fun nm hnm => h nm (by simp [topSpreads, hnm])),
        specFieldsWith_congr s sp1 sp2 xs parent (fun nm hnm => h nm (by simp [topSpreads, hnm]))]
end

mutual
/-- the spreads a collection follows are spreads of the selection set -/
theorem topSpreadsSel_sub : ∀ (x : Selection) (nm : Name), nm ∈ topSpreadsSel x → nm ∈ (recursiveSpreadsSel x).map (·.name)
  | .field _ _ _ _ _ _, _, h => by simp [topSpreadsSel] at h
  | .spread _ n _, nm, h => by simpa [topSpreadsSel, recursiveSpreadsSel] using h
  | .inline _ _ _ sel, nm, h => by
      simp only [topSpreadsSel] at h
      simpa [recursiveSpreadsSel] using topSpreads_sub sel nm h
theorem topSpreads_sub : ∀ (xs : List Selection) (nm : Name), nm ∈ topSpreads xs → nm ∈ (recursiveSpreads xs).map (·.name)
  | [], _, h => by simp [topSpreads] at h
  | x :: xs, nm, h => by
      simp only [topSpreads, List.mem_append] at h
      simp only [recursiveSpreads, List.map_append, List.mem_append]
      rcases h with h | h
      · exact Or.inl (topSpreadsSel_sub x nm h)
      · exact Or.inr (topSpreads_sub xs nm h)
end

/-- the successor relation the expansion of spreads follows -/
def expandSucc (d : Document) (nm : Name) : List Name :=
  match d.fragByName nm with
  | some fr => topSpreads fr.sel
  | none => []

/-- every chain of `succ` edges from `nm` has at most `k` edges -/
def ChainBound (succ : Name → List Name) : Nat → Name → Prop
  | 0, nm => succ nm = []
  | k + 1, nm => ∀ nm' ∈ succ nm, ChainBound succ k nm'

theorem ChainBound.mono {succ : Name → List Name} : ∀ {k : Nat} {nm : Name}, ChainBound succ k nm → ChainBound succ (k + 1) nm
  | 0, nm, h => by
      intro nm' hnm'
      simp only [ChainBound] at h
      rw [h] at hnm'; cases hnm'
  | k + 1, nm, h => fun nm' hnm' => ChainBound.mono (h nm' hnm')

/-- with a bound on the chains, more spread fuel changes nothing -/
theorem spreadFields_stable (s : Schema) (d : Document) : ∀ (k : Nat) (nm : Name), ChainBound (expandSucc d) k nm →
    ∀ m, k + 1 ≤ m → spreadFields s d m nm = spreadFields s d (k + 1) nm
  | k, nm, hb, m, hm => by
      obtain ⟨m', rfl⟩ : ∃ m', m = m' + 1 := ⟨m - 1, by omega⟩
      cases hf : d.fragByName nm with
      | none => rw [spreadFields_succ_none s d m' nm hf, spreadFields_succ_none s d k nm hf]
      | some fr =>
        rw [spreadFields_succ_some s d m' nm fr hf, spreadFields_succ_some s d k nm fr hf]
        apply specFieldsWith_congr
        intro nm' hnm'
        have hs : nm' ∈ expandSucc d nm := by simp [expandSucc, hf, hnm']
        match k, hb with
        | 0, hb =>
          simp only [ChainBound] at hb
          rw [hb] at hs; cases hs
        | k + 1, hb =>
          have hb' : ChainBound (expandSucc d) k nm' := hb nm' hs
          rw [spreadFields_stable s d k nm' hb' m' (by omega)]

/-! ### acyclic spread graphs have short chains -/

/-- a successor function that follows spreads of defined fragments only -/
structure SpreadSucc (d : Document) (succ : Name → List Name) : Prop where
  sub : ∀ a b, b ∈ succ a → b ∈ spreadsOf d a
  defined : ∀ a, succ a ≠ [] → a ∈ d.fragments.map (·.name)

/-- a chain of `succ` edges: `a` followed by `rest` -/
def IsChain (succ : Name → List Name) : Name → List Name → Prop
  | _, [] => True
  | a, b :: rest => b ∈ succ a ∧ IsChain succ b rest

theorem reach_of_chain (d : Document) (succ : Name → List Name) (hs : SpreadSucc d succ) : ∀ (a : Name) (rest : List Name),
    IsChain succ a rest → ∀ c ∈ rest, Reachable (spreadsOf d) a c
  | _, [], _, c, hc => by cases hc
  | a, b :: rest, h, c, hc => by
      obtain ⟨h1, h2⟩ := h
      have hab : b ∈ spreadsOf d a := hs.sub a b h1
      rcases List.mem_cons.1 hc with rfl | hc
      · exact .step hab (.refl _)
      · exact .step hab (reach_of_chain d succ hs b rest h2 c hc)

/-- in a chain of an acyclic graph no name occurs twice (counting the start) -/
theorem chain_nodup (d : Document) (succ : Name → List Name) (hs : SpreadSucc d succ) (hac : ¬ FragmentCycle d) :
    ∀ (a : Name) (rest : List Name), IsChain succ a rest → (a :: rest).Nodup
  | a, [], _ => by simp
  | a, b :: rest, h => by
      obtain ⟨h1, h2⟩ := h
      have ih := chain_nodup d succ hs hac b rest h2
      rw [List.nodup_cons]
      refine ⟨?_, ih⟩
      intro hmem
      have hab : b ∈ spreadsOf d a := hs.sub a b h1
      apply hac
      refine ⟨a, b, hab, ?_⟩
      rcases List.mem_cons.1 hmem with rfl | hmem
      · exact .refl _
      · exact reach_of_chain d succ hs b rest h2 a hmem

/-- every name of a chain but possibly the last is the name of a defined fragment -/
theorem chain_defined (d : Document) (succ : Name → List Name) (hs : SpreadSucc d succ) : ∀ (a : Name) (rest : List Name),
    IsChain succ a rest → rest ≠ [] → ∀ c ∈ (a :: rest).dropLast, c ∈ d.fragments.map (·.name)
  | a, [], _, hne, _, _ => absurd rfl hne
  | a, [b], h, _, c, hc => by
      simp only [List.dropLast, List.mem_singleton] at hc
      subst hc
      exact hs.defined c (fun e => by have h1 := h.1; rw [e] at h1; cases h1)
  | a, b :: b' :: rest, h, _, c, hc => by
      obtain ⟨h1, h2⟩ := h
      simp only [List.dropLast, List.mem_cons] at hc
      rcases hc with rfl | hc
      · exact hs.defined c (fun e => by rw [e] at h1; cases h1)
      · exact chain_defined d succ hs b (b' :: rest) h2 (by simp) c (by simpa [List.dropLast] using hc)

/-- hence a chain has at most `#fragments` edges -/
theorem chain_short (d : Document) (succ : Name → List Name) (hs : SpreadSucc d succ) (hac : ¬ FragmentCycle d)
    (a : Name) (rest : List Name) (h : IsChain succ a rest) : rest.length ≤ d.fragments.length := by
  by_cases hne : rest = []
  · subst hne; simp
  · have hnd := chain_nodup d succ hs hac a rest h
    have hsub := chain_defined d succ hs a rest h hne
    have hnd' : ((a :: rest).dropLast).Nodup := hnd.sublist (List.dropLast_sublist _)
    have := hnd'.length_le_of_subset (fun c hc => hsub c hc)
    simp only [List.length_dropLast, List.length_cons, List.length_map] at this
    omega

/-- chains bounded in length give `ChainBound` -/
theorem chainBound_of_short (succ : Name → List Name) : ∀ (k : Nat) (a : Name),
    (∀ rest, IsChain succ a rest → rest.length ≤ k) → ChainBound succ k a
  | 0, a, h => by
      simp only [ChainBound]
      cases hs : succ a with
      | nil => rfl
      | cons b bs =>
        have := h [b] ⟨by rw [hs]; simp, trivial⟩
        simp at this
  | k + 1, a, h => by
      intro b hb
      apply chainBound_of_short succ k b
      intro rest hrest
      have := h (b :: rest) ⟨hb, hrest⟩
      simp only [List.length_cons] at this
      omega

/-- in an acyclic document every chain of spreads of defined fragments has at most `#fragments` edges -/
theorem chainBound_acyclic (d : Document) (succ : Name → List Name) (hs : SpreadSucc d succ) (hac : ¬ FragmentCycle d) (nm : Name) :
    ChainBound succ d.fragments.length nm :=
  chainBound_of_short succ _ nm (fun rest h => chain_short d succ hs hac nm rest h)

theorem fragByName_name (d : Document) (nm : Name) (fr : FragDef) (h : d.fragByName nm = some fr) :
    fr ∈ d.fragments ∧ fr.name = nm := by
  unfold Document.fragByName at h
  exact ⟨List.mem_reverse.1 (List.mem_of_find?_eq_some h), by simpa using List.find?_some h⟩

theorem expandSucc_spreadSucc (d : Document) : SpreadSucc d (expandSucc d) where
  sub := by
    intro a b h
    unfold expandSucc at h
    cases hf : d.fragByName a with
    | none => rw [hf] at h; cases h
    | some fr =>
      rw [hf] at h
      obtain ⟨hm, hnm⟩ := fragByName_name d a fr hf
      unfold spreadsOf
      simp only [List.mem_flatMap, List.mem_filter, beq_iff_eq]
      exact ⟨fr, ⟨hm, hnm⟩, topSpreads_sub fr.sel b h⟩
  defined := by
    intro a h
    unfold expandSucc at h
    cases hf : d.fragByName a with
    | none => rw [hf] at h; exact absurd rfl h
    | some fr =>
      obtain ⟨hm, hnm⟩ := fragByName_name d a fr hf
      exact List.mem_map.2 ⟨fr, hm, hnm⟩

/-- **the spread fuel of the spec is enough**: on a document with unique fragment names and no
    fragment cycle, following more than `#fragments + 1` nested spreads adds nothing -/
theorem specFields_stable (s : Schema) (d : Document) (hac : ¬ FragmentCycle d)
    (parent : Option TypeDef) (sel : List Selection) (m : Nat) (hm : spreadFuelOf d ≤ m) :
    specFields s d m parent sel = specFields s d (spreadFuelOf d) parent sel := by
  unfold specFields
  apply specFieldsWith_congr
  intro nm _
  have hb := chainBound_acyclic d (expandSucc d) (expandSucc_spreadSucc d) hac nm
  unfold spreadFuelOf at hm ⊢
  exact spreadFields_stable s d _ nm hb m hm

end Gql
