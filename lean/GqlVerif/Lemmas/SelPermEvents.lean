/-
  Lemmas/SelPermEvents.lean — reordering selections and the walk, for EVERY callback: each callback
  of the one document has a counterpart in the other with the same type environment and the same
  node up to the order of the selections below it (`ev_doc_rel`).
-/
import GqlVerif.Lemmas.SelPermFinal
namespace Gql
open Gql.Spec

/-- the same node, up to the order of the selections below it -/
inductive NodeRel : Node → Node → Prop
  | same (n : Node) : NodeRel n n
  | field (f : FieldNode) {sel' : List Selection} : SelsEq f.sel sel' → NodeRel (.field f) (.field { f with sel := sel' })
  | inline (i : InlineNode) {sel' : List Selection} : SelsEq i.sel sel' → NodeRel (.inline i) (.inline { i with sel := sel' })
  | selectionSet {sel sel' : List Selection} : SelsEq sel sel' → NodeRel (.selectionSet sel) (.selectionSet sel')
  | operation (o : Operation) {sel' : List Selection} : SelsEq o.sel sel' → NodeRel (.operation o) (.operation { o with sel := sel' })
  | fragmentDef (f : FragDef) {sel' : List Selection} : SelsEq f.sel sel' → NodeRel (.fragmentDef f) (.fragmentDef { f with sel := sel' })
  | document {d d' : Document} : DocRel d d' → NodeRel (.document d) (.document d')

theorem NodeRel.trans {a b c : Node} (h1 : NodeRel a b) (h2 : NodeRel b c) : NodeRel a c := by
  cases h1 with
  | same => exact h2
  | field f hs =>
    cases h2 with
    | same => exact .field f hs
    | field _ hs2 => exact .field f (.trans hs hs2)
  | inline i hs =>
    cases h2 with
    | same => exact .inline i hs
    | inline _ hs2 => exact .inline i (.trans hs hs2)
  | selectionSet hs =>
    cases h2 with
    | same => exact .selectionSet hs
    | selectionSet hs2 => exact .selectionSet (.trans hs hs2)
  | operation o hs =>
    cases h2 with
    | same => exact .operation o hs
    | operation _ hs2 => exact .operation o (.trans hs hs2)
  | fragmentDef f hs =>
    cases h2 with
    | same => exact .fragmentDef f hs
    | fragmentDef _ hs2 => exact .fragmentDef f (.trans hs hs2)
  | document hd =>
    cases h2 with
    | same => exact .document hd
    | document hd2 => exact .document (.trans hd hd2)

/-- callbacks of the same kind on related nodes -/
inductive EvRel : Ev → Ev → Prop
  | enter {n n' : Node} : NodeRel n n' → EvRel (.enter n) (.enter n')
  | leave {n n' : Node} : NodeRel n n' → EvRel (.leave n) (.leave n')

theorem EvRel.refl : ∀ e : Ev, EvRel e e
  | .enter n => .enter (.same n)
  | .leave n => .leave (.same n)

theorem EvRel.trans {a b c : Ev} (h1 : EvRel a b) (h2 : EvRel b c) : EvRel a c := by
  cases h1 with
  | enter h => cases h2 with | enter h' => exact .enter (h.trans h')
  | leave h => cases h2 with | leave h' => exact .leave (h.trans h')

/-- the callbacks below reordered selections correspond, with the same environment -/
theorem ev_walk_rel (s : Schema) {xs ys : List Selection} (h : SelsEq xs ys) :
    ∀ (e : Snap) (ev : Ev) (env : Snap), (ev, env) ∈ walkSelections s e xs →
      ∃ ev', EvRel ev ev' ∧ (ev', env) ∈ walkSelections s e ys := by
  induction h with
  | refl l => intro e ev env hm; exact ⟨ev, EvRel.refl ev, hm⟩
  | swap x y l =>
    intro e ev env hm
    refine ⟨ev, EvRel.refl ev, ?_⟩
    simp only [walkSelections, List.mem_append] at hm ⊢
    rcases hm with h | h | h
    · exact Or.inr (Or.inl h)
    · exact Or.inl h
    · exact Or.inr (Or.inr h)
  | cons x _ ih =>
    intro e ev env hm
    simp only [walkSelections, List.mem_append] at hm ⊢
    rcases hm with h | h
    · exact ⟨ev, EvRel.refl ev, Or.inl h⟩
    · obtain ⟨ev', hr, hm'⟩ := ih e ev env h
      exact ⟨ev', hr, Or.inr hm'⟩
  | @field pos alias name args dirs sel0 sel0' l hsel ih =>
    intro e ev env hm
    simp only [walkSelections, walkSelection, walkSelectionSetWith, List.cons_append, List.mem_cons, List.mem_append,
      List.not_mem_nil, or_false, or_assoc] at hm ⊢
    rcases hm with h | h | h | h | h | h | h | h
    · obtain ⟨h1, h2⟩ := Prod.mk.inj h
      subst h1
      exact ⟨_, .enter (.field ⟨pos, alias, name, args, dirs, sel0⟩ hsel), Or.inl (by rw [h2])⟩
    · exact ⟨ev, EvRel.refl ev, Or.inr (Or.inl h)⟩
    · exact ⟨ev, EvRel.refl ev, Or.inr (Or.inr (Or.inl h))⟩
    · obtain ⟨h1, h2⟩ := Prod.mk.inj h
      subst h1
      exact ⟨_, .enter (.selectionSet hsel), Or.inr (Or.inr (Or.inr (Or.inl (by rw [h2]))))⟩
    · obtain ⟨ev', hr, hm'⟩ := ih _ ev env h
      exact ⟨ev', hr, Or.inr (Or.inr (Or.inr (Or.inr (Or.inl hm'))))⟩
    · obtain ⟨h1, h2⟩ := Prod.mk.inj h
      subst h1
      exact ⟨_, .leave (.selectionSet hsel), Or.inr (Or.inr (Or.inr (Or.inr (Or.inr (Or.inl (by rw [h2]))))))⟩
    · obtain ⟨h1, h2⟩ := Prod.mk.inj h
      subst h1
      exact ⟨_, .leave (.field ⟨pos, alias, name, args, dirs, sel0⟩ hsel),
        Or.inr (Or.inr (Or.inr (Or.inr (Or.inr (Or.inr (Or.inl (by rw [h2])))))))⟩
    · exact ⟨ev, EvRel.refl ev, Or.inr (Or.inr (Or.inr (Or.inr (Or.inr (Or.inr (Or.inr h))))))⟩
  | @inline pos tc dirs sel0 sel0' l hsel ih =>
    intro e ev env hm
    simp only [walkSelections, walkSelection, walkSelectionSetWith, List.cons_append, List.mem_cons, List.mem_append,
      List.not_mem_nil, or_false, or_assoc] at hm ⊢
    rcases hm with h | h | h | h | h | h | h
    · obtain ⟨h1, h2⟩ := Prod.mk.inj h
      subst h1
      exact ⟨_, .enter (.inline ⟨pos, tc, dirs, sel0⟩ hsel), Or.inl (by rw [h2])⟩
    · exact ⟨ev, EvRel.refl ev, Or.inr (Or.inl h)⟩
    · obtain ⟨h1, h2⟩ := Prod.mk.inj h
      subst h1
      exact ⟨_, .enter (.selectionSet hsel), Or.inr (Or.inr (Or.inl (by rw [h2])))⟩
    · obtain ⟨ev', hr, hm'⟩ := ih _ ev env h
      exact ⟨ev', hr, Or.inr (Or.inr (Or.inr (Or.inl hm')))⟩
    · obtain ⟨h1, h2⟩ := Prod.mk.inj h
      subst h1
      exact ⟨_, .leave (.selectionSet hsel), Or.inr (Or.inr (Or.inr (Or.inr (Or.inl (by rw [h2])))))⟩
    · obtain ⟨h1, h2⟩ := Prod.mk.inj h
      subst h1
      exact ⟨_, .leave (.inline ⟨pos, tc, dirs, sel0⟩ hsel), Or.inr (Or.inr (Or.inr (Or.inr (Or.inr (Or.inl (by rw [h2]))))))⟩
    · exact ⟨ev, EvRel.refl ev, Or.inr (Or.inr (Or.inr (Or.inr (Or.inr (Or.inr h)))))⟩
  | trans _ _ ih1 ih2 =>
    intro e ev env hm
    obtain ⟨ev1, hr1, hm1⟩ := ih1 e ev env hm
    obtain ⟨ev2, hr2, hm2⟩ := ih2 e ev1 env hm1
    exact ⟨ev2, hr1.trans hr2, hm2⟩

theorem ev_set_rel (s : Schema) {xs ys : List Selection} (hxy : SelsEq xs ys) (e : Snap) (ev : Ev) (env : Snap)
    (hm : (ev, env) ∈ walkSelectionSet s e xs) : ∃ ev', EvRel ev ev' ∧ (ev', env) ∈ walkSelectionSet s e ys := by
  simp only [walkSelectionSet, walkSelectionSetWith, List.cons_append, List.mem_cons, List.mem_append, List.not_mem_nil, or_false, or_assoc] at hm ⊢
  rcases hm with h | h | h
  · obtain ⟨h1, h2⟩ := Prod.mk.inj h
    subst h1
    exact ⟨_, .enter (.selectionSet hxy), Or.inl (by rw [h2])⟩
  · obtain ⟨ev', hr, hm'⟩ := ev_walk_rel s hxy _ ev env h
    exact ⟨ev', hr, Or.inr (Or.inl hm')⟩
  · obtain ⟨h1, h2⟩ := Prod.mk.inj h
    subst h1
    exact ⟨_, .leave (.selectionSet hxy), Or.inr (Or.inr (by rw [h2]))⟩

theorem ev_defs_rel (s : Schema) {d d' : Document} (h : DocRel d d') :
    ∀ (ev : Ev) (env : Snap), (ev, env) ∈ d.flatMap (defTrace s) → ∃ ev', EvRel ev ev' ∧ (ev', env) ∈ d'.flatMap (defTrace s) := by
  induction h with
  | refl d => intro ev env hm; exact ⟨ev, EvRel.refl ev, hm⟩
  | op o l hs =>
    intro ev env hm
    simp only [List.flatMap_cons, List.mem_append] at hm ⊢
    rcases hm with h | h
    · simp only [defTrace, walkDefinition] at h ⊢
      generalize rootTypeName s o.kind = r at h ⊢
      cases r with
      | none => simp at h
      | some tn =>
        simp only [Option.map_some, Option.getD_some, List.cons_append, List.mem_cons, List.mem_append, List.not_mem_nil, or_false, or_assoc] at h ⊢
        rcases h with h | h | h | h | h
        · obtain ⟨h1, h2⟩ := Prod.mk.inj h
          subst h1
          exact ⟨_, .enter (.operation o hs), Or.inl (by rw [h2])⟩
        · exact ⟨ev, EvRel.refl ev, Or.inr (Or.inl h)⟩
        · exact ⟨ev, EvRel.refl ev, Or.inr (Or.inr (Or.inl h))⟩
        · obtain ⟨ev', hr, hm'⟩ := ev_set_rel s hs _ ev env h
          exact ⟨ev', hr, Or.inr (Or.inr (Or.inr (Or.inl hm')))⟩
        · obtain ⟨h1, h2⟩ := Prod.mk.inj h
          subst h1
          exact ⟨_, .leave (.operation o hs), Or.inr (Or.inr (Or.inr (Or.inr (Or.inl (by rw [h2])))))⟩
    · exact ⟨ev, EvRel.refl ev, Or.inr h⟩
  | frag f l hs =>
    intro ev env hm
    simp only [List.flatMap_cons, List.mem_append] at hm ⊢
    rcases hm with h | h
    · simp only [defTrace, walkDefinition, Option.getD_some, List.cons_append, List.mem_cons, List.mem_append, List.not_mem_nil, or_false, or_assoc] at h ⊢
      rcases h with h | h | h | h
      · obtain ⟨h1, h2⟩ := Prod.mk.inj h
        subst h1
        exact ⟨_, .enter (.fragmentDef f hs), Or.inl (by rw [h2])⟩
      · exact ⟨ev, EvRel.refl ev, Or.inr (Or.inl h)⟩
      · obtain ⟨ev', hr, hm'⟩ := ev_set_rel s hs _ ev env h
        exact ⟨ev', hr, Or.inr (Or.inr (Or.inl hm'))⟩
      · obtain ⟨h1, h2⟩ := Prod.mk.inj h
        subst h1
        exact ⟨_, .leave (.fragmentDef f hs), Or.inr (Or.inr (Or.inr (Or.inl (by rw [h2]))))⟩
    · exact ⟨ev, EvRel.refl ev, Or.inr h⟩
  | cons x _ ih =>
    intro ev env hm
    simp only [List.flatMap_cons, List.mem_append] at hm ⊢
    rcases hm with h | h
    · exact ⟨ev, EvRel.refl ev, Or.inl h⟩
    · obtain ⟨ev', hr, hm'⟩ := ih ev env h
      exact ⟨ev', hr, Or.inr hm'⟩
  | trans _ _ ih1 ih2 =>
    intro ev env hm
    obtain ⟨ev1, hr1, hm1⟩ := ih1 ev env hm
    obtain ⟨ev2, hr2, hm2⟩ := ih2 ev1 env hm1
    exact ⟨ev2, hr1.trans hr2, hm2⟩

/-- **every callback has a counterpart** -/
theorem ev_doc_rel (s : Schema) (hq : s.queryType.isSome = true) {d d' : Document} (hdd : DocRel d d')
    (ev : Ev) (env : Snap) (hm : (ev, env) ∈ walkOf s d) : ∃ ev', EvRel ev ev' ∧ (ev', env) ∈ walkOf s d' := by
  rw [(walkOf_defs s d hq).1] at hm
  rw [(walkOf_defs s d' hq).1]
  simp only [List.cons_append, List.mem_cons, List.mem_append, List.not_mem_nil, or_false] at hm ⊢
  rcases hm with h | h | h
  · obtain ⟨h1, h2⟩ := Prod.mk.inj h
    subst h1
    exact ⟨_, .enter (.document hdd), Or.inl (by rw [h2])⟩
  · obtain ⟨ev', hr, hm'⟩ := ev_defs_rel s hdd ev env h
    exact ⟨ev', hr, Or.inr (Or.inl hm')⟩
  · obtain ⟨h1, h2⟩ := Prod.mk.inj h
    subst h1
    exact ⟨_, .leave (.document hdd), Or.inr (Or.inr (by rw [h2]))⟩

/-! ### the counterparts of the callbacks the specification predicates mention -/

theorem fieldAt_rel (s : Schema) (hq : s.queryType.isSome = true) {d d' : Document} (h : DocRel d d') (f : FieldNode) (env : Snap)
    (hf : FieldAt s d f env) : ∃ sel', SelsEq f.sel sel' ∧ FieldAt s d' { f with sel := sel' } env := by
  obtain ⟨ev', hr, hm⟩ := ev_doc_rel s hq h _ env hf
  cases hr with
  | enter hn =>
    cases hn with
    | same => exact ⟨f.sel, .refl _, hm⟩
    | field _ hs => exact ⟨_, hs, hm⟩

theorem same_at_rel (s : Schema) (hq : s.queryType.isSome = true) {d d' : Document} (h : DocRel d d') (n : Node) (env : Snap)
    (hn : ∀ f, n ≠ .field f) (hi : ∀ i, n ≠ .inline i) (hss : ∀ x, n ≠ .selectionSet x) (ho : ∀ o, n ≠ .operation o)
    (hfr : ∀ f, n ≠ .fragmentDef f) (hdoc : ∀ x, n ≠ .document x)
    (hm : (Ev.enter n, env) ∈ walkOf s d) : (Ev.enter n, env) ∈ walkOf s d' := by
  obtain ⟨ev', hr, hm'⟩ := ev_doc_rel s hq h _ env hm
  cases hr with
  | enter hr' =>
    cases hr' with
    | same => exact hm'
    | field f _ => exact absurd rfl (hn f)
    | inline i _ => exact absurd rfl (hi i)
    | selectionSet _ => exact absurd rfl (hss _)
    | operation o _ => exact absurd rfl (ho o)
    | fragmentDef f _ => exact absurd rfl (hfr f)
    | document _ => exact absurd rfl (hdoc _)

end Gql
