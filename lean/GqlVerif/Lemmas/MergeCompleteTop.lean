/-
  Lemmas/MergeCompleteTop.lean — completeness of `find_conflicts_within_selection_set` and of the
  rule as a fold over the walk: on a document without fragment cycles, a run of the rule that
  reports nothing has, for every selection set the walk visits, compared every two different
  same-key fields the set collects — except pairs that a fragment spread below the set
  contributes both of (those are the business of the visit to that fragment's own selection set).
-/
import GqlVerif.Lemmas.MergeCompleteStep
import GqlVerif.Thm.C03b
namespace Gql
open Gql.Spec

theorem orderedPairs_complete {α : Type} : ∀ (L : List α) (a b : α), a ∈ L → b ∈ L → a ≠ b →
    (a, b) ∈ orderedPairs L ∨ (b, a) ∈ orderedPairs L
  | [], a, _, ha, _, _ => by simp at ha
  | x :: xs, a, b, ha, hb, hne => by
      simp only [orderedPairs, List.mem_append, List.mem_map]
      rcases List.mem_cons.1 ha with rfl | ha'
      · rcases List.mem_cons.1 hb with rfl | hb'
        · exact absurd rfl hne
        · exact Or.inl (Or.inl ⟨b, hb', rfl⟩)
      · rcases List.mem_cons.1 hb with rfl | hb'
        · exact Or.inr (Or.inl ⟨a, ha', rfl⟩)
        · rcases orderedPairs_complete xs a b ha' hb' hne with h | h
          · exact Or.inl (Or.inr h)
          · exact Or.inr (Or.inr h)

/-- what a visit to a selection set establishes -/
def TopOK (s : Schema) (d : Document) (parent : Option TypeDef) (sel : List Selection) : Prop :=
  ∀ x y, Mem s d parent sel x → Mem s d parent sel y → keyOf x = keyOf y → x ≠ y →
    SharedLt s d (Rs d sel) x y ∨ ¬ PairBadC s d x y

theorem safe_nil (d : Document) (r1 r2 : Nat) : Safe d [] r1 r2 := by intro p hp; simp at hp

/-- `collect_conflicts_within` -/
theorem within_complete (s : Schema) (d : Document) (hac : ¬ FragmentCycle d) (fuel : Nat) (fm : FieldMap) (st : MState) (r : Nat)
    (hk : KeyOk fm) (hn : (alKeys fm).Nodup) (hr : FMR d fm r)
    (hnil : (conflictsWithin s d fuel fm st).1 = []) (hns : (conflictsWithin s d fuel fm st).2.stuck = false)
    (hmemo : MemoOK s d [] st.compared) :
    MemoOK s d [] (conflictsWithin s d fuel fm st).2.compared ∧ (conflictsWithin s d fuel fm st).2.visited = st.visited ∧
      ∀ x y, FM fm x → FM fm y → keyOf x = keyOf y → x ≠ y → ¬ PairBadC s d x y := by
  unfold conflictsWithin at hnil hns ⊢
  have okP : ∀ k : Name, StepOk (fun (acc : MRes) (p : AstAndDef × AstAndDef) => pushConflict acc (findConflict s d fuel k p.1 p.2 false acc.2)) :=
    fun k => stepOk_push (fun (p : AstAndDef × AstAndDef) st' => findConflict s d fuel k p.1 p.2 false st')
      (fun p st' hs => stuck_fc s d fuel k p.1 p.2 false st' hs)
  have okK := StepOk.fold (fun (kv : Name × List AstAndDef) => okP kv.1) (fun kv => orderedPairs kv.2)
  obtain ⟨⟨hm, hv⟩, hq⟩ := foldl_inv okK (fun st' => MemoOK s d [] st'.compared ∧ st'.visited = st.visited)
    (fun kv => ∀ p ∈ orderedPairs kv.2, ¬ PairBadC s d p.1 p.2) fm ([], st)
    (by
      intro kv hkv acc hI hn' hs
      exact foldl_inv (okP kv.1) (fun st' => MemoOK s d [] st'.compared ∧ st'.visited = st.visited)
        (fun p => ¬ PairBadC s d p.1 p.2) (orderedPairs kv.2) acc
        (by
          intro p hp acc hI hn' hs
          obtain ⟨hp1, hp2⟩ := mem_orderedPairs kv.2 p hp
          have hnone := pushConflict_nil hn'
          obtain ⟨m', v', q'⟩ := (completeAt s d hac fuel).fc kv.1 p.1 p.2 false acc.2 [] r r _ rfl hnone hs hI.1 (safe_nil d r r)
            (hr p.1 ⟨kv, hkv, hp1⟩) (hr p.2 ⟨kv, hkv, hp2⟩)
          exact ⟨⟨m', v'.trans hI.2⟩, q'⟩)
        hn' hs hI)
    hnil hns ⟨hmemo, rfl⟩
  refine ⟨hm, hv, ?_⟩
  intro x y hx hy hkk hne
  obtain ⟨lx, hlx, hxl, hmx⟩ := fm_alGet hk hn hx
  obtain ⟨ly, hly, hyl, _⟩ := fm_alGet hk hn hy
  have hl : ly = lx := by rw [hkk, hly] at hlx; exact Option.some.inj hlx
  subst hl
  rcases orderedPairs_complete ly x y hxl hyl hne with h | h
  · exact hq _ hmx (x, y) h
  · exact fun hb => hq _ hmx (y, x) h hb.symm

/-- the loop (B)/(C) of `find_conflicts_within_selection_set` -/
theorem loop_complete (s : Schema) (d : Document) (hac : ¬ FragmentCycle d) (fuel : Nat) (fm : FieldMap) (ns : List Name) (r : Nat)
    (hk : KeyOk fm) (hr : FMR d fm r) :
    ∀ (names : List Name) (acc : MRes), (∀ f ∈ names, Dr d f + 1 ≤ r) →
      (conflictsWithinSelectionSet.loop s d fuel (fm, ns) names acc).1 = [] →
      (conflictsWithinSelectionSet.loop s d fuel (fm, ns) names acc).2.stuck = false →
      MemoOK s d [] acc.2.compared → (∀ h ∈ acc.2.visited, FFOK s d fm h false) →
      MemoOK s d [] (conflictsWithinSelectionSet.loop s d fuel (fm, ns) names acc).2.compared ∧ acc.1 = [] ∧
        (∀ f ∈ names, FFOK s d fm f false) ∧ names.Pairwise (fun f g => FragOK s d false f g)
  | [], acc, _, hnil, _, hm, _ => by
      simp only [conflictsWithinSelectionSet.loop] at hnil ⊢
      exact ⟨hm, hnil, by simp, List.Pairwise.nil⟩
  | f1 :: rest, acc, hrk, hnil, hns, hm, hv => by
      simp only [conflictsWithinSelectionSet.loop] at hnil hns ⊢
      have okB := stepOk_cat (fun f2 st' => betweenFragments s d fuel f1 f2 false st') (fun f2 st' hs => stuck_bf s d fuel f1 f2 false st' hs)
      generalize hx : fieldsAndFragment s d fuel fm f1 false acc.2 = x at hnil hns ⊢
      generalize hy : rest.foldl (fun (acc : MRes) f2 =>
          ((acc.1 ++ (betweenFragments s d fuel f1 f2 false acc.2).1, (betweenFragments s d fuel f1 f2 false acc.2).2) : MRes))
          (acc.1 ++ x.1, x.2) = y at hnil hns ⊢
      -- first the tail of the loop, with what it needs proved below
      have hrest : ∀ f ∈ rest, Dr d f + 1 ≤ r := fun f hf => hrk f (by simp [hf])
      have hf1 := hrk f1 (by simp)
      -- backwards: the intermediate results are empty and not stuck
      have back : ∀ (names : List Name) (acc : MRes),
          ((conflictsWithinSelectionSet.loop s d fuel (fm, ns) names acc).1 = [] → acc.1 = []) ∧
          (acc.2.stuck = true → (conflictsWithinSelectionSet.loop s d fuel (fm, ns) names acc).2.stuck = true) := by
        intro names
        induction names with
        | nil => intro acc; simp [conflictsWithinSelectionSet.loop]
        | cons g gs ih =>
          intro acc
          simp only [conflictsWithinSelectionSet.loop]
          have okG := stepOk_cat (fun f2 st' => betweenFragments s d fuel g f2 false st') (fun f2 st' hs => stuck_bf s d fuel g f2 false st' hs)
          constructor
          · intro h
            have h1 := foldl_nil okG gs _ ((ih _).1 h)
            simp only [List.append_eq_nil_iff] at h1
            exact h1.1
          · intro h
            exact (ih _).2 (foldl_stuck okG gs _ (stuck_ff s d fuel fm g false acc.2 h))
      have hy1 : y.1 = [] := (back rest y).1 hnil
      have hy2 : y.2.stuck = false := by
        cases h : y.2.stuck with
        | false => rfl
        | true => rw [(back rest y).2 h] at hns; cases hns
      have hx0 : (acc.1 ++ x.1 : List Conflict) = [] := by rw [← hy] at hy1; exact foldl_nil okB rest _ hy1
      simp only [List.append_eq_nil_iff] at hx0
      have hx2 : x.2.stuck = false := by
        cases h : x.2.stuck with
        | false => rfl
        | true =>
          have := foldl_stuck okB rest (acc.1 ++ x.1, x.2) h
          rw [hy] at this; rw [this] at hy2; cases hy2
      obtain ⟨mx, qx, vx⟩ := (completeAt s d hac fuel).ff fm f1 false acc.2 [] r r x hx hx0.2 hx2 hk hm (safe_nil d r r) hr hf1
        (fun h hh _ => hv h hh)
      obtain ⟨⟨my, vy⟩, qy⟩ := foldl_inv okB
        (fun st' => MemoOK s d [] st'.compared ∧ ∀ h ∈ st'.visited, FFOK s d fm h false)
        (fun f2 => FragOK s d false f1 f2) rest (acc.1 ++ x.1, x.2)
        (by
          intro f2 hf2 acc' hI hn' hs
          simp only [List.append_eq_nil_iff] at hn'
          obtain ⟨m', v', q'⟩ := (completeAt s d hac fuel).bf f1 f2 false acc'.2 [] r r _ rfl hn'.2 hs hI.1 (safe_nil d r r) hf1 (hrest f2 hf2)
          exact ⟨⟨m', fun h hh => hI.2 h (v' ▸ hh)⟩, q'⟩)
        (by rw [hy]; exact hy1) (by rw [hy]; exact hy2) ⟨mx, fun h hh => (vx h hh).elim (hv h) id⟩
      rw [hy] at my vy
      obtain ⟨mr, _, qr, pr⟩ := loop_complete s d hac fuel fm ns r hk hr rest y hrest hnil hns my vy
      refine ⟨mr, hx0.1, ?_, List.Pairwise.cons qy pr⟩
      intro f hf
      rcases List.mem_cons.1 hf with rfl | hf
      · exact qx
      · exact qr f hf

/-- **one selection set** -/
theorem selset_complete (s : Schema) (d : Document) (hac : ¬ FragmentCycle d) (fuel : Nat) (parent : Option TypeDef)
    (sel : List Selection) (st : MState) (hvis : st.visited = [])
    (hnil : (conflictsWithinSelectionSet s d fuel parent sel st).1 = [])
    (hns : (conflictsWithinSelectionSet s d fuel parent sel st).2.stuck = false)
    (hmemo : MemoOK s d [] st.compared) :
    MemoOK s d [] (conflictsWithinSelectionSet s d fuel parent sel st).2.compared ∧ TopOK s d parent sel := by
  unfold conflictsWithinSelectionSet at hnil hns ⊢
  simp only at hnil hns ⊢
  have hk := (fafn_facts s d parent sel).1
  have hn := fafn_nodup s parent sel
  have hr : FMR d (fieldsAndFragmentNames s parent sel).1 (Rs d sel) := fun a ha => fafn_rank s d parent sel a ha
  have hnm : ∀ f ∈ (fieldsAndFragmentNames s parent sel).2, Dr d f + 1 ≤ Rs d sel := fun f hf => fafn_name_rank s d parent sel f hf
  generalize hw : conflictsWithin s d fuel (fieldsAndFragmentNames s parent sel).1 st = w at hnil hns ⊢
  -- backwards through the loop
  have back : ∀ (names : List Name) (acc : MRes),
      ((conflictsWithinSelectionSet.loop s d fuel (fieldsAndFragmentNames s parent sel) names acc).1 = [] → acc.1 = []) ∧
      (acc.2.stuck = true → (conflictsWithinSelectionSet.loop s d fuel (fieldsAndFragmentNames s parent sel) names acc).2.stuck = true) := by
    intro names
    induction names with
    | nil => intro acc; simp [conflictsWithinSelectionSet.loop]
    | cons g gs ih =>
      intro acc
      simp only [conflictsWithinSelectionSet.loop]
      have okG := stepOk_cat (fun f2 st' => betweenFragments s d fuel g f2 false st') (fun f2 st' hs => stuck_bf s d fuel g f2 false st' hs)
      constructor
      · intro h
        have h1 := foldl_nil okG gs _ ((ih _).1 h)
        simp only [List.append_eq_nil_iff] at h1
        exact h1.1
      · intro h
        exact (ih _).2 (foldl_stuck okG gs _ (stuck_ff s d fuel _ g false acc.2 h))
  have hw1 : w.1 = [] := (back _ w).1 hnil
  have hw2 : w.2.stuck = false := by
    cases h : w.2.stuck with
    | false => rfl
    | true => rw [(back _ w).2 h] at hns; cases hns
  obtain ⟨mw, vw, qw⟩ := within_complete s d hac fuel _ st (Rs d sel) hk hn hr (by rw [hw]; exact hw1) (by rw [hw]; exact hw2) hmemo
  rw [hw] at mw vw
  obtain ⟨ml, _, ql, pl⟩ := loop_complete s d hac fuel (fieldsAndFragmentNames s parent sel).1 (fieldsAndFragmentNames s parent sel).2
    (Rs d sel) hk hr _ w hnm hnil hns mw (by rw [vw, hvis]; simp)
  refine ⟨ml, ?_⟩
  intro x y hx hy hkk hne
  rcases mem_decomp s d parent sel x hx with hx | ⟨f, hf, hx⟩
  · rcases mem_decomp s d parent sel y hy with hy | ⟨g, hg, hy⟩
    · exact Or.inr (qw x y hx hy hkk hne)
    · exact Or.inr (ql g hg x y hx hy hkk)
  · rcases mem_decomp s d parent sel y hy with hy | ⟨g, hg, hy⟩
    · exact Or.inr (fun hb => ql f hf y x hy hx hkk.symm hb.symm)
    · by_cases hfg : f = g
      · subst hfg
        exact Or.inl ⟨f, by have := hnm f hf; omega, hx, hy⟩
      · have h1 := hnm f hf
        have h2 := hnm g hg
        rcases pairwise_mem_ne pl f hf g hg hfg with h | h
        · exact (Cross.mono h (by omega)) x y hx hy hkk
        · exact (Cross.mono h.symm (by omega)) x y hx hy hkk

/-! ### the rule over the walk -/

theorem step_errs_nil (r : Rule) (s : Schema) (d : Document) : ∀ (tr : Trace) (acc : r.σ × List Err),
    (tr.foldl (r.step s d) acc).2 = [] → acc.2 = []
  | [], _, h => h
  | e :: tr, acc, h => by
      simp only [List.foldl_cons] at h
      have := step_errs_nil r s d tr _ h
      simp only [Rule.step, List.append_eq_nil_iff] at this
      exact this.1

/-- **a silent run has compared everything**: if the rule reports nothing on a document without
    fragment cycles, every visited selection set is `TopOK` -/
theorem silent_topOK (s : Schema) (d : Document) (hq : s.queryType.isSome = true) (hac : ¬ FragmentCycle d)
    (h : ¬ fires .overlappingFieldsCanBeMerged s d) :
    ∀ parent sel, Reg s d parent sel → TopOK s d parent sel := by
  have hnil : (overlappingFieldsCanBeMerged.runOn s d (walkOf s d)) = [] := by
    unfold fires errsOf at h
    simp only [ruleOf, ne_eq, Decidable.not_not] at h
    exact h
  simp only [Rule.runOn, List.append_eq_nil_iff] at hnil
  have key : ∀ (tr : Trace) (acc : overlappingFieldsCanBeMerged.σ × List Err), (∀ e ∈ tr, e ∈ walkOf s d) →
      MemoOK s d [] (acc.1 : MergeRuleState).compared → (tr.foldl (overlappingFieldsCanBeMerged.step s d) acc).2 = [] →
      ∀ sel env, (Ev.enter (.selectionSet sel), env) ∈ tr → TopOK s d env.parent sel := by
    intro tr
    induction tr with
    | nil => intro acc _ _ _ sel env hm; simp at hm
    | cons e tr ih =>
      intro acc hsub hm hn sel env hmem
      rw [List.foldl_cons] at hn
      have hstep := step_errs_nil _ s d tr _ hn
      obtain ⟨ev, env'⟩ := e
      -- the state after this callback keeps a justified memo table, and if the callback is a selection set it is TopOK
      have hthis : MemoOK s d [] ((overlappingFieldsCanBeMerged.step s d acc (ev, env')).1 : MergeRuleState).compared ∧
          ∀ sel', ev = .enter (.selectionSet sel') → TopOK s d env'.parent sel' := by
        cases ev with
        | leave n => exact ⟨hm, by intro sel' h; cases h⟩
        | enter n =>
          cases n with
          | selectionSet sel0 =>
            have hmw := hsub _ (List.mem_cons_self)
            have hsel : selsDepth sel0 ≤ docDepth d := selset_depth_document d sel0 (enter_of_walk s d hq hmw)
            have ht := selset_terminates s d hac (mergeFuel d) env'.parent sel0
              { compared := acc.1.compared, visited := [], stuck := false, guardHit := false } rfl (C03.mergeFuel_covers d sel0 hsel)
            simp only [Rule.step, overlappingFieldsCanBeMerged, List.append_eq_nil_iff, List.map_eq_nil_iff] at hstep
            obtain ⟨mc, tc⟩ := selset_complete s d hac (mergeFuel d) env'.parent sel0
              { compared := acc.1.compared, visited := [], stuck := false, guardHit := false } rfl hstep.2 ht hm
            refine ⟨mc, ?_⟩
            intro sel' he
            cases he
            exact tc
          | _ => exact ⟨hm, by intro sel' h; cases h⟩
      rcases List.mem_cons.1 hmem with he | hmem
      · cases he
        exact hthis.2 sel rfl
      · exact ih _ (fun x hx => hsub x (by simp [hx])) hthis.1 hn sel env hmem
  intro parent sel ⟨env, hm, hp⟩
  subst hp
  exact key (walkOf s d) _ (fun _ h => h) (by intro e he; simp [overlappingFieldsCanBeMerged] at he) hnil.1 sel env hm

end Gql
