/-
  Lemmas/Coercion.lean — `vErrs s (some τ) v = []  ↔  Coercible s τ v` for input types of a
  well-formed schema.
-/
import GqlVerif.Lemmas.Values
import GqlVerif.Lemmas.Schema
namespace Gql
open Gql.Spec

/-- no non-null directly inside a non-null (the parser cannot produce `T!!`) -/
def Ty.ok : Ty → Bool
  | .named _ => true
  | .list t => t.ok
  | .nonNull (.nonNull _) => false
  | .nonNull t => t.ok

/-- `τ` is a well-wrapped reference to a declared input type -/
def GoodTy (s : Schema) (τ : Ty) : Prop := τ.ok = true ∧ s.isInputName τ.inner = true

/-- the fields of every input object are well-wrapped references to declared input types -/
def InputsClosed (s : Schema) : Prop :=
  ∀ n n' fields, s.typeByName n = some (.inputObject n' fields) → ∀ f ∈ fields, GoodTy s f.ty

/-! ### nothing is reported where no type is expected -/
mutual
theorem vErrs_none (s : Schema) : ∀ v : Value, vErrs s none v = []
  | .var _ => rfl
  | .null => rfl
  | .int _ => by simp [vErrs, validateValue, snapOf]
  | .float _ => by simp [vErrs, validateValue, snapOf]
  | .str _ => by simp [vErrs, validateValue, snapOf]
  | .bool _ => by simp [vErrs, validateValue, snapOf]
  | .enum _ => by simp [vErrs, validateValue, snapOf]
  | .list vs => by simp [vErrs, validateCompositeValue, snapOf, expectsList, listItemType, vErrsList_none s vs]
  | .obj fs => by
      simp [vErrs, validateCompositeValue, snapOf, objectMemberErrs, Schema.resolve, vErrsFields_none s fs]
theorem vErrsList_none (s : Schema) : ∀ vs : List Value, vErrsList s none vs = []
  | [] => rfl
  | v :: vs => by simp [vErrsList, vErrs_none s v, vErrsList_none s vs]
theorem vErrsFields_none (s : Schema) : ∀ fs : List (Name × Value), vErrsFields s none fs = []
  | [] => rfl
  | (k, v) :: fs => by
      have : objectFieldType s none k = none := by simp [objectFieldType, Schema.resolve]
      simp [vErrsFields, this, vErrs_none s v, vErrsFields_none s fs]
end

/-! ### peeling wrappers for literals that are neither list, null nor variable -/

def Value.plain : Value → Bool
  | .var _ | .null | .list _ => false
  | _ => true

theorem coercible_peel (s : Schema) (v : Value) (hv : Value.plain v = true) :
    ∀ τ : Ty, Coercible s τ v ↔ Coercible s (.named τ.inner) v
  | .named n => by simp [Ty.inner]
  | .list ι => by
      show Coercible s (.list ι) v ↔ Coercible s (.named ι.inner) v
      rw [← coercible_peel s v hv ι]
      constructor
      · intro h
        cases h with
        | var => simp [Value.plain] at hv
        | null => simp [Value.plain] at hv
        | list => simp [Value.plain] at hv
        | lone _ _ h' => exact h'
      · intro h
        refine .lone ?_ ?_ h
        · cases v <;> simp [Value.plain, Value.isListLit] at hv ⊢
        · intro hn; subst hn; simp [Value.plain] at hv
  | .nonNull τ' => by
      show Coercible s (.nonNull τ') v ↔ Coercible s (.named τ'.inner) v
      rw [← coercible_peel s v hv τ']
      constructor
      · intro h
        cases h with
        | var => simp [Value.plain] at hv
        | null hnn => simp [Ty.isNonNull] at hnn
        | nonNull _ h' => exact h'
      · intro h
        exact .nonNull (by intro hn; subst hn; simp [Value.plain] at hv) h

theorem typeByName_name {s : Schema} {n : Name} {td : TypeDef} (h : s.typeByName n = some td) : td.name = n :=
  (typeByName_some h).2

def Value.leafLit : Value → Bool
  | .int _ | .float _ | .str _ | .bool _ | .enum _ => true
  | _ => false

theorem isBuiltin_iff (n : Name) : isCustomScalarName n = false ↔ isBuiltinScalar n := by
  simp only [isCustomScalarName, isBuiltinScalar, Bool.not_eq_eq_eq_not, Bool.not_false, Bool.or_eq_true, beq_iff_eq]
  constructor
  · rintro ((((h | h) | h) | h) | h)
    · exact Or.inr (Or.inr (Or.inl h))
    · exact Or.inl h
    · exact Or.inr (Or.inl h)
    · exact Or.inr (Or.inr (Or.inr (Or.inl h)))
    · exact Or.inr (Or.inr (Or.inr (Or.inr h)))
  · rintro (h | h | h | h | h)
    · exact Or.inl (Or.inl (Or.inl (Or.inr h)))
    · exact Or.inl (Or.inl (Or.inr h))
    · exact Or.inl (Or.inl (Or.inl (Or.inl h)))
    · exact Or.inl (Or.inr h)
    · exact Or.inr h

theorem scalarAccepts_iff (n : Name) (v : Value) : scalarAccepts n v = true ↔ BuiltinAccepts n v := by
  cases v <;> simp [scalarAccepts, BuiltinAccepts, fitsInt32]
  · constructor
    · rintro ((h | h) | h)
      · exact Or.inl h
      · exact Or.inr (Or.inr h)
      · exact Or.inr (Or.inl h)
    · rintro (h | h | h)
      · exact Or.inl (Or.inl h)
      · exact Or.inr h
      · exact Or.inl (Or.inr h)
  · exact ⟨fun h => h.elim Or.inr Or.inl, fun h => h.elim Or.inr Or.inl⟩

/-- leaf literals: the check on the named type -/
theorem leaf_named_iff (s : Schema) (n : Name) (hin : s.isInputName n = true) (v : Value) (hv : v.leafLit = true) :
    validateValue s (snapOf s (some (.named n))) v = [] ↔ Coercible s (.named n) v := by
  unfold Schema.isInputName at hin
  simp only [validateValue, snapOf, Ty.inner]
  cases htd : s.typeByName n with
  | none => simp [htd] at hin
  | some td =>
    have hname := typeByName_name htd
    simp only [htd] at hin ⊢
    cases td with
    | scalar m =>
      simp only [TypeDef.name] at hname; subst hname
      simp only [TypeDef.isLeaf, Bool.not_true, Bool.false_eq_true, if_false, List.nil_append]
      by_cases hacc : scalarAccepts m v = true
      · simp only [hacc, if_true, true_iff]
        have hb := (scalarAccepts_iff m v).1 hacc
        have : isBuiltinScalar m := by
          cases v <;> simp [BuiltinAccepts] at hb <;> simp [isBuiltinScalar] <;> (first | (rcases hb with h | h | h <;> simp_all) | (rcases hb with h | h <;> simp_all) | simp_all)
        exact .builtin htd this hb
      · simp only [hacc, Bool.false_eq_true, if_false]
        by_cases hc : isCustomScalarName m = true
        · simp only [hc, if_true, true_iff]
          have hnb : ¬ isBuiltinScalar m := fun hb => by
            have := (isBuiltin_iff m).2 hb; simp [this] at hc
          exact .custom htd hnb (by intro h; subst h; simp [Value.leafLit] at hv)
        · have hc' : isCustomScalarName m = false := by simpa using hc
          simp only [hc', Bool.false_eq_true, if_false, List.cons_ne_nil, false_iff]
          intro hco
          cases hco with
          | var => simp [Value.leafLit] at hv
          | null => simp [Value.leafLit] at hv
          | builtin _ _ hacc' => exact hacc ((scalarAccepts_iff m v).2 hacc')
          | custom _ hnb _ => exact hnb ((isBuiltin_iff m).1 hc')
          | enum h1 _ => rw [htd] at h1; cases h1
          | object h1 _ _ _ => rw [htd] at h1; cases h1
    | enum m values =>
      simp only [TypeDef.name] at hname; subst hname
      simp only [TypeDef.isLeaf, Bool.not_true, Bool.false_eq_true, if_false, List.nil_append]
      cases v <;> simp [Value.leafLit] at hv
      all_goals first
        | (rename_i x
           by_cases hm : x ∈ values
           · have : values.any (fun y => y == x) = true := List.any_eq_true.2 ⟨x, hm, by simp⟩
             simp only [this, Bool.not_true, Bool.false_eq_true, if_false, true_iff]
             exact .enum htd hm
           · have : values.any (fun y => y == x) = false := by
               rw [List.any_eq_false]; intro y hy hyx; exact hm (by have := beq_iff_eq.1 hyx; rwa [← this])
             simp only [this, Bool.not_false, if_true, List.cons_ne_nil, false_iff]
             intro hco
             cases hco with
             | builtin h1 _ _ => rw [htd] at h1; cases h1
             | custom h1 _ _ => rw [htd] at h1; cases h1
             | enum h1 hx => rw [htd] at h1; cases h1; exact hm hx
           done)
        | (simp only [List.cons_ne_nil, false_iff]
           intro hco
           cases hco with
           | builtin h1 _ _ => rw [htd] at h1; cases h1
           | custom h1 _ _ => rw [htd] at h1; cases h1)
    | inputObject m fields =>
      simp only [TypeDef.isLeaf, Bool.not_false, if_true, List.cons_append, List.cons_ne_nil, false_iff]
      intro hco
      cases hco with
      | var => simp [Value.leafLit] at hv
      | null => simp [Value.leafLit] at hv
      | builtin h1 _ _ => rw [htd] at h1; cases h1
      | custom h1 _ _ => rw [htd] at h1; cases h1
      | enum h1 _ => rw [htd] at h1; cases h1
      | object _ _ _ _ => simp [Value.leafLit] at hv
    | object _ _ _ => simp [TypeDef.isInput] at hin
    | interface _ _ _ => simp [TypeDef.isInput] at hin
    | union _ _ => simp [TypeDef.isInput] at hin

theorem validateValue_inner (s : Schema) (τ : Ty) (v : Value) :
    validateValue s (snapOf s (some τ)) v = validateValue s (snapOf s (some (.named τ.inner))) v := by
  simp [validateValue, snapOf, Ty.inner]

theorem validateComposite_inner (s : Schema) (τ : Ty) (v : Value) :
    validateCompositeValue s (snapOf s (some τ)) v = validateCompositeValue s (snapOf s (some (.named τ.inner))) v := by
  simp [validateCompositeValue, snapOf, Ty.inner]

theorem resolve_inner (s : Schema) (τ : Ty) : s.resolve (some τ) = s.resolve (some (.named τ.inner)) := by
  simp [Schema.resolve, Ty.inner]

/-- a list literal where a named (non-list) type is expected -/
theorem composite_list_iff (s : Schema) (n : Name) (hin : s.isInputName n = true) (vs : List Value) :
    validateCompositeValue s (snapOf s (some (.named n))) (.list vs) = [] ↔ Coercible s (.named n) (.list vs) := by
  unfold Schema.isInputName at hin
  simp only [validateCompositeValue, snapOf, Ty.inner]
  cases htd : s.typeByName n with
  | none => simp [htd] at hin
  | some td =>
    have hname := typeByName_name htd
    simp only [htd] at hin ⊢
    cases td with
    | scalar m =>
      simp only [TypeDef.name] at hname; subst hname
      by_cases hc : isCustomScalarName m = true
      · simp only [hc, Bool.not_true, Bool.false_eq_true, if_false, true_iff]
        exact .custom htd (fun hb => by have := (isBuiltin_iff m).2 hb; simp [this] at hc) (by simp)
      · have hc' : isCustomScalarName m = false := by simpa using hc
        simp only [hc', Bool.not_false, if_true, List.cons_ne_nil, false_iff]
        intro hco
        cases hco with
        | builtin _ _ ha => simp [BuiltinAccepts] at ha
        | custom _ hnb _ => exact hnb ((isBuiltin_iff m).1 hc')
    | enum m values =>
      simp only [if_true, List.cons_ne_nil, false_iff]
      intro hco
      cases hco with
      | builtin h1 _ _ => rw [htd] at h1; cases h1
      | custom h1 _ _ => rw [htd] at h1; cases h1
    | inputObject m fields =>
      simp only [if_true, List.cons_ne_nil, false_iff]
      intro hco
      cases hco with
      | builtin h1 _ _ => rw [htd] at h1; cases h1
      | custom h1 _ _ => rw [htd] at h1; cases h1
    | object _ _ _ => simp [TypeDef.isInput] at hin
    | interface _ _ _ => simp [TypeDef.isInput] at hin
    | union _ _ => simp [TypeDef.isInput] at hin

theorem coercible_null_iff (s : Schema) (τ : Ty) : Coercible s τ .null ↔ τ.isNonNull = false := by
  constructor
  · intro h
    cases h with
    | null h => exact h
    | nonNull h _ => exact absurd rfl h
    | lone _ h _ => exact absurd rfl h
    | builtin _ _ ha => simp [BuiltinAccepts] at ha
    | custom _ _ h => exact absurd rfl h
  · exact .null

theorem coercible_list_iff (s : Schema) (ι : Ty) (vs : List Value) :
    Coercible s (.list ι) (.list vs) ↔ ∀ v ∈ vs, Coercible s ι v := by
  constructor
  · intro h
    cases h with
    | list h => exact h
    | lone hl _ _ => simp [Value.isListLit] at hl
  · exact .list

theorem coercible_nonNull_iff (s : Schema) (τ : Ty) (v : Value) (hv : v ≠ .null) (hvar : ∀ x, v ≠ .var x) :
    Coercible s (.nonNull τ) v ↔ Coercible s τ v := by
  constructor
  · intro h
    cases h with
    | var _ x => exact absurd rfl (hvar x)
    | null h => simp [Ty.isNonNull] at h
    | nonNull _ h => exact h
  · exact .nonNull hv

theorem req_nil_iff (fields : List InputValueDef) (fs : List (Name × Value)) :
    (fields.filter fun f => f.isRequired && !fs.any (fun kv => kv.1 == f.name)) = [] ↔
      ∀ f ∈ fields, f.isRequired = true → ∃ kv ∈ fs, kv.1 = f.name := by
  rw [List.filter_eq_nil_iff]
  constructor
  · intro h f hf hr
    have := h f hf
    simp only [Bool.and_eq_true, hr, true_and, Bool.not_eq_eq_eq_not, Bool.not_true] at this
    have hany : fs.any (fun kv => kv.1 == f.name) = true := by
      cases hx : fs.any (fun kv => kv.1 == f.name) with
      | true => rfl
      | false => exact absurd hx this
    obtain ⟨kv, hkv, hk⟩ := List.any_eq_true.1 hany
    exact ⟨kv, hkv, by simpa using hk⟩
  · intro h f hf hc
    simp only [Bool.and_eq_true, Bool.not_eq_eq_eq_not, Bool.not_true] at hc
    obtain ⟨kv, hkv, hk⟩ := h f hf hc.1
    have : fs.any (fun kv => kv.1 == f.name) = true := List.any_eq_true.2 ⟨kv, hkv, by simp [hk]⟩
    rw [this] at hc
    exact absurd hc.2 (by simp)

theorem unk_nil_iff (fields : List InputValueDef) (fs : List (Name × Value)) :
    (fs.filter fun kv => !fields.any (fun f => f.name == kv.1)) = [] ↔ ∀ kv ∈ fs, ∃ f ∈ fields, f.name = kv.1 := by
  rw [List.filter_eq_nil_iff]
  constructor
  · intro h kv hkv
    have := h kv hkv
    simp only [Bool.not_eq_eq_eq_not, Bool.not_true] at this
    have hany : fields.any (fun f => f.name == kv.1) = true := by
      cases hx : fields.any (fun f => f.name == kv.1) with
      | true => rfl
      | false => exact absurd hx this
    obtain ⟨f, hf, hk⟩ := List.any_eq_true.1 hany
    exact ⟨f, hf, by simpa using hk⟩
  · intro h kv hkv hc
    simp only [Bool.not_eq_eq_eq_not, Bool.not_true] at hc
    obtain ⟨f, hf, hk⟩ := h kv hkv
    have : fields.any (fun f => f.name == kv.1) = true := List.any_eq_true.2 ⟨f, hf, by simp [hk]⟩
    rw [this] at hc
    exact absurd hc (by simp)

/-- the part of an object literal's report that does not look inside member values -/
theorem objectShell_iff (s : Schema) (n : Name) (hin : s.isInputName n = true) (fs : List (Name × Value)) :
    (validateCompositeValue s (snapOf s (some (.named n))) (.obj fs) = [] ∧ objectMemberErrs s (some (.named n)) fs = []) ↔
      ((∃ m, s.typeByName n = some (.scalar m) ∧ ¬ isBuiltinScalar m) ∨
       (∃ m fields, s.typeByName n = some (.inputObject m fields) ∧
          (∀ kv ∈ fs, ∃ f ∈ fields, f.name = kv.1) ∧ (∀ f ∈ fields, f.isRequired = true → ∃ kv ∈ fs, kv.1 = f.name))) := by
  unfold Schema.isInputName at hin
  simp only [validateCompositeValue, objectMemberErrs, snapOf, Ty.inner, Schema.resolve, Option.bind_some]
  cases htd : s.typeByName n with
  | none => simp [htd] at hin
  | some td =>
    simp only [htd] at hin ⊢
    cases td with
    | scalar m =>
      by_cases hc : isCustomScalarName m = true
      · have hnb : ¬ isBuiltinScalar m := fun hb => by have := (isBuiltin_iff m).2 hb; simp [this] at hc
        simp [hc, hnb]
      · have hc' : isCustomScalarName m = false := by simpa using hc
        simp [hc', (isBuiltin_iff m).1 hc']
    | enum m values => simp
    | inputObject m fields =>
      simp only [Bool.false_eq_true, if_false, true_and, List.append_eq_nil_iff, List.map_eq_nil_iff, req_nil_iff, unk_nil_iff]
      constructor
      · rintro ⟨hreq, hunk⟩
        exact Or.inr ⟨m, fields, rfl, hunk, hreq⟩
      · rintro (⟨m', h, _⟩ | ⟨m', fields', h, h1, h2⟩)
        · cases h
        · cases h; exact ⟨h2, h1⟩
    | object _ _ _ => simp [TypeDef.isInput] at hin
    | interface _ _ _ => simp [TypeDef.isInput] at hin
    | union _ _ => simp [TypeDef.isInput] at hin

theorem objectFieldType_named (s : Schema) (n : Name) (k : Name) :
    objectFieldType s (some (.named n)) k =
      (match s.typeByName n with
       | some (.inputObject _ fields) => (fields.find? (·.name == k)).map (·.ty)
       | _ => none) := by
  simp only [objectFieldType, Schema.resolve, Option.bind_some, Ty.inner]
  cases s.typeByName n with
  | none => rfl
  | some td => cases td <;> simp [TypeDef.inputFieldByName]

theorem vErrs_obj_inner (s : Schema) (τ : Ty) (fs : List (Name × Value)) :
    vErrs s (some τ) (.obj fs) = vErrs s (some (.named τ.inner)) (.obj fs) := by
  have hf : ∀ fs : List (Name × Value), vErrsFields s (some τ) fs = vErrsFields s (some (.named τ.inner)) fs := by
    intro fs
    induction fs with
    | nil => rfl
    | cons kv rest ih =>
      obtain ⟨k, v⟩ := kv
      have : objectFieldType s (some τ) k = objectFieldType s (some (.named τ.inner)) k := by
        simp [objectFieldType, resolve_inner s τ]
      simp [vErrsFields, this, ih]
  simp only [vErrs, validateComposite_inner s τ, hf]
  simp [objectMemberErrs, resolve_inner s τ]

theorem vErrsFields_scalar (s : Schema) (n m : Name) (hm : s.typeByName n = some (.scalar m)) :
    ∀ fs : List (Name × Value), vErrsFields s (some (.named n)) fs = []
  | [] => rfl
  | (k, v) :: rest => by
      have : objectFieldType s (some (.named n)) k = none := by rw [objectFieldType_named, hm]
      simp [vErrsFields, this, vErrs_none, vErrsFields_scalar s n m hm rest]

/-- object literals at a named type, given the characterisation of the member values -/
theorem obj_named_iff (s : Schema) (n : Name) (hin : s.isInputName n = true) (fs : List (Name × Value))
    (ih : ∀ fields, s.typeByName n = some (.inputObject n fields) →
      (vErrsFields s (some (.named n)) fs = [] ↔
        ∀ kv ∈ fs, ∀ f, fields.find? (·.name == kv.1) = some f → Coercible s f.ty kv.2)) :
    vErrs s (some (.named n)) (.obj fs) = [] ↔ Coercible s (.named n) (.obj fs) := by
  simp only [vErrs, List.append_eq_nil_iff]
  rw [objectShell_iff s n hin fs]
  constructor
  · rintro ⟨hshell, hfields⟩
    rcases hshell with ⟨m, hm, hnb⟩ | ⟨m, fields, hm, hknown, hreq⟩
    · have := typeByName_name hm
      simp only [TypeDef.name] at this; subst this
      exact .custom hm hnb (by simp)
    · have := typeByName_name hm
      simp only [TypeDef.name] at this; subst this
      exact .object hm hknown hreq ((ih fields hm).1 hfields)
  · intro hco
    cases hco with
    | builtin _ _ ha => simp [BuiltinAccepts] at ha
    | custom hm hnb _ => exact ⟨Or.inl ⟨_, hm, hnb⟩, vErrsFields_scalar s n n hm fs⟩
    | object hm hknown hreq hfields => exact ⟨Or.inr ⟨_, _, hm, hknown, hreq⟩, (ih _ hm).2 hfields⟩

mutual
/-- **the rule's report inside a literal is empty iff the literal coerces to the expected type** -/
theorem vErrs_iff (s : Schema) (hs : InputsClosed s) :
    ∀ (v : Value) (τ : Ty), GoodTy s τ → (vErrs s (some τ) v = [] ↔ Coercible s τ v)
  | .var x, τ, _ => by simp [vErrs]; exact .var τ x
  | .null, τ, _ => by
      rw [coercible_null_iff]
      cases hnn : τ.isNonNull <;> simp [vErrs, hnn]
  | .int i, τ, hg => by
      simp only [vErrs]
      rw [validateValue_inner, leaf_named_iff s τ.inner hg.2 (.int i) rfl, ← coercible_peel s (.int i) rfl τ]
  | .float f, τ, hg => by
      simp only [vErrs]
      rw [validateValue_inner, leaf_named_iff s τ.inner hg.2 (.float f) rfl, ← coercible_peel s (.float f) rfl τ]
  | .str x, τ, hg => by
      simp only [vErrs]
      rw [validateValue_inner, leaf_named_iff s τ.inner hg.2 (.str x) rfl, ← coercible_peel s (.str x) rfl τ]
  | .bool b, τ, hg => by
      simp only [vErrs]
      rw [validateValue_inner, leaf_named_iff s τ.inner hg.2 (.bool b) rfl, ← coercible_peel s (.bool b) rfl τ]
  | .enum n, τ, hg => by
      simp only [vErrs]
      rw [validateValue_inner, leaf_named_iff s τ.inner hg.2 (.enum n) rfl, ← coercible_peel s (.enum n) rfl τ]
  | .list vs, .list ι, hg => by
      have hgi : GoodTy s ι := ⟨by simpa [Ty.ok] using hg.1, by simpa [Ty.inner] using hg.2⟩
      simp only [vErrs, expectsList, listItemType, Bool.not_true, Bool.false_eq_true, if_false, List.nil_append]
      rw [vErrsList_iff s hs vs ι hgi, coercible_list_iff]
  | .list vs, .nonNull (.list ι), hg => by
      have hgi : GoodTy s ι := ⟨by simpa [Ty.ok] using hg.1, by simpa [Ty.inner] using hg.2⟩
      simp only [vErrs, expectsList, listItemType, Bool.not_true, Bool.false_eq_true, if_false, List.nil_append]
      rw [vErrsList_iff s hs vs ι hgi, coercible_nonNull_iff s _ _ (by simp) (by simp), coercible_list_iff]
  | .list vs, .named n, hg => by
      simp only [vErrs, expectsList, listItemType, Bool.not_false, if_true, vErrsList_none, List.append_nil]
      exact composite_list_iff s n (by simpa [Ty.inner] using hg.2) vs
  | .list vs, .nonNull (.named n), hg => by
      simp only [vErrs, expectsList, listItemType, Bool.not_false, if_true, vErrsList_none, List.append_nil]
      rw [validateComposite_inner, coercible_nonNull_iff s _ _ (by simp) (by simp)]
      exact composite_list_iff s n (by simpa [Ty.inner] using hg.2) vs
  | .list vs, .nonNull (.nonNull _), hg => by simp [GoodTy, Ty.ok] at hg
  | .obj fs, τ, hg => by
      rw [vErrs_obj_inner, coercible_peel s (.obj fs) rfl τ]
      exact obj_named_iff s τ.inner hg.2 fs (fun fields hm => vErrsFields_iff s hs fs τ.inner fields hm)
theorem vErrsList_iff (s : Schema) (hs : InputsClosed s) :
    ∀ (vs : List Value) (ι : Ty), GoodTy s ι → (vErrsList s (some ι) vs = [] ↔ ∀ v ∈ vs, Coercible s ι v)
  | [], ι, _ => by simp [vErrsList]
  | v :: vs, ι, hg => by
      simp only [vErrsList, List.append_eq_nil_iff, vErrs_iff s hs v ι hg, vErrsList_iff s hs vs ι hg,
        List.mem_cons, forall_eq_or_imp]
theorem vErrsFields_iff (s : Schema) (hs : InputsClosed s) :
    ∀ (fs : List (Name × Value)) (n : Name) (fields : List InputValueDef),
      s.typeByName n = some (.inputObject n fields) →
      (vErrsFields s (some (.named n)) fs = [] ↔
        ∀ kv ∈ fs, ∀ f, fields.find? (·.name == kv.1) = some f → Coercible s f.ty kv.2)
  | [], _, _, _ => by simp [vErrsFields]
  | (k, v) :: fs, n, fields, hm => by
      simp only [vErrsFields, List.append_eq_nil_iff, vErrsFields_iff s hs fs n fields hm, List.mem_cons,
        forall_eq_or_imp, objectFieldType_named, hm]
      apply and_congr_left'
      cases hf : fields.find? (·.name == k) with
      | none => simp [vErrs_none]
      | some f =>
        have hgf : GoodTy s f.ty := hs _ _ _ hm f (List.mem_of_find?_eq_some hf)
        simp [vErrs_iff s hs v f.ty hgf]
end

end Gql
