/-
  Lemmas/TraverseMem.lean — which definition-level callbacks occur in a traversal:
  `enter (operation o)` / `enter (fragmentDef f)` occur exactly for the operations / fragment
  definitions of the document (never inside a selection set, directive or value).
-/
import GqlVerif.Lemmas.Fires
import GqlVerif.Lemmas.Traverse
namespace Gql

def Ev.node : Ev → Node
  | .enter n => n
  | .leave n => n

def Node.isDefinitionLevel : Node → Bool
  | .document _ | .operation _ | .fragmentDef _ => true
  | _ => false

/-- all events of the list are below definition level -/
def Inner (l : List Ev) : Prop := ∀ e ∈ l, e.node.isDefinitionLevel = false

theorem Inner.nil : Inner [] := by simp [Inner]
theorem Inner.append {a b : List Ev} (ha : Inner a) (hb : Inner b) : Inner (a ++ b) := by
  intro e he; rcases List.mem_append.1 he with h | h; exact ha e h; exact hb e h
theorem Inner.cons {e : Ev} {l : List Ev} (he : e.node.isDefinitionLevel = false) (hl : Inner l) :
    Inner (e :: l) := by
  intro x hx; rcases List.mem_cons.1 hx with rfl | h; exact he; exact hl x h

mutual
theorem inner_value : ∀ v, Inner (traverseValue v)
  | .bool _ | .float _ | .int _ | .str _ | .null | .enum _ | .var _ => by
      simp [traverseValue, Inner, Ev.node, Node.isDefinitionLevel]
  | .list vs => by
      simp only [traverseValue]
      exact Inner.cons rfl (Inner.append (inner_values vs) (Inner.cons rfl Inner.nil))
  | .obj fs => by
      simp only [traverseValue]
      exact Inner.cons rfl (Inner.append (inner_objFields fs) (Inner.cons rfl Inner.nil))
theorem inner_values : ∀ vs, Inner (traverseValues vs)
  | [] => by simp [traverseValues, Inner]
  | v :: vs => by simp only [traverseValues]; exact (inner_value v).append (inner_values vs)
theorem inner_objFields : ∀ fs, Inner (traverseObjFields fs)
  | [] => by simp [traverseObjFields, Inner]
  | (k, v) :: fs => by
      simp only [traverseObjFields]
      exact Inner.append (Inner.cons rfl (Inner.append (inner_value v) (Inner.cons rfl Inner.nil))) (inner_objFields fs)
end

theorem inner_arguments : ∀ as, Inner (traverseArguments as)
  | [] => by simp [traverseArguments, Inner]
  | a :: as => by
      simp only [traverseArguments]
      exact Inner.append (Inner.cons rfl (Inner.append (inner_value a.2) (Inner.cons rfl Inner.nil))) (inner_arguments as)

theorem inner_directives : ∀ ds, Inner (traverseDirectives ds)
  | [] => by simp [traverseDirectives, Inner]
  | d :: ds => by
      simp only [traverseDirectives]
      exact Inner.append (Inner.cons rfl (Inner.append (inner_arguments d.args) (Inner.cons rfl Inner.nil))) (inner_directives ds)

theorem inner_varDefs : ∀ vs, Inner (traverseVarDefs vs)
  | [] => by simp [traverseVarDefs, Inner]
  | v :: vs => by
      simp only [traverseVarDefs]
      refine Inner.append (Inner.cons rfl (Inner.append ?_ (Inner.cons rfl Inner.nil))) (inner_varDefs vs)
      cases v.default with
      | none => exact Inner.nil
      | some dv => exact inner_value dv

mutual
theorem inner_selection : ∀ x, Inner (traverseSelection x)
  | .field pos alias name args dirs sel => by
      simp only [traverseSelection]
      exact Inner.cons rfl (Inner.append (Inner.append (Inner.append (inner_arguments args) (inner_directives dirs))
        (Inner.cons rfl (Inner.append (inner_selections sel) (Inner.cons rfl Inner.nil)))) (Inner.cons rfl Inner.nil))
  | .spread pos name dirs => by
      simp only [traverseSelection]
      exact Inner.cons rfl (Inner.append (inner_directives dirs) (Inner.cons rfl Inner.nil))
  | .inline pos tc dirs sel => by
      simp only [traverseSelection]
      exact Inner.cons rfl (Inner.append (Inner.append (inner_directives dirs)
        (Inner.cons rfl (Inner.append (inner_selections sel) (Inner.cons rfl Inner.nil)))) (Inner.cons rfl Inner.nil))
theorem inner_selections : ∀ xs, Inner (traverseSelections xs)
  | [] => by simp [traverseSelections, Inner]
  | x :: xs => by simp only [traverseSelections]; exact (inner_selection x).append (inner_selections xs)
end

theorem inner_selectionSet (sel : List Selection) : Inner (traverseSelectionSet sel) := by
  simp only [traverseSelectionSet]
  exact Inner.cons rfl (Inner.append (inner_selections sel) (Inner.cons rfl Inner.nil))

theorem Inner.not_enter_op {l : List Ev} (h : Inner l) (o : Operation) : Ev.enter (.operation o) ∉ l :=
  fun hm => by have := h _ hm; simp [Ev.node, Node.isDefinitionLevel] at this
theorem Inner.not_enter_frag {l : List Ev} (h : Inner l) (f : FragDef) : Ev.enter (.fragmentDef f) ∉ l :=
  fun hm => by have := h _ hm; simp [Ev.node, Node.isDefinitionLevel] at this

/-- the definition-level `enter` events of a definition list -/
theorem enter_operation_mem_definitions (o : Operation) :
    ∀ ds : List Definition, Ev.enter (.operation o) ∈ traverseDefinitions ds ↔ Definition.op o ∈ ds
  | [] => by simp [traverseDefinitions]
  | .frag f :: ds => by
      simp [traverseDefinitions, traverseDefinition, enter_operation_mem_definitions o ds,
        (inner_directives f.dirs).not_enter_op, (inner_selectionSet f.sel).not_enter_op]
  | .op o' :: ds => by
      simp [traverseDefinitions, traverseDefinition, enter_operation_mem_definitions o ds,
        (inner_directives o'.dirs).not_enter_op, (inner_varDefs o'.vars).not_enter_op,
        (inner_selectionSet o'.sel).not_enter_op]

theorem enter_fragmentDef_mem_definitions (f : FragDef) :
    ∀ ds : List Definition, Ev.enter (.fragmentDef f) ∈ traverseDefinitions ds ↔ Definition.frag f ∈ ds
  | [] => by simp [traverseDefinitions]
  | .op o' :: ds => by
      simp [traverseDefinitions, traverseDefinition, enter_fragmentDef_mem_definitions f ds,
        (inner_directives o'.dirs).not_enter_frag, (inner_varDefs o'.vars).not_enter_frag,
        (inner_selectionSet o'.sel).not_enter_frag]
  | .frag f' :: ds => by
      simp [traverseDefinitions, traverseDefinition, enter_fragmentDef_mem_definitions f ds,
        (inner_directives f'.dirs).not_enter_frag, (inner_selectionSet f'.sel).not_enter_frag]

theorem mem_operations_iff (d : Document) (o : Operation) : o ∈ d.operations ↔ Definition.op o ∈ d := by
  induction d with
  | nil => simp [Document.operations]
  | cons x xs ih => cases x <;> simp [Document.operations, ih]

theorem mem_fragments_iff (d : Document) (f : FragDef) : f ∈ d.fragments ↔ Definition.frag f ∈ d := by
  induction d with
  | nil => simp [Document.fragments]
  | cons x xs ih => cases x <;> simp [Document.fragments, ih]

/-- events of the walk, when it is defined -/
theorem walkOf_events (s : Schema) (d : Document) (hq : s.queryType.isSome = true) :
    (walkOf s d).map Prod.fst = traverseDocument d := by
  cases hv : visitDocument s d with
  | none =>
    obtain ⟨o, _, _, hnone⟩ := (C15.visit_none_iff s d).1 hv
    simp [hnone] at hq
  | some v =>
    have hl := visitDocument_lexical s d
    rw [hv] at hl
    obtain ⟨t, ht, _⟩ := hl Stacks.empty
    have : Stacks.empty.snap = Snap.empty := rfl
    rw [this] at ht
    simp only [walkOf, ht, Option.getD_some]
    exact walkDocument_events s _ d t ht

theorem enter_operation_in_walk (s : Schema) (d : Document) (hq : s.queryType.isSome = true) (o : Operation) :
    (∃ env, (Ev.enter (.operation o), env) ∈ walkOf s d) ↔ o ∈ d.operations := by
  have h := walkOf_events s d hq
  have : (∃ env, (Ev.enter (.operation o), env) ∈ walkOf s d) ↔ Ev.enter (.operation o) ∈ (walkOf s d).map Prod.fst := by
    simp [List.mem_map]
  rw [this, h, mem_operations_iff]
  simp [traverseDocument, enter_operation_mem_definitions]

theorem enter_fragmentDef_in_walk (s : Schema) (d : Document) (hq : s.queryType.isSome = true) (f : FragDef) :
    (∃ env, (Ev.enter (.fragmentDef f), env) ∈ walkOf s d) ↔ f ∈ d.fragments := by
  have h := walkOf_events s d hq
  have : (∃ env, (Ev.enter (.fragmentDef f), env) ∈ walkOf s d) ↔ Ev.enter (.fragmentDef f) ∈ (walkOf s d).map Prod.fst := by
    simp [List.mem_map]
  rw [this, h, mem_fragments_iff]
  simp [traverseDocument, enter_fragmentDef_mem_definitions]

end Gql

namespace Gql

/-- the operation carried by an `enter operation` callback -/
def enterOp? : Ev → Option Operation
  | .enter (.operation o) => some o
  | _ => none

theorem Inner.filterMap_enterOp {l : List Ev} (h : Inner l) : l.filterMap enterOp? = [] := by
  rw [List.filterMap_eq_nil_iff]
  intro e he
  have := h e he
  cases e with
  | enter n => cases n <;> simp [Ev.node, Node.isDefinitionLevel] at this <;> rfl
  | leave n => rfl

theorem filterMap_enterOp_definitions :
    ∀ ds : List Definition, (traverseDefinitions ds).filterMap enterOp? = Document.operations ds
  | [] => by simp [traverseDefinitions, Document.operations]
  | .frag f :: ds => by
      simp [traverseDefinitions, traverseDefinition, List.filterMap_append, List.filterMap_cons, enterOp?,
        (inner_directives f.dirs).filterMap_enterOp, (inner_selectionSet f.sel).filterMap_enterOp,
        filterMap_enterOp_definitions ds, Document.operations]
  | .op o :: ds => by
      simp [traverseDefinitions, traverseDefinition, List.filterMap_append, List.filterMap_cons, enterOp?,
        (inner_directives o.dirs).filterMap_enterOp, (inner_varDefs o.vars).filterMap_enterOp,
        (inner_selectionSet o.sel).filterMap_enterOp, filterMap_enterOp_definitions ds, Document.operations]

/-- the operations are entered in document order, each once -/
theorem filterMap_enterOp_document (d : Document) : (traverseDocument d).filterMap enterOp? = d.operations := by
  simp [traverseDocument, List.filterMap_append, List.filterMap_cons, enterOp?, filterMap_enterOp_definitions]

theorem Inner.not_enter_doc {l : List Ev} (h : Inner l) (d' : Document) : Ev.enter (.document d') ∉ l :=
  fun hm => by have := h _ hm; simp [Ev.node, Node.isDefinitionLevel] at this

theorem not_enter_document_definitions (d' : Document) :
    ∀ ds : List Definition, Ev.enter (.document d') ∉ traverseDefinitions ds
  | [] => by simp [traverseDefinitions]
  | .frag f :: ds => by
      simp [traverseDefinitions, traverseDefinition, not_enter_document_definitions d' ds,
        (inner_directives f.dirs).not_enter_doc, (inner_selectionSet f.sel).not_enter_doc]
  | .op o :: ds => by
      simp [traverseDefinitions, traverseDefinition, not_enter_document_definitions d' ds,
        (inner_directives o.dirs).not_enter_doc, (inner_varDefs o.vars).not_enter_doc,
        (inner_selectionSet o.sel).not_enter_doc]

/-- the only `enter document` callback carries the document itself -/
theorem enter_document_in_walk (s : Schema) (d : Document) (hq : s.queryType.isSome = true) (d' : Document) :
    (∃ env, (Ev.enter (.document d'), env) ∈ walkOf s d) ↔ d' = d := by
  have h := walkOf_events s d hq
  have : (∃ env, (Ev.enter (.document d'), env) ∈ walkOf s d) ↔ Ev.enter (.document d') ∈ (walkOf s d).map Prod.fst := by
    simp [List.mem_map]
  rw [this, h]
  simp [traverseDocument, not_enter_document_definitions d' d]

end Gql
