/-
  Lemmas/Rules.lean — generic facts about rules as folds.
-/
import GqlVerif.Model.Validate
namespace Gql

theorem foldl_step_errs (r : Rule) (s : Schema) (d : Document) (P : Err → Prop)
    (hon : ∀ σ e, ∀ x ∈ (r.on s d σ e).2, P x) :
    ∀ (tr : Trace) (acc : r.σ × List Err), (∀ x ∈ acc.2, P x) →
      ∀ x ∈ (tr.foldl (r.step s d) acc).2, P x := by
  intro tr
  induction tr with
  | nil => intro acc h; simpa using h
  | cons e tr ih =>
    intro acc h
    simp only [List.foldl_cons]
    apply ih
    intro x hx
    simp only [Rule.step, List.mem_append] at hx
    rcases hx with hx | hx
    · exact h x hx
    · exact hon _ _ x hx

/-- a property of all errors a rule can emit locally holds for everything it reports -/
theorem runOn_all (r : Rule) (s : Schema) (d : Document) (P : Err → Prop)
    (hon : ∀ σ e, ∀ x ∈ (r.on s d σ e).2, P x) (hfin : ∀ σ, ∀ x ∈ r.finish s d σ, P x)
    (tr : Trace) : ∀ x ∈ r.runOn s d tr, P x := by
  intro x hx
  simp only [Rule.runOn, List.mem_append] at hx
  rcases hx with hx | hx
  · exact foldl_step_errs r s d P hon tr (r.init, []) (by simp) x hx
  · exact hfin _ x hx

theorem flatMap_ne_nil_iff {α β : Type} (f : α → List β) (l : List α) :
    l.flatMap f ≠ [] ↔ ∃ a ∈ l, f a ≠ [] := by
  induction l with
  | nil => simp
  | cons x xs ih =>
    simp only [List.flatMap_cons, List.mem_cons, exists_eq_or_imp]
    constructor
    · intro h
      cases hx : f x with
      | nil =>
        right; apply ih.1; intro hxs; apply h; simp [hx, hxs]
      | cons y ys => left; simp
    · rintro (h | h)
      · intro h'; exact h (List.append_eq_nil_iff.1 h').1
      · intro h'; exact ih.2 h (List.append_eq_nil_iff.1 h').2

/-- if the errors a rule reports at a callback do not depend on its state, its report is the
    concatenation of the per-callback reports followed by the final step -/
theorem runOn_of_local (r : Rule) (s : Schema) (d : Document) (check : Ev × Snap → List Err)
    (h : ∀ σ e, (r.on s d σ e).2 = check e) (tr : Trace) :
    ∃ σ', r.runOn s d tr = tr.flatMap check ++ r.finish s d σ' := by
  have key : ∀ (tr : Trace) (acc : r.σ × List Err),
      ∃ σ', tr.foldl (r.step s d) acc = (σ', acc.2 ++ tr.flatMap check) := by
    intro tr
    induction tr with
    | nil => intro acc; exact ⟨acc.1, by simp⟩
    | cons e tr ih =>
      intro acc
      obtain ⟨σ', h'⟩ := ih (r.step s d acc e)
      refine ⟨σ', ?_⟩
      rw [List.foldl_cons, h']
      simp [Rule.step, h, List.append_assoc]
  obtain ⟨σ', h'⟩ := key tr (r.init, [])
  exact ⟨σ', by simp [Rule.runOn, h']⟩

/-- a stateless rule reports the concatenation of its per-callback checks -/
theorem stateless_runOn (check : Schema → Document → Ev × Snap → List Err) (s : Schema) (d : Document)
    (tr : Trace) : (Rule.stateless check).runOn s d tr = tr.flatMap (check s d) := by
  obtain ⟨σ', h⟩ := runOn_of_local (Rule.stateless check) s d (check s d) (fun _ _ => rfl) tr
  rw [h]
  show _ ++ [] = _
  simp

/-! ### "every error in this list has code `c`" -/
def AllCode (c : RuleId) (l : List Err) : Prop := ∀ x ∈ l, x.code = c

@[simp] theorem allCode_nil (c : RuleId) : AllCode c [] := by simp [AllCode]
@[simp] theorem allCode_cons (c : RuleId) (x : Err) (l : List Err) :
    AllCode c (x :: l) ↔ x.code = c ∧ AllCode c l := by simp [AllCode]
@[simp] theorem allCode_append (c : RuleId) (a b : List Err) :
    AllCode c (a ++ b) ↔ AllCode c a ∧ AllCode c b := by
  simp only [AllCode, List.mem_append]
  exact ⟨fun h => ⟨fun x hx => h x (Or.inl hx), fun x hx => h x (Or.inr hx)⟩,
    fun h x hx => hx.elim (h.1 x) (h.2 x)⟩
@[simp] theorem allCode_map {α : Type} (c : RuleId) (f : α → Err) (l : List α) :
    AllCode c (l.map f) ↔ ∀ a ∈ l, (f a).code = c := by
  simp [AllCode]
@[simp] theorem allCode_flatMap {α : Type} (c : RuleId) (f : α → List Err) (l : List α) :
    AllCode c (l.flatMap f) ↔ ∀ a ∈ l, AllCode c (f a) := by
  simp only [AllCode, List.mem_flatMap]
  exact ⟨fun h a ha x hx => h x ⟨a, ha, hx⟩, fun h x ⟨a, ha, hx⟩ => h a ha x hx⟩
@[simp] theorem allCode_filterMap {α : Type} (c : RuleId) (f : α → Option Err) (l : List α) :
    AllCode c (l.filterMap f) ↔ ∀ a ∈ l, ∀ b, f a = some b → b.code = c := by
  simp only [AllCode, List.mem_filterMap]
  exact ⟨fun h a ha b hb => h b ⟨a, ha, hb⟩, fun h x ⟨a, ha, hx⟩ => h a ha x hx⟩
@[simp] theorem allCode_ite (c : RuleId) (p : Prop) [Decidable p] (a b : List Err) :
    AllCode c (if p then a else b) ↔ (p → AllCode c a) ∧ (¬p → AllCode c b) := by
  split <;> simp_all

end Gql
