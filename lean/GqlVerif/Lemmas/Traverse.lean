/-
  Lemmas/Traverse.lean — forgetting the environment, `walk*` is the plain pre/post-order
  traversal `traverse*`, whatever the schema and the environment.
-/
import GqlVerif.Spec.Walk
namespace Gql

mutual
theorem walkValue_events (s : Schema) (e : Snap) : ∀ v, (walkValue s e v).map Prod.fst = traverseValue v
  | .bool b => by simp [walkValue, traverseValue]
  | .float f => by simp [walkValue, traverseValue]
  | .int i => by simp [walkValue, traverseValue]
  | .str x => by simp [walkValue, traverseValue]
  | .null => by simp [walkValue, traverseValue]
  | .enum n => by simp [walkValue, traverseValue]
  | .var n => by simp [walkValue, traverseValue]
  | .list vs => by simp [walkValue, traverseValue, walkValues_events s _ vs]
  | .obj fs => by simp [walkValue, traverseValue, walkObjFields_events s e fs]
theorem walkValues_events (s : Schema) (e : Snap) :
    ∀ vs, (walkValues s e vs).map Prod.fst = traverseValues vs
  | [] => by simp [walkValues, traverseValues]
  | v :: vs => by simp [walkValues, traverseValues, walkValue_events s e v, walkValues_events s e vs]
theorem walkObjFields_events (s : Schema) (e : Snap) :
    ∀ fs, (walkObjFields s e fs).map Prod.fst = traverseObjFields fs
  | [] => by simp [walkObjFields, traverseObjFields]
  | (k, v) :: fs => by
      simp [walkObjFields, traverseObjFields, walkValue_events s _ v, walkObjFields_events s e fs]
end

theorem walkArguments_events (s : Schema) (defs : Option (List InputValueDef)) (e : Snap) :
    ∀ as, (walkArguments s defs e as).map Prod.fst = traverseArguments as
  | [] => by simp [walkArguments, traverseArguments]
  | a :: as => by
      simp [walkArguments, traverseArguments, walkValue_events, walkArguments_events s defs e as]

theorem walkDirectives_events (s : Schema) (e : Snap) :
    ∀ ds, (walkDirectives s e ds).map Prod.fst = traverseDirectives ds
  | [] => by simp [walkDirectives, traverseDirectives]
  | d :: ds => by
      simp [walkDirectives, traverseDirectives, walkArguments_events, walkDirectives_events s e ds]

theorem walkVarDefs_events (s : Schema) (e : Snap) :
    ∀ vs, (walkVarDefs s e vs).map Prod.fst = traverseVarDefs vs
  | [] => by simp [walkVarDefs, traverseVarDefs]
  | v :: vs => by
      cases hd : v.default <;>
        simp [walkVarDefs, traverseVarDefs, hd, walkValue_events, walkVarDefs_events s e vs]

mutual
theorem walkSelection_events (s : Schema) (e : Snap) :
    ∀ x, (walkSelection s e x).map Prod.fst = traverseSelection x
  | .field pos alias name args dirs sel => by
      simp [walkSelection, traverseSelection, walkArguments_events, walkDirectives_events,
        walkSelectionSetWith, walkSelections_events s _ sel]
  | .spread pos name dirs => by simp [walkSelection, traverseSelection, walkDirectives_events]
  | .inline pos tc dirs sel => by
      cases tc <;>
        simp [walkSelection, traverseSelection, walkDirectives_events,
          walkSelectionSetWith, walkSelections_events s _ sel]
theorem walkSelections_events (s : Schema) (e : Snap) :
    ∀ xs, (walkSelections s e xs).map Prod.fst = traverseSelections xs
  | [] => by simp [walkSelections, traverseSelections]
  | x :: xs => by
      simp [walkSelections, traverseSelections, walkSelection_events s e x, walkSelections_events s e xs]
end

theorem walkSelectionSet_events (s : Schema) (e : Snap) (sel : List Selection) :
    (walkSelectionSet s e sel).map Prod.fst = traverseSelectionSet sel := by
  simp [walkSelectionSet, walkSelectionSetWith, traverseSelectionSet, walkSelections_events s _ sel]

theorem walkDefinition_events (s : Schema) (e : Snap) (d : Definition) (t : Trace)
    (h : walkDefinition s e d = some t) : t.map Prod.fst = traverseDefinition d := by
  cases d with
  | frag f =>
    simp [walkDefinition] at h
    subst h
    simp [traverseDefinition, walkDirectives_events, walkSelectionSet_events]
  | op o =>
    simp [walkDefinition] at h
    obtain ⟨tn, _, rfl⟩ := h
    simp [traverseDefinition, walkDirectives_events, walkVarDefs_events, walkSelectionSet_events]

theorem walkDefinitions_events (s : Schema) (e : Snap) :
    ∀ ds t, walkDefinitions s e ds = some t → t.map Prod.fst = traverseDefinitions ds
  | [], t, h => by simp [walkDefinitions] at h; subst h; simp [traverseDefinitions]
  | d :: ds, t, h => by
      simp only [walkDefinitions] at h
      cases h1 : walkDefinition s e d with
      | none => simp [h1] at h
      | some a =>
        cases h2 : walkDefinitions s e ds with
        | none => simp [h1, h2] at h
        | some b =>
          simp [h1, h2] at h
          subst h
          simp [traverseDefinitions, walkDefinition_events s e d a h1, walkDefinitions_events s e ds b h2]

theorem walkDocument_events (s : Schema) (e : Snap) (d : Document) (t : Trace)
    (h : walkDocument s e d = some t) : t.map Prod.fst = traverseDocument d := by
  simp only [walkDocument] at h
  cases h1 : walkDefinitions s e d with
  | none => simp [h1] at h
  | some a =>
    simp [h1] at h
    subst h
    simp [traverseDocument, walkDefinitions_events s e d a h1]

end Gql
