/-
  Lemmas/Fires.lean — "rule r fires on (s, d)" and its connection to `validate` and to the
  declarative walk.
-/
import GqlVerif.Lemmas.Visit
import GqlVerif.Lemmas.Rules
import GqlVerif.Thm.C15
namespace Gql

/-- the callbacks with their type environment, as prescribed by the schema (Spec/Walk.lean) -/
def walkOf (s : Schema) (d : Document) : Trace := (walkDocument s Snap.empty d).getD []

/-- what rule `r` reports when run alone -/
def errsOf (r : RuleId) (s : Schema) (d : Document) : List Err := (ruleOf r).runOn s d (walkOf s d)

/-- rule `r`, run alone, reports at least one error -/
def fires (r : RuleId) (s : Schema) (d : Document) : Prop := errsOf r s d ≠ []

instance (r : RuleId) (s : Schema) (d : Document) : Decidable (fires r s d) :=
  decidable_of_iff ((errsOf r s d).isEmpty = false) (by simp [fires, List.isEmpty_eq_false_iff])

/-- on a schema with a query root object type, `validate` with the one-rule plan returns exactly
    `errsOf` (never panics) -/
theorem validate_single_eq (s : Schema) (d : Document) (r : RuleId) (hq : s.queryType.isSome = true) :
    validate s d [r] = some (errsOf r s d) := by
  cases hv : visitDocument s d with
  | none =>
    obtain ⟨o, _, _, hnone⟩ := (C15.visit_none_iff s d).1 hv
    simp [hnone] at hq
  | some v =>
    have hl := visitDocument_lexical s d
    rw [hv] at hl
    obtain ⟨t, ht, hst⟩ := hl Stacks.empty
    simp only [validate, validateGrouped, hv, Option.map_some, runPlan, hst, List.flatten_cons,
      List.flatten_nil, List.append_nil, errsOf, walkOf]
    have : Stacks.empty.snap = Snap.empty := rfl
    rw [this] at ht
    simp [ht]

theorem stateless_fires_iff (check : Schema → Document → Ev × Snap → List Err) (s : Schema)
    (d : Document) (tr : Trace) :
    (Rule.stateless check).runOn s d tr ≠ [] ↔ ∃ e ∈ tr, check s d e ≠ [] := by
  rw [stateless_runOn]
  simp [List.flatMap_eq_nil_iff]

end Gql
