/-
  Lemmas/MergeRank.lean — a rank for fragments of a document without fragment cycles: `Dr d nm`
  is strictly larger than the rank of every fragment spread *anywhere* inside the definition of
  `nm` (through fields, inline fragments, at any depth).  The completeness proof of the
  field-merging rule uses it twice: the pairs of fragments whose comparison is still in progress
  (entered in the memo table before the work is done) all rank above every comparison made
  underneath, so an unfinished entry is never relied on; and a fragment met again on the way down
  through nested spreads cannot be one that is still being expanded.
-/
import GqlVerif.Lemmas.MergeTerm
namespace Gql
open Gql.Spec

mutual
/-- one more than the largest rank of a fragment spread anywhere inside -/
def rSelW (sp : Name → Nat) : Selection → Nat
  | .field _ _ _ _ _ sel => rSelsW sp sel
  | .spread _ nm _ => sp nm + 1
  | .inline _ _ _ sel => rSelsW sp sel
def rSelsW (sp : Name → Nat) : List Selection → Nat
  | [] => 0
  | x :: xs => max (rSelW sp x) (rSelsW sp xs)
end

def drH (d : Document) : Nat → Name → Nat
  | 0, _ => 0
  | k + 1, nm =>
    match d.fragByName nm with
    | some fr => rSelsW (drH d k) fr.sel
    | none => 0

mutual
theorem rSelW_congr (sp1 sp2 : Name → Nat) : ∀ x : Selection,
    (∀ nm ∈ (recursiveSpreadsSel x).map (·.name), sp1 nm = sp2 nm) → rSelW sp1 x = rSelW sp2 x
  | .field _ _ _ _ _ sel, h => by
      simp only [rSelW]
      exact rSelsW_congr sp1 sp2 sel (fun nm hnm => h nm (by simpa [recursiveSpreadsSel] using hnm))
  | .spread _ nm _, h => by
      simp only [rSelW]
      rw [h nm (by simp [recursiveSpreadsSel])]
  | .inline _ _ _ sel, h => by
      simp only [rSelW]
      exact rSelsW_congr sp1 sp2 sel (fun nm hnm => h nm (by simpa [recursiveSpreadsSel] using hnm))
theorem rSelsW_congr (sp1 sp2 : Name → Nat) : ∀ xs : List Selection,
    (∀ nm ∈ (recursiveSpreads xs).map (·.name), sp1 nm = sp2 nm) → rSelsW sp1 xs = rSelsW sp2 xs
  | [], _ => by simp [rSelsW]
  | x :: xs, h => by
      simp only [rSelsW]
      rw [rSelW_congr sp1 sp2 x (fun nm hnm => h nm (by simp only [recursiveSpreads, List.map_append, List.mem_append]; exact Or.inl hnm)),
        rSelsW_congr sp1 sp2 xs (fun nm hnm => h nm (by simp only [recursiveSpreads, List.map_append, List.mem_append]; exact Or.inr hnm))]
end

theorem drH_stable (d : Document) : ∀ (k : Nat) (nm : Name), ChainBound (fullSucc d) k nm →
    ∀ m, k + 1 ≤ m → drH d m nm = drH d (k + 1) nm
  | k, nm, hb, m, hm => by
      obtain ⟨m', rfl⟩ : ∃ m', m = m' + 1 := ⟨m - 1, by omega⟩
      simp only [drH]
      cases hf : d.fragByName nm with
      | none => rfl
      | some fr =>
        simp only
        apply rSelsW_congr
        intro nm' hnm'
        have hs : nm' ∈ fullSucc d nm := by simp only [fullSucc, hf]; exact hnm'
        match k, hb with
        | 0, hb =>
          simp only [ChainBound] at hb
          rw [hb] at hs; cases hs
        | k + 1, hb =>
          have hb' : ChainBound (fullSucc d) k nm' := hb nm' hs
          rw [drH_stable d k nm' hb' m' (by omega)]

/-- the rank of a fragment name -/
def Dr (d : Document) (nm : Name) : Nat := drH d (d.fragments.length + 1) nm
/-- the rank of a selection set: above every fragment spread anywhere inside -/
def Rs (d : Document) (sel : List Selection) : Nat := rSelsW (Dr d) sel

theorem Dr_eq (d : Document) (hac : ¬ FragmentCycle d) (nm : Name) :
    Dr d nm = match d.fragByName nm with | some fr => Rs d fr.sel | none => 0 := by
  have hb : ∀ nm', ChainBound (fullSucc d) d.fragments.length nm' :=
    fun nm' => chainBound_acyclic d (fullSucc d) (fullSucc_spreadSucc d) hac nm'
  have h1 : drH d (d.fragments.length + 2) nm = Dr d nm := drH_stable d _ nm (hb nm) _ (by omega)
  rw [← h1]
  simp only [drH]
  cases hf : d.fragByName nm with
  | none => rfl
  | some fr => rfl

theorem Dr_some (d : Document) (hac : ¬ FragmentCycle d) (nm : Name) (fr : FragDef) (h : d.fragByName nm = some fr) :
    Dr d nm = Rs d fr.sel := by
  rw [Dr_eq d hac nm, h]

mutual
theorem lt_rSelW_of_top (sp : Name → Nat) : ∀ (x : Selection) (nm : Name), nm ∈ topSpreadsSel x → sp nm + 1 ≤ rSelW sp x
  | .field _ _ _ _ _ _, nm, h => by simp [topSpreadsSel] at h
  | .spread _ n _, nm, h => by
      simp only [topSpreadsSel, List.mem_singleton] at h
      subst h; simp [rSelW]
  | .inline _ _ _ sel, nm, h => by
      simp only [topSpreadsSel] at h
      simp only [rSelW]
      exact lt_rSelsW_of_top sp sel nm h
theorem lt_rSelsW_of_top (sp : Name → Nat) : ∀ (xs : List Selection) (nm : Name), nm ∈ topSpreads xs → sp nm + 1 ≤ rSelsW sp xs
  | [], nm, h => by simp [topSpreads] at h
  | x :: xs, nm, h => by
      simp only [topSpreads, List.mem_append] at h
      simp only [rSelsW]
      rcases h with h | h
      · have := lt_rSelW_of_top sp x nm h; omega
      · have := lt_rSelsW_of_top sp xs nm h; omega
end

mutual
/-- the rank of a collected field's own selection set is at most that of the set it was collected from -/
theorem rs_field_sel (s : Schema) (sp : Name → Nat) : ∀ (x : Selection) (parent : Option TypeDef) (a : AstAndDef),
    a ∈ specFieldsSelWith s (fun _ => []) parent x → rSelsW sp a.field.sel ≤ rSelW sp x
  | .field pos alias name args dirs sel, parent, a, h => by
      simp only [specFieldsSelWith, List.mem_singleton] at h
      subst h; simp [rSelW]
  | .spread _ _ _, _, a, h => by simp [specFieldsSelWith] at h
  | .inline _ tc _ sel, parent, a, h => by
      simp only [specFieldsSelWith] at h
      simp only [rSelW]
      exact rs_field_sels s sp sel _ a h
theorem rs_field_sels (s : Schema) (sp : Name → Nat) : ∀ (xs : List Selection) (parent : Option TypeDef) (a : AstAndDef),
    a ∈ specFieldsWith s (fun _ => []) parent xs → rSelsW sp a.field.sel ≤ rSelsW sp xs
  | [], _, a, h => by simp [specFieldsWith] at h
  | x :: xs, parent, a, h => by
      simp only [specFieldsWith, List.mem_append] at h
      simp only [rSelsW]
      rcases h with h | h
      · have := rs_field_sel s sp x parent a h; omega
      · have := rs_field_sels s sp xs parent a h; omega
end

/-- the fields `get_fields_and_fragment_names` returns: their own selection sets rank no higher -/
theorem fafn_rank (s : Schema) (d : Document) (parent : Option TypeDef) (sel : List Selection) (a : AstAndDef)
    (h : FM (fieldsAndFragmentNames s parent sel).1 a) : Rs d a.field.sel ≤ Rs d sel := by
  unfold fieldsAndFragmentNames at h
  rcases collectSels_fields s sel parent ([], []) a h with h | h
  · obtain ⟨kv, hkv, _⟩ := h; simp at hkv
  · exact rs_field_sels s (Dr d) sel parent a h

/-- the names it returns rank strictly below the selection set -/
theorem fafn_name_rank (s : Schema) (d : Document) (parent : Option TypeDef) (sel : List Selection) (nm : Name)
    (h : nm ∈ (fieldsAndFragmentNames s parent sel).2) : Dr d nm + 1 ≤ Rs d sel :=
  lt_rSelsW_of_top (Dr d) sel nm (fafn_top s parent sel nm h)

end Gql
