/-
  Lemmas/CollectSet.lean — which fields CollectFields gathers, as a SET: those reachable from the
  selection set through applicable inline fragments and applicable named fragments (`Gets`), no
  matter in which order the selections come (each named fragment is expanded at most once, at
  whichever spread of it is met first).  With it, 'single field subscriptions' does not depend on
  the order of selections either.
-/
import GqlVerif.Thm.C14d
import GqlVerif.Thm.C19
namespace Gql
open Gql.Spec

section
variable (s : Schema) (d : Document) (R : TypeDef)

/-- `f` is a field of the selection set, directly or inside inline fragments that apply -/
inductive Direct : List Selection → FieldNode → Prop
  | here {sel : List Selection} {f : FieldNode} : f.toSel ∈ sel → Direct sel f
  | inl {sel sub : List Selection} {pos : Pos} {tc : Option Name} {dirs : List Directive} {f : FieldNode} :
      Selection.inline pos tc dirs sub ∈ sel → Applies s R tc → Direct sub f → Direct sel f

/-- a spread of `n` sits in the selection set, directly or inside inline fragments that apply -/
inductive DirectSpread : List Selection → Name → Prop
  | here {sel : List Selection} {pos : Pos} {n : Name} {dirs : List Directive} : Selection.spread pos n dirs ∈ sel → DirectSpread sel n
  | inl {sel sub : List Selection} {pos : Pos} {tc : Option Name} {dirs : List Directive} {n : Name} :
      Selection.inline pos tc dirs sub ∈ sel → Applies s R tc → DirectSpread sub n → DirectSpread sel n

/-- `f` is gathered from the selection set: through applicable inline fragments and applicable named fragments -/
inductive Gets : List Selection → FieldNode → Prop
  | direct {sel : List Selection} {f : FieldNode} : Direct s R sel f → Gets sel f
  | spread {sel : List Selection} {n : Name} {frag : FragDef} {f : FieldNode} : DirectSpread s R sel n →
      d.fragByName n = some frag → Applies s R (some frag.tc) → Gets frag.sel f → Gets sel f

variable {s d R}

theorem Direct.tail {x : Selection} {sel : List Selection} {f : FieldNode} (h : Direct s R sel f) : Direct s R (x :: sel) f := by
  cases h with
  | here hm => exact .here (List.mem_cons_of_mem _ hm)
  | inl hm ha hd => exact .inl (List.mem_cons_of_mem _ hm) ha hd
theorem DirectSpread.tail {x : Selection} {sel : List Selection} {n : Name} (h : DirectSpread s R sel n) : DirectSpread s R (x :: sel) n := by
  cases h with
  | here hm => exact .here (List.mem_cons_of_mem _ hm)
  | inl hm ha hd => exact .inl (List.mem_cons_of_mem _ hm) ha hd
theorem Gets.tail {x : Selection} {sel : List Selection} {f : FieldNode} (h : Gets s d R sel f) : Gets s d R (x :: sel) f := by
  cases h with
  | direct hd => exact .direct hd.tail
  | spread hs hf ha hg => exact .spread hs.tail hf ha hg

/-- soundness: what is collected is gathered -/
theorem gets_of_collects {sel : List Selection} {vis vis' : List Name} {fs : List FieldNode}
    (h : Collects s d R sel vis fs vis') : ∀ f ∈ fs, Gets s d R sel f := by
  induction h with
  | nil vis => intro f hf; simp at hf
  | field _ ih =>
    intro f hf
    rcases List.mem_cons.1 hf with rfl | hf
    · exact .direct (.here (by simp [FieldNode.toSel]))
    · exact (ih f hf).tail
  | spreadVisited _ _ ih => intro f hf; exact (ih f hf).tail
  | spreadUnknown _ _ _ ih => intro f hf; exact (ih f hf).tail
  | spreadSkip _ _ _ _ ih => intro f hf; exact (ih f hf).tail
  | spreadExpand _ hfr ha _ _ ih1 ih2 =>
    intro f hf
    rcases List.mem_append.1 hf with hf | hf
    · exact .spread (.here List.mem_cons_self) hfr ha (ih1 f hf)
    · exact (ih2 f hf).tail
  | inlineSkip _ _ ih => intro f hf; exact (ih f hf).tail
  | inlineExpand ha _ _ ih1 ih2 =>
    intro f hf
    rcases List.mem_append.1 hf with hf | hf
    · -- lift what the inline fragment's selections gather
      have key : ∀ {sub : List Selection} {g : FieldNode}, Gets s d R sub g →
          ∀ {pos tc dirs rest}, Applies s R tc → Gets s d R (Selection.inline pos tc dirs sub :: rest) g := by
        intro sub g hg pos tc dirs rest hap
        cases hg with
        | direct hd => exact .direct (.inl List.mem_cons_self hap hd)
        | spread hs hfr' ha' hg' => exact .spread (.inl List.mem_cons_self hap hs) hfr' ha' hg'
      exact key (ih1 f hf) ha
    · exact (ih2 f hf).tail

/-- what one collection establishes, for completeness -/
structure CollClosed (sel : List Selection) (vis : List Name) (fs : List FieldNode) (vis' : List Name) : Prop where
  mono : ∀ n ∈ vis, n ∈ vis'
  direct : ∀ f, Direct s R sel f → f ∈ fs
  spreads : ∀ n, DirectSpread s R sel n → n ∈ vis'
  frags : ∀ m ∈ vis', m ∉ vis → ∀ frag, d.fragByName m = some frag → Applies s R (some frag.tc) →
    (∀ f, Direct s R frag.sel f → f ∈ fs) ∧ (∀ n, DirectSpread s R frag.sel n → n ∈ vis')

theorem direct_cons {x : Selection} {sel : List Selection} {f : FieldNode} (h : Direct s R (x :: sel) f) :
    (x = f.toSel) ∨ (∃ pos tc dirs sub, x = .inline pos tc dirs sub ∧ Applies s R tc ∧ Direct s R sub f) ∨ Direct s R sel f := by
  cases h with
  | here hm =>
    rcases List.mem_cons.1 hm with h | h
    · exact Or.inl h.symm
    · exact Or.inr (Or.inr (.here h))
  | inl hm ha hd =>
    rcases List.mem_cons.1 hm with h | h
    · exact Or.inr (Or.inl ⟨_, _, _, _, h.symm, ha, hd⟩)
    · exact Or.inr (Or.inr (.inl h ha hd))

theorem directSpread_cons {x : Selection} {sel : List Selection} {n : Name} (h : DirectSpread s R (x :: sel) n) :
    (∃ pos dirs, x = .spread pos n dirs) ∨ (∃ pos tc dirs sub, x = .inline pos tc dirs sub ∧ Applies s R tc ∧ DirectSpread s R sub n) ∨
      DirectSpread s R sel n := by
  cases h with
  | here hm =>
    rcases List.mem_cons.1 hm with h | h
    · exact Or.inl ⟨_, _, h.symm⟩
    · exact Or.inr (Or.inr (.here h))
  | inl hm ha hd =>
    rcases List.mem_cons.1 hm with h | h
    · exact Or.inr (Or.inl ⟨_, _, _, _, h.symm, ha, hd⟩)
    · exact Or.inr (Or.inr (.inl h ha hd))

theorem closed_of_collects {sel : List Selection} {vis vis' : List Name} {fs : List FieldNode}
    (h : Collects s d R sel vis fs vis') : CollClosed (s := s) (d := d) (R := R) sel vis fs vis' := by
  induction h with
  | nil vis =>
    exact ⟨fun n hn => hn, fun f hf => by cases hf with | here hm => simp at hm | inl hm _ _ => simp at hm,
      fun n hn => by cases hn with | here hm => simp at hm | inl hm _ _ => simp at hm, fun m hm hnm => absurd hm hnm⟩
  | @field pos alias name args dirs sel0 rest vis fs vis' _ ih =>
    refine ⟨ih.mono, ?_, ?_, ?_⟩
    · intro f hf
      rcases direct_cons hf with h | ⟨_, _, _, _, h, _, _⟩ | h
      · have : f = ⟨pos, alias, name, args, dirs, sel0⟩ := by
          cases f; simp only [FieldNode.toSel, Selection.field.injEq] at h
          obtain ⟨h1, h2, h3, h4, h5, h6⟩ := h
          subst h1 h2 h3 h4 h5 h6; rfl
        subst this; simp
      · cases h
      · exact List.mem_cons_of_mem _ (ih.direct f h)
    · intro n hn
      rcases directSpread_cons hn with ⟨_, _, h⟩ | ⟨_, _, _, _, h, _, _⟩ | h
      · cases h
      · cases h
      · exact ih.spreads n h
    · intro m hm hnm frag hfr ha
      obtain ⟨a, b⟩ := ih.frags m hm hnm frag hfr ha
      exact ⟨fun f hf => List.mem_cons_of_mem _ (a f hf), b⟩
  | @spreadVisited pos name dirs rest vis fs vis' hv _ ih =>
    refine ⟨ih.mono, ?_, ?_, ih.frags⟩
    · intro f hf
      rcases direct_cons hf with h | ⟨_, _, _, _, h, _, _⟩ | h
      · cases f; simp [FieldNode.toSel] at h
      · cases h
      · exact ih.direct f h
    · intro n hn
      rcases directSpread_cons hn with ⟨_, _, h⟩ | ⟨_, _, _, _, h, _, _⟩ | h
      · cases h; exact ih.mono _ hv
      · cases h
      · exact ih.spreads n h
  | @spreadUnknown pos name dirs rest vis fs vis' hv hfr _ ih =>
    have hm0 : ∀ n ∈ vis, n ∈ vis' := fun n hn => ih.mono n (by simp [hn])
    refine ⟨hm0, ?_, ?_, ?_⟩
    · intro f hf
      rcases direct_cons hf with h | ⟨_, _, _, _, h, _, _⟩ | h
      · cases f; simp [FieldNode.toSel] at h
      · cases h
      · exact ih.direct f h
    · intro n hn
      rcases directSpread_cons hn with ⟨_, _, h⟩ | ⟨_, _, _, _, h, _, _⟩ | h
      · cases h; exact ih.mono _ (by simp)
      · cases h
      · exact ih.spreads n h
    · intro m hm hnm frag hfm ha
      by_cases hmn : m = name
      · subst hmn; rw [hfr] at hfm; cases hfm
      · exact ih.frags m hm (by simp [hnm, hmn]) frag hfm ha
  | @spreadSkip pos name dirs rest vis fs vis' frag0 hv hfr hna _ ih =>
    have hm0 : ∀ n ∈ vis, n ∈ vis' := fun n hn => ih.mono n (by simp [hn])
    refine ⟨hm0, ?_, ?_, ?_⟩
    · intro f hf
      rcases direct_cons hf with h | ⟨_, _, _, _, h, _, _⟩ | h
      · cases f; simp [FieldNode.toSel] at h
      · cases h
      · exact ih.direct f h
    · intro n hn
      rcases directSpread_cons hn with ⟨_, _, h⟩ | ⟨_, _, _, _, h, _, _⟩ | h
      · cases h; exact ih.mono _ (by simp)
      · cases h
      · exact ih.spreads n h
    · intro m hm hnm frag hfm ha
      by_cases hmn : m = name
      · subst hmn; rw [hfr] at hfm; cases hfm; exact absurd ha hna
      · exact ih.frags m hm (by simp [hnm, hmn]) frag hfm ha
  | @spreadExpand pos name dirs rest vis fs1 vis1 fs2 vis2 frag0 hv hfr ha0 _ _ ih1 ih2 =>
    have hm0 : ∀ n ∈ vis, n ∈ vis2 := fun n hn => ih2.mono n (ih1.mono n (by simp [hn]))
    refine ⟨hm0, ?_, ?_, ?_⟩
    · intro f hf
      rcases direct_cons hf with h | ⟨_, _, _, _, h, _, _⟩ | h
      · cases f; simp [FieldNode.toSel] at h
      · cases h
      · exact List.mem_append_right _ (ih2.direct f h)
    · intro n hn
      rcases directSpread_cons hn with ⟨_, _, h⟩ | ⟨_, _, _, _, h, _, _⟩ | h
      · cases h; exact ih2.mono _ (ih1.mono _ (by simp))
      · cases h
      · exact ih2.spreads n h
    · intro m hm hnm frag hfm ha
      by_cases hmn : m = name
      · subst hmn
        rw [hfr] at hfm; cases hfm
        exact ⟨fun f hf => List.mem_append_left _ (ih1.direct f hf), fun n hn => ih2.mono n (ih1.spreads n hn)⟩
      · by_cases hm1 : m ∈ vis1
        · obtain ⟨a, b⟩ := ih1.frags m hm1 (by simp [hnm, hmn]) frag hfm ha
          exact ⟨fun f hf => List.mem_append_left _ (a f hf), fun n hn => ih2.mono n (b n hn)⟩
        · obtain ⟨a, b⟩ := ih2.frags m hm hm1 frag hfm ha
          exact ⟨fun f hf => List.mem_append_right _ (a f hf), b⟩
  | @inlineSkip pos tc dirs sub rest vis fs vis' hna _ ih =>
    refine ⟨ih.mono, ?_, ?_, ih.frags⟩
    · intro f hf
      rcases direct_cons hf with h | ⟨_, _, _, _, h, ha, _⟩ | h
      · cases f; simp [FieldNode.toSel] at h
      · cases h; exact absurd ha hna
      · exact ih.direct f h
    · intro n hn
      rcases directSpread_cons hn with ⟨_, _, h⟩ | ⟨_, _, _, _, h, ha, _⟩ | h
      · cases h
      · cases h; exact absurd ha hna
      · exact ih.spreads n h
  | @inlineExpand pos tc dirs sub rest vis fs1 vis1 fs2 vis2 hap _ _ ih1 ih2 =>
    have hm0 : ∀ n ∈ vis, n ∈ vis2 := fun n hn => ih2.mono n (ih1.mono n hn)
    refine ⟨hm0, ?_, ?_, ?_⟩
    · intro f hf
      rcases direct_cons hf with h | ⟨_, _, _, _, h, _, hd⟩ | h
      · cases f; simp [FieldNode.toSel] at h
      · cases h; exact List.mem_append_left _ (ih1.direct f hd)
      · exact List.mem_append_right _ (ih2.direct f h)
    · intro n hn
      rcases directSpread_cons hn with ⟨_, _, h⟩ | ⟨_, _, _, _, h, _, hd⟩ | h
      · cases h
      · cases h; exact ih2.mono n (ih1.spreads n hd)
      · exact ih2.spreads n h
    · intro m hm hnm frag hfm ha
      by_cases hm1 : m ∈ vis1
      · obtain ⟨a, b⟩ := ih1.frags m hm1 hnm frag hfm ha
        exact ⟨fun f hf => List.mem_append_left _ (a f hf), fun n hn => ih2.mono n (b n hn)⟩
      · obtain ⟨a, b⟩ := ih2.frags m hm hm1 frag hfm ha
        exact ⟨fun f hf => List.mem_append_right _ (a f hf), b⟩

/-- completeness at the top level (nothing visited before): what is gathered is collected -/
theorem collects_of_gets {sel : List Selection} {vis' : List Name} {fs : List FieldNode}
    (h : Collects s d R sel [] fs vis') : ∀ f, Gets s d R sel f → f ∈ fs := by
  have hc := closed_of_collects h
  -- every selection set whose direct fields are in `fs` and whose direct spreads are in `vis'` gathers only collected fields
  have key : ∀ (X : List Selection) (f : FieldNode), Gets s d R X f →
      (∀ g, Direct s R X g → g ∈ fs) → (∀ n, DirectSpread s R X n → n ∈ vis') → f ∈ fs := by
    intro X f hg
    induction hg with
    | direct hd => intro h1 _; exact h1 _ hd
    | spread hs hfr ha _ ih =>
      intro _ h2
      obtain ⟨a, b⟩ := hc.frags _ (h2 _ hs) (by simp) _ hfr ha
      exact ih a b
  intro f hg
  exact key sel f hg hc.direct hc.spreads

/-- **the collected fields as a set** -/
theorem mem_collects_iff {sel : List Selection} {vis' : List Name} {fs : List FieldNode}
    (h : Collects s d R sel [] fs vis') (f : FieldNode) : f ∈ fs ↔ Gets s d R sel f :=
  ⟨gets_of_collects h f, collects_of_gets h f⟩

end
end Gql
