/-
  Lemmas/WalkAll.lean — a property of type environments that is preserved by the four scoping
  operations holds at every callback of the walk.
-/
import GqlVerif.Lemmas.Fires
namespace Gql

structure EnvClosed (s : Schema) (P : Snap → Prop) : Prop where
  withType : ∀ e t, P e → P (e.withType s t)
  withParent : ∀ e, P e → P e.withParent
  withField : ∀ e f, P e → P (e.withField f)
  withInput : ∀ e t, P e → P (e.withInput s t)

def AllSnap (P : Snap → Prop) (tr : Trace) : Prop := ∀ x ∈ tr, P x.2

theorem AllSnap.nil {P : Snap → Prop} : AllSnap P [] := by intro x h; simp at h
theorem AllSnap.append {P : Snap → Prop} {a b : Trace} (ha : AllSnap P a) (hb : AllSnap P b) : AllSnap P (a ++ b) := by
  intro x hx; rcases List.mem_append.1 hx with h | h; exact ha x h; exact hb x h
theorem AllSnap.cons {P : Snap → Prop} {x : Ev × Snap} {t : Trace} (hx : P x.2) (ht : AllSnap P t) : AllSnap P (x :: t) := by
  intro y hy; rcases List.mem_cons.1 hy with rfl | h; exact hx; exact ht y h

section
variable {s : Schema} {P : Snap → Prop} (hc : EnvClosed s P)
include hc

mutual
theorem allSnap_value : ∀ (v : Value) (e : Snap), P e → AllSnap P (walkValue s e v)
  | .var _, e, h | .null, e, h | .int _, e, h | .float _, e, h | .str _, e, h | .bool _, e, h | .enum _, e, h => by
      simp only [walkValue]
      exact AllSnap.cons h (AllSnap.cons h AllSnap.nil)
  | .list vs, e, h => by
      simp only [walkValue]
      exact AllSnap.cons h (AllSnap.append (allSnap_values vs _ (hc.withInput e _ h)) (AllSnap.cons h AllSnap.nil))
  | .obj fs, e, h => by
      simp only [walkValue]
      exact AllSnap.cons h (AllSnap.append (allSnap_objFields fs e h) (AllSnap.cons h AllSnap.nil))
theorem allSnap_values : ∀ (vs : List Value) (e : Snap), P e → AllSnap P (walkValues s e vs)
  | [], _, _ => AllSnap.nil
  | v :: vs, e, h => by
      simp only [walkValues]
      exact AllSnap.append (allSnap_value v e h) (allSnap_values vs e h)
theorem allSnap_objFields : ∀ (fs : List (Name × Value)) (e : Snap), P e → AllSnap P (walkObjFields s e fs)
  | [], _, _ => AllSnap.nil
  | (k, v) :: fs, e, h => by
      simp only [walkObjFields, List.cons_append]
      have h' := hc.withInput e (objectFieldType s e.inpLit k) h
      exact AllSnap.cons h' (AllSnap.append (AllSnap.append (allSnap_value v _ h') (AllSnap.cons h' AllSnap.nil))
        (allSnap_objFields fs e h))
end

theorem allSnap_arguments (defs : Option (List InputValueDef)) (e : Snap) (h : P e) :
    ∀ as, AllSnap P (walkArguments s defs e as)
  | [] => AllSnap.nil
  | a :: as => by
      simp only [walkArguments, List.cons_append]
      have h' := hc.withInput e (argType defs a.1) h
      exact AllSnap.cons h' (AllSnap.append (AllSnap.append (allSnap_value hc a.2 _ h') (AllSnap.cons h' AllSnap.nil))
        (allSnap_arguments defs e h as))

theorem allSnap_directives (e : Snap) (h : P e) : ∀ ds, AllSnap P (walkDirectives s e ds)
  | [] => AllSnap.nil
  | d :: ds => by
      simp only [walkDirectives, List.cons_append]
      exact AllSnap.cons h (AllSnap.append (AllSnap.append (allSnap_arguments hc _ e h d.args) (AllSnap.cons h AllSnap.nil))
        (allSnap_directives e h ds))

theorem allSnap_varDefs (e : Snap) (h : P e) : ∀ vs, AllSnap P (walkVarDefs s e vs)
  | [] => AllSnap.nil
  | v :: vs => by
      simp only [walkVarDefs, List.cons_append]
      have h' := hc.withInput e (some v.ty) h
      refine AllSnap.cons h' (AllSnap.append (AllSnap.append ?_ (AllSnap.cons h' AllSnap.nil)) (allSnap_varDefs e h vs))
      cases v.default with
      | none => exact AllSnap.nil
      | some dv => exact allSnap_value hc dv _ h'

theorem allSnap_selectionSetWith (e : Snap) (h : P e) (sel : List Selection) (items : Snap → Trace)
    (hi : ∀ e', P e' → AllSnap P (items e')) : AllSnap P (walkSelectionSetWith e sel items) := by
  simp only [walkSelectionSetWith, List.cons_append]
  have h' := hc.withParent e h
  exact AllSnap.cons h' (AllSnap.append (hi _ h') (AllSnap.cons h' AllSnap.nil))

mutual
theorem allSnap_selection : ∀ (x : Selection) (e : Snap), P e → AllSnap P (walkSelection s e x)
  | .field pos alias name args dirs sel, e, h => by
      simp only [walkSelection, List.cons_append]
      have h1 := hc.withType e ((e.parent.bind (·.fieldByName name)).map (·.ty)) h
      have h2 := hc.withField _ (e.parent.bind (·.fieldByName name)) h1
      refine AllSnap.cons h1 (AllSnap.append (AllSnap.append (AllSnap.append (allSnap_arguments hc _ _ h2 args)
        (allSnap_directives hc _ h2 dirs)) ?_) (AllSnap.cons h1 AllSnap.nil))
      exact allSnap_selectionSetWith hc _ h2 sel _ (fun e' he' => allSnap_selections sel e' he')
  | .spread pos name dirs, e, h => by
      simp only [walkSelection, List.cons_append]
      exact AllSnap.cons h (AllSnap.append (allSnap_directives hc _ h dirs) (AllSnap.cons h AllSnap.nil))
  | .inline pos tc dirs sel, e, h => by
      simp only [walkSelection, List.cons_append]
      have h1 : P (match tc with | some c => e.withType s (some (.named c)) | none => e) := by
        cases tc with
        | none => exact h
        | some c => exact hc.withType e _ h
      refine AllSnap.cons h1 (AllSnap.append (AllSnap.append (allSnap_directives hc _ h1 dirs) ?_) (AllSnap.cons h1 AllSnap.nil))
      exact allSnap_selectionSetWith hc _ h1 sel _ (fun e' he' => allSnap_selections sel e' he')
theorem allSnap_selections : ∀ (xs : List Selection) (e : Snap), P e → AllSnap P (walkSelections s e xs)
  | [], _, _ => AllSnap.nil
  | x :: xs, e, h => by
      simp only [walkSelections]
      exact AllSnap.append (allSnap_selection x e h) (allSnap_selections xs e h)
end

theorem allSnap_definition (e : Snap) (h : P e) (x : Definition) (t : Trace) (ht : walkDefinition s e x = some t) :
    AllSnap P t := by
  cases x with
  | frag f =>
    simp only [walkDefinition, Option.some.injEq] at ht
    subst ht
    have h1 := hc.withType e (some (.named f.tc)) h
    refine AllSnap.cons h1 (AllSnap.append (AllSnap.append (allSnap_directives hc _ h1 f.dirs) ?_) (AllSnap.cons h1 AllSnap.nil))
    exact allSnap_selectionSetWith hc _ h1 f.sel _ (fun e' he' => allSnap_selections hc f.sel e' he')
  | op o =>
    simp only [walkDefinition, Option.map_eq_some_iff] at ht
    obtain ⟨tn, _, rfl⟩ := ht
    have h1 := hc.withType e (tn.map .named) h
    refine AllSnap.cons h1 (AllSnap.append (AllSnap.append (AllSnap.append (allSnap_directives hc _ h1 o.dirs)
      (allSnap_varDefs hc _ h1 o.vars)) ?_) (AllSnap.cons h1 AllSnap.nil))
    exact allSnap_selectionSetWith hc _ h1 o.sel _ (fun e' he' => allSnap_selections hc o.sel e' he')

theorem allSnap_definitions (e : Snap) (h : P e) : ∀ (ds : List Definition) (t : Trace),
    walkDefinitions s e ds = some t → AllSnap P t
  | [], t, ht => by simp only [walkDefinitions, Option.some.injEq] at ht; subst ht; exact AllSnap.nil
  | x :: ds, t, ht => by
      simp only [walkDefinitions] at ht
      cases hA : walkDefinition s e x with
      | none => simp [hA] at ht
      | some a =>
        cases hB : walkDefinitions s e ds with
        | none => simp [hA, hB] at ht
        | some b =>
          simp only [hA, hB, Option.some.injEq] at ht
          subst ht
          exact AllSnap.append (allSnap_definition hc e h x a hA) (allSnap_definitions e h ds b hB)

/-- every callback of the walk sees an environment satisfying `P` -/
theorem allSnap_walkOf (d : Document) (h0 : P Snap.empty) : AllSnap P (walkOf s d) := by
  unfold walkOf
  cases h : walkDocument s Snap.empty d with
  | none => exact AllSnap.nil
  | some t =>
    simp only [walkDocument, Option.map_eq_some_iff] at h
    obtain ⟨t', ht', rfl⟩ := h
    simp only [Option.getD_some]
    exact AllSnap.cons h0 (AllSnap.append (allSnap_definitions hc _ h0 d t' ht') (AllSnap.cons h0 AllSnap.nil))

end
end Gql
