/-
  Lemmas/Transform.lean — the transformer model, function by function, is
  `(Replace (map x) if changed x else Keep, sites x)`.
-/
import GqlVerif.Spec.Transform
namespace Gql
open Gql.Spec

def trOf {α : Type} (changed : Bool) (a : α) : Tr α := if changed then .replace a else .keep

@[simp] theorem trOf_getD {α : Type} (c : Bool) (a b : α) : (trOf c a).getD b = if c then a else b := by
  cases c <;> rfl
@[simp] theorem trOf_shouldKeep {α : Type} (c : Bool) (a : α) : (trOf c a).shouldKeep = !c := by
  cases c <;> rfl

/-- invariant of the `transform_list` loop after the prefix `done` -/
theorem listLoop_spec {α : Type} (f : α → W (Tr α)) (g : α → α) (c : α → Bool) (sites : α → List LogEntry) :
    ∀ (rest done : List α) (acc : ListAcc α),
      (∀ x ∈ rest, f x = (trOf (c x) (g x), sites x)) → (∀ x ∈ done ++ rest, c x = false → g x = x) →
      acc.2 = done.flatMap sites →
      (done.any c = false → acc.1 = ([], false, done)) →
      (done.any c = true → acc.1.1 = done.map g ∧ acc.1.2.1 = true) →
      listResult (rest.foldl (fun acc item => listStep acc item (f item)) acc)
        = (trOf ((done ++ rest).any c) ((done ++ rest).map g), (done ++ rest).flatMap sites) := by
  intro rest
  induction rest with
  | nil =>
    intro done acc _ _ hlog hfalse htrue
    simp only [List.foldl_nil, List.append_nil, listResult]
    cases hany : done.any c with
    | false =>
      have h0 := hfalse hany
      obtain ⟨⟨r, ch, pre⟩, lg⟩ := acc
      simp only [Prod.mk.injEq] at h0
      obtain ⟨rfl, rfl, rfl⟩ := h0
      simp only at hlog
      simp [trOf, hlog]
    | true =>
      obtain ⟨h1, h2⟩ := htrue hany
      obtain ⟨⟨r, ch, pre⟩, lg⟩ := acc
      simp only at h1 h2 hlog
      subst h1 h2 hlog
      simp [trOf]
  | cons x xs ih =>
    intro done acc hf' hg' hlog hfalse htrue
    simp only [List.foldl_cons]
    have hf : ∀ y, y = x → f y = (trOf (c y) (g y), sites y) := fun y hy => hf' y (by simp [hy])
    have hg : ∀ y, y = x → c y = false → g y = y := fun y hy => hg' y (by simp [hy])
    have hmapid : done.any c = false → done.map g = done := by
      intro h
      rw [List.any_eq_false] at h
      conv => rhs; rw [← List.map_id done]
      apply List.map_congr_left
      intro a ha
      exact hg' a (by simp [ha]) (by simpa using h a ha)
    have := ih (done ++ [x]) (listStep acc x (f x)) (fun y hy => hf' y (by simp [hy]))
      (fun y hy => hg' y (by
        simp only [List.mem_append, List.mem_singleton, List.mem_cons, List.not_mem_nil, or_false] at hy ⊢
        rcases hy with (h | h) | h
        · exact Or.inl h
        · exact Or.inr (Or.inl h)
        · exact Or.inr (Or.inr h)))
    rw [List.append_assoc] at this
    simp only [List.singleton_append] at this
    apply this
    · obtain ⟨⟨r, ch, pre⟩, lg⟩ := acc
      simp only at hlog
      simp only [listStep, hf x rfl]
      cases c x <;> simp [trOf, hlog] <;> split <;> simp
    · intro h
      simp only [List.any_append, List.any_cons, List.any_nil, Bool.or_false, Bool.or_eq_false_iff] at h
      have h0 := hfalse h.1
      obtain ⟨⟨r, ch, pre⟩, lg⟩ := acc
      simp only [Prod.mk.injEq] at h0
      obtain ⟨rfl, rfl, rfl⟩ := h0
      simp [listStep, hf x rfl, h.2, trOf]
    · intro h
      simp only [List.any_append, List.any_cons, List.any_nil, Bool.or_false, Bool.or_eq_true] at h
      obtain ⟨⟨r, ch, pre⟩, lg⟩ := acc
      cases hd : done.any c with
      | true =>
        obtain ⟨h1, h2⟩ := htrue hd
        simp only at h1 h2
        subst h1 h2
        cases hc : c x with
        | true => simp [listStep, hf x rfl, hc, trOf]
        | false => simp [listStep, hf x rfl, hc, trOf, hg x rfl hc]
      | false =>
        have hcx : c x = true := by
          rcases h with h | h
          · rw [hd] at h; exact absurd h (by simp)
          · exact h
        have h0 := hfalse hd
        simp only [Prod.mk.injEq] at h0
        obtain ⟨rfl, rfl, rfl⟩ := h0
        simp [listStep, hf x rfl, hcx, trOf, hmapid hd]

/-- `transform_list`: Keep iff every item is kept; otherwise every item replaced or copied, in
    order; the hooks are invoked item by item in list order -/
theorem transformList_spec {α : Type} (f : α → W (Tr α)) (g : α → α) (c : α → Bool) (sites : α → List LogEntry)
    (hf : ∀ x, f x = (trOf (c x) (g x), sites x)) (hg : ∀ x, c x = false → g x = x) (l : List α) :
    transformList f l = (trOf (l.any c) (l.map g), l.flatMap sites) := by
  have := listLoop_spec f g c sites l [] (([], false, []), []) (fun x _ => hf x) (fun x _ => hg x) (by simp) (by simp) (by simp)
  simpa [transformList] using this

/-- when a list did not change, mapping it is the identity -/
theorem map_id_of_not_any {α : Type} (g : α → α) (c : α → Bool) (hg : ∀ x, c x = false → g x = x) (l : List α)
    (h : l.any c = false) : l.map g = l := by
  rw [List.any_eq_false] at h
  conv => rhs; rw [← List.map_id l]
  apply List.map_congr_left
  intro a ha
  exact hg a (by simpa using h a ha)

/-- "transformer result = (Replace (map x) if changed, Keep otherwise; sites)" and unchanged ⇒ identity -/
def Char {α : Type} (r : W (Tr α)) (changed : Bool) (mapped : α) (sites : List LogEntry) (x : α) : Prop :=
  r = (trOf changed mapped, sites) ∧ (changed = false → mapped = x)

theorem char_value (h : Hooks) (v : Value) :
    Char (transformValue h v) (changedValue h v) (mapValue h v) (sitesValue h v) v := by
  unfold Char transformValue changedValue mapValue sitesValue defaultTransformValue hitOpt siteOpt
  cases h.value with
  | none => simp [trOf]
  | some p => cases hh : p.hit (valueKey v) <;> simp [trOf, hh]

theorem char_arg (h : Hooks) (a : Arg) :
    Char (transformArgument h a) (changedArg h a) (mapArg h a) (sitesArg h a) a := by
  obtain ⟨hv, hvid⟩ := char_value h a.2
  unfold Char transformArgument defaultTransformArgument changedArg mapArg sitesArg hitOpt siteOpt
  rw [hv]
  cases h.argument with
  | none =>
    cases hc : changedValue h a.2 <;> simp [trOf, hc]
    rw [hvid hc]
  | some p =>
    cases hc : changedValue h a.2 <;> cases hh : p.hit a.1 <;> simp [trOf, hc, hh, Tr.getD]
    · rw [hvid hc]
    · rw [hvid hc]

theorem char_args (h : Hooks) (args : List Arg) :
    Char (transformArguments h args) (args.any (changedArg h)) (args.map (mapArg h)) (args.flatMap (sitesArg h)) args :=
  ⟨transformList_spec _ _ _ _ (fun a => (char_arg h a).1) (fun a => (char_arg h a).2) args,
   map_id_of_not_any _ _ (fun a => (char_arg h a).2) args⟩

theorem char_directive (h : Hooks) (d : Directive) :
    Char (transformDirective h d) (changedDirective h d) (mapDirective h d) (sitesDirective h d) d := by
  obtain ⟨ha, haid⟩ := char_args h d.args
  unfold Char transformDirective defaultTransformDirective changedDirective mapDirective sitesDirective hitOpt siteOpt
  rw [ha]
  cases h.directive with
  | none =>
    cases hc : d.args.any (changedArg h) <;> simp [trOf, hc]
    rw [haid hc]
  | some p =>
    cases hc : d.args.any (changedArg h) <;> cases hh : p.hit (posKey d.pos) <;> simp [trOf, hc, hh, Tr.getD]
    · rw [haid hc]
    · rw [haid hc]

theorem char_directives (h : Hooks) (ds : List Directive) :
    Char (transformDirectives h ds) (ds.any (changedDirective h)) (ds.map (mapDirective h)) (ds.flatMap (sitesDirective h)) ds :=
  ⟨transformList_spec _ _ _ _ (fun a => (char_directive h a).1) (fun a => (char_directive h a).2) ds,
   map_id_of_not_any _ _ (fun a => (char_directive h a).2) ds⟩

theorem char_varDef (h : Hooks) (v : VarDef) :
    Char (transformVariableDefinition h v) (changedVarDef h v) (mapVarDef h v) (sitesVarDef h v) v := by
  unfold Char transformVariableDefinition defaultTransformVariableDefinition changedVarDef mapVarDef sitesVarDef hitOpt siteOpt
  cases hd : v.default with
  | none =>
    cases h.varDef with
    | none => simp [trOf, hd]; cases v; simp_all
    | some p => cases hh : p.hit (posKey v.pos) <;> simp [trOf, hh, hd, Tr.getD] <;> (cases v; simp_all)
  | some dv =>
    obtain ⟨hv, hvid⟩ := char_value h dv
    simp only [hv]
    cases h.varDef with
    | none =>
      cases hc : changedValue h dv <;> simp [trOf, hc, Tr.shouldKeep, Tr.getD]
      rw [hvid hc]; cases v; simp_all
    | some p =>
      cases hc : changedValue h dv <;> cases hh : p.hit (posKey v.pos) <;> simp [trOf, hc, hh, Tr.shouldKeep, Tr.getD]
      · rw [hvid hc]; cases v; simp_all
      · rw [hvid hc]; exact hd

theorem char_varDefs (h : Hooks) (vs : List VarDef) :
    Char (transformVariableDefinitions h vs) (vs.any (changedVarDef h)) (vs.map (mapVarDef h)) (vs.flatMap (sitesVarDef h)) vs :=
  ⟨transformList_spec _ _ _ _ (fun a => (char_varDef h a).1) (fun a => (char_varDef h a).2) vs,
   map_id_of_not_any _ _ (fun a => (char_varDef h a).2) vs⟩

/-! ### selections -/

theorem selectionsAcc_eq_foldl (h : Hooks) : ∀ (l : List Selection) (acc : ListAcc Selection),
    transformSelectionsAcc h l acc = l.foldl (fun acc item => listStep acc item (transformSelection h item)) acc
  | [], acc => by simp [transformSelectionsAcc]
  | x :: xs, acc => by simp [transformSelectionsAcc, selectionsAcc_eq_foldl h xs]

theorem mapSelections_eq (h : Hooks) : ∀ l, mapSelections h l = l.map (mapSelection h)
  | [] => by simp [mapSelections]
  | x :: xs => by simp [mapSelections, mapSelections_eq h xs]
theorem changedSelections_eq (h : Hooks) : ∀ l, changedSelections h l = l.any (changedSelection h)
  | [] => by simp [changedSelections]
  | x :: xs => by simp [changedSelections, changedSelections_eq h xs]
theorem sitesSelections_eq (h : Hooks) : ∀ l, sitesSelections h l = l.flatMap (sitesSelection h)
  | [] => by simp [sitesSelections]
  | x :: xs => by simp [sitesSelections, sitesSelections_eq h xs]

abbrev SelChar (h : Hooks) (x : Selection) : Prop :=
  Char (transformSelection h x) (changedSelection h x) (mapSelection h x) (sitesSelection h x) x

/-- a selection set, given the characterisation of its members -/
theorem char_selSet_of (h : Hooks) (sel : List Selection) (hmem : ∀ x ∈ sel, SelChar h x) :
    Char (selectionSetResult h sel (transformSelectionsAcc h sel (([], false, []), [])))
      (changedSelSet h sel) (mapSelSet h sel) (sitesSelSet h sel) sel := by
  have hloop := listLoop_spec (transformSelection h) (mapSelection h) (changedSelection h) (sitesSelection h)
    sel [] (([], false, []), []) (fun x hx => (hmem x hx).1) (fun x hx => (hmem x (by simpa using hx)).2)
    (by simp) (by simp) (by simp)
  simp only [List.nil_append] at hloop
  have hid : sel.any (changedSelection h) = false → sel.map (mapSelection h) = sel := by
    intro hc
    rw [List.any_eq_false] at hc
    conv => rhs; rw [← List.map_id sel]
    apply List.map_congr_left
    intro a ha
    exact (hmem a ha).2 (by simpa using hc a ha)
  unfold Char selectionSetResult changedSelSet mapSelSet sitesSelSet withMarker hitOpt siteOpt
  rw [selectionsAcc_eq_foldl, hloop, mapSelections_eq, changedSelections_eq, sitesSelections_eq]
  cases h.selectionSet with
  | none =>
    cases hc : sel.any (changedSelection h) <;> simp [trOf, hc]
    exact hid hc
  | some p =>
    cases hc : sel.any (changedSelection h) <;> cases hh : p.hit sel.length <;> simp [trOf, hc, hh, Tr.getD]
    · exact hid hc
    · rw [hid hc]

mutual
theorem char_selection (h : Hooks) : ∀ x : Selection, SelChar h x
  | .spread pos name dirs => by
      obtain ⟨hd, hdid⟩ := char_directives h dirs
      unfold SelChar Char
      simp only [transformSelection, changedSelection, mapSelection, sitesSelection, hitOpt, siteOpt, hd]
      cases h.spread with
      | none => cases hc : dirs.any (changedDirective h) <;> simp [trOf, hc, Tr.getD]; rw [hdid hc]
      | some p =>
        cases hc : dirs.any (changedDirective h) <;> cases hh : p.hit (posKey pos) <;> simp [trOf, hc, hh, Tr.getD]
        · rw [hdid hc]
        · rw [hdid hc]
  | .inline pos tc dirs sel => by
      obtain ⟨hd, hdid⟩ := char_directives h dirs
      obtain ⟨hs, hsid⟩ := char_selSet_of h sel (char_selections_mem h sel)
      have e1 : (changedSelections h sel || hitOpt h.selectionSet sel.length) = changedSelSet h sel := rfl
      have e2 : withMarker h sel.length (mapSelections h sel) = mapSelSet h sel := rfl
      have e3 : (siteOpt h.selectionSet .selectionSet sel.length ++ sitesSelections h sel) = sitesSelSet h sel := rfl
      unfold SelChar Char
      simp only [transformSelection, changedSelection, mapSelection, sitesSelection, hd, hs, e1, e2, e3]
      cases hcs : changedSelSet h sel <;> cases hcd : dirs.any (changedDirective h) <;>
        (cases h.inlineFrag with
         | none => simp [trOf, Tr.getD, Tr.shouldKeep, hitOpt, siteOpt, List.append_assoc] <;>
             first | done | ((try rw [hsid hcs]) <;> (try rw [hdid hcd]) <;> (try simp))
         | some p => cases hh : p.hit (posKey pos) <;>
             simp [trOf, Tr.getD, Tr.shouldKeep, hitOpt, siteOpt, hh, List.append_assoc] <;>
             first | done | ((try rw [hsid hcs]) <;> (try rw [hdid hcd]) <;> (try simp)))
  | .field pos alias name args dirs sel => by
      obtain ⟨hd, hdid⟩ := char_directives h dirs
      obtain ⟨ha, haid⟩ := char_args h args
      obtain ⟨hs, hsid⟩ := char_selSet_of h sel (char_selections_mem h sel)
      have e1 : (changedSelections h sel || hitOpt h.selectionSet sel.length) = changedSelSet h sel := rfl
      have e2 : withMarker h sel.length (mapSelections h sel) = mapSelSet h sel := rfl
      have e3 : (siteOpt h.selectionSet .selectionSet sel.length ++ sitesSelections h sel) = sitesSelSet h sel := rfl
      unfold SelChar Char
      simp only [transformSelection, changedSelection, mapSelection, sitesSelection, hd, ha, hs, e1, e2, e3]
      cases hcs : changedSelSet h sel <;> cases hca : args.any (changedArg h) <;> cases hcd : dirs.any (changedDirective h) <;>
        (cases h.field with
         | none => simp [trOf, Tr.getD, Tr.shouldKeep, hitOpt, siteOpt, List.append_assoc] <;>
             first | done | ((try rw [hsid hcs]) <;> (try rw [haid hca]) <;> (try rw [hdid hcd]) <;> (try simp))
         | some p => cases hh : p.hit (posKey pos) <;>
             simp [trOf, Tr.getD, Tr.shouldKeep, hitOpt, siteOpt, hh, List.append_assoc] <;>
             first | done | ((try rw [hsid hcs]) <;> (try rw [haid hca]) <;> (try rw [hdid hcd]) <;> (try simp)))
theorem char_selections_mem (h : Hooks) : ∀ (l : List Selection), ∀ x ∈ l, SelChar h x
  | [] => by intro x hx; cases hx
  | y :: ys => by
      intro x hx
      cases hx with
      | head => exact char_selection h y
      | tail _ hx => exact char_selections_mem h ys x hx
end

theorem char_selSet (h : Hooks) (sel : List Selection) :
    Char (transformSelectionSetItems h sel) (changedSelSet h sel) (mapSelSet h sel) (sitesSelSet h sel) sel :=
  char_selSet_of h sel (char_selections_mem h sel)

theorem char_operation (h : Hooks) (o : Operation) :
    Char (transformOperation h o) (changedOperation h o) (mapOperation h o) (sitesOperation h o) o := by
  obtain ⟨hs, hsid⟩ := char_selSet h o.sel
  obtain ⟨hd, hdid⟩ := char_directives h o.dirs
  obtain ⟨hv, hvid⟩ := char_varDefs h o.vars
  unfold Char transformOperation defaultTransformOperation changedOperation mapOperation sitesOperation renameOp hitOpt siteOpt
  simp only [hs, hd, hv]
  cases hk : (o.kind == OpKind.shorthand) <;>
    cases hcs : changedSelSet h o.sel <;> cases hcd : o.dirs.any (changedDirective h) <;> cases hcv : o.vars.any (changedVarDef h) <;>
    (cases h.operation with
     | none => simp [trOf, Tr.getD, Tr.shouldKeep, List.append_assoc] <;>
         first | done | ((try rw [hsid hcs]) <;> (try rw [hdid hcd]) <;> (try rw [hvid hcv]) <;> (try (cases o; simp_all)))
     | some p => cases hh : p.hit (opKey o) <;>
         simp [trOf, Tr.getD, Tr.shouldKeep, hh, hk, List.append_assoc] <;>
         first | done | ((try rw [hsid hcs]) <;> (try rw [hdid hcd]) <;> (try rw [hvid hcv]) <;> (try (cases o; simp_all))))

theorem char_fragment (h : Hooks) (f : FragDef) :
    Char (transformFragment h f) (changedFragment h f) (mapFragment h f) (sitesFragment h f) f := by
  obtain ⟨hs, hsid⟩ := char_selSet h f.sel
  obtain ⟨hd, hdid⟩ := char_directives h f.dirs
  unfold Char transformFragment defaultTransformFragment changedFragment mapFragment sitesFragment hitOpt siteOpt
  simp only [hs, hd]
  cases hcs : changedSelSet h f.sel <;> cases hcd : f.dirs.any (changedDirective h) <;>
    (cases h.fragment with
     | none => simp [trOf, Tr.getD, Tr.shouldKeep, List.append_assoc] <;>
         first | done | ((try rw [hsid hcs]) <;> (try rw [hdid hcd]) <;> (try (cases f; simp_all)))
     | some p => cases hh : p.hit (posKey f.pos) <;>
         simp [trOf, Tr.getD, Tr.shouldKeep, hh, List.append_assoc] <;>
         first | done | ((try rw [hsid hcs]) <;> (try rw [hdid hcd]) <;> (try (cases f; simp_all))))

theorem char_definition (h : Hooks) (x : Definition) :
    Char (transformDefinition h x) (changedDefinition h x) (mapDefinition h x) (sitesDefinition h x) x := by
  unfold Char transformDefinition defaultTransformDefinition changedDefinition mapDefinition sitesDefinition renameOp hitOpt siteOpt
  cases x with
  | op o =>
    obtain ⟨ho, hoid⟩ := char_operation h o
    simp only [ho]
    cases hc : changedOperation h o <;>
      (cases h.definition with
       | none => simp [trOf, Tr.getD] <;> first | done | ((try rw [hoid hc]) <;> (try simp))
       | some p => cases hh : p.hit (defKey (.op o)) <;> simp [trOf, Tr.getD, hh] <;> first | done | ((try rw [hoid hc]) <;> (try simp)))
  | frag f =>
    obtain ⟨hf, hfid⟩ := char_fragment h f
    simp only [hf]
    cases hc : changedFragment h f <;>
      (cases h.definition with
       | none => simp [trOf, Tr.getD] <;> first | done | ((try rw [hfid hc]) <;> (try simp))
       | some p => cases hh : p.hit (defKey (.frag f)) <;> simp [trOf, Tr.getD, hh] <;> first | done | ((try rw [hfid hc]) <;> (try simp)))

/-- the document loop pushes every definition (kept or replaced) -/
theorem docLoop_spec (h : Hooks) : ∀ (rest done : List Definition) (acc : (List Definition × Bool) × List LogEntry),
    acc = ((done.map (mapDefinition h), done.any (changedDefinition h)), done.flatMap (sitesDefinition h)) →
    rest.foldl (docStep h) acc
      = (((done ++ rest).map (mapDefinition h), (done ++ rest).any (changedDefinition h)), (done ++ rest).flatMap (sitesDefinition h)) := by
  intro rest
  induction rest with
  | nil => intro done acc hacc; simp [hacc]
  | cons x xs ih =>
    intro done acc hacc
    simp only [List.foldl_cons]
    have := ih (done ++ [x])
    rw [List.append_assoc] at this
    simp only [List.singleton_append] at this
    apply this
    obtain ⟨hx, hxid⟩ := char_definition h x
    subst hacc
    unfold docStep
    rw [hx]
    cases hc : changedDefinition h x
    · simp [trOf, hc, hxid hc]
    · simp [trOf, hc]

theorem char_document (h : Hooks) (d : Document) :
    transformDocument h d = (trOf (changedDocument h d) (mapDocument h d), hookSites h d) := by
  unfold transformDocument
  rw [docLoop_spec h d [] (([], false), []) (by simp)]
  simp [trOf, changedDocument, mapDocument, hookSites]

end Gql
