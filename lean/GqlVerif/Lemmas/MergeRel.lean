/-
  Lemmas/MergeRel.lean — fuel-free vocabulary for the soundness of the field-merging rule on
  documents WITH fragment spreads: membership in the fields a selection set collects (for some
  spread fuel), finite witnesses that SameResponseShape / the pair test of FieldsInSetCanMerge
  fail, and what `collect_fields_and_fragment_names` puts into its map and its name list.
-/
import GqlVerif.Lemmas.MergeSpecFF
namespace Gql
open Gql.Spec

/-! ### membership, monotone in the spread fuel -/

mutual
theorem specFieldsSelWith_subset (s : Schema) (sp1 sp2 : Name → List AstAndDef) (h : ∀ nm, sp1 nm ⊆ sp2 nm) :
    ∀ (x : Selection) (parent : Option TypeDef), specFieldsSelWith s sp1 parent x ⊆ specFieldsSelWith s sp2 parent x
  | .field _ _ _ _ _ _, _ => by simp [specFieldsSelWith]
  | .spread _ nm _, _ => by simpa [specFieldsSelWith] using h nm
  | .inline _ tc _ sel, parent => by
      simp only [specFieldsSelWith]
      exact specFieldsWith_subset s sp1 sp2 h sel _
theorem specFieldsWith_subset (s : Schema) (sp1 sp2 : Name → List AstAndDef) (h : ∀ nm, sp1 nm ⊆ sp2 nm) :
    ∀ (xs : List Selection) (parent : Option TypeDef), specFieldsWith s sp1 parent xs ⊆ specFieldsWith s sp2 parent xs
  | [], _ => by simp [specFieldsWith]
  | x :: xs, parent => by
      simp only [specFieldsWith]
      intro a ha
      rcases List.mem_append.1 ha with ha | ha
      · exact List.mem_append_left _ (specFieldsSelWith_subset s sp1 sp2 h x parent ha)
      · exact List.mem_append_right _ (specFieldsWith_subset s sp1 sp2 h xs parent ha)
end

theorem spreadFields_succ_some (s : Schema) (d : Document) (n : Nat) (nm : Name) (fr : FragDef)
    (h : d.fragByName nm = some fr) :
    spreadFields s d (n + 1) nm = specFieldsWith s (spreadFields s d n) (s.typeByName fr.tc) fr.sel := by
  simp [spreadFields, h]

theorem spreadFields_succ_none (s : Schema) (d : Document) (n : Nat) (nm : Name) (h : d.fragByName nm = none) :
    spreadFields s d (n + 1) nm = [] := by
  simp [spreadFields, h]

theorem spreadFields_mono (s : Schema) (d : Document) : ∀ (n : Nat) (nm : Name),
    spreadFields s d n nm ⊆ spreadFields s d (n + 1) nm
  | 0, nm => by simp [spreadFields]
  | n + 1, nm => by
      cases h : d.fragByName nm with
      | none => rw [spreadFields_succ_none s d n nm h]; simp
      | some fr =>
        rw [spreadFields_succ_some s d n nm fr h, spreadFields_succ_some s d (n + 1) nm fr h]
        exact specFieldsWith_subset s _ _ (fun nm' => spreadFields_mono s d n nm') fr.sel _

theorem spreadFields_mono_le (s : Schema) (d : Document) (nm : Name) {n m : Nat} (h : n ≤ m) :
    spreadFields s d n nm ⊆ spreadFields s d m nm := by
  induction h with
  | refl => exact fun _ h => h
  | step _ ih => exact fun a ha => spreadFields_mono s d _ nm (ih ha)

theorem specFields_mono_le (s : Schema) (d : Document) (parent : Option TypeDef) (sel : List Selection) {n m : Nat}
    (h : n ≤ m) : specFields s d n parent sel ⊆ specFields s d m parent sel :=
  specFieldsWith_subset s _ _ (fun nm => spreadFields_mono_le s d nm h) sel parent

/-- the type a field's own selection set is selected on -/
def subParent (s : Schema) (a : AstAndDef) : Option TypeDef := (a.fdef.map (·.ty.inner)).bind s.typeByName

theorem subFields_eq (s : Schema) (d : Document) (n : Nat) (a : AstAndDef) :
    subFields s d n a = specFields s d n (subParent s a) a.field.sel := rfl

/-- `a` is among the fields the selection set collects, following spreads as far as needed -/
def Mem (s : Schema) (d : Document) (parent : Option TypeDef) (sel : List Selection) (a : AstAndDef) : Prop :=
  ∃ n, a ∈ specFields s d n parent sel
/-- `a` is among the fields a spread of fragment `nm` contributes -/
def MemFrag (s : Schema) (d : Document) (nm : Name) (a : AstAndDef) : Prop := ∃ n, a ∈ spreadFields s d n nm
/-- `x` is among the fields of `a`'s own selection set -/
def MemSub (s : Schema) (d : Document) (a x : AstAndDef) : Prop := Mem s d (subParent s a) a.field.sel x

theorem memSub_iff (s : Schema) (d : Document) (a x : AstAndDef) : MemSub s d a x ↔ ∃ n, x ∈ subFields s d n a := Iff.rfl

/-! ### finite witnesses of failure -/

/-- SameResponseShape(a, b) fails: the types disagree, or two same-key fields below them do -/
inductive ShapeBad (s : Schema) (d : Document) : AstAndDef → AstAndDef → Prop
  | types {a b : AstAndDef} : typesAgree s a b = false → ShapeBad s d a b
  | nested {a b x y : AstAndDef} : MemSub s d a x → MemSub s d b y → keyOf x = keyOf y → ShapeBad s d x y → ShapeBad s d a b

/-- the test FieldsInSetCanMerge applies to two same-key fields fails -/
inductive PairBad (s : Schema) (d : Document) : AstAndDef → AstAndDef → Prop
  | shape {a b : AstAndDef} : ShapeBad s d a b → PairBad s d a b
  | name {a b : AstAndDef} : parentsMayCoincide a b = true → (a.field.name == b.field.name) = false → PairBad s d a b
  | args {a b : AstAndDef} : parentsMayCoincide a b = true →
      (identicalArguments a.field.args b.field.args = false ∨ identicalArguments b.field.args a.field.args = false) →
      PairBad s d a b
  | nested {a b x y : AstAndDef} : parentsMayCoincide a b = true → MemSub s d a x → MemSub s d b y →
      keyOf x = keyOf y → PairBad s d x y → PairBad s d a b
  | nestedSwap {a b x y : AstAndDef} : parentsMayCoincide a b = true → MemSub s d a x → MemSub s d b y →
      keyOf x = keyOf y → PairBad s d y x → PairBad s d a b

theorem typesAgree_comm (s : Schema) (a b : AstAndDef) : typesAgree s a b = typesAgree s b a := by
  unfold typesAgree
  cases a.fdef <;> cases b.fdef <;> simp [C05.shapesAgree_comm]

theorem parentsMayCoincide_comm (a b : AstAndDef) : parentsMayCoincide a b = parentsMayCoincide b a := by
  unfold parentsMayCoincide
  have : (optName a.parent != optName b.parent) = (optName b.parent != optName a.parent) := by
    by_cases h : optName a.parent = optName b.parent
    · simp [h]
    · have h' : ¬ optName b.parent = optName a.parent := fun e => h e.symm
      simp only [bne, beq_eq_false_iff_ne.2 h, beq_eq_false_iff_ne.2 h']
  rw [this]
  cases (optName b.parent != optName a.parent) <;> cases optIsObject a.parent <;> cases optIsObject b.parent <;> rfl

theorem ShapeBad.symm {s : Schema} {d : Document} {a b : AstAndDef} (h : ShapeBad s d a b) : ShapeBad s d b a := by
  induction h with
  | types h => exact .types (by rw [typesAgree_comm]; exact h)
  | nested hx hy hk _ ih => exact .nested hy hx hk.symm ih

theorem PairBad.symm {s : Schema} {d : Document} {a b : AstAndDef} (h : PairBad s d a b) : PairBad s d b a := by
  induction h with
  | shape h => exact .shape h.symm
  | name hp hn =>
    refine .name (by rw [parentsMayCoincide_comm]; exact hp) ?_
    simp only [beq_eq_false_iff_ne, ne_eq] at hn ⊢
    exact fun e => hn e.symm
  | args hp ha => exact .args (by rw [parentsMayCoincide_comm]; exact hp) ha.symm
  | nested hp hx hy hk h _ => exact .nestedSwap (by rw [parentsMayCoincide_comm]; exact hp) hy hx hk.symm h
  | nestedSwap hp hx hy hk h _ => exact .nested (by rw [parentsMayCoincide_comm]; exact hp) hy hx hk.symm h

/-- what a comparison under the flag `me` (parents mutually exclusive) can find -/
def Fails (s : Schema) (d : Document) (me : Bool) (a b : AstAndDef) : Prop :=
  if me then ShapeBad s d a b else PairBad s d a b

theorem Fails.of_shape {s : Schema} {d : Document} {a b : AstAndDef} (me : Bool) (h : ShapeBad s d a b) : Fails s d me a b := by
  cases me
  · exact PairBad.shape h
  · exact h

theorem Fails.symm {s : Schema} {d : Document} {me : Bool} {a b : AstAndDef} (h : Fails s d me a b) : Fails s d me b a := by
  cases me
  · exact PairBad.symm h
  · exact ShapeBad.symm h

/-! ### what the collector puts into its map and its list of names -/

/-- `a` is a value of the field map -/
def FM (fm : FieldMap) (a : AstAndDef) : Prop := ∃ kv ∈ fm, a ∈ kv.2
/-- every value sits under its own response key -/
def KeyOk (fm : FieldMap) : Prop := ∀ kv ∈ fm, ∀ a ∈ kv.2, keyOf a = kv.1

theorem fm_alUpdate {fm : FieldMap} {k : Name} {a a' : AstAndDef}
    (h : FM (alUpdate fm k [] (· ++ [a])) a') : FM fm a' ∨ a' = a := by
  obtain ⟨kv, hkv, ha'⟩ := h
  unfold alUpdate at hkv
  split at hkv
  · simp only [List.mem_map] at hkv
    obtain ⟨p, hp, rfl⟩ := hkv
    split at ha'
    · simp only [List.mem_append, List.mem_singleton] at ha'
      rcases ha' with ha' | ha'
      · exact Or.inl ⟨p, hp, ha'⟩
      · exact Or.inr ha'
    · exact Or.inl ⟨p, hp, ha'⟩
  · simp only [List.mem_append, List.mem_singleton] at hkv
    rcases hkv with hkv | rfl
    · exact Or.inl ⟨kv, hkv, ha'⟩
    · simp at ha'; exact Or.inr ha'

theorem keyOk_alUpdate {fm : FieldMap} {a : AstAndDef} (h : KeyOk fm) : KeyOk (alUpdate fm (keyOf a) [] (· ++ [a])) := by
  intro kv hkv x hx
  unfold alUpdate at hkv
  split at hkv
  · simp only [List.mem_map] at hkv
    obtain ⟨p, hp, rfl⟩ := hkv
    by_cases hpk : p.1 = keyOf a
    · simp only [hpk, if_true, List.mem_append, List.mem_singleton] at hx ⊢
      rcases hx with hx | rfl
      · rw [h p hp x hx]; exact hpk
      · rfl
    · simp only [hpk, if_false] at hx ⊢
      exact h p hp x hx
  · simp only [List.mem_append, List.mem_singleton] at hkv
    rcases hkv with hkv | rfl
    · exact h kv hkv x hx
    · simp at hx; subst hx; rfl

theorem keyOk_nil : KeyOk [] := by intro kv h; simp at h

mutual
theorem collectSel_fields (s : Schema) : ∀ (x : Selection) (parent : Option TypeDef) (acc : FieldMap × List Name) (a : AstAndDef),
    FM (mergeCollectSel s parent x acc).1 a → FM acc.1 a ∨ a ∈ specFieldsSelWith s (fun _ => []) parent x
  | .field pos alias name args dirs sel, parent, (fm, fns), a, h => by
      simp only [mergeCollectSel] at h
      rcases fm_alUpdate h with h | h
      · exact Or.inl h
      · right; simp [specFieldsSelWith, h]
  | .spread _ _ _, _, (fm, fns), a, h => by
      simp only [mergeCollectSel] at h
      exact Or.inl h
  | .inline _ tc _ sel, parent, acc, a, h => by
      simp only [mergeCollectSel] at h
      simp only [specFieldsSelWith]
      exact collectSels_fields s sel _ acc a h
theorem collectSels_fields (s : Schema) : ∀ (xs : List Selection) (parent : Option TypeDef) (acc : FieldMap × List Name) (a : AstAndDef),
    FM (mergeCollectSels s parent xs acc).1 a → FM acc.1 a ∨ a ∈ specFieldsWith s (fun _ => []) parent xs
  | [], _, acc, a, h => by simp only [mergeCollectSels] at h; exact Or.inl h
  | x :: xs, parent, acc, a, h => by
      simp only [mergeCollectSels] at h
      simp only [specFieldsWith, List.mem_append]
      rcases collectSels_fields s xs parent _ a h with h | h
      · rcases collectSel_fields s x parent acc a h with h | h
        · exact Or.inl h
        · exact Or.inr (Or.inl h)
      · exact Or.inr (Or.inr h)
end

mutual
theorem collectSel_keyOk (s : Schema) : ∀ (x : Selection) (parent : Option TypeDef) (acc : FieldMap × List Name),
    KeyOk acc.1 → KeyOk (mergeCollectSel s parent x acc).1
  | .field pos alias name args dirs sel, parent, (fm, fns), h => by
      simp only [mergeCollectSel]
      exact keyOk_alUpdate (a := ⟨parent, ⟨pos, alias, name, args, dirs, sel⟩, parent.bind (·.fieldByName name)⟩) h
  | .spread _ _ _, _, (fm, fns), h => by simpa only [mergeCollectSel] using h
  | .inline _ tc _ sel, parent, acc, h => by
      simp only [mergeCollectSel]
      exact collectSels_keyOk s sel _ acc h
theorem collectSels_keyOk (s : Schema) : ∀ (xs : List Selection) (parent : Option TypeDef) (acc : FieldMap × List Name),
    KeyOk acc.1 → KeyOk (mergeCollectSels s parent xs acc).1
  | [], _, acc, h => by simpa only [mergeCollectSels] using h
  | x :: xs, parent, acc, h => by
      simp only [mergeCollectSels]
      exact collectSels_keyOk s xs parent _ (collectSel_keyOk s x parent acc h)
end

mutual
/-- a name the collector records is a spread the spec follows from this selection -/
theorem collectSel_names (s : Schema) : ∀ (x : Selection) (parent : Option TypeDef) (acc : FieldMap × List Name) (nm : Name),
    nm ∈ (mergeCollectSel s parent x acc).2 →
      nm ∈ acc.2 ∨ ∀ sp : Name → List AstAndDef, sp nm ⊆ specFieldsSelWith s sp parent x
  | .field pos alias name args dirs sel, parent, (fm, fns), nm, h => by
      simp only [mergeCollectSel] at h; exact Or.inl h
  | .spread _ name _, _, (fm, fns), nm, h => by
      simp only [mergeCollectSel] at h
      split at h
      · exact Or.inl h
      · simp only [List.mem_append, List.mem_singleton] at h
        rcases h with h | rfl
        · exact Or.inl h
        · right; intro sp; simp [specFieldsSelWith]
  | .inline _ tc _ sel, parent, acc, nm, h => by
      simp only [mergeCollectSel] at h
      simp only [specFieldsSelWith]
      exact collectSels_names s sel _ acc nm h
theorem collectSels_names (s : Schema) : ∀ (xs : List Selection) (parent : Option TypeDef) (acc : FieldMap × List Name) (nm : Name),
    nm ∈ (mergeCollectSels s parent xs acc).2 →
      nm ∈ acc.2 ∨ ∀ sp : Name → List AstAndDef, sp nm ⊆ specFieldsWith s sp parent xs
  | [], _, acc, nm, h => by simp only [mergeCollectSels] at h; exact Or.inl h
  | x :: xs, parent, acc, nm, h => by
      simp only [mergeCollectSels] at h
      rcases collectSels_names s xs parent _ nm h with h | h
      · rcases collectSel_names s x parent acc nm h with h | h
        · exact Or.inl h
        · right; intro sp a ha
          simp only [specFieldsWith]
          exact List.mem_append_left _ (h sp ha)
      · right; intro sp a ha
        simp only [specFieldsWith]
        exact List.mem_append_right _ (h sp ha)
end

/-- the three facts about `get_fields_and_fragment_names` the soundness proof uses -/
theorem fafn_facts (s : Schema) (d : Document) (parent : Option TypeDef) (sel : List Selection) :
    KeyOk (fieldsAndFragmentNames s parent sel).1 ∧
    (∀ a, FM (fieldsAndFragmentNames s parent sel).1 a → ∀ n, a ∈ specFields s d n parent sel) ∧
    (∀ nm ∈ (fieldsAndFragmentNames s parent sel).2, ∀ n, spreadFields s d n nm ⊆ specFields s d n parent sel) := by
  unfold fieldsAndFragmentNames
  refine ⟨collectSels_keyOk s sel parent ([], []) keyOk_nil, ?_, ?_⟩
  · intro a ha n
    rcases collectSels_fields s sel parent ([], []) a ha with h | h
    · obtain ⟨kv, hkv, _⟩ := h; simp at hkv
    · exact specFieldsWith_subset s _ _ (fun _ => by simp) sel parent h
  · intro nm hnm n
    rcases collectSels_names s sel parent ([], []) nm hnm with h | h
    · simp at h
    · exact h (spreadFields s d n)

theorem fafn_mem (s : Schema) (d : Document) (parent : Option TypeDef) (sel : List Selection) (a : AstAndDef)
    (h : FM (fieldsAndFragmentNames s parent sel).1 a) : Mem s d parent sel a :=
  ⟨0, (fafn_facts s d parent sel).2.1 a h 0⟩

theorem fafn_memFrag (s : Schema) (d : Document) (parent : Option TypeDef) (sel : List Selection) (nm : Name)
    (hnm : nm ∈ (fieldsAndFragmentNames s parent sel).2) (b : AstAndDef) (hb : MemFrag s d nm b) : Mem s d parent sel b := by
  obtain ⟨n, hb⟩ := hb
  exact ⟨n, (fafn_facts s d parent sel).2.2 nm hnm n hb⟩

/-- the same for a fragment's own fields and nested spreads -/
theorem ref_mem (s : Schema) (d : Document) (nm : Name) (fr : FragDef) (hfr : d.fragByName nm = some fr) (a : AstAndDef)
    (h : FM (referencedFieldsAndFragmentNames s fr).1 a) : MemFrag s d nm a := by
  refine ⟨1, ?_⟩
  rw [spreadFields_succ_some s d 0 nm fr hfr]
  exact (fafn_facts s d (s.typeByName fr.tc) fr.sel).2.1 a h 0

theorem ref_memFrag (s : Schema) (d : Document) (nm : Name) (fr : FragDef) (hfr : d.fragByName nm = some fr) (nm2 : Name)
    (hnm : nm2 ∈ (referencedFieldsAndFragmentNames s fr).2) (b : AstAndDef) (hb : MemFrag s d nm2 b) : MemFrag s d nm b := by
  obtain ⟨n, hb⟩ := hb
  refine ⟨n + 1, ?_⟩
  rw [spreadFields_succ_some s d n nm fr hfr]
  exact (fafn_facts s d (s.typeByName fr.tc) fr.sel).2.2 nm2 hnm n hb

end Gql
