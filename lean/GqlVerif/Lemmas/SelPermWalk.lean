/-
  Lemmas/SelPermWalk.lean — reordering selections and the walk: the selection sets the walk visits
  correspond one to one (same type environment, selections reordered); the fuel of the executable
  spec, 'declared type conditions', 'no fragment cycle' and 'unique argument names' are unaffected.
  Hence `MergeViolated` is invariant (`mergeViolated_selrel`).
-/
import GqlVerif.Lemmas.SelPermSpec
namespace Gql
open Gql.Spec

/-! ### selection-set callbacks -/

theorem noSel_of_below {t : Trace} (h : Below 2 (t.map Prod.fst)) (sel : List Selection) (env : Snap) :
    (Ev.enter (.selectionSet sel), env) ∉ t := by
  intro hm
  have := h _ (List.mem_map.2 ⟨_, hm, rfl⟩)
  simp [Ev.node, Node.level] at this

theorem noSel_arguments (s : Schema) (defs : Option (List InputValueDef)) (e : Snap) (as : List Arg) (sel : List Selection) (env : Snap) :
    (Ev.enter (.selectionSet sel), env) ∉ walkArguments s defs e as :=
  noSel_of_below (by rw [walkArguments_events]; exact (below_arguments as).mono (by omega)) sel env

theorem noSel_directives (s : Schema) (e : Snap) (ds : List Directive) (sel : List Selection) (env : Snap) :
    (Ev.enter (.selectionSet sel), env) ∉ walkDirectives s e ds :=
  noSel_of_below (by rw [walkDirectives_events]; exact below_directives ds) sel env

theorem noSel_varDefs (s : Schema) (e : Snap) (sel : List Selection) (env : Snap) : ∀ vs : List VarDef,
    (Ev.enter (.selectionSet sel), env) ∉ walkVarDefs s e vs
  | [] => by simp [walkVarDefs]
  | v :: vs => by
      intro hm
      simp only [walkVarDefs, List.cons_append, List.mem_cons, List.mem_append, List.not_mem_nil, or_false, or_assoc] at hm
      rcases hm with h | h | h | h
      · cases h
      · cases hd : v.default with
        | none => rw [hd] at h; simp at h
        | some dv =>
          rw [hd] at h
          exact noSel_of_below (by rw [walkValue_events]; exact (below_value dv).mono (by omega)) sel env h
      · cases h
      · exact noSel_varDefs s e sel env vs h

/-- the selection-set callbacks below reordered selections correspond, with the same environment -/
theorem selset_walk_rel (s : Schema) {xs ys : List Selection} (h : SelsEq xs ys) :
    ∀ (e : Snap) (sel : List Selection) (env : Snap), (Ev.enter (.selectionSet sel), env) ∈ walkSelections s e xs →
      ∃ sel', SelsEq sel sel' ∧ (Ev.enter (.selectionSet sel'), env) ∈ walkSelections s e ys := by
  induction h with
  | refl l => intro e sel env hm; exact ⟨sel, .refl _, hm⟩
  | swap x y l =>
    intro e sel env hm
    refine ⟨sel, .refl _, ?_⟩
    simp only [walkSelections, List.mem_append] at hm ⊢
    rcases hm with h | h | h
    · exact Or.inr (Or.inl h)
    · exact Or.inl h
    · exact Or.inr (Or.inr h)
  | cons x _ ih =>
    intro e sel env hm
    simp only [walkSelections, List.mem_append] at hm ⊢
    rcases hm with h | h
    · exact ⟨sel, .refl _, Or.inl h⟩
    · obtain ⟨sel', hs, hm'⟩ := ih e sel env h
      exact ⟨sel', hs, Or.inr hm'⟩
  | @field pos alias name args dirs sel0 sel0' l hsel ih =>
    intro e sel env hm
    simp only [walkSelections, walkSelection, walkSelectionSetWith, List.cons_append, List.mem_cons, List.mem_append, List.not_mem_nil, or_false, or_assoc] at hm ⊢
    rcases hm with h | h | h | h | h | h | h | h
    · cases h
    · exact absurd h (noSel_arguments s _ _ _ sel env)
    · exact absurd h (noSel_directives s _ _ sel env)
    · obtain ⟨h1, h2⟩ := Prod.mk.inj h
      have h1' : sel = sel0 := by simpa using h1
      subst h1'
      exact ⟨sel0', hsel, Or.inr (Or.inr (Or.inr (Or.inl (by rw [h2]))))⟩
    · obtain ⟨sel', hs, hm'⟩ := ih _ sel env h
      exact ⟨sel', hs, Or.inr (Or.inr (Or.inr (Or.inr (Or.inl hm'))))⟩
    · cases h
    · cases h
    · exact ⟨sel, .refl _, Or.inr (Or.inr (Or.inr (Or.inr (Or.inr (Or.inr (Or.inr h))))))⟩
  | @inline pos tc dirs sel0 sel0' l hsel ih =>
    intro e sel env hm
    simp only [walkSelections, walkSelection, walkSelectionSetWith, List.cons_append, List.mem_cons, List.mem_append, List.not_mem_nil, or_false, or_assoc] at hm ⊢
    rcases hm with h | h | h | h | h | h | h
    · cases h
    · exact absurd h (noSel_directives s _ _ sel env)
    · obtain ⟨h1, h2⟩ := Prod.mk.inj h
      have h1' : sel = sel0 := by simpa using h1
      subst h1'
      exact ⟨sel0', hsel, Or.inr (Or.inr (Or.inl (by rw [h2])))⟩
    · obtain ⟨sel', hs, hm'⟩ := ih _ sel env h
      exact ⟨sel', hs, Or.inr (Or.inr (Or.inr (Or.inl hm')))⟩
    · cases h
    · cases h
    · exact ⟨sel, .refl _, Or.inr (Or.inr (Or.inr (Or.inr (Or.inr (Or.inr h)))))⟩
  | trans _ _ ih1 ih2 =>
    intro e sel env hm
    obtain ⟨sel1, hs1, hm1⟩ := ih1 e sel env hm
    obtain ⟨sel2, hs2, hm2⟩ := ih2 e sel1 env hm1
    exact ⟨sel2, .trans hs1 hs2, hm2⟩

theorem selset_set_rel (s : Schema) {xs ys : List Selection} (hxy : SelsEq xs ys) (e : Snap) (sel : List Selection) (env : Snap)
    (hm : (Ev.enter (.selectionSet sel), env) ∈ walkSelectionSet s e xs) :
    ∃ sel', SelsEq sel sel' ∧ (Ev.enter (.selectionSet sel'), env) ∈ walkSelectionSet s e ys := by
  simp only [walkSelectionSet, walkSelectionSetWith, List.cons_append, List.mem_cons, List.mem_append, List.not_mem_nil, or_false, or_assoc] at hm ⊢
  rcases hm with h | h | h
  · obtain ⟨h1, h2⟩ := Prod.mk.inj h
    have h1' : sel = xs := by simpa using h1
    subst h1'
    exact ⟨ys, hxy, Or.inl (by rw [h2])⟩
  · obtain ⟨sel', hs, hm'⟩ := selset_walk_rel s hxy _ sel env h
    exact ⟨sel', hs, Or.inr (Or.inl hm')⟩
  · cases h

theorem selset_defs_rel (s : Schema) {d d' : Document} (h : DocRel d d') :
    ∀ (sel : List Selection) (env : Snap), (Ev.enter (.selectionSet sel), env) ∈ d.flatMap (defTrace s) →
      ∃ sel', SelsEq sel sel' ∧ (Ev.enter (.selectionSet sel'), env) ∈ d'.flatMap (defTrace s) := by
  induction h with
  | refl d => intro sel env hm; exact ⟨sel, .refl _, hm⟩
  | op o l hs =>
    intro sel env hm
    simp only [List.flatMap_cons, List.mem_append] at hm ⊢
    rcases hm with h | h
    · simp only [defTrace, walkDefinition] at h ⊢
      generalize rootTypeName s o.kind = r at h ⊢
      cases r with
      | none => simp at h
      | some tn =>
        simp only [Option.map_some, Option.getD_some, List.cons_append, List.mem_cons, List.mem_append, List.not_mem_nil, or_false, or_assoc] at h ⊢
        rcases h with h | h | h | h | h
        · cases h
        · exact absurd h (noSel_directives s _ _ sel env)
        · exact absurd h (noSel_varDefs s _ sel env _)
        · obtain ⟨sel', hs', hm'⟩ := selset_set_rel s hs _ sel env h
          exact ⟨sel', hs', Or.inr (Or.inr (Or.inr (Or.inl hm')))⟩
        · cases h
    · exact ⟨sel, .refl _, Or.inr h⟩
  | frag f l hs =>
    intro sel env hm
    simp only [List.flatMap_cons, List.mem_append] at hm ⊢
    rcases hm with h | h
    · simp only [defTrace, walkDefinition, Option.getD_some, List.cons_append, List.mem_cons, List.mem_append, List.not_mem_nil, or_false, or_assoc] at h ⊢
      rcases h with h | h | h | h
      · cases h
      · exact absurd h (noSel_directives s _ _ sel env)
      · obtain ⟨sel', hs', hm'⟩ := selset_set_rel s hs _ sel env h
        exact ⟨sel', hs', Or.inr (Or.inr (Or.inl hm'))⟩
      · cases h
    · exact ⟨sel, .refl _, Or.inr h⟩
  | cons x _ ih =>
    intro sel env hm
    simp only [List.flatMap_cons, List.mem_append] at hm ⊢
    rcases hm with h | h
    · exact ⟨sel, .refl _, Or.inl h⟩
    · obtain ⟨sel', hs, hm'⟩ := ih sel env h
      exact ⟨sel', hs, Or.inr hm'⟩
  | trans _ _ ih1 ih2 =>
    intro sel env hm
    obtain ⟨sel1, hs1, hm1⟩ := ih1 sel env hm
    obtain ⟨sel2, hs2, hm2⟩ := ih2 sel1 env hm1
    exact ⟨sel2, .trans hs1 hs2, hm2⟩

theorem selset_doc_rel (s : Schema) (hq : s.queryType.isSome = true) {d d' : Document} (hdd : DocRel d d')
    (sel : List Selection) (env : Snap) (hm : (Ev.enter (.selectionSet sel), env) ∈ walkOf s d) :
    ∃ sel', SelsEq sel sel' ∧ (Ev.enter (.selectionSet sel'), env) ∈ walkOf s d' := by
  rw [(walkOf_defs s d hq).1] at hm
  rw [(walkOf_defs s d' hq).1]
  simp only [List.cons_append, List.mem_cons, List.mem_append, List.not_mem_nil, or_false] at hm ⊢
  rcases hm with h | h | h
  · cases h
  · obtain ⟨sel', hs, hm'⟩ := selset_defs_rel s hdd sel env h
    exact ⟨sel', hs, Or.inr (Or.inl hm')⟩
  · cases h

/-! ### what does not change -/

theorem selsDepth_rel {a b : List Selection} (h : SelsEq a b) : selsDepth a = selsDepth b := by
  induction h with
  | refl l => rfl
  | swap x y l => simp only [selsDepth]; omega
  | cons x _ ih => simp only [selsDepth, ih]
  | field pos alias name args dirs l _ ih => simp only [selsDepth, selDepth, ih]
  | inline pos tc dirs l _ ih => simp only [selsDepth, selDepth, ih]
  | trans _ _ ih1 ih2 => exact ih1.trans ih2

theorem docDepth_rel {d d' : Document} (h : DocRel d d') : docDepth d = docDepth d' := by
  induction h with
  | refl d => rfl
  | op o l hs => simp only [docDepth, Definition.selections, selsDepth_rel hs]
  | frag f l hs => simp only [docDepth, Definition.selections, selsDepth_rel hs]
  | cons x _ ih => simp only [docDepth, ih]
  | trans _ _ ih1 ih2 => exact ih1.trans ih2

theorem fragments_length_rel {d d' : Document} (h : DocRel d d') : d.fragments.length = d'.fragments.length := by
  induction h with
  | refl d => rfl
  | op o l _ => simp only [Document.fragments]
  | frag f l _ => simp only [Document.fragments, List.length_cons]
  | cons x _ ih => cases x <;> simp only [Document.fragments, List.length_cons, ih]
  | trans _ _ ih1 ih2 => exact ih1.trans ih2

mutual
theorem aoSel_of_traverse : ∀ (x : Selection) (sel : List Selection), aoSel x → Ev.enter (.selectionSet sel) ∈ traverseSelection x → aoSels sel
  | .field pos alias name args dirs sel0, sel, h, hm => by
      simp only [aoSel] at h
      simp only [traverseSelection, List.cons_append, List.mem_cons, List.mem_append, List.not_mem_nil, or_false, or_assoc] at hm
      rcases hm with hm | hm | hm | hm | hm | hm | hm
      · cases hm
      · have := (below_arguments args) _ hm; simp [Ev.node, Node.level] at this
      · have := (below_directives dirs) _ hm; simp [Ev.node, Node.level] at this
      · have : sel = sel0 := by simpa using hm
        subst this; exact h.2
      · exact aoSels_of_traverse sel0 sel h.2 hm
      · cases hm
      · cases hm
  | .spread pos name dirs, sel, _, hm => by
      simp only [traverseSelection, List.cons_append, List.mem_cons, List.mem_append, List.not_mem_nil, or_false, or_assoc] at hm
      rcases hm with hm | hm | hm
      · cases hm
      · have := (below_directives dirs) _ hm; simp [Ev.node, Node.level] at this
      · cases hm
  | .inline pos tc dirs sel0, sel, h, hm => by
      simp only [aoSel] at h
      simp only [traverseSelection, List.cons_append, List.mem_cons, List.mem_append, List.not_mem_nil, or_false, or_assoc] at hm
      rcases hm with hm | hm | hm | hm | hm | hm
      · cases hm
      · have := (below_directives dirs) _ hm; simp [Ev.node, Node.level] at this
      · have : sel = sel0 := by simpa using hm
        subst this; exact h
      · exact aoSels_of_traverse sel0 sel h hm
      · cases hm
      · cases hm
theorem aoSels_of_traverse : ∀ (xs : List Selection) (sel : List Selection), aoSels xs → Ev.enter (.selectionSet sel) ∈ traverseSelections xs → aoSels sel
  | [], _, _, hm => by simp [traverseSelections] at hm
  | x :: xs, sel, h, hm => by
      simp only [aoSels] at h
      simp only [traverseSelections, List.mem_append] at hm
      rcases hm with hm | hm
      · exact aoSel_of_traverse x sel h.1 hm
      · exact aoSels_of_traverse xs sel h.2 hm
end

end Gql
