/-
  Lemmas/MergeCollect.lean — `collect_fields_and_fragment_names` on selection sets without
  fragment spreads: the ordered field map is the spec's collected field list grouped by response
  key; the fragment-name list is empty.
-/
import GqlVerif.Spec.Merge
import GqlVerif.Lemmas.AssocList
namespace Gql
open Gql.Spec

def keyOf (a : AstAndDef) : Name := a.field.responseKey

/-- insert the fields, in order, into the map -/
def groupInto (fm : FieldMap) (F : List AstAndDef) : FieldMap :=
  F.foldl (fun fm a => alUpdate fm (keyOf a) [] (· ++ [a])) fm

theorem groupInto_append (fm : FieldMap) (A B : List AstAndDef) :
    groupInto fm (A ++ B) = groupInto (groupInto fm A) B := by
  simp [groupInto, List.foldl_append]

mutual
theorem collectSel_ff (s : Schema) (spread : Name → List AstAndDef) :
    ∀ (x : Selection) (parent : Option TypeDef) (acc : FieldMap × List Name), recursiveSpreadsSel x = [] →
      mergeCollectSel s parent x acc = (groupInto acc.1 (specFieldsSelWith s spread parent x), acc.2)
  | .field pos alias name args dirs sel, parent, (fm, fns), _ => by
      simp [mergeCollectSel, specFieldsSelWith, groupInto, keyOf]
  | .spread _ _ _, _, _, h => by simp [recursiveSpreadsSel] at h
  | .inline _ tc _ sel, parent, acc, h => by
      simp only [mergeCollectSel, specFieldsSelWith]
      exact collectSels_ff s spread sel _ acc (by simpa [recursiveSpreadsSel] using h)
theorem collectSels_ff (s : Schema) (spread : Name → List AstAndDef) :
    ∀ (xs : List Selection) (parent : Option TypeDef) (acc : FieldMap × List Name), recursiveSpreads xs = [] →
      mergeCollectSels s parent xs acc = (groupInto acc.1 (specFieldsWith s spread parent xs), acc.2)
  | [], _, acc, _ => by simp [mergeCollectSels, specFieldsWith, groupInto]
  | x :: xs, parent, acc, h => by
      simp only [recursiveSpreads, List.append_eq_nil_iff] at h
      simp only [mergeCollectSels, specFieldsWith, groupInto_append]
      rw [collectSel_ff s spread x parent acc h.1, collectSels_ff s spread xs parent _ h.2]
end

/-- without spreads the map is the grouped field list and no fragment name is recorded -/
theorem fieldsAndFragmentNames_ff (s : Schema) (spread : Name → List AstAndDef) (parent : Option TypeDef)
    (sel : List Selection) (h : recursiveSpreads sel = []) :
    fieldsAndFragmentNames s parent sel = (groupInto [] (specFieldsWith s spread parent sel), []) := by
  unfold fieldsAndFragmentNames
  exact collectSels_ff s spread sel parent ([], []) h

/-- without spreads it does not matter what a spread would contribute -/
theorem specFieldsWith_ff (s : Schema) (sp1 sp2 : Name → List AstAndDef) (parent : Option TypeDef)
    (sel : List Selection) (h : recursiveSpreads sel = []) :
    specFieldsWith s sp1 parent sel = specFieldsWith s sp2 parent sel := by
  have h1 := collectSels_ff s sp1 sel parent ([], []) h
  have h2 := collectSels_ff s sp2 sel parent ([], []) h
  -- both group to the same map; compare the lists directly instead
  clear h1 h2
  revert parent
  suffices hsel : (∀ (x : Selection) (parent : Option TypeDef), recursiveSpreadsSel x = [] →
      specFieldsSelWith s sp1 parent x = specFieldsSelWith s sp2 parent x) ∧
      (∀ (xs : List Selection) (parent : Option TypeDef), recursiveSpreads xs = [] →
      specFieldsWith s sp1 parent xs = specFieldsWith s sp2 parent xs) from fun parent => hsel.2 sel parent h
  exact ⟨ffSel s sp1 sp2, ffSels s sp1 sp2⟩
where
  ffSel (s : Schema) (sp1 sp2 : Name → List AstAndDef) : ∀ (x : Selection) (parent : Option TypeDef), recursiveSpreadsSel x = [] →
      specFieldsSelWith s sp1 parent x = specFieldsSelWith s sp2 parent x
    | .field _ _ _ _ _ _, _, _ => by simp [specFieldsSelWith]
    | .spread _ _ _, _, h => by simp [recursiveSpreadsSel] at h
    | .inline _ tc _ sel, parent, h => by
        simp only [specFieldsSelWith]
        exact ffSels s sp1 sp2 sel _ (by simpa [recursiveSpreadsSel] using h)
  ffSels (s : Schema) (sp1 sp2 : Name → List AstAndDef) : ∀ (xs : List Selection) (parent : Option TypeDef), recursiveSpreads xs = [] →
      specFieldsWith s sp1 parent xs = specFieldsWith s sp2 parent xs
    | [], _, _ => by simp [specFieldsWith]
    | x :: xs, parent, h => by
        simp only [recursiveSpreads, List.append_eq_nil_iff] at h
        simp only [specFieldsWith, ffSel s sp1 sp2 x parent h.1, ffSels s sp1 sp2 xs parent h.2]

/-! ### reading the grouped map -/

theorem alKeys_groupInto_nodup : ∀ (F : List AstAndDef) (fm : FieldMap), (alKeys fm).Nodup → (alKeys (groupInto fm F)).Nodup
  | [], _, h => h
  | a :: F, fm, h => by
      simp only [groupInto, List.foldl_cons]
      refine alKeys_groupInto_nodup F _ ?_
      rw [alKeys_alUpdate]
      split
      · exact h
      · rename_i hk
        rw [List.nodup_append]
        refine ⟨h, by simp, ?_⟩
        intro x hx y hy
        simp only [List.mem_singleton] at hy
        subst hy
        intro hxy; subst hxy; exact hk hx

theorem alGet_groupInto : ∀ (F : List AstAndDef) (fm : FieldMap) (k : Name),
    (alGet (groupInto fm F) k).getD [] = (alGet fm k).getD [] ++ F.filter (fun a => keyOf a == k)
  | [], fm, k => by simp [groupInto]
  | a :: F, fm, k => by
      simp only [groupInto, List.foldl_cons]
      have := alGet_groupInto F (alUpdate fm (keyOf a) [] (· ++ [a])) k
      simp only [groupInto] at this
      rw [this, alGet_alUpdate]
      by_cases hk : k = keyOf a
      · subst hk; simp [List.filter_cons]
      · have hk' : ¬ keyOf a = k := fun e => hk e.symm
        simp [hk, hk', List.filter_cons]

/-- an entry of the grouped map holds exactly the fields of its key, in order, and there is at least one -/
theorem mem_groupInto (F : List AstAndDef) (k : Name) (fs : List AstAndDef) (h : (k, fs) ∈ groupInto [] F) :
    fs = F.filter (fun a => keyOf a == k) := by
  have hn := alKeys_groupInto_nodup F [] (by simp [alKeys])
  have hg := alGet_of_mem _ hn k fs h
  have := alGet_groupInto F [] k
  rw [hg] at this
  simpa using this

theorem alGet_groupInto_nil (F : List AstAndDef) (k : Name) :
    (alGet (groupInto [] F) k).getD [] = F.filter (fun a => keyOf a == k) := by
  simpa using alGet_groupInto F [] k

/-- every field of the list sits in the entry of its key -/
theorem groupInto_covers : ∀ (F : List AstAndDef) (fm : FieldMap) (a : AstAndDef), a ∈ F →
    ∃ fs, (keyOf a, fs) ∈ groupInto fm F
  | [], _, _, h => by simp at h
  | b :: F, fm, a, h => by
      simp only [groupInto, List.foldl_cons]
      rcases List.mem_cons.1 h with rfl | h
      · -- after inserting `a` its key is present; later insertions keep keys
        have hk : keyOf a ∈ alKeys (alUpdate fm (keyOf a) [] (· ++ [a])) := by
          rw [alKeys_alUpdate]; split <;> simp_all
        have : keyOf a ∈ alKeys (groupInto (alUpdate fm (keyOf a) [] (· ++ [a])) F) := by
          have mono : ∀ (G : List AstAndDef) (m : FieldMap) (k : Name), k ∈ alKeys m → k ∈ alKeys (groupInto m G) := by
            intro G
            induction G with
            | nil => intro m k hk; exact hk
            | cons g G ih =>
              intro m k hk
              simp only [groupInto, List.foldl_cons]
              apply ih
              rw [alKeys_alUpdate]; split
              · exact hk
              · exact List.mem_append_left _ hk
          exact mono F _ _ hk
        simp only [alKeys, List.mem_map] at this
        obtain ⟨⟨k, fs⟩, hm, hk'⟩ := this
        simp only at hk'; subst hk'
        exact ⟨fs, hm⟩
      · exact groupInto_covers F _ a h

end Gql
