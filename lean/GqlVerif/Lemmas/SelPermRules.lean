/-
  Lemmas/SelPermRules.lean — the specification predicates of 22 rules (all but 'single field
  subscriptions', whose CollectFields relation is order-sensitive in its bookkeeping, and the
  field-merging rule, done in Lemmas/SelPermFinal.lean) are invariant under reordering the
  selections inside selection sets.
-/
import GqlVerif.Lemmas.SelPermEvents
namespace Gql
open Gql.Spec

/-! ### operations and fragments of related documents -/


theorem opsRel {d d' : Document} (h : DocRel d d') : ∀ o ∈ d.operations, ∃ sel', SelsEq o.sel sel' ∧ ({ o with sel := sel' } : Operation) ∈ d'.operations := by
  induction h with
  | refl d => intro o ho; exact ⟨o.sel, .refl _, ho⟩
  | op o0 l hs =>
    intro o ho
    simp only [Document.operations, List.mem_cons] at ho ⊢
    rcases ho with rfl | ho
    · exact ⟨_, hs, Or.inl rfl⟩
    · exact ⟨o.sel, .refl _, Or.inr (ho)⟩
  | frag f l _ =>
    intro o ho
    simp only [Document.operations] at ho ⊢
    exact ⟨o.sel, .refl _, ho⟩
  | cons x _ ih =>
    intro o ho
    cases x with
    | op o0 =>
      simp only [Document.operations, List.mem_cons] at ho ⊢
      rcases ho with rfl | ho
      · exact ⟨o.sel, .refl _, Or.inl rfl⟩
      · obtain ⟨sel', hs, hm⟩ := ih o ho
        exact ⟨sel', hs, Or.inr hm⟩
    | frag f =>
      simp only [Document.operations] at ho ⊢
      exact ih o ho
  | trans _ _ ih1 ih2 =>
    intro o ho
    obtain ⟨s1, h1, m1⟩ := ih1 o ho
    obtain ⟨s2, h2, m2⟩ := ih2 _ m1
    exact ⟨s2, .trans h1 h2, m2⟩

theorem fragsRel {d d' : Document} (h : DocRel d d') : ∀ f ∈ d.fragments, ∃ sel', SelsEq f.sel sel' ∧ ({ f with sel := sel' } : FragDef) ∈ d'.fragments := by
  induction h with
  | refl d => intro f hf; exact ⟨f.sel, .refl _, hf⟩
  | op o0 l _ =>
    intro f hf
    simp only [Document.fragments] at hf ⊢
    exact ⟨f.sel, .refl _, hf⟩
  | frag f0 l hs =>
    intro f hf
    simp only [Document.fragments, List.mem_cons] at hf ⊢
    rcases hf with rfl | hf
    · exact ⟨_, hs, Or.inl rfl⟩
    · exact ⟨f.sel, .refl _, Or.inr (hf)⟩
  | cons x _ ih =>
    intro f hf
    cases x with
    | frag f0 =>
      simp only [Document.fragments, List.mem_cons] at hf ⊢
      rcases hf with rfl | hf
      · exact ⟨f.sel, .refl _, Or.inl rfl⟩
      · obtain ⟨sel', hs, hm⟩ := ih f hf
        exact ⟨sel', hs, Or.inr hm⟩
    | op o =>
      simp only [Document.fragments] at hf ⊢
      exact ih f hf
  | trans _ _ ih1 ih2 =>
    intro f hf
    obtain ⟨s1, h1, m1⟩ := ih1 f hf
    obtain ⟨s2, h2, m2⟩ := ih2 _ m1
    exact ⟨s2, .trans h1 h2, m2⟩

theorem opNames_rel {d d' : Document} (h : DocRel d d') :
    d.operations.map (·.name) = d'.operations.map (·.name) := by
  induction h with
  | refl d => rfl
  | op o l _ => simp only [Document.operations, List.map_cons]
  | frag f l _ => simp only [Document.operations]
  | cons x _ ih => cases x <;> simp only [Document.operations, List.map_cons, ih]
  | trans _ _ ih1 ih2 => exact ih1.trans ih2

theorem fragNames_rel {d d' : Document} (h : DocRel d d') :
    d.fragments.map (·.name) = d'.fragments.map (·.name) := by
  induction h with
  | refl d => rfl
  | op o l _ => simp only [Document.fragments]
  | frag f l _ => simp only [Document.fragments, List.map_cons]
  | cons x _ ih => cases x <;> simp only [Document.fragments, List.map_cons, ih]
  | trans _ _ ih1 ih2 => exact ih1.trans ih2

theorem filterMap_of_map {α β : Type} (f : α → Option β) : ∀ {l l' : List α}, l.map f = l'.map f → l.filterMap f = l'.filterMap f := by
  intro l l' h
  have : ∀ l : List α, l.filterMap f = (l.map f).filterMap id := by
    intro l; induction l with
    | nil => rfl
    | cons x xs ih => simp only [List.map_cons, List.filterMap_cons, id, ih]
  rw [this l, this l', h]

/-! ### lists computed from the selections -/

theorem rootTypename_rel {a b : List Selection} (h : SelsEq a b) : rootTypenameFields a ≠ [] ↔ rootTypenameFields b ≠ [] := by
  have key : ∀ l : List Selection, rootTypenameFields l ≠ [] ↔ ∃ p al n ar di se, Selection.field p al n ar di se ∈ l ∧ (n == nTypename) = true := by
    intro l
    induction l with
    | nil => simp [rootTypenameFields]
    | cons x xs ih =>
      cases x with
      | field p al n ar di se =>
        simp only [rootTypenameFields]
        by_cases hn : (n == nTypename) = true
        · simp only [hn, if_true]
          exact ⟨fun _ => ⟨p, al, n, ar, di, se, by simp, hn⟩, fun _ => by simp⟩
        · have hn' : (n == nTypename) = false := by simpa using hn
          simp only [hn', Bool.false_eq_true, ↓reduceIte]
          rw [ih]
          constructor
          · rintro ⟨p', al', n', ar', di', se', hm, hk⟩
            exact ⟨p', al', n', ar', di', se', by simp [hm], hk⟩
          · rintro ⟨p', al', n', ar', di', se', hm, hk⟩
            rcases List.mem_cons.1 hm with he | hm
            · cases he; exact absurd hk hn
            · exact ⟨p', al', n', ar', di', se', hm, hk⟩
      | spread p n di =>
        simp only [rootTypenameFields]
        rw [ih]
        constructor
        · rintro ⟨p', al', n', ar', di', se', hm, hk⟩; exact ⟨p', al', n', ar', di', se', by simp [hm], hk⟩
        · rintro ⟨p', al', n', ar', di', se', hm, hk⟩
          rcases List.mem_cons.1 hm with he | hm
          · cases he
          · exact ⟨p', al', n', ar', di', se', hm, hk⟩
      | inline p tc di se =>
        simp only [rootTypenameFields]
        rw [ih]
        constructor
        · rintro ⟨p', al', n', ar', di', se', hm, hk⟩; exact ⟨p', al', n', ar', di', se', by simp [hm], hk⟩
        · rintro ⟨p', al', n', ar', di', se', hm, hk⟩
          rcases List.mem_cons.1 hm with he | hm
          · cases he
          · exact ⟨p', al', n', ar', di', se', hm, hk⟩
  induction h with
  | refl l => exact Iff.rfl
  | swap x y l =>
    rw [key, key]
    constructor <;> (rintro ⟨p, al, n, ar, di, se, hm, hk⟩; refine ⟨p, al, n, ar, di, se, ?_, hk⟩; simp only [List.mem_cons] at hm ⊢; rcases hm with h | h | h; exact Or.inr (Or.inl h); exact Or.inl h; exact Or.inr (Or.inr h))
  | cons x _ ih =>
    cases x with
    | field p al n ar di se =>
      simp only [rootTypenameFields]
      by_cases hn : (n == nTypename) = true
      · simp [hn]
      · have hn' : (n == nTypename) = false := by simpa using hn
        simp only [hn', Bool.false_eq_true, ↓reduceIte]; exact ih
    | spread p n di => simp only [rootTypenameFields]; exact ih
    | inline p tc di se => simp only [rootTypenameFields]; exact ih
  | field pos alias name args dirs l _ _ => simp only [rootTypenameFields]
  | inline pos tc dirs l _ _ => simp only [rootTypenameFields]
  | trans _ _ ih1 ih2 => exact ih1.trans ih2

theorem dirsOfSels_rel {a b : List Selection} (h : SelsEq a b) : ∀ p, p ∈ directivesOfSelections a ↔ p ∈ directivesOfSelections b := by
  induction h with
  | refl l => intro p; exact Iff.rfl
  | swap x y l =>
    intro p
    simp only [directivesOfSelections, List.mem_append]
    constructor <;> (rintro (h | h | h); exact Or.inr (Or.inl h); exact Or.inl h; exact Or.inr (Or.inr h))
  | cons x _ ih => intro p; simp only [directivesOfSelections, List.mem_append, ih p]
  | field pos alias name args dirs l _ ih => intro p; simp only [directivesOfSelections, directivesOfSelection, List.mem_append, ih p]
  | inline pos tc dirs l _ ih => intro p; simp only [directivesOfSelections, directivesOfSelection, List.mem_append, ih p]
  | trans _ _ ih1 ih2 => intro p; exact (ih1 p).trans (ih2 p)

theorem dirListsOfSels_rel {a b : List Selection} (h : SelsEq a b) : ∀ p, p ∈ directiveListsOfSelections a ↔ p ∈ directiveListsOfSelections b := by
  induction h with
  | refl l => intro p; exact Iff.rfl
  | swap x y l =>
    intro p
    simp only [directiveListsOfSelections, List.mem_append]
    constructor <;> (rintro (h | h | h); exact Or.inr (Or.inl h); exact Or.inl h; exact Or.inr (Or.inr h))
  | cons x _ ih => intro p; simp only [directiveListsOfSelections, List.mem_append, ih p]
  | field pos alias name args dirs l _ ih =>
    intro p; simp only [directiveListsOfSelections, directiveListsOfSelection, List.mem_append, List.mem_cons, ih p]
  | inline pos tc dirs l _ ih =>
    intro p; simp only [directiveListsOfSelections, directiveListsOfSelection, List.mem_append, List.mem_cons, ih p]
  | trans _ _ ih1 ih2 => intro p; exact (ih1 p).trans (ih2 p)

theorem directivesAt_rel {d d' : Document} (h : DocRel d d') : ∀ p, p ∈ directivesAt d ↔ p ∈ directivesAt d' := by
  induction h with
  | refl d => intro p; exact Iff.rfl
  | op o l hs => intro p; simp only [directivesAt, List.flatMap_cons, List.mem_append, directivesOfDefinition, dirsOfSels_rel hs p]
  | frag f l hs => intro p; simp only [directivesAt, List.flatMap_cons, List.mem_append, directivesOfDefinition, dirsOfSels_rel hs p]
  | cons x _ ih =>
    intro p
    have := ih p
    simp only [directivesAt, List.flatMap_cons, List.mem_append] at this ⊢
    rw [this]
  | trans _ _ ih1 ih2 => intro p; exact (ih1 p).trans (ih2 p)

theorem directiveLists_rel {d d' : Document} (h : DocRel d d') : ∀ p, p ∈ directiveLists d ↔ p ∈ directiveLists d' := by
  induction h with
  | refl d => intro p; exact Iff.rfl
  | op o l hs =>
    intro p; simp only [directiveLists, List.flatMap_cons, List.mem_append, directiveListsOfDefinition, List.mem_cons, dirListsOfSels_rel hs p]
  | frag f l hs =>
    intro p; simp only [directiveLists, List.flatMap_cons, List.mem_append, directiveListsOfDefinition, List.mem_cons, dirListsOfSels_rel hs p]
  | cons x _ ih =>
    intro p
    have := ih p
    simp only [directiveLists, List.flatMap_cons, List.mem_append] at this ⊢
    rw [this]
  | trans _ _ ih1 ih2 => intro p; exact (ih1 p).trans (ih2 p)

/-! ### what a definition uses -/

/-- a function of a callback that does not look below fields, inline fragments, selection sets or definitions -/
def FlatFn {β : Type} (g : Ev × Snap → List β) : Prop := ∀ ev ev' env, EvRel ev ev' → g (ev, env) = g (ev', env)

theorem flatFn_argVars : FlatFn argVars := by
  intro ev ev' env h
  cases h with
  | enter hn => cases hn <;> rfl
  | leave hn => cases hn <;> rfl

theorem flatFn_varUsage : FlatFn varUsage := by
  intro ev ev' env h
  cases h with
  | enter hn => cases hn <;> rfl
  | leave hn => cases hn <;> rfl

theorem defTrace_flat_op (s : Schema) {β : Type} (g : Ev × Snap → List β) (hg : FlatFn g) (o : Operation) {sel' : List Selection}
    (hs : SelsEq o.sel sel') (x : β) (hx : x ∈ (defTrace s (.op o)).flatMap g) : x ∈ (defTrace s (.op { o with sel := sel' })).flatMap g := by
  obtain ⟨⟨ev, env⟩, hm, hxe⟩ := List.mem_flatMap.1 hx
  have hm1 : (ev, env) ∈ [Definition.op o].flatMap (defTrace s) := by simpa using hm
  obtain ⟨ev', hr, hm'⟩ := ev_defs_rel s (DocRel.op o [] hs) ev env hm1
  have hm2 : (ev', env) ∈ defTrace s (.op { o with sel := sel' }) := by simpa using hm'
  exact List.mem_flatMap.2 ⟨(ev', env), hm2, by rw [← hg ev ev' env hr]; exact hxe⟩

theorem defTrace_flat_frag (s : Schema) {β : Type} (g : Ev × Snap → List β) (hg : FlatFn g) (f : FragDef) {sel' : List Selection}
    (hs : SelsEq f.sel sel') (x : β) (hx : x ∈ (defTrace s (.frag f)).flatMap g) : x ∈ (defTrace s (.frag { f with sel := sel' })).flatMap g := by
  obtain ⟨⟨ev, env⟩, hm, hxe⟩ := List.mem_flatMap.1 hx
  have hm1 : (ev, env) ∈ [Definition.frag f].flatMap (defTrace s) := by simpa using hm
  obtain ⟨ev', hr, hm'⟩ := ev_defs_rel s (DocRel.frag f [] hs) ev env hm1
  have hm2 : (ev', env) ∈ defTrace s (.frag { f with sel := sel' }) := by simpa using hm'
  exact List.mem_flatMap.2 ⟨(ev', env), hm2, by rw [← hg ev ev' env hr]; exact hxe⟩

theorem inScope_rel {d d' : Document} (h : DocRel d d') (o : Operation) {sel' : List Selection} (hs : SelsEq o.sel sel') (k : Name)
    (hi : InScope d o k) : InScope d' { o with sel := sel' } k := by
  obtain ⟨sp, hsp, hr⟩ := hi
  exact ⟨sp, (recSpreads_rel hs sp).1 hsp, C14.reachable_congr (mem_spreadsOf_rel h) hr⟩

theorem usedBy_rel (s : Schema) {d d' : Document} (h : DocRel d d') (o : Operation) {sel' : List Selection} (hs : SelsEq o.sel sel') (v : Name)
    (hu : UsedBy s d o v) : UsedBy s d' { o with sel := sel' } v := by
  rcases hu with h1 | ⟨f, hf, hin, hv⟩
  · exact Or.inl (defTrace_flat_op s argVars flatFn_argVars o hs v h1)
  · obtain ⟨fsel, hfs, hfm⟩ := fragsRel h f hf
    exact Or.inr ⟨_, hfm, inScope_rel h o hs f.name hin, defTrace_flat_frag s argVars flatFn_argVars f hfs v hv⟩

theorem usageOf_rel (s : Schema) {d d' : Document} (h : DocRel d d') (o : Operation) {sel' : List Selection} (hs : SelsEq o.sel sel') (u : Name × Ty)
    (hu : UsageOf s d o u) : UsageOf s d' { o with sel := sel' } u := by
  rcases hu with h1 | ⟨f, hf, hin, hv⟩
  · exact Or.inl (defTrace_flat_op s varUsage flatFn_varUsage o hs u h1)
  · obtain ⟨fsel, hfs, hfm⟩ := fragsRel h f hf
    exact Or.inr ⟨_, hfm, inScope_rel h o hs f.name hin, defTrace_flat_frag s varUsage flatFn_varUsage f hfs u hv⟩

/-- the converse, through the symmetric relation -/
theorem usedBy_rel_back (s : Schema) {d d' : Document} (h : DocRel d d') (o : Operation) {sel' : List Selection} (hs : SelsEq o.sel sel') (v : Name)
    (hu : UsedBy s d' { o with sel := sel' } v) : UsedBy s d o v := by
  have := usedBy_rel s h.symm { o with sel := sel' } (sel' := o.sel) hs.symm v hu
  exact this

end Gql
