/-
  Lemmas/MergeTerm.lean — the recursion of the field-merging rule ends on every document whose
  fragment spreads form no cycle (whatever the schema, the memo table and the visited list):
  given `(2·#fragments + 4) · (h + 1)` units of fuel, where `h` is the expanded height of the
  compared selection sets, none of the five mutually recursive functions runs out of fuel.

  Measure: the expanded height `Hs` (fields nested through inline fragments and spreads; it drops
  from a collected field to its own selection set — `descent`), and inside one level the length of
  the longest chain of nested spreads from the fragment(s) being expanded (`ChainBound`, at most
  `#fragments` without cycles).
-/
import GqlVerif.Lemmas.FuelAdequate
namespace Gql
open Gql.Spec

/-! ### what the collector records -/

mutual
theorem collectSel_topNames (s : Schema) : ∀ (x : Selection) (parent : Option TypeDef) (acc : FieldMap × List Name) (nm : Name),
    nm ∈ (mergeCollectSel s parent x acc).2 → nm ∈ acc.2 ∨ nm ∈ topSpreadsSel x
  | .field pos alias name args dirs sel, parent, (fm, fns), nm, h => by
      simp only [mergeCollectSel] at h; exact Or.inl h
  | .spread _ name _, _, (fm, fns), nm, h => by
      simp only [mergeCollectSel] at h
      split at h
      · exact Or.inl h
      · simp only [List.mem_append, List.mem_singleton] at h
        rcases h with h | rfl
        · exact Or.inl h
        · right; simp [topSpreadsSel]
  | .inline _ tc _ sel, parent, acc, nm, h => by
      simp only [mergeCollectSel] at h
      simp only [topSpreadsSel]
      exact collectSels_topNames s sel _ acc nm h
theorem collectSels_topNames (s : Schema) : ∀ (xs : List Selection) (parent : Option TypeDef) (acc : FieldMap × List Name) (nm : Name),
    nm ∈ (mergeCollectSels s parent xs acc).2 → nm ∈ acc.2 ∨ nm ∈ topSpreads xs
  | [], _, acc, nm, h => by simp only [mergeCollectSels] at h; exact Or.inl h
  | x :: xs, parent, acc, nm, h => by
      simp only [mergeCollectSels] at h
      simp only [topSpreads, List.mem_append]
      rcases collectSels_topNames s xs parent _ nm h with h | h
      · rcases collectSel_topNames s x parent acc nm h with h | h
        · exact Or.inl h
        · exact Or.inr (Or.inl h)
      · exact Or.inr (Or.inr h)
end

/-- a fragment name the collector records is a spread the selection set makes (through inline fragments) -/
theorem fafn_top (s : Schema) (parent : Option TypeDef) (sel : List Selection) (nm : Name)
    (h : nm ∈ (fieldsAndFragmentNames s parent sel).2) : nm ∈ topSpreads sel := by
  unfold fieldsAndFragmentNames at h
  rcases collectSels_topNames s sel parent ([], []) nm h with h | h
  · simp at h
  · exact h

mutual
theorem le_hSelW_of_top (sp : Name → Nat) : ∀ (x : Selection) (nm : Name), nm ∈ topSpreadsSel x → sp nm ≤ hSelW sp x
  | .field _ _ _ _ _ _, _, h => by simp [topSpreadsSel] at h
  | .spread _ n _, nm, h => by
      simp only [topSpreadsSel, List.mem_singleton] at h
      subst h; simp [hSelW]
  | .inline _ _ _ sel, nm, h => by
      simp only [topSpreadsSel] at h
      simpa [hSelW] using le_hSelsW_of_top sp sel nm h
theorem le_hSelsW_of_top (sp : Name → Nat) : ∀ (xs : List Selection) (nm : Name), nm ∈ topSpreads xs → sp nm ≤ hSelsW sp xs
  | [], _, h => by simp [topSpreads] at h
  | x :: xs, nm, h => by
      simp only [topSpreads, List.mem_append] at h
      simp only [hSelsW]
      rcases h with h | h
      · have := le_hSelW_of_top sp x nm h; omega
      · have := le_hSelsW_of_top sp xs nm h; omega
end

/-- every field of a map is at most this high (`0`: the map has no field) -/
def FMle (d : Document) (fm : FieldMap) (M : Nat) : Prop := ∀ a, FM fm a → ha d a + 1 ≤ M

theorem fafn_le (s : Schema) (d : Document) (hac : ¬ FragmentCycle d) (parent : Option TypeDef) (sel : List Selection) :
    FMle d (fieldsAndFragmentNames s parent sel).1 (Hs d sel) :=
  fun a h => descent s d hac 0 parent sel a ((fafn_facts s d parent sel).2.1 a h 0)

theorem fafn_Hf (s : Schema) (d : Document) (parent : Option TypeDef) (sel : List Selection) (nm : Name)
    (h : nm ∈ (fieldsAndFragmentNames s parent sel).2) : Hf d nm ≤ Hs d sel :=
  le_hSelsW_of_top (Hf d) sel nm (fafn_top s parent sel nm h)

theorem Hf_some (d : Document) (hac : ¬ FragmentCycle d) (nm : Name) (fr : FragDef) (h : d.fragByName nm = some fr) :
    Hs d fr.sel = Hf d nm := by rw [Hf_eq d hac nm, h]

theorem chainBound_succ {succ : Name → List Name} : ∀ {k : Nat} {a b : Name}, ChainBound succ k a → b ∈ succ a →
    ∃ k', k = k' + 1 ∧ ChainBound succ k' b
  | 0, a, b, h, hb => by simp only [ChainBound] at h; rw [h] at hb; cases hb
  | k + 1, a, b, h, hb => ⟨k, rfl, h b hb⟩

theorem ref_succ (s : Schema) (d : Document) (nm : Name) (fr : FragDef) (h : d.fragByName nm = some fr) (x : Name)
    (hx : x ∈ (referencedFieldsAndFragmentNames s fr).2) : x ∈ expandSucc d nm := by
  unfold expandSucc; rw [h]
  exact fafn_top s _ _ x hx

/-! ### folds that keep the state unstuck -/

theorem foldl_ns {α : Type} (step : MRes → α → MRes) : ∀ (L : List α) (acc : MRes), acc.2.stuck = false →
    (∀ acc x, x ∈ L → acc.2.stuck = false → (step acc x).2.stuck = false) → (L.foldl step acc).2.stuck = false
  | [], acc, h, _ => h
  | x :: L, acc, h, hstep => by
      simp only [List.foldl_cons]
      exact foldl_ns step L _ (hstep acc x (by simp) h) (fun acc y hy => hstep acc y (by simp [hy]))

/-- the constant per level: `2·#fragments + 4` -/
def cK (d : Document) : Nat := 2 * d.fragments.length + 4

/-- `find_conflict` ends on fields of height at most `M` -/
def FcAt (s : Schema) (d : Document) (M : Nat) : Prop :=
  ∀ n key a b me st, cK d * (M + 1) ≤ n → st.stuck = false → ha d a ≤ M → ha d b ≤ M →
    (findConflict s d n key a b me st).2.stuck = false

def CbAt (s : Schema) (d : Document) (M : Nat) : Prop :=
  ∀ n me fm1 fm2 st, cK d * M + 1 ≤ n → st.stuck = false → FMle d fm1 M → FMle d fm2 M →
    (conflictsBetween s d n me fm1 fm2 st).2.stuck = false

theorem cb_of (s : Schema) (d : Document) (M : Nat) (ih : ∀ M', M' < M → FcAt s d M') : CbAt s d M := by
  intro n me fm1 fm2 st hn hst h1 h2
  obtain ⟨n', rfl⟩ : ∃ n', n = n' + 1 := ⟨n - 1, by omega⟩
  simp only [conflictsBetween, hst, Bool.false_eq_true, if_false]
  refine foldl_ns _ fm1 _ hst ?_
  intro acc kv hkv hacc
  unfold betweenKeyStep
  refine foldl_ns _ kv.2 _ hacc ?_
  intro acc f1 hf1 hacc
  unfold betweenFieldsStep
  refine foldl_ns _ _ _ hacc ?_
  intro acc f2 hf2 hacc
  simp only [pushConflict]
  have hm1 : ha d f1 + 1 ≤ M := h1 f1 ⟨kv, hkv, hf1⟩
  have hm2 : ha d f2 + 1 ≤ M := by
    cases hg : alGet fm2 kv.1 with
    | none => rw [hg] at hf2; simp at hf2
    | some l =>
      rw [hg] at hf2
      simp only [Option.getD_some] at hf2
      exact h2 f2 ⟨(kv.1, l), mem_of_alGet fm2 kv.1 l hg, hf2⟩
  obtain ⟨M', rfl⟩ : ∃ M', M = M' + 1 := ⟨M - 1, by omega⟩
  exact ih M' (by omega) n' kv.1 f1 f2 me acc.2 (by omega) hacc (by omega) (by omega)

def FfAt (s : Schema) (d : Document) (M k : Nat) : Prop :=
  ∀ n fm nm me st, k + cK d * M + 2 ≤ n → st.stuck = false → FMle d fm M → Hf d nm ≤ M →
    ChainBound (expandSucc d) k nm → (fieldsAndFragment s d n fm nm me st).2.stuck = false

theorem ff_of (s : Schema) (d : Document) (hac : ¬ FragmentCycle d) (M : Nat) (hcb : CbAt s d M) : ∀ k, FfAt s d M k := by
  intro k
  induction k with
  | zero =>
    intro n fm nm me st hn hst hfm hnm hch
    obtain ⟨n', rfl⟩ : ∃ n', n = n' + 1 := ⟨n - 1, by omega⟩
    simp only [fieldsAndFragment, hst, Bool.false_eq_true, if_false]
    split
    · exact hst
    · rename_i frag hfrag
      split
      · exact hst
      · refine foldl_ns _ _ _ ?_ ?_
        · refine hcb n' me fm _ st (by omega) hst hfm ?_
          intro a ha'
          have := fafn_le s d hac (s.typeByName frag.tc) frag.sel a ha'
          rw [Hf_some d hac nm frag hfrag] at this; omega
        · intro acc fn2 hfn2 hacc
          obtain ⟨k', hk', _⟩ := chainBound_succ hch (ref_succ s d nm frag hfrag fn2 hfn2)
          omega
  | succ k ih =>
    intro n fm nm me st hn hst hfm hnm hch
    obtain ⟨n', rfl⟩ : ∃ n', n = n' + 1 := ⟨n - 1, by omega⟩
    simp only [fieldsAndFragment, hst, Bool.false_eq_true, if_false]
    split
    · exact hst
    · rename_i frag hfrag
      split
      · exact hst
      · refine foldl_ns _ _ _ ?_ ?_
        · refine hcb n' me fm _ st (by omega) hst hfm ?_
          intro a ha'
          have := fafn_le s d hac (s.typeByName frag.tc) frag.sel a ha'
          rw [Hf_some d hac nm frag hfrag] at this; omega
        · intro acc fn2 hfn2 hacc
          split
          · exact hacc
          · have hch2 : ChainBound (expandSucc d) k fn2 := hch fn2 (ref_succ s d nm frag hfrag fn2 hfn2)
            have hH : Hf d fn2 ≤ M := by
              have := fafn_Hf s d (s.typeByName frag.tc) frag.sel fn2 hfn2
              rw [Hf_some d hac nm frag hfrag] at this; omega
            exact ih n' fm fn2 me _ (by omega) hacc hfm hH hch2

def BfAt (s : Schema) (d : Document) (M K : Nat) : Prop :=
  ∀ k1 k2, k1 + k2 ≤ K → ∀ n n1 n2 me st, K + cK d * M + 2 ≤ n → st.stuck = false → Hf d n1 ≤ M → Hf d n2 ≤ M →
    ChainBound (expandSucc d) k1 n1 → ChainBound (expandSucc d) k2 n2 → (betweenFragments s d n n1 n2 me st).2.stuck = false

theorem bf_step (s : Schema) (d : Document) (hac : ¬ FragmentCycle d) (M : Nat) (hcb : CbAt s d M) (K : Nat)
    (ih : ∀ K', K' < K → BfAt s d M K') : BfAt s d M K := by
  intro k1 k2 hk n n1 n2 me st hn hst h1 h2 hc1 hc2
  obtain ⟨n', rfl⟩ : ∃ n', n = n' + 1 := ⟨n - 1, by omega⟩
  simp only [betweenFragments, hst, Bool.false_eq_true, if_false]
  split
  · exact hst
  · split
    · exact hst
    · split
      · rename_i f1 f2 hf1 hf2
        have hle1 : FMle d (referencedFieldsAndFragmentNames s f1).1 M := by
          intro a ha'
          have := fafn_le s d hac (s.typeByName f1.tc) f1.sel a ha'
          rw [Hf_some d hac n1 f1 hf1] at this; omega
        have hle2 : FMle d (referencedFieldsAndFragmentNames s f2).1 M := by
          intro a ha'
          have := fafn_le s d hac (s.typeByName f2.tc) f2.sel a ha'
          rw [Hf_some d hac n2 f2 hf2] at this; omega
        refine foldl_ns _ _ _ (foldl_ns _ _ _ ?_ ?_) ?_
        · exact hcb n' me _ _ _ (by omega) rfl hle1 hle2
        · intro acc x hx hacc
          obtain ⟨k2', rfl, hc2'⟩ := chainBound_succ hc2 (ref_succ s d n2 f2 hf2 x hx)
          obtain ⟨K', rfl⟩ : ∃ K', K = K' + 1 := ⟨K - 1, by omega⟩
          have hH : Hf d x ≤ M := by
            have := fafn_Hf s d (s.typeByName f2.tc) f2.sel x hx
            rw [Hf_some d hac n2 f2 hf2] at this; omega
          exact ih K' (by omega) k1 k2' (by omega) n' n1 x me acc.2 (by omega) hacc h1 hH hc1 hc2'
        · intro acc x hx hacc
          obtain ⟨k1', rfl, hc1'⟩ := chainBound_succ hc1 (ref_succ s d n1 f1 hf1 x hx)
          obtain ⟨K', rfl⟩ : ∃ K', K = K' + 1 := ⟨K - 1, by omega⟩
          have hH : Hf d x ≤ M := by
            have := fafn_Hf s d (s.typeByName f1.tc) f1.sel x hx
            rw [Hf_some d hac n1 f1 hf1] at this; omega
          exact ih K' (by omega) k1' k2 (by omega) n' x n2 me acc.2 (by omega) hacc hH h2 hc1' hc2
      · rfl

theorem bf_of (s : Schema) (d : Document) (hac : ¬ FragmentCycle d) (M : Nat) (hcb : CbAt s d M) : ∀ K, BfAt s d M K := by
  intro K
  induction K using Nat.strongRecOn with
  | _ K ih => exact bf_step s d hac M hcb K ih

def BsAt (s : Schema) (d : Document) (M : Nat) : Prop :=
  ∀ n me pn1 sel1 pn2 sel2 st, 2 * d.fragments.length + cK d * M + 3 ≤ n → st.stuck = false → Hs d sel1 ≤ M → Hs d sel2 ≤ M →
    (betweenSubSelectionSets s d n me pn1 sel1 pn2 sel2 st).2.stuck = false

theorem chain_all (d : Document) (hac : ¬ FragmentCycle d) (nm : Name) : ChainBound (expandSucc d) d.fragments.length nm :=
  chainBound_acyclic d (expandSucc d) (expandSucc_spreadSucc d) hac nm

theorem FMle.mono {d : Document} {fm : FieldMap} {M M' : Nat} (h : FMle d fm M) (hle : M ≤ M') : FMle d fm M' :=
  fun a ha' => Nat.le_trans (h a ha') hle

theorem bs_of (s : Schema) (d : Document) (hac : ¬ FragmentCycle d) (M : Nat) (hcb : CbAt s d M)
    (hff : FfAt s d M d.fragments.length) (hbf : BfAt s d M (2 * d.fragments.length)) : BsAt s d M := by
  intro n me pn1 sel1 pn2 sel2 st hn hst h1 h2
  obtain ⟨n', rfl⟩ : ∃ n', n = n' + 1 := ⟨n - 1, by omega⟩
  simp only [betweenSubSelectionSets, hst, Bool.false_eq_true, if_false]
  have hle1 := (fafn_le s d hac (pn1.bind s.typeByName) sel1).mono h1
  have hle2 := (fafn_le s d hac (pn2.bind s.typeByName) sel2).mono h2
  have hH1 : ∀ x ∈ (fieldsAndFragmentNames s (pn1.bind s.typeByName) sel1).2, Hf d x ≤ M :=
    fun x hx => Nat.le_trans (fafn_Hf s d _ _ x hx) h1
  have hH2 : ∀ x ∈ (fieldsAndFragmentNames s (pn2.bind s.typeByName) sel2).2, Hf d x ≤ M :=
    fun x hx => Nat.le_trans (fafn_Hf s d _ _ x hx) h2
  refine foldl_ns _ _ _ (foldl_ns _ _ _ (foldl_ns _ _ _ ?_ ?_) ?_) ?_
  · exact hcb n' me _ _ st (by omega) hst hle1 hle2
  · intro acc fn hfn hacc
    exact hff n' _ fn me acc.2 (by omega) hacc hle1 (hH2 fn hfn) (chain_all d hac fn)
  · intro acc fn hfn hacc
    exact hff n' _ fn me acc.2 (by omega) hacc hle2 (hH1 fn hfn) (chain_all d hac fn)
  · intro acc a ha' hacc
    refine foldl_ns _ _ _ hacc ?_
    intro acc b hb hacc
    exact hbf _ _ (by omega) n' a b me acc.2 (by omega) hacc (hH1 a ha') (hH2 b hb) (chain_all d hac a) (chain_all d hac b)

theorem fc_of (s : Schema) (d : Document) (M : Nat) (hbs : BsAt s d M) : FcAt s d M := by
  intro n key a b me st hn hst h1 h2
  have hc : cK d * (M + 1) = cK d * M + cK d := Nat.mul_succ _ _
  unfold cK at hc
  obtain ⟨n', rfl⟩ : ∃ n', n = n' + 1 := ⟨n - 1, by unfold cK at hn; omega⟩
  simp only [findConflict, hst, Bool.false_eq_true, if_false]
  split
  · exact hst
  · split
    · exact hst
    · split
      · exact hst
      · split
        · exact hbs n' _ _ _ _ _ st (by unfold cK at hn ⊢; omega) hst h1 h2
        · exact hst

/-- **`find_conflict` ends** on fields of any height, on a document without fragment cycles -/
theorem fc_all (s : Schema) (d : Document) (hac : ¬ FragmentCycle d) : ∀ M, FcAt s d M := by
  intro M
  induction M using Nat.strongRecOn with
  | _ M ih =>
    have hcb := cb_of s d M ih
    exact fc_of s d M (bs_of s d hac M hcb (ff_of s d hac M hcb _) (bf_of s d hac M hcb _))

theorem cb_all (s : Schema) (d : Document) (hac : ¬ FragmentCycle d) (M : Nat) : CbAt s d M :=
  cb_of s d M (fun M' _ => fc_all s d hac M')

/-! ### one selection set of the document -/

/-- `find_conflicts_within_selection_set` ends, given `cK · (height + 1)` units of fuel -/
theorem selset_terminates (s : Schema) (d : Document) (hac : ¬ FragmentCycle d) (fuel : Nat) (parent : Option TypeDef)
    (sel : List Selection) (st : MState) (hst : st.stuck = false) (hf : cK d * (Hs d sel + 1) ≤ fuel) :
    (conflictsWithinSelectionSet s d fuel parent sel st).2.stuck = false := by
  have hc : cK d * (Hs d sel + 1) = cK d * Hs d sel + cK d := Nat.mul_succ _ _
  have hck : cK d = 2 * d.fragments.length + 4 := rfl
  have hle := fafn_le s d hac parent sel
  have hH : ∀ x ∈ (fieldsAndFragmentNames s parent sel).2, Hf d x ≤ Hs d sel := fun x hx => fafn_Hf s d _ _ x hx
  have hcb := cb_all s d hac (Hs d sel)
  have hff := ff_of s d hac (Hs d sel) hcb d.fragments.length
  have hbf := bf_of s d hac (Hs d sel) hcb (2 * d.fragments.length)
  unfold conflictsWithinSelectionSet
  simp only
  -- the loop over the recorded fragment names
  have hloop : ∀ (ns : List Name) (acc : MRes), (∀ x ∈ ns, x ∈ (fieldsAndFragmentNames s parent sel).2) → acc.2.stuck = false →
      (conflictsWithinSelectionSet.loop s d fuel (fieldsAndFragmentNames s parent sel) ns acc).2.stuck = false := by
    intro ns
    induction ns with
    | nil => intro acc _ h; simpa [conflictsWithinSelectionSet.loop] using h
    | cons f1 rest ih =>
      intro acc hsub hacc
      simp only [conflictsWithinSelectionSet.loop]
      apply ih _ (fun x hx => hsub x (by simp [hx]))
      refine foldl_ns _ _ _ ?_ ?_
      · exact hff fuel _ f1 false acc.2 (by omega) hacc hle (hH f1 (hsub f1 (by simp))) (chain_all d hac f1)
      · intro acc f2 hf2 hacc
        exact hbf _ _ (by omega) fuel f1 f2 false acc.2 (by omega) hacc (hH f1 (hsub f1 (by simp)))
          (hH f2 (hsub f2 (by simp [hf2]))) (chain_all d hac f1) (chain_all d hac f2)
  apply hloop _ _ (fun _ h => h)
  -- the fields of the set against each other
  unfold conflictsWithin
  refine foldl_ns _ _ _ hst ?_
  intro acc kv hkv hacc
  refine foldl_ns _ _ _ hacc ?_
  intro acc p hp hacc
  simp only [pushConflict]
  obtain ⟨hp1, hp2⟩ := mem_orderedPairs kv.2 p hp
  have hm1 : ha d p.1 + 1 ≤ Hs d sel := hle p.1 ⟨kv, hkv, hp1⟩
  have hm2 : ha d p.2 + 1 ≤ Hs d sel := hle p.2 ⟨kv, hkv, hp2⟩
  obtain ⟨M', hM'⟩ : ∃ M', Hs d sel = M' + 1 := ⟨Hs d sel - 1, by omega⟩
  rw [hM'] at hm1 hm2 hc hf
  exact fc_all s d hac M' fuel kv.1 p.1 p.2 false acc.2 (by omega) hacc (by omega) (by omega)

end Gql
