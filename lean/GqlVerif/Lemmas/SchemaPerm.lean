/-
  Lemmas/SchemaPerm.lean — validation depends on the schema only through its name lookups
  (`type_by_name`, `directive_by_name`, the directive map), its schema definition and the
  overlap test; two schemas that agree on those give the same callbacks and, for each of the 24
  rules, the same errors.  Permuting the definitions of a schema with unique type and directive
  names (and at most one `schema { … }` block) preserves all of them.
-/
import GqlVerif.Thm.C03
namespace Gql
open Gql.Spec

/-- the two schemas answer every lookup the validator makes in the same way -/
structure SchemaAgree (s s' : Schema) : Prop where
  tbn : s.typeByName = s'.typeByName
  dbn : s.directiveByName = s'.directiveByName
  dmg : s.directiveMapGet = s'.directiveMapGet
  sd : s.schemaDefinition = s'.schemaDefinition
  ovl : doTypesOverlap s = doTypesOverlap s'

section
variable {s s' : Schema} (h : SchemaAgree s s')
include h

/-! ### the helpers of ext.rs and of the visitor -/

theorem agree_objectTypeByName : s.objectTypeByName = s'.objectTypeByName := by
  funext n; simp only [Schema.objectTypeByName, h.tbn]

theorem agree_queryType : s.queryType = s'.queryType := by
  simp only [Schema.queryType, h.sd, agree_objectTypeByName h]

theorem agree_mutationType : s.mutationType = s'.mutationType := by
  simp only [Schema.mutationType, h.sd, agree_objectTypeByName h]

theorem agree_subscriptionType : s.subscriptionType = s'.subscriptionType := by
  simp only [Schema.subscriptionType, h.sd, agree_objectTypeByName h]

theorem agree_namedSubtypeCheck : s.namedSubtypeCheck = s'.namedSubtypeCheck := by
  funext a b; simp only [Schema.namedSubtypeCheck, h.tbn]

theorem agree_isSubtype : ∀ sub sup : Ty, s.isSubtype sub sup = s'.isSubtype sub sup := by
  intro sub
  induction sub with
  | named n => intro sup; cases sup <;> simp [Schema.isSubtype, agree_namedSubtypeCheck h]
  | list t ih => intro sup; cases sup <;> simp [Schema.isSubtype, ih]
  | nonNull t ih => intro sup; cases sup <;> simp [Schema.isSubtype, ih]

theorem agree_resolve : s.resolve = s'.resolve := by
  funext t; simp only [Schema.resolve, h.tbn]

theorem agree_objectFieldType : objectFieldType s = objectFieldType s' := by
  funext t k; simp only [objectFieldType, agree_resolve h]

theorem agree_rootTypeName : rootTypeName s = rootTypeName s' := by
  funext k
  cases k <;> simp only [rootTypeName, agree_queryType h, agree_mutationType h, agree_subscriptionType h, h.tbn]

theorem agree_isLeafName : s.isLeafName = s'.isLeafName := by
  funext n; simp only [Schema.isLeafName, h.tbn]

/-! ### the walk -/

theorem agree_withType : Snap.withType s = Snap.withType s' := by
  funext t e; simp only [Snap.withType, agree_resolve h]

theorem agree_withInput : Snap.withInput s = Snap.withInput s' := by
  funext t e; simp only [Snap.withInput, agree_resolve h]

mutual
theorem agree_walkValue : ∀ (v : Value) (e : Snap), walkValue s e v = walkValue s' e v
  | .bool _, _ | .float _, _ | .int _, _ | .str _, _ | .null, _ | .enum _, _ | .var _, _ => by simp [walkValue]
  | .list vs, e => by simp only [walkValue, agree_withInput h, agree_walkValues vs]
  | .obj fs, e => by simp only [walkValue, agree_walkObjFields fs]
theorem agree_walkValues : ∀ (vs : List Value) (e : Snap), walkValues s e vs = walkValues s' e vs
  | [], _ => by simp [walkValues]
  | v :: vs, e => by simp only [walkValues, agree_walkValue v, agree_walkValues vs]
theorem agree_walkObjFields : ∀ (fs : List (Name × Value)) (e : Snap), walkObjFields s e fs = walkObjFields s' e fs
  | [], _ => by simp [walkObjFields]
  | (k, v) :: fs, e => by
      simp only [walkObjFields, agree_withInput h, agree_objectFieldType h, agree_walkValue v, agree_walkObjFields fs]
end

theorem agree_walkArguments (defs : Option (List InputValueDef)) : ∀ (as : List Arg) (e : Snap),
    walkArguments s defs e as = walkArguments s' defs e as
  | [], _ => by simp [walkArguments]
  | a :: as, e => by simp only [walkArguments, agree_withInput h, agree_walkValue h, agree_walkArguments defs as]

theorem agree_walkDirectives : ∀ (ds : List Directive) (e : Snap), walkDirectives s e ds = walkDirectives s' e ds
  | [], _ => by simp [walkDirectives]
  | d :: ds, e => by simp only [walkDirectives, h.dbn, agree_walkArguments h, agree_walkDirectives ds]

theorem agree_walkVarDefs : ∀ (vs : List VarDef) (e : Snap), walkVarDefs s e vs = walkVarDefs s' e vs
  | [], _ => by simp [walkVarDefs]
  | v :: vs, e => by simp only [walkVarDefs, agree_withInput h, agree_walkValue h, agree_walkVarDefs vs]

mutual
theorem agree_walkSelection : ∀ (x : Selection) (e : Snap), walkSelection s e x = walkSelection s' e x
  | .field pos alias name args dirs sel, e => by
      simp only [walkSelection, agree_withType h, agree_walkArguments h, agree_walkDirectives h, agree_walkSelections sel]
  | .spread pos name dirs, e => by simp only [walkSelection, agree_walkDirectives h]
  | .inline pos tc dirs sel, e => by
      simp only [walkSelection, agree_withType h, agree_walkDirectives h, agree_walkSelections sel]
theorem agree_walkSelections : ∀ (xs : List Selection) (e : Snap), walkSelections s e xs = walkSelections s' e xs
  | [], _ => by simp [walkSelections]
  | x :: xs, e => by simp only [walkSelections, agree_walkSelection x, agree_walkSelections xs]
end

theorem agree_walkDefinition (e : Snap) (x : Definition) : walkDefinition s e x = walkDefinition s' e x := by
  cases x with
  | frag f =>
    simp only [walkDefinition, walkSelectionSet, agree_withType h, agree_walkDirectives h]
    have : (fun e' => walkSelections s e' f.sel) = (fun e' => walkSelections s' e' f.sel) := by
      funext e'; exact agree_walkSelections h f.sel e'
    rw [this]
  | op o =>
    simp only [walkDefinition, walkSelectionSet, agree_rootTypeName h, agree_withType h, agree_walkDirectives h, agree_walkVarDefs h]
    have : (fun e' => walkSelections s e' o.sel) = (fun e' => walkSelections s' e' o.sel) := by
      funext e'; exact agree_walkSelections h o.sel e'
    rw [this]

theorem agree_walkDefinitions (e : Snap) : ∀ ds : List Definition, walkDefinitions s e ds = walkDefinitions s' e ds
  | [] => by simp [walkDefinitions]
  | x :: ds => by simp only [walkDefinitions, agree_walkDefinition h, agree_walkDefinitions e ds]

/-- **the same callbacks, with the same context answers** -/
theorem agree_walkOf (d : Document) : walkOf s d = walkOf s' d := by
  simp only [walkOf, walkDocument, agree_walkDefinitions h]

/-! ### collect_fields -/

theorem agree_conditionMatches : conditionMatches s = conditionMatches s' := by
  funext tc parent; simp only [conditionMatches, h.tbn]

mutual
theorem agree_collectSel (parent : TypeDef) (expand : Name → CState → CState) : ∀ (x : Selection) (st : CState),
    collectSel s parent expand x st = collectSel s' parent expand x st
  | .field .., st => by simp [collectSel]
  | .spread .., st => by simp [collectSel]
  | .inline _ tc _ sel, st => by simp only [collectSel, agree_conditionMatches h, agree_collectSels parent expand sel]
theorem agree_collectSels (parent : TypeDef) (expand : Name → CState → CState) : ∀ (xs : List Selection) (st : CState),
    collectSels s parent expand xs st = collectSels s' parent expand xs st
  | [], st => by simp [collectSels]
  | x :: xs, st => by simp only [collectSels, agree_collectSel parent expand x, agree_collectSels parent expand xs]
end

theorem agree_collectN (d : Document) (parent : TypeDef) : ∀ (n : Nat) (sel : List Selection) (st : CState),
    collectN s d parent n sel st = collectN s' d parent n sel st
  | 0, _, _ => by simp [collectN]
  | n + 1, sel, st => by
      simp only [collectN, agree_conditionMatches h]
      rw [agree_collectSels h parent _ sel st]
      congr 1
      funext name st'
      cases d.fragByName name with
      | none => rfl
      | some frag => simp only [agree_collectN d parent n]

theorem agree_collectFields (d : Document) (parent : TypeDef) (sel : List Selection) :
    collectFields s d parent sel = collectFields s' d parent sel := by
  simp only [collectFields, agree_collectN h]

/-! ### the field-merging rule -/

theorem agree_inlineParent : inlineParent s = inlineParent s' := by
  funext tc parent; simp only [inlineParent, h.tbn]

mutual
theorem agree_mergeCollectSel (parent : Option TypeDef) : ∀ (x : Selection) (acc : FieldMap × List Name),
    mergeCollectSel s parent x acc = mergeCollectSel s' parent x acc
  | .field .., (fm, fns) => by simp [mergeCollectSel]
  | .spread .., (fm, fns) => by simp [mergeCollectSel]
  | .inline _ tc _ sel, acc => by simp only [mergeCollectSel, agree_inlineParent h, agree_mergeCollectSels _ sel]
theorem agree_mergeCollectSels (parent : Option TypeDef) : ∀ (xs : List Selection) (acc : FieldMap × List Name),
    mergeCollectSels s parent xs acc = mergeCollectSels s' parent xs acc
  | [], acc => by simp [mergeCollectSels]
  | x :: xs, acc => by simp only [mergeCollectSels, agree_mergeCollectSel parent x, agree_mergeCollectSels parent xs]
end

theorem agree_fafn : fieldsAndFragmentNames s = fieldsAndFragmentNames s' := by
  funext parent sel; simp only [fieldsAndFragmentNames, agree_mergeCollectSels h]

theorem agree_refFafn : referencedFieldsAndFragmentNames s = referencedFieldsAndFragmentNames s' := by
  funext f; simp only [referencedFieldsAndFragmentNames, agree_fafn h, h.tbn]

theorem agree_isTypeConflict : ∀ a b : Ty, isTypeConflict s a b = isTypeConflict s' a b := by
  intro a
  induction a with
  | named n => intro b; cases b <;> simp [isTypeConflict, agree_isLeafName h]
  | list t ih => intro b; cases b <;> simp [isTypeConflict, ih]
  | nonNull t ih => intro b; cases b <;> simp [isTypeConflict, ih]

theorem agree_typeConflictOf : typeConflictOf s = typeConflictOf s' := by
  funext a b
  simp only [typeConflictOf]
  cases a.fdef <;> cases b.fdef <;> simp [agree_isTypeConflict h]

/-- the five mutually recursive functions, at every fuel -/
structure MergeAgreeAt (s s' : Schema) (d : Document) (n : Nat) : Prop where
  fc : findConflict s d n = findConflict s' d n
  cb : conflictsBetween s d n = conflictsBetween s' d n
  bs : betweenSubSelectionSets s d n = betweenSubSelectionSets s' d n
  ff : fieldsAndFragment s d n = fieldsAndFragment s' d n
  bf : betweenFragments s d n = betweenFragments s' d n

theorem mergeAgree (d : Document) : ∀ n, MergeAgreeAt s s' d n
  | 0 => by
      constructor
      · funext key a b me st; simp [findConflict]
      · funext me fm1 fm2 st; simp [conflictsBetween]
      · funext me pn1 sel1 pn2 sel2 st; simp [betweenSubSelectionSets]
      · funext fm nm me st; simp [fieldsAndFragment]
      · funext n1 n2 me st; simp [betweenFragments]
  | n + 1 => by
      have ih := mergeAgree d n
      constructor
      · funext key a b me st; simp only [findConflict, agree_typeConflictOf h, ih.bs]
      · funext me fm1 fm2 st; simp only [conflictsBetween, ih.fc]
      · funext me pn1 sel1 pn2 sel2 st; simp only [betweenSubSelectionSets, agree_fafn h, h.tbn, ih.cb, ih.ff, ih.bf]
      · funext fm nm me st; simp only [fieldsAndFragment, agree_refFafn h, ih.cb, ih.ff]
      · funext n1 n2 me st; simp only [betweenFragments, agree_refFafn h, ih.cb, ih.bf]

theorem agree_conflictsWithin (d : Document) (fuel : Nat) : conflictsWithin s d fuel = conflictsWithin s' d fuel := by
  funext fm st; simp only [conflictsWithin, (mergeAgree h d fuel).fc]

theorem agree_loop (d : Document) (fuel : Nat) (c : FieldMap × List Name) : ∀ (ns : List Name) (acc : MRes),
    conflictsWithinSelectionSet.loop s d fuel c ns acc = conflictsWithinSelectionSet.loop s' d fuel c ns acc
  | [], acc => by simp [conflictsWithinSelectionSet.loop]
  | f1 :: rest, acc => by
      simp only [conflictsWithinSelectionSet.loop, (mergeAgree h d fuel).ff, (mergeAgree h d fuel).bf, agree_loop d fuel c rest]

theorem agree_conflictsWithinSelectionSet (d : Document) (fuel : Nat) :
    conflictsWithinSelectionSet s d fuel = conflictsWithinSelectionSet s' d fuel := by
  funext parent sel st
  simp only [conflictsWithinSelectionSet, agree_fafn h, agree_conflictsWithin h, agree_loop h]

/-! ### the other helpers of the rules -/

theorem agree_dirSlot : dirSlot s = dirSlot s' := by
  funext dir; simp only [dirSlot, h.dbn]

theorem agree_duplicateDirectiveErrors : ∀ (ds : List Directive) (seen : List Name),
    duplicateDirectiveErrors s ds seen = duplicateDirectiveErrors s' ds seen
  | [], _ => by simp [duplicateDirectiveErrors]
  | dir :: rest, seen => by
      simp only [duplicateDirectiveErrors, h.dmg, agree_duplicateDirectiveErrors rest]

theorem agree_udCheck : udCheck s = udCheck s' := by
  funext e
  simp only [udCheck]
  split <;> simp only [agree_duplicateDirectiveErrors h]

theorem agree_unknownTypeErr : unknownTypeErr s = unknownTypeErr s' := by
  funext n p; simp only [unknownTypeErr, h.tbn]

theorem agree_validateValue : validateValue s = validateValue s' := by
  funext sn raw; simp only [validateValue, h.tbn]

theorem agree_validateCompositeValue : validateCompositeValue s = validateCompositeValue s' := by
  funext sn raw; simp only [validateCompositeValue, h.tbn]

theorem agree_vipCheck : vipCheck s = vipCheck s' := by
  funext defs u; simp only [vipCheck, agree_isSubtype h]

theorem agree_vipReport : vipReport s = vipReport s' := by
  funext st; simp only [vipReport, agree_vipCheck h]

/-! ### every rule -/

/-- each of the 24 rules reacts to a callback, and reports at the end, in the same way -/
theorem agree_rule (r : RuleId) : (ruleOf r).on s = (ruleOf r).on s' ∧ (ruleOf r).finish s = (ruleOf r).finish s' := by
  cases r
  case uniqueOperationNames => exact ⟨rfl, rfl⟩
  case loneAnonymousOperation => exact ⟨rfl, rfl⟩
  case singleFieldSubscriptions =>
    refine ⟨?_, rfl⟩
    funext d st e
    simp only [ruleOf, singleFieldSubscriptions, Rule.stateless, agree_subscriptionType h, agree_collectFields h]
  case knownTypeNames =>
    refine ⟨?_, rfl⟩
    funext d st e
    simp only [ruleOf, knownTypeNames, Rule.stateless, agree_unknownTypeErr h]
  case fragmentsOnCompositeTypes =>
    refine ⟨?_, rfl⟩
    funext d st e
    simp only [ruleOf, fragmentsOnCompositeTypes, Rule.stateless, h.tbn]
  case variablesAreInputTypes =>
    refine ⟨?_, rfl⟩
    funext d st e
    simp only [ruleOf, variablesAreInputTypes, Rule.stateless, h.tbn]
  case leafFieldSelections => exact ⟨rfl, rfl⟩
  case fieldsOnCorrectType =>
    refine ⟨?_, rfl⟩
    funext d st e
    simp only [ruleOf, fieldsOnCorrectType, Rule.stateless, h.sd]
  case uniqueFragmentNames => exact ⟨rfl, rfl⟩
  case knownFragmentNames => exact ⟨rfl, rfl⟩
  case noUnusedFragments => exact ⟨rfl, rfl⟩
  case overlappingFieldsCanBeMerged =>
    refine ⟨?_, rfl⟩
    funext d st e
    simp only [ruleOf, overlappingFieldsCanBeMerged, agree_conflictsWithinSelectionSet h]
  case noFragmentsCycle => exact ⟨rfl, rfl⟩
  case possibleFragmentSpreads =>
    refine ⟨?_, rfl⟩
    funext d st e
    simp only [ruleOf, possibleFragmentSpreads, Rule.stateless, h.tbn, h.ovl]
  case noUnusedVariables => exact ⟨rfl, rfl⟩
  case noUndefinedVariables => exact ⟨rfl, rfl⟩
  case knownArgumentNames =>
    refine ⟨?_, rfl⟩
    funext d st e
    simp only [ruleOf, knownArgumentNames, agree_dirSlot h]
  case uniqueArgumentNames => exact ⟨rfl, rfl⟩
  case uniqueVariableNames => exact ⟨rfl, rfl⟩
  case providedRequiredArguments =>
    refine ⟨?_, rfl⟩
    funext d st e
    simp only [ruleOf, providedRequiredArguments, Rule.stateless, h.dmg]
  case knownDirectives =>
    refine ⟨?_, rfl⟩
    funext d st e
    simp only [ruleOf, knownDirectives, h.dmg]
  case variablesInAllowedPosition =>
    refine ⟨?_, rfl⟩
    funext d st e
    simp only [ruleOf, variablesInAllowedPosition, collRule, agree_vipReport h]
  case valuesOfCorrectType =>
    refine ⟨?_, rfl⟩
    funext d st e
    simp only [ruleOf, valuesOfCorrectType, Rule.stateless, agree_validateValue h, agree_validateCompositeValue h]
  case uniqueDirectivesPerLocation =>
    refine ⟨?_, rfl⟩
    funext d st e
    simp only [ruleOf, uniqueDirectivesPerLocation, Rule.stateless, agree_udCheck h]

/-- **every rule reports the same errors**, in the same order -/
theorem agree_errsOf (r : RuleId) (d : Document) : errsOf r s d = errsOf r s' d := by
  obtain ⟨h1, h2⟩ := agree_rule h r
  have hs : (ruleOf r).step s d = (ruleOf r).step s' d := by
    funext acc e; simp only [Rule.step, h1]
  simp only [errsOf, Rule.runOn, agree_walkOf h, hs, h2]

/-- **validation returns the same result**: the same errors in the same order, for every plan
    (the schema has a query root type: otherwise `validate` panics, for both) -/
theorem agree_validate (hq : s.queryType.isSome = true) (d : Document) (plan : List RuleId) :
    validate s d plan = validate s' d plan := by
  rw [C03.no_panic s d hq plan, C03.no_panic s' d (agree_queryType h ▸ hq) plan]
  congr 1
  induction plan with
  | nil => rfl
  | cons r rs ih => simp only [List.flatMap_cons, ih, agree_errsOf h r d]

end

/-! ### permuting the definitions of a schema -/

theorem perm_types {s s' : Schema} (h : s.Perm s') : s.types.Perm s'.types := by
  induction h with
  | nil => exact .nil
  | cons x _ ih => cases x <;> simp [Schema.types, ih]
  | swap x y l => cases x <;> cases y <;> simp [Schema.types, List.Perm.swap]
  | trans _ _ ih1 ih2 => exact ih1.trans ih2

theorem perm_directives {s s' : Schema} (h : s.Perm s') : s.directives.Perm s'.directives := by
  induction h with
  | nil => exact .nil
  | cons x _ ih => cases x <;> simp [Schema.directives, ih]
  | swap x y l => cases x <;> cases y <;> simp [Schema.directives, List.Perm.swap]
  | trans _ _ ih1 ih2 => exact ih1.trans ih2

/-- the `schema { … }` blocks of a schema document -/
def Schema.schemaBlocks : Schema → List SchemaDef
  | [] => []
  | .schema d :: rest => d :: Schema.schemaBlocks rest
  | _ :: rest => Schema.schemaBlocks rest

theorem perm_schemaBlocks {s s' : Schema} (h : s.Perm s') : s.schemaBlocks.Perm s'.schemaBlocks := by
  induction h with
  | nil => exact .nil
  | cons x _ ih => cases x <;> simp [Schema.schemaBlocks, ih]
  | swap x y l => cases x <;> cases y <;> simp [Schema.schemaBlocks, List.Perm.swap]
  | trans _ _ ih1 ih2 => exact ih1.trans ih2

theorem explicitSchemaDef_eq_head (s : Schema) : s.explicitSchemaDef = s.schemaBlocks.head? := by
  induction s with
  | nil => rfl
  | cons x rest ih => cases x <;> simp [Schema.explicitSchemaDef, Schema.schemaBlocks, ih]

/-- first match among items with unique keys does not depend on the order -/
theorem find?_perm_of_nodup {α : Type} (key : α → Name) {l l' : List α} (hp : l.Perm l') (hn : (l.map key).Nodup) (n : Name) :
    l.find? (fun x => key x == n) = l'.find? (fun x => key x == n) := by
  have hn' : (l'.map key).Nodup := (hp.map key).nodup_iff.1 hn
  have inj : ∀ {m : List α}, (m.map key).Nodup → ∀ x ∈ m, ∀ y ∈ m, key x = key y → x = y := by
    intro m
    induction m with
    | nil => intro _ x hx; cases hx
    | cons a m ih =>
      intro hnd x hx y hy hk
      simp only [List.map_cons, List.nodup_cons] at hnd
      rcases List.mem_cons.1 hx with hxa | hxm
      · rcases List.mem_cons.1 hy with hya | hym
        · rw [hxa, hya]
        · have hm : key a ∈ m.map key := List.mem_map.2 ⟨y, hym, by rw [← hk, hxa]⟩
          exact absurd hm hnd.1
      · rcases List.mem_cons.1 hy with hya | hym
        · have hm : key a ∈ m.map key := List.mem_map.2 ⟨x, hxm, by rw [hk, hya]⟩
          exact absurd hm hnd.1
        · exact ih hnd.2 x hxm y hym hk
  cases h1 : l.find? (fun x => key x == n) with
  | none =>
    symm
    rw [List.find?_eq_none] at h1 ⊢
    exact fun x hx => h1 x (hp.mem_iff.2 hx)
  | some x =>
    have hx := List.mem_of_find?_eq_some h1
    have hk : key x = n := by simpa using List.find?_some h1
    cases h2 : l'.find? (fun x => key x == n) with
    | none =>
      rw [List.find?_eq_none] at h2
      exact absurd (by simpa using hk) (h2 x (hp.mem_iff.1 hx))
    | some y =>
      have hy := List.mem_of_find?_eq_some h2
      have hk' : key y = n := by simpa using List.find?_some h2
      rw [inj hn' x (hp.mem_iff.1 hx) y hy (hk.trans hk'.symm)]

theorem typeByName_eq_find (s : Schema) (n : Name) : s.typeByName n = s.types.find? (fun t => t.name == n) := by
  induction s with
  | nil => rfl
  | cons x xs ih =>
    cases x with
    | type t =>
      simp only [Schema.typeByName, Schema.types, List.find?_cons]
      by_cases h : t.name == n <;> simp [h, ih]
    | schema _ | directive _ | ext => simp only [Schema.typeByName, Schema.types, ih]

/-- a schema whose type names and directive names are unique and which has at most one
    `schema { … }` block -/
structure SchemaUniq (s : Schema) : Prop where
  typeNames : s.typeNames.Nodup
  directiveNames : (s.directives.map (·.name)).Nodup
  oneBlock : s.schemaBlocks.length ≤ 1

theorem SchemaUniq.perm {s s' : Schema} (hu : SchemaUniq s) (h : s.Perm s') : SchemaUniq s' where
  typeNames := ((perm_types h).map _).nodup_iff.1 hu.typeNames
  directiveNames := ((perm_directives h).map _).nodup_iff.1 hu.directiveNames
  oneBlock := by rw [← (perm_schemaBlocks h).length_eq]; exact hu.oneBlock

/-- **permuting the definitions changes no lookup** -/
theorem agree_of_perm {s s' : Schema} (h : s.Perm s') (hu : SchemaUniq s) : SchemaAgree s s' := by
  have hu' := hu.perm h
  have htbn : s.typeByName = s'.typeByName := by
    funext n
    rw [typeByName_eq_find, typeByName_eq_find]
    exact find?_perm_of_nodup (fun t : TypeDef => t.name) (perm_types h) hu.typeNames n
  have hdbn : s.directiveByName = s'.directiveByName := by
    funext n
    rw [directiveByName_eq_find, directiveByName_eq_find]
    exact find?_perm_of_nodup (fun t : DirectiveDef => t.name) (perm_directives h) hu.directiveNames n
  refine ⟨htbn, hdbn, ?_, ?_, ?_⟩
  · funext n
    rw [directiveMapGet_eq_directiveByName s hu.directiveNames, directiveMapGet_eq_directiveByName s' hu'.directiveNames, hdbn]
  · -- the schema definition: the only block, or the default one
    have hb := perm_schemaBlocks h
    simp only [Schema.schemaDefinition, explicitSchemaDef_eq_head]
    have h1 := hu.oneBlock
    cases hs : s.schemaBlocks with
    | nil => rw [hs] at hb; rw [List.nil_perm.1 hb]
    | cons b rest =>
      rw [hs] at h1 hb
      have : rest = [] := by cases rest with | nil => rfl | cons _ _ => simp at h1
      subst this
      rw [List.singleton_perm.1 hb]
  · -- the overlap test: possible types are looked up by name or counted over the type list
    funext t1 t2
    simp only [doTypesOverlap]
    have hpt : ∀ (f : TypeDef → Bool), ((t1.possibleTypes s).filter f).length = ((t1.possibleTypes s').filter f).length := by
      intro f
      cases t1 with
      | interface n is fs =>
        simp only [TypeDef.possibleTypes, typeMapEntries_of_nodup hu.typeNames, typeMapEntries_of_nodup hu'.typeNames]
        exact (((perm_types h).filter _).filter _).length_eq
      | union n ms => simp only [TypeDef.possibleTypes, htbn]
      | scalar _ | object _ _ _ | enum _ _ | inputObject _ _ => simp [TypeDef.possibleTypes]
    rw [hpt]

end Gql
