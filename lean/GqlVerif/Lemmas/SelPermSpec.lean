/-
  Lemmas/SelPermSpec.lean — SameResponseShape and FieldsInSetCanMerge do not depend on the order of
  the selections inside the selection sets of the document (fields, spreads, inline fragments, at
  any depth, in operations and in fragment definitions), provided argument names are unique per
  field (otherwise "identical arguments" is not a symmetric notion).
-/
import GqlVerif.Lemmas.SelPerm
namespace Gql
open Gql.Spec

/-! ### unique argument names, syntactically -/

mutual
def aoSel : Selection → Prop
  | .field _ _ _ args _ sel => (args.map (·.1)).Nodup ∧ aoSels sel
  | .spread _ _ _ => True
  | .inline _ _ _ sel => aoSels sel
def aoSels : List Selection → Prop
  | [] => True
  | x :: xs => aoSel x ∧ aoSels xs
end

/-- every field of the document has unique argument names -/
def AODoc (d : Document) : Prop := ∀ x ∈ d, aoSels x.selections

/-- a collected field with unique argument names on itself and everywhere below -/
def GA (a : AstAndDef) : Prop := ArgsOk a ∧ aoSels a.field.sel

theorem aoSels_rel {a b : List Selection} (h : SelsEq a b) : aoSels a ↔ aoSels b := by
  induction h with
  | refl l => exact Iff.rfl
  | swap x y l => simp only [aoSels]; constructor <;> (rintro ⟨h1, h2, h3⟩; exact ⟨h2, h1, h3⟩)
  | cons x _ ih => simp only [aoSels, ih]
  | field pos alias name args dirs l _ ih => simp only [aoSels, aoSel, ih]
  | inline pos tc dirs l _ ih => simp only [aoSels, aoSel, ih]
  | trans _ _ ih1 ih2 => exact ih1.trans ih2

theorem ga_closed : GClosed GA := by
  rintro a a' ⟨h1, h2⟩ ⟨sel', rfl, hs⟩
  exact ⟨h1, (aoSels_rel hs).1 h2⟩

mutual
theorem specSel_good (s : Schema) (sp : Name → List AstAndDef) (hsp : ∀ nm, ∀ y ∈ sp nm, GA y) :
    ∀ (x : Selection) (parent : Option TypeDef), aoSel x → ∀ a ∈ specFieldsSelWith s sp parent x, GA a
  | .field pos alias name args dirs sel, parent, h, a, ha => by
      simp only [specFieldsSelWith, List.mem_singleton] at ha
      subst ha
      simp only [aoSel] at h
      exact ⟨h.1, h.2⟩
  | .spread _ nm _, _, _, a, ha => by
      simp only [specFieldsSelWith] at ha
      exact hsp nm a ha
  | .inline _ tc _ sel, parent, h, a, ha => by
      simp only [specFieldsSelWith] at ha
      simp only [aoSel] at h
      exact specSels_good s sp hsp sel _ h a ha
theorem specSels_good (s : Schema) (sp : Name → List AstAndDef) (hsp : ∀ nm, ∀ y ∈ sp nm, GA y) :
    ∀ (xs : List Selection) (parent : Option TypeDef), aoSels xs → ∀ a ∈ specFieldsWith s sp parent xs, GA a
  | [], _, _, a, ha => by simp [specFieldsWith] at ha
  | x :: xs, parent, h, a, ha => by
      simp only [specFieldsWith, List.mem_append] at ha
      simp only [aoSels] at h
      rcases ha with ha | ha
      · exact specSel_good s sp hsp x parent h.1 a ha
      · exact specSels_good s sp hsp xs parent h.2 a ha
end

theorem spread_good (s : Schema) (d : Document) (hd : AODoc d) : ∀ (n : Nat) (nm : Name), ∀ y ∈ spreadFields s d n nm, GA y
  | 0, _, y, hy => by simp [spreadFields] at hy
  | n + 1, nm, y, hy => by
      cases hf : d.fragByName nm with
      | none => rw [spreadFields_succ_none s d n nm hf] at hy; simp at hy
      | some fr =>
        rw [spreadFields_succ_some s d n nm fr hf] at hy
        have hm := mem_doc_of_mem_fragments d fr (fragByName_name d nm fr hf).1
        exact specSels_good s _ (spread_good s d hd n) fr.sel _ (hd _ hm) y hy

theorem sub_good (s : Schema) (d : Document) (hd : AODoc d) (sf : Nat) (a : AstAndDef) (ha : GA a) :
    ∀ x ∈ subFields s d sf a, GA x :=
  specSels_good s _ (spread_good s d hd sf) a.field.sel _ ha.2

/-! ### documents that differ in the order of selections -/

inductive DocRel : Document → Document → Prop
  | refl (d : Document) : DocRel d d
  | op (o : Operation) {sel' : List Selection} (l : Document) : SelsEq o.sel sel' → DocRel (.op o :: l) (.op { o with sel := sel' } :: l)
  | frag (f : FragDef) {sel' : List Selection} (l : Document) : SelsEq f.sel sel' → DocRel (.frag f :: l) (.frag { f with sel := sel' } :: l)
  | cons (x : Definition) {l l' : Document} : DocRel l l' → DocRel (x :: l) (x :: l')
  | trans {a b c : Document} : DocRel a b → DocRel b c → DocRel a c

theorem fragByName_cons (x : Definition) (rest : Document) (nm : Name) :
    Document.fragByName (x :: rest) nm =
      match Document.fragByName rest nm with
      | some g => some g
      | none => match x with
        | .frag f => if f.name == nm then some f else none
        | .op _ => none := by
  cases x with
  | op o =>
    simp only [Document.fragByName, Document.fragments]
    cases List.find? (fun x => x.name == nm) (Document.fragments rest).reverse <;> rfl
  | frag f =>
    simp only [Document.fragByName, Document.fragments, List.reverse_cons, List.find?_append]
    cases List.find? (fun x => x.name == nm) (Document.fragments rest).reverse with
    | some g => rfl
    | none => cases h : (f.name == nm) <;> simp [List.find?, h]

/-- what the two documents resolve a fragment name to -/
inductive FLR : Option FragDef → Option FragDef → Prop
  | none : FLR none none
  | some (f : FragDef) {sel' : List Selection} : SelsEq f.sel sel' → FLR (some f) (some { f with sel := sel' })

theorem FLR.refl : ∀ o : Option FragDef, FLR o o
  | .none => .none
  | .some f => .some f (.refl _)

theorem FLR.trans {a b c : Option FragDef} (h1 : FLR a b) (h2 : FLR b c) : FLR a c := by
  cases h1 with
  | none => exact h2
  | some f hs =>
    cases h2 with
    | some _ hs2 => exact .some f (.trans hs hs2)

theorem fragLook {d d' : Document} (h : DocRel d d') : ∀ nm, FLR (d.fragByName nm) (d'.fragByName nm) := by
  induction h with
  | refl d => intro nm; exact FLR.refl _
  | op o l _ => intro nm; rw [fragByName_cons, fragByName_cons]; exact FLR.refl _
  | frag f l hs =>
    intro nm
    rw [fragByName_cons, fragByName_cons]
    cases Document.fragByName l nm with
    | some g => exact FLR.refl _
    | none =>
      simp only
      split
      · exact .some f hs
      · exact .none
  | @cons x l l' _ ih =>
    intro nm
    rw [fragByName_cons, fragByName_cons]
    have h := ih nm
    generalize Document.fragByName l nm = u at h ⊢
    generalize Document.fragByName l' nm = v at h ⊢
    cases h with
    | none => exact FLR.refl _
    | some f hs => exact .some f hs
  | trans _ _ ih1 ih2 => intro nm; exact (ih1 nm).trans (ih2 nm)

theorem spreadFields_rel (s : Schema) {d d' : Document} (h : DocRel d d') : ∀ (n : Nat) (nm : Name),
    LRel (spreadFields s d n nm) (spreadFields s d' n nm)
  | 0, _ => .refl _
  | n + 1, nm => by
      simp only [spreadFields]
      have hl := fragLook h nm
      generalize Document.fragByName d nm = u at hl ⊢
      generalize Document.fragByName d' nm = v at hl ⊢
      cases hl with
      | none => exact .refl _
      | some f hs => exact specFieldsWith_rel s hs _ _ (spreadFields_rel s h n) _

theorem subFields_rel (s : Schema) {d d' : Document} (h : DocRel d d') (sf : Nat) {a a' : AstAndDef} (ha : ARel a a') :
    LRel (subFields s d sf a) (subFields s d' sf a') := by
  unfold subFields specFields
  rw [ha.fdef]
  exact specFieldsWith_rel s ha.sel _ _ (spreadFields_rel s h sf) _

/-! ### SameResponseShape -/

theorem typesAgree_rel (s : Schema) {a a' b b' : AstAndDef} (ha : ARel a a') (hb : ARel b b') :
    typesAgree s a b = typesAgree s a' b' := by
  unfold typesAgree
  rw [ha.fdef, hb.fdef]

def GT : AstAndDef → Prop := fun _ => True
theorem gt_closed : GClosed GT := fun _ _ _ _ => trivial

theorem srs_rel_sym (s : Schema) (sf : Nat) : ∀ n : Nat,
    (∀ d d', DocRel d d' → PRelG GT (sameResponseShape s d sf n) (sameResponseShape s d' sf n)) ∧
    (∀ d, PSymG GT (sameResponseShape s d sf n))
  | 0 => ⟨fun _ _ _ _ _ _ _ _ _ _ _ => rfl, fun _ _ _ _ _ => rfl⟩
  | n + 1 => by
      obtain ⟨ihr, ihs⟩ := srs_rel_sym s sf n
      constructor
      · intro d d' h a a' b b' _ _ ha hb
        rw [srs_succ, srs_succ, typesAgree_rel s ha hb]
        congr 1
        exact allPairs_rel GT gt_closed _ _ (ihr d d' h) (ihs d) ((subFields_rel s h sf ha).append (subFields_rel s h sf hb))
          (fun _ _ => trivial)
      · intro d a b _ _
        rw [srs_succ, srs_succ, typesAgree_comm]
        congr 1
        exact allPairs_rel_same GT gt_closed _ (ihr d d (.refl d)) (ihs d) (LRel.of_perm List.perm_append_comm) (fun _ _ => trivial)

/-! ### the pair test and FieldsInSetCanMerge -/

theorem beq_name_comm (a b : Name) : (a == b) = (b == a) := by
  by_cases h : a = b
  · subst h; rfl
  · have h' : ¬ b = a := fun e => h e.symm
    simp [beq_eq_false_iff_ne.2 h, beq_eq_false_iff_ne.2 h']

theorem identicalArguments_comm (a b : List Arg) (ha : (a.map (·.1)).Nodup) (hb : (b.map (·.1)).Nodup) :
    identicalArguments a b = identicalArguments b a := by
  cases h1 : identicalArguments a b with
  | true => exact (identicalArguments_symm a b ha hb h1).symm
  | false =>
    cases h2 : identicalArguments b a with
    | false => rfl
    | true => rw [identicalArguments_symm b a hb ha h2] at h1; cases h1

theorem pairOk_rel_sym (s : Schema) (sf : Nat) : ∀ n : Nat,
    (∀ d d', DocRel d d' → AODoc d → PRelG GA (pairOk s d sf n) (pairOk s d' sf n)) ∧
    (∀ d, AODoc d → PSymG GA (pairOk s d sf n))
  | 0 => by
      constructor
      · intro d d' h _ a a' b b' _ _ ha hb
        unfold pairOk
        simp only [sameResponseShape, fieldsInSetCanMerge, Bool.and_true, Bool.true_and]
        have hp : parentsMayCoincide a' b' = parentsMayCoincide a b := by unfold parentsMayCoincide; rw [ha.parent, hb.parent]
        rw [hp, ha.name, hb.name, ha.args, hb.args]
      · intro d _ a b ga gb
        unfold pairOk
        simp only [sameResponseShape, fieldsInSetCanMerge, Bool.and_true, Bool.true_and]
        rw [parentsMayCoincide_comm a b, beq_name_comm, identicalArguments_comm _ _ ga.1 gb.1]
  | n + 1 => by
      obtain ⟨ihr, ihs⟩ := pairOk_rel_sym s sf n
      obtain ⟨sr, ss⟩ := srs_rel_sym s sf (n + 1)
      constructor
      · intro d d' h hd a a' b b' ga gb ha hb
        unfold pairOk
        have hp : parentsMayCoincide a' b' = parentsMayCoincide a b := by unfold parentsMayCoincide; rw [ha.parent, hb.parent]
        rw [hp, ha.name, hb.name, ha.args, hb.args, sr d d' h a a' b b' trivial trivial ha hb, cm_succ, cm_succ]
        have hl := (subFields_rel s h sf ha).append (subFields_rel s h sf hb)
        have hgood : ∀ x ∈ subFields s d sf a ++ subFields s d sf b, GA x := by
          intro x hx
          rcases List.mem_append.1 hx with hx | hx
          · exact sub_good s d hd sf a ga x hx
          · exact sub_good s d hd sf b gb x hx
        rw [allPairs_rel GA ga_closed _ _ (ihr d d' h hd) (ihs d hd) hl hgood]
      · intro d hd a b ga gb
        unfold pairOk
        rw [parentsMayCoincide_comm a b, beq_name_comm, identicalArguments_comm _ _ ga.1 gb.1, ss d a b trivial trivial, cm_succ, cm_succ]
        have hgood : ∀ x ∈ subFields s d sf a ++ subFields s d sf b, GA x := by
          intro x hx
          rcases List.mem_append.1 hx with hx | hx
          · exact sub_good s d hd sf a ga x hx
          · exact sub_good s d hd sf b gb x hx
        rw [allPairs_rel_same GA ga_closed _ (ihr d d (.refl d) hd) (ihs d hd) (LRel.of_perm List.perm_append_comm) hgood]

/-- **FieldsInSetCanMerge does not depend on the order of selections** -/
theorem cm_rel (s : Schema) {d d' : Document} (h : DocRel d d') (hd : AODoc d) (sf : Nat) : ∀ (n : Nat) {L L' : List AstAndDef},
    LRel L L' → (∀ a ∈ L, GA a) → fieldsInSetCanMerge s d sf n L = fieldsInSetCanMerge s d' sf n L'
  | 0, _, _, _, _ => rfl
  | n + 1, L, L', hl, hg => by
      rw [cm_succ, cm_succ]
      exact allPairs_rel GA ga_closed _ _ ((pairOk_rel_sym s sf n).1 d d' h hd) ((pairOk_rel_sym s sf n).2 d hd) hl hg

end Gql
