/-
  Lemmas/MergeSpecFF.lean — on field lists without fragment spreads, the spec's
  FieldsInSetCanMerge fails somewhere among a list and its descendants exactly when the rule's
  pairwise test `PCb` finds a conflict within one of them.
-/
import GqlVerif.Lemmas.MergeFF
import GqlVerif.Thm.C05
namespace Gql
open Gql.Spec

theorem subFields_ff (s : Schema) (d : Document) (fuel : Nat) (a : AstAndDef) (ha : ffOf a) :
    subFields s d fuel a = subOf s a := by
  unfold subFields subOf specFields
  exact specFieldsWith_ff s _ _ _ _ ha

theorem allPairs_iff (p : AstAndDef → AstAndDef → Bool) : ∀ L : List AstAndDef,
    allPairs p L = true ↔ L.Pairwise (fun a b => keyOf a = keyOf b → p a b = true)
  | [] => by simp [allPairs]
  | a :: L => by
      simp only [allPairs, Bool.and_eq_true, List.all_eq_true, Bool.or_eq_true, bne_iff_ne, ne_eq,
        List.pairwise_cons, allPairs_iff p L, keyOf]
      constructor
      · rintro ⟨h1, h2⟩
        exact ⟨fun b hb hk => (h1 b hb).resolve_left (fun hne => hne hk), h2⟩
      · rintro ⟨h1, h2⟩
        refine ⟨fun b hb => ?_, h2⟩
        by_cases hk : a.field.responseKey = b.field.responseKey
        · exact Or.inr (h1 b hb hk)
        · exact Or.inl hk

theorem typeConflictB_iff (s : Schema) (a b : AstAndDef) : typeConflictB s a b = !typesAgree s a b := by
  unfold typeConflictB typesAgree
  cases a.fdef <;> cases b.fdef <;> simp [C05.typeConflict_iff]

theorem meOf_false (a b : AstAndDef) : meOf false a b = !parentsMayCoincide a b := by
  simp [meOf, parentsMayCoincide]

/-- the test the spec applies to one pair of same-key fields of a set, at fuel `n` -/
def pairOk (s : Schema) (d : Document) (sf n : Nat) (a b : AstAndDef) : Bool :=
  sameResponseShape s d sf n a b &&
    (if parentsMayCoincide a b then
      a.field.name == b.field.name && identicalArguments a.field.args b.field.args &&
        fieldsInSetCanMerge s d sf n (subFields s d sf a ++ subFields s d sf b)
     else true)

theorem cm_succ (s : Schema) (d : Document) (sf n : Nat) (F : List AstAndDef) :
    fieldsInSetCanMerge s d sf (n + 1) F = allPairs (pairOk s d sf n) F := rfl

theorem srs_succ (s : Schema) (d : Document) (sf n : Nat) (a b : AstAndDef) :
    sameResponseShape s d sf (n + 1) a b =
      (typesAgree s a b && allPairs (sameResponseShape s d sf n) (subFields s d sf a ++ subFields s d sf b)) := rfl

/-- a stricter parent relation can only add conflicts -/
theorem PCb_mono (s : Schema) : ∀ (D : Nat) (a b : AstAndDef), depOf a ≤ D → ffOf a → PCb s true a b = true → PCb s false a b = true
  | D, a, b, hD, ha, h => by
      rw [PCb_eq s true a b ha] at h
      rw [PCb_eq s false a b ha]
      simp only [Bool.or_eq_true] at h ⊢
      rcases h with h | h
      · left
        simp only [pcFlat, meOf, Bool.true_or, Bool.not_true, Bool.false_and, Bool.false_or] at h
        simp [pcFlat, h]
      · right
        simp only [crossAny, List.any_eq_true, Bool.and_eq_true] at h ⊢
        obtain ⟨x, hx, y, hy, hk, hp⟩ := h
        refine ⟨x, hx, y, hy, hk, ?_⟩
        have hme : meOf true a b = true := by simp [meOf]
        rw [hme] at hp
        cases hm : meOf false a b with
        | true => exact hp
        | false =>
          obtain ⟨hd, hfx⟩ := mem_subOf s a x ha hx
          match D, hD with
          | 0, hD => omega
          | D' + 1, hD => exact PCb_mono s D' x y (by omega) hfx hp

/-- rule ⇒ spec, pairwise: a conflict found by the rule is a failure of the spec's test -/
theorem pc_to_spec (s : Schema) (d : Document) (sf : Nat) :
    ∀ (D : Nat) (a b : AstAndDef), depOf a ≤ D → ffOf a → ffOf b →
      (PCb s true a b = true → ∀ n, D + 1 ≤ n → sameResponseShape s d sf n a b = false) ∧
      (PCb s false a b = true → ∀ n, D + 1 ≤ n → pairOk s d sf n a b = false)
  | D, a, b, hD, ha, hb => by
      -- what the induction gives for the members of the two sub-selections
      have hsub : ∀ x ∈ subOf s a, ∀ y ∈ subOf s b,
          (PCb s true x y = true → ∀ n, D ≤ n → sameResponseShape s d sf n x y = false) ∧
          (PCb s false x y = true → ∀ n, D ≤ n → pairOk s d sf n x y = false) := by
        intro x hx y hy
        obtain ⟨hd, hfx⟩ := mem_subOf s a x ha hx
        obtain ⟨_, hfy⟩ := mem_subOf s b y hb hy
        match D, hD, hd with
        | 0, hD, hd => omega
        | D' + 1, hD, hd =>
          have := pc_to_spec s d sf D' x y (by omega) hfx hfy
          exact ⟨fun h n hn => this.1 h n (by omega), fun h n hn => this.2 h n (by omega)⟩
      -- a cross pair failing `q` makes `allPairs q` fail on the merged list
      have hcross : ∀ (q : AstAndDef → AstAndDef → Bool) (x y : AstAndDef), x ∈ subOf s a → y ∈ subOf s b →
          keyOf x = keyOf y → q x y = false → allPairs q (subFields s d sf a ++ subFields s d sf b) = false := by
        intro q x y hx hy hk hq
        rw [subFields_ff s d sf a ha, subFields_ff s d sf b hb]
        cases hall : allPairs q (subOf s a ++ subOf s b) with
        | false => rfl
        | true =>
          rw [allPairs_iff, List.pairwise_append] at hall
          have := hall.2.2 x hx y hy hk
          rw [hq] at this; cases this
      constructor
      · intro h n hn
        obtain ⟨m, rfl⟩ : ∃ m, n = m + 1 := ⟨n - 1, by omega⟩
        rw [srs_succ]
        rw [PCb_eq s true a b ha] at h
        simp only [Bool.or_eq_true] at h
        rcases h with h | h
        · simp only [pcFlat, meOf, Bool.true_or, Bool.not_true, Bool.false_and, Bool.false_or, typeConflictB_iff,
            Bool.not_eq_true'] at h
          simp [h]
        · simp only [crossAny, List.any_eq_true, Bool.and_eq_true, beq_iff_eq] at h
          obtain ⟨x, hx, y, hy, hk, hp⟩ := h
          have hme : meOf true a b = true := by simp [meOf]
          rw [hme] at hp
          have := (hsub x hx y hy).1 hp m (by omega)
          rw [hcross _ x y hx hy hk this]; simp
      · intro h n hn
        obtain ⟨m, rfl⟩ : ∃ m, n = m + 1 := ⟨n - 1, by omega⟩
        rw [PCb_eq s false a b ha] at h
        simp only [Bool.or_eq_true] at h
        unfold pairOk
        rcases h with h | h
        · -- a flat conflict
          simp only [pcFlat, Bool.or_eq_true, Bool.and_eq_true, Bool.not_eq_true', bne_iff_ne, ne_eq, meOf_false,
            Bool.not_eq_false', typeConflictB_iff] at h
          rcases h with (⟨hc, hn'⟩ | ⟨hc, hargs⟩) | ht
          · have : (a.field.name == b.field.name) = false := by simpa using hn'
            simp [hc, this]
          · have : identicalArguments a.field.args b.field.args = false := by
              rw [← C05.sameArguments_eq]; exact hargs
            simp [hc, this]
          · have : sameResponseShape s d sf (m + 1) a b = false := by rw [srs_succ, ht]; rfl
            simp [this]
        · simp only [crossAny, List.any_eq_true, Bool.and_eq_true, beq_iff_eq] at h
          obtain ⟨x, hx, y, hy, hk, hp⟩ := h
          cases hc : parentsMayCoincide a b with
          | true =>
            have hme : meOf false a b = false := by rw [meOf_false, hc]; rfl
            rw [hme] at hp
            -- the merged set fails
            have hxy := (hsub x hx y hy).2 hp
            have hm1 : 1 ≤ m := by
              obtain ⟨hd, _⟩ := mem_subOf s a x ha hx
              omega
            obtain ⟨m', rfl⟩ : ∃ m', m = m' + 1 := ⟨m - 1, by omega⟩
            have : fieldsInSetCanMerge s d sf (m' + 1 + 1) (subFields s d sf a ++ subFields s d sf b) = false := by
              rw [cm_succ]
              exact hcross _ x y hx hy hk (hxy (m' + 1) (by omega))
            simp [this]
          | false =>
            have hme : meOf false a b = true := by rw [meOf_false, hc]; rfl
            rw [hme] at hp
            have := (hsub x hx y hy).1 hp m (by omega)
            have hs : sameResponseShape s d sf (m + 1) a b = false := by
              rw [srs_succ, hcross _ x y hx hy hk this]; simp
            simp [hs]

end Gql

namespace Gql
open Gql.Spec

/-- `F'` is `F` or the collected sub-selection of a field of `F`, or of a field of that, ... -/
inductive Desc (s : Schema) : List AstAndDef → List AstAndDef → Prop
  | refl (F : List AstAndDef) : Desc s F F
  | step {F F' : List AstAndDef} {a : AstAndDef} : a ∈ F → Desc s (subOf s a) F' → Desc s F F'

/-- the rule finds a conflict between two same-key fields of the list -/
def WBad (s : Schema) (F : List AstAndDef) : Prop :=
  ¬ F.Pairwise (fun a b => keyOf a = keyOf b → PCb s false a b = false)

/-- ... somewhere below field `a` -/
def DW (s : Schema) (a : AstAndDef) : Prop := ∃ F', Desc s (subOf s a) F' ∧ WBad s F'

theorem DW_of_mem {s : Schema} {a x : AstAndDef} (hx : x ∈ subOf s a) (h : DW s x) : DW s a := by
  obtain ⟨F', hd, hw⟩ := h
  exact ⟨F', .step hx hd, hw⟩

theorem not_pairwise_append {α : Type} {R : α → α → Prop} {A B : List α} (h : ¬ (A ++ B).Pairwise R) :
    ¬ A.Pairwise R ∨ ¬ B.Pairwise R ∨ ∃ x ∈ A, ∃ y ∈ B, ¬ R x y := by
  refine Classical.byContradiction fun hc => h ?_
  rw [List.pairwise_append]
  refine ⟨Classical.byContradiction fun h1 => hc (Or.inl h1),
    Classical.byContradiction fun h2 => hc (Or.inr (Or.inl h2)), fun x hx y hy => ?_⟩
  exact Classical.byContradiction fun h3 => hc (Or.inr (Or.inr ⟨x, hx, y, hy, h3⟩))

/-- if a boolean test fails on some ordered same-key pair of `A`, and every failing pair is either a
    rule conflict or has a conflict below one of its fields, then there is a conflict in `A` or below it -/
theorem within_to_W (s : Schema) (q : AstAndDef → AstAndDef → Bool) (A : List AstAndDef)
    (h : ¬ A.Pairwise (fun a b => keyOf a = keyOf b → q a b = true))
    (hq : ∀ x ∈ A, ∀ y ∈ A, q x y = false → PCb s false x y = true ∨ DW s x ∨ DW s y) :
    WBad s A ∨ ∃ x ∈ A, DW s x := by
  refine Classical.byContradiction fun hc => h ?_
  have hW : A.Pairwise (fun a b => keyOf a = keyOf b → PCb s false a b = false) :=
    Classical.byContradiction fun hw => hc (Or.inl hw)
  have hD : ∀ x ∈ A, ¬ DW s x := fun x hx hd => hc (Or.inr ⟨x, hx, hd⟩)
  refine hW.imp_of_mem ?_
  intro x y hx hy hxy hk
  cases hqv : q x y with
  | true => rfl
  | false =>
    rcases hq x hx y hy hqv with h1 | h1 | h1
    · rw [hxy hk] at h1; cases h1
    · exact absurd h1 (hD x hx)
    · exact absurd h1 (hD y hy)

/-- spec ⇒ rule, pairwise: a failure of the spec's test on two fields shows as a conflict the rule
    finds between them, or within the sub-selections below one of them -/
theorem spec_to_pc (s : Schema) (d : Document) (sf : Nat) :
    ∀ (n : Nat) (D : Nat) (a b : AstAndDef), depOf a ≤ D → depOf b ≤ D → ffOf a → ffOf b →
      (sameResponseShape s d sf n a b = false → PCb s true a b = true ∨ DW s a ∨ DW s b) ∧
      (pairOk s d sf n a b = false → PCb s false a b = true ∨ DW s a ∨ DW s b)
  | 0, D, a, b, hDa, hDb, ha, hb => by
      constructor
      · intro h; simp [sameResponseShape] at h
      · intro h
        left
        rw [PCb_eq s false a b ha]
        simp only [pairOk, sameResponseShape, fieldsInSetCanMerge, Bool.true_and, Bool.and_true] at h
        cases hc : parentsMayCoincide a b with
        | false => simp [hc] at h
        | true =>
          simp only [hc, if_true, Bool.and_eq_false_iff] at h
          simp only [pcFlat, meOf_false, hc, Bool.not_true, Bool.not_false, Bool.true_and, Bool.or_eq_true]
          left; left
          rcases h with h | h
          · left; simpa [bne] using h
          · right; rw [C05.sameArguments_eq, h]; rfl
  | n + 1, D, a, b, hDa, hDb, ha, hb => by
      -- members of the sub-selections, one level down
      have hmem : ∀ x, (x ∈ subOf s a ∨ x ∈ subOf s b) → depOf x ≤ D - 1 ∧ ffOf x := by
        intro x hx
        rcases hx with hx | hx
        · obtain ⟨h1, h2⟩ := mem_subOf s a x ha hx; exact ⟨by omega, h2⟩
        · obtain ⟨h1, h2⟩ := mem_subOf s b x hb hx; exact ⟨by omega, h2⟩
      have ih : ∀ x y, (x ∈ subOf s a ∨ x ∈ subOf s b) → (y ∈ subOf s a ∨ y ∈ subOf s b) →
          (sameResponseShape s d sf n x y = false → PCb s true x y = true ∨ DW s x ∨ DW s y) ∧
          (pairOk s d sf n x y = false → PCb s false x y = true ∨ DW s x ∨ DW s y) := by
        intro x y hx hy
        exact spec_to_pc s d sf n (D - 1) x y (hmem x hx).1 (hmem y hy).1 (hmem x hx).2 (hmem y hy).2
      -- a failing test `q` on the merged sub-selections, where failing pairs are explained by `PCb pe`
      have hmerged : ∀ (q : AstAndDef → AstAndDef → Bool) (pe : Bool),
          (∀ x y, (x ∈ subOf s a ∨ x ∈ subOf s b) → (y ∈ subOf s a ∨ y ∈ subOf s b) → q x y = false →
            PCb s pe x y = true ∨ DW s x ∨ DW s y) →
          allPairs q (subFields s d sf a ++ subFields s d sf b) = false →
          (∃ x ∈ subOf s a, ∃ y ∈ subOf s b, keyOf x = keyOf y ∧ PCb s pe x y = true) ∨ DW s a ∨ DW s b := by
        intro q pe hq hall
        rw [subFields_ff s d sf a ha, subFields_ff s d sf b hb] at hall
        have hnp : ¬ (subOf s a ++ subOf s b).Pairwise (fun x y => keyOf x = keyOf y → q x y = true) := by
          intro hp; rw [← allPairs_iff] at hp; rw [hp] at hall; cases hall
        have toFalse : ∀ x y, (x ∈ subOf s a ∨ x ∈ subOf s b) → (y ∈ subOf s a ∨ y ∈ subOf s b) → q x y = false →
            PCb s false x y = true ∨ DW s x ∨ DW s y := by
          intro x y hx hy hqv
          rcases hq x y hx hy hqv with h | h | h
          · cases pe with
            | false => exact Or.inl h
            | true => exact Or.inl (PCb_mono s _ x y (Nat.le_refl _) (hmem x hx).2 h)
          · exact Or.inr (Or.inl h)
          · exact Or.inr (Or.inr h)
        rcases not_pairwise_append hnp with h | h | ⟨x, hx, y, hy, hxy⟩
        · rcases within_to_W s q (subOf s a) h (fun x hx y hy => toFalse x y (Or.inl hx) (Or.inl hy)) with hw | ⟨x, hx, hdw⟩
          · exact Or.inr (Or.inl ⟨_, .refl _, hw⟩)
          · exact Or.inr (Or.inl (DW_of_mem hx hdw))
        · rcases within_to_W s q (subOf s b) h (fun x hx y hy => toFalse x y (Or.inr hx) (Or.inr hy)) with hw | ⟨x, hx, hdw⟩
          · exact Or.inr (Or.inr ⟨_, .refl _, hw⟩)
          · exact Or.inr (Or.inr (DW_of_mem hx hdw))
        · -- a cross pair
          have hk : keyOf x = keyOf y := Classical.byContradiction fun hne => hxy (fun h => absurd h hne)
          have hqv : q x y = false := by
            cases hv : q x y with
            | false => rfl
            | true => exact absurd (fun _ => hv) hxy
          rcases hq x y (Or.inl hx) (Or.inr hy) hqv with h | h | h
          · exact Or.inl ⟨x, hx, y, hy, hk, h⟩
          · exact Or.inr (Or.inl (DW_of_mem hx h))
          · exact Or.inr (Or.inr (DW_of_mem hy h))
      -- the response-shape part
      have hshape : sameResponseShape s d sf (n + 1) a b = false → PCb s true a b = true ∨ DW s a ∨ DW s b := by
        intro h
        rw [srs_succ, Bool.and_eq_false_iff] at h
        rcases h with h | h
        · left
          rw [PCb_eq s true a b ha]
          simp [pcFlat, typeConflictB_iff, h]
        · rcases hmerged _ true (fun x y hx hy hq => (ih x y hx hy).1 hq) h with ⟨x, hx, y, hy, hk, hp⟩ | h | h
          · left
            rw [PCb_eq s true a b ha]
            have hme : meOf true a b = true := by simp [meOf]
            simp only [Bool.or_eq_true]
            right
            simp only [crossAny, List.any_eq_true, Bool.and_eq_true, beq_iff_eq, hme]
            exact ⟨x, hx, y, hy, hk, hp⟩
          · exact Or.inr (Or.inl h)
          · exact Or.inr (Or.inr h)
      refine ⟨hshape, ?_⟩
      intro h
      unfold pairOk at h
      rw [Bool.and_eq_false_iff] at h
      rcases h with h | h
      · rcases hshape h with h | h | h
        · exact Or.inl (PCb_mono s _ a b (Nat.le_refl _) ha h)
        · exact Or.inr (Or.inl h)
        · exact Or.inr (Or.inr h)
      · cases hc : parentsMayCoincide a b with
        | false => simp [hc] at h
        | true =>
          simp only [hc, if_true, Bool.and_eq_false_iff] at h
          have hme : meOf false a b = false := by rw [meOf_false, hc]; rfl
          rcases h with (h | h) | h
          · left
            rw [PCb_eq s false a b ha]
            simp only [pcFlat, hme, Bool.not_false, Bool.true_and, Bool.or_eq_true]
            left; left; left; simpa [bne] using h
          · left
            rw [PCb_eq s false a b ha]
            simp only [pcFlat, hme, Bool.not_false, Bool.true_and, Bool.or_eq_true]
            left; left; right; rw [C05.sameArguments_eq, h]; rfl
          · rw [cm_succ] at h
            rcases hmerged _ false (fun x y hx hy hq => (ih x y hx hy).2 hq) h with ⟨x, hx, y, hy, hk, hp⟩ | h | h
            · left
              rw [PCb_eq s false a b ha]
              simp only [Bool.or_eq_true]
              right
              simp only [crossAny, List.any_eq_true, Bool.and_eq_true, beq_iff_eq, hme]
              exact ⟨x, hx, y, hy, hk, hp⟩
            · exact Or.inr (Or.inl h)
            · exact Or.inr (Or.inr h)

/-- **spec ⇒ rule on a list**: if FieldsInSetCanMerge fails on `F`, the rule finds a conflict in
    `F` or in one of its descendants -/
theorem cm_to_W (s : Schema) (d : Document) (sf n D : Nat) (F : List AstAndDef) (hF : ∀ a ∈ F, depOf a ≤ D ∧ ffOf a)
    (h : fieldsInSetCanMerge s d sf n F = false) : ∃ F', Desc s F F' ∧ WBad s F' := by
  cases n with
  | zero => simp [fieldsInSetCanMerge] at h
  | succ n =>
    rw [cm_succ] at h
    have hnp : ¬ F.Pairwise (fun x y => keyOf x = keyOf y → pairOk s d sf n x y = true) := by
      intro hp; rw [← allPairs_iff] at hp; rw [hp] at h; cases h
    rcases within_to_W s _ F hnp (fun x hx y hy hq =>
        (spec_to_pc s d sf n D x y (hF x hx).1 (hF y hy).1 (hF x hx).2 (hF y hy).2).2 hq) with hw | ⟨x, hx, F', hd, hw⟩
    · exact ⟨F, .refl F, hw⟩
    · exact ⟨F', .step hx hd, hw⟩

/-- **rule ⇒ spec on a list** -/
theorem W_to_cm (s : Schema) (d : Document) (sf n D : Nat) (F : List AstAndDef) (hF : ∀ a ∈ F, depOf a ≤ D ∧ ffOf a)
    (hn : D + 2 ≤ n) (h : WBad s F) : fieldsInSetCanMerge s d sf n F = false := by
  obtain ⟨m, rfl⟩ : ∃ m, n = m + 1 := ⟨n - 1, by omega⟩
  rw [cm_succ]
  cases hall : allPairs (pairOk s d sf m) F with
  | false => rfl
  | true =>
    exfalso
    apply h
    rw [allPairs_iff] at hall
    refine hall.imp_of_mem ?_
    intro a b ha hb hab hk
    cases hp : PCb s false a b with
    | false => rfl
    | true =>
      have := (pc_to_spec s d sf D a b (hF a ha).1 (hF a ha).2 (hF b hb).2).2 hp m (by omega)
      rw [hab hk] at this; cases this

end Gql
