/-
  Lemmas/MergeVisitedAll.lean — documents WITH fragment spreads: every field a visited selection
  set collects (directly, through inline fragments, or through any chain of fragment spreads) is
  itself entered by the walk, and its own selection set is visited with exactly the parent type
  the spec collects it on.
-/
import GqlVerif.Lemmas.MergeVisited
import GqlVerif.Lemmas.MergeRel
namespace Gql
open Gql.Spec

/-- the selection-set callbacks of a trace: current = parent type, declared type conditions, and
    the walk of the items is part of the trace -/
def SSC2 (s : Schema) (tr : Trace) : Prop :=
  ∀ sel env, (Ev.enter (.selectionSet sel), env) ∈ tr →
    env.cur = env.parent ∧ tcKnownSels s sel = true ∧ ∀ ev ∈ walkSelections s env sel, ev ∈ tr

theorem SSC2.nil (s : Schema) : SSC2 s [] := by intro sel env h; simp at h
theorem SSC2.append {s : Schema} {a b : Trace} (ha : SSC2 s a) (hb : SSC2 s b) : SSC2 s (a ++ b) := by
  intro sel env h
  rcases List.mem_append.1 h with h | h
  · obtain ⟨h1, h2, h3⟩ := ha sel env h
    exact ⟨h1, h2, fun ev hev => List.mem_append_left _ (h3 ev hev)⟩
  · obtain ⟨h1, h2, h3⟩ := hb sel env h
    exact ⟨h1, h2, fun ev hev => List.mem_append_right _ (h3 ev hev)⟩
theorem SSC2.cons {s : Schema} {e : Ev × Snap} {t : Trace} (he : ∀ sel, e.1 ≠ .enter (.selectionSet sel))
    (ht : SSC2 s t) : SSC2 s (e :: t) := by
  intro sel env h
  rcases List.mem_cons.1 h with h | h
  · exact absurd (congrArg Prod.fst h).symm (he sel)
  · obtain ⟨h1, h2, h3⟩ := ht sel env h
    exact ⟨h1, h2, fun ev hev => List.mem_cons_of_mem _ (h3 ev hev)⟩
theorem SSC2.of_below {s : Schema} {t : Trace} (h : Below 2 (t.map Prod.fst)) : SSC2 s t := by
  intro sel env hm
  have := h _ (List.mem_map.2 ⟨_, hm, rfl⟩)
  simp [Ev.node, Node.level] at this

theorem ssc2_arguments (s : Schema) (defs : Option (List InputValueDef)) (e : Snap) (as : List Arg) :
    SSC2 s (walkArguments s defs e as) :=
  SSC2.of_below (by rw [walkArguments_events]; exact (below_arguments as).mono (by omega))
theorem ssc2_directives (s : Schema) (e : Snap) (ds : List Directive) : SSC2 s (walkDirectives s e ds) :=
  SSC2.of_below (by rw [walkDirectives_events]; exact below_directives ds)

theorem ssc2_selectionSetWith (s : Schema) (e : Snap) (sel : List Selection) (hg : tcKnownSels s sel = true)
    (hin : SSC2 s (walkSelections s e.withParent sel)) :
    SSC2 s (walkSelectionSetWith e sel (fun e' => walkSelections s e' sel)) := by
  intro sel' env h
  simp only [walkSelectionSetWith, List.cons_append, List.mem_cons, List.mem_append, List.not_mem_nil, or_false] at h
  rcases h with h | h | h
  · obtain ⟨hs, he⟩ := Prod.mk.inj h
    have hs' : sel' = sel := by simpa using hs
    subst hs'; subst he
    refine ⟨rfl, hg, fun ev hev => ?_⟩
    simp only [walkSelectionSetWith, List.cons_append, List.mem_cons, List.mem_append]
    exact Or.inr (Or.inl hev)
  · obtain ⟨a, b, c⟩ := hin sel' env h
    refine ⟨a, b, fun ev hev => ?_⟩
    simp only [walkSelectionSetWith, List.cons_append, List.mem_cons, List.mem_append]
    exact Or.inr (Or.inl (c ev hev))
  · have := congrArg Prod.fst h
    simp at this

mutual
theorem ssc2_selection (s : Schema) : ∀ (x : Selection) (e : Snap), tcKnownSel s x = true → SSC2 s (walkSelection s e x)
  | .field pos alias name args dirs sel, e, h2 => by
      simp only [walkSelection, List.cons_append]
      have hg : tcKnownSels s sel = true := by simpa [tcKnownSel] using h2
      refine SSC2.cons (by intro sel'; simp) ?_
      refine SSC2.append (SSC2.append (SSC2.append (ssc2_arguments s _ _ args) (ssc2_directives s _ dirs)) ?_)
        (SSC2.cons (by intro sel'; simp) (SSC2.nil s))
      exact ssc2_selectionSetWith s _ sel hg (ssc2_selections s sel _ hg)
  | .spread pos name dirs, e, _ => by
      simp only [walkSelection, List.cons_append]
      exact SSC2.cons (by intro sel'; simp) (SSC2.append (ssc2_directives s _ dirs) (SSC2.cons (by intro sel'; simp) (SSC2.nil s)))
  | .inline pos tc dirs sel, e, h2 => by
      simp only [walkSelection, List.cons_append]
      have hg : tcKnownSels s sel = true := by
        simp only [tcKnownSel, Bool.and_eq_true] at h2; exact h2.2
      refine SSC2.cons (by intro sel'; simp) ?_
      refine SSC2.append (SSC2.append (ssc2_directives s _ dirs) ?_) (SSC2.cons (by intro sel'; simp) (SSC2.nil s))
      exact ssc2_selectionSetWith s _ sel hg (ssc2_selections s sel _ hg)
theorem ssc2_selections (s : Schema) : ∀ (xs : List Selection) (e : Snap), tcKnownSels s xs = true →
    SSC2 s (walkSelections s e xs)
  | [], _, _ => SSC2.nil s
  | x :: xs, e, hg => by
      simp only [tcKnownSels, Bool.and_eq_true] at hg
      simp only [walkSelections]
      exact SSC2.append (ssc2_selection s x e hg.1) (ssc2_selections s xs e hg.2)
end

theorem ssc2_varDefs (s : Schema) (e : Snap) : ∀ vs : List VarDef, SSC2 s (walkVarDefs s e vs)
  | [] => SSC2.nil s
  | v :: vs => by
      simp only [walkVarDefs, List.cons_append]
      refine SSC2.cons (by intro sel; simp) (SSC2.append (SSC2.append ?_ (SSC2.cons (by intro sel; simp) (SSC2.nil s))) (ssc2_varDefs s e vs))
      cases v.default with
      | none => exact SSC2.nil s
      | some dv => exact SSC2.of_below (by rw [walkValue_events]; exact (below_value dv).mono (by omega))

theorem ssc2_definition (s : Schema) (e : Snap) (x : Definition) (hg : tcKnownSels s x.selections = true) (t : Trace)
    (h : walkDefinition s e x = some t) : SSC2 s t := by
  cases x with
  | frag f =>
    simp only [walkDefinition, Option.some.injEq] at h
    subst h
    refine SSC2.cons (by intro sel; simp) (SSC2.append (SSC2.append (ssc2_directives s _ f.dirs) ?_) (SSC2.cons (by intro sel; simp) (SSC2.nil s)))
    exact ssc2_selectionSetWith s _ f.sel hg (ssc2_selections s f.sel _ hg)
  | op o =>
    simp only [walkDefinition, Option.map_eq_some_iff] at h
    obtain ⟨tn, _, rfl⟩ := h
    refine SSC2.cons (by intro sel; simp) (SSC2.append (SSC2.append (SSC2.append (ssc2_directives s _ o.dirs) (ssc2_varDefs s _ o.vars)) ?_)
      (SSC2.cons (by intro sel; simp) (SSC2.nil s)))
    exact ssc2_selectionSetWith s _ o.sel hg (ssc2_selections s o.sel _ hg)

/-- the whole walk of a document with declared type conditions -/
theorem ssc2_walkOf (s : Schema) (d : Document) (hq : s.queryType.isSome = true) (htc : TcKnown s d) :
    SSC2 s (walkOf s d) := by
  obtain ⟨hw, hall⟩ := walkOf_defs s d hq
  rw [hw]
  refine SSC2.cons (by intro sel; simp) (SSC2.append ?_ (SSC2.cons (by intro sel; simp) (SSC2.nil s)))
  have : ∀ ds : List Definition, (∀ x ∈ ds, x ∈ d) → SSC2 s (ds.flatMap (defTrace s)) := by
    intro ds
    induction ds with
    | nil => intro _; exact SSC2.nil s
    | cons x xs ih =>
      intro hsub
      simp only [List.flatMap_cons]
      refine SSC2.append ?_ (ih (fun y hy => hsub y (by simp [hy])))
      have hx := hsub x (by simp)
      obtain ⟨t, ht⟩ := Option.isSome_iff_exists.1 (hall x hx)
      have hdt : defTrace s x = t := by simp [defTrace, ht]
      rw [hdt]
      exact ssc2_definition s _ x (htc x hx) t ht
  exact this d (fun _ h => h)

/-! ### collected fields are entered; their selection sets are visited on the right type -/

/-- the field node is entered and its own selection set is visited with the parent type the spec
    collects it on -/
def Entered (s : Schema) (tr : Trace) (a : AstAndDef) : Prop :=
  (∃ env1, (Ev.enter (.field a.field), env1) ∈ tr) ∧
  ∃ env', (Ev.enter (.selectionSet a.field.sel), env') ∈ tr ∧ env'.parent = subParent s a

theorem Entered.mono {s : Schema} {t1 t2 : Trace} {a : AstAndDef} (h : Entered s t1 a) (hsub : ∀ ev ∈ t1, ev ∈ t2) :
    Entered s t2 a := by
  obtain ⟨⟨e1, h1⟩, e2, h2, h3⟩ := h
  exact ⟨⟨e1, hsub _ h1⟩, e2, hsub _ h2, h3⟩

mutual
theorem entered_selection (s : Schema) (sp : Name → List AstAndDef) : ∀ (x : Selection) (e : Snap), e.cur = e.parent →
    tcKnownSel s x = true → ∀ a ∈ specFieldsSelWith s sp e.parent x, (∃ nm, a ∈ sp nm) ∨ Entered s (walkSelection s e x) a
  | .field pos alias name args dirs sel, e, _, _, a, ha => by
      simp only [specFieldsSelWith, List.mem_singleton] at ha
      subst ha
      right
      refine ⟨⟨e.withType s ((e.parent.bind (·.fieldByName name)).map (·.ty)), by simp [walkSelection]⟩,
        (((e.withType s ((e.parent.bind (·.fieldByName name)).map (·.ty))).withField
          (e.parent.bind (·.fieldByName name))).withParent), ?_, ?_⟩
      · simp [walkSelection, walkSelectionSetWith]
      · simp only [Snap.withParent, Snap.withField, Snap.withType, subParent]
        exact resolve_fieldType s _
  | .spread _ nm _, _, _, _, a, ha => by
      simp only [specFieldsSelWith] at ha
      exact Or.inl ⟨nm, ha⟩
  | .inline pos tc dirs sel, e, hcp, htc, a, ha => by
      simp only [specFieldsSelWith] at ha
      simp only [tcKnownSel, Bool.and_eq_true] at htc
      have key : ∀ (e1 : Snap), e1.cur = inlineParent s tc e.parent →
          (∃ nm, a ∈ sp nm) ∨ Entered s (walkSelections s e1.withParent sel) a := by
        intro e1 h1
        have hp : e1.withParent.parent = inlineParent s tc e.parent := by simp [Snap.withParent, h1]
        exact entered_selections s sp sel e1.withParent (by simp [Snap.withParent]) htc.2 a (by rw [hp]; exact ha)
      have lift : ∀ (e1 : Snap), (∀ ev ∈ walkSelections s e1.withParent sel, ev ∈ walkSelection s e (.inline pos tc dirs sel)) →
          e1.cur = inlineParent s tc e.parent →
          (∃ nm, a ∈ sp nm) ∨ Entered s (walkSelection s e (.inline pos tc dirs sel)) a := by
        intro e1 hsub h1
        rcases key e1 h1 with h | h
        · exact Or.inl h
        · exact Or.inr (h.mono hsub)
      cases tc with
      | none =>
        refine lift e ?_ (by simp [inlineParent, hcp])
        intro ev hev
        simp only [walkSelection, walkSelectionSetWith, List.cons_append, List.mem_cons, List.mem_append]
        right; left; right; right; left; exact hev
      | some c =>
        obtain ⟨t, ht⟩ := Option.isSome_iff_exists.1 htc.1
        refine lift (e.withType s (some (.named c))) ?_ (by simp [Snap.withType, Schema.resolve, Ty.inner, inlineParent, ht])
        intro ev hev
        simp only [walkSelection, walkSelectionSetWith, List.cons_append, List.mem_cons, List.mem_append]
        right; left; right; right; left; exact hev
theorem entered_selections (s : Schema) (sp : Name → List AstAndDef) : ∀ (xs : List Selection) (e : Snap), e.cur = e.parent →
    tcKnownSels s xs = true → ∀ a ∈ specFieldsWith s sp e.parent xs, (∃ nm, a ∈ sp nm) ∨ Entered s (walkSelections s e xs) a
  | [], _, _, _, a, ha => by simp [specFieldsWith] at ha
  | x :: xs, e, hcp, htc, a, ha => by
      simp only [tcKnownSels, Bool.and_eq_true] at htc
      simp only [specFieldsWith, List.mem_append] at ha
      rcases ha with ha | ha
      · rcases entered_selection s sp x e hcp htc.1 a ha with h | h
        · exact Or.inl h
        · exact Or.inr (h.mono (fun ev hev => by simp only [walkSelections, List.mem_append]; exact Or.inl hev))
      · rcases entered_selections s sp xs e hcp htc.2 a ha with h | h
        · exact Or.inl h
        · exact Or.inr (h.mono (fun ev hev => by simp only [walkSelections, List.mem_append]; exact Or.inr hev))
end

/-- a selection set the walk visits, with the type it is selected on -/
def Reg (s : Schema) (d : Document) (parent : Option TypeDef) (sel : List Selection) : Prop :=
  ∃ env, (Ev.enter (.selectionSet sel), env) ∈ walkOf s d ∧ env.parent = parent

theorem mem_doc_of_mem_fragments : ∀ (d : Document) (f : FragDef), f ∈ d.fragments → Definition.frag f ∈ d
  | [], f, h => by simp [Document.fragments] at h
  | .frag g :: rest, f, h => by
      simp only [Document.fragments, List.mem_cons] at h
      rcases h with rfl | h
      · simp
      · exact List.mem_cons_of_mem _ (mem_doc_of_mem_fragments rest f h)
  | .op o :: rest, f, h => by
      simp only [Document.fragments] at h
      exact List.mem_cons_of_mem _ (mem_doc_of_mem_fragments rest f h)

/-- a fragment definition's selection set is visited on the type its condition names -/
theorem reg_fragment (s : Schema) (d : Document) (hq : s.queryType.isSome = true) (nm : Name) (fr : FragDef)
    (h : d.fragByName nm = some fr) : Reg s d (s.typeByName fr.tc) fr.sel := by
  have hm : fr ∈ d.fragments := by
    unfold Document.fragByName at h
    exact List.mem_reverse.1 (List.mem_of_find?_eq_some h)
  have hd := mem_doc_of_mem_fragments d fr hm
  obtain ⟨hw, _⟩ := walkOf_defs s d hq
  refine ⟨((Snap.empty.withType s (some (.named fr.tc))).withParent), ?_, ?_⟩
  · rw [hw]
    simp only [List.cons_append, List.mem_cons, List.mem_append, List.mem_flatMap]
    right; left
    refine ⟨.frag fr, hd, ?_⟩
    simp [defTrace, walkDefinition, walkSelectionSet, walkSelectionSetWith]
  · simp [Snap.withParent, Snap.withType, Schema.resolve, Ty.inner]

/-- **every field a visited selection set collects is entered by the walk, and its own selection
    set is visited on the type the spec collects it on** -/
theorem mem_entered (s : Schema) (d : Document) (hq : s.queryType.isSome = true) (htc : TcKnown s d) :
    ∀ n : Nat, (∀ parent sel, Reg s d parent sel → ∀ a ∈ specFields s d n parent sel, Entered s (walkOf s d) a) ∧
      (∀ nm, ∀ a ∈ spreadFields s d n nm, Entered s (walkOf s d) a) := by
  have hssc := ssc2_walkOf s d hq htc
  have step : ∀ n : Nat, (∀ nm, ∀ a ∈ spreadFields s d n nm, Entered s (walkOf s d) a) →
      ∀ parent sel, Reg s d parent sel → ∀ a ∈ specFields s d n parent sel, Entered s (walkOf s d) a := by
    intro n hsp parent sel ⟨env, hm, hp⟩ a ha
    obtain ⟨hcp, hg, hitems⟩ := hssc sel env hm
    subst hp
    rcases entered_selections s (spreadFields s d n) sel env hcp hg a ha with ⟨nm, h⟩ | h
    · exact hsp nm a h
    · exact h.mono hitems
  intro n
  induction n with
  | zero =>
    have h0 : ∀ nm, ∀ a ∈ spreadFields s d 0 nm, Entered s (walkOf s d) a := by
      intro nm a ha; simp [spreadFields] at ha
    exact ⟨step 0 h0, h0⟩
  | succ n ih =>
    have hs : ∀ nm, ∀ a ∈ spreadFields s d (n + 1) nm, Entered s (walkOf s d) a := by
      intro nm a ha
      cases hf : d.fragByName nm with
      | none => rw [spreadFields_succ_none s d n nm hf] at ha; simp at ha
      | some fr =>
        rw [spreadFields_succ_some s d n nm fr hf] at ha
        exact ih.1 _ _ (reg_fragment s d hq nm fr hf) a ha
    exact ⟨step (n + 1) hs, hs⟩

/-- the closure the descent needs -/
theorem reg_sub (s : Schema) (d : Document) (hq : s.queryType.isSome = true) (htc : TcKnown s d)
    (parent : Option TypeDef) (sel : List Selection) (hr : Reg s d parent sel) (a : AstAndDef) (ha : Mem s d parent sel a) :
    Reg s d (subParent s a) a.field.sel ∧ ∃ env, (Ev.enter (.field a.field), env) ∈ walkOf s d := by
  obtain ⟨n, ha⟩ := ha
  obtain ⟨⟨e1, h1⟩, e2, h2, h3⟩ := (mem_entered s d hq htc n).1 parent sel hr a ha
  exact ⟨⟨e2, h2, h3⟩, e1, h1⟩

end Gql
