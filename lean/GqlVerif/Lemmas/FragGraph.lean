/-
  Lemmas/FragGraph.lean — basic facts about the fragment-spread graph of a document.
-/
import GqlVerif.Spec.Fragments
import GqlVerif.Lemmas.Collect
namespace Gql
open Gql.Spec

theorem fragByName_isSome_of_mem (d : Document) {f : FragDef} (h : f ∈ d.fragments) :
    (d.fragByName f.name).isSome = true := by
  unfold Document.fragByName
  rw [List.find?_isSome]
  exact ⟨f, by simpa using h, by simp⟩

theorem fragByName_none_iff (d : Document) (n : Name) : d.fragByName n = none ↔ ∀ f ∈ d.fragments, f.name ≠ n := by
  unfold Document.fragByName
  rw [List.find?_eq_none]
  simp

theorem filter_eq_singleton_of_nodup {α β : Type} [DecidableEq β] (g : α → β) :
    ∀ (l : List α) (x : α), (l.map g).Nodup → x ∈ l → l.filter (fun y => g y == g x) = [x]
  | [], _, _, h => by simp at h
  | y :: ys, x, hn, hx => by
      simp only [List.map_cons, List.nodup_cons, List.mem_map, not_exists, not_and] at hn
      rcases List.mem_cons.1 hx with rfl | hx
      · have : ys.filter (fun y => g y == g x) = [] := by
          rw [List.filter_eq_nil_iff]
          intro z hz hc
          exact hn.1 z hz (by simpa using hc)
        simp [List.filter_cons, this]
      · have hne : ¬ g y = g x := fun h => hn.1 x hx h.symm
        simp only [List.filter_cons, beq_iff_eq, hne, if_false]
        exact filter_eq_singleton_of_nodup g ys x hn.2 hx

theorem fragByName_of_nodup (d : Document) (hn : (d.fragments.map (·.name)).Nodup) {f : FragDef}
    (h : f ∈ d.fragments) : d.fragByName f.name = some f := by
  have hs := fragByName_isSome_of_mem d h
  obtain ⟨g, hg⟩ := Option.isSome_iff_exists.1 hs
  obtain ⟨hgm, hgn⟩ := fragByName_some_mem d hg
  have h1 := filter_eq_singleton_of_nodup (fun x : FragDef => x.name) d.fragments f hn h
  have : g ∈ d.fragments.filter (fun y => y.name == f.name) := by
    simp [List.mem_filter, hgm, hgn]
  rw [h1] at this
  simp only [List.mem_singleton] at this
  rw [hg, this]

theorem spreadsOf_of_nodup (d : Document) (hn : (d.fragments.map (·.name)).Nodup) {f : FragDef}
    (h : f ∈ d.fragments) : spreadsOf d f.name = (recursiveSpreads f.sel).map (·.name) := by
  unfold spreadsOf
  rw [filter_eq_singleton_of_nodup (fun x : FragDef => x.name) d.fragments f hn h]
  simp

theorem spreadsOf_mem_of_mem (d : Document) {f : FragDef} (h : f ∈ d.fragments) {sp : SpreadNode}
    (hs : sp ∈ recursiveSpreads f.sel) : sp.name ∈ spreadsOf d f.name := by
  unfold spreadsOf
  simp only [List.mem_flatMap, List.mem_filter, List.mem_map]
  exact ⟨f, ⟨h, by simp⟩, sp, hs, rfl⟩

theorem spreadsOf_undefined (d : Document) {a : Name} (h : d.fragByName a = none) : spreadsOf d a = [] := by
  unfold spreadsOf
  have := (fragByName_none_iff d a).1 h
  have hf : d.fragments.filter (fun f => f.name == a) = [] := by
    rw [List.filter_eq_nil_iff]
    intro f hf hc
    exact this f hf (by simpa using hc)
  rw [hf]; rfl

theorem reachable_undefined (d : Document) {a c : Name} (h : d.fragByName a = none)
    (hr : Reachable (spreadsOf d) a c) : c = a := by
  cases hr with
  | refl => rfl
  | step hm _ => rw [spreadsOf_undefined d h] at hm; simp at hm

/-- a node with an outgoing edge is a defined fragment -/
theorem defined_of_edge (d : Document) {a b : Name} (h : b ∈ spreadsOf d a) : (d.fragByName a).isSome = true := by
  cases hf : d.fragByName a with
  | none => rw [spreadsOf_undefined d hf] at h; simp at h
  | some _ => rfl

end Gql
