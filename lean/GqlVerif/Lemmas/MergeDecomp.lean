/-
  Lemmas/MergeDecomp.lean — the converse of the collector facts of Lemmas/MergeRel.lean: every
  field the spec collects from a selection set is either in the field map
  `get_fields_and_fragment_names` returns or contributed by one of the fragment names it returns;
  the map has one entry per response key.
-/
import GqlVerif.Lemmas.MergeCanon
namespace Gql
open Gql.Spec

theorem fm_alUpdate_mono {fm : FieldMap} {k : Name} {a a' : AstAndDef} (h : FM fm a') :
    FM (alUpdate fm k [] (· ++ [a])) a' := by
  obtain ⟨kv, hkv, ha'⟩ := h
  unfold alUpdate
  split
  · by_cases hk : kv.1 = k
    · exact ⟨(k, kv.2 ++ [a]), List.mem_map.2 ⟨kv, hkv, by simp [hk]⟩, by simp [ha']⟩
    · exact ⟨kv, List.mem_map.2 ⟨kv, hkv, by simp [hk]⟩, ha'⟩
  · exact ⟨kv, by simp [hkv], ha'⟩

theorem fm_alUpdate_self {fm : FieldMap} {k : Name} {a : AstAndDef} : FM (alUpdate fm k [] (· ++ [a])) a := by
  unfold alUpdate
  split
  · rename_i h
    simp only [List.any_eq_true, decide_eq_true_eq] at h
    obtain ⟨p, hp, hk⟩ := h
    exact ⟨(k, p.2 ++ [a]), List.mem_map.2 ⟨p, hp, by simp [hk]⟩, by simp⟩
  · exact ⟨(k, [] ++ [a]), by simp, by simp⟩

mutual
theorem collectSel_mono (s : Schema) : ∀ (x : Selection) (parent : Option TypeDef) (acc : FieldMap × List Name),
    (∀ a, FM acc.1 a → FM (mergeCollectSel s parent x acc).1 a) ∧ (∀ nm ∈ acc.2, nm ∈ (mergeCollectSel s parent x acc).2)
  | .field pos alias name args dirs sel, parent, (fm, fns) => by
      simp only [mergeCollectSel]
      exact ⟨fun a h => fm_alUpdate_mono h, fun nm h => h⟩
  | .spread _ name _, _, (fm, fns) => by
      simp only [mergeCollectSel]
      refine ⟨fun a h => h, fun nm h => ?_⟩
      split
      · exact h
      · simp [h]
  | .inline _ tc _ sel, parent, acc => by
      simp only [mergeCollectSel]
      exact collectSels_mono s sel _ acc
theorem collectSels_mono (s : Schema) : ∀ (xs : List Selection) (parent : Option TypeDef) (acc : FieldMap × List Name),
    (∀ a, FM acc.1 a → FM (mergeCollectSels s parent xs acc).1 a) ∧ (∀ nm ∈ acc.2, nm ∈ (mergeCollectSels s parent xs acc).2)
  | [], _, acc => by simp only [mergeCollectSels]; exact ⟨fun a h => h, fun nm h => h⟩
  | x :: xs, parent, acc => by
      simp only [mergeCollectSels]
      obtain ⟨h1, h2⟩ := collectSel_mono s x parent acc
      obtain ⟨h3, h4⟩ := collectSels_mono s xs parent (mergeCollectSel s parent x acc)
      exact ⟨fun a h => h3 a (h1 a h), fun nm h => h4 nm (h2 nm h)⟩
end

mutual
theorem collectSel_complete (s : Schema) (sp : Name → List AstAndDef) : ∀ (x : Selection) (parent : Option TypeDef)
    (acc : FieldMap × List Name) (a : AstAndDef), a ∈ specFieldsSelWith s sp parent x →
      FM (mergeCollectSel s parent x acc).1 a ∨ ∃ nm ∈ (mergeCollectSel s parent x acc).2, a ∈ sp nm
  | .field pos alias name args dirs sel, parent, (fm, fns), a, h => by
      simp only [specFieldsSelWith, List.mem_singleton] at h
      subst h
      left
      simp only [mergeCollectSel]
      exact fm_alUpdate_self
  | .spread _ name _, _, (fm, fns), a, h => by
      simp only [specFieldsSelWith] at h
      right
      refine ⟨name, ?_, h⟩
      simp only [mergeCollectSel]
      split
      · rename_i hc; simpa using hc
      · simp
  | .inline _ tc _ sel, parent, acc, a, h => by
      simp only [specFieldsSelWith] at h
      simp only [mergeCollectSel]
      exact collectSels_complete s sp sel _ acc a h
theorem collectSels_complete (s : Schema) (sp : Name → List AstAndDef) : ∀ (xs : List Selection) (parent : Option TypeDef)
    (acc : FieldMap × List Name) (a : AstAndDef), a ∈ specFieldsWith s sp parent xs →
      FM (mergeCollectSels s parent xs acc).1 a ∨ ∃ nm ∈ (mergeCollectSels s parent xs acc).2, a ∈ sp nm
  | [], _, acc, a, h => by simp [specFieldsWith] at h
  | x :: xs, parent, acc, a, h => by
      simp only [specFieldsWith, List.mem_append] at h
      simp only [mergeCollectSels]
      rcases h with h | h
      · obtain ⟨m1, m2⟩ := collectSels_mono s xs parent (mergeCollectSel s parent x acc)
        rcases collectSel_complete s sp x parent acc a h with h | ⟨nm, hnm, ha⟩
        · exact Or.inl (m1 a h)
        · exact Or.inr ⟨nm, m2 nm hnm, ha⟩
      · exact collectSels_complete s sp xs parent _ a h
end

/-- a collected field is in the map or comes through one of the recorded names -/
theorem fafn_complete (s : Schema) (d : Document) (n : Nat) (parent : Option TypeDef) (sel : List Selection) (a : AstAndDef)
    (h : a ∈ specFields s d n parent sel) :
    FM (fieldsAndFragmentNames s parent sel).1 a ∨ ∃ nm ∈ (fieldsAndFragmentNames s parent sel).2, a ∈ spreadFields s d n nm :=
  collectSels_complete s (spreadFields s d n) sel parent ([], []) a h

theorem mem_decomp (s : Schema) (d : Document) (parent : Option TypeDef) (sel : List Selection) (a : AstAndDef)
    (h : Mem s d parent sel a) :
    FM (fieldsAndFragmentNames s parent sel).1 a ∨ ∃ nm ∈ (fieldsAndFragmentNames s parent sel).2, MemFrag s d nm a := by
  obtain ⟨n, h⟩ := h
  rcases fafn_complete s d n parent sel a h with h | ⟨nm, hnm, ha⟩
  · exact Or.inl h
  · exact Or.inr ⟨nm, hnm, n, ha⟩

/-- what a fragment contributes: its own fields, or what the fragments it spreads contribute -/
theorem memFrag_decomp (s : Schema) (d : Document) (nm : Name) (a : AstAndDef) (h : MemFrag s d nm a) :
    ∃ fr, d.fragByName nm = some fr ∧
      (FM (referencedFieldsAndFragmentNames s fr).1 a ∨ ∃ nm2 ∈ (referencedFieldsAndFragmentNames s fr).2, MemFrag s d nm2 a) := by
  obtain ⟨n, h⟩ := h
  match n, h with
  | 0, h => simp [spreadFields] at h
  | n + 1, h =>
    cases hf : d.fragByName nm with
    | none => rw [spreadFields_succ_none s d n nm hf] at h; simp at h
    | some fr =>
      rw [spreadFields_succ_some s d n nm fr hf] at h
      refine ⟨fr, rfl, ?_⟩
      unfold referencedFieldsAndFragmentNames
      rcases fafn_complete s d n _ fr.sel a h with h | ⟨nm2, hnm2, ha⟩
      · exact Or.inl h
      · exact Or.inr ⟨nm2, hnm2, n, ha⟩

/-- a fragment's body is the selection set the spread contributes -/
theorem memFrag_iff_mem (s : Schema) (d : Document) (nm : Name) (fr : FragDef) (hf : d.fragByName nm = some fr) (a : AstAndDef) :
    MemFrag s d nm a ↔ Mem s d (s.typeByName fr.tc) fr.sel a := by
  constructor
  · rintro ⟨n, h⟩
    match n, h with
    | 0, h => simp [spreadFields] at h
    | n + 1, h =>
      rw [spreadFields_succ_some s d n nm fr hf] at h
      exact ⟨n, h⟩
  · rintro ⟨n, h⟩
    refine ⟨n + 1, ?_⟩
    rw [spreadFields_succ_some s d n nm fr hf]
    exact h

/-! ### one entry per response key -/

mutual
theorem collectSel_nodup (s : Schema) : ∀ (x : Selection) (parent : Option TypeDef) (acc : FieldMap × List Name),
    (alKeys acc.1).Nodup → (alKeys (mergeCollectSel s parent x acc).1).Nodup
  | .field pos alias name args dirs sel, parent, (fm, fns), h => by
      simp only [mergeCollectSel]
      rw [alKeys_alUpdate]
      split
      · exact h
      · rename_i hk
        exact List.nodup_append.2 ⟨h, by simp, by
          intro a ha b hb
          simp only [List.mem_singleton] at hb
          subst hb
          exact fun e => hk (e ▸ ha)⟩
  | .spread _ _ _, _, (fm, fns), h => by simpa only [mergeCollectSel] using h
  | .inline _ tc _ sel, parent, acc, h => by
      simp only [mergeCollectSel]
      exact collectSels_nodup s sel _ acc h
theorem collectSels_nodup (s : Schema) : ∀ (xs : List Selection) (parent : Option TypeDef) (acc : FieldMap × List Name),
    (alKeys acc.1).Nodup → (alKeys (mergeCollectSels s parent xs acc).1).Nodup
  | [], _, acc, h => by simpa only [mergeCollectSels] using h
  | x :: xs, parent, acc, h => by
      simp only [mergeCollectSels]
      exact collectSels_nodup s xs parent _ (collectSel_nodup s x parent acc h)
end

theorem fafn_nodup (s : Schema) (parent : Option TypeDef) (sel : List Selection) :
    (alKeys (fieldsAndFragmentNames s parent sel).1).Nodup := by
  unfold fieldsAndFragmentNames
  exact collectSels_nodup s sel parent ([], []) (by simp [alKeys])

/-- a well-keyed map with one entry per key: a value is found under its own key -/
theorem fm_alGet {fm : FieldMap} (hk : KeyOk fm) (hn : (alKeys fm).Nodup) {a : AstAndDef} (h : FM fm a) :
    ∃ l, alGet fm (keyOf a) = some l ∧ a ∈ l ∧ (keyOf a, l) ∈ fm := by
  obtain ⟨kv, hkv, ha⟩ := h
  have hkey : keyOf a = kv.1 := hk kv hkv a ha
  refine ⟨kv.2, ?_, ha, ?_⟩
  · rw [hkey]; exact alGet_of_mem fm hn kv.1 kv.2 hkv
  · rw [hkey]; exact hkv

end Gql
