/-
  Lemmas/ValueSites.lean — the report of values_of_correct_type.rs over a whole document is the
  concatenation, over the document's top-level literal positions (argument values of fields and
  directives, variable defaults), of what it reports inside that literal (`vErrs`).
-/
import GqlVerif.Lemmas.Values
namespace Gql
open Gql.Spec

/-- a top-level literal position: the expected type the context offers there, and the literal -/
def siteOf (e : Ev × Snap) : Option (Option Ty × Value) :=
  match e.1 with
  | .enter (.argument a) => some (e.2.inpLit, a.2)
  | .enter (.varDef v) => v.default.map fun dv => (e.2.inpLit, dv)
  | _ => none

def litSites (tr : Trace) : List (Option Ty × Value) := tr.filterMap siteOf

def vErrsP (s : Schema) (p : Option Ty × Value) : List Err := vErrs s p.1 p.2

def VocDecomp (s : Schema) (tr : Trace) : Prop :=
  tr.flatMap (vocCheck s) = (litSites tr).flatMap (vErrsP s)

theorem VocDecomp.nil (s : Schema) : VocDecomp s [] := rfl
theorem VocDecomp.append {s : Schema} {a b : Trace} (ha : VocDecomp s a) (hb : VocDecomp s b) :
    VocDecomp s (a ++ b) := by
  unfold VocDecomp litSites at *
  rw [List.flatMap_append, List.filterMap_append, List.flatMap_append, ha, hb]
theorem VocDecomp.quiet {s : Schema} {e : Ev × Snap} {t : Trace} (h1 : vocCheck s e = []) (h2 : siteOf e = none)
    (ht : VocDecomp s t) : VocDecomp s (e :: t) := by
  unfold VocDecomp litSites at *
  simp [List.flatMap_cons, List.filterMap_cons, h1, h2, ht]

mutual
theorem walkValue_noSites (s : Schema) : ∀ (v : Value) (e : Snap), litSites (walkValue s e v) = []
  | .var _, _ | .null, _ | .int _, _ | .float _, _ | .str _, _ | .bool _, _ | .enum _, _ => by
      simp [walkValue, litSites, siteOf]
  | .list vs, e => by
      have := walkValues_noSites s vs (e.withInput s (listItemType e.inpLit))
      simp only [litSites] at this ⊢
      simp only [walkValue, List.filterMap_cons, List.filterMap_append, List.filterMap_nil, this, siteOf, List.append_nil, List.nil_append]
  | .obj fs, e => by
      have := walkObjFields_noSites s fs e
      simp only [litSites] at this ⊢
      simp only [walkValue, List.filterMap_cons, List.filterMap_append, List.filterMap_nil, this, siteOf, List.append_nil, List.nil_append]
theorem walkValues_noSites (s : Schema) : ∀ (vs : List Value) (e : Snap), litSites (walkValues s e vs) = []
  | [], _ => rfl
  | v :: vs, e => by
      have h1 := walkValue_noSites s v e
      have h2 := walkValues_noSites s vs e
      simp only [litSites] at h1 h2 ⊢
      simp [walkValues, List.filterMap_append, h1, h2]
theorem walkObjFields_noSites (s : Schema) : ∀ (fs : List (Name × Value)) (e : Snap), litSites (walkObjFields s e fs) = []
  | [], _ => rfl
  | (k, v) :: fs, e => by
      have h1 := walkValue_noSites s v (e.withInput s (objectFieldType s e.inpLit k))
      have h2 := walkObjFields_noSites s fs e
      simp only [litSites] at h1 h2 ⊢
      simp only [walkObjFields, List.filterMap_cons, List.filterMap_append, List.filterMap_nil, h1, h2, siteOf, List.append_nil, List.nil_append]
end

theorem voc_arguments (s : Schema) (defs : Option (List InputValueDef)) (e : Snap) :
    ∀ as, VocDecomp s (walkArguments s defs e as)
  | [] => VocDecomp.nil s
  | a :: as => by
      have ih := voc_arguments s defs e as
      have hv := walkValue_voc s a.2 (e.withInput s (argType defs a.1)) (inpOk_withInput s _ e)
      have hn := walkValue_noSites s a.2 (e.withInput s (argType defs a.1))
      unfold VocDecomp litSites at *
      simp only [walkArguments, List.flatMap_cons, List.flatMap_append, List.filterMap_cons, List.filterMap_append,
        List.flatMap_nil, List.filterMap_nil, hv, hn, ih]
      simp [vocCheck, valuesOfCorrectType, Rule.stateless, siteOf, vErrsP]

theorem voc_directives (s : Schema) (e : Snap) : ∀ ds, VocDecomp s (walkDirectives s e ds)
  | [] => VocDecomp.nil s
  | d :: ds => by
      simp only [walkDirectives, List.cons_append]
      refine VocDecomp.quiet (by simp [vocCheck, valuesOfCorrectType, Rule.stateless]) (by simp [siteOf]) ?_
      refine VocDecomp.append (VocDecomp.append (voc_arguments s _ e d.args) ?_) (voc_directives s e ds)
      exact VocDecomp.quiet (by simp [vocCheck, valuesOfCorrectType, Rule.stateless]) (by simp [siteOf]) (VocDecomp.nil s)

theorem voc_varDefs (s : Schema) (e : Snap) : ∀ vs, VocDecomp s (walkVarDefs s e vs)
  | [] => VocDecomp.nil s
  | v :: vs => by
      have ih := voc_varDefs s e vs
      unfold VocDecomp litSites at *
      simp only [walkVarDefs, List.cons_append, List.flatMap_cons, List.flatMap_append, List.filterMap_cons,
        List.filterMap_append, List.flatMap_nil, List.filterMap_nil, ih]
      cases hd : v.default with
      | none => simp [vocCheck, valuesOfCorrectType, Rule.stateless, siteOf, hd]
      | some dv =>
        have hv := walkValue_voc s dv (e.withInput s (some v.ty)) (inpOk_withInput s _ e)
        have hn := walkValue_noSites s dv (e.withInput s (some v.ty))
        simp only [litSites] at hn
        simp [vocCheck, valuesOfCorrectType, Rule.stateless, siteOf, hd, hv, hn, vErrsP]

theorem voc_selectionSetWith {s : Schema} (e : Snap) (sel : List Selection) (items : Snap → Trace)
    (h : ∀ e', VocDecomp s (items e')) : VocDecomp s (walkSelectionSetWith e sel items) := by
  simp only [walkSelectionSetWith, List.cons_append]
  refine VocDecomp.quiet (by simp [vocCheck, valuesOfCorrectType, Rule.stateless]) (by simp [siteOf]) ?_
  exact VocDecomp.append (h _)
    (VocDecomp.quiet (by simp [vocCheck, valuesOfCorrectType, Rule.stateless]) (by simp [siteOf]) (VocDecomp.nil s))

mutual
theorem voc_selection (s : Schema) : ∀ (x : Selection) (e : Snap), VocDecomp s (walkSelection s e x)
  | .field pos alias name args dirs sel, e => by
      simp only [walkSelection, List.cons_append]
      refine VocDecomp.quiet (by simp [vocCheck, valuesOfCorrectType, Rule.stateless]) (by simp [siteOf]) ?_
      refine VocDecomp.append (VocDecomp.append (VocDecomp.append (voc_arguments s _ _ args) (voc_directives s _ dirs)) ?_) ?_
      · exact voc_selectionSetWith _ sel _ (fun e' => voc_selections s sel e')
      · exact VocDecomp.quiet (by simp [vocCheck, valuesOfCorrectType, Rule.stateless]) (by simp [siteOf]) (VocDecomp.nil s)
  | .spread pos name dirs, e => by
      simp only [walkSelection, List.cons_append]
      refine VocDecomp.quiet (by simp [vocCheck, valuesOfCorrectType, Rule.stateless]) (by simp [siteOf]) ?_
      exact VocDecomp.append (voc_directives s _ dirs)
        (VocDecomp.quiet (by simp [vocCheck, valuesOfCorrectType, Rule.stateless]) (by simp [siteOf]) (VocDecomp.nil s))
  | .inline pos tc dirs sel, e => by
      simp only [walkSelection, List.cons_append]
      refine VocDecomp.quiet (by simp [vocCheck, valuesOfCorrectType, Rule.stateless]) (by simp [siteOf]) ?_
      refine VocDecomp.append (VocDecomp.append (voc_directives s _ dirs) ?_) ?_
      · exact voc_selectionSetWith _ sel _ (fun e' => voc_selections s sel e')
      · exact VocDecomp.quiet (by simp [vocCheck, valuesOfCorrectType, Rule.stateless]) (by simp [siteOf]) (VocDecomp.nil s)
theorem voc_selections (s : Schema) : ∀ (xs : List Selection) (e : Snap), VocDecomp s (walkSelections s e xs)
  | [], _ => VocDecomp.nil s
  | x :: xs, e => by
      simp only [walkSelections]
      exact VocDecomp.append (voc_selection s x e) (voc_selections s xs e)
end

theorem voc_definition (s : Schema) (e : Snap) (x : Definition) (t : Trace) (h : walkDefinition s e x = some t) :
    VocDecomp s t := by
  cases x with
  | frag f =>
    simp only [walkDefinition, Option.some.injEq] at h
    subst h
    refine VocDecomp.quiet (by simp [vocCheck, valuesOfCorrectType, Rule.stateless]) (by simp [siteOf]) ?_
    refine VocDecomp.append (VocDecomp.append (voc_directives s _ f.dirs) ?_) ?_
    · exact voc_selectionSetWith _ f.sel _ (fun e' => voc_selections s f.sel e')
    · exact VocDecomp.quiet (by simp [vocCheck, valuesOfCorrectType, Rule.stateless]) (by simp [siteOf]) (VocDecomp.nil s)
  | op o =>
    simp only [walkDefinition, Option.map_eq_some_iff] at h
    obtain ⟨tn, _, rfl⟩ := h
    refine VocDecomp.quiet (by simp [vocCheck, valuesOfCorrectType, Rule.stateless]) (by simp [siteOf]) ?_
    refine VocDecomp.append (VocDecomp.append (VocDecomp.append (voc_directives s _ o.dirs) (voc_varDefs s _ o.vars)) ?_) ?_
    · exact voc_selectionSetWith _ o.sel _ (fun e' => voc_selections s o.sel e')
    · exact VocDecomp.quiet (by simp [vocCheck, valuesOfCorrectType, Rule.stateless]) (by simp [siteOf]) (VocDecomp.nil s)

theorem voc_definitions (s : Schema) (e : Snap) : ∀ (ds : List Definition) (t : Trace),
    walkDefinitions s e ds = some t → VocDecomp s t
  | [], t, h => by simp only [walkDefinitions, Option.some.injEq] at h; subst h; exact VocDecomp.nil s
  | x :: ds, t, h => by
      simp only [walkDefinitions] at h
      cases ha : walkDefinition s e x with
      | none => simp [ha] at h
      | some a =>
        cases hb : walkDefinitions s e ds with
        | none => simp [ha, hb] at h
        | some b =>
          simp only [ha, hb, Option.some.injEq] at h
          subst h
          exact VocDecomp.append (voc_definition s e x a ha) (voc_definitions s e ds b hb)

theorem voc_document (s : Schema) (e : Snap) (d : Document) (t : Trace) (h : walkDocument s e d = some t) :
    VocDecomp s t := by
  simp only [walkDocument, Option.map_eq_some_iff] at h
  obtain ⟨t', ht', rfl⟩ := h
  refine VocDecomp.quiet (by simp [vocCheck, valuesOfCorrectType, Rule.stateless]) (by simp [siteOf]) ?_
  exact VocDecomp.append (voc_definitions s e d t' ht')
    (VocDecomp.quiet (by simp [vocCheck, valuesOfCorrectType, Rule.stateless]) (by simp [siteOf]) (VocDecomp.nil s))

end Gql
