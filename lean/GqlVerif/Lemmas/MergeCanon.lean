/-
  Lemmas/MergeCanon.lean — canonical witnesses for the completeness of the field-merging rule.

  The rule never compares the fields a fragment contributes with each other when it meets the
  fragment on both sides of a comparison (`collect_conflicts_between_fragments` returns at once for
  `F` against `F`): conflicts inside a fragment are found when the walk visits the fragment's own
  selection set.  A *canonical* witness of a failing pair test therefore descends only through
  pairs of nested fields that no fragment contributes both of (`¬ Shared`).  Every witness can be
  turned into a canonical one somewhere in the document (Lemmas/MergeCompleteFinal.lean).
-/
import GqlVerif.Lemmas.MergeRank
import GqlVerif.Lemmas.MergeFinal
namespace Gql
open Gql.Spec

/-- some fragment contributes both fields -/
def Shared (s : Schema) (d : Document) (x y : AstAndDef) : Prop := ∃ F, MemFrag s d F x ∧ MemFrag s d F y
/-- some fragment of rank below `r` contributes both fields -/
def SharedLt (s : Schema) (d : Document) (r : Nat) (x y : AstAndDef) : Prop :=
  ∃ F, Dr d F < r ∧ MemFrag s d F x ∧ MemFrag s d F y

theorem SharedLt.shared {s : Schema} {d : Document} {r : Nat} {x y : AstAndDef} (h : SharedLt s d r x y) : Shared s d x y := by
  obtain ⟨F, _, hx, hy⟩ := h; exact ⟨F, hx, hy⟩
theorem SharedLt.mono {s : Schema} {d : Document} {r r' : Nat} {x y : AstAndDef} (h : SharedLt s d r x y) (hle : r ≤ r') :
    SharedLt s d r' x y := by
  obtain ⟨F, hF, hx, hy⟩ := h; exact ⟨F, by omega, hx, hy⟩
theorem SharedLt.symm {s : Schema} {d : Document} {r : Nat} {x y : AstAndDef} (h : SharedLt s d r x y) : SharedLt s d r y x := by
  obtain ⟨F, hF, hx, hy⟩ := h; exact ⟨F, hF, hy, hx⟩
theorem Shared.symm {s : Schema} {d : Document} {x y : AstAndDef} (h : Shared s d x y) : Shared s d y x := by
  obtain ⟨F, hx, hy⟩ := h; exact ⟨F, hy, hx⟩

inductive ShapeBadC (s : Schema) (d : Document) : AstAndDef → AstAndDef → Prop
  | types {a b : AstAndDef} : typesAgree s a b = false → ShapeBadC s d a b
  | nested {a b x y : AstAndDef} : MemSub s d a x → MemSub s d b y → keyOf x = keyOf y → ¬ Shared s d x y →
      ShapeBadC s d x y → ShapeBadC s d a b

inductive PairBadC (s : Schema) (d : Document) : AstAndDef → AstAndDef → Prop
  | shape {a b : AstAndDef} : ShapeBadC s d a b → PairBadC s d a b
  | name {a b : AstAndDef} : parentsMayCoincide a b = true → (a.field.name == b.field.name) = false → PairBadC s d a b
  | args {a b : AstAndDef} : parentsMayCoincide a b = true → ArgsOk a → ArgsOk b →
      identicalArguments a.field.args b.field.args = false → PairBadC s d a b
  | nested {a b x y : AstAndDef} : parentsMayCoincide a b = true → MemSub s d a x → MemSub s d b y →
      keyOf x = keyOf y → ¬ Shared s d x y → PairBadC s d x y → PairBadC s d a b

theorem ShapeBadC.symm {s : Schema} {d : Document} {a b : AstAndDef} (h : ShapeBadC s d a b) : ShapeBadC s d b a := by
  induction h with
  | types h => exact .types (by rw [typesAgree_comm]; exact h)
  | nested hx hy hk hns _ ih => exact .nested hy hx hk.symm (fun h => hns h.symm) ih

theorem PairBadC.symm {s : Schema} {d : Document} {a b : AstAndDef} (h : PairBadC s d a b) : PairBadC s d b a := by
  induction h with
  | shape h => exact .shape h.symm
  | name hp hn =>
    refine .name (by rw [parentsMayCoincide_comm]; exact hp) ?_
    simp only [beq_eq_false_iff_ne, ne_eq] at hn ⊢
    exact fun e => hn e.symm
  | args hp ha hb hargs =>
    exact .args (by rw [parentsMayCoincide_comm]; exact hp) hb ha
      (identicalArguments_false_symm _ _ hb ha (Or.inr hargs))
  | nested hp hx hy hk hns _ ih =>
    exact .nested (by rw [parentsMayCoincide_comm]; exact hp) hy hx hk.symm (fun h => hns h.symm) ih

/-- what a comparison under the flag `me` can find, canonically -/
def FailsC (s : Schema) (d : Document) (me : Bool) (a b : AstAndDef) : Prop :=
  if me then ShapeBadC s d a b else PairBadC s d a b

theorem FailsC.symm {s : Schema} {d : Document} {me : Bool} {a b : AstAndDef} (h : FailsC s d me a b) : FailsC s d me b a := by
  cases me
  · exact PairBadC.symm h
  · exact ShapeBadC.symm h

/-- what is not found with the parents taken as possibly coinciding is not found with exclusive parents either -/
theorem FailsC.of_true {s : Schema} {d : Document} {me : Bool} {a b : AstAndDef} (h : FailsC s d true a b) : FailsC s d me a b := by
  cases me
  · exact PairBadC.shape h
  · exact h

/-- the two collections of fields are compared completely under `me`, except for pairs a fragment
    of rank below `r` contributes both of -/
def Cross (s : Schema) (d : Document) (me : Bool) (r : Nat) (A B : AstAndDef → Prop) : Prop :=
  ∀ x y, A x → B y → keyOf x = keyOf y → SharedLt s d r x y ∨ ¬ FailsC s d me x y

theorem Cross.mono {s : Schema} {d : Document} {me : Bool} {r r' : Nat} {A B : AstAndDef → Prop}
    (h : Cross s d me r A B) (hle : r ≤ r') : Cross s d me r' A B :=
  fun x y hx hy hk => (h x y hx hy hk).imp (fun h => h.mono hle) id

theorem Cross.symm {s : Schema} {d : Document} {me : Bool} {r : Nat} {A B : AstAndDef → Prop}
    (h : Cross s d me r A B) : Cross s d me r B A :=
  fun x y hx hy hk => (h y x hy hx hk.symm).imp (fun h => h.symm) (fun h hf => h hf.symm)

theorem Cross.weaken {s : Schema} {d : Document} {me : Bool} {r : Nat} {A B : AstAndDef → Prop}
    (h : Cross s d false r A B) : Cross s d me r A B := by
  cases me
  · exact h
  · exact fun x y hx hy hk => (h x y hx hy hk).imp id (fun h hf => h (FailsC.of_true hf))

/-- what the memo table promises for an entry `((a, b), flag)` -/
def FragOK (s : Schema) (d : Document) (flag : Bool) (a b : Name) : Prop :=
  Cross s d flag (min (Dr d a) (Dr d b) + 1) (MemFrag s d a) (MemFrag s d b)

theorem FragOK.symm {s : Schema} {d : Document} {flag : Bool} {a b : Name} (h : FragOK s d flag a b) : FragOK s d flag b a := by
  unfold FragOK at h ⊢
  rw [Nat.min_comm]
  exact Cross.symm h

end Gql
