/-
  Lemmas/GraphEvents.lean — the callbacks the fragment-graph rules react to (fragment definition
  enter / leave, fragment spread, end of document), as a function of the document alone.
-/
import GqlVerif.Lemmas.TraverseMem
namespace Gql

inductive GEv where
  | enterFrag (f : FragDef)
  | leaveFrag
  | spread (sp : SpreadNode)
  | leaveDoc
  deriving Inhabited

def gev : Ev → Option GEv
  | .enter (.fragmentDef f) => some (.enterFrag f)
  | .leave (.fragmentDef _) => some .leaveFrag
  | .enter (.spread sp) => some (.spread sp)
  | .leave (.document _) => some .leaveDoc
  | _ => none

def Node.isGraph : Node → Bool
  | .fragmentDef _ | .spread _ | .document _ => true
  | _ => false

/-- no event of the list concerns the fragment graph -/
def NoGraph (l : List Ev) : Prop := ∀ e ∈ l, e.node.isGraph = false

theorem NoGraph.nil : NoGraph [] := by simp [NoGraph]
theorem NoGraph.append {a b : List Ev} (ha : NoGraph a) (hb : NoGraph b) : NoGraph (a ++ b) := by
  intro e he; rcases List.mem_append.1 he with h | h; exact ha e h; exact hb e h
theorem NoGraph.cons {e : Ev} {l : List Ev} (he : e.node.isGraph = false) (hl : NoGraph l) :
    NoGraph (e :: l) := by
  intro x hx; rcases List.mem_cons.1 hx with rfl | h; exact he; exact hl x h

theorem NoGraph.filterMap {l : List Ev} (h : NoGraph l) : l.filterMap gev = [] := by
  rw [List.filterMap_eq_nil_iff]
  intro e he
  have := h e he
  cases e with
  | enter n => cases n <;> simp [Ev.node, Node.isGraph] at this <;> rfl
  | leave n => cases n <;> simp [Ev.node, Node.isGraph] at this <;> rfl

mutual
theorem noGraph_value : ∀ v, NoGraph (traverseValue v)
  | .bool _ | .float _ | .int _ | .str _ | .null | .enum _ | .var _ => by
      simp [traverseValue, NoGraph, Ev.node, Node.isGraph]
  | .list vs => by
      simp only [traverseValue]
      exact NoGraph.cons rfl (NoGraph.append (noGraph_values vs) (NoGraph.cons rfl NoGraph.nil))
  | .obj fs => by
      simp only [traverseValue]
      exact NoGraph.cons rfl (NoGraph.append (noGraph_objFields fs) (NoGraph.cons rfl NoGraph.nil))
theorem noGraph_values : ∀ vs, NoGraph (traverseValues vs)
  | [] => by simp [traverseValues, NoGraph]
  | v :: vs => by simp only [traverseValues]; exact (noGraph_value v).append (noGraph_values vs)
theorem noGraph_objFields : ∀ fs, NoGraph (traverseObjFields fs)
  | [] => by simp [traverseObjFields, NoGraph]
  | (k, v) :: fs => by
      simp only [traverseObjFields]
      exact NoGraph.append (NoGraph.cons rfl (NoGraph.append (noGraph_value v) (NoGraph.cons rfl NoGraph.nil))) (noGraph_objFields fs)
end

theorem noGraph_arguments : ∀ as, NoGraph (traverseArguments as)
  | [] => by simp [traverseArguments, NoGraph]
  | a :: as => by
      simp only [traverseArguments]
      exact NoGraph.append (NoGraph.cons rfl (NoGraph.append (noGraph_value a.2) (NoGraph.cons rfl NoGraph.nil))) (noGraph_arguments as)

theorem noGraph_directives : ∀ ds, NoGraph (traverseDirectives ds)
  | [] => by simp [traverseDirectives, NoGraph]
  | d :: ds => by
      simp only [traverseDirectives]
      exact NoGraph.append (NoGraph.cons rfl (NoGraph.append (noGraph_arguments d.args) (NoGraph.cons rfl NoGraph.nil))) (noGraph_directives ds)

theorem noGraph_varDefs : ∀ vs, NoGraph (traverseVarDefs vs)
  | [] => by simp [traverseVarDefs, NoGraph]
  | v :: vs => by
      simp only [traverseVarDefs]
      refine NoGraph.append (NoGraph.cons rfl (NoGraph.append ?_ (NoGraph.cons rfl NoGraph.nil))) (noGraph_varDefs vs)
      cases v.default with
      | none => exact NoGraph.nil
      | some dv => exact noGraph_value dv

mutual
theorem gev_selection : ∀ x, (traverseSelection x).filterMap gev = (recursiveSpreadsSel x).map GEv.spread
  | .field pos alias name args dirs sel => by
      simp only [traverseSelection, recursiveSpreadsSel, List.filterMap_cons, List.filterMap_append, gev,
        (noGraph_arguments args).filterMap, (noGraph_directives dirs).filterMap, gev_selections sel,
        List.filterMap_nil, List.nil_append, List.append_nil]
  | .spread pos name dirs => by
      simp only [traverseSelection, recursiveSpreadsSel, List.filterMap_cons, List.filterMap_append, gev,
        (noGraph_directives dirs).filterMap, List.filterMap_nil, List.nil_append, List.map_cons, List.map_nil, List.append_nil]
  | .inline pos tc dirs sel => by
      simp only [traverseSelection, recursiveSpreadsSel, List.filterMap_cons, List.filterMap_append, gev,
        (noGraph_directives dirs).filterMap, gev_selections sel,
        List.filterMap_nil, List.nil_append, List.append_nil]
theorem gev_selections : ∀ xs, (traverseSelections xs).filterMap gev = (recursiveSpreads xs).map GEv.spread
  | [] => by simp [traverseSelections, recursiveSpreads]
  | x :: xs => by
      simp only [traverseSelections, recursiveSpreads, List.filterMap_append, gev_selection x, gev_selections xs,
        List.map_append]
end

theorem gev_selectionSet (sel : List Selection) :
    (traverseSelectionSet sel).filterMap gev = (recursiveSpreads sel).map GEv.spread := by
  simp only [traverseSelectionSet, List.filterMap_cons, List.filterMap_append, gev, gev_selections,
    List.filterMap_nil, List.append_nil]

/-- the graph events of one definition -/
def defGEvs : Definition → List GEv
  | .frag f => .enterFrag f :: (recursiveSpreads f.sel).map GEv.spread ++ [.leaveFrag]
  | .op o => (recursiveSpreads o.sel).map GEv.spread

theorem gev_definition : ∀ x, (traverseDefinition x).filterMap gev = defGEvs x
  | .frag f => by
      simp only [traverseDefinition, defGEvs, List.filterMap_cons, List.filterMap_append, gev,
        (noGraph_directives f.dirs).filterMap, gev_selectionSet, List.filterMap_nil, List.nil_append]
      rfl
  | .op o => by
      simp only [traverseDefinition, defGEvs, List.filterMap_cons, List.filterMap_append, gev,
        (noGraph_directives o.dirs).filterMap, (noGraph_varDefs o.vars).filterMap, gev_selectionSet,
        List.filterMap_nil, List.nil_append, List.append_nil]

theorem gev_definitions : ∀ ds, (traverseDefinitions ds).filterMap gev = ds.flatMap defGEvs
  | [] => by simp [traverseDefinitions]
  | x :: ds => by
      simp only [traverseDefinitions, List.filterMap_append, gev_definition, gev_definitions ds, List.flatMap_cons]

/-- the graph events of a document -/
theorem gev_document (d : Document) : (traverseDocument d).filterMap gev = d.flatMap defGEvs ++ [.leaveDoc] := by
  simp only [traverseDocument, List.filterMap_cons, List.filterMap_append, gev, gev_definitions,
    List.filterMap_nil]

/-- a fold that reacts to graph events only is a fold over the graph events -/
theorem foldl_gev {σ : Type} (step : σ → Ev → σ) (g : σ → GEv → σ)
    (h : ∀ st e, step st e = match gev e with | some b => g st b | none => st) :
    ∀ (l : List Ev) (st : σ), l.foldl step st = (l.filterMap gev).foldl g st
  | [], _ => rfl
  | e :: l, st => by
      rw [List.foldl_cons, h, List.filterMap_cons]
      cases hg : gev e with
      | none => simpa using foldl_gev step g h l st
      | some b => simpa using foldl_gev step g h l (g st b)

end Gql
