/-
  Lemmas/FuelAdequate.lean — on documents without fragment cycles the executable spec with its
  own fuel is the fuel-free reading: `MergeViolatedEx s d ↔ MergeViolated s d`.
-/
import GqlVerif.Lemmas.NestFuel
import GqlVerif.Lemmas.MergeFinal
namespace Gql
open Gql.Spec

theorem subFields_stable (s : Schema) (d : Document) (hac : ¬ FragmentCycle d) (sf : Nat) (hsf : spreadFuelOf d ≤ sf) (a : AstAndDef) :
    subFields s d sf a = subFields s d (spreadFuelOf d) a :=
  specFields_stable s d hac _ _ sf hsf

/-- more spread fuel than the spec's own changes neither test -/
theorem srs_sf_stable (s : Schema) (d : Document) (hac : ¬ FragmentCycle d) (sf : Nat) (hsf : spreadFuelOf d ≤ sf) :
    ∀ (n : Nat) (a b : AstAndDef), sameResponseShape s d sf n a b = sameResponseShape s d (spreadFuelOf d) n a b
  | 0, _, _ => rfl
  | n + 1, a, b => by
      rw [srs_succ, srs_succ, subFields_stable s d hac sf hsf a, subFields_stable s d hac sf hsf b]
      congr 1
      exact allPairs_congr' _ _ _ (fun x _ y _ => srs_sf_stable s d hac sf hsf n x y)

theorem cm_sf_stable (s : Schema) (d : Document) (hac : ¬ FragmentCycle d) (sf : Nat) (hsf : spreadFuelOf d ≤ sf) :
    ∀ (n : Nat) (L : List AstAndDef), fieldsInSetCanMerge s d sf n L = fieldsInSetCanMerge s d (spreadFuelOf d) n L
  | 0, _ => rfl
  | n + 1, L => by
      rw [cm_succ, cm_succ]
      apply allPairs_congr'
      intro a _ b _
      simp only [pairOk]
      rw [srs_sf_stable s d hac sf hsf n a b, subFields_stable s d hac sf hsf a, subFields_stable s d hac sf hsf b,
        cm_sf_stable s d hac sf hsf n]

/-- the height of the collected fields of a selection set of the document stays below the spec's nesting fuel -/
theorem hL_specFields_lt (s : Schema) (d : Document) (hac : ¬ FragmentCycle d) (sf : Nat) (parent : Option TypeDef)
    (sel : List Selection) (hsel : selsDepth sel ≤ docDepth d) : hL d (specFields s d sf parent sel) < nestFuelOf d := by
  have h1 : hL d (specFields s d sf parent sel) ≤ Hs d sel :=
    hL_le d _ _ (fun a ha' => descent s d hac sf parent sel a ha')
  have h2 := Hs_bound d sel
  unfold nestFuelOf
  have : (docDepth d + 1) * (d.fragments.length + 2) = docDepth d * (d.fragments.length + 2) + (d.fragments.length + 2) :=
    Nat.succ_mul _ _
  have h3 : (d.fragments.length + 1) * docDepth d = docDepth d * (d.fragments.length + 1) := Nat.mul_comm _ _
  have h4 : docDepth d * (d.fragments.length + 2) = docDepth d * (d.fragments.length + 1) + docDepth d := Nat.mul_succ _ _
  omega

/-- **the fuel of the executable spec is adequate**: on a document without fragment cycles, some
    deeper unrolling of FieldsInSetCanMerge fails iff the one with the spec's own fuel does -/
theorem violatedEx_iff_of_acyclic (s : Schema) (d : Document) (hq : s.queryType.isSome = true) (hac : ¬ FragmentCycle d) :
    MergeViolatedEx s d ↔ MergeViolated s d := by
  constructor
  · rintro ⟨sf, nf, hsf, hnf, sel, env, hm, hf⟩
    refine ⟨sel, env, hm, ?_⟩
    have hsel : selsDepth sel ≤ docDepth d := selset_depth_document d sel (enter_of_walk s d hq hm)
    rw [specFields_stable s d hac env.parent sel sf hsf, cm_sf_stable s d hac sf hsf] at hf
    have hlt := hL_specFields_lt s d hac (spreadFuelOf d) env.parent sel hsel
    rw [cm_stable s d hac (spreadFuelOf d) _ _ (Nat.le_refl _) (nestFuelOf d) nf hlt (by omega)]
    exact hf
  · exact mergeViolatedEx_of_violated s d

end Gql
