/-
  Lemmas/Visit.lean — the stack machine of Model/Visitor is lexical scoping:
  every traversal function returns the stacks it was given and makes exactly the callbacks of
  the environment-passing `walk*` of Spec/Walk, started from the current answers.
-/
import GqlVerif.Spec.Walk
namespace Gql

@[simp] theorem snap_pushInput (s : Schema) (t : Option Ty) (st : Stacks) :
    ({ st with inp := s.resolve t :: st.inp, inpLit := t :: st.inpLit } : Stacks).snap
      = st.snap.withInput s t := by
  simp [Stacks.snap, Snap.withInput, top]

@[simp] theorem snap_pushType (s : Schema) (t : Option Ty) (st : Stacks) :
    ({ st with ty := s.resolve t :: st.ty, tyLit := t :: st.tyLit } : Stacks).snap
      = st.snap.withType s t := by
  simp [Stacks.snap, Snap.withType, top]

@[simp] theorem snap_pushParent (st : Stacks) :
    ({ st with parent := top st.ty :: st.parent } : Stacks).snap = st.snap.withParent := by
  simp [Stacks.snap, Snap.withParent, top]

@[simp] theorem snap_pushField (f : Option FieldDef) (st : Stacks) :
    ({ st with field := f :: st.field } : Stacks).snap = st.snap.withField f := by
  simp [Stacks.snap, Snap.withField, top]

@[simp] theorem snap_inpLit (st : Stacks) : st.snap.inpLit = top st.inpLit := rfl
@[simp] theorem snap_parent (st : Stacks) : st.snap.parent = top st.parent := rfl

/-- A traversal step "is lexical" when it restores the stacks and its callbacks are `t`
    applied to the answers at entry. -/
def Lexical (v : V) (t : Snap → Trace) : Prop := ∀ st, v st = (st, t st.snap)

theorem Lexical.skip : Lexical V.skip (fun _ => []) := fun _ => rfl

theorem Lexical.emit (e : Ev) : Lexical (emit e) (fun sn => [(e, sn)]) := fun _ => rfl

theorem Lexical.seq {a b : V} {ta tb : Snap → Trace} (ha : Lexical a ta) (hb : Lexical b tb) :
    Lexical (a ⨾ b) (fun sn => ta sn ++ tb sn) := by
  intro st; simp [V.seq, ha st, hb st]

theorem Lexical.withInputType (s : Schema) (t : Option Ty) {b : V} {tb : Snap → Trace}
    (hb : Lexical b tb) : Lexical (withInputType s t b) (fun sn => tb (sn.withInput s t)) := by
  intro st; simp [Gql.withInputType, hb _]

theorem Lexical.withType (s : Schema) (t : Option Ty) {b : V} {tb : Snap → Trace}
    (hb : Lexical b tb) : Lexical (withType s t b) (fun sn => tb (sn.withType s t)) := by
  intro st; simp [Gql.withType, hb _]

theorem Lexical.withParentType {b : V} {tb : Snap → Trace}
    (hb : Lexical b tb) : Lexical (withParentType b) (fun sn => tb sn.withParent) := by
  intro st; simp [Gql.withParentType, hb _]

theorem Lexical.withField (f : Option FieldDef) {b : V} {tb : Snap → Trace}
    (hb : Lexical b tb) : Lexical (withField f b) (fun sn => tb (sn.withField f)) := by
  intro st; simp [Gql.withField, hb _]

mutual
theorem visitValue_lexical (s : Schema) : ∀ v, Lexical (visitValue s v) (fun sn => walkValue s sn v)
  | .bool b => by intro st; simp [visitValue, walkValue, V.seq, emit]
  | .float f => by intro st; simp [visitValue, walkValue, V.seq, emit]
  | .int i => by intro st; simp [visitValue, walkValue, V.seq, emit]
  | .str x => by intro st; simp [visitValue, walkValue, V.seq, emit]
  | .null => by intro st; simp [visitValue, walkValue, V.seq, emit]
  | .enum n => by intro st; simp [visitValue, walkValue, V.seq, emit]
  | .var n => by intro st; simp [visitValue, walkValue, V.seq, emit]
  | .list vs => by
      intro st
      have h := visitValues_lexical s vs
      simp [visitValue, walkValue, V.seq, emit, Gql.withInputType, h _]
  | .obj fs => by
      intro st
      have h := visitObjFields_lexical s fs
      simp [visitValue, walkValue, V.seq, emit, h _]
theorem visitValues_lexical (s : Schema) : ∀ vs, Lexical (visitValues s vs) (fun sn => walkValues s sn vs)
  | [] => by intro st; simp [visitValues, walkValues, V.skip]
  | v :: vs => by
      intro st
      have h1 := visitValue_lexical s v
      have h2 := visitValues_lexical s vs
      simp [visitValues, walkValues, V.seq, h1 _, h2 _]
theorem visitObjFields_lexical (s : Schema) :
    ∀ fs, Lexical (visitObjFields s fs) (fun sn => walkObjFields s sn fs)
  | [] => by intro st; simp [visitObjFields, walkObjFields, V.skip]
  | (k, v) :: fs => by
      intro st
      have h1 := visitValue_lexical s v
      have h2 := visitObjFields_lexical s fs
      simp [visitObjFields, walkObjFields, V.seq, emit, Gql.withInputType, h1 _, h2 _]
end

theorem visitArguments_lexical (s : Schema) (defs : Option (List InputValueDef)) :
    ∀ as, Lexical (visitArguments s defs as) (fun sn => walkArguments s defs sn as)
  | [] => by intro st; simp [visitArguments, walkArguments, V.skip]
  | a :: as => by
      intro st
      have h1 := visitValue_lexical s a.2
      have h2 := visitArguments_lexical s defs as
      simp [visitArguments, walkArguments, V.seq, emit, Gql.withInputType, h1 _, h2 _]

theorem visitDirectives_lexical (s : Schema) :
    ∀ ds, Lexical (visitDirectives s ds) (fun sn => walkDirectives s sn ds)
  | [] => by intro st; simp [visitDirectives, walkDirectives, V.skip]
  | d :: ds => by
      intro st
      have h1 := visitArguments_lexical s ((s.directiveByName d.name).map (·.args)) d.args
      have h2 := visitDirectives_lexical s ds
      simp [visitDirectives, walkDirectives, V.seq, emit, h1 _, h2 _]

theorem visitVariableDefinitions_lexical (s : Schema) :
    ∀ vs, Lexical (visitVariableDefinitions s vs) (fun sn => walkVarDefs s sn vs)
  | [] => by intro st; simp [visitVariableDefinitions, walkVarDefs, V.skip]
  | v :: vs => by
      intro st
      have h2 := visitVariableDefinitions_lexical s vs
      cases hd : v.default with
      | none => simp [visitVariableDefinitions, walkVarDefs, V.seq, V.skip, emit, Gql.withInputType, hd, h2 _]
      | some dv =>
        have h1 := visitValue_lexical s dv
        simp [visitVariableDefinitions, walkVarDefs, V.seq, emit, Gql.withInputType, hd, h1 _, h2 _]

theorem Lexical.selectionSetWith (sel : List Selection) {items : V} {t : Snap → Trace}
    (h : Lexical items t) :
    Lexical (selectionSetWith sel items) (fun sn => walkSelectionSetWith sn sel t) := by
  intro st
  have h' := Lexical.withParentType (Lexical.seq (Lexical.emit (.enter (.selectionSet sel)))
    (Lexical.seq h (Lexical.emit (.leave (.selectionSet sel))))) st
  simpa [Gql.selectionSetWith, walkSelectionSetWith] using h'

mutual
theorem visitSelection_lexical (s : Schema) :
    ∀ x, Lexical (visitSelection s x) (fun sn => walkSelection s sn x)
  | .field pos alias name args dirs sel => by
      intro st
      have h := Lexical.withType s (((top st.parent).bind (·.fieldByName name)).map (·.ty))
        (Lexical.seq (Lexical.emit (.enter (.field ⟨pos, alias, name, args, dirs, sel⟩)))
          (Lexical.seq (Lexical.withField ((top st.parent).bind (·.fieldByName name))
              (Lexical.seq (visitArguments_lexical s
                    (((top st.parent).bind (·.fieldByName name)).map (·.args)) args)
                (Lexical.seq (visitDirectives_lexical s dirs)
                  (Lexical.selectionSetWith sel (visitSelections_lexical s sel)))))
            (Lexical.emit (.leave (.field ⟨pos, alias, name, args, dirs, sel⟩))))) st
      simpa [visitSelection, walkSelection] using h
  | .spread pos name dirs => by
      intro st
      have hd := visitDirectives_lexical s dirs
      simp [visitSelection, walkSelection, V.seq, emit, hd _]
  | .inline pos tc dirs sel => by
      intro st
      have hb := Lexical.seq (Lexical.emit (.enter (.inline ⟨pos, tc, dirs, sel⟩)))
        (Lexical.seq (visitDirectives_lexical s dirs)
          (Lexical.seq (Lexical.selectionSetWith sel (visitSelections_lexical s sel))
            (Lexical.emit (.leave (.inline ⟨pos, tc, dirs, sel⟩)))))
      cases tc with
      | none => simpa [visitSelection, walkSelection] using hb st
      | some c => simpa [visitSelection, walkSelection] using (Lexical.withType s (some (.named c)) hb) st
theorem visitSelections_lexical (s : Schema) :
    ∀ xs, Lexical (visitSelections s xs) (fun sn => walkSelections s sn xs)
  | [] => by intro st; simp [visitSelections, walkSelections, V.skip]
  | x :: xs => by
      intro st
      have h1 := visitSelection_lexical s x
      have h2 := visitSelections_lexical s xs
      simp [visitSelections, walkSelections, V.seq, h1 _, h2 _]
end

theorem visitSelectionSet_lexical (s : Schema) (sel : List Selection) :
    Lexical (visitSelectionSet s sel) (fun sn => walkSelectionSet s sn sel) :=
  Lexical.selectionSetWith sel (visitSelections_lexical s sel)

theorem visitFragmentDefinition_lexical (s : Schema) (f : FragDef) :
    Lexical (visitFragmentDefinition s f)
      (fun sn => (.enter (.fragmentDef f), sn) :: walkDirectives s sn f.dirs ++ walkSelectionSet s sn f.sel
        ++ [(.leave (.fragmentDef f), sn)]) := by
  intro st
  have h := Lexical.seq (Lexical.emit (.enter (.fragmentDef f)))
    (Lexical.seq (visitDirectives_lexical s f.dirs)
      (Lexical.seq (visitSelectionSet_lexical s f.sel) (Lexical.emit (.leave (.fragmentDef f))))) st
  simpa [visitFragmentDefinition] using h

theorem visitOperationDefinition_lexical (s : Schema) (o : Operation) :
    Lexical (visitOperationDefinition s o)
      (fun sn => (.enter (.operation o), sn) :: walkDirectives s sn o.dirs ++ walkVarDefs s sn o.vars
          ++ walkSelectionSet s sn o.sel ++ [(.leave (.operation o), sn)]) := by
  intro st
  have h := Lexical.seq (Lexical.emit (.enter (.operation o)))
    (Lexical.seq (visitDirectives_lexical s o.dirs)
      (Lexical.seq (visitVariableDefinitions_lexical s o.vars)
        (Lexical.seq (visitSelectionSet_lexical s o.sel) (Lexical.emit (.leave (.operation o)))))) st
  simpa [visitOperationDefinition] using h

/-- Lexicality for the partial (may-panic) top level. -/
def OptLexical (ov : Option V) (ot : Snap → Option Trace) : Prop :=
  match ov with
  | none => ∀ e, ot e = none
  | some v => ∀ st, ∃ t, ot st.snap = some t ∧ v st = (st, t)

theorem visitDefinitions_lexical (s : Schema) :
    ∀ ds, OptLexical (visitDefinitions s ds) (fun e => walkDefinitions s e ds)
  | [] => by simp [OptLexical, visitDefinitions, walkDefinitions, V.skip]
  | .frag f :: rest => by
      have ih := visitDefinitions_lexical s rest
      have hf := Lexical.withType s (some (.named f.tc)) (visitFragmentDefinition_lexical s f)
      cases hr : visitDefinitions s rest with
      | none =>
        rw [hr] at ih
        simp [OptLexical, visitDefinitions, walkDefinitions, hr] at ih ⊢
        intro e; simp [ih e]
      | some k =>
        rw [hr] at ih
        simp only [OptLexical, visitDefinitions, hr, Option.map_some] at ih ⊢
        intro st
        obtain ⟨t, ht, hk⟩ := ih st
        refine ⟨((withType s (some (.named f.tc)) (visitFragmentDefinition s f) ⨾ k) st).2, ?_, ?_⟩ <;>
          simp [V.seq, hf st, hk, walkDefinitions, walkDefinition, ht]
  | .op o :: rest => by
      have ih := visitDefinitions_lexical s rest
      cases hroot : rootTypeName s o.kind with
      | none =>
        simp [OptLexical, visitDefinitions, walkDefinitions, walkDefinition, hroot]
      | some tn =>
        have ho := Lexical.withType s (tn.map .named) (visitOperationDefinition_lexical s o)
        cases hr : visitDefinitions s rest with
        | none =>
          rw [hr] at ih
          simp [OptLexical, visitDefinitions, walkDefinitions, hr, hroot] at ih ⊢
          intro e; simp [ih e]
        | some k =>
          rw [hr] at ih
          simp only [OptLexical, visitDefinitions, hr, hroot, Option.map_some] at ih ⊢
          intro st
          obtain ⟨t, ht, hk⟩ := ih st
          refine ⟨((withType s (tn.map .named) (visitOperationDefinition s o) ⨾ k) st).2, ?_, ?_⟩ <;>
            simp [V.seq, ho st, hk, walkDefinitions, walkDefinition, hroot, ht]

theorem visitDocument_lexical (s : Schema) (d : Document) :
    OptLexical (visitDocument s d) (fun e => walkDocument s e d) := by
  have h := visitDefinitions_lexical s d
  cases hr : visitDefinitions s d with
  | none =>
    rw [hr] at h
    simp [OptLexical, visitDocument, walkDocument, hr] at h ⊢
    exact h
  | some k =>
    rw [hr] at h
    simp only [OptLexical, visitDocument, hr, Option.map_some] at h ⊢
    intro st
    obtain ⟨t, ht, hk⟩ := h st
    refine ⟨((emit (.enter (.document d)) ⨾ k ⨾ emit (.leave (.document d))) st).2, ?_, ?_⟩ <;>
      simp [V.seq, emit, hk, walkDocument, ht]

end Gql
