/-
  Lemmas/MergeFinal.lean — from a finite witness (`PairBad`, between two fields a visited
  selection set collects) to a failure of the spec's executable FieldsInSetCanMerge at some fuel,
  for some visited selection set.  Needs: argument names unique per field (so that "identical
  arguments" is symmetric and reflexive), declared inline type conditions.
-/
import GqlVerif.Lemmas.MergeSound
import GqlVerif.Lemmas.MergeVisitedAll
namespace Gql
open Gql.Spec

/-! ### identical arguments, when names are unique -/

def ArgsOk (a : AstAndDef) : Prop := (a.field.args.map (·.1)).Nodup

theorem find_by_name : ∀ (l : List Arg), (l.map (·.1)).Nodup → ∀ p ∈ l, ∀ k : Name, p.1 = k →
    l.find? (fun q => k == q.1) = some p
  | [], _, p, hp, _, _ => by simp at hp
  | q :: rest, hn, p, hp, k, hk => by
      simp only [List.map_cons, List.nodup_cons] at hn
      rcases List.mem_cons.1 hp with rfl | hp
      · simp [List.find?_cons, hk]
      · have hne : ¬ k = q.1 := by
          intro e
          apply hn.1
          rw [← e, ← hk]
          exact List.mem_map.2 ⟨p, hp, rfl⟩
        have hb : (k == q.1) = false := beq_eq_false_iff_ne.2 hne
        simp only [List.find?_cons, hb]
        exact find_by_name rest hn.2 p hp k hk

theorem identicalArguments_refl (a : List Arg) (hn : (a.map (·.1)).Nodup) : identicalArguments a a = true := by
  rw [← C05.sameArguments_eq, C05.sameArguments_iff]
  exact ⟨rfl, fun p hp => ⟨p, find_by_name a hn p hp p.1 rfl, rfl⟩⟩

theorem subset_of_nodup_length {l m : List Name} (hl : l.Nodup) (hsub : l ⊆ m) (hlen : m.length ≤ l.length) : m ⊆ l := by
  intro y hy
  apply Classical.byContradiction
  intro hny
  have hsub' : l ⊆ m.erase y := by
    intro x hx
    have hxy : x ≠ y := fun e => hny (e ▸ hx)
    exact (List.mem_erase_of_ne hxy).2 (hsub hx)
  have h1 := hl.length_le_of_subset hsub'
  have h2 : (m.erase y).length = m.length - 1 := by rw [List.length_erase]; simp [hy]
  have h3 : 1 ≤ m.length := List.length_pos_of_mem hy
  omega

theorem identicalArguments_symm (a b : List Arg) (ha : (a.map (·.1)).Nodup) (hb : (b.map (·.1)).Nodup)
    (h : identicalArguments a b = true) : identicalArguments b a = true := by
  rw [← C05.sameArguments_eq, C05.sameArguments_iff] at h ⊢
  obtain ⟨hl, hall⟩ := h
  refine ⟨hl.symm, fun q hq => ?_⟩
  -- every name of `a` is a name of `b`
  have hsub : a.map (·.1) ⊆ b.map (·.1) := by
    intro k hk
    obtain ⟨p, hp, rfl⟩ := List.mem_map.1 hk
    obtain ⟨q', hq', _⟩ := hall p hp
    have hm := List.mem_of_find?_eq_some hq'
    have hk' := List.find?_some hq'
    simp only [beq_iff_eq] at hk'
    exact List.mem_map.2 ⟨q', hm, hk'.symm⟩
  have hsup : b.map (·.1) ⊆ a.map (·.1) := subset_of_nodup_length ha hsub (by simp [hl])
  obtain ⟨p, hp, hpk⟩ := List.mem_map.1 (hsup (List.mem_map.2 ⟨q, hq, rfl⟩))
  refine ⟨p, find_by_name a ha p hp q.1 hpk, ?_⟩
  obtain ⟨q', hq', he⟩ := hall p hp
  have : b.find? (fun x => p.1 == x.1) = some q := find_by_name b hb q hq p.1 hpk.symm
  rw [this] at hq'
  cases hq'
  exact he.symm

theorem identicalArguments_false_symm (a b : List Arg) (ha : (a.map (·.1)).Nodup) (hb : (b.map (·.1)).Nodup)
    (h : identicalArguments a b = false ∨ identicalArguments b a = false) : identicalArguments a b = false := by
  rcases h with h | h
  · exact h
  · cases h' : identicalArguments a b with
    | false => rfl
    | true => rw [identicalArguments_symm a b ha hb h'] at h; cases h

theorem shapesAgree_refl (s : Schema) : ∀ t : Ty, shapesAgree s t t = true
  | .named x => by simp [shapesAgree]
  | .list t => by simp [shapesAgree, shapesAgree_refl s t]
  | .nonNull t => by simp [shapesAgree, shapesAgree_refl s t]

theorem typesAgree_refl (s : Schema) (a : AstAndDef) : typesAgree s a a = true := by
  unfold typesAgree
  cases a.fdef <;> simp [shapesAgree_refl]

/-! ### failing pairs in a list -/

theorem allPairs_false_of_pairwise (p : AstAndDef → AstAndDef → Bool) (L : List AstAndDef)
    (h : ¬ L.Pairwise (fun a b => keyOf a = keyOf b → p a b = true)) : allPairs p L = false := by
  cases h' : allPairs p L with
  | false => rfl
  | true => exact absurd ((allPairs_iff p L).1 h') h

/-- a failing pair across a concatenation -/
theorem allPairs_false_cross (p : AstAndDef → AstAndDef → Bool) (A B : List AstAndDef) (x y : AstAndDef)
    (hx : x ∈ A) (hy : y ∈ B) (hk : keyOf x = keyOf y) (hp : p x y = false) : allPairs p (A ++ B) = false := by
  apply allPairs_false_of_pairwise
  intro hpw
  rw [List.pairwise_append] at hpw
  have := hpw.2.2 x hx y hy hk
  rw [hp] at this; cases this

theorem pairwise_mem_ne {α : Type} {R : α → α → Prop} : ∀ {L : List α}, L.Pairwise R → ∀ a ∈ L, ∀ b ∈ L, a ≠ b → R a b ∨ R b a
  | [], _, a, ha, _, _, _ => by simp at ha
  | x :: xs, h, a, ha, b, hb, hne => by
      rw [List.pairwise_cons] at h
      rcases List.mem_cons.1 ha with rfl | ha'
      · rcases List.mem_cons.1 hb with rfl | hb'
        · exact absurd rfl hne
        · exact Or.inl (h.1 b hb')
      · rcases List.mem_cons.1 hb with rfl | hb'
        · exact Or.inr (h.1 a ha')
        · exact pairwise_mem_ne h.2 a ha' b hb' hne

/-- two different same-key members failing the test in both orders -/
theorem allPairs_false_mem (p : AstAndDef → AstAndDef → Bool) (L : List AstAndDef) (a b : AstAndDef)
    (ha : a ∈ L) (hb : b ∈ L) (hne : a ≠ b) (hk : keyOf a = keyOf b) (h1 : p a b = false) (h2 : p b a = false) :
    allPairs p L = false := by
  apply allPairs_false_of_pairwise
  intro hpw
  rcases pairwise_mem_ne hpw a ha b hb hne with h | h
  · have := h hk; rw [h1] at this; cases this
  · have := h hk.symm; rw [h2] at this; cases this

/-! ### "false from some fuel on" -/

/-- `f sf nf` is false whenever both fuels are large enough -/
def EvF (f : Nat → Nat → Bool) : Prop := ∃ s0 n0, ∀ sf nf, s0 ≤ sf → n0 ≤ nf → f sf nf = false

theorem EvF.const {f : Nat → Nat → Bool} (h : ∀ sf nf, f sf nf = false) : EvF f := ⟨0, 0, fun sf nf _ _ => h sf nf⟩

theorem EvF.mono {f g : Nat → Nat → Bool} (h : EvF f) (hfg : ∀ sf nf, f sf nf = false → g sf nf = false) : EvF g := by
  obtain ⟨s0, n0, hf⟩ := h
  exact ⟨s0, n0, fun sf nf h1 h2 => hfg sf nf (hf sf nf h1 h2)⟩

theorem subFields_mono_le (s : Schema) (d : Document) (a : AstAndDef) {n m : Nat} (h : n ≤ m) :
    subFields s d n a ⊆ subFields s d m a := specFields_mono_le s d _ _ h

/-- a failing cross pair below two fields makes FieldsInSetCanMerge fail on their merged sub-selections -/
theorem evf_cm_cross (s : Schema) (d : Document) (a b x y : AstAndDef) (hx : MemSub s d a x) (hy : MemSub s d b y)
    (hk : keyOf x = keyOf y) (h : EvF (fun sf nf => pairOk s d sf nf x y)) :
    EvF (fun sf nf => fieldsInSetCanMerge s d sf nf (subFields s d sf a ++ subFields s d sf b)) := by
  obtain ⟨s0, n0, hf⟩ := h
  obtain ⟨nx, hx⟩ := hx
  obtain ⟨ny, hy⟩ := hy
  refine ⟨max s0 (max nx ny), n0 + 1, fun sf nf h1 h2 => ?_⟩
  obtain ⟨m, rfl⟩ : ∃ m, nf = m + 1 := ⟨nf - 1, by omega⟩
  show fieldsInSetCanMerge s d sf (m + 1) (subFields s d sf a ++ subFields s d sf b) = false
  rw [cm_succ]
  exact allPairs_false_cross _ _ _ x y (subFields_mono_le s d a (by omega) hx) (subFields_mono_le s d b (by omega) hy) hk
    (hf sf m (by omega) (by omega))

theorem evf_srs_cross (s : Schema) (d : Document) (a b x y : AstAndDef) (hx : MemSub s d a x) (hy : MemSub s d b y)
    (hk : keyOf x = keyOf y) (h : EvF (fun sf nf => sameResponseShape s d sf nf x y)) :
    EvF (fun sf nf => sameResponseShape s d sf nf a b) := by
  obtain ⟨s0, n0, hf⟩ := h
  obtain ⟨nx, hx⟩ := hx
  obtain ⟨ny, hy⟩ := hy
  refine ⟨max s0 (max nx ny), n0 + 1, fun sf nf h1 h2 => ?_⟩
  obtain ⟨m, rfl⟩ : ∃ m, nf = m + 1 := ⟨nf - 1, by omega⟩
  show sameResponseShape s d sf (m + 1) a b = false
  rw [srs_succ]
  have : allPairs (sameResponseShape s d sf m) (subFields s d sf a ++ subFields s d sf b) = false :=
    allPairs_false_cross _ _ _ x y (subFields_mono_le s d a (by omega) hx) (subFields_mono_le s d b (by omega) hy) hk
      (hf sf m (by omega) (by omega))
  simp [this]

/-- SameResponseShape fails from some fuel on -/
theorem conv_shape (s : Schema) (d : Document) {a b : AstAndDef} (h : ShapeBad s d a b) :
    EvF (fun sf nf => sameResponseShape s d sf nf a b) := by
  induction h with
  | types ht =>
    refine ⟨0, 1, fun sf nf _ h2 => ?_⟩
    obtain ⟨m, rfl⟩ : ∃ m, nf = m + 1 := ⟨nf - 1, by omega⟩
    show sameResponseShape s d sf (m + 1) _ _ = false
    rw [srs_succ, ht]; rfl
  | nested hx hy hk _ ih => exact evf_srs_cross s d _ _ _ _ hx hy hk ih

theorem pairOk_of_shape (s : Schema) (d : Document) (a b : AstAndDef) (sf nf : Nat)
    (h : sameResponseShape s d sf nf a b = false) : pairOk s d sf nf a b = false := by
  simp [pairOk, h]

/-- what the conversion needs to know about a field: its own selection set is visited on the
    right type, and its argument names are unique -/
def RegF (s : Schema) (d : Document) (a : AstAndDef) : Prop := Reg s d (subParent s a) a.field.sel ∧ ArgsOk a

/-- argument names are unique on every field the walk enters -/
def ArgsUniq (s : Schema) (d : Document) : Prop :=
  ∀ f env, (Ev.enter (.field f), env) ∈ walkOf s d → (f.args.map (·.1)).Nodup

theorem regF_of_mem (s : Schema) (d : Document) (hq : s.queryType.isSome = true) (htc : TcKnown s d) (hu : ArgsUniq s d)
    (parent : Option TypeDef) (sel : List Selection) (hr : Reg s d parent sel) (a : AstAndDef) (ha : Mem s d parent sel a) :
    RegF s d a := by
  obtain ⟨h1, env, h2⟩ := reg_sub s d hq htc parent sel hr a ha
  exact ⟨h1, hu _ env h2⟩

theorem regF_sub (s : Schema) (d : Document) (hq : s.queryType.isSome = true) (htc : TcKnown s d) (hu : ArgsUniq s d)
    {a x : AstAndDef} (ha : RegF s d a) (hx : MemSub s d a x) : RegF s d x :=
  regF_of_mem s d hq htc hu _ _ ha.1 x hx

/-- the pair test fails from some fuel on, in both orders -/
theorem conv_pair (s : Schema) (d : Document) (hq : s.queryType.isSome = true) (htc : TcKnown s d) (hu : ArgsUniq s d)
    {a b : AstAndDef} (h : PairBad s d a b) : RegF s d a → RegF s d b →
    EvF (fun sf nf => pairOk s d sf nf a b) ∧ EvF (fun sf nf => pairOk s d sf nf b a) := by
  induction h with
  | shape hs =>
    intro _ _
    exact ⟨(conv_shape s d hs).mono (fun sf nf h => pairOk_of_shape s d _ _ sf nf h),
           (conv_shape s d hs.symm).mono (fun sf nf h => pairOk_of_shape s d _ _ sf nf h)⟩
  | @name a b hp hn =>
    intro _ _
    have hp' : parentsMayCoincide b a = true := by rw [parentsMayCoincide_comm]; exact hp
    have hn' : (b.field.name == a.field.name) = false := by
      simp only [beq_eq_false_iff_ne, ne_eq] at hn ⊢
      exact fun e => hn e.symm
    exact ⟨EvF.const (fun sf nf => by simp [pairOk, hp, hn]), EvF.const (fun sf nf => by simp [pairOk, hp', hn'])⟩
  | @args a b hp hargs =>
    intro ra rb
    have hp' : parentsMayCoincide b a = true := by rw [parentsMayCoincide_comm]; exact hp
    have h1 := identicalArguments_false_symm _ _ ra.2 rb.2 hargs
    have h2 := identicalArguments_false_symm _ _ rb.2 ra.2 hargs.symm
    exact ⟨EvF.const (fun sf nf => by simp [pairOk, hp, h1]), EvF.const (fun sf nf => by simp [pairOk, hp', h2])⟩
  | @nested a b x y hp hx hy hk _ ih =>
    intro ra rb
    have hp' : parentsMayCoincide b a = true := by rw [parentsMayCoincide_comm]; exact hp
    obtain ⟨i1, i2⟩ := ih (regF_sub s d hq htc hu ra hx) (regF_sub s d hq htc hu rb hy)
    exact ⟨(evf_cm_cross s d a b x y hx hy hk i1).mono (fun sf nf h => by simp [pairOk, hp, h]),
           (evf_cm_cross s d b a y x hy hx hk.symm i2).mono (fun sf nf h => by simp [pairOk, hp', h])⟩
  | @nestedSwap a b x y hp hx hy hk _ ih =>
    intro ra rb
    have hp' : parentsMayCoincide b a = true := by rw [parentsMayCoincide_comm]; exact hp
    obtain ⟨i1, i2⟩ := ih (regF_sub s d hq htc hu rb hy) (regF_sub s d hq htc hu ra hx)
    exact ⟨(evf_cm_cross s d a b x y hx hy hk i2).mono (fun sf nf h => by simp [pairOk, hp, h]),
           (evf_cm_cross s d b a y x hy hx hk.symm i1).mono (fun sf nf h => by simp [pairOk, hp', h])⟩

/-! ### the fuel-free reading of 5.3.2 and the descent -/

/-- some finite unrolling of FieldsInSetCanMerge - at least as deep as the executable spec's own
    fuel - fails for some selection set of the document -/
def MergeViolatedEx (s : Schema) (d : Document) : Prop :=
  ∃ sf nf, spreadFuelOf d ≤ sf ∧ nestFuelOf d ≤ nf ∧ ∃ sel env, (Ev.enter (.selectionSet sel), env) ∈ walkOf s d ∧
    fieldsInSetCanMerge s d sf nf (specFields s d sf env.parent sel) = false

theorem mergeViolatedEx_of_violated (s : Schema) (d : Document) (h : MergeViolated s d) : MergeViolatedEx s d := by
  obtain ⟨sel, env, hm, hf⟩ := h
  exact ⟨_, _, Nat.le_refl _, Nat.le_refl _, sel, env, hm, hf⟩

/-- two different members of a visited set whose test fails in both orders -/
theorem violated_of_two (s : Schema) (d : Document) (parent : Option TypeDef) (sel : List Selection) (hr : Reg s d parent sel)
    (a b : AstAndDef) (ha : Mem s d parent sel a) (hb : Mem s d parent sel b) (hne : a ≠ b) (hk : keyOf a = keyOf b)
    (h1 : EvF (fun sf nf => pairOk s d sf nf a b)) (h2 : EvF (fun sf nf => pairOk s d sf nf b a)) : MergeViolatedEx s d := by
  obtain ⟨env, hm, rfl⟩ := hr
  obtain ⟨na, ha⟩ := ha
  obtain ⟨nb, hb⟩ := hb
  obtain ⟨s1, n1, f1⟩ := h1
  obtain ⟨s2, n2, f2⟩ := h2
  refine ⟨max (max (max na nb) (max s1 s2)) (spreadFuelOf d), max (max n1 n2) (nestFuelOf d) + 1, by omega, by omega, sel, env, hm, ?_⟩
  rw [cm_succ]
  exact allPairs_false_mem _ _ a b (specFields_mono_le s d _ _ (by omega) ha) (specFields_mono_le s d _ _ (by omega) hb) hne hk
    (f1 _ _ (by omega) (by omega)) (f2 _ _ (by omega) (by omega))

/-- SameResponseShape failing between two collected fields of a visited set -/
theorem shape_descent (s : Schema) (d : Document) (hq : s.queryType.isSome = true) (htc : TcKnown s d)
    {a b : AstAndDef} (h : ShapeBad s d a b) : ∀ parent sel, Reg s d parent sel → Mem s d parent sel a → Mem s d parent sel b →
      keyOf a = keyOf b → MergeViolatedEx s d := by
  induction h with
  | @types a b ht =>
    intro parent sel hr ha hb hk
    by_cases hne : a = b
    · subst hne; rw [typesAgree_refl] at ht; cases ht
    · have hs : ShapeBad s d a b := .types ht
      exact violated_of_two s d parent sel hr a b ha hb hne hk
        ((conv_shape s d hs).mono (fun sf nf h => pairOk_of_shape s d _ _ sf nf h))
        ((conv_shape s d hs.symm).mono (fun sf nf h => pairOk_of_shape s d _ _ sf nf h))
  | @nested a b x y hx hy hkxy hxy ih =>
    intro parent sel hr ha hb hk
    by_cases hne : a = b
    · subst hne
      exact ih _ _ (reg_sub s d hq htc parent sel hr a ha).1 hx hy hkxy
    · have hs : ShapeBad s d a b := .nested hx hy hkxy hxy
      exact violated_of_two s d parent sel hr a b ha hb hne hk
        ((conv_shape s d hs).mono (fun sf nf h => pairOk_of_shape s d _ _ sf nf h))
        ((conv_shape s d hs.symm).mono (fun sf nf h => pairOk_of_shape s d _ _ sf nf h))

/-- **a failing pair test between two collected fields of a visited selection set makes some
    visited selection set fail FieldsInSetCanMerge** -/
theorem pair_descent (s : Schema) (d : Document) (hq : s.queryType.isSome = true) (htc : TcKnown s d) (hu : ArgsUniq s d)
    {a b : AstAndDef} (h : PairBad s d a b) : ∀ parent sel, Reg s d parent sel → Mem s d parent sel a → Mem s d parent sel b →
      keyOf a = keyOf b → MergeViolatedEx s d := by
  have two : ∀ {a b : AstAndDef}, PairBad s d a b → ∀ parent sel, Reg s d parent sel → Mem s d parent sel a → Mem s d parent sel b →
      a ≠ b → keyOf a = keyOf b → MergeViolatedEx s d := by
    intro a b h parent sel hr ha hb hne hk
    obtain ⟨c1, c2⟩ := conv_pair s d hq htc hu h (regF_of_mem s d hq htc hu parent sel hr a ha) (regF_of_mem s d hq htc hu parent sel hr b hb)
    exact violated_of_two s d parent sel hr a b ha hb hne hk c1 c2
  induction h with
  | @shape a b hs => exact shape_descent s d hq htc hs
  | @name a b hp hn =>
    intro parent sel hr ha hb hk
    by_cases hne : a = b
    · subst hne; simp at hn
    · exact two (.name hp hn) parent sel hr ha hb hne hk
  | @args a b hp hargs =>
    intro parent sel hr ha hb hk
    by_cases hne : a = b
    · subst hne
      have := identicalArguments_refl a.field.args (regF_of_mem s d hq htc hu parent sel hr a ha).2
      rcases hargs with h | h <;> (rw [this] at h; cases h)
    · exact two (.args hp hargs) parent sel hr ha hb hne hk
  | @nested a b x y hp hx hy hkxy hxy ih =>
    intro parent sel hr ha hb hk
    by_cases hne : a = b
    · subst hne
      exact ih _ _ (reg_sub s d hq htc parent sel hr a ha).1 hx hy hkxy
    · exact two (.nested hp hx hy hkxy hxy) parent sel hr ha hb hne hk
  | @nestedSwap a b x y hp hx hy hkxy hyx ih =>
    intro parent sel hr ha hb hk
    by_cases hne : a = b
    · subst hne
      exact ih _ _ (reg_sub s d hq htc parent sel hr a ha).1 hy hx hkxy.symm
    · exact two (.nestedSwap hp hx hy hkxy hyx) parent sel hr ha hb hne hk

/-- **Soundness of the field-merging rule, for documents with fragment spreads**: whenever the
    rule reports, some finite unrolling of the spec's FieldsInSetCanMerge fails for some selection
    set of the document. -/
theorem merge_sound (s : Schema) (d : Document) (hq : s.queryType.isSome = true) (htc : TcKnown s d) (hu : ArgsUniq s d)
    (h : fires .overlappingFieldsCanBeMerged s d) : MergeViolatedEx s d := by
  obtain ⟨sel, env, hm, a, b, ha, hb, hk, hp⟩ := merge_fires_sound s d h
  exact pair_descent s d hq htc hu hp env.parent sel ⟨env, hm, rfl⟩ ha hb hk

end Gql
