/-
  Lemmas/Schema.lean — facts about schema lookups used by several property files.
-/
import GqlVerif.Spec.TypeSystem
namespace Gql

theorem mem_types_iff (s : Schema) (t : TypeDef) : t ∈ s.types ↔ SDef.type t ∈ s := by
  induction s with
  | nil => simp [Schema.types]
  | cons d rest ih => cases d <;> simp [Schema.types, ih]

theorem typeByName_some {s : Schema} {n : Name} {t : TypeDef} (h : s.typeByName n = some t) :
    SDef.type t ∈ s ∧ t.name = n := by
  induction s with
  | nil => simp [Schema.typeByName] at h
  | cons d rest ih =>
    cases d with
    | type t' =>
      simp only [Schema.typeByName] at h
      split at h
      · next heq => simp at h; subst h; exact ⟨by simp, by simpa using heq⟩
      · have := ih h; exact ⟨by simp [this.1], this.2⟩
    | schema _ | directive _ | ext =>
      simp only [Schema.typeByName] at h
      have := ih h; exact ⟨by simp [this.1], this.2⟩

theorem typeByName_isSome_iff (s : Schema) (n : Name) :
    (s.typeByName n).isSome = true ↔ ∃ t, SDef.type t ∈ s ∧ t.name = n := by
  induction s with
  | nil => simp [Schema.typeByName]
  | cons d rest ih =>
    cases d with
    | type t' =>
      simp only [Schema.typeByName]
      split
      · next heq => simp only [Option.isSome_some, true_iff]; exact ⟨t', by simp, by simpa using heq⟩
      · next hne =>
        rw [ih]
        constructor
        · rintro ⟨t, h1, h2⟩; exact ⟨t, by simp [h1], h2⟩
        · rintro ⟨t, h1, h2⟩
          simp only [List.mem_cons, SDef.type.injEq] at h1
          rcases h1 with rfl | h1
          · simp [h2] at hne
          · exact ⟨t, h1, h2⟩
    | schema _ | directive _ | ext =>
      simp only [Schema.typeByName]
      rw [ih]
      constructor
      · rintro ⟨t, h1, h2⟩; exact ⟨t, by simp [h1], h2⟩
      · rintro ⟨t, h1, h2⟩
        simp only [List.mem_cons, reduceCtorEq, false_or] at h1
        exact ⟨t, h1, h2⟩

/-- with unique type names the lookup returns *the* definition of that name -/
theorem typeByName_of_mem {s : Schema} (hn : s.typeNames.Nodup) {t : TypeDef} (h : SDef.type t ∈ s) :
    s.typeByName t.name = some t := by
  induction s with
  | nil => simp at h
  | cons d rest ih =>
    cases d with
    | type t' =>
      simp only [Schema.typeNames, Schema.types, List.map_cons, List.nodup_cons] at hn
      simp only [List.mem_cons, SDef.type.injEq] at h
      simp only [Schema.typeByName]
      rcases h with rfl | h
      · simp
      · split
        · next heq =>
          exfalso
          apply hn.1
          have : t ∈ Schema.types rest := (mem_types_iff rest t).2 h
          have heq' : t'.name = t.name := by simpa using heq
          rw [heq']
          exact List.mem_map.2 ⟨t, this, rfl⟩
        · exact ih hn.2 h
    | schema _ | directive _ | ext =>
      simp only [Schema.typeNames, Schema.types] at hn
      simp only [List.mem_cons, reduceCtorEq, false_or] at h
      simp only [Schema.typeByName]
      exact ih hn h

theorem directiveByName_some {s : Schema} {n : Name} {d : DirectiveDef} (h : s.directiveByName n = some d) :
    SDef.directive d ∈ s ∧ d.name = n := by
  induction s with
  | nil => simp [Schema.directiveByName] at h
  | cons x rest ih =>
    cases x with
    | directive d' =>
      simp only [Schema.directiveByName] at h
      split at h
      · next heq => simp at h; subst h; exact ⟨by simp, by simpa using heq⟩
      · have := ih h; exact ⟨by simp [this.1], this.2⟩
    | schema _ | type _ | ext =>
      simp only [Schema.directiveByName] at h
      have := ih h; exact ⟨by simp [this.1], this.2⟩

theorem directiveByName_isSome_iff (s : Schema) (n : Name) :
    (s.directiveByName n).isSome = true ↔ ∃ d, SDef.directive d ∈ s ∧ d.name = n := by
  induction s with
  | nil => simp [Schema.directiveByName]
  | cons x rest ih =>
    cases x with
    | directive d' =>
      simp only [Schema.directiveByName]
      split
      · next heq => simp only [Option.isSome_some, true_iff]; exact ⟨d', by simp, by simpa using heq⟩
      · next hne =>
        rw [ih]
        constructor
        · rintro ⟨t, h1, h2⟩; exact ⟨t, by simp [h1], h2⟩
        · rintro ⟨t, h1, h2⟩
          simp only [List.mem_cons, SDef.directive.injEq] at h1
          rcases h1 with rfl | h1
          · simp [h2] at hne
          · exact ⟨t, h1, h2⟩
    | schema _ | type _ | ext =>
      simp only [Schema.directiveByName]
      rw [ih]
      constructor
      · rintro ⟨t, h1, h2⟩; exact ⟨t, by simp [h1], h2⟩
      · rintro ⟨t, h1, h2⟩
        simp only [List.mem_cons, reduceCtorEq, false_or] at h1
        exact ⟨t, h1, h2⟩

theorem lastWins_of_nodup : ∀ (ts : List TypeDef), (ts.map (·.name)).Nodup → lastWins ts = ts
  | [], _ => rfl
  | t :: rest, h => by
      simp only [List.map_cons, List.nodup_cons] at h
      have hno : rest.any (·.name == t.name) = false := by
        rw [List.any_eq_false]
        intro x hx heq
        exact h.1 (List.mem_map.2 ⟨x, hx, by simpa using heq⟩)
      simp [lastWins, hno, lastWins_of_nodup rest h.2]

theorem typeMapEntries_of_nodup {s : Schema} (hn : s.typeNames.Nodup) : s.typeMapEntries = s.types :=
  lastWins_of_nodup _ hn

end Gql

namespace Gql

theorem find_reverse_of_nodup {α : Type} (key : α → Name) :
    ∀ (l : List α), (l.map key).Nodup → ∀ n, l.reverse.find? (fun x => key x == n) = l.find? (fun x => key x == n)
  | [], _, _ => rfl
  | x :: xs, hn, n => by
      simp only [List.map_cons, List.nodup_cons] at hn
      simp only [List.reverse_cons, List.find?_append, List.find?_cons, List.find?_nil]
      rw [find_reverse_of_nodup key xs hn.2 n]
      by_cases hx : key x == n
      · simp only [hx]
        have : xs.find? (fun y => key y == n) = none := by
          rw [List.find?_eq_none]
          intro y hy hyn
          apply hn.1
          have h1 : key y = n := by simpa using hyn
          have h2 : key x = n := by simpa using hx
          rw [h2, ← h1]
          exact List.mem_map.2 ⟨y, hy, rfl⟩
        simp [this]
      · simp only [hx]
        cases xs.find? (fun y => key y == n) <;> simp

theorem directiveByName_eq_find (s : Schema) (n : Name) :
    s.directiveByName n = s.directives.find? (fun d => d.name == n) := by
  induction s with
  | nil => rfl
  | cons x xs ih =>
    cases x with
    | directive d =>
      simp only [Schema.directiveByName, Schema.directives, List.find?_cons]
      by_cases h : d.name == n <;> simp [h, ih]
    | schema _ | type _ | ext => simp only [Schema.directiveByName, Schema.directives, ih]

/-- `ctx.directives` (HashMap, last wins) agrees with `directive_by_name` (first match) when
    directive names are unique -/
theorem directiveMapGet_eq_directiveByName (s : Schema) (hn : (s.directives.map (·.name)).Nodup) (n : Name) :
    s.directiveMapGet n = s.directiveByName n := by
  rw [directiveByName_eq_find]
  exact find_reverse_of_nodup (·.name) s.directives hn n

end Gql
