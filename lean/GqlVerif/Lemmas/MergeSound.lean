/-
  Lemmas/MergeSound.lean — every conflict the field-merging rule reports is backed by a finite
  witness (`Fails`, Lemmas/MergeRel.lean) between two fields the compared selection sets really
  collect — for documents with fragment spreads, whatever the state of the memo tables, the
  visited list and the fuel.  (Skipping comparisons can only lose conflicts, never invent them.)
-/
import GqlVerif.Lemmas.MergeRel
namespace Gql
open Gql.Spec

/-- a fold of steps: if the result holds a conflict, the start did or some step added one -/
theorem foldl_step_nonempty {α : Type} (step : MRes → α → MRes) (P : α → Prop)
    (hstep : ∀ acc x, (step acc x).1 ≠ [] → acc.1 ≠ [] ∨ P x) :
    ∀ (L : List α) (acc : MRes), (L.foldl step acc).1 ≠ [] → acc.1 ≠ [] ∨ ∃ x ∈ L, P x
  | [], acc, h => Or.inl h
  | x :: L, acc, h => by
      simp only [List.foldl_cons] at h
      rcases foldl_step_nonempty step P hstep L _ h with h | ⟨y, hy, hp⟩
      · rcases hstep acc x h with h | h
        · exact Or.inl h
        · exact Or.inr ⟨x, by simp, h⟩
      · exact Or.inr ⟨y, by simp [hy], hp⟩

theorem cat_step {α : Type} (f : α → MState → MRes) (acc : MRes) (x : α) (st : MState)
    (h : (acc.1 ++ (f x st).1, (f x st).2).1 ≠ []) : acc.1 ≠ [] ∨ ∃ st', (f x st').1 ≠ [] := by
  simp only [ne_eq, List.append_eq_nil_iff, not_and] at h
  by_cases hacc : acc.1 = []
  · exact Or.inr ⟨st, h hacc⟩
  · exact Or.inl hacc

/-- the accumulating folds of the rule: `acc ↦ (acc.1 ++ (f x acc.2).1, (f x acc.2).2)` -/
theorem foldl_cat_nonempty {α : Type} (f : α → MState → MRes) (L : List α) (acc : MRes)
    (h : (L.foldl (fun (acc : MRes) x => ((acc.1 ++ (f x acc.2).1, (f x acc.2).2) : MRes)) acc).1 ≠ []) :
    acc.1 ≠ [] ∨ ∃ x ∈ L, ∃ st', (f x st').1 ≠ [] :=
  foldl_step_nonempty _ (fun x => ∃ st', (f x st').1 ≠ []) (fun acc x hne => cat_step f acc x acc.2 hne) L acc h

theorem pushConflict_nonempty (acc : MRes) (r : Option Conflict × MState) (h : (pushConflict acc r).1 ≠ []) :
    acc.1 ≠ [] ∨ r.1.isSome = true := by
  unfold pushConflict at h
  cases hr : r.1 with
  | none => rw [hr] at h; exact Or.inl h
  | some c => exact Or.inr rfl

theorem mem_of_alGet {κ ν : Type} [DecidableEq κ] (m : List (κ × ν)) (k : κ) (v : ν) (h : alGet m k = some v) : (k, v) ∈ m := by
  unfold alGet at h
  simp only [Option.map_eq_some_iff] at h
  obtain ⟨p, hp, rfl⟩ := h
  have hm := List.mem_of_find?_eq_some hp
  have hk := List.find?_some hp
  simp only [decide_eq_true_eq] at hk
  obtain ⟨a, b⟩ := p
  simp only at hk; subst hk
  exact hm

/-- `collect_conflicts_between` over two keyed maps: a reported conflict comes from one call of
    the comparison on two same-key values -/
theorem between_nonempty (fc : Name → AstAndDef → AstAndDef → Bool → MState → Option Conflict × MState)
    (me : Bool) (fm1 fm2 : FieldMap) (st : MState) (h1 : KeyOk fm1) (h2 : KeyOk fm2)
    (h : (fm1.foldl (betweenKeyStep fc me fm2) ([], st)).1 ≠ []) :
    ∃ a b, FM fm1 a ∧ FM fm2 b ∧ keyOf a = keyOf b ∧ ∃ k st', (fc k a b me st').1.isSome = true := by
  have hfield : ∀ (k : Name) (a : AstAndDef) (L : List AstAndDef) (acc : MRes),
      (betweenFieldsStep fc k me L acc a).1 ≠ [] → acc.1 ≠ [] ∨ ∃ b ∈ L, ∃ st', (fc k a b me st').1.isSome = true := by
    intro k a L acc hne
    unfold betweenFieldsStep at hne
    exact foldl_step_nonempty (fun (acc : MRes) f2 => pushConflict acc (fc k a f2 me acc.2))
      (fun b => ∃ st', (fc k a b me st').1.isSome = true)
      (fun acc b hne => (pushConflict_nonempty _ _ hne).imp id (fun h => ⟨acc.2, h⟩)) L acc hne
  have hkey : ∀ (acc : MRes) (kv : Name × List AstAndDef), (betweenKeyStep fc me fm2 acc kv).1 ≠ [] →
      acc.1 ≠ [] ∨ ∃ a ∈ kv.2, ∃ b ∈ (alGet fm2 kv.1).getD [], ∃ st', (fc kv.1 a b me st').1.isSome = true := by
    intro acc kv hne
    unfold betweenKeyStep at hne
    exact foldl_step_nonempty (betweenFieldsStep fc kv.1 me ((alGet fm2 kv.1).getD []))
      (fun a => ∃ b ∈ (alGet fm2 kv.1).getD [], ∃ st', (fc kv.1 a b me st').1.isSome = true)
      (fun acc a hne => hfield kv.1 a _ acc hne) kv.2 acc hne
  rcases foldl_step_nonempty (betweenKeyStep fc me fm2)
      (fun kv => ∃ a ∈ kv.2, ∃ b ∈ (alGet fm2 kv.1).getD [], ∃ st', (fc kv.1 a b me st').1.isSome = true) hkey fm1 _ h with h | h
  · exact absurd rfl h
  · obtain ⟨kv, hkv, a, ha, b, hb, st', hc⟩ := h
    cases hg : alGet fm2 kv.1 with
    | none => rw [hg] at hb; simp at hb
    | some l =>
      rw [hg] at hb
      simp only [Option.getD_some] at hb
      have hm := mem_of_alGet fm2 kv.1 l hg
      exact ⟨a, b, ⟨kv, hkv, ha⟩, ⟨(kv.1, l), hm, hb⟩, by rw [h1 kv hkv a ha, h2 _ hm b hb], kv.1, st', hc⟩

/-- what each of the five mutually recursive functions of the rule guarantees at fuel `n` -/
structure SoundAt (s : Schema) (d : Document) (n : Nat) : Prop where
  fc : ∀ key a b me st, (findConflict s d n key a b me st).1.isSome = true → Fails s d me a b
  cb : ∀ me fm1 fm2 st, KeyOk fm1 → KeyOk fm2 → (conflictsBetween s d n me fm1 fm2 st).1 ≠ [] →
    ∃ a b, FM fm1 a ∧ FM fm2 b ∧ keyOf a = keyOf b ∧ Fails s d me a b
  bs : ∀ me pn1 sel1 pn2 sel2 st, (betweenSubSelectionSets s d n me pn1 sel1 pn2 sel2 st).1 ≠ [] →
    ∃ a b, Mem s d (pn1.bind s.typeByName) sel1 a ∧ Mem s d (pn2.bind s.typeByName) sel2 b ∧ keyOf a = keyOf b ∧ Fails s d me a b
  ff : ∀ fm nm me st, KeyOk fm → (fieldsAndFragment s d n fm nm me st).1 ≠ [] →
    ∃ a b, FM fm a ∧ MemFrag s d nm b ∧ keyOf a = keyOf b ∧ Fails s d me a b
  bf : ∀ n1 n2 me st, (betweenFragments s d n n1 n2 me st).1 ≠ [] →
    ∃ a b, MemFrag s d n1 a ∧ MemFrag s d n2 b ∧ keyOf a = keyOf b ∧ Fails s d me a b

theorem typesAgree_of_conflict (s : Schema) (a b : AstAndDef) (p : Ty × Ty) (h : typeConflictOf s a b = some p) :
    typesAgree s a b = false := by
  have h1 : typeConflictB s a b = true := by rw [typeConflictB_eq, h]; rfl
  rw [typeConflictB_iff] at h1
  simpa using h1

theorem subfieldConflicts_some {cs : List Conflict} {key : Name} {p1 p2 : Pos}
    (h : (subfieldConflicts cs key p1 p2).isSome = true) : cs ≠ [] := by
  rw [subfieldConflicts_none] at h
  intro e; subst e; simp at h

theorem soundAt_zero (s : Schema) (d : Document) : SoundAt s d 0 where
  fc := by intro key a b me st h; simp [findConflict] at h
  cb := by intro me fm1 fm2 st _ _ h; simp [conflictsBetween] at h
  bs := by intro me pn1 sel1 pn2 sel2 st h; simp [betweenSubSelectionSets] at h
  ff := by intro fm nm me st _ h; simp [fieldsAndFragment] at h
  bf := by intro n1 n2 me st h; simp [betweenFragments] at h

theorem soundAt_succ (s : Schema) (d : Document) (n : Nat) (ih : SoundAt s d n) : SoundAt s d (n + 1) where
  fc := by
    intro key a b me st h
    simp only [findConflict] at h
    split at h
    · simp at h
    · -- the flag the comparison runs under
      have hme : (me || (optName a.parent != optName b.parent && optIsObject a.parent && optIsObject b.parent)) = meOf me a b := rfl
      simp only [hme] at h
      split at h
      · -- different names
        rename_i hc
        simp only [Bool.and_eq_true, Bool.not_eq_true', bne_iff_ne, ne_eq] at hc
        obtain ⟨hm, hn⟩ := hc
        have hme' : me = false := by cases me <;> simp_all [meOf]
        subst hme'
        rw [meOf_false] at hm
        exact PairBad.name (by simpa using hm) (by simpa using hn)
      · split at h
        · rename_i hc
          simp only [Bool.and_eq_true, Bool.not_eq_true'] at hc
          obtain ⟨hm, hargs⟩ := hc
          have hme' : me = false := by cases me <;> simp_all [meOf]
          subst hme'
          rw [meOf_false] at hm
          exact PairBad.args (by simpa using hm) (Or.inl hargs)
        · split at h
          · rename_i p hp
            exact Fails.of_shape me (.types (typesAgree_of_conflict s a b _ hp))
          · split at h
            · have hne := subfieldConflicts_some h
              obtain ⟨x, y, hx, hy, hk, hf⟩ := ih.bs _ _ _ _ _ _ hne
              cases hm : meOf me a b with
              | true =>
                rw [hm] at hf
                exact Fails.of_shape me (.nested hx hy hk hf)
              | false =>
                rw [hm] at hf
                have hme' : me = false := by cases me <;> simp_all [meOf]
                subst hme'
                rw [meOf_false] at hm
                exact PairBad.nested (by simpa using hm) hx hy hk hf
            · simp at h
  cb := by
    intro me fm1 fm2 st h1 h2 h
    simp only [conflictsBetween] at h
    split at h
    · exact absurd rfl h
    · obtain ⟨a, b, ha, hb, hk, k, st', hc⟩ := between_nonempty (findConflict s d n) me fm1 fm2 st h1 h2 h
      exact ⟨a, b, ha, hb, hk, ih.fc k a b me st' hc⟩
  bs := by
    intro me pn1 sel1 pn2 sel2 st h
    simp only [betweenSubSelectionSets] at h
    split at h
    · exact absurd rfl h
    · obtain ⟨k1, _, _⟩ := fafn_facts s d (pn1.bind s.typeByName) sel1
      obtain ⟨k2, _, _⟩ := fafn_facts s d (pn2.bind s.typeByName) sel2
      -- (J) fragment against fragment
      rcases foldl_step_nonempty _
          (fun a => ∃ b ∈ (fieldsAndFragmentNames s (pn2.bind s.typeByName) sel2).2, ∃ st', (betweenFragments s d n a b me st').1 ≠ [])
          (fun acc a hne => foldl_cat_nonempty (fun b st' => betweenFragments s d n a b me st') _ acc hne) _ _ h with h | h
      · -- (I) the fields of the second against the fragments of the first
        rcases foldl_cat_nonempty (fun fn st' => fieldsAndFragment s d n (fieldsAndFragmentNames s (pn2.bind s.typeByName) sel2).1 fn me st') _ _ h with h | h
        · -- (I) the fields of the first against the fragments of the second
          rcases foldl_cat_nonempty (fun fn st' => fieldsAndFragment s d n (fieldsAndFragmentNames s (pn1.bind s.typeByName) sel1).1 fn me st') _ _ h with h | h
          · -- (H) field against field
            obtain ⟨a, b, ha, hb, hk, hf⟩ := ih.cb _ _ _ _ k1 k2 h
            exact ⟨a, b, fafn_mem s d _ _ a ha, fafn_mem s d _ _ b hb, hk, hf⟩
          · obtain ⟨fn, hfn, st', hne⟩ := h
            obtain ⟨a, b, ha, hb, hk, hf⟩ := ih.ff _ _ _ _ k1 hne
            exact ⟨a, b, fafn_mem s d _ _ a ha, fafn_memFrag s d _ _ fn hfn b hb, hk, hf⟩
        · obtain ⟨fn, hfn, st', hne⟩ := h
          obtain ⟨a, b, ha, hb, hk, hf⟩ := ih.ff _ _ _ _ k2 hne
          exact ⟨b, a, fafn_memFrag s d _ _ fn hfn b hb, fafn_mem s d _ _ a ha, hk.symm, hf.symm⟩
      · obtain ⟨f1, hf1, f2, hf2, st', hne⟩ := h
        obtain ⟨a, b, ha, hb, hk, hf⟩ := ih.bf _ _ _ _ hne
        exact ⟨a, b, fafn_memFrag s d _ _ f1 hf1 a ha, fafn_memFrag s d _ _ f2 hf2 b hb, hk, hf⟩
  ff := by
    intro fm nm me st kfm h
    simp only [fieldsAndFragment] at h
    split at h
    · exact absurd rfl h
    · split at h
      · exact absurd rfl h
      · rename_i frag hfrag
        split at h
        · exact absurd rfl h
        · obtain ⟨k2, _, _⟩ := fafn_facts s d (s.typeByName frag.tc) frag.sel
          have hstep : ∀ (acc : MRes) (fn2 : Name),
              (if acc.2.visited.contains fn2 then (acc.1, { acc.2 with guardHit := true })
                else ((acc.1 ++ (fieldsAndFragment s d n fm fn2 me { acc.2 with visited := acc.2.visited ++ [fn2] }).1,
                  (fieldsAndFragment s d n fm fn2 me { acc.2 with visited := acc.2.visited ++ [fn2] }).2) : MRes)).1 ≠ [] →
              acc.1 ≠ [] ∨ ∃ st', (fieldsAndFragment s d n fm fn2 me st').1 ≠ [] := by
            intro acc fn2 hne
            split at hne
            · exact Or.inl hne
            · exact cat_step (fun fn2 st' => fieldsAndFragment s d n fm fn2 me st') acc fn2 _ hne
          rcases foldl_step_nonempty _
              (fun fn2 => ∃ st', (fieldsAndFragment s d n fm fn2 me st').1 ≠ []) hstep _ _ h with h | h
          · obtain ⟨a, b, ha, hb, hk, hf⟩ := ih.cb _ _ _ _ kfm k2 h
            exact ⟨a, b, ha, ref_mem s d nm frag hfrag b hb, hk, hf⟩
          · obtain ⟨fn2, hfn2, st', hne⟩ := h
            obtain ⟨a, b, ha, hb, hk, hf⟩ := ih.ff _ _ _ _ kfm hne
            exact ⟨a, b, ha, ref_memFrag s d nm frag hfrag fn2 hfn2 b hb, hk, hf⟩
  bf := by
    intro n1 n2 me st h
    simp only [betweenFragments] at h
    split at h
    · exact absurd rfl h
    · split at h
      · exact absurd rfl h
      · split at h
        · exact absurd rfl h
        · split at h
          · rename_i f1 f2 hf1 hf2
            rcases foldl_cat_nonempty (fun x st' => betweenFragments s d n x n2 me st') _ _ h with h | h
            · rcases foldl_cat_nonempty (fun x st' => betweenFragments s d n n1 x me st') _ _ h with h | h
              · obtain ⟨k1, _, _⟩ := fafn_facts s d (s.typeByName f1.tc) f1.sel
                obtain ⟨k2, _, _⟩ := fafn_facts s d (s.typeByName f2.tc) f2.sel
                obtain ⟨a, b, ha, hb, hk, hf⟩ := ih.cb _ _ _ _ k1 k2 h
                exact ⟨a, b, ref_mem s d n1 f1 hf1 a ha, ref_mem s d n2 f2 hf2 b hb, hk, hf⟩
              · obtain ⟨x, hx, st', hne⟩ := h
                obtain ⟨a, b, ha, hb, hk, hf⟩ := ih.bf _ _ _ _ hne
                exact ⟨a, b, ha, ref_memFrag s d n2 f2 hf2 x hx b hb, hk, hf⟩
            · obtain ⟨x, hx, st', hne⟩ := h
              obtain ⟨a, b, ha, hb, hk, hf⟩ := ih.bf _ _ _ _ hne
              exact ⟨a, b, ref_memFrag s d n1 f1 hf1 x hx a ha, hb, hk, hf⟩
          · exact absurd rfl h

theorem soundAt (s : Schema) (d : Document) : ∀ n, SoundAt s d n
  | 0 => soundAt_zero s d
  | n + 1 => soundAt_succ s d n (soundAt s d n)

/-! ### one selection set -/

theorem mem_orderedPairs {α : Type} : ∀ (L : List α) (p : α × α), p ∈ orderedPairs L → p.1 ∈ L ∧ p.2 ∈ L
  | [], p, h => by simp [orderedPairs] at h
  | x :: xs, p, h => by
      simp only [orderedPairs, List.mem_append, List.mem_map] at h
      rcases h with ⟨y, hy, rfl⟩ | h
      · exact ⟨by simp, by simp [hy]⟩
      · obtain ⟨h1, h2⟩ := mem_orderedPairs xs p h
        exact ⟨by simp [h1], by simp [h2]⟩

/-- `collect_conflicts_within` -/
theorem within_nonempty (s : Schema) (d : Document) (fuel : Nat) (fm : FieldMap) (st : MState) (hk : KeyOk fm)
    (h : (conflictsWithin s d fuel fm st).1 ≠ []) :
    ∃ a b, FM fm a ∧ FM fm b ∧ keyOf a = keyOf b ∧ PairBad s d a b := by
  unfold conflictsWithin at h
  have hpair : ∀ (kv : Name × List AstAndDef) (acc : MRes),
      ((orderedPairs kv.2).foldl (fun (acc : MRes) p => pushConflict acc (findConflict s d fuel kv.1 p.1 p.2 false acc.2)) acc).1 ≠ [] →
      acc.1 ≠ [] ∨ ∃ p ∈ orderedPairs kv.2, ∃ st', (findConflict s d fuel kv.1 p.1 p.2 false st').1.isSome = true := by
    intro kv acc hne
    exact foldl_step_nonempty (fun (acc : MRes) (p : AstAndDef × AstAndDef) => pushConflict acc (findConflict s d fuel kv.1 p.1 p.2 false acc.2))
      (fun p => ∃ st', (findConflict s d fuel kv.1 p.1 p.2 false st').1.isSome = true)
      (fun acc p hne => (pushConflict_nonempty _ _ hne).imp id (fun h => ⟨acc.2, h⟩)) _ acc hne
  rcases foldl_step_nonempty _
      (fun (kv : Name × List AstAndDef) => ∃ p ∈ orderedPairs kv.2, ∃ st', (findConflict s d fuel kv.1 p.1 p.2 false st').1.isSome = true)
      (fun acc kv hne => hpair kv acc hne) fm _ h with h | h
  · exact absurd rfl h
  · obtain ⟨kv, hkv, p, hp, st', hc⟩ := h
    obtain ⟨h1, h2⟩ := mem_orderedPairs kv.2 p hp
    exact ⟨p.1, p.2, ⟨kv, hkv, h1⟩, ⟨kv, hkv, h2⟩, by rw [hk kv hkv _ h1, hk kv hkv _ h2],
      (soundAt s d fuel).fc kv.1 p.1 p.2 false st' hc⟩

/-- the loop (B)/(C) of `find_conflicts_within_selection_set` -/
theorem loop_nonempty (s : Schema) (d : Document) (fuel : Nat) (fm : FieldMap) (ns : List Name) (hk : KeyOk fm) :
    ∀ (names : List Name) (acc : MRes), (conflictsWithinSelectionSet.loop s d fuel (fm, ns) names acc).1 ≠ [] →
      acc.1 ≠ [] ∨ (∃ f1 ∈ names, ∃ a b, FM fm a ∧ MemFrag s d f1 b ∧ keyOf a = keyOf b ∧ PairBad s d a b) ∨
        (∃ f1 ∈ names, ∃ f2 ∈ names, ∃ a b, MemFrag s d f1 a ∧ MemFrag s d f2 b ∧ keyOf a = keyOf b ∧ PairBad s d a b)
  | [], acc, h => by simp only [conflictsWithinSelectionSet.loop] at h; exact Or.inl h
  | f1 :: rest, acc, h => by
      simp only [conflictsWithinSelectionSet.loop] at h
      rcases loop_nonempty s d fuel fm ns hk rest _ h with h | h | h
      · rcases foldl_cat_nonempty (fun f2 st' => betweenFragments s d fuel f1 f2 false st') _ _ h with h | h
        · rcases cat_step (fun f1 st' => fieldsAndFragment s d fuel fm f1 false st') acc f1 acc.2 h with h | ⟨st', hne⟩
          · exact Or.inl h
          · obtain ⟨a, b, ha, hb, hkk, hf⟩ := (soundAt s d fuel).ff _ _ _ _ hk hne
            exact Or.inr (Or.inl ⟨f1, by simp, a, b, ha, hb, hkk, hf⟩)
        · obtain ⟨f2, hf2, st', hne⟩ := h
          obtain ⟨a, b, ha, hb, hkk, hf⟩ := (soundAt s d fuel).bf _ _ _ _ hne
          exact Or.inr (Or.inr ⟨f1, by simp, f2, by simp [hf2], a, b, ha, hb, hkk, hf⟩)
      · obtain ⟨g, hg, rest'⟩ := h
        exact Or.inr (Or.inl ⟨g, by simp [hg], rest'⟩)
      · obtain ⟨g1, hg1, g2, hg2, rest'⟩ := h
        exact Or.inr (Or.inr ⟨g1, by simp [hg1], g2, by simp [hg2], rest'⟩)

/-- **one selection set**: a reported conflict is a failing pair test between two fields the
    selection set collects -/
theorem selset_sound (s : Schema) (d : Document) (fuel : Nat) (parent : Option TypeDef) (sel : List Selection) (st : MState)
    (h : (conflictsWithinSelectionSet s d fuel parent sel st).1 ≠ []) :
    ∃ a b, Mem s d parent sel a ∧ Mem s d parent sel b ∧ keyOf a = keyOf b ∧ PairBad s d a b := by
  unfold conflictsWithinSelectionSet at h
  obtain ⟨hk, _, _⟩ := fafn_facts s d parent sel
  rcases loop_nonempty s d fuel (fieldsAndFragmentNames s parent sel).1 (fieldsAndFragmentNames s parent sel).2 hk _ _ h with h | h | h
  · obtain ⟨a, b, ha, hb, hkk, hf⟩ := within_nonempty s d fuel _ st hk h
    exact ⟨a, b, fafn_mem s d _ _ a ha, fafn_mem s d _ _ b hb, hkk, hf⟩
  · obtain ⟨f1, hf1, a, b, ha, hb, hkk, hf⟩ := h
    exact ⟨a, b, fafn_mem s d _ _ a ha, fafn_memFrag s d _ _ f1 hf1 b hb, hkk, hf⟩
  · obtain ⟨f1, hf1, f2, hf2, a, b, ha, hb, hkk, hf⟩ := h
    exact ⟨a, b, fafn_memFrag s d _ _ f1 hf1 a ha, fafn_memFrag s d _ _ f2 hf2 b hb, hkk, hf⟩

/-! ### the rule -/

/-- a rule that reports does so at some callback of the trace, or at the end -/
theorem runOn_ne_nil (r : Rule) (s : Schema) (d : Document) (tr : Trace) (h : r.runOn s d tr ≠ []) :
    (∃ e ∈ tr, ∃ σ, (r.on s d σ e).2 ≠ []) ∨ ∃ σ, r.finish s d σ ≠ [] := by
  have key : ∀ (tr : Trace) (acc : r.σ × List Err), (tr.foldl (r.step s d) acc).2 ≠ [] →
      acc.2 ≠ [] ∨ ∃ e ∈ tr, ∃ σ, (r.on s d σ e).2 ≠ [] := by
    intro tr
    induction tr with
    | nil => intro acc h; exact Or.inl h
    | cons e tr ih =>
      intro acc h
      simp only [List.foldl_cons] at h
      rcases ih _ h with h | ⟨e', he', σ, hσ⟩
      · simp only [Rule.step, ne_eq, List.append_eq_nil_iff, not_and] at h
        by_cases hacc : acc.2 = []
        · exact Or.inr ⟨e, by simp, acc.1, h hacc⟩
        · exact Or.inl hacc
      · exact Or.inr ⟨e', by simp [he'], σ, hσ⟩
  simp only [Rule.runOn, ne_eq, List.append_eq_nil_iff, not_and] at h
  by_cases h1 : (tr.foldl (r.step s d) (r.init, [])).2 = []
  · exact Or.inr ⟨_, h h1⟩
  · rcases key tr _ h1 with h2 | h2
    · exact absurd rfl h2
    · exact Or.inl h2

/-- **the rule reports only where a selection set of the document has two same-key collected
    fields whose pair test fails** -/
theorem merge_fires_sound (s : Schema) (d : Document) (h : fires .overlappingFieldsCanBeMerged s d) :
    ∃ sel env, (Ev.enter (.selectionSet sel), env) ∈ walkOf s d ∧
      ∃ a b, Mem s d env.parent sel a ∧ Mem s d env.parent sel b ∧ keyOf a = keyOf b ∧ PairBad s d a b := by
  unfold fires errsOf at h
  simp only [ruleOf] at h
  rcases runOn_ne_nil _ s d _ h with ⟨⟨ev, env⟩, hm, σ, hne⟩ | ⟨σ, hne⟩
  · cases ev with
    | leave n => exact absurd rfl hne
    | enter n =>
      cases n with
      | selectionSet sel =>
        simp only [overlappingFieldsCanBeMerged, ne_eq, List.map_eq_nil_iff] at hne
        exact ⟨sel, env, hm, selset_sound s d _ _ _ _ hne⟩
      | _ => exact absurd rfl hne
  · exact absurd rfl hne

end Gql
