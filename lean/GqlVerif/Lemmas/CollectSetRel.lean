/-
  Lemmas/CollectSetRel.lean — the set of fields CollectFields gathers does not depend on the order
  of selections; hence neither does the condition of 'single field subscriptions'.
-/
import GqlVerif.Lemmas.CollectSet
namespace Gql
open Gql.Spec

/-- the same selection, up to the order of the selections below it -/
inductive SelRel1 : Selection → Selection → Prop
  | same (x : Selection) : SelRel1 x x
  | field (pos : Pos) (alias : Option Name) (name : Name) (args : List Arg) (dirs : List Directive) {sel sel' : List Selection} :
      SelsEq sel sel' → SelRel1 (.field pos alias name args dirs sel) (.field pos alias name args dirs sel')
  | inline (pos : Pos) (tc : Option Name) (dirs : List Directive) {sel sel' : List Selection} :
      SelsEq sel sel' → SelRel1 (.inline pos tc dirs sel) (.inline pos tc dirs sel')

theorem SelRel1.trans {a b c : Selection} (h1 : SelRel1 a b) (h2 : SelRel1 b c) : SelRel1 a c := by
  cases h1 with
  | same => exact h2
  | field pos alias name args dirs hs =>
    cases h2 with
    | same => exact .field pos alias name args dirs hs
    | field _ _ _ _ _ hs2 => exact .field pos alias name args dirs (.trans hs hs2)
  | inline pos tc dirs hs =>
    cases h2 with
    | same => exact .inline pos tc dirs hs
    | inline _ _ _ hs2 => exact .inline pos tc dirs (.trans hs hs2)

theorem selsEq_mem {X Y : List Selection} (h : SelsEq X Y) : ∀ x ∈ X, ∃ y ∈ Y, SelRel1 x y := by
  induction h with
  | refl l => intro x hx; exact ⟨x, hx, .same x⟩
  | swap a b l =>
    intro x hx
    refine ⟨x, ?_, .same x⟩
    simp only [List.mem_cons] at hx ⊢
    rcases hx with h | h | h
    · exact Or.inr (Or.inl h)
    · exact Or.inl h
    · exact Or.inr (Or.inr h)
  | cons a _ ih =>
    intro x hx
    rcases List.mem_cons.1 hx with rfl | hx
    · exact ⟨x, by simp, .same x⟩
    · obtain ⟨y, hy, hr⟩ := ih x hx
      exact ⟨y, by simp [hy], hr⟩
  | field pos alias name args dirs l hs _ =>
    intro x hx
    rcases List.mem_cons.1 hx with rfl | hx
    · exact ⟨_, by simp, .field pos alias name args dirs hs⟩
    · exact ⟨x, by simp [hx], .same x⟩
  | inline pos tc dirs l hs _ =>
    intro x hx
    rcases List.mem_cons.1 hx with rfl | hx
    · exact ⟨_, by simp, .inline pos tc dirs hs⟩
    · exact ⟨x, by simp [hx], .same x⟩
  | trans _ _ ih1 ih2 =>
    intro x hx
    obtain ⟨y, hy, h1⟩ := ih1 x hx
    obtain ⟨z, hz, h2⟩ := ih2 y hy
    exact ⟨z, hz, h1.trans h2⟩

section
variable {s : Schema} {R : TypeDef}

theorem direct_rel {X : List Selection} {f : FieldNode} (h : Direct s R X f) :
    ∀ {Y : List Selection}, SelsEq X Y → ∃ sel', SelsEq f.sel sel' ∧ Direct s R Y { f with sel := sel' } := by
  induction h with
  | @here sel f hm =>
    intro Y hxy
    obtain ⟨y, hy, hr⟩ := selsEq_mem hxy _ hm
    cases f with
    | mk pos alias name args dirs fsel =>
      simp only [FieldNode.toSel] at hr
      cases hr with
      | same => exact ⟨fsel, .refl _, .here hy⟩
      | field _ _ _ _ _ hs => exact ⟨_, hs, .here hy⟩
  | @inl sel sub pos tc dirs f hm ha _ ih =>
    intro Y hxy
    obtain ⟨y, hy, hr⟩ := selsEq_mem hxy _ hm
    cases hr with
    | same =>
      obtain ⟨sel', hs, hd⟩ := ih (.refl sub)
      exact ⟨sel', hs, .inl hy ha hd⟩
    | inline _ _ _ hs0 =>
      obtain ⟨sel', hs, hd⟩ := ih hs0
      exact ⟨sel', hs, .inl hy ha hd⟩

theorem directSpread_rel {X : List Selection} {n : Name} (h : DirectSpread s R X n) :
    ∀ {Y : List Selection}, SelsEq X Y → DirectSpread s R Y n := by
  induction h with
  | @here sel pos n dirs hm =>
    intro Y hxy
    obtain ⟨y, hy, hr⟩ := selsEq_mem hxy _ hm
    cases hr with
    | same => exact .here hy
  | @inl sel sub pos tc dirs n hm ha _ ih =>
    intro Y hxy
    obtain ⟨y, hy, hr⟩ := selsEq_mem hxy _ hm
    cases hr with
    | same => exact .inl hy ha (ih (.refl sub))
    | inline _ _ _ hs0 => exact .inl hy ha (ih hs0)

theorem gets_rel {d d' : Document} (hdd : DocRel d d') {X : List Selection} {f : FieldNode} (h : Gets s d R X f) :
    ∀ {Y : List Selection}, SelsEq X Y → ∃ sel', SelsEq f.sel sel' ∧ Gets s d' R Y { f with sel := sel' } := by
  induction h with
  | direct hd =>
    intro Y hxy
    obtain ⟨sel', hs, hd'⟩ := direct_rel hd hxy
    exact ⟨sel', hs, .direct hd'⟩
  | @spread sel n frag f hsp hfr ha _ ih =>
    intro Y hxy
    have hl := fragLook hdd n
    rw [hfr] at hl
    generalize hv : d'.fragByName n = v at hl
    cases hl with
    | some _ hs0 =>
      obtain ⟨sel', hs, hg⟩ := ih hs0
      exact ⟨sel', hs, .spread (directSpread_rel hsp hxy) hv ha hg⟩

end

/-- the condition of 'single field subscriptions' does not depend on the order of selections -/
theorem subscription_selrel_mp (s : Schema) (hn : s.typeNames.Nodup) {d d' : Document} (h : DocRel d d')
    (hv : SubscriptionNotSingleField s d) : SubscriptionNotSingleField s d' := by
  obtain ⟨o, ho, hk, R, hR, fs, vis, hc, hcond⟩ := hv
  obtain ⟨osel, hos, hom⟩ := opsRel h o ho
  have hpar : ParentOk s R := by
    unfold Schema.subscriptionType at hR
    cases hsub : s.schemaDefinition.subscription with
    | none => simp [hsub] at hR
    | some nm =>
      simp only [hsub, Option.bind_some] at hR
      have := (C18.objectTypeByName_iff s hn nm R).1 hR
      exact ⟨hn, this.1, this.2.2⟩
  obtain ⟨fs', vis', hc', _⟩ := C19.collect_sound s d' R hpar osel
  refine ⟨_, hom, hk, R, hR, fs', vis', hc', ?_⟩
  have tr : ∀ f ∈ fs, ∃ sel', ({ f with sel := sel' } : FieldNode) ∈ fs' := by
    intro f hf
    obtain ⟨sel', _, hg⟩ := gets_rel h ((mem_collects_iff hc f).1 hf) hos
    exact ⟨sel', (mem_collects_iff hc' _).2 hg⟩
  rcases hcond with ⟨f, hf, g, hg, hne⟩ | ⟨f, hf, hd⟩
  · obtain ⟨sf, hf'⟩ := tr f hf
    obtain ⟨sg, hg'⟩ := tr g hg
    exact Or.inl ⟨_, hf', _, hg', hne⟩
  · obtain ⟨sf, hf'⟩ := tr f hf
    exact Or.inr ⟨_, hf', hd⟩

end Gql
