/-
  Lemmas/SitesGood.lean — on a schema whose argument types are (well-wrapped references to)
  declared input types, and a document whose variable types are, every literal position of the
  walk has such an expected type (or none).
-/
import GqlVerif.Lemmas.Coercion
import GqlVerif.Lemmas.ValueSites
namespace Gql
open Gql.Spec

/-- argument types of every field and directive of the schema are declared input types -/
def ArgsGood (s : Schema) : Prop :=
  (∀ td, SDef.type td ∈ s → ∀ n fd, td.fieldByName n = some fd → ∀ a ∈ fd.args, GoodTy s a.ty) ∧
  (∀ dd, SDef.directive dd ∈ s → ∀ a ∈ dd.args, GoodTy s a.ty)

/-- variable types of the document are declared input types -/
def VarTypesGood (s : Schema) (d : Document) : Prop :=
  ∀ o, Definition.op o ∈ d → ∀ v ∈ o.vars, GoodTy s v.ty

def SG (s : Schema) (tr : Trace) : Prop := ∀ τ v, (some τ, v) ∈ litSites tr → GoodTy s τ

theorem SG.nil (s : Schema) : SG s [] := by intro τ v h; simp [litSites] at h
theorem SG.append {s : Schema} {a b : Trace} (ha : SG s a) (hb : SG s b) : SG s (a ++ b) := by
  intro τ v h
  simp only [litSites, List.filterMap_append, List.mem_append] at h
  exact h.elim (ha τ v) (hb τ v)
theorem SG.quiet {s : Schema} {e : Ev × Snap} {t : Trace} (h : siteOf e = none) (ht : SG s t) : SG s (e :: t) := by
  intro τ v hm
  simp only [litSites, List.filterMap_cons, h] at hm
  exact ht τ v hm
theorem SG.of_noSites {s : Schema} {t : Trace} (h : litSites t = []) : SG s t := by
  intro τ v hm; rw [h] at hm; simp at hm

/-- the contexts the walk passes around only mention types of the schema -/
def SnapOk (s : Schema) (e : Snap) : Prop :=
  (∀ td, e.cur = some td → SDef.type td ∈ s) ∧ (∀ td, e.parent = some td → SDef.type td ∈ s)

theorem resolve_mem {s : Schema} {t : Option Ty} {td : TypeDef} (h : s.resolve t = some td) : SDef.type td ∈ s := by
  cases t with
  | none => simp [Schema.resolve] at h
  | some t => exact (typeByName_some (by simpa [Schema.resolve] using h)).1

theorem SnapOk.withType {s : Schema} {e : Snap} (h : SnapOk s e) (t : Option Ty) : SnapOk s (e.withType s t) :=
  ⟨fun _ hc => resolve_mem hc, h.2⟩
theorem SnapOk.withParent {s : Schema} {e : Snap} (h : SnapOk s e) : SnapOk s e.withParent :=
  ⟨h.1, h.1⟩
theorem SnapOk.withField {s : Schema} {e : Snap} (h : SnapOk s e) (f : Option FieldDef) : SnapOk s (e.withField f) := h
theorem SnapOk.empty (s : Schema) : SnapOk s Snap.empty :=
  And.intro (fun _ h => by simp [Snap.empty, Stacks.empty, Stacks.snap, top] at h) (fun _ h => by simp [Snap.empty, Stacks.empty, Stacks.snap, top] at h)

theorem sg_arguments (s : Schema) (defs : Option (List InputValueDef)) (e : Snap)
    (hd : ∀ ds, defs = some ds → ∀ a ∈ ds, GoodTy s a.ty) : ∀ as, SG s (walkArguments s defs e as)
  | [] => SG.nil s
  | a :: as => by
      intro τ v hm
      simp only [walkArguments, litSites, List.cons_append, List.filterMap_cons, List.filterMap_append] at hm
      have hn := walkValue_noSites s a.2 (e.withInput s (argType defs a.1))
      simp only [litSites] at hn
      simp only [siteOf, hn, List.nil_append, List.filterMap_nil, List.mem_cons, Prod.mk.injEq] at hm
      rcases hm with ⟨h1, _⟩ | hm
      · simp only [Snap.withInput, argType] at h1
        cases defs with
        | none => simp at h1
        | some ds =>
          simp only [Option.bind_some] at h1
          cases hf : ds.find? (·.name == a.1) with
          | none => simp [hf] at h1
          | some iv =>
            simp only [hf, Option.map_some, Option.some.injEq] at h1
            rw [h1]
            exact hd ds rfl iv (List.mem_of_find?_eq_some hf)
      · exact sg_arguments s defs e hd as τ v hm

theorem sg_directives (s : Schema) (ha : ArgsGood s) (e : Snap) : ∀ ds, SG s (walkDirectives s e ds)
  | [] => SG.nil s
  | d :: ds => by
      simp only [walkDirectives, List.cons_append]
      refine SG.quiet (by simp [siteOf]) ?_
      refine SG.append (SG.append (sg_arguments s _ e ?_ d.args) (SG.quiet (by simp [siteOf]) (SG.nil s))) (sg_directives s ha e ds)
      intro as h a hmem
      cases hdd : s.directiveByName d.name with
      | none => simp [hdd] at h
      | some dd =>
        simp only [hdd, Option.map_some, Option.some.injEq] at h
        subst h
        exact ha.2 dd (directiveByName_some hdd).1 a hmem

theorem sg_varDefs (s : Schema) (e : Snap) : ∀ vs, (∀ v ∈ vs, GoodTy s v.ty) → SG s (walkVarDefs s e vs)
  | [], _ => SG.nil s
  | v :: vs, hv => by
      intro τ x hm
      simp only [walkVarDefs, litSites, List.cons_append, List.filterMap_cons, List.filterMap_append] at hm
      have hrest := sg_varDefs s e vs (fun w hw => hv w (List.mem_cons_of_mem _ hw))
      cases hd : v.default with
      | none =>
        simp only [siteOf, hd, Option.map_none, List.filterMap_nil, List.nil_append] at hm
        exact hrest τ x hm
      | some dv =>
        have hn := walkValue_noSites s dv (e.withInput s (some v.ty))
        simp only [litSites] at hn
        simp only [siteOf, hd, Option.map_some, hn, List.filterMap_nil, List.nil_append, List.mem_cons, Prod.mk.injEq] at hm
        rcases hm with ⟨h1, _⟩ | hm
        · simp only [Snap.withInput, Option.some.injEq] at h1
          rw [h1]; exact hv v (List.mem_cons_self ..)
        · exact hrest τ x hm

theorem sg_selectionSetWith {s : Schema} (e : Snap) (he : SnapOk s e) (sel : List Selection) (items : Snap → Trace)
    (h : ∀ e', SnapOk s e' → SG s (items e')) : SG s (walkSelectionSetWith e sel items) := by
  simp only [walkSelectionSetWith, List.cons_append]
  exact SG.quiet (by simp [siteOf]) (SG.append (h _ he.withParent) (SG.quiet (by simp [siteOf]) (SG.nil s)))

mutual
theorem sg_selection (s : Schema) (ha : ArgsGood s) : ∀ (x : Selection) (e : Snap), SnapOk s e → SG s (walkSelection s e x)
  | .field pos alias name args dirs sel, e, he => by
      simp only [walkSelection, List.cons_append]
      refine SG.quiet (by simp [siteOf]) ?_
      have he2 : SnapOk s ((e.withType s ((e.parent.bind (·.fieldByName name)).map (·.ty))).withField (e.parent.bind (·.fieldByName name))) :=
        (he.withType _).withField _
      refine SG.append (SG.append (SG.append (sg_arguments s _ _ ?_ args) (sg_directives s ha _ dirs)) ?_) ?_
      · intro as h a hmem
        cases hp : e.parent with
        | none => simp [hp] at h
        | some td =>
          simp only [hp, Option.bind_some] at h
          cases hf : td.fieldByName name with
          | none => simp [hf] at h
          | some fd =>
            simp only [hf, Option.map_some, Option.some.injEq] at h
            subst h
            exact ha.1 td (he.2 td hp) name fd hf a hmem
      · exact sg_selectionSetWith _ he2 sel _ (fun e' he' => sg_selections s ha sel e' he')
      · exact SG.quiet (by simp [siteOf]) (SG.nil s)
  | .spread pos name dirs, e, _ => by
      simp only [walkSelection, List.cons_append]
      exact SG.quiet (by simp [siteOf]) (SG.append (sg_directives s ha _ dirs) (SG.quiet (by simp [siteOf]) (SG.nil s)))
  | .inline pos tc dirs sel, e, he => by
      simp only [walkSelection, List.cons_append]
      have he1 : SnapOk s (match tc with | some c => e.withType s (some (.named c)) | none => e) := by
        cases tc with
        | none => exact he
        | some c => exact he.withType _
      refine SG.quiet (by simp [siteOf]) ?_
      refine SG.append (SG.append (sg_directives s ha _ dirs) ?_) (SG.quiet (by simp [siteOf]) (SG.nil s))
      exact sg_selectionSetWith _ he1 sel _ (fun e' he' => sg_selections s ha sel e' he')
theorem sg_selections (s : Schema) (ha : ArgsGood s) : ∀ (xs : List Selection) (e : Snap), SnapOk s e → SG s (walkSelections s e xs)
  | [], _, _ => SG.nil s
  | x :: xs, e, he => by
      simp only [walkSelections]
      exact SG.append (sg_selection s ha x e he) (sg_selections s ha xs e he)
end

theorem sg_definition (s : Schema) (ha : ArgsGood s) (e : Snap) (he : SnapOk s e) (x : Definition)
    (hv : ∀ o, x = .op o → ∀ v ∈ o.vars, GoodTy s v.ty) (t : Trace) (h : walkDefinition s e x = some t) : SG s t := by
  cases x with
  | frag f =>
    simp only [walkDefinition, Option.some.injEq] at h
    subst h
    refine SG.quiet (by simp [siteOf]) ?_
    refine SG.append (SG.append (sg_directives s ha _ f.dirs) ?_) (SG.quiet (by simp [siteOf]) (SG.nil s))
    exact sg_selectionSetWith _ (he.withType _) f.sel _ (fun e' he' => sg_selections s ha f.sel e' he')
  | op o =>
    simp only [walkDefinition, Option.map_eq_some_iff] at h
    obtain ⟨tn, _, rfl⟩ := h
    refine SG.quiet (by simp [siteOf]) ?_
    refine SG.append (SG.append (SG.append (sg_directives s ha _ o.dirs) (sg_varDefs s _ o.vars (hv o rfl))) ?_)
      (SG.quiet (by simp [siteOf]) (SG.nil s))
    exact sg_selectionSetWith _ (he.withType _) o.sel _ (fun e' he' => sg_selections s ha o.sel e' he')

theorem sg_definitions (s : Schema) (ha : ArgsGood s) (e : Snap) (he : SnapOk s e) :
    ∀ (ds : List Definition), (∀ o, Definition.op o ∈ ds → ∀ v ∈ o.vars, GoodTy s v.ty) →
      ∀ t, walkDefinitions s e ds = some t → SG s t
  | [], _, t, h => by simp only [walkDefinitions, Option.some.injEq] at h; subst h; exact SG.nil s
  | x :: ds, hv, t, h => by
      simp only [walkDefinitions] at h
      cases hA : walkDefinition s e x with
      | none => simp [hA] at h
      | some a =>
        cases hB : walkDefinitions s e ds with
        | none => simp [hA, hB] at h
        | some b =>
          simp only [hA, hB, Option.some.injEq] at h
          subst h
          exact SG.append
            (sg_definition s ha e he x (fun o ho => hv o (by rw [ho]; exact List.mem_cons_self ..)) a hA)
            (sg_definitions s ha e he ds (fun o ho => hv o (List.mem_cons_of_mem _ ho)) b hB)

/-- every literal position of the walk expects a declared input type (or nothing) -/
theorem sg_document (s : Schema) (d : Document) (ha : ArgsGood s) (hv : VarTypesGood s d) :
    SG s ((walkDocument s Snap.empty d).getD []) := by
  cases h : walkDocument s Snap.empty d with
  | none => exact SG.nil s
  | some t =>
    simp only [walkDocument, Option.map_eq_some_iff] at h
    obtain ⟨t', ht', rfl⟩ := h
    simp only [Option.getD_some]
    exact SG.quiet (by simp [siteOf])
      (SG.append (sg_definitions s ha _ (SnapOk.empty s) d hv t' ht') (SG.quiet (by simp [siteOf]) (SG.nil s)))

end Gql
