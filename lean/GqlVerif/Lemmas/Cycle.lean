/-
  Lemmas/Cycle.lean — no_fragments_cycle.rs: `detect_cycles` reports an error exactly when the
  fragment-spread graph has a cycle.

  Soundness: a spread of a name on the current path closes a cycle (every name on the path
  reaches the fragment being scanned).  Completeness: names that are marked and no longer on the
  path form a successor-closed, cycle-free set ("finished" nodes); if nothing is reported, in the
  end every fragment is finished.
-/
import GqlVerif.Lemmas.FragGraph
import GqlVerif.Lemmas.Dfs
import GqlVerif.Lemmas.AssocList
import GqlVerif.Model.Rules.Fragments
namespace Gql
open Gql.Spec

section
variable (d : Document)

/-- marked names not on the path `S` are finished: their defined successors are finished and
    they lie on no cycle -/
def Good (V S : List Name) : Prop :=
  ∀ v ∈ V, v ∉ S →
    (∀ w ∈ spreadsOf d v, (d.fragByName w).isSome = true → w ∈ V ∧ w ∉ S) ∧
    ¬ ∃ b ∈ spreadsOf d v, Reachable (spreadsOf d) b v

/-- `spread_path_index_by_name` has exactly the names of the path as keys -/
def StackOk (idx : List (Name × Nat)) (S : List Name) : Prop := ∀ k, (alGet idx k).isSome = true ↔ k ∈ S

def fragUniverse : List Name := d.fragments.map (·.name)

theorem good_reach {V S : List Name} (hg : Good d V S) {b c : Name} (hr : Reachable (spreadsOf d) b c) :
    b ∈ V → b ∉ S → (d.fragByName c).isSome = true → c ∈ V ∧ c ∉ S := by
  induction hr with
  | refl => intro h1 h2 _; exact ⟨h1, h2⟩
  | @step a b' c hm hr ih =>
    intro h1 h2 hc
    cases hb' : d.fragByName b' with
    | none =>
      have := reachable_undefined d hb' hr
      subst this
      rw [hb'] at hc; cases hc
    | some fd =>
      obtain ⟨h3, h4⟩ := (hg a h1 h2).1 b' hm (by rw [hb']; rfl)
      exact ih h3 h4 hc

theorem unmarked_lt_of {α : Type} [DecidableEq α] (U : List α) {V V' : List α} {x : α} (hx : x ∈ U) (hv : x ∉ V)
    (hsub : ∀ z ∈ V, z ∈ V') (hx' : x ∈ V') : unmarked U V' < unmarked U V := by
  have h1 := unmarked_lt U hx hv
  have h2 : unmarked U V' ≤ unmarked U (V ++ [x]) := unmarked_le_of_subset U (by
    intro z hz
    rcases List.mem_append.1 hz with h | h
    · exact hsub z h
    · simp only [List.mem_singleton] at h; subst h; exact hx')
  omega

/-- the statement proved about one call of `detect_cycles` at fuel `n` -/
def DetectSpec (n : Nat) : Prop :=
  ∀ (frag : FragDef) (path : List SpreadNode) (idx : List (Name × Nat)) (st : CycleState) (S : List Name),
    frag ∈ d.fragments → StackOk idx S → frag.name ∉ S →
    (∀ k ∈ S, Reachable (spreadsOf d) k frag.name) → (∀ k ∈ S, k ∈ st.visited) →
    st.stuck = false → unmarked (fragUniverse d) st.visited < n →
    let st' := detectCycles d n frag path idx st
    (∀ z ∈ st.visited, z ∈ st'.visited) ∧ st'.stuck = false ∧ frag.name ∈ st'.visited ∧
    ∃ new, st'.errs = st.errs ++ new ∧ (new ≠ [] → FragmentCycle d) ∧
      (new = [] → Good d st.visited S → Good d st'.visited S)

/-- the spreads of one fragment, scanned one after the other -/
theorem cycle_fold (n : Nat) (ih : DetectSpec d n) (frag : FragDef) (hf : frag ∈ d.fragments)
    (path : List SpreadNode) (idx' : List (Name × Nat)) (S' : List Name) (hS' : StackOk idx' S')
    (hreach : ∀ k ∈ S', Reachable (spreadsOf d) k frag.name) :
    ∀ (sps : List SpreadNode) (st : CycleState), (∀ sp ∈ sps, sp ∈ recursiveSpreads frag.sel) →
      (∀ k ∈ S', k ∈ st.visited) → st.stuck = false → unmarked (fragUniverse d) st.visited < n →
      let st' := sps.foldl (cycleStep d (detectCycles d n) path idx') st
      (∀ z ∈ st.visited, z ∈ st'.visited) ∧ st'.stuck = false ∧
      ∃ new, st'.errs = st.errs ++ new ∧ (new ≠ [] → FragmentCycle d) ∧
        (new = [] → Good d st.visited S' →
          Good d st'.visited S' ∧
          ∀ sp ∈ sps, (d.fragByName sp.name).isSome = true → sp.name ∈ st'.visited ∧ sp.name ∉ S')
  | [], st, _, _, hst, _ => by
      refine ⟨fun _ h => h, hst, [], by simp, fun h => absurd rfl h, fun _ hg => ⟨hg, fun _ h => by simp at h⟩⟩
  | sp :: sps, st, hsps, hSv, hst, hum => by
      have hsp : sp ∈ recursiveSpreads frag.sel := hsps sp (by simp)
      have hedge : sp.name ∈ spreadsOf d frag.name := spreadsOf_mem_of_mem d hf hsp
      simp only [List.foldl_cons]
      cases hidx : alGet idx' sp.name with
      | some ci =>
        -- a spread of a name on the path: reported, and it is a cycle
        have hon : sp.name ∈ S' := (hS' sp.name).1 (by rw [hidx]; rfl)
        have hcyc : FragmentCycle d := ⟨frag.name, sp.name, hedge, hreach sp.name hon⟩
        have hstep : cycleStep d (detectCycles d n) path idx' st sp =
            { st with errs := st.errs ++ [cycleError sp.name ((path ++ [sp]).drop ci)] } := by
          simp only [cycleStep, hidx]
        rw [hstep]
        obtain ⟨hm, hs, new, he, _, _⟩ := cycle_fold n ih frag hf path idx' S' hS' hreach sps
          { st with errs := st.errs ++ [cycleError sp.name ((path ++ [sp]).drop ci)] }
          (fun x hx => hsps x (by simp [hx])) hSv hst hum
        refine ⟨hm, hs, [cycleError sp.name ((path ++ [sp]).drop ci)] ++ new, ?_, fun _ => hcyc, fun h => by simp at h⟩
        rw [he]; simp [List.append_assoc]
      | none =>
        have hoff : sp.name ∉ S' := fun h => by
          have := (hS' sp.name).2 h; rw [hidx] at this; cases this
        cases hfd : d.fragByName sp.name with
        | none =>
          have hstep : cycleStep d (detectCycles d n) path idx' st sp = st := by
            simp only [cycleStep, hidx, hfd]
          rw [hstep]
          obtain ⟨hm, hs, new, he, h1, h2⟩ := cycle_fold n ih frag hf path idx' S' hS' hreach sps st
            (fun x hx => hsps x (by simp [hx])) hSv hst hum
          refine ⟨hm, hs, new, he, h1, fun hn hg => ?_⟩
          obtain ⟨hg', hx⟩ := h2 hn hg
          refine ⟨hg', fun x hx' hdef => ?_⟩
          rcases List.mem_cons.1 hx' with rfl | hx'
          · rw [hfd] at hdef; cases hdef
          · exact hx x hx' hdef
        | some fd =>
          obtain ⟨hfdm, hfdn⟩ := fragByName_some_mem d hfd
          have hstep : cycleStep d (detectCycles d n) path idx' st sp = detectCycles d n fd (path ++ [sp]) idx' st := by
            simp only [cycleStep, hidx, hfd]
          rw [hstep]
          have hcall := ih fd (path ++ [sp]) idx' st S' hfdm hS' (by rw [hfdn]; exact hoff)
            (fun k hk => by rw [hfdn]; exact (hreach k hk).tail hedge) hSv hst hum
          obtain ⟨hm1, hs1, hin1, new1, he1, hc1, hg1⟩ := hcall
          have hum1 : unmarked (fragUniverse d) (detectCycles d n fd (path ++ [sp]) idx' st).visited < n :=
            Nat.lt_of_le_of_lt (unmarked_le_of_subset _ hm1) hum
          obtain ⟨hm2, hs2, new2, he2, hc2, hg2⟩ := cycle_fold n ih frag hf path idx' S' hS' hreach sps
            (detectCycles d n fd (path ++ [sp]) idx' st)
            (fun x hx => hsps x (by simp [hx])) (fun k hk => hm1 k (hSv k hk)) hs1 hum1
          refine ⟨fun z hz => hm2 z (hm1 z hz), hs2, new1 ++ new2, ?_, ?_, ?_⟩
          · rw [he2, he1, List.append_assoc]
          · intro hne
            by_cases h1 : new1 = []
            · subst h1; exact hc2 (by simpa using hne)
            · exact hc1 h1
          · intro hnil hg
            have h1 : new1 = [] := (List.append_eq_nil_iff.1 hnil).1
            have h2 : new2 = [] := (List.append_eq_nil_iff.1 hnil).2
            obtain ⟨hg', hx⟩ := hg2 h2 (hg1 h1 hg)
            refine ⟨hg', fun x hx' hdef => ?_⟩
            rcases List.mem_cons.1 hx' with rfl | hx'
            · exact ⟨hm2 _ (by rw [← hfdn]; exact hin1), hoff⟩
            · exact hx x hx' hdef

theorem detectCycles_succ (n : Nat) (frag : FragDef) (path : List SpreadNode) (idx : List (Name × Nat))
    (st : CycleState) (hv : st.visited.contains frag.name = false) :
    detectCycles d (n + 1) frag path idx st =
      (recursiveSpreads frag.sel).foldl (cycleStep d (detectCycles d n) path (alInsert idx frag.name path.length))
        { st with visited := frag.name :: st.visited } := by
  simp only [detectCycles, hv, Bool.false_eq_true, if_false]
  split
  · rename_i he
    have : recursiveSpreads frag.sel = [] := by simpa using he
    rw [this]; rfl
  · rfl

theorem detect_spec (hn : (d.fragments.map (·.name)).Nodup) : ∀ n, DetectSpec d n
  | 0 => by
      intro frag path idx st S _ _ _ _ _ _ hum
      omega
  | n + 1 => by
      intro frag path idx st S hf hS hfS hreach hSv hst hum
      by_cases hv : st.visited.contains frag.name = true
      · have : detectCycles d (n + 1) frag path idx st = st := by simp only [detectCycles, hv, if_true]
        simp only [this]
        exact ⟨fun _ h => h, hst, by simpa using hv, [], by simp, fun h => absurd rfl h, fun _ hg => hg⟩
      · have hv0 : st.visited.contains frag.name = false := by simpa using hv
        have hv' : frag.name ∉ st.visited := by simpa using hv0
        simp only [detectCycles_succ d n frag path idx st hv0]
        have hU : frag.name ∈ fragUniverse d := List.mem_map.2 ⟨frag, hf, rfl⟩
        have hum1 : unmarked (fragUniverse d) (frag.name :: st.visited) < n := by
          have := unmarked_lt_of (fragUniverse d) (V' := frag.name :: st.visited) hU hv'
            (fun z hz => List.mem_cons_of_mem _ hz) (List.mem_cons_self ..)
          omega
        have hS' : StackOk (alInsert idx frag.name path.length) (frag.name :: S) := by
          intro k
          rw [alGet_alInsert]
          by_cases hk : k = frag.name
          · simp [hk]
          · simp only [hk, if_false, List.mem_cons, false_or]; exact hS k
        have hreach' : ∀ k ∈ frag.name :: S, Reachable (spreadsOf d) k frag.name := by
          intro k hk
          rcases List.mem_cons.1 hk with rfl | hk
          · exact .refl _
          · exact hreach k hk
        obtain ⟨hm, hs, new, he, hc, hg⟩ := cycle_fold d n (detect_spec hn n) frag hf path _ (frag.name :: S) hS' hreach'
          (recursiveSpreads frag.sel) { st with visited := frag.name :: st.visited } (fun _ h => h)
          (by
            intro k hk
            rcases List.mem_cons.1 hk with rfl | hk
            · exact List.mem_cons_self ..
            · exact List.mem_cons_of_mem _ (hSv k hk))
          hst hum1
        refine ⟨fun z hz => hm z (List.mem_cons_of_mem _ hz), hs, hm _ (List.mem_cons_self ..), new, he, hc, ?_⟩
        intro hnil hgood
        -- Step A: marking `frag` and putting it on the path keeps the finished set
        have hA : Good d (frag.name :: st.visited) (frag.name :: S) := by
          intro v hvV hvS
          have hne : v ≠ frag.name := fun h => hvS (by rw [h]; exact List.mem_cons_self ..)
          have hvV' : v ∈ st.visited := by
            rcases List.mem_cons.1 hvV with h | h
            · exact absurd h hne
            · exact h
          have hvS' : v ∉ S := fun h => hvS (List.mem_cons_of_mem _ h)
          obtain ⟨h1, h2⟩ := hgood v hvV' hvS'
          refine ⟨fun w hw hdef => ?_, h2⟩
          obtain ⟨h3, h4⟩ := h1 w hw hdef
          refine ⟨List.mem_cons_of_mem _ h3, fun h => ?_⟩
          rcases List.mem_cons.1 h with h | h
          · rw [h] at h3; exact hv' h3
          · exact h4 h
        obtain ⟨hB, hX⟩ := hg hnil hA
        -- Step C: `frag` leaves the path and is finished
        intro v hvV hvS
        by_cases hvS' : v ∈ frag.name :: S
        · have hveq : v = frag.name := by
            rcases List.mem_cons.1 hvS' with h | h
            · exact h
            · exact absurd h hvS
          subst hveq
          have hE := spreadsOf_of_nodup d hn hf
          refine ⟨fun w hw hdef => ?_, ?_⟩
          · rw [hE] at hw
            obtain ⟨sp, hsp, rfl⟩ := List.mem_map.1 hw
            obtain ⟨h1, h2⟩ := hX sp hsp hdef
            exact ⟨h1, fun h => h2 (List.mem_cons_of_mem _ h)⟩
          · rintro ⟨b, hb, hr⟩
            have hfdef := fragByName_isSome_of_mem d hf
            have hbdef : (d.fragByName b).isSome = true := by
              cases hbn : d.fragByName b with
              | none =>
                have := reachable_undefined d hbn hr
                rw [this, hbn] at hfdef; cases hfdef
              | some _ => rfl
            rw [hE] at hb
            obtain ⟨sp, hsp, rfl⟩ := List.mem_map.1 hb
            obtain ⟨h1, h2⟩ := hX sp hsp hbdef
            exact (good_reach d hB hr h1 h2 hfdef).2 (List.mem_cons_self ..)
        · obtain ⟨h1, h2⟩ := hB v hvV hvS'
          refine ⟨fun w hw hdef => ?_, h2⟩
          obtain ⟨h3, h4⟩ := h1 w hw hdef
          exact ⟨h3, fun h => h4 (List.mem_cons_of_mem _ h)⟩

end
end Gql
