/-
  Lemmas/Dfs.lean — the depth-first marking `dfs` computes graph reachability: what it marks is
  exactly what is reachable from the roots, and with fuel above the number of nodes it never
  runs out.
-/
import GqlVerif.Model.Rules.Basic
import GqlVerif.Spec.Graph
namespace Gql
open Gql.Spec

section
variable {α : Type} [DecidableEq α]

/-- what a marking pass from `roots` guarantees about the marks before (`r`) and after (`r'`) -/
structure DfsPost (succ : α → List α) (r r' : Reach α) (roots : List α) : Prop where
  mono : ∀ z ∈ r.visited, z ∈ r'.visited
  sound : ∀ z ∈ r'.visited, z ∈ r.visited ∨ ∃ x ∈ roots, Reachable succ x z
  stuckMono : r'.stuck = false → r.stuck = false
  roots : r'.stuck = false → ∀ x ∈ roots, x ∈ r'.visited
  closed : r'.stuck = false → ∀ y ∈ r'.visited, y ∉ r.visited → ∀ w ∈ succ y, w ∈ r'.visited

theorem DfsPost.id (succ : α → List α) (r : Reach α) : DfsPost succ r r [] where
  mono := fun _ h => h
  sound := fun _ h => Or.inl h
  stuckMono := fun h => h
  roots := fun _ x hx => by simp at hx
  closed := fun _ y hy hn => absurd hy hn

theorem dfs_succ (succ : α → List α) (n : Nat) (x : α) (r : Reach α) :
    dfs succ (n + 1) x r =
      if r.visited.contains x then r
      else (succ x).foldl (fun r y => dfs succ n y r) { r with visited := r.visited ++ [x] } := rfl

theorem DfsPost.comp {succ : α → List α} {r r1 r2 : Reach α} {A B : List α}
    (h1 : DfsPost succ r r1 A) (h2 : DfsPost succ r1 r2 B) : DfsPost succ r r2 (A ++ B) where
  mono := fun z hz => h2.mono z (h1.mono z hz)
  sound := fun z hz => by
    rcases h2.sound z hz with h | ⟨x, hx, hr⟩
    · rcases h1.sound z h with h | ⟨x, hx, hr⟩
      · exact Or.inl h
      · exact Or.inr ⟨x, List.mem_append_left _ hx, hr⟩
    · exact Or.inr ⟨x, List.mem_append_right _ hx, hr⟩
  stuckMono := fun h => h1.stuckMono (h2.stuckMono h)
  roots := fun h x hx => by
    rcases List.mem_append.1 hx with hx | hx
    · exact h2.mono x (h1.roots (h2.stuckMono h) x hx)
    · exact h2.roots h x hx
  closed := fun h y hy hn w hw => by
    by_cases hy1 : y ∈ r1.visited
    · exact h2.mono w (h1.closed (h2.stuckMono h) y hy1 hn w hw)
    · exact h2.closed h y hy hy1 w hw

/-- marking from a list of roots, one after the other -/
def dfsList (succ : α → List α) (n : Nat) (ys : List α) (r : Reach α) : Reach α :=
  ys.foldl (fun r y => dfs succ n y r) r

theorem dfsList_post (succ : α → List α) (n : Nat)
    (ih : ∀ x r, DfsPost succ r (dfs succ n x r) [x]) :
    ∀ (ys : List α) (r : Reach α), DfsPost succ r (dfsList succ n ys r) ys
  | [], r => DfsPost.id succ r
  | y :: ys, r => by
      have h1 := ih y r
      have h2 := dfsList_post succ n ih ys (dfs succ n y r)
      exact DfsPost.comp h1 h2

theorem dfs_post (succ : α → List α) : ∀ (n : Nat) (x : α) (r : Reach α), DfsPost succ r (dfs succ n x r) [x]
  | 0, x, r => by
      refine ⟨fun _ h => h, fun _ h => Or.inl h, ?_, ?_, ?_⟩ <;> intro h <;> simp [dfs] at h
  | n + 1, x, r => by
      by_cases hx : r.visited.contains x = true
      · have : dfs succ (n + 1) x r = r := by rw [dfs_succ, if_pos hx]
        rw [this]
        refine ⟨fun _ h => h, fun _ h => Or.inl h, fun h => h, ?_, fun _ y hy hn => absurd hy hn⟩
        intro _ z hz
        simp only [List.mem_singleton] at hz
        subst hz
        simpa using hx
      · have hx' : x ∉ r.visited := by simpa using hx
        have hd : dfs succ (n + 1) x r = dfsList succ n (succ x) { r with visited := r.visited ++ [x] } := by
          rw [dfs_succ, if_neg hx]; rfl
        rw [hd]
        have hf := dfsList_post succ n (dfs_post succ n) (succ x) { r with visited := r.visited ++ [x] }
        refine ⟨?_, ?_, ?_, ?_, ?_⟩
        · intro z hz; exact hf.mono z (by simp [hz])
        · intro z hz
          rcases hf.sound z hz with h | ⟨y, hy, hr⟩
          · simp only [List.mem_append, List.mem_singleton] at h
            rcases h with h | h
            · exact Or.inl h
            · subst h; exact Or.inr ⟨z, by simp, .refl z⟩
          · exact Or.inr ⟨x, by simp, .step hy hr⟩
        · intro h; exact hf.stuckMono h
        · intro h z hz
          simp only [List.mem_singleton] at hz
          subst hz
          exact hf.mono z (by simp)
        · intro h y hy hn w hw
          by_cases hy0 : y ∈ r.visited ++ [x]
          · simp only [List.mem_append, List.mem_singleton] at hy0
            rcases hy0 with hy0 | hy0
            · exact absurd hy0 hn
            · subst hy0; exact hf.roots h w hw
          · exact hf.closed h y hy hy0 w hw

/-- marks from an empty start: exactly the nodes reachable from the roots -/
theorem mem_dfsList_iff (succ : α → List α) (n : Nat) (roots : List α)
    (hns : (dfsList succ n roots {}).stuck = false) (z : α) :
    z ∈ (dfsList succ n roots {}).visited ↔ ∃ x ∈ roots, Reachable succ x z := by
  have hp := dfsList_post succ n (dfs_post succ n) roots {}
  constructor
  · intro hz
    rcases hp.sound z hz with h | h
    · simp at h
    · exact h
  · rintro ⟨x, hx, hr⟩
    have hx' := hp.roots hns x hx
    clear hx
    induction hr with
    | refl => exact hx'
    | step hm _ ih => exact ih (hp.closed hns _ hx' (by simp) _ hm)

/-! ### enough fuel -/

/-- nodes of `U` not yet marked -/
def unmarked (U V : List α) : Nat := (U.filter fun u => !V.contains u).length

theorem unmarked_le_of_subset (U : List α) {V V' : List α} (h : ∀ z ∈ V, z ∈ V') : unmarked U V' ≤ unmarked U V := by
  induction U with
  | nil => simp [unmarked]
  | cons u U ih =>
    by_cases hu : u ∈ V
    · have hu' : u ∈ V' := h u hu
      simp only [unmarked, List.filter_cons, List.contains_eq_mem, hu, hu', decide_true, Bool.not_true,
        Bool.false_eq_true, if_false] at ih ⊢
      exact ih
    · by_cases hu' : u ∈ V'
      · simp only [unmarked, List.filter_cons, List.contains_eq_mem, hu, hu', decide_true, decide_false, Bool.not_true,
          Bool.not_false, Bool.false_eq_true, if_false, if_true, List.length_cons] at ih ⊢
        omega
      · simp only [unmarked, List.filter_cons, List.contains_eq_mem, hu, hu', decide_false,
          Bool.not_false, if_true, List.length_cons] at ih ⊢
        omega

theorem unmarked_lt (U : List α) {V : List α} {x : α} (hx : x ∈ U) (hv : x ∉ V) :
    unmarked U (V ++ [x]) < unmarked U V := by
  induction U with
  | nil => simp at hx
  | cons u U ih =>
    have hle : unmarked U (V ++ [x]) ≤ unmarked U V := unmarked_le_of_subset U (fun z hz => by simp [hz])
    by_cases hux : u = x
    · subst hux
      have h2 : u ∈ V ++ [u] := by simp
      simp only [unmarked, List.filter_cons, List.contains_eq_mem, hv, h2, decide_true, decide_false, Bool.not_true,
        Bool.not_false, Bool.false_eq_true, if_false, if_true, List.length_cons] at hle ⊢
      omega
    · have hxU : x ∈ U := by
        rcases List.mem_cons.1 hx with h | h
        · exact absurd h.symm hux
        · exact h
      have ih' := ih hxU
      by_cases hu : u ∈ V
      · have hu' : u ∈ V ++ [x] := by simp [hu]
        simp only [unmarked, List.filter_cons, List.contains_eq_mem, hu, hu', decide_true, Bool.not_true,
          Bool.false_eq_true, if_false] at ih' ⊢
        exact ih'
      · have hu' : u ∉ V ++ [x] := by simp [hu, hux]
        simp only [unmarked, List.filter_cons, List.contains_eq_mem, hu, hu', decide_false,
          Bool.not_false, if_true, List.length_cons] at ih' ⊢
        omega

theorem dfsList_not_stuck (succ : α → List α) (U : List α) (n : Nat)
    (ih : ∀ x r, x ∈ U → r.stuck = false → unmarked U r.visited < n → (dfs succ n x r).stuck = false) :
    ∀ (ys : List α) (r : Reach α), (∀ y ∈ ys, y ∈ U) → r.stuck = false → unmarked U r.visited < n →
      (dfsList succ n ys r).stuck = false
  | [], r, _, hr, _ => hr
  | y :: ys, r, hys, hr, hc => by
      have h1 := ih y r (hys y (by simp)) hr hc
      have hm := (dfs_post succ n y r).mono
      have hc' : unmarked U (dfs succ n y r).visited < n :=
        Nat.lt_of_le_of_lt (unmarked_le_of_subset U hm) hc
      exact dfsList_not_stuck succ U n ih ys _ (fun z hz => hys z (by simp [hz])) h1 hc'

/-- with more fuel than unmarked nodes of a successor-closed universe, marking never runs out -/
theorem dfs_not_stuck (succ : α → List α) (U : List α) (hU : ∀ u ∈ U, ∀ w ∈ succ u, w ∈ U) :
    ∀ (n : Nat) (x : α) (r : Reach α), x ∈ U → r.stuck = false → unmarked U r.visited < n →
      (dfs succ n x r).stuck = false
  | 0, _, _, _, _, hc => by omega
  | n + 1, x, r, hx, hr, hc => by
      by_cases hv : r.visited.contains x = true
      · rw [dfs_succ, if_pos hv]; exact hr
      · have hv' : x ∉ r.visited := by simpa using hv
        have hd : dfs succ (n + 1) x r = dfsList succ n (succ x) { r with visited := r.visited ++ [x] } := by
          rw [dfs_succ, if_neg hv]; rfl
        rw [hd]
        have hlt := unmarked_lt U hx hv'
        exact dfsList_not_stuck succ U n (dfs_not_stuck succ U hU n) (succ x) _ (hU x hx) hr (by simp only; omega)

theorem dfsList_roots_not_stuck (succ : α → List α) (U : List α) (hU : ∀ u ∈ U, ∀ w ∈ succ u, w ∈ U)
    (n : Nat) (roots : List α) (hr : ∀ y ∈ roots, y ∈ U) (hn : U.length < n) :
    (dfsList succ n roots {}).stuck = false := by
  refine dfsList_not_stuck succ U n (dfs_not_stuck succ U hU n) roots {} hr rfl ?_
  have : unmarked U ([] : List α) ≤ U.length := List.length_filter_le _ _
  exact Nat.lt_of_le_of_lt this hn

end
end Gql
