/-
  Driver/ExtOps.lean — answers to the `ext` queries (C18) from the model.  Driver-only code.
-/
import GqlVerif.Driver.Decode
import GqlVerif.Driver.Render
open Lean
namespace Gql.Driver

def bits (l : List Bool) : String := String.ofList (l.map fun b => if b then '1' else '0')

def fieldJ (j : Json) (k : String) : D Json :=
  match j.getObjVal? k with
  | .ok v => pure v
  | .error _ => throw s!"missing key {k}"

def matrix {α β} (xs : List α) (ys : List β) (f : α → β → Bool) : String :=
  bits (xs.flatMap fun a => ys.map fun b => f a b)

def kindName (t : Option TypeDef) : Json :=
  match t with | some t => Json.str (rTypeDef t) | none => Json.str "-"

def optNat : Option Nat → Json | some n => (n : Json) | none => Json.null
def optStr : Option String → Json | some n => Json.str n | none => Json.null

def sortNat (l : List Nat) : List Nat := (l.toArray.qsort (· < ·)).toList

def allInputDefs (s : Schema) : List InputValueDef :=
  s.types.flatMap fun t =>
    match t with
    | .object _ _ fs | .interface _ _ fs => fs.flatMap (·.args)
    | .inputObject _ fs => fs
    | _ => []

def extOp (s : Schema) (j : Json) : D Json := do
  let fn ← str (← fieldJ j "fn")
  match fn with
  | "subtype" =>
    let refs ← listOf ty (← fieldJ j "refs")
    pure (Json.str (matrix refs refs fun a b => s.isSubtype a b))
  | "namedSubtype" =>
    let ns ← listOf nat (← fieldJ j "names")
    pure (Json.str (matrix ns ns fun a b => s.isNamedSubtype a b))
  | "possibleType" =>
    let ns ← listOf nat (← fieldJ j "names")
    let ds := ns.filterMap s.typeByName
    pure (Json.str (matrix ds ds fun a b => isPossibleType a b))
  | "overlap" =>
    let ns ← listOf nat (← fieldJ j "names")
    let ds := ns.filterMap s.typeByName
    pure (Json.str (matrix ds ds fun a b => doTypesOverlap s a b))
  | "possible" =>
    let n ← nat (← fieldJ j "name")
    match s.typeByName n with
    | none => throw "possible: unknown type"
    | some t => pure (Json.arr ((sortNat ((t.possibleTypes s).map (·.name))).map (fun (x : Nat) => (x : Json))).toArray)
  | "hasSubType" =>
    let ns ← listOf nat (← fieldJ j "names")
    let ds := ns.filterMap s.typeByName
    pure (Json.str (matrix ds ds fun a b => a.hasSubType b))
  | "hasConcreteSubType" =>
    let ns ← listOf nat (← fieldJ j "names")
    let os ← listOf nat (← fieldJ j "objects")
    pure (Json.str (matrix (ns.filterMap s.typeByName) (os.filterMap s.typeByName) fun a b => a.hasConcreteSubType b))
  | "lookup" =>
    let ns ← listOf nat (← fieldJ j "names")
    pure (Json.arr (ns.map fun n => Json.arr #[kindName (s.typeByName n), optNat ((s.directiveByName n).map (·.name)),
      optNat ((s.objectTypeByName n).map (·.name)), kindName (s.typeMapGet n)]).toArray)
  | "roots" =>
    pure (Json.arr #[(match s.queryType with | some t => (t.name : Json) | none => Json.str "panic"),
      optNat (s.mutationType.map (·.name)), optNat (s.subscriptionType.map (·.name))])
  | "kinds" =>
    let ns ← listOf nat (← fieldJ j "names")
    pure (Json.arr ((ns.filterMap s.typeByName).map fun t => Json.str (bits [t.isLeaf, t.isComposite, t.isInput, t.isObject,
      t.isUnion, t.isInterface, t.isEnum, t.isScalar, t.isAbstract])).toArray)
  | "fields" =>
    let ns ← listOf nat (← fieldJ j "names")
    let fs ← listOf nat (← fieldJ j "fields")
    pure (Json.arr ((ns.filterMap s.typeByName).map fun t => Json.arr (fs.map fun f =>
      Json.arr #[optStr ((t.fieldByName f).map fun x => rTy x.ty), optStr ((t.inputFieldByName f).map fun x => rTy x.ty)]).toArray).toArray)
  | "required" => pure (Json.str (bits ((allInputDefs s).map (·.isRequired))))
  | "tyHelpers" =>
    let refs ← listOf ty (← fieldJ j "refs")
    pure (Json.arr (refs.map fun t => Json.arr #[(t.inner : Json), Json.str (rTy t.ofType),
      Json.str (bits [t.isNonNull, t.isList, t.isNamed])]).toArray)
  | "compare" =>
    let vs ← listOf value (← fieldJ j "values")
    pure (Json.str (matrix vs vs fun a b => a.compare b))
  | "varsInUse" =>
    let vs ← listOf value (← fieldJ j "values")
    pure (Json.arr (vs.map fun v => Json.arr (v.variablesInUse.map fun (n : Nat) => (n : Json)).toArray).toArray)
  | "spreads" =>
    let d ← document (← fieldJ j "doc")
    pure (Json.arr (d.map fun df =>
      let sel := match df with | .op o => o.sel | .frag f => f.sel
      Json.arr #[Json.arr ((directSpreads sel).map fun sp => (sp.name : Json)).toArray,
                 Json.arr ((recursiveSpreads sel).map fun sp => (sp.name : Json)).toArray]).toArray)
  | _ => throw s!"unknown ext fn {fn}"

end Gql.Driver
