/-
  Driver/Encode.lean — model AST → wire JSON (inverse of Driver/Decode).  Driver-only code.
-/
import Lean.Data.Json
import GqlVerif.Model.Ast
open Lean
namespace Gql.Driver

def jNat (n : Nat) : Json := (n : Json)
def jOpt {α} (f : α → Json) : Option α → Json | some a => f a | none => Json.null
def jList {α} (f : α → Json) (l : List α) : Json := Json.arr (l.map f).toArray
def jPos (p : Pos) : Json := Json.arr #[jNat p.line, jNat p.col]

def jTy : Ty → Json
  | .named n => Json.arr #["n", jNat n]
  | .list t => Json.arr #["l", jTy t]
  | .nonNull t => Json.arr #["nn", jTy t]

partial def jValue : Value → Json
  | .var n => Json.arr #["var", jNat n]
  | .int i => Json.arr #["int", Json.str (toString i)]
  | .float f => Json.arr #["flt", jNat f]
  | .str x => Json.arr #["str", jNat x]
  | .bool b => Json.arr #["bool", Json.bool b]
  | .null => Json.arr #["null"]
  | .enum n => Json.arr #["enum", jNat n]
  | .list vs => Json.arr #["list", jList jValue vs]
  | .obj fs => Json.arr #["obj", jList (fun (kv : Gql.Name × Value) => Json.arr #[jNat kv.1, jValue kv.2]) fs]

def jArg (a : Arg) : Json := Json.arr #[jNat a.1, jValue a.2]
def jDirective (d : Directive) : Json := Json.arr #[jPos d.pos, jNat d.name, jList jArg d.args]

partial def jSelection : Selection → Json
  | .field pos alias name args dirs sel =>
      Json.arr #["f", jPos pos, jOpt jNat alias, jNat name, jList jArg args, jList jDirective dirs, jList jSelection sel]
  | .spread pos name dirs => Json.arr #["s", jPos pos, jNat name, jList jDirective dirs]
  | .inline pos tc dirs sel => Json.arr #["i", jPos pos, jOpt jNat tc, jList jDirective dirs, jList jSelection sel]

def jVarDef (v : VarDef) : Json := Json.arr #[jPos v.pos, jNat v.name, jTy v.ty, jOpt jValue v.default]

def jDefinition : Definition → Json
  | .op o =>
      if o.kind == .shorthand then Json.arr #["ss", jList jSelection o.sel]
      else
        let tag := match o.kind with | .query => "q" | .mutation => "m" | .subscription => "sub" | .shorthand => "ss"
        Json.arr #[tag, jPos o.pos, jOpt jNat o.name, jList jVarDef o.vars, jList jDirective o.dirs, jList jSelection o.sel]
  | .frag f => Json.arr #["frag", jPos f.pos, jNat f.name, jNat f.tc, jList jDirective f.dirs, jList jSelection f.sel]

def jDocument (d : Document) : Json := jList jDefinition d

end Gql.Driver
