/-
  Driver/Messages.lean — renders `Msg` exactly like the `format!` calls of the rules.
-/
import GqlVerif.Model.Validate
import GqlVerif.Driver.Render
namespace Gql.Driver

abbrev Tab := Array String

def nm (t : Tab) (n : Name) : String := t.getD n s!"<{n}>"

def dTy (t : Tab) : Ty → String
  | .named n => nm t n
  | .list x => "[" ++ dTy t x ++ "]"
  | .nonNull x => dTy t x ++ "!"

partial def dValue (t : Tab) : Value → String
  | .var n => "$" ++ nm t n
  | .int i => toString i
  | .float f => nm t f
  | .str x => "\"" ++ nm t x ++ "\""
  | .bool b => if b then "true" else "false"
  | .null => "null"
  | .enum n => nm t n
  | .list vs => "[" ++ ", ".intercalate (vs.map (dValue t)) ++ "]"
  | .obj fs => "{" ++ ", ".intercalate (fs.map fun (k, v) => nm t k ++ ": " ++ dValue t v) ++ "}"

def dLoc : DirLoc → String
  | .query => "QUERY" | .mutation => "MUTATION" | .subscription => "SUBSCRIPTION" | .field => "FIELD"
  | .fragmentDefinition => "FRAGMENT_DEFINITION" | .fragmentSpread => "FRAGMENT_SPREAD"
  | .inlineFragment => "INLINE_FRAGMENT" | .other n => s!"OTHER{n}"

partial def dReason (t : Tab) : Reason → String
  | .differentFields a b => s!"\"{nm t a}\" and \"{nm t b}\" are different fields"
  | .differingArguments => "they have differing arguments"
  | .conflictingTypes a b => s!"they return conflicting types \"{dTy t a}\" and \"{dTy t b}\""
  | .nested subs => " and ".intercalate (subs.map fun (k, r) =>
      s!"subfields \"{nm t k}\" conflict because {dReason t r}")

def opSuffix (t : Tab) (what : String) : Option Name → String
  | some n => s!"Subscription \"{nm t n}\" {what}"
  | none => s!"Anonymous Subscription {what}"

def renderMsg (t : Tab) : Msg → String
  | .uniqueOperationName n => s!"There can be only one operation named \"{nm t n}\"."
  | .loneAnonymous => "This anonymous operation must be the only defined operation."
  | .subscriptionSingle op => opSuffix t "must select only one top level field." op
  | .subscriptionIntrospection op => opSuffix t "must not select an introspection top level field." op
  | .unknownType n => s!"Unknown type \"{nm t n}\"."
  | .inlineOnNonComposite n => s!"Fragment cannot condition on non composite type \"{nm t n}\"."
  | .fragmentOnNonComposite f n => s!"Fragment \"{nm t f}\" cannot condition on non composite type \"{nm t n}\"."
  | .variableNonInput v ty => s!"Variable \"${nm t v}\" cannot be non-input type \"{dTy t ty}\"."
  | .leafWithSelection f ty => s!"Field \"{nm t f}\" must not have a selection since type \"{dTy t ty}\" has no subfields."
  | .compositeWithoutSelection f ty =>
      s!"Field \"{nm t f}\" of type \"{dTy t ty}\" must have a selection of subfields. Did you mean \"{nm t f} " ++ "{ ... }\"?"
  | .typenameAtSubscriptionRoot => "`__typename` may not be included as a root field in a subscription operation"
  | .cannotQueryField f ty => s!"Cannot query field \"{nm t f}\" on type \"{nm t ty}\"."
  | .uniqueFragmentName n => s!"There can be only one fragment named \"{nm t n}\"."
  | .unknownFragment n => s!"Unknown fragment \"{nm t n}\"."
  | .unusedFragment n => s!"Fragment \"{nm t n}\" is never used."
  | .fieldsConflict k r =>
      s!"Fields \"{nm t k}\" conflict because {dReason t r}. Use different aliases on the fields to fetch both if this was intentional."
  | .cycleSelf n => s!"Cannot spread fragment \"{nm t n}\" within itself."
  | .cycleVia n via =>
      s!"Cannot spread fragment \"{nm t n}\" within itself via " ++ ", ".intercalate (via.map fun x => s!"\"{nm t x}\"") ++ "."
  | .inlineNotSpreadable p f =>
      s!"Fragment cannot be spread here as objects of type \"{nm t p}\" can never be of type \"{nm t f}\"."
  | .fragmentNotSpreadable fr p ft =>
      s!"Fragment \"{nm t fr}\" cannot be spread here as objects of type \"{nm t p}\" can never be of type \"{nm t ft}\"."
  | .unusedVariable v op => (match op with
      | some o => s!"Variable \"${nm t v}\" is never used in operation \"{nm t o}\"."
      | none => s!"Variable \"${nm t v}\" is never used.")
  | .undefinedVariable v op => (match op with
      | some o => s!"Variable \"${nm t v}\" is not defined by operation \"{nm t o}\"."
      | none => s!"Variable \"${nm t v}\" is not defined.")
  | .unknownArgOnField a ty f => s!"Unknown argument \"{nm t a}\" on field \"{nm t ty}.{nm t f}\"."
  | .unknownArgOnDirective a d => s!"Unknown argument \"{nm t a}\" on directive \"@{nm t d}\"."
  | .uniqueArgument n => s!"There can be only one argument named \"{nm t n}\"."
  | .uniqueVariable n => s!"There can only be one variable named \"${nm t n}\"."
  | .missingFieldArg f a ty =>
      s!"Field \"{nm t f}\" argument \"{nm t a}\" of type \"{dTy t ty}\" is required, but it was not provided."
  | .missingDirectiveArg d a ty =>
      s!"Directive \"@{nm t d}\" argument \"{nm t a}\" of type \"{dTy t ty}\" is required, but it was not provided."
  | .misplacedDirective d loc => s!"Directive \"@{nm t d}\" may not be used on {dLoc loc}"
  | .unknownDirective d => s!"Unknown directive \"@{nm t d}\"."
  | .badVariablePosition v a b =>
      s!"Variable \"${nm t v}\" of type \"{dTy t a}\" used in position expecting type \"{dTy t b}\"."
  | .expectedTypeFound n v => s!"Expected value of type \"{nm t n}\", found {dValue t v}."
  | .expectedNonNullFoundNull ty => s!"Expected value of type \"{dTy t ty}\", found null"
  | .enumValueMissing v e => s!"Value \"{nm t v}\" does not exist in \"{nm t e}\" enum."
  | .enumNonEnumValue e v => s!"Enum \"{nm t e}\" cannot represent non-enum value: {dValue t v}"
  | .requiredInputFieldMissing ty f fty => s!"Field \"{nm t ty}.{nm t f}\" of required type \"{dTy t fty}\" was not provided."
  | .unknownInputField f ty => s!"Field \"{nm t f}\" is not defined by type \"{nm t ty}\"."
  | .duplicateDirective n => s!"Duplicate directive \"{nm t n}\""

def ruleName : RuleId → String
  | .uniqueOperationNames => "UniqueOperationNames"
  | .loneAnonymousOperation => "LoneAnonymousOperation"
  | .singleFieldSubscriptions => "SingleFieldSubscriptions"
  | .knownTypeNames => "KnownTypeNames"
  | .fragmentsOnCompositeTypes => "FragmentsOnCompositeTypes"
  | .variablesAreInputTypes => "VariablesAreInputTypes"
  | .leafFieldSelections => "LeafFieldSelections"
  | .fieldsOnCorrectType => "FieldsOnCorrectType"
  | .uniqueFragmentNames => "UniqueFragmentNames"
  | .knownFragmentNames => "KnownFragmentNames"
  | .noUnusedFragments => "NoUnusedFragments"
  | .overlappingFieldsCanBeMerged => "OverlappingFieldsCanBeMerged"
  | .noFragmentsCycle => "NoFragmentsCycle"
  | .possibleFragmentSpreads => "PossibleFragmentSpreads"
  | .noUnusedVariables => "NoUnusedVariables"
  | .noUndefinedVariables => "NoUndefinedVariables"
  | .knownArgumentNames => "KnownArgumentNames"
  | .uniqueArgumentNames => "UniqueArgumentNames"
  | .uniqueVariableNames => "UniqueVariableNames"
  | .providedRequiredArguments => "ProvidedRequiredArguments"
  | .knownDirectives => "KnownDirectives"
  | .variablesInAllowedPosition => "VariablesInAllowedPosition"
  | .valuesOfCorrectType => "ValuesOfCorrectType"
  | .uniqueDirectivesPerLocation => "UniqueDirectivesPerLocation"

def renderErr (t : Tab) (e : Err) : String :=
  renderMsg t e.msg ++ " @" ++ ",".intercalate (e.locs.map rPos)

def sortStrings (l : List String) : List String := (l.toArray.qsort (· < ·)).toList

end Gql.Driver
