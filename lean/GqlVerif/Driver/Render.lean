/-
  Driver/Render.lean — canonical one-line renderings (in terms of interned ids) that the Rust
  harness produces identically from the real AST / real context.  Driver-only code.
-/
import GqlVerif.Model.Visitor
import GqlVerif.Model.SchemaVisitor
namespace Gql.Driver

def rTy : Ty → String
  | .named n => s!"n{n}"
  | .list t => "[" ++ rTy t ++ "]"
  | .nonNull t => rTy t ++ "!"

partial def rValue : Value → String
  | .var n => s!"${n}"
  | .int i => toString i
  | .float f => s!"f{f}"
  | .str x => s!"s{x}"
  | .bool b => if b then "true" else "false"
  | .null => "null"
  | .enum n => s!"e{n}"
  | .list vs => "[" ++ ",".intercalate (vs.map rValue) ++ "]"
  | .obj fs => "{" ++ ",".intercalate (fs.map fun (k, v) => s!"{k}:" ++ rValue v) ++ "}"

def rPos (p : Pos) : String := s!"{p.line}:{p.col}"
def rOptName : Option Name → String | some n => toString n | none => "-"

def rKind : OpKind → String
  | .query => "q" | .mutation => "m" | .subscription => "sub" | .shorthand => "ss"

def rNode : Node → String
  | .document _ => "doc"
  | .operation o =>
      if o.kind == .shorthand then "op:ss" else s!"op:{rKind o.kind}:{rPos o.pos}:{rOptName o.name}"
  | .fragmentDef f => s!"frag:{rPos f.pos}:{f.name}:{f.tc}"
  | .varDef v => s!"var:{rPos v.pos}:{v.name}:{rTy v.ty}"
  | .directive d => s!"dir:{rPos d.pos}:{d.name}"
  | .argument a => s!"arg:{a.1}={rValue a.2}"
  | .selectionSet s => s!"ss:{s.length}"
  | .field f => s!"field:{rPos f.pos}:{rOptName f.alias}:{f.name}"
  | .spread s => s!"spread:{rPos s.pos}:{s.name}"
  | .inline i => s!"inline:{rPos i.pos}:{rOptName i.tc}"
  | .nullValue => "null"
  | .scalar v => s!"scalar:{rValue v}"
  | .enumValue n => s!"enum:{n}"
  | .variable n => s!"variable:{n}"
  | .list vs => s!"list:{rValue (.list vs)}"
  | .object fs => s!"object:{rValue (.obj fs)}"
  | .objectField f => s!"ofield:{f.1}={rValue f.2}"

def rEv : Ev → String
  | .enter n => "+" ++ rNode n
  | .leave n => "-" ++ rNode n

def rTypeDef : TypeDef → String
  | .scalar n => s!"S{n}" | .object n _ _ => s!"O{n}" | .interface n _ _ => s!"I{n}"
  | .union n _ => s!"U{n}" | .enum n _ => s!"E{n}" | .inputObject n _ => s!"N{n}"

def rOpt {α} (f : α → String) : Option α → String | some a => f a | none => "-"

def rSnap (sn : Snap) : String :=
  s!"cur={rOpt rTypeDef sn.cur} lit={rOpt rTy sn.curLit} par={rOpt rTypeDef sn.parent} " ++
  s!"fld={rOpt (fun (f : FieldDef) => toString f.name) sn.field} inp={rOpt rTypeDef sn.inp} ilit={rOpt rTy sn.inpLit}" ++
  s!" | d={sn.dTy},{sn.dParent},{sn.dInp},{sn.dTyLit},{sn.dInpLit},{sn.dField}"

def rTraceLine (e : Ev × Snap) : String := rEv e.1 ++ " | " ++ rSnap e.2

def rSNode : SNode → String
  | .document => "doc"
  | .schemaDef d => s!"schema:{rOptName d.query},{rOptName d.mutation},{rOptName d.subscription}"
  | .directiveDef d => s!"directive:{d.name}"
  | .typeDef t => s!"type:{rTypeDef t}"
  | .objectType t => s!"object:{t.name}"
  | .objectField f o => s!"ofield:{f.name}@{o}"
  | .interfaceType t => s!"interface:{t.name}"
  | .interfaceField f o => s!"ifield:{f.name}@{o}"
  | .scalarType t => s!"scalar:{t.name}"
  | .enumType t => s!"enum:{t.name}"
  | .enumValue v o => s!"evalue:{v}@{o}"
  | .unionType t => s!"union:{t.name}"
  | .inputObjectType t => s!"input:{t.name}"
  | .inputField f o => s!"infield:{f.name}@{o}"

def rSEv : SEv → String
  | .enter n => "+" ++ rSNode n
  | .leave n => "-" ++ rSNode n

end Gql.Driver
