/-
  Driver/Decode.lean — JSON (wire format of DESIGN appendix B) → model AST.  Driver-only code.
-/
import Lean.Data.Json
import GqlVerif.Model.Visitor
open Lean
namespace Gql.Driver

abbrev D := Except String

def arr (j : Json) : D (Array Json) :=
  match j with
  | .arr a => pure a
  | _ => throw s!"expected array, got {j.compress.take 80}"

def nat (j : Json) : D Nat :=
  match j.getNat? with
  | .ok n => pure n
  | .error _ => throw s!"expected nat, got {j.compress.take 80}"

def str (j : Json) : D String :=
  match j with
  | .str s => pure s
  | _ => throw s!"expected string, got {j.compress.take 80}"

def bool (j : Json) : D Bool :=
  match j with
  | .bool b => pure b
  | _ => throw s!"expected bool, got {j.compress.take 80}"

def opt {α} (f : Json → D α) (j : Json) : D (Option α) :=
  match j with
  | .null => pure none
  | _ => some <$> f j

def at' (a : Array Json) (i : Nat) : D Json :=
  match a[i]? with
  | some j => pure j
  | none => throw s!"index {i} out of range"

def listOf {α} (f : Json → D α) (j : Json) : D (List α) := do
  let a ← arr j
  a.toList.mapM f

def pos (j : Json) : D Pos := do
  let a ← arr j
  pure ⟨← nat (← at' a 0), ← nat (← at' a 1)⟩

partial def ty (j : Json) : D Ty := do
  let a ← arr j
  match ← str (← at' a 0) with
  | "n" => .named <$> nat (← at' a 1)
  | "l" => .list <$> ty (← at' a 1)
  | "nn" => .nonNull <$> ty (← at' a 1)
  | t => throw s!"bad type tag {t}"

partial def value (j : Json) : D Value := do
  let a ← arr j
  match ← str (← at' a 0) with
  | "var" => .var <$> nat (← at' a 1)
  | "int" =>
    let s ← str (← at' a 1)
    match s.toInt? with
    | some i => pure (.int i)
    | none => throw s!"bad int {s}"
  | "flt" => .float <$> nat (← at' a 1)
  | "str" => .str <$> nat (← at' a 1)
  | "bool" => .bool <$> bool (← at' a 1)
  | "null" => pure .null
  | "enum" => .enum <$> nat (← at' a 1)
  | "list" => .list <$> listOf value (← at' a 1)
  | "obj" => .obj <$> listOf (fun e => do
      let p ← arr e
      pure (← nat (← at' p 0), ← value (← at' p 1))) (← at' a 1)
  | t => throw s!"bad value tag {t}"

def arg (j : Json) : D Arg := do
  let p ← arr j
  pure (← nat (← at' p 0), ← value (← at' p 1))

def directive (j : Json) : D Directive := do
  let a ← arr j
  pure ⟨← pos (← at' a 0), ← nat (← at' a 1), ← listOf arg (← at' a 2)⟩

partial def selection (j : Json) : D Selection := do
  let a ← arr j
  match ← str (← at' a 0) with
  | "f" => pure (.field (← pos (← at' a 1)) (← opt nat (← at' a 2)) (← nat (← at' a 3))
      (← listOf arg (← at' a 4)) (← listOf directive (← at' a 5)) (← listOf selection (← at' a 6)))
  | "s" => pure (.spread (← pos (← at' a 1)) (← nat (← at' a 2)) (← listOf directive (← at' a 3)))
  | "i" => pure (.inline (← pos (← at' a 1)) (← opt nat (← at' a 2)) (← listOf directive (← at' a 3))
      (← listOf selection (← at' a 4)))
  | t => throw s!"bad selection tag {t}"

def varDef (j : Json) : D VarDef := do
  let a ← arr j
  pure ⟨← pos (← at' a 0), ← nat (← at' a 1), ← ty (← at' a 2), ← opt value (← at' a 3)⟩

def definition (j : Json) : D Definition := do
  let a ← arr j
  let tag ← str (← at' a 0)
  let mkOp (k : OpKind) : D Definition := do
    pure (.op ⟨k, ← pos (← at' a 1), ← opt nat (← at' a 2), ← listOf varDef (← at' a 3),
      ← listOf directive (← at' a 4), ← listOf selection (← at' a 5)⟩)
  match tag with
  | "q" => mkOp .query
  | "m" => mkOp .mutation
  | "sub" => mkOp .subscription
  | "ss" => pure (.op ⟨.shorthand, ⟨0, 0⟩, none, [], [], ← listOf selection (← at' a 1)⟩)
  | "frag" => pure (.frag ⟨← pos (← at' a 1), ← nat (← at' a 2), ← nat (← at' a 3),
      ← listOf directive (← at' a 4), ← listOf selection (← at' a 5)⟩)
  | t => throw s!"bad definition tag {t}"

def document (j : Json) : D Document := listOf definition j

def inputValueDef (j : Json) : D InputValueDef := do
  let a ← arr j
  pure ⟨← nat (← at' a 0), ← ty (← at' a 1), ← opt value (← at' a 2)⟩

def fieldDef (j : Json) : D FieldDef := do
  let a ← arr j
  pure ⟨← nat (← at' a 0), ← listOf inputValueDef (← at' a 1), ← ty (← at' a 2)⟩

def typeDef (j : Json) : D TypeDef := do
  let a ← arr j
  match ← str (← at' a 0) with
  | "scalar" => .scalar <$> nat (← at' a 1)
  | "object" => pure (.object (← nat (← at' a 1)) (← listOf nat (← at' a 2)) (← listOf fieldDef (← at' a 3)))
  | "interface" => pure (.interface (← nat (← at' a 1)) (← listOf nat (← at' a 2)) (← listOf fieldDef (← at' a 3)))
  | "union" => pure (.union (← nat (← at' a 1)) (← listOf nat (← at' a 2)))
  | "enum" => pure (.enum (← nat (← at' a 1)) (← listOf nat (← at' a 2)))
  | "input" => pure (.inputObject (← nat (← at' a 1)) (← listOf inputValueDef (← at' a 2)))
  | t => throw s!"bad typedef tag {t}"

def dirLoc (j : Json) : D DirLoc := do
  match ← nat j with
  | 0 => pure .query | 1 => pure .mutation | 2 => pure .subscription | 3 => pure .field
  | 4 => pure .fragmentDefinition | 5 => pure .fragmentSpread | 6 => pure .inlineFragment
  | n => pure (.other n)

def sdef (j : Json) : D SDef := do
  let a ← arr j
  match ← str (← at' a 0) with
  | "schema" => pure (.schema ⟨← opt nat (← at' a 1), ← opt nat (← at' a 2), ← opt nat (← at' a 3)⟩)
  | "type" => .type <$> typeDef (← at' a 1)
  | "directive" => pure (.directive ⟨← nat (← at' a 1), ← bool (← at' a 2), ← listOf dirLoc (← at' a 3),
      ← listOf inputValueDef (← at' a 4)⟩)
  | "ext" => pure .ext
  | t => throw s!"bad sdef tag {t}"

def schema (j : Json) : D Schema := listOf sdef j

end Gql.Driver
