/-
  Spec/Rules.lean — one declarative violation predicate per validation rule, written from the
  GraphQL specification sections the rules cite.  Positions and their types come from the
  lexically scoped walk of Spec/Walk.lean (`walkOf`): "field `f` occurs where the enclosing
  selection set has type `P`" is `(enter (field f), env) ∈ walkOf s d ∧ env.parent = some P`.
  Nothing here mentions stacks, slots, counters or visiting order.
-/
import GqlVerif.Lemmas.Fires
namespace Gql.Spec

/-- field `f` occurs in the document at a position whose type environment is `env` -/
def FieldAt (s : Schema) (d : Document) (f : FieldNode) (env : Snap) : Prop :=
  (Ev.enter (.field f), env) ∈ walkOf s d

/-! ### 5.3.1 Field selections / 5.3.3 leaf field selections (C04) -/

/-- the name of the query root type -/
def queryRootName (s : Schema) : Name := s.schemaDefinition.query.getD nQuery

/-- `__typename` may be selected anywhere, `__schema` and `__type` on the query root type -/
def MetaFieldAllowed (s : Schema) (f : Name) (parent : TypeDef) : Prop :=
  f = nTypename ∨ ((f = nSchemaField ∨ f = nTypeField) ∧ parent.name = queryRootName s)

/-- some selected non-meta field is not defined on the (schema-known) type of its selection set -/
def UndefinedFieldSelected (s : Schema) (d : Document) : Prop :=
  ∃ f env P, FieldAt s d f env ∧ env.parent = some P ∧ ¬ MetaFieldAllowed s f.name P ∧
    P.fieldByName f.name = none

/-- `__typename` directly in the root selection set of a subscription (may additionally be reported) -/
def TypenameAtSubscriptionRoot (d : Document) : Prop :=
  ∃ o ∈ d.operations, o.kind = .subscription ∧ rootTypenameFields o.sel ≠ []

/-- a field of leaf type with a sub-selection, or a field of non-leaf type without one -/
def LeafSelectionViolated (s : Schema) (d : Document) : Prop :=
  ∃ f env t, FieldAt s d f env ∧ env.cur = some t ∧ env.curLit.isSome ∧
    ((t.isLeaf = true ∧ f.sel ≠ []) ∨ (t.isLeaf = false ∧ f.sel = []))

end Gql.Spec

namespace Gql.Spec

/-! ### 5.4 Arguments (C09) -/

/-- directive `dir` occurs in the document -/
def DirectiveAt (s : Schema) (d : Document) (dir : Directive) : Prop :=
  ∃ env, (Ev.enter (.directive dir), env) ∈ walkOf s d

/-- 5.4.1: an argument is not declared by the (known) field or directive it is attached to -/
def UnknownArgumentUsed (s : Schema) (d : Document) : Prop :=
  (∃ f env P fd a, FieldAt s d f env ∧ env.parent = some P ∧ P.fieldByName f.name = some fd ∧
      a ∈ f.args ∧ ∀ x ∈ fd.args, x.name ≠ a.1)
  ∨ (∃ dir dd a, DirectiveAt s d dir ∧ s.directiveByName dir.name = some dd ∧
      a ∈ dir.args ∧ ∀ x ∈ dd.args, x.name ≠ a.1)

/-- 5.4.2: two arguments of one field or directive share a name -/
def DuplicateArgument (s : Schema) (d : Document) : Prop :=
  (∃ f env, FieldAt s d f env ∧ ¬ (f.args.map (·.1)).Nodup)
  ∨ (∃ dir, DirectiveAt s d dir ∧ ¬ (dir.args.map (·.1)).Nodup)

/-- 5.4.2.1: a declared argument of non-null type without default is not supplied -/
def RequiredArgumentMissing (s : Schema) (d : Document) : Prop :=
  (∃ f env P fd ad, FieldAt s d f env ∧ env.parent = some P ∧ P.fieldByName f.name = some fd ∧
      ad ∈ fd.args ∧ ad.isRequired = true ∧ ∀ a ∈ f.args, a.1 ≠ ad.name)
  ∨ (∃ dir dd ad, DirectiveAt s d dir ∧ s.directiveByName dir.name = some dd ∧
      ad ∈ dd.args ∧ ad.isRequired = true ∧ ∀ a ∈ dir.args, a.1 ≠ ad.name)

end Gql.Spec

namespace Gql.Spec

/-! ### 5.2 Operations (C11) -/

/-- 5.2.1.1: two operations share a name -/
def DuplicateOperationName (d : Document) : Prop := ¬ (d.operations.filterMap (·.name)).Nodup

/-- 5.2.2.1: an anonymous operation coexists with another operation -/
def AnonymousNotAlone (d : Document) : Prop :=
  (∃ o ∈ d.operations, o.name = none) ∧ d.operations.length > 1

end Gql.Spec
