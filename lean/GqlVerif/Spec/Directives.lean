/-
  Spec/Directives.lean — C10: every directive of a document paired with the directive location of
  the node it is attached to (spec 5.7.2), and every node's directive list (spec 5.7.3).
-/
import GqlVerif.Model.Rules.Directives
namespace Gql.Spec

mutual
def directivesOfSelection : Selection → List (Directive × DirLoc)
  | .field _ _ _ _ dirs sel => dirs.map (·, DirLoc.field) ++ directivesOfSelections sel
  | .spread _ _ dirs => dirs.map (·, DirLoc.fragmentSpread)
  | .inline _ _ dirs sel => dirs.map (·, DirLoc.inlineFragment) ++ directivesOfSelections sel
def directivesOfSelections : List Selection → List (Directive × DirLoc)
  | [] => []
  | x :: xs => directivesOfSelection x ++ directivesOfSelections xs
end

def opLoc : OpKind → DirLoc
  | .query | .shorthand => .query
  | .mutation => .mutation
  | .subscription => .subscription

def directivesOfDefinition : Definition → List (Directive × DirLoc)
  | .op o => o.dirs.map (·, opLoc o.kind) ++ directivesOfSelections o.sel
  | .frag f => f.dirs.map (·, DirLoc.fragmentDefinition) ++ directivesOfSelections f.sel

/-- all directives of the document with the location they are used at -/
def directivesAt (d : Document) : List (Directive × DirLoc) := d.flatMap directivesOfDefinition

/-- 5.7.1/5.7.2: some directive is not declared, or is used at a location its declaration does
    not list -/
def KnownDirectivesViolated (s : Schema) (d : Document) : Prop :=
  ∃ p ∈ directivesAt d,
    match s.directiveByName p.1.name with
    | none => True
    | some dd => p.2 ∉ dd.locations

mutual
def directiveListsOfSelection : Selection → List (List Directive)
  | .field _ _ _ _ dirs sel => dirs :: directiveListsOfSelections sel
  | .spread _ _ dirs => [dirs]
  | .inline _ _ dirs sel => dirs :: directiveListsOfSelections sel
def directiveListsOfSelections : List Selection → List (List Directive)
  | [] => []
  | x :: xs => directiveListsOfSelection x ++ directiveListsOfSelections xs
end

def directiveListsOfDefinition : Definition → List (List Directive)
  | .op o => o.dirs :: directiveListsOfSelections o.sel
  | .frag f => f.dirs :: directiveListsOfSelections f.sel

/-- the directive list of every directive-bearing node -/
def directiveLists (d : Document) : List (List Directive) := d.flatMap directiveListsOfDefinition

/-- 5.7.3: a declared non-repeatable directive appears more than once on one node -/
def UniqueDirectivesViolated (s : Schema) (d : Document) : Prop :=
  ∃ l ∈ directiveLists d, ∃ n dd, s.directiveByName n = some dd ∧ dd.repeatable = false ∧
    (l.map (·.name)).count n ≥ 2

end Gql.Spec
