/-
  Spec/TypeSystem.lean — declarative definitions for C18 (and the schema well-formedness
  hypothesis used by the rule properties).
-/
import GqlVerif.Model.Ext
namespace Gql

/-! ### Well-formed ("self-contained") schemas — a decidable predicate -/

def Schema.typeNames (s : Schema) : List Name := s.types.map (·.name)

def Schema.declared (s : Schema) (n : Name) : Bool := s.typeNames.contains n

def Schema.isObjectName (s : Schema) (n : Name) : Bool :=
  match s.typeByName n with | some (.object ..) => true | _ => false

def Schema.isInterfaceName (s : Schema) (n : Name) : Bool :=
  match s.typeByName n with | some (.interface ..) => true | _ => false

def Schema.isInputName (s : Schema) (n : Name) : Bool :=
  match s.typeByName n with | some t => t.isInput | none => false

def Schema.isOutputName (s : Schema) (n : Name) : Bool :=
  match s.typeByName n with | some (.inputObject ..) => false | some _ => true | none => false

/-- every interface an implementer lists is an interface, and so are *its* interfaces, which the
    implementer lists too (transitive interfaces are spelled out) -/
def Schema.interfacesClosed (s : Schema) (t : TypeDef) : Bool :=
  t.interfaces.all fun i =>
    match s.typeByName i with
    | some (.interface _ sup _) => sup.all fun j => t.interfaces.contains j
    | _ => false

def TypeDef.refsOk (s : Schema) : TypeDef → Bool
  | .scalar _ => true
  | .object _ _ fs | .interface _ _ fs =>
      fs.all fun f => s.isOutputName f.ty.inner && f.args.all fun a => s.isInputName a.ty.inner
  | .union _ ms => ms.all s.isObjectName
  | .enum _ _ => true
  | .inputObject _ fs => fs.all fun f => s.isInputName f.ty.inner

/-- "Self-contained well-formed" (properties.jsonl): unique type and directive names, every
    referenced type declared and of the right category, union members are object types, interface
    lists closed, a query root object type, no type extension.  (Covariance of implemented fields
    is not needed by any theorem here and is left out.) -/
def Schema.WF (s : Schema) : Bool :=
  s.typeNames.Nodup && (s.directives.map (·.name)).Nodup
    && s.types.all (fun t => t.refsOk s && s.interfacesClosed t)
    && s.directives.all (fun d => d.args.all fun a => s.isInputName a.ty.inner)
    && s.queryType.isSome
    && !(s.any fun d => match d with | .ext => true | _ => false)

/-! ### Subtyping (spec section 5.8.5 "AreTypesCompatible" direction, IsSubType of graphql-js) -/

/-- `a` is a *proper* named subtype of `b`: `b` is abstract and `a` is an object or interface that
    is a member (union) or a declared implementer (interface) of it. -/
def NamedSub (s : Schema) (a b : Name) : Prop :=
  ∃ ta tb, s.typeByName a = some ta ∧ s.typeByName b = some tb ∧ tb.isAbstract = true ∧
    (ta.isInterface = true ∨ ta.isObject = true) ∧
    ((∃ n ms, tb = .union n ms ∧ ta.name ∈ ms) ∨ (∃ n is fs, tb = .interface n is fs ∧ n ∈ ta.interfaces))

/-- Subtype: equal; or same list structure, non-null only strengthened, named type a proper
    named subtype. -/
inductive Subtype (s : Schema) : Ty → Ty → Prop
  | refl (t : Ty) : Subtype s t t
  | nonNull {a b : Ty} : Subtype s a b → Subtype s (.nonNull a) (.nonNull b)
  | strengthen {a b : Ty} : b.isNonNull = false → Subtype s a b → Subtype s (.nonNull a) b
  | list {a b : Ty} : Subtype s a b → Subtype s (.list a) (.list b)
  | named {a b : Name} : NamedSub s a b → Subtype s (.named a) (.named b)

/-! ### Possible types and overlap -/

/-- `o` is one of the possible (object) types of composite type `t` -/
def Possible (s : Schema) (t o : TypeDef) : Prop :=
  o.isObject = true ∧ SDef.type o ∈ s ∧
    match t with
    | .object n _ _ => o.name = n
    | .interface n _ _ => n ∈ o.interfaces
    | .union _ ms => o.name ∈ ms
    | _ => False

/-! ### Variable leaves of a value -/
inductive VarLeaf (n : Name) : Value → Prop
  | var : VarLeaf n (.var n)
  | list {vs : List Value} {v : Value} : v ∈ vs → VarLeaf n v → VarLeaf n (.list vs)
  | obj {fs : List (Name × Value)} {k : Name} {v : Value} : (k, v) ∈ fs → VarLeaf n v → VarLeaf n (.obj fs)

end Gql
