/-
  Spec/Collect.lean — C19: the specification's CollectFields (section 6.3.2) as an inductive
  relation (no fuel, no maps): `Collects s d R sel vis fs vis'` — collecting selection set `sel` for
  object type `R` with visited fragment names `vis` gathers the fields `fs` (encounter order) and
  leaves the visited names `vis'`.
-/
import GqlVerif.Model.CollectFields
namespace Gql.Spec

/-- DoesFragmentTypeApply(objectType, fragmentType) -/
def Applies (s : Schema) (R : TypeDef) : Option Name → Prop
  | none => True
  | some c =>
    match s.typeByName c with
    | some (.object n _ _) => n = R.name
    | some (.interface n _ _) => n ∈ R.interfaces
    | some (.union _ ms) => R.name ∈ ms
    | _ => False

inductive Collects (s : Schema) (d : Document) (R : TypeDef) :
    List Selection → List Name → List FieldNode → List Name → Prop
  | nil (vis : List Name) : Collects s d R [] vis [] vis
  | field {pos alias name args dirs sel rest vis fs vis'} :
      Collects s d R rest vis fs vis' →
      Collects s d R (.field pos alias name args dirs sel :: rest) vis (⟨pos, alias, name, args, dirs, sel⟩ :: fs) vis'
  | spreadVisited {pos name dirs rest vis fs vis'} :
      name ∈ vis → Collects s d R rest vis fs vis' →
      Collects s d R (.spread pos name dirs :: rest) vis fs vis'
  | spreadUnknown {pos name dirs rest vis fs vis'} :
      name ∉ vis → d.fragByName name = none → Collects s d R rest (vis ++ [name]) fs vis' →
      Collects s d R (.spread pos name dirs :: rest) vis fs vis'
  | spreadSkip {pos name dirs rest vis fs vis' frag} :
      name ∉ vis → d.fragByName name = some frag → ¬ Applies s R (some frag.tc) →
      Collects s d R rest (vis ++ [name]) fs vis' →
      Collects s d R (.spread pos name dirs :: rest) vis fs vis'
  | spreadExpand {pos name dirs rest vis fs1 vis1 fs2 vis2 frag} :
      name ∉ vis → d.fragByName name = some frag → Applies s R (some frag.tc) →
      Collects s d R frag.sel (vis ++ [name]) fs1 vis1 → Collects s d R rest vis1 fs2 vis2 →
      Collects s d R (.spread pos name dirs :: rest) vis (fs1 ++ fs2) vis2
  | inlineSkip {pos tc dirs sel rest vis fs vis'} :
      ¬ Applies s R tc → Collects s d R rest vis fs vis' →
      Collects s d R (.inline pos tc dirs sel :: rest) vis fs vis'
  | inlineExpand {pos tc dirs sel rest vis fs1 vis1 fs2 vis2} :
      Applies s R tc → Collects s d R sel vis fs1 vis1 → Collects s d R rest vis1 fs2 vis2 →
      Collects s d R (.inline pos tc dirs sel :: rest) vis (fs1 ++ fs2) vis2

/-- grouping by response key: keys in order of first occurrence, fields in encounter order -/
def groupFields (fs : List FieldNode) : Groups := fs.foldl addField []

end Gql.Spec
