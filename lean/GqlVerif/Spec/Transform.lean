/-
  Spec/Transform.lean — C17: what a transformer with probe hooks denotes.
  * `map*`     : the structural map — the input with each selected node replaced by its rewrite,
                 everything else (names, aliases, positions, type conditions, list orders and
                 lengths) copied;
  * `sites*`   : the hook invocations — one per node of the hook's kind, parent before children,
                 children in the order the transformer visits child lists, list order within a list;
  * `changed*` : whether the transformer answers Replace for the node.
-/
import GqlVerif.Model.Transformer
namespace Gql.Spec

def hitOpt (p : Option Probe) (key : Nat) : Bool := match p with | some p => p.hit key | none => false
def siteOpt (p : Option Probe) (id : HookId) (key : Nat) : List LogEntry := match p with | some _ => [(id, key)] | none => []

/-! values, arguments, directives, variable definitions -/
def mapValue (h : Hooks) (v : Value) : Value :=
  match h.value with | some p => if p.hit (valueKey v) then p.value else v | none => v
def changedValue (h : Hooks) (v : Value) : Bool := hitOpt h.value (valueKey v)
def sitesValue (h : Hooks) (v : Value) : List LogEntry := siteOpt h.value .value (valueKey v)

def mapArg (h : Hooks) (a : Arg) : Arg :=
  let a' : Arg := (a.1, mapValue h a.2)
  match h.argument with | some p => if p.hit a.1 then (p.marker, a'.2) else a' | none => a'
def changedArg (h : Hooks) (a : Arg) : Bool := changedValue h a.2 || hitOpt h.argument a.1
def sitesArg (h : Hooks) (a : Arg) : List LogEntry := siteOpt h.argument .argument a.1 ++ sitesValue h a.2

def mapDirective (h : Hooks) (d : Directive) : Directive :=
  let d' := { d with args := d.args.map (mapArg h) }
  match h.directive with | some p => if p.hit (posKey d.pos) then { d' with name := p.marker } else d' | none => d'
def changedDirective (h : Hooks) (d : Directive) : Bool := d.args.any (changedArg h) || hitOpt h.directive (posKey d.pos)
def sitesDirective (h : Hooks) (d : Directive) : List LogEntry :=
  siteOpt h.directive .directive (posKey d.pos) ++ d.args.flatMap (sitesArg h)

def mapVarDef (h : Hooks) (v : VarDef) : VarDef :=
  let v' := { v with default := v.default.map (mapValue h) }
  match h.varDef with | some p => if p.hit (posKey v.pos) then { v' with name := p.marker } else v' | none => v'
def changedVarDef (h : Hooks) (v : VarDef) : Bool :=
  (match v.default with | some dv => changedValue h dv | none => false) || hitOpt h.varDef (posKey v.pos)
def sitesVarDef (h : Hooks) (v : VarDef) : List LogEntry :=
  siteOpt h.varDef .varDef (posKey v.pos) ++ (match v.default with | some dv => sitesValue h dv | none => [])

/-! selections -/

/-- the selection-set probe: the marker field is appended when it hits -/
def withMarker (h : Hooks) (n : Nat) (items : List Selection) : List Selection :=
  match h.selectionSet with
  | some p => if p.hit n then items ++ [markerField p.marker] else items
  | none => items

mutual
def mapSelection (h : Hooks) : Selection → Selection
  | .spread pos name dirs =>
      .spread pos (match h.spread with | some p => if p.hit (posKey pos) then p.marker else name | none => name)
        (dirs.map (mapDirective h))
  | .inline pos tc dirs sel =>
      .inline pos (match h.inlineFrag with | some p => if p.hit (posKey pos) then some p.marker else tc | none => tc)
        (dirs.map (mapDirective h)) (withMarker h sel.length (mapSelections h sel))
  | .field pos alias name args dirs sel =>
      .field pos alias (match h.field with | some p => if p.hit (posKey pos) then p.marker else name | none => name)
        (args.map (mapArg h)) (dirs.map (mapDirective h)) (withMarker h sel.length (mapSelections h sel))
def mapSelections (h : Hooks) : List Selection → List Selection
  | [] => []
  | x :: xs => mapSelection h x :: mapSelections h xs
end

/-- a selection set: its items mapped, plus the marker field when the selection-set probe hits -/
def mapSelSet (h : Hooks) (sel : List Selection) : List Selection := withMarker h sel.length (mapSelections h sel)

mutual
def changedSelection (h : Hooks) : Selection → Bool
  | .spread _ _ _ => true      -- default_transform_fragment_spread always answers Replace
  | .inline pos _ dirs sel =>
      (changedSelections h sel || hitOpt h.selectionSet sel.length) || dirs.any (changedDirective h) || hitOpt h.inlineFrag (posKey pos)
  | .field pos _ _ args dirs sel =>
      (changedSelections h sel || hitOpt h.selectionSet sel.length) || args.any (changedArg h) || dirs.any (changedDirective h)
        || hitOpt h.field (posKey pos)
def changedSelections (h : Hooks) : List Selection → Bool
  | [] => false
  | x :: xs => changedSelection h x || changedSelections h xs
end

def changedSelSet (h : Hooks) (sel : List Selection) : Bool := changedSelections h sel || hitOpt h.selectionSet sel.length

mutual
def sitesSelection (h : Hooks) : Selection → List LogEntry
  | .spread pos _ dirs => siteOpt h.spread .spread (posKey pos) ++ dirs.flatMap (sitesDirective h)
  | .inline pos _ dirs sel =>
      siteOpt h.inlineFrag .inline (posKey pos)
        ++ (siteOpt h.selectionSet .selectionSet sel.length ++ sitesSelections h sel) ++ dirs.flatMap (sitesDirective h)
  | .field pos _ _ args dirs sel =>
      siteOpt h.field .field (posKey pos)
        ++ (siteOpt h.selectionSet .selectionSet sel.length ++ sitesSelections h sel)
        ++ args.flatMap (sitesArg h) ++ dirs.flatMap (sitesDirective h)
def sitesSelections (h : Hooks) : List Selection → List LogEntry
  | [] => []
  | x :: xs => sitesSelection h x ++ sitesSelections h xs
end

def sitesSelSet (h : Hooks) (sel : List Selection) : List LogEntry :=
  siteOpt h.selectionSet .selectionSet sel.length ++ sitesSelections h sel

/-! definitions -/
def renameOp (o : Operation) (m : Name) : Operation := if o.kind == .shorthand then o else { o with name := some m }

def mapOperation (h : Hooks) (o : Operation) : Operation :=
  let o' : Operation :=
    if o.kind == .shorthand then { o with sel := mapSelSet h o.sel }
    else { o with dirs := o.dirs.map (mapDirective h), sel := mapSelSet h o.sel, vars := o.vars.map (mapVarDef h) }
  match h.operation with | some p => if p.hit (opKey o) then renameOp o' p.marker else o' | none => o'
def changedOperation (h : Hooks) (o : Operation) : Bool :=
  (if o.kind == .shorthand then changedSelSet h o.sel
   else changedSelSet h o.sel || o.dirs.any (changedDirective h) || o.vars.any (changedVarDef h))
  || hitOpt h.operation (opKey o)
def sitesOperation (h : Hooks) (o : Operation) : List LogEntry :=
  siteOpt h.operation .operation (opKey o) ++
    (if o.kind == .shorthand then sitesSelSet h o.sel
     else sitesSelSet h o.sel ++ o.dirs.flatMap (sitesDirective h) ++ o.vars.flatMap (sitesVarDef h))

def mapFragment (h : Hooks) (f : FragDef) : FragDef :=
  let f' := { f with dirs := f.dirs.map (mapDirective h), sel := mapSelSet h f.sel }
  match h.fragment with | some p => if p.hit (posKey f.pos) then { f' with name := p.marker } else f' | none => f'
def changedFragment (h : Hooks) (f : FragDef) : Bool :=
  changedSelSet h f.sel || f.dirs.any (changedDirective h) || hitOpt h.fragment (posKey f.pos)
def sitesFragment (h : Hooks) (f : FragDef) : List LogEntry :=
  siteOpt h.fragment .fragment (posKey f.pos) ++ sitesSelSet h f.sel ++ f.dirs.flatMap (sitesDirective h)

def mapDefinition (h : Hooks) (x : Definition) : Definition :=
  let x' := match x with | .op o => Definition.op (mapOperation h o) | .frag f => Definition.frag (mapFragment h f)
  match h.definition with
  | some p =>
    if p.hit (defKey x) then
      (match x' with | .op o => .op (renameOp o p.marker) | .frag f => .frag { f with name := p.marker })
    else x'
  | none => x'
def changedDefinition (h : Hooks) (x : Definition) : Bool :=
  (match x with | .op o => changedOperation h o | .frag f => changedFragment h f) || hitOpt h.definition (defKey x)
def sitesDefinition (h : Hooks) (x : Definition) : List LogEntry :=
  siteOpt h.definition .definition (defKey x) ++ (match x with | .op o => sitesOperation h o | .frag f => sitesFragment h f)

/-- the document a transformer with hooks `h` denotes -/
def mapDocument (h : Hooks) (d : Document) : Document := d.map (mapDefinition h)
def changedDocument (h : Hooks) (d : Document) : Bool := d.any (changedDefinition h)
/-- every hook invocation, in order -/
def hookSites (h : Hooks) (d : Document) : List LogEntry := d.flatMap (sitesDefinition h)

end Gql.Spec
