/-
  Spec/CodecSpec.lean — C20: well-typed parsed values and well-formed shape tables.
-/
import GqlVerif.Model.Codec
namespace Gql.Codec

def J.isNull : J → Bool | .null => true | _ => false

def keysOf (fields : List FieldSpec) : List String := fields.map (·.key)

/-- member keys are distinct, and a tag key is not also a member key -/
def Decl.ok : Decl → Bool
  | .struct tag fields =>
      decide (keysOf fields).Nodup && (match tag with | some (k, _) => !(keysOf fields).contains k | none => true)
  | .tagged key variants => variants.all fun v => decide (keysOf v.2).Nodup && !(keysOf v.2).contains key
  | .unitEnum _ => true

def Env.ok (env : Env) : Bool := env.all fun p => p.2.ok

/-- member-wise typing of a record against the declared members (same keys, same order) -/
def fieldsWt (w : Shape → Val → Bool) : List FieldSpec → List (String × Val) → Bool
  | [], [] => true
  | f :: fs, (k, v) :: kvs => f.key == k && w f.shape v && fieldsWt w fs kvs
  | _, _ => false

/-- `v` is a value of shape `σ` as the parser produces them (in particular `Some(x)` never
    serialises to `null`: `Some(Value::Null)` cannot come out of the parser) -/
def wt (env : Env) : Nat → Shape → Val → Bool
  | 0, _, _ => false
  | n + 1, σ, v =>
    match σ, v with
    | .str, .str _ => true
    | .bool, .bool _ => true
    | .any, .any _ => true
    | .opt _, .none => true
    | .opt σ', .some x => wt env n σ' x && !(encode x).isNull
    | .vec σ', .vec l => l.all (wt env n σ')
    | .named nm, .record tag fs =>
      (match env.get nm with
       | some (.struct tag' fields) => decide (tag = tag') && fieldsWt (wt env n) fields fs
       | _ => false)
    | .named nm, .variant key t fs =>
      (match env.get nm with
       | some (.tagged key' variants) =>
         key == key' && (match (variants.find? (·.1 == t)).map (·.2) with
           | some fields => fieldsWt (wt env n) fields fs
           | none => false)
       | _ => false)
    | .named nm, .unit s =>
      (match env.get nm with
       | some (.unitEnum names) => names.contains s
       | _ => false)
    | _, _ => false

end Gql.Codec
