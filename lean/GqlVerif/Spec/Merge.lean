/-
  Spec/Merge.lean — C05: 5.3.2 Field Selection Merging, written from the specification text
  (FieldsInSetCanMerge / SameResponseShape) as executable, fuel-bounded functions over the fields
  a selection set collects through inline fragments and fragment spreads.  Independent of the
  implementation's pairwise algorithm, its memo tables and visiting order.
-/
import GqlVerif.Model.Rules.Merge
import GqlVerif.Lemmas.Fires
namespace Gql.Spec

mutual
/-- the fields a selection contributes to its selection set, with the type they are selected on;
    `spread` says what a fragment spread contributes -/
def specFieldsSelWith (s : Schema) (spread : Name → List AstAndDef) : Option TypeDef → Selection → List AstAndDef
  | parent, .field pos alias name args dirs sel =>
      [⟨parent, ⟨pos, alias, name, args, dirs, sel⟩, parent.bind (·.fieldByName name)⟩]
  | parent, .inline _ tc _ sel => specFieldsWith s spread (inlineParent s tc parent) sel
  | _, .spread _ name _ => spread name
def specFieldsWith (s : Schema) (spread : Name → List AstAndDef) : Option TypeDef → List Selection → List AstAndDef
  | _, [] => []
  | parent, x :: xs => specFieldsSelWith s spread parent x ++ specFieldsWith s spread parent xs
end

/-- what a spread of fragment `name` contributes, following at most `n` nested spreads -/
def spreadFields (s : Schema) (d : Document) : Nat → Name → List AstAndDef
  | 0, _ => []
  | n + 1, name =>
      match d.fragByName name with
      | some fr => specFieldsWith s (spreadFields s d n) (s.typeByName fr.tc) fr.sel
      | none => []

/-- the collected fields of a selection set selected on `parent` -/
def specFields (s : Schema) (d : Document) (fuel : Nat) (parent : Option TypeDef) (sel : List Selection) : List AstAndDef :=
  specFieldsWith s (spreadFields s d fuel) parent sel

/-- SameResponseShape, steps 1-3: non-null and list wrappers must agree; a scalar or enum must
    meet the very same type -/
def shapesAgree (s : Schema) : Ty → Ty → Bool
  | .nonNull a, .nonNull b => shapesAgree s a b
  | .nonNull _, _ => false
  | _, .nonNull _ => false
  | .list a, .list b => shapesAgree s a b
  | .list _, _ => false
  | _, .list _ => false
  | .named a, .named b =>
      if s.isLeafName a || s.isLeafName b then a == b else true

/-- the two fields' declared types agree in shape (fields the schema does not define are the
    business of 'fields on correct type') -/
def typesAgree (s : Schema) (a b : AstAndDef) : Bool :=
  match a.fdef, b.fdef with
  | some x, some y => shapesAgree s x.ty y.ty
  | _, _ => true

/-- "the parent types of fieldA and fieldB are equal or either is not an Object Type" -/
def parentsMayCoincide (a b : AstAndDef) : Bool :=
  !(optName a.parent != optName b.parent && optIsObject a.parent && optIsObject b.parent)

/-- identical sets of arguments (names and values) -/
def identicalArguments (a b : List Arg) : Bool :=
  a.length == b.length &&
    a.all fun p => match b.find? (fun q => p.1 == q.1) with
      | some q => p.2.compare q.2
      | none => false

/-- the collected fields of a field's own selection set (selected on the field's type) -/
def subFields (s : Schema) (d : Document) (fuel : Nat) (a : AstAndDef) : List AstAndDef :=
  specFields s d fuel ((a.fdef.map (·.ty.inner)).bind s.typeByName) a.field.sel

/-- every pair of distinct members with one response name satisfies `p` -/
def allPairs (p : AstAndDef → AstAndDef → Bool) : List AstAndDef → Bool
  | [] => true
  | a :: rest => (rest.all fun b => a.field.responseKey != b.field.responseKey || p a b) && allPairs p rest

/-- SameResponseShape(fieldA, fieldB) -/
def sameResponseShape (s : Schema) (d : Document) (spreadFuel : Nat) : Nat → AstAndDef → AstAndDef → Bool
  | 0, _, _ => true
  | n + 1, a, b =>
    typesAgree s a b &&
      allPairs (sameResponseShape s d spreadFuel n) (subFields s d spreadFuel a ++ subFields s d spreadFuel b)

/-- FieldsInSetCanMerge(set), on the collected fields of the set -/
def fieldsInSetCanMerge (s : Schema) (d : Document) (spreadFuel : Nat) : Nat → List AstAndDef → Bool
  | 0, _ => true
  | n + 1, fields =>
    allPairs (fun a b =>
      sameResponseShape s d spreadFuel n a b &&
        (if parentsMayCoincide a b then
          a.field.name == b.field.name && identicalArguments a.field.args b.field.args &&
            fieldsInSetCanMerge s d spreadFuel n (subFields s d spreadFuel a ++ subFields s d spreadFuel b)
         else true)) fields

/-- enough fuel for documents without fragment cycles (proved: `Lemmas/SpreadFuel.lean`,
    `Lemmas/NestFuel.lean`, `C05.violatedEx_iff`): spreads nest at most `#fragments` deep, fields at
    most `depth x (#fragments + 2)` -/
def spreadFuelOf (d : Document) : Nat := d.fragments.length + 1
def nestFuelOf (d : Document) : Nat := (docDepth d + 1) * (d.fragments.length + 2) + 1

/-- 5.3.2: every selection set of the document (with the type it is selected on) can merge -/
def MergeViolated (s : Schema) (d : Document) : Prop :=
  ∃ sel env, (Ev.enter (.selectionSet sel), env) ∈ walkOf s d ∧
    fieldsInSetCanMerge s d (spreadFuelOf d) (nestFuelOf d) (specFields s d (spreadFuelOf d) env.parent sel) = false

/-- the same, as a function (for the driver) -/
def mergeViolatedB (s : Schema) (d : Document) : Bool :=
  (walkOf s d).any fun e =>
    match e.1 with
    | .enter (.selectionSet sel) =>
      !fieldsInSetCanMerge s d (spreadFuelOf d) (nestFuelOf d) (specFields s d (spreadFuelOf d) e.2.parent sel)
    | _ => false

end Gql.Spec
