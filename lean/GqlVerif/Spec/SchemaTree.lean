/-
  Spec/SchemaTree.lean — C15, schema part: the node tree of a schema document and its
  pre/post-order flattening.
-/
import GqlVerif.Model.SchemaVisitor
namespace Gql

inductive STree where
  | node (n : SNode) (children : List STree)

mutual
def STree.flatten : STree → List SEv
  | .node n cs => .enter n :: STree.flattenAll cs ++ [.leave n]
def STree.flattenAll : List STree → List SEv
  | [] => []
  | t :: ts => t.flatten ++ STree.flattenAll ts
end

def leafT (n : SNode) : STree := .node n []

/-- children of a type definition: the kind-specific node, whose children are its fields /
    input fields / enum values in declaration order -/
def typeTree (t : TypeDef) : STree :=
  .node (.typeDef t) [
    match t with
    | .object n _ fs => .node (.objectType t) (fs.map fun f => leafT (.objectField f n))
    | .interface n _ fs => .node (.interfaceType t) (fs.map fun f => leafT (.interfaceField f n))
    | .scalar _ => leafT (.scalarType t)
    | .enum n vs => .node (.enumType t) (vs.map fun v => leafT (.enumValue v n))
    | .union _ _ => leafT (.unionType t)
    | .inputObject n fs => .node (.inputObjectType t) (fs.map fun f => leafT (.inputField f n)) ]

def sdefTree : SDef → Option STree
  | .schema d => some (leafT (.schemaDef d))
  | .type t => some (typeTree t)
  | .directive d => some (leafT (.directiveDef d))
  | .ext => none

def Schema.hasExtension (s : Schema) : Bool := s.any fun d => match d with | .ext => true | _ => false

/-- the tree of a schema document without type extensions -/
def schemaTree (s : Schema) : STree := .node .document (s.filterMap sdefTree)

end Gql
