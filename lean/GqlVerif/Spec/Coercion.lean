/-
  Spec/Coercion.lean — C08: literal input coercion (GraphQL spec 3.x "Input Coercion" of each
  type kind, 5.6.1 "Values of Correct Type"), as an inductive relation.  `Coercible s τ v`: the
  literal `v` can be coerced to the input type `τ` of schema `s`.  Variables coerce to anything
  (their types are the business of C07).
-/
import GqlVerif.Model.Rules.Values
namespace Gql.Spec

def Value.isListLit : Value → Bool | .list _ => true | _ => false

/-- literal kinds a built-in scalar accepts: Int ← 32-bit Int; Float ← Int, Float;
    String ← String; Boolean ← Boolean; ID ← Int, String -/
def BuiltinAccepts (n : Name) (v : Value) : Prop :=
  match v with
  | .int i => (n = nInt ∧ -2147483648 ≤ i ∧ i ≤ 2147483647) ∨ n = nFloat ∨ n = nID
  | .float _ => n = nFloat
  | .str _ => n = nString ∨ n = nID
  | .bool _ => n = nBoolean
  | _ => False

def isBuiltinScalar (n : Name) : Prop := n = nInt ∨ n = nFloat ∨ n = nString ∨ n = nBoolean ∨ n = nID

inductive Coercible (s : Schema) : Ty → Value → Prop
  /-- a variable stands for a value of the right type (C07) -/
  | var (τ : Ty) (x : Name) : Coercible s τ (.var x)
  /-- null for a nullable type -/
  | null {τ : Ty} : τ.isNonNull = false → Coercible s τ .null
  /-- a non-null type accepts what its inner type accepts, except null -/
  | nonNull {τ : Ty} {v : Value} : v ≠ .null → Coercible s τ v → Coercible s (.nonNull τ) v
  /-- a list literal for a list type: every item coerces to the item type -/
  | list {ι : Ty} {vs : List Value} : (∀ v ∈ vs, Coercible s ι v) → Coercible s (.list ι) (.list vs)
  /-- a lone non-list, non-null literal counts as a one-item list -/
  | lone {ι : Ty} {v : Value} : Value.isListLit v = false → v ≠ .null → Coercible s ι v → Coercible s (.list ι) v
  /-- built-in scalars -/
  | builtin {n : Name} {v : Value} : s.typeByName n = some (.scalar n) → isBuiltinScalar n → BuiltinAccepts n v →
      Coercible s (.named n) v
  /-- custom scalars accept any (non-null) literal -/
  | custom {n : Name} {v : Value} : s.typeByName n = some (.scalar n) → ¬ isBuiltinScalar n → v ≠ .null →
      Coercible s (.named n) v
  /-- enums: a member name -/
  | enum {n x : Name} {values : List Name} : s.typeByName n = some (.enum n values) → x ∈ values →
      Coercible s (.named n) (.enum x)
  /-- input objects: an object literal with only declared fields, every required field present,
      every given field coercible to the field's type -/
  | object {n : Name} {fields : List InputValueDef} {fs : List (Name × Value)} :
      s.typeByName n = some (.inputObject n fields) →
      (∀ kv ∈ fs, ∃ f ∈ fields, f.name = kv.1) →
      (∀ f ∈ fields, f.isRequired = true → ∃ kv ∈ fs, kv.1 = f.name) →
      (∀ kv ∈ fs, ∀ f, fields.find? (·.name == kv.1) = some f → Coercible s f.ty kv.2) →
      Coercible s (.named n) (.obj fs)

end Gql.Spec
