/-
  Spec/Graph.lean — reachability in a graph given by a successor function.
-/
namespace Gql.Spec

section
variable {α : Type}

/-- reflexive-transitive closure of the successor relation -/
inductive Reachable (succ : α → List α) : α → α → Prop
  | refl (a : α) : Reachable succ a a
  | step {a b c : α} : b ∈ succ a → Reachable succ b c → Reachable succ a c

theorem Reachable.trans {succ : α → List α} {a b c : α} (h1 : Reachable succ a b) (h2 : Reachable succ b c) :
    Reachable succ a c := by
  induction h1 with
  | refl => exact h2
  | step hm _ ih => exact .step hm (ih h2)

theorem Reachable.tail {succ : α → List α} {a b c : α} (h1 : Reachable succ a b) (h2 : c ∈ succ b) :
    Reachable succ a c := h1.trans (.step h2 (.refl c))

end
end Gql.Spec
