/-
  Spec/Variables.lean — C07: the spec conditions of the variable rules (5.8 Variables).
-/
import GqlVerif.Lemmas.DefTrace
import GqlVerif.Spec.Fragments
import GqlVerif.Spec.TypeSystem
import GqlVerif.Model.Rules.Variables
namespace Gql.Spec

/-- variables used in the arguments (of fields and directives, at any depth inside list and
    object literals) met while walking definition `x` -/
def varsUsedIn (s : Schema) (x : Definition) : List Name := (defTrace s x).flatMap argVars

/-- `(variable, expected type)` for every variable met in `x` where the schema prescribes an input type -/
def usagesIn (s : Schema) (x : Definition) : List (Name × Ty) := (defTrace s x).flatMap varUsage

/-- fragment name `k` belongs to operation `o`: spread within it, directly or through other fragments -/
def InScope (d : Document) (o : Operation) (k : Name) : Prop :=
  ∃ sp ∈ recursiveSpreads o.sel, Reachable (spreadsOf d) sp.name k

/-- variable `v` is used by operation `o`: in the operation itself or in a fragment in its scope -/
def UsedBy (s : Schema) (d : Document) (o : Operation) (v : Name) : Prop :=
  v ∈ varsUsedIn s (.op o) ∨ ∃ f ∈ d.fragments, InScope d o f.name ∧ v ∈ varsUsedIn s (.frag f)

def UsageOf (s : Schema) (d : Document) (o : Operation) (u : Name × Ty) : Prop :=
  u ∈ usagesIn s (.op o) ∨ ∃ f ∈ d.fragments, InScope d o f.name ∧ u ∈ usagesIn s (.frag f)

/-- 5.8.1 Variable uniqueness -/
def DuplicateVariable (d : Document) : Prop := ∃ o ∈ d.operations, ¬ (o.vars.map (·.name)).Nodup

/-- 5.8.2 Variables are input types (unknown types are C06's `known type names`) -/
def NonInputVariable (s : Schema) (d : Document) : Prop :=
  ∃ o ∈ d.operations, ∃ v ∈ o.vars, ∃ t, s.typeByName v.ty.inner = some t ∧ t.isInput = false

/-- 5.8.3 All variable uses defined -/
def UndefinedVariable (s : Schema) (d : Document) : Prop :=
  ∃ o ∈ d.operations, ∃ v, UsedBy s d o v ∧ ∀ vd ∈ o.vars, vd.name ≠ v

/-- 5.8.4 All variables used -/
def UnusedVariable (s : Schema) (d : Document) : Prop :=
  ∃ o ∈ d.operations, ∃ vd ∈ o.vars, ¬ UsedBy s d o vd.name

/-- 5.8.5 All variable usages are allowed, WITHOUT the allowance for locations that declare a
    default value: the variable's type (made non-null by a non-null default) is not a subtype of
    the type expected at the usage -/
def BadVariablePosition (s : Schema) (d : Document) : Prop :=
  ∃ o ∈ d.operations, ∃ u, UsageOf s d o u ∧
    ∃ vd, o.vars.find? (fun vd => vd.name == u.1) = some vd ∧ ¬ Subtype s (effectiveVarType vd) u.2

/-- the spec's IsVariableUsageAllowed(variableDefinition, variableUsage) -/
def UsageAllowed (s : Schema) (vd : VarDef) (locTy : Ty) (locHasDefault : Bool) : Prop :=
  match locTy with
  | .nonNull lt =>
    if vd.ty.isNonNull then Subtype s vd.ty locTy
    else ((∃ dv, vd.default = some dv ∧ dv ≠ .null) ∨ locHasDefault = true) ∧ Subtype s vd.ty lt
  | _ => Subtype s vd.ty locTy

end Gql.Spec
