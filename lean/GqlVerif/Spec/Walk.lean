/-
  Spec/Walk.lean — the declarative side of C15/C16.

  `traverse*` : the pre/post-order traversal of the AST (no schema, no context): every node is
  entered, then its children in list order, then left.

  `walk*` : the same traversal decorated with the *lexically scoped type environment*: the
  answers a position is prescribed by the schema, computed top-down with no stack.  The
  environment is a `Snap`; entering a scope replaces components of it for the body only.
-/
import GqlVerif.Model.Visitor
namespace Gql

/-! ### C15: plain traversal -/
mutual
def traverseValue : Value → List Ev
  | .bool b => [.enter (.scalar (.bool b)), .leave (.scalar (.bool b))]
  | .float f => [.enter (.scalar (.float f)), .leave (.scalar (.float f))]
  | .int i => [.enter (.scalar (.int i)), .leave (.scalar (.int i))]
  | .str x => [.enter (.scalar (.str x)), .leave (.scalar (.str x))]
  | .null => [.enter .nullValue, .leave .nullValue]
  | .enum n => [.enter (.enumValue n), .leave (.enumValue n)]
  | .var n => [.enter (.variable n), .leave (.variable n)]
  | .list vs => .enter (.list vs) :: traverseValues vs ++ [.leave (.list vs)]
  | .obj fs => .enter (.object fs) :: traverseObjFields fs ++ [.leave (.object fs)]
def traverseValues : List Value → List Ev
  | [] => []
  | v :: vs => traverseValue v ++ traverseValues vs
def traverseObjFields : List (Name × Value) → List Ev
  | [] => []
  | (k, v) :: fs =>
      .enter (.objectField (k, v)) :: traverseValue v ++ [.leave (.objectField (k, v))]
        ++ traverseObjFields fs
end

def traverseArguments : List Arg → List Ev
  | [] => []
  | a :: as => .enter (.argument a) :: traverseValue a.2 ++ [.leave (.argument a)] ++ traverseArguments as

def traverseDirectives : List Directive → List Ev
  | [] => []
  | d :: ds => .enter (.directive d) :: traverseArguments d.args ++ [.leave (.directive d)]
      ++ traverseDirectives ds

def traverseVarDefs : List VarDef → List Ev
  | [] => []
  | v :: vs => .enter (.varDef v) :: (match v.default with | some dv => traverseValue dv | none => [])
      ++ [.leave (.varDef v)] ++ traverseVarDefs vs

mutual
def traverseSelection : Selection → List Ev
  | .field pos alias name args dirs sel =>
      let f : FieldNode := ⟨pos, alias, name, args, dirs, sel⟩
      .enter (.field f) :: traverseArguments args ++ traverseDirectives dirs
        ++ (.enter (.selectionSet sel) :: traverseSelections sel ++ [.leave (.selectionSet sel)])
        ++ [.leave (.field f)]
  | .spread pos name dirs =>
      let sp : SpreadNode := ⟨pos, name, dirs⟩
      .enter (.spread sp) :: traverseDirectives dirs ++ [.leave (.spread sp)]
  | .inline pos tc dirs sel =>
      let i : InlineNode := ⟨pos, tc, dirs, sel⟩
      .enter (.inline i) :: traverseDirectives dirs
        ++ (.enter (.selectionSet sel) :: traverseSelections sel ++ [.leave (.selectionSet sel)])
        ++ [.leave (.inline i)]
def traverseSelections : List Selection → List Ev
  | [] => []
  | x :: xs => traverseSelection x ++ traverseSelections xs
end

def traverseSelectionSet (sel : List Selection) : List Ev :=
  .enter (.selectionSet sel) :: traverseSelections sel ++ [.leave (.selectionSet sel)]

def traverseDefinition : Definition → List Ev
  | .frag f => .enter (.fragmentDef f) :: traverseDirectives f.dirs ++ traverseSelectionSet f.sel
      ++ [.leave (.fragmentDef f)]
  | .op o => .enter (.operation o) :: traverseDirectives o.dirs ++ traverseVarDefs o.vars
      ++ traverseSelectionSet o.sel ++ [.leave (.operation o)]

def traverseDefinitions : List Definition → List Ev
  | [] => []
  | d :: ds => traverseDefinition d ++ traverseDefinitions ds

def traverseDocument (d : Document) : List Ev :=
  .enter (.document d) :: traverseDefinitions d ++ [.leave (.document d)]

/-! ### C16: traversal with the lexically scoped type environment -/

def Snap.withType (s : Schema) (t : Option Ty) (e : Snap) : Snap :=
  { e with cur := s.resolve t, curLit := t, dTy := e.dTy + 1, dTyLit := e.dTyLit + 1 }
def Snap.withParent (e : Snap) : Snap :=
  { e with parent := e.cur, dParent := e.dParent + 1 }
def Snap.withField (f : Option FieldDef) (e : Snap) : Snap :=
  { e with field := f, dField := e.dField + 1 }
def Snap.withInput (s : Schema) (t : Option Ty) (e : Snap) : Snap :=
  { e with inp := s.resolve t, inpLit := t, dInp := e.dInp + 1, dInpLit := e.dInpLit + 1 }

mutual
def walkValue (s : Schema) (e : Snap) : Value → Trace
  | .bool b => [(.enter (.scalar (.bool b)), e), (.leave (.scalar (.bool b)), e)]
  | .float f => [(.enter (.scalar (.float f)), e), (.leave (.scalar (.float f)), e)]
  | .int i => [(.enter (.scalar (.int i)), e), (.leave (.scalar (.int i)), e)]
  | .str x => [(.enter (.scalar (.str x)), e), (.leave (.scalar (.str x)), e)]
  | .null => [(.enter .nullValue, e), (.leave .nullValue, e)]
  | .enum n => [(.enter (.enumValue n), e), (.leave (.enumValue n), e)]
  | .var n => [(.enter (.variable n), e), (.leave (.variable n), e)]
  | .list vs =>
      (.enter (.list vs), e) :: walkValues s (e.withInput s (listItemType e.inpLit)) vs
        ++ [(.leave (.list vs), e)]
  | .obj fs => (.enter (.object fs), e) :: walkObjFields s e fs ++ [(.leave (.object fs), e)]
def walkValues (s : Schema) (e : Snap) : List Value → Trace
  | [] => []
  | v :: vs => walkValue s e v ++ walkValues s e vs
def walkObjFields (s : Schema) (e : Snap) : List (Name × Value) → Trace
  | [] => []
  | (k, v) :: fs =>
      let e' := e.withInput s (objectFieldType s e.inpLit k)
      (.enter (.objectField (k, v)), e') :: walkValue s e' v ++ [(.leave (.objectField (k, v)), e')]
        ++ walkObjFields s e fs
end

def walkArguments (s : Schema) (defs : Option (List InputValueDef)) (e : Snap) : List Arg → Trace
  | [] => []
  | a :: as =>
      let e' := e.withInput s (argType defs a.1)
      (.enter (.argument a), e') :: walkValue s e' a.2 ++ [(.leave (.argument a), e')]
        ++ walkArguments s defs e as

def walkDirectives (s : Schema) (e : Snap) : List Directive → Trace
  | [] => []
  | d :: ds =>
      (.enter (.directive d), e)
        :: walkArguments s ((s.directiveByName d.name).map (·.args)) e d.args
        ++ [(.leave (.directive d), e)] ++ walkDirectives s e ds

def walkVarDefs (s : Schema) (e : Snap) : List VarDef → Trace
  | [] => []
  | v :: vs =>
      let e' := e.withInput s (some v.ty)
      (.enter (.varDef v), e')
        :: (match v.default with | some dv => walkValue s e' dv | none => [])
        ++ [(.leave (.varDef v), e')] ++ walkVarDefs s e vs

/-- a selection set's parent type is the current type of its surroundings -/
def walkSelectionSetWith (e : Snap) (sel : List Selection) (items : Snap → Trace) : Trace :=
  let e' := e.withParent
  (.enter (.selectionSet sel), e') :: items e' ++ [(.leave (.selectionSet sel), e')]

mutual
def walkSelection (s : Schema) (e : Snap) : Selection → Trace
  | .field pos alias name args dirs sel =>
      let f : FieldNode := ⟨pos, alias, name, args, dirs, sel⟩
      let fd := e.parent.bind (·.fieldByName name)
      let e1 := e.withType s (fd.map (·.ty))       -- the field's own type is current
      let e2 := e1.withField fd                    -- inside: this field's definition
      (.enter (.field f), e1)
        :: walkArguments s (fd.map (·.args)) e2 args ++ walkDirectives s e2 dirs
        ++ walkSelectionSetWith e2 sel (fun e' => walkSelections s e' sel)
        ++ [(.leave (.field f), e1)]
  | .spread pos name dirs =>
      let sp : SpreadNode := ⟨pos, name, dirs⟩
      (.enter (.spread sp), e) :: walkDirectives s e dirs ++ [(.leave (.spread sp), e)]
  | .inline pos tc dirs sel =>
      let i : InlineNode := ⟨pos, tc, dirs, sel⟩
      let e1 := match tc with
        | some c => e.withType s (some (.named c))
        | none => e
      (.enter (.inline i), e1) :: walkDirectives s e1 dirs
        ++ walkSelectionSetWith e1 sel (fun e' => walkSelections s e' sel)
        ++ [(.leave (.inline i), e1)]
def walkSelections (s : Schema) (e : Snap) : List Selection → Trace
  | [] => []
  | x :: xs => walkSelection s e x ++ walkSelections s e xs
end

def walkSelectionSet (s : Schema) (e : Snap) (sel : List Selection) : Trace :=
  walkSelectionSetWith e sel (fun e' => walkSelections s e' sel)

/-- The root type the schema prescribes for an operation kind (DESIGN A.1, with the visitor's
    fallback to the default name when an explicit schema block lacks the entry). -/
def walkDefinition (s : Schema) (e : Snap) : Definition → Option Trace
  | .frag f =>
      let e1 := e.withType s (some (.named f.tc))
      some ((.enter (.fragmentDef f), e1) :: walkDirectives s e1 f.dirs ++ walkSelectionSet s e1 f.sel
        ++ [(.leave (.fragmentDef f), e1)])
  | .op o =>
      (rootTypeName s o.kind).map fun tn =>
        let e1 := e.withType s (tn.map .named)
        (.enter (.operation o), e1) :: walkDirectives s e1 o.dirs ++ walkVarDefs s e1 o.vars
          ++ walkSelectionSet s e1 o.sel ++ [(.leave (.operation o), e1)]

def walkDefinitions (s : Schema) (e : Snap) : List Definition → Option Trace
  | [] => some []
  | d :: ds =>
      match walkDefinition s e d, walkDefinitions s e ds with
      | some a, some b => some (a ++ b)
      | _, _ => none

def walkDocument (s : Schema) (e : Snap) (d : Document) : Option Trace :=
  (walkDefinitions s e d).map fun t => (.enter (.document d), e) :: t ++ [(.leave (.document d), e)]

end Gql
