/-
  Spec/Subscription.lean — 5.2.3.1 single root field: after CollectFields on the subscription root
  type the grouped field set has exactly one entry, and it is not an introspection field.
-/
import GqlVerif.Spec.Collect
namespace Gql.Spec

def SubscriptionNotSingleField (s : Schema) (d : Document) : Prop :=
  ∃ o ∈ d.operations, o.kind = .subscription ∧
    ∃ R, s.subscriptionType = some R ∧
      ∃ fs vis, Collects s d R o.sel [] fs vis ∧
        ((∃ f ∈ fs, ∃ g ∈ fs, f.responseKey ≠ g.responseKey) ∨ ∃ f ∈ fs, f.name.dunder = true)

end Gql.Spec
