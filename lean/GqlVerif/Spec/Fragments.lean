/-
  Spec/Fragments.lean — C06: the spec conditions of the fragment rules.
-/
import GqlVerif.Spec.Graph
import GqlVerif.Spec.TypeSystem
import GqlVerif.Model.Rules.Basic
import GqlVerif.Lemmas.Fires
namespace Gql.Spec

/-- the fragment-spread graph: names spread (at any depth, through fields and inline fragments)
    within the definition(s) named `n` -/
def spreadsOf (d : Document) (n : Name) : List Name :=
  (d.fragments.filter (·.name == n)).flatMap fun f => (recursiveSpreads f.sel).map (·.name)

/-- 5.5.2.2 Fragment spreads must not form cycles: some fragment reaches itself through at least
    one spread -/
def FragmentCycle (d : Document) : Prop := ∃ a b, b ∈ spreadsOf d a ∧ Reachable (spreadsOf d) b a

/-- a fragment name is used when an operation spreads it directly or through other fragments -/
def FragmentUsed (d : Document) (n : Name) : Prop :=
  ∃ o ∈ d.operations, ∃ sp ∈ recursiveSpreads o.sel, Reachable (spreadsOf d) sp.name n

/-- 5.5.1.4 Fragments must be used -/
def UnusedFragment (d : Document) : Prop := ∃ f ∈ d.fragments, ¬ FragmentUsed d f.name

/-- 5.5.1.1 Fragment name uniqueness -/
def DuplicateFragmentName (d : Document) : Prop := ¬ (d.fragments.map (·.name)).Nodup

/-- spread `sp` / inline fragment `i` / variable definition `v` occurs in the document, at a
    position whose type environment is `env` -/
def SpreadAt (s : Schema) (d : Document) (sp : SpreadNode) (env : Snap) : Prop :=
  (Ev.enter (.spread sp), env) ∈ walkOf s d
def InlineAt (s : Schema) (d : Document) (i : InlineNode) (env : Snap) : Prop :=
  (Ev.enter (.inline i), env) ∈ walkOf s d
def VarDefAt (s : Schema) (d : Document) (v : VarDef) : Prop :=
  ∃ env, (Ev.enter (.varDef v), env) ∈ walkOf s d

/-- 5.5.2.1 Fragment spread target defined -/
def UndefinedFragmentSpread (s : Schema) (d : Document) : Prop :=
  ∃ sp env, SpreadAt s d sp env ∧ ∀ f ∈ d.fragments, f.name ≠ sp.name

/-- a type name the schema declares (the eight introspection types are always there) -/
def KnownType (s : Schema) (n : Name) : Prop := (s.typeByName n).isSome = true ∨ n ∈ introspectionTypeNames

/-- 5.5.1.2 / 5.8.2: a fragment's or inline fragment's type condition, or a variable's type,
    names a type absent from the schema -/
def UnknownTypeReferenced (s : Schema) (d : Document) : Prop :=
  (∃ f ∈ d.fragments, ¬ KnownType s f.tc)
  ∨ (∃ i env c, InlineAt s d i env ∧ i.tc = some c ∧ ¬ KnownType s c)
  ∨ (∃ v, VarDefAt s d v ∧ ¬ KnownType s v.ty.inner)

/-- 5.5.1.3 Fragments on composite types -/
def FragmentOnNonComposite (s : Schema) (d : Document) : Prop :=
  (∃ f ∈ d.fragments, ∃ t, s.typeByName f.tc = some t ∧ t.isComposite = false)
  ∨ (∃ i env c t, InlineAt s d i env ∧ i.tc = some c ∧ s.typeByName c = some t ∧ t.isComposite = false)

/-- two composite types can apply to a common object type -/
def TypesOverlap (s : Schema) (a b : TypeDef) : Prop := a.name = b.name ∨ ∃ o, Possible s a o ∧ Possible s b o

/-- 5.5.2.3 Fragment spread is possible: the (composite) type of an inline fragment, or of the
    definition a spread names, can never apply where the enclosing (composite) type does -/
def ImpossibleSpread (s : Schema) (d : Document) : Prop :=
  (∃ i env fragT parentT, InlineAt s d i env ∧ env.cur = some fragT ∧ env.parent = some parentT ∧
      fragT.isComposite = true ∧ parentT.isComposite = true ∧ ¬ TypesOverlap s fragT parentT)
  ∨ (∃ sp env frag fragT parentT, SpreadAt s d sp env ∧ d.fragByName sp.name = some frag ∧
      s.typeByName frag.tc = some fragT ∧ env.parent = some parentT ∧
      fragT.isComposite = true ∧ parentT.isComposite = true ∧ ¬ TypesOverlap s fragT parentT)

end Gql.Spec
