/-
  Thm/C01b.lean — PROPERTY C01 without the hypothesis `MergeAgrees`, and the sound half of C05
  for documents WITH fragment spreads.

  * `C05.merge_sound`: whenever the field-merging rule reports, some finite unrolling of the
    spec's FieldsInSetCanMerge fails for some selection set of the document (`MergeViolatedEx`,
    the fuel-free reading of 5.3.2) — for every document, fragments and cycles included.
  * `C01.valid_accepted`: a document that violates none of the other 23 conditions and for which
    no unrolling of FieldsInSetCanMerge fails is accepted by the default plan.
-/
import GqlVerif.Lemmas.MergeFinal
import GqlVerif.Lemmas.FuelAdequate
import GqlVerif.Thm.C05b
namespace Gql.C05
open Gql.Spec

/-- **C05, soundness with fragments.**  Hypotheses: a query root; inline type conditions are
    declared types; argument names are unique per field (both follow from the other rules'
    conditions, see `C01.valid_accepted`). -/
theorem merge_sound (s : Schema) (d : Document) (hq : s.queryType.isSome = true) (htc : TcKnown s d) (hu : ArgsUniq s d)
    (h : fires .overlappingFieldsCanBeMerged s d) : MergeViolatedEx s d :=
  Gql.merge_sound s d hq htc hu h

/-- the executable spec with its fixed fuel is an instance of the fuel-free reading -/
theorem violatedEx_of_violated (s : Schema) (d : Document) (h : MergeViolated s d) : MergeViolatedEx s d :=
  mergeViolatedEx_of_violated s d h

/-- the premises are met and the conclusion is not vacuous: on the F15 document the spec fails (so
    `MergeViolatedEx` holds) although the rule is silent; on a conflicting document both hold -/
example : MergeViolatedEx exSchema f15Doc := violatedEx_of_violated _ _ f15_regression.1

end Gql.C05

namespace Gql.C01
open Gql.Spec

mutual
theorem tcKnown_of_events_sel (s : Schema) : ∀ x : Selection,
    (∀ i c, Ev.enter (.inline i) ∈ traverseSelection x → i.tc = some c → (s.typeByName c).isSome = true) → tcKnownSel s x = true
  | .field pos alias name args dirs sel, h => by
      simp only [tcKnownSel]
      refine tcKnown_of_events_sels s sel (fun i c hi hc => h i c ?_ hc)
      simp only [traverseSelection, List.cons_append, List.mem_cons, List.mem_append]
      right; left; right; right; left; exact hi
  | .spread _ _ _, _ => by simp [tcKnownSel]
  | .inline pos tc dirs sel, h => by
      simp only [tcKnownSel, Bool.and_eq_true]
      constructor
      · cases tc with
        | none => rfl
        | some c => exact h ⟨pos, some c, dirs, sel⟩ c (by simp [traverseSelection]) rfl
      · refine tcKnown_of_events_sels s sel (fun i c hi hc => h i c ?_ hc)
        simp only [traverseSelection, List.cons_append, List.mem_cons, List.mem_append]
        right; left; right; right; left; exact hi
theorem tcKnown_of_events_sels (s : Schema) : ∀ xs : List Selection,
    (∀ i c, Ev.enter (.inline i) ∈ traverseSelections xs → i.tc = some c → (s.typeByName c).isSome = true) → tcKnownSels s xs = true
  | [], _ => by simp [tcKnownSels]
  | x :: xs, h => by
      simp only [tcKnownSels, Bool.and_eq_true]
      exact ⟨tcKnown_of_events_sel s x (fun i c hi hc => h i c (by simp only [traverseSelections, List.mem_append]; exact Or.inl hi) hc),
             tcKnown_of_events_sels s xs (fun i c hi hc => h i c (by simp only [traverseSelections, List.mem_append]; exact Or.inr hi) hc)⟩
end

theorem mem_traverseDefinitions {x : Definition} {e : Ev} : ∀ {ds : List Definition}, x ∈ ds → e ∈ traverseDefinition x →
    e ∈ traverseDefinitions ds
  | [], h, _ => by simp at h
  | y :: ys, h, he => by
      simp only [traverseDefinitions, List.mem_append]
      rcases List.mem_cons.1 h with rfl | h
      · exact Or.inl he
      · exact Or.inr (mem_traverseDefinitions h he)

/-- no inline fragment is conditioned on one of the eight introspection types (the schema text
    the crate is given does not declare them; same caveat as `DocOk` makes for variable types) -/
def NoIntrospectionConditions (s : Schema) (d : Document) : Prop :=
  ∀ i env c, InlineAt s d i env → i.tc = some c → c ∉ introspectionTypeNames

/-- declared inline type conditions, from 'known type names' -/
theorem tcKnown_of_valid (s : Schema) (d : Document) (hq : s.queryType.isSome = true)
    (hk : ¬ UnknownTypeReferenced s d) (hi : NoIntrospectionConditions s d) : TcKnown s d := by
  intro x hx
  apply tcKnown_of_events_sels
  intro i c hmem hc
  -- the inline fragment is entered by the walk
  have hev : Ev.enter (.inline i) ∈ (walkOf s d).map Prod.fst := by
    rw [walkOf_events s d hq]
    simp only [traverseDocument, List.cons_append, List.mem_cons, List.mem_append]
    right; left
    refine mem_traverseDefinitions hx ?_
    cases x with
    | frag f =>
      simp only [traverseDefinition, traverseSelectionSet, List.cons_append, List.mem_cons, List.mem_append]
      right; left; right; right; left; exact hmem
    | op o =>
      simp only [traverseDefinition, traverseSelectionSet, List.cons_append, List.mem_cons, List.mem_append]
      right; left; right; right; left; exact hmem
  obtain ⟨⟨ev, env⟩, hm, he⟩ := List.mem_map.1 hev
  simp only at he; subst he
  have hkn : KnownType s c := Classical.byContradiction fun hn => hk (Or.inr (Or.inl ⟨i, env, c, hm, hc, hn⟩))
  rcases hkn with h | h
  · exact h
  · exact absurd h (hi i env c hm hc)

/-- unique argument names per entered field, from 'unique argument names' -/
theorem argsUniq_of_valid (s : Schema) (d : Document) (h : ¬ DuplicateArgument s d) : ArgsUniq s d := by
  intro f env hm
  exact Classical.byContradiction fun hn => h (Or.inl ⟨f, env, hm, hn⟩)

/-- a document that satisfies all validation conditions: the 23 conditions other than field
    merging, and FieldsInSetCanMerge in its fuel-free reading -/
structure Valid (s : Schema) (d : Document) : Prop where
  others : ∀ r, r ≠ .overlappingFieldsCanBeMerged → ¬ Violates r s d
  merge : ¬ MergeViolatedEx s d

/-- **C01.**  On a well-formed schema, a document that satisfies all validation conditions is
    accepted by the default plan: `validate` returns the empty list.  (`Violates` for variable
    positions is the condition without the allowance for locations that declare a default:
    finding F13.) -/
theorem valid_accepted (s : Schema) (d : Document) (hs : SchemaOk s) (hd : DocOk d) (hi : NoIntrospectionConditions s d)
    (hv : Valid s d) : validate s d Gen.defaultPlan = some [] := by
  rw [accepted_iff_none_fires s d hs.queryRoot]
  intro r hf
  by_cases h1 : r = .overlappingFieldsCanBeMerged
  · subst h1
    have htc := tcKnown_of_valid s d hs.queryRoot (hv.others .knownTypeNames (by simp)) hi
    have hu := argsUniq_of_valid s d (hv.others .uniqueArgumentNames (by simp))
    exact hv.merge (C05.merge_sound s d hs.queryRoot htc hu hf)
  · obtain ⟨r', hr'⟩ := fires_sound s d hs hd r h1 hf
    by_cases h2 : r' = .overlappingFieldsCanBeMerged
    · subst h2; exact hv.merge (C05.violatedEx_of_violated s d hr')
    · exact hv.others r' h2 hr'

/-- on a document without fragment cycles the fuel-free reading of 5.3.2 is the executable one -/
theorem valid_iff (s : Schema) (d : Document) (hs : SchemaOk s) : Valid s d ↔ ∀ r, ¬ Violates r s d := by
  constructor
  · intro hv r
    by_cases h1 : r = .overlappingFieldsCanBeMerged
    · subst h1
      exact fun hm => hv.merge (mergeViolatedEx_of_violated s d hm)
    · exact hv.others r h1
  · intro h
    refine ⟨fun r _ => h r, fun hex => ?_⟩
    exact h .overlappingFieldsCanBeMerged ((violatedEx_iff_of_acyclic s d hs.queryRoot (h .noFragmentsCycle)).1 hex)

/-- **C01, in its plain form.**  On a well-formed schema, a document that violates none of the 24
    conditions - each a predicate of `Spec/`, field merging being the executable FieldsInSetCanMerge
    with its own fuel (adequate without fragment cycles: `violatedEx_iff_of_acyclic`) - is accepted
    by the default plan.  No hypothesis about any rule. -/
theorem valid_accepted_plain (s : Schema) (d : Document) (hs : SchemaOk s) (hd : DocOk d) (hi : NoIntrospectionConditions s d)
    (hv : ∀ r, ¬ Violates r s d) : validate s d Gen.defaultPlan = some [] :=
  valid_accepted s d hs hd hi ((valid_iff s d hs).2 hv)

/-- the same, read as: every error of the default plan points at a violated condition -/
theorem rejected_only_if_invalid (s : Schema) (d : Document) (hs : SchemaOk s) (hd : DocOk d) (hi : NoIntrospectionConditions s d)
    (errs : List Err) (h : validate s d Gen.defaultPlan = some errs) (hne : errs ≠ []) : ¬ Valid s d := by
  intro hv
  rw [valid_accepted s d hs hd hi hv] at h
  cases h
  exact hne rfl

/-- **C02 without a hypothesis on the merging rule, for the other 23 conditions**: a document that
    violates a condition other than field merging makes some rule of the default plan fire -/
theorem violates_fires (s : Schema) (d : Document) (hs : SchemaOk s) (hd : DocOk d) (r : RuleId)
    (h1 : r ≠ .overlappingFieldsCanBeMerged) (hv : Violates r s d) : ∃ r', fires r' s d := by
  by_cases h2 : r = .noFragmentsCycle
  · subst h2
    by_cases hn : (d.fragments.map (·.name)).Nodup
    · exact ⟨_, (C06.noFragmentsCycle_iff s d hs.queryRoot hn).2 hv⟩
    · exact ⟨.uniqueFragmentNames, (C06.uniqueFragmentNames_iff s d hs.queryRoot).2 hn⟩
  by_cases h3 : r = .valuesOfCorrectType
  · subst h3
    by_cases hvt : VarTypesGood s d
    · exact ⟨_, (C08.valuesOfCorrectType_iff_wf s d hs.inputsClosed hs.argsGood hvt).2 hv⟩
    · have : ∃ o, Definition.op o ∈ d ∧ ∃ v ∈ o.vars, ¬ GoodTy s v.ty := by
        refine Classical.byContradiction fun hc => hvt ?_
        intro o ho v hv'
        exact Classical.byContradiction fun hg => hc ⟨o, ho, v, hv', hg⟩
      obtain ⟨o, ho, v, hv', hbad⟩ := this
      have ho' := (mem_operations_iff d o).2 ho
      obtain ⟨hok, hni⟩ := hd o ho' v hv'
      cases ht : s.typeByName v.ty.inner with
      | none =>
        refine ⟨.knownTypeNames, (C06.knownTypeNames_iff s d hs.queryRoot).2 (Or.inr (Or.inr ⟨v, ?_, ?_⟩))⟩
        · exact (C07.enter_varDef_in_walk s d hs.queryRoot v).2 ⟨o, ho', hv'⟩
        · rintro (h | h)
          · rw [ht] at h; cases h
          · exact hni h
      | some t =>
        cases hi : t.isInput with
        | true => exact absurd ⟨hok, by simp [Schema.isInputName, ht, hi]⟩ hbad
        | false =>
          exact ⟨.variablesAreInputTypes, (C07.variablesAreInputTypes_iff s d hs.queryRoot).2 ⟨o, ho', v, hv', t, ht, hi⟩⟩
  exact ⟨r, (fires_iff_violates_basic s d hs r h1 h2 h3).2 hv⟩

/-- hence the default plan returns at least one error -/
theorem invalid_rejected (s : Schema) (d : Document) (hs : SchemaOk s) (hd : DocOk d) (r : RuleId)
    (h1 : r ≠ .overlappingFieldsCanBeMerged) (hv : Violates r s d) :
    ∃ errs, validate s d Gen.defaultPlan = some errs ∧ errs ≠ [] := by
  refine ⟨_, C03.no_panic s d hs.queryRoot _, fun he => ?_⟩
  obtain ⟨r', hr'⟩ := violates_fires s d hs hd r h1 hv
  have := (accepted_iff_none_fires s d hs.queryRoot).1 (by rw [C03.no_panic s d hs.queryRoot, he])
  exact this r' hr'

/-! ### the hypotheses are satisfiable: `{ a a }` against `type Query { a: Int }`
    (ids Query=0 Int=6 a=100) meets them, with a same-key pair for the merging condition -/

def tinySchema : Schema := [ .type (.object 0 [] [⟨100, [], .named 6⟩]), .type (.scalar 6) ]
def tinyDoc : Document :=
  [.op ⟨.shorthand, ⟨0, 0⟩, none, [], [], [.field ⟨1, 3⟩ none 100 [] [] [], .field ⟨1, 5⟩ none 100 [] [] []]⟩]

theorem tiny_schemaOk : SchemaOk tinySchema where
  queryRoot := by decide
  typeNames := by decide
  directiveNames := by decide
  inputsClosed := by
    intro n n' fields h f hf
    have hm := (typeByName_some h).1
    simp [tinySchema] at hm
  argsGood := by
    refine ⟨?_, ?_⟩
    · intro td hm n fd hfd a ha
      simp [tinySchema] at hm
      rcases hm with rfl | rfl
      · simp [TypeDef.fieldByName] at hfd
        obtain ⟨rfl, rfl⟩ := hfd
        simp at ha
      · simp [TypeDef.fieldByName] at hfd
    · intro dd hm; simp [tinySchema] at hm

theorem cm_short (s : Schema) (d : Document) (sf : Nat) : ∀ (nf : Nat) (L : List AstAndDef), L.length ≤ 1 →
    fieldsInSetCanMerge s d sf nf L = true
  | 0, _, _ => rfl
  | n + 1, [], _ => by simp [cm_succ, allPairs]
  | n + 1, [a], _ => by simp [cm_succ, allPairs]
  | n + 1, _ :: _ :: _, h => by simp at h

theorem srs_leaves (s : Schema) (d : Document) (sf : Nat) (a b : AstAndDef) (ha : a.field.sel = []) (hb : b.field.sel = [])
    (ht : typesAgree s a b = true) : ∀ nf, sameResponseShape s d sf nf a b = true
  | 0 => rfl
  | n + 1 => by simp [srs_succ, ht, subFields, specFields, specFieldsWith, ha, hb, allPairs]

theorem tiny_merge : ¬ MergeViolatedEx tinySchema tinyDoc := by
  rintro ⟨sf, nf, _, _, sel, env, hm, hf⟩
  have h := List.mem_map_of_mem (f := Prod.fst) hm
  rw [walkOf_events _ _ (by decide)] at h
  simp [traverseDocument, traverseDefinitions, traverseDefinition, traverseSelectionSet, traverseSelections,
    traverseSelection, tinyDoc, traverseDirectives, traverseVarDefs, traverseArguments] at h
  rcases h with rfl | rfl
  · -- the root selection set: two `a` under one key
    cases nf with
    | zero => cases hf
    | succ n =>
      have hsub : ∀ (a : AstAndDef), a.field.sel = [] → subFields tinySchema tinyDoc sf a = [] := by
        intro a ha; simp [subFields, specFields, specFieldsWith, ha]
      have : fieldsInSetCanMerge tinySchema tinyDoc sf (n + 1)
          (specFields tinySchema tinyDoc sf env.parent
            [Selection.field ⟨1, 3⟩ none 100 [] [] [], Selection.field ⟨1, 5⟩ none 100 [] [] []]) = true := by
        simp only [cm_succ, specFields, specFieldsWith, specFieldsSelWith, List.append_nil, List.singleton_append, allPairs,
          List.all_cons, List.all_nil, Bool.and_true]
        simp only [pairOk, Bool.or_eq_true, Bool.and_eq_true]
        right
        refine ⟨srs_leaves _ _ _ _ _ rfl rfl (by simp [typesAgree]; cases (env.parent.bind fun x => x.fieldByName 100) <;> simp [shapesAgree_refl]) n, ?_⟩
        have hp : parentsMayCoincide ⟨env.parent, ⟨⟨1, 3⟩, none, 100, [], [], []⟩, env.parent.bind (·.fieldByName 100)⟩
            ⟨env.parent, ⟨⟨1, 5⟩, none, 100, [], [], []⟩, env.parent.bind (·.fieldByName 100)⟩ = true := by
          simp [parentsMayCoincide]
        simp only [hp, if_true, Bool.and_eq_true]
        refine ⟨⟨by simp, by decide⟩, ?_⟩
        rw [hsub _ rfl, hsub _ rfl]
        exact cm_short _ _ _ _ _ (by simp)
      rw [this] at hf; cases hf
  · -- the empty selection sets of the two leaves
    rw [cm_short _ _ _ _ _ (by simp [specFields, specFieldsWith])] at hf
    cases hf

/-- every hypothesis of `valid_accepted` holds for `{ a a }` -/
theorem tiny_valid : SchemaOk tinySchema ∧ DocOk tinyDoc ∧ NoIntrospectionConditions tinySchema tinyDoc ∧ Valid tinySchema tinyDoc := by
  refine ⟨tiny_schemaOk, ?_, ?_, ?_, tiny_merge⟩
  · intro o ho v hv
    simp [tinyDoc, Document.operations] at ho
    subst ho; simp at hv
  · intro i env c hm
    have h := List.mem_map_of_mem (f := Prod.fst) hm
    rw [walkOf_events _ _ (by decide)] at h
    simp [traverseDocument, traverseDefinitions, traverseDefinition, traverseSelectionSet, traverseSelections,
      traverseSelection, tinyDoc, traverseDirectives, traverseVarDefs, traverseArguments] at h
  · intro r hr hv
    have hnf : ∀ r, ¬ fires r tinySchema tinyDoc := by intro r; cases r <;> first | decide | decide +kernel
    by_cases h2 : r = .noFragmentsCycle
    · subst h2
      exact hnf _ ((C06.noFragmentsCycle_iff tinySchema tinyDoc (by decide) (by decide)).2 hv)
    by_cases h3 : r = .valuesOfCorrectType
    · subst h3
      refine hnf _ ((C08.valuesOfCorrectType_iff_wf tinySchema tinyDoc tiny_schemaOk.inputsClosed tiny_schemaOk.argsGood ?_).2 hv)
      intro o ho v hv'
      simp [tinyDoc] at ho
      subst ho; simp at hv'
    exact hnf r ((fires_iff_violates_basic tinySchema tinyDoc tiny_schemaOk r hr h2 h3).2 hv)

/-- the theorem applied to it -/
example : validate tinySchema tinyDoc Gen.defaultPlan = some [] :=
  valid_accepted _ _ tiny_valid.1 tiny_valid.2.1 tiny_valid.2.2.1 tiny_valid.2.2.2

end Gql.C01
