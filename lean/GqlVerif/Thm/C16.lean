/-
  Thm/C16.lean — PROPERTY C16: the visitor context reports, at every callback, the type
  environment the schema prescribes for that syntactic position (`walkDocument`, Spec/Walk.lean:
  top-down, lexically scoped, no stacks), and after the walk the context is what it was before.
-/
import GqlVerif.Lemmas.Visit
namespace Gql.C16

/-- Main refinement: run from *any* context `st`, the stack machine makes exactly the callbacks,
    with exactly the context answers (and stack depths), of the environment-passing walk started
    from the answers at entry — and hands back the very stacks it was given. -/
theorem snapshots_eq_walk (s : Schema) (d : Document) (v : V) (h : visitDocument s d = some v)
    (st : Stacks) : ∃ t, walkDocument s st.snap d = some t ∧ v st = (st, t) := by
  have hl := visitDocument_lexical s d
  rw [h] at hl
  exact hl st

/-- The visitor returns normally exactly when the spec walk is defined. -/
theorem walk_none_iff (s : Schema) (d : Document) :
    visitDocument s d = none ↔ ∀ e, walkDocument s e d = none := by
  have hl := visitDocument_lexical s d
  cases hv : visitDocument s d with
  | none => rw [hv] at hl; simpa [OptLexical] using hl
  | some v =>
    rw [hv] at hl
    simp only [OptLexical] at hl
    obtain ⟨t, ht, _⟩ := hl Stacks.empty
    simp only [reduceCtorEq, false_iff]
    intro hall
    have := hall Stacks.empty.snap
    simp [ht] at this

/-- After the walk the context is back in the state it started from (so: empty if it was empty)
    and can be reused by the next rule. -/
theorem stacks_balanced (s : Schema) (d : Document) (v : V) (h : visitDocument s d = some v)
    (st : Stacks) : (v st).1 = st := by
  obtain ⟨t, _, hv⟩ := snapshots_eq_walk s d v h st
  rw [hv]

/-- From the initial empty context: the answers are those of the walk in the empty environment. -/
theorem snapshots_from_empty (s : Schema) (d : Document) (v : V) (h : visitDocument s d = some v) :
    walkDocument s Snap.empty d = some (v Stacks.empty).2 := by
  obtain ⟨t, ht, hv⟩ := snapshots_eq_walk s d v h Stacks.empty
  rw [hv]; exact ht

/-- name of the type if it is an object type -/
def objName? : Option TypeDef → Option Name
  | some (.object n _ _) => some n
  | _ => none

/-- What the schema prescribes as root type (DESIGN A.1): the entry of the schema definition
    (explicit, or the default names when there is none) if it names an object type; for
    mutation/subscription otherwise the object type carrying the default name, if any.
    Outer `none`: no query root object type (the crate panics; excluded by schema well-formedness). -/
def specRoot (s : Schema) (k : OpKind) : Option (Option Name) :=
  let sd := s.explicitSchemaDef.getD defaultSchemaDef
  match k with
  | .query | .shorthand => (objName? (s.typeByName (sd.query.getD nQuery))).map some
  | .mutation =>
      some ((objName? (sd.mutation.bind s.typeByName)).orElse fun _ => objName? (s.typeByName nMutation))
  | .subscription =>
      some ((objName? (sd.subscription.bind s.typeByName)).orElse fun _ => objName? (s.typeByName nSubscription))

theorem objectTypeByName_name (s : Schema) (n : Name) :
    (s.objectTypeByName n).map (·.name) = objName? (s.typeByName n) := by
  unfold Schema.objectTypeByName
  cases h : s.typeByName n with
  | none => simp [objName?]
  | some t => cases t <;> simp [objName?, TypeDef.name]

theorem bind_objectTypeByName_name (s : Schema) (m : Option Name) :
    (m.bind s.objectTypeByName).map (·.name) = objName? (m.bind s.typeByName) := by
  cases m with
  | none => simp [objName?]
  | some n => simpa using objectTypeByName_name s n

theorem rootTypeName_eq_specRoot (s : Schema) (k : OpKind) : rootTypeName s k = specRoot s k := by
  cases k
  · simp [rootTypeName, specRoot, Schema.queryType, Schema.schemaDefinition, ← objectTypeByName_name, Function.comp_def]
  · have h := bind_objectTypeByName_name s (s.explicitSchemaDef.getD defaultSchemaDef).mutation
    simp only [rootTypeName, specRoot, Schema.mutationType, Schema.schemaDefinition, ← h]
    cases ((s.explicitSchemaDef.getD defaultSchemaDef).mutation.bind s.objectTypeByName) with
    | none => cases h2 : s.typeByName nMutation with
      | none => simp [objName?]
      | some t => cases t <;> simp [objName?]
    | some t => simp
  · have h := bind_objectTypeByName_name s (s.explicitSchemaDef.getD defaultSchemaDef).subscription
    simp only [rootTypeName, specRoot, Schema.subscriptionType, Schema.schemaDefinition, ← h]
    cases ((s.explicitSchemaDef.getD defaultSchemaDef).subscription.bind s.objectTypeByName) with
    | none => cases h2 : s.typeByName nSubscription with
      | none => simp [objName?]
      | some t => cases t <;> simp [objName?]
    | some t => simp
  · simp [rootTypeName, specRoot, Schema.queryType, Schema.schemaDefinition, ← objectTypeByName_name, Function.comp_def]

/-! ### Non-vacuity and a reading aid: a concrete schema and document, evaluated by the kernel. -/

/-- `type Query { t: T  f(l: [Int]!): Int }  type T { a: Int }  scalar Int` with ids
    Query=0 Int=6 T=20 t=22 f=24 l=26 a=28 -/
def exSchema : Schema :=
  [ .type (.object 0 [] [⟨22, [], .named 20⟩, ⟨24, [⟨26, .nonNull (.list (.named 6)), none⟩], .named 6⟩]),
    .type (.object 20 [] [⟨28, [], .named 6⟩]), .type (.scalar 6) ]

/-- `{ t { a } f(l: [1]) }` -/
def exDoc : Document :=
  [ .op ⟨.shorthand, ⟨0, 0⟩, none, [], [],
      [ .field ⟨1, 3⟩ none 22 [] [] [.field ⟨1, 7⟩ none 28 [] [] []],
        .field ⟨1, 13⟩ none 24 [(26, .list [.int 1])] [] [] ]⟩ ]

example : (visitDocument exSchema exDoc).isSome = true := by decide

/-- Inside the list literal at the `[Int]!` position the expected input type is `Int`
    (regression witness for the repaired F9). -/
example :
    ((walkDocument exSchema Snap.empty exDoc).getD []).any
      (fun e => match e with
        | (.enter (.scalar _), sn) => decide (sn.inpLit = some (.named 6)) && decide (sn.dInpLit = 2)
        | _ => false) = true := by decide

end Gql.C16
