/-
  Thm/C05d.lean — PROPERTY C05, last clause: "the verdict does not depend on the order of
  selections, spreads or definitions".  Definitions: `C14.fires_perm_merge`.  Selections and spreads:
  here.  `DocRel d d'` says that `d'` is `d` with the selections of any of its selection sets
  reordered - fields, fragment spreads and inline fragments permuted within the set they belong to,
  at every depth, in operations and in fragment definitions.  FieldsInSetCanMerge is invariant
  under that (`mergeViolated_selrel`: the collected fields are the same up to order and the pair
  tests are symmetric, given unique argument names), and since the rule reports iff it fails
  (`merge_iff_acyclic`), so is the rule (`merge_order_independent`).  This is the property that
  finding F15 violated on the code as found (a verdict that changed when a fragment's two spreads
  were swapped).
-/
import GqlVerif.Lemmas.SelPermFinal
namespace Gql.C05
open Gql.Spec

/-- **C05, order of selections and spreads (spec side).** -/
theorem mergeViolated_order_independent (s : Schema) (hq : s.queryType.isSome = true) {d d' : Document}
    (h : DocRel d d') (hd : AODoc d) : MergeViolated s d ↔ MergeViolated s d' :=
  mergeViolated_selrel s hq h hd

/-- **C05, order of selections and spreads (the rule).**  On a document without fragment cycles,
    with declared inline type conditions and unique argument names, the rule reports iff it
    reports on the document with the selections of its selection sets reordered. -/
theorem merge_order_independent (s : Schema) (hq : s.queryType.isSome = true) {d d' : Document}
    (h : DocRel d d') (hd : AODoc d) (ht : TcKnown s d) (hac : ¬ FragmentCycle d) :
    fires .overlappingFieldsCanBeMerged s d ↔ fires .overlappingFieldsCanBeMerged s d' := by
  have hd' := aoDoc_rel h hd
  have hac' : ¬ FragmentCycle d' := fun hc => hac (fragmentCycle_rel h.symm hc)
  rw [merge_iff_acyclic s d hq ht (argsUniq_of_aoDoc s d hq hd) hac,
    merge_iff_acyclic s d' hq (tcKnown_rel s h ht) (argsUniq_of_aoDoc s d' hq hd') hac']
  exact mergeViolated_selrel s hq h hd

/-! ### not vacuous: the order dependence repaired by e97c627, as an instance.
    `{ h { t: self { x: name ...A ...F } } }  A { ...G1 }  F { ...G1 ...G2 }  G1 { nn }  G2 { x: nn }`
    and the same document with F's two spreads swapped are related, and the rule reports on both. -/

def orderDoc (swap : Bool) : Document :=
  [q [fld none 20 [fld (some 42) 28 [fld (some 44) 24 [], spr 54, spr 56]]],
   frag 54 [spr 58], frag 56 (if swap then [spr 60, spr 58] else [spr 58, spr 60]), frag 58 [fld none 26 []], frag 60 [fld (some 44) 26 []]]

theorem orderDoc_rel : DocRel (orderDoc false) (orderDoc true) :=
  .cons _ (.cons _ (DocRel.frag ⟨⟨2, 1⟩, 56, 22, [], [spr 58, spr 60]⟩ _ (.swap _ _ _)))

example : fires .overlappingFieldsCanBeMerged exSchema (orderDoc false) ∧ fires .overlappingFieldsCanBeMerged exSchema (orderDoc true) := by
  constructor <;> decide +kernel

theorem orderDoc_ao : AODoc (orderDoc false) := by
  intro x hx
  simp only [orderDoc, q, frag, fld, spr, List.mem_cons, List.not_mem_nil, or_false] at hx
  rcases hx with rfl | rfl | rfl | rfl | rfl <;> simp [Definition.selections, aoSels, aoSel]

theorem orderDoc_tc : TcKnown exSchema (orderDoc false) := by
  unfold TcKnown
  decide

theorem orderDoc_acyclic : ¬ FragmentCycle (orderDoc false) := by
  intro h
  have hn : ((orderDoc false).fragments.map (·.name)).Nodup := by decide
  have hf := (C06.noFragmentsCycle_iff exSchema (orderDoc false) (by decide) hn).2 h
  exact absurd hf (by decide +kernel)

/-- all hypotheses of `merge_order_independent` hold of the pair of documents of the repaired order dependence -/
example : fires .overlappingFieldsCanBeMerged exSchema (orderDoc false) ↔ fires .overlappingFieldsCanBeMerged exSchema (orderDoc true) :=
  merge_order_independent exSchema (by decide) orderDoc_rel orderDoc_ao orderDoc_tc orderDoc_acyclic

end Gql.C05
