/-
  Thm/C05.lean — PROPERTY C05 (partial): the field-merging rule against the spec's
  FieldsInSetCanMerge (Spec/Merge.lean).
  Proved so far: the building blocks on which the comparison of two fields rests agree with the
  spec's wording; every error carries the rule's code.  The document-level iff is explored by the
  check (each generated document is judged against the executable spec), and is false in
  general (known finding F15, `f15_regression`).
-/
import GqlVerif.Spec.Merge
import GqlVerif.Thm.C13
import GqlVerif.Thm.C18
namespace Gql.C05
open Gql.Spec

/-- `is_type_conflict` (lists first, then non-null) is the negation of the spec's
    SameResponseShape steps 1-3 (non-null first, then lists) -/
theorem typeConflict_iff (s : Schema) : ∀ a b : Ty, isTypeConflict s a b = !shapesAgree s a b
  | .named x, .named y => by
      simp only [isTypeConflict, shapesAgree]
      cases s.isLeafName x <;> cases s.isLeafName y <;> simp [bne]
  | .named _, .list _ => by simp [isTypeConflict, shapesAgree]
  | .named _, .nonNull _ => by simp [isTypeConflict, shapesAgree]
  | .list _, .named _ => by simp [isTypeConflict, shapesAgree]
  | .list a, .list b => by simp [isTypeConflict, shapesAgree, typeConflict_iff s a b]
  | .list _, .nonNull _ => by simp [isTypeConflict, shapesAgree]
  | .nonNull _, .named _ => by simp [isTypeConflict, shapesAgree]
  | .nonNull _, .list _ => by simp [isTypeConflict, shapesAgree]
  | .nonNull a, .nonNull b => by simp [isTypeConflict, shapesAgree, typeConflict_iff s a b]

/-- type agreement is symmetric -/
theorem shapesAgree_comm (s : Schema) : ∀ a b : Ty, shapesAgree s a b = shapesAgree s b a
  | .named x, .named y => by
      simp only [shapesAgree]
      by_cases h : x = y
      · subst h; rfl
      · have h' : ¬ y = x := fun e => h e.symm
        have e1 : (x == y) = false := by simp [h]
        have e2 : (y == x) = false := by simp [h']
        cases s.isLeafName x <;> cases s.isLeafName y <;> simp [e1, e2]
  | .named _, .list _ | .named _, .nonNull _ | .list _, .named _ | .list _, .nonNull _
  | .nonNull _, .named _ | .nonNull _, .list _ => by simp [shapesAgree]
  | .list a, .list b => by simp [shapesAgree, shapesAgree_comm s a b]
  | .nonNull a, .nonNull b => by simp [shapesAgree, shapesAgree_comm s a b]

/-- `is_same_arguments` is the spec's "identical sets of arguments" as written in Spec/Merge.lean;
    with tree equality of values (C18) it is: same length, and every argument of the first list
    meets, at the first argument of that name in the second, an equal value -/
theorem sameArguments_eq (a b : List Arg) : sameArguments a b = identicalArguments a b := rfl

theorem sameArguments_iff (a b : List Arg) :
    sameArguments a b = true ↔
      a.length = b.length ∧ ∀ p ∈ a, ∃ q, b.find? (fun q => p.1 == q.1) = some q ∧ p.2 = q.2 := by
  simp only [sameArguments, Bool.and_eq_true, beq_iff_eq, List.all_eq_true]
  constructor
  · rintro ⟨hl, h⟩
    refine ⟨hl, fun p hp => ?_⟩
    have := h p hp
    cases hf : b.find? (fun q => p.1 == q.1) with
    | none => simp [hf] at this
    | some q => simp only [hf] at this; exact ⟨q, rfl, (C18.compare_iff_eq p.2 q.2).1 this⟩
  · rintro ⟨hl, h⟩
    refine ⟨hl, fun p hp => ?_⟩
    obtain ⟨q, hq, he⟩ := h p hp
    simp only [hq]
    exact (C18.compare_iff_eq p.2 q.2).2 he

/-- the spec predicate and its executable form -/
theorem mergeViolated_iff (s : Schema) (d : Document) : MergeViolated s d ↔ mergeViolatedB s d = true := by
  unfold MergeViolated mergeViolatedB
  rw [List.any_eq_true]
  constructor
  · rintro ⟨sel, env, hmem, hf⟩
    exact ⟨_, hmem, by simp [hf]⟩
  · rintro ⟨⟨ev, env⟩, hmem, h⟩
    cases ev with
    | leave n => simp at h
    | enter n =>
      cases n with
      | selectionSet sel => exact ⟨sel, env, hmem, by simpa using h⟩
      | _ => simp at h

theorem codes_C05 (s : Schema) (d : Document) :
    ∀ e ∈ errsOf .overlappingFieldsCanBeMerged s d, e.code = .overlappingFieldsCanBeMerged := C13.codes s d _ _

/-! Witnesses.  `type Query { h: H }  type H { name: String  nn: Int!  self: H }`
    ids: Query=0 String=10 Int=6 h=20 H=22 name=24 nn=26 self=28; aliases g=40 t=42 x=44; fragments F2=50 F3=52 -/
def exSchema : Schema :=
  [ .type (.object 0 [] [⟨20, [], .named 22⟩]),
    .type (.object 22 [] [⟨24, [], .named 10⟩, ⟨26, [], .nonNull (.named 6)⟩, ⟨28, [], .named 22⟩]),
    .type (.scalar 10), .type (.scalar 6) ]
def fld (alias : Option Name) (n : Name) (sel : List Selection) : Selection := .field ⟨1, 1⟩ alias n [] [] sel
def spr (n : Name) : Selection := .spread ⟨1, 2⟩ n []
def q (sel : List Selection) : Definition := .op ⟨.shorthand, ⟨0, 0⟩, none, [], [], sel⟩
def frag (n : Name) (sel : List Selection) : Definition := .frag ⟨⟨2, 1⟩, n, 22, [], sel⟩

-- { h { x: name  x: nn } }: different fields under one key
example : fires .overlappingFieldsCanBeMerged exSchema [q [fld none 20 [fld (some 44) 24 [], fld (some 44) 26 []]]] := by decide +kernel
example : MergeViolated exSchema [q [fld none 20 [fld (some 44) 24 [], fld (some 44) 26 []]]] := by
  rw [mergeViolated_iff]; decide +kernel
-- { h { x: name  x: name } } merges
example : ¬ fires .overlappingFieldsCanBeMerged exSchema [q [fld none 20 [fld (some 44) 24 [], fld (some 44) 24 []]]] := by decide +kernel
-- the conflict sits two levels down, reached through the parents' common key
example : fires .overlappingFieldsCanBeMerged exSchema
    [q [fld none 20 [fld (some 42) 28 [fld (some 44) 24 []], fld (some 42) 28 [fld (some 44) 26 []]]]] := by decide +kernel

-- the repaired order dependence (e97c627): { h { t: self { x: name ...A ...F } } }  A { ...G1 }  F { ...G1 ...G2 }  G1 { nn }  G2 { x: nn }
-- (ids: A=54 F=56 G1=58 G2=60) is reported whichever way F lists its spreads
example : fires .overlappingFieldsCanBeMerged exSchema
    [q [fld none 20 [fld (some 42) 28 [fld (some 44) 24 [], spr 54, spr 56]]],
     frag 54 [spr 58], frag 56 [spr 58, spr 60], frag 58 [fld none 26 []], frag 60 [fld (some 44) 26 []]] := by decide +kernel
example : fires .overlappingFieldsCanBeMerged exSchema
    [q [fld none 20 [fld (some 42) 28 [fld (some 44) 24 [], spr 54, spr 56]]],
     frag 54 [spr 58], frag 56 [spr 60, spr 58], frag 58 [fld none 26 []], frag 60 [fld (some 44) 26 []]] := by decide +kernel

/-- the document of finding F15:
    `{ h { g: self { nn } g: self { ...F2 } t: self { x: name } t: self { ...F2 } } }
     fragment F2 on H { ...F3 }  fragment F3 on H { x: nn }` -/
def f15Doc : Document :=
  [ q [fld none 20 [fld (some 40) 28 [fld none 26 []], fld (some 40) 28 [spr 50],
                    fld (some 42) 28 [fld (some 44) 24 []], fld (some 42) 28 [spr 50]]],
    frag 50 [spr 52], frag 52 [fld (some 44) 26 []] ]

/-- **F15 (repaired).**  FieldsInSetCanMerge fails for this document (`x: name` against `x: nn`
    under the two `t`); before the repair the rule did not report it (the fragments visited while
    the two `g` were compared were skipped when the two `t` were), now it does. -/
theorem f15_regression : MergeViolated exSchema f15Doc ∧ fires .overlappingFieldsCanBeMerged exSchema f15Doc := by
  constructor
  · rw [mergeViolated_iff]; decide +kernel
  · decide +kernel

end Gql.C05
