/-
  Thm/C08.lean — PROPERTY C08: literals are accepted exactly when they can be coerced to the
  input type expected at their position.
-/
import GqlVerif.Lemmas.Coercion
import GqlVerif.Lemmas.ValueSites
import GqlVerif.Lemmas.SitesGood
import GqlVerif.Thm.C13
namespace Gql.C08
open Gql.Spec

/-- the top-level literal positions of a document — argument values of fields and directives,
    variable defaults — each with the input type the schema prescribes there (`none` when the
    schema does not know the argument / field / directive; C09 reports those). -/
def literalSites (s : Schema) (d : Document) : List (Option Ty × Value) := litSites (walkOf s d)

/-- every position's expected type is a well-wrapped reference to a declared input type -/
def SitesGood (s : Schema) (d : Document) : Prop := ∀ τ v, (some τ, v) ∈ literalSites s d → GoodTy s τ

/-- the whole report of the rule, site by site -/
theorem errs_eq (s : Schema) (d : Document) :
    errsOf .valuesOfCorrectType s d = (literalSites s d).flatMap (vErrsP s) := by
  unfold errsOf literalSites
  simp only [ruleOf]
  rw [voc_runOn]
  unfold walkOf
  cases h : walkDocument s Snap.empty d with
  | none => rfl
  | some t => exact voc_document s Snap.empty d t h

/-- **C08.**  'values of correct type', run alone, reports an error iff at some literal position
    the literal cannot be coerced (spec input-coercion rules, `Spec.Coercible`) to the type
    expected there.  List items and input-object fields are inside `Coercible`. -/
theorem valuesOfCorrectType_iff (s : Schema) (d : Document) (hs : InputsClosed s) (hg : SitesGood s d) :
    fires .valuesOfCorrectType s d ↔ ∃ τ v, (some τ, v) ∈ literalSites s d ∧ ¬ Coercible s τ v := by
  unfold fires
  rw [errs_eq, flatMap_ne_nil_iff]
  constructor
  · rintro ⟨⟨τ, v⟩, hp, hne⟩
    cases τ with
    | none => exact absurd (vErrs_none s v) hne
    | some τ => exact ⟨τ, v, hp, fun hc => hne ((vErrs_iff s hs v τ (hg τ v hp)).2 hc)⟩
  · rintro ⟨τ, v, hp, hnc⟩
    exact ⟨(some τ, v), hp, fun he => hnc ((vErrs_iff s hs v τ (hg τ v hp)).1 he)⟩

/-- the per-literal statement: what is reported inside one literal at a known expected type -/
theorem literal_iff (s : Schema) (hs : InputsClosed s) (τ : Ty) (hτ : GoodTy s τ) (v : Value) :
    vErrs s (some τ) v = [] ↔ Coercible s τ v := vErrs_iff s hs v τ hτ

/-- positions whose type the schema does not know are never reported by this rule -/
theorem unknown_site_silent (s : Schema) (v : Value) : vErrs s none v = [] := vErrs_none s v

/-- the premise `SitesGood` follows from schema / document well-formedness: argument types of
    fields and directives, and the document's variable types, are declared input types -/
theorem sitesGood_of_wf (s : Schema) (d : Document) (ha : ArgsGood s) (hv : VarTypesGood s d) : SitesGood s d :=
  sg_document s d ha hv

/-- **C08** on well-formed schemas and documents -/
theorem valuesOfCorrectType_iff_wf (s : Schema) (d : Document) (hs : InputsClosed s) (ha : ArgsGood s)
    (hv : VarTypesGood s d) :
    fires .valuesOfCorrectType s d ↔ ∃ τ v, (some τ, v) ∈ literalSites s d ∧ ¬ Coercible s τ v :=
  valuesOfCorrectType_iff s d hs (sitesGood_of_wf s d ha hv)

theorem codes_C08 (s : Schema) (d : Document) :
    ∀ e ∈ errsOf .valuesOfCorrectType s d, e.code = .valuesOfCorrectType := C13.codes s d _ _

/-! Non-vacuity and regression witnesses of the repaired F9 / F10 / F11.
    `type Query { f(a: Int, l: [Int]!, o: In, ll: [[Int!]]): Int }  input In { x: Int!  y: [In] }`
    ids: Query=0 Int=6 f=100 a=102 l=104 o=106 In=108 x=110 y=112 ll=114 -/
def exSchema : Schema :=
  [ .type (.object 0 [] [⟨100, [⟨102, .named 6, none⟩, ⟨104, .nonNull (.list (.named 6)), none⟩,
      ⟨106, .named 108, none⟩, ⟨114, .list (.list (.nonNull (.named 6))), none⟩], .named 6⟩]),
    .type (.inputObject 108 [⟨110, .nonNull (.named 6), none⟩, ⟨112, .list (.named 108), none⟩]), .type (.scalar 6) ]
def q (args : List Arg) : Document :=
  [.op ⟨.shorthand, ⟨0, 0⟩, none, [], [], [.field ⟨1, 1⟩ none 100 args [] []]⟩]

example : literalSites exSchema (q [(102, .int 1), (999, .int 2)]) = [(some (.named 6), .int 1), (none, .int 2)] := by rfl
-- F9: items of a non-null list are checked against the item type
example : fires .valuesOfCorrectType exSchema (q [(104, .list [.str 7])]) := by decide
example : ¬ fires .valuesOfCorrectType exSchema (q [(104, .list [.int 7, .null])]) := by decide
example : fires .valuesOfCorrectType exSchema (q [(104, .null)]) := by decide
-- a lone literal counts as a one-item list, at any depth
example : ¬ fires .valuesOfCorrectType exSchema (q [(114, .int 3)]) := by decide
example : fires .valuesOfCorrectType exSchema (q [(114, .list [.list [.null]])]) := by decide
-- F10: list / object literals where a scalar or an input object is expected
example : fires .valuesOfCorrectType exSchema (q [(102, .list [.int 1])]) := by decide
example : fires .valuesOfCorrectType exSchema (q [(102, .obj [(110, .int 1)])]) := by decide
example : fires .valuesOfCorrectType exSchema (q [(106, .list [.obj [(110, .int 1)]])]) := by decide
-- F11: Int literals must fit 32 bits
example : fires .valuesOfCorrectType exSchema (q [(102, .int 2147483648)]) := by decide
example : ¬ fires .valuesOfCorrectType exSchema (q [(102, .int (-2147483648))]) := by decide
-- input objects: required / unknown members, nested
example : fires .valuesOfCorrectType exSchema (q [(106, .obj [])]) := by decide
example : fires .valuesOfCorrectType exSchema (q [(106, .obj [(110, .int 1), (998, .int 1)])]) := by decide
example : ¬ fires .valuesOfCorrectType exSchema (q [(106, .obj [(110, .int 1), (112, .obj [(110, .int 2)])])]) := by decide
example : fires .valuesOfCorrectType exSchema (q [(106, .obj [(110, .int 1), (112, .list [.obj [(110, .null)]])])]) := by decide

/-- the hypotheses of the theorem are met by the example schema -/
example : InputsClosed exSchema ∧ ArgsGood exSchema ∧ VarTypesGood exSchema (q []) := by
  refine ⟨?_, ⟨?_, ?_⟩, ?_⟩
  · intro n n' fields h f hf
    have hm := (typeByName_some h).1
    simp [exSchema] at hm
    obtain ⟨rfl, rfl⟩ := hm
    simp at hf
    rcases hf with rfl | rfl <;> exact ⟨rfl, by decide⟩
  · intro td hm n fd hfd a ha
    simp [exSchema] at hm
    rcases hm with rfl | rfl | rfl
    · simp [TypeDef.fieldByName] at hfd
      obtain ⟨rfl, rfl⟩ := hfd
      simp at ha
      rcases ha with rfl | rfl | rfl | rfl <;> exact ⟨rfl, by decide⟩
    · simp [TypeDef.fieldByName] at hfd
    · simp [TypeDef.fieldByName] at hfd
  · intro dd hm; simp [exSchema] at hm
  · intro o ho v hv
    simp [q] at ho
    subst ho
    cases hv

end Gql.C08
