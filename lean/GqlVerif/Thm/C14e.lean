/-
  Thm/C14e.lean — PROPERTY C14, permuting the selections within selection sets, ALL 24 rules: with
  the set-level characterisation of CollectFields (`mem_collects_iff`, Lemmas/CollectSet.lean) the
  condition of 'single field subscriptions' is order-free too, which completes `fires_selrel`.
  Also: accept/reject under the default plan (`accepted_selrel`).
-/
import GqlVerif.Lemmas.CollectSetRel
namespace Gql.C14
open Gql.Spec

mutual
theorem aoSel_of_fields : ∀ (x : Selection), (∀ f, Ev.enter (.field f) ∈ traverseSelection x → (f.args.map (·.1)).Nodup) → aoSel x
  | .field pos alias name args dirs sel, h => by
      simp only [aoSel]
      refine ⟨h ⟨pos, alias, name, args, dirs, sel⟩ (by simp [traverseSelection]), aoSels_of_fields sel (fun f hf => h f ?_)⟩
      simp only [traverseSelection, List.cons_append, List.mem_cons, List.mem_append]
      exact Or.inr (Or.inl (Or.inr (Or.inr (Or.inl hf))))
  | .spread _ _ _, _ => by simp [aoSel]
  | .inline pos tc dirs sel, h => by
      simp only [aoSel]
      refine aoSels_of_fields sel (fun f hf => h f ?_)
      simp only [traverseSelection, List.cons_append, List.mem_cons, List.mem_append]
      exact Or.inr (Or.inl (Or.inr (Or.inr (Or.inl hf))))
theorem aoSels_of_fields : ∀ (xs : List Selection), (∀ f, Ev.enter (.field f) ∈ traverseSelections xs → (f.args.map (·.1)).Nodup) → aoSels xs
  | [], _ => by simp [aoSels]
  | x :: xs, h => by
      simp only [aoSels]
      exact ⟨aoSel_of_fields x (fun f hf => h f (by simp only [traverseSelections, List.mem_append]; exact Or.inl hf)),
        aoSels_of_fields xs (fun f hf => h f (by simp only [traverseSelections, List.mem_append]; exact Or.inr hf))⟩
end

theorem mem_traverse_defs {x : Definition} {ev : Ev} : ∀ {ds : List Definition}, x ∈ ds → ev ∈ traverseDefinition x → ev ∈ traverseDefinitions ds
  | [], h, _ => by simp at h
  | y :: ys, h, he => by
      simp only [traverseDefinitions, List.mem_append]
      rcases List.mem_cons.1 h with rfl | h
      · exact Or.inl he
      · exact Or.inr (mem_traverse_defs h he)

/-- unique argument names on every field the walk enters = on every field of the document -/
theorem aoDoc_of_argsUniq (s : Schema) (d : Document) (hq : s.queryType.isSome = true) (hu : ArgsUniq s d) : AODoc d := by
  intro x hx
  apply aoSels_of_fields
  intro f hf
  have hdef : Ev.enter (.field f) ∈ traverseDefinition x := by
    cases x with
    | frag fr =>
      simp only [traverseDefinition, traverseSelectionSet, List.cons_append, List.mem_cons, List.mem_append]
      exact Or.inr (Or.inl (Or.inr (Or.inr (Or.inl hf))))
    | op o =>
      simp only [traverseDefinition, traverseSelectionSet, List.cons_append, List.mem_cons, List.mem_append]
      exact Or.inr (Or.inl (Or.inr (Or.inr (Or.inl hf))))
  have hdoc : Ev.enter (.field f) ∈ traverseDocument d := by
    simp only [traverseDocument, List.cons_append, List.mem_cons, List.mem_append]
    exact Or.inr (Or.inl (mem_traverse_defs hx hdef))
  rw [← walkOf_events s d hq] at hdoc
  obtain ⟨⟨ev, env⟩, hm, he⟩ := List.mem_map.1 hdoc
  simp only at he
  subst he
  exact hu f env hm

section
variable {s : Schema} {d d' : Document}

/-- **C14, selections, all 24 rules.**  Which rules report is the same for a document and for the
    document with the selections of any of its selection sets reordered, at every depth. -/
theorem fires_selrel_all (hs : C01.SchemaOk s) (hd : C01.DocOk d) (h : DocRel d d')
    (hn : (d.fragments.map (·.name)).Nodup) (hao : AODoc d) (ht : TcKnown s d) (hac : ¬ FragmentCycle d) (r : RuleId) :
    fires r s d ↔ fires r s d' := by
  by_cases h2 : r = .singleFieldSubscriptions
  · subst h2
    rw [C11.singleFieldSubscriptions_iff s d hs.queryRoot hs.typeNames, C11.singleFieldSubscriptions_iff s d' hs.queryRoot hs.typeNames]
    exact ⟨subscription_selrel_mp s hs.typeNames h, subscription_selrel_mp s hs.typeNames h.symm⟩
  · exact fires_selrel hs hd h hn hao ht hac r h2

/-- every one of the 24 conditions is invariant (the field-merging one needs unique argument names) -/
theorem violates_selrel_all (hs : C01.SchemaOk s) (h : DocRel d d') (hao : AODoc d) (r : RuleId) :
    C01.Violates r s d ↔ C01.Violates r s d' := by
  by_cases h1 : r = .overlappingFieldsCanBeMerged
  · subst h1; exact mergeViolated_selrel s hs.queryRoot h hao
  by_cases h2 : r = .singleFieldSubscriptions
  · subst h2
    exact ⟨subscription_selrel_mp s hs.typeNames h, subscription_selrel_mp s hs.typeNames h.symm⟩
  · exact violates_selrel hs.queryRoot h r h1 h2

theorem noIntro_selrel (hq : s.queryType.isSome = true) (h : DocRel d d') (hi : C01.NoIntrospectionConditions s d) :
    C01.NoIntrospectionConditions s d' := by
  intro i env c hm hc
  obtain ⟨sel', _, hm'⟩ := inlineAt_rel hq h.symm i env hm
  exact hi _ env c hm' hc

/-- **C14, selections, accept/reject** under the default plan, for every document with unique
    argument names (a document with duplicate argument names is rejected in every order). -/
theorem accepted_selrel (hs : C01.SchemaOk s) (hd : C01.DocOk d) (hi : C01.NoIntrospectionConditions s d) (h : DocRel d d') :
    validate s d Gen.defaultPlan = some [] ↔ validate s d' Gen.defaultPlan = some [] := by
  have hq := hs.queryRoot
  have hd' := docOk_selrel h hd
  have hi' := noIntro_selrel hq h hi
  by_cases hda : DuplicateArgument s d
  · -- rejected in both orders by 'unique argument names'
    have hda' : DuplicateArgument s d' := (violates_selrel hq h .uniqueArgumentNames (by simp) (by simp)).1 hda
    have r1 : ¬ validate s d Gen.defaultPlan = some [] := fun ha =>
      (C01.accepted_iff_valid_plain s d hs hd hi).1 ha .uniqueArgumentNames hda
    have r2 : ¬ validate s d' Gen.defaultPlan = some [] := fun ha =>
      (C01.accepted_iff_valid_plain s d' hs hd' hi').1 ha .uniqueArgumentNames hda'
    exact ⟨fun ha => absurd ha r1, fun ha => absurd ha r2⟩
  · -- unique argument names: every condition is invariant
    have hao : AODoc d := aoDoc_of_argsUniq s d hq (C01.argsUniq_of_valid s d hda)
    rw [C01.accepted_iff_valid_plain s d hs hd hi, C01.accepted_iff_valid_plain s d' hs hd' hi']
    exact ⟨fun hv r hr => hv r ((violates_selrel_all hs h hao r).2 hr), fun hv r hr => hv r ((violates_selrel_all hs h hao r).1 hr)⟩

end
end Gql.C14
