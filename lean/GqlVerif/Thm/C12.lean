/-
  Thm/C12.lean — PROPERTY C12 (partial): validation is a function of (schema, document, plan).

  In the model `validate` *is* a function, so determinism and history-freedom hold by
  construction; what is proved here is what makes the real code behave like that function:
  * the shared visitor context is handed back unchanged by every rule, so a rule never sees what
    an earlier rule (or an earlier call) left behind (`context_restored`, `rule_sees_same_trace`);
  * the crate has no process-wide mutable or interior-mutable state: the inventory regenerated
    from the sources on every run is exactly the two immutable `lazy_static` defaults of ext.rs
    (`shared_state_inventory`) — with `&self`/`&schema`/`&document` borrows and no `unsafe`,
    Rust's aliasing rules then forbid mutation of plan, schema and document;
  (Results the real code produces by iterating a `HashMap`/`HashSet` are compared as multisets
  per rule group; order-independence of the graph walks is proved with the variable rules, C07.)
  Thread interleavings, allocator/hasher state and the second parser backend cannot be exhibited
  by the model; they are covered by the correspondence run only (see evidence `partial`).
-/
import GqlVerif.Thm.C13
import GqlVerif.Gen.SharedState
namespace Gql.C12

/-- every rule of a plan runs on the stacks the plan started with, and the plan hands them back -/
theorem context_restored (s : Schema) (d : Document) (v : V) (hv : visitDocument s d = some v)
    (st : Stacks) : (v st).1 = st := by
  have hl := visitDocument_lexical s d
  rw [hv] at hl
  obtain ⟨t, _, h⟩ := hl st
  rw [h]

/-- whatever ran before it in the plan, a rule sees the callback trace of a fresh context -/
theorem rule_sees_same_trace (s : Schema) (d : Document) (v : V) (hv : visitDocument s d = some v)
    (before : List RuleId) (r : RuleId) :
    (runPlan s d v (before ++ [r]) Stacks.empty).getLast? = some ((ruleOf r).runOn s d (v Stacks.empty).2) := by
  rw [C13.runPlan_eq_map s d v hv]
  simp

/-- the only process-wide state in non-test code: the two `lazy_static!` defaults in ext.rs
    (no `static mut`, `thread_local!`, `Cell`/`RefCell`, locks, atomics or `unsafe`) -/
theorem shared_state_inventory :
    Gen.sharedState = [("src/ast/ext.rs", .lazyStatic), ("src/ast/ext.rs", .lazyStatic)] := by rfl

end Gql.C12
