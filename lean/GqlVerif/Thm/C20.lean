/-
  Thm/C20.lean — PROPERTY C20 (partial): the serde model of the introspection types round-trips.
  Proved for *every* well-formed shape table (member keys distinct, tag keys not member keys),
  hence for the table regenerated from introspection.rs, whose well-formedness is re-decided on
  every run.  Not proved (exploration only, see evidence): that every spec-conformant JSON
  conforms to the table, reader chunking, I/O faults, malformed JSON — those are properties of
  serde_json's reader and of the fit between the table and the GraphQL specification.
-/
import GqlVerif.Spec.CodecSpec
import GqlVerif.Gen.IntrospectionShape
namespace Gql.C20
open Gql.Codec

theorem env_get_ok {env : Env} (hok : env.ok = true) {n : String} {d : Decl} (h : env.get n = some d) :
    d.ok = true := by
  unfold Env.get at h
  cases hf : env.find? (·.1 == n) with
  | none => simp [hf] at h
  | some p =>
    simp only [hf, Option.map_some, Option.some.injEq] at h
    subst h
    have := List.mem_of_find?_eq_some hf
    exact (List.all_eq_true.1 hok) p this

theorem lookup_append_of_none (pre rest : List (String × J)) (k : String) (h : lookup pre k = none) :
    lookup (pre ++ rest) k = lookup rest k := by
  unfold lookup at h ⊢
  rw [List.find?_append]
  cases hp : pre.find? (·.1 == k) with
  | none => simp
  | some x => simp [hp] at h

theorem lookup_cons_self (k : String) (j : J) (rest : List (String × J)) : lookup ((k, j) :: rest) k = some j := by
  simp [lookup]

theorem lookup_snoc_ne (pre : List (String × J)) (k k' : String) (j : J) (h : lookup pre k' = none) (hne : k ≠ k') :
    lookup (pre ++ [(k, j)]) k' = none := by
  rw [lookup_append_of_none pre _ k' h]
  simp [lookup, hne]

/-- members written by `encodeFields` after a prefix without their keys are found again -/
theorem decodeFields_encode (dec : Shape → J → Option Val) (w : Shape → Val → Bool)
    (hdec : ∀ σ v, w σ v = true → dec σ (encode v) = some v) :
    ∀ (fields : List FieldSpec) (fs : List (String × Val)) (pre : List (String × J)),
      fieldsWt w fields fs = true → (keysOf fields).Nodup → (∀ f ∈ fields, lookup pre f.key = none) →
      decodeFieldsWith dec (pre ++ encodeFields fs) fields = some fs
  | [], [], pre, _, _, _ => by simp [decodeFieldsWith]
  | [], _ :: _, _, h, _, _ => by simp [fieldsWt] at h
  | _ :: _, [], _, h, _, _ => by simp [fieldsWt] at h
  | f :: fields, (k, v) :: fs, pre, h, hnd, hpre => by
      simp only [fieldsWt, Bool.and_eq_true, beq_iff_eq] at h
      obtain ⟨⟨hk, hw⟩, hrest⟩ := h
      subst hk
      simp only [keysOf, List.map_cons, List.nodup_cons] at hnd
      have hl : lookup (pre ++ encodeFields ((f.key, v) :: fs)) f.key = some (encode v) := by
        rw [lookup_append_of_none pre _ _ (hpre f (by simp))]
        simp [encodeFields, lookup_cons_self]
      simp only [decodeFieldsWith, hl, hdec _ _ hw]
      have hpre' : ∀ f' ∈ fields, lookup (pre ++ [(f.key, encode v)]) f'.key = none := by
        intro f' hf'
        apply lookup_snoc_ne _ _ _ _ (hpre f' (by simp [hf']))
        intro heq
        exact hnd.1 (List.mem_map.2 ⟨f', hf', heq.symm⟩)
      have ih := decodeFields_encode dec w hdec fields fs (pre ++ [(f.key, encode v)]) hrest hnd.2 hpre'
      have happ : pre ++ encodeFields ((f.key, v) :: fs) = (pre ++ [(f.key, encode v)]) ++ encodeFields fs := by
        simp [encodeFields]
      rw [happ, ih]
      rfl

theorem decodeList_encode (dec : J → Option Val) (w : Val → Bool) (hdec : ∀ v, w v = true → dec (encode v) = some v) :
    ∀ l : List Val, l.all w = true → decodeListWith dec (encodeList l) = some l
  | [], _ => by simp [encodeList, decodeListWith]
  | v :: vs, h => by
      simp only [List.all_cons, Bool.and_eq_true] at h
      simp [encodeList, decodeListWith, hdec v h.1, decodeList_encode dec w hdec vs h.2]

/-- **Round trip**: a well-typed parsed value, serialised and parsed again, is itself. -/
theorem decode_encode (env : Env) (hok : env.ok = true) :
    ∀ (n : Nat) (σ : Shape) (v : Val), wt env n σ v = true → decode env n σ (encode v) = some v := by
  intro n
  induction n with
  | zero => intro σ v h; simp [wt] at h
  | succ n ih =>
    intro σ v h
    cases σ with
    | str => cases v <;> simp [wt] at h; simp [encode, decode]
    | bool => cases v <;> simp [wt] at h; simp [encode, decode]
    | any => cases v <;> simp [wt] at h; rename_i j; cases j <;> simp [encode, decode]
    | opt σ' =>
      cases v <;> simp only [wt, Bool.and_eq_true, Bool.not_eq_eq_eq_not, Bool.not_true, reduceCtorEq, Bool.false_eq_true] at h
      · simp [encode, decode]
      · rename_i x
        have hx := ih σ' x h.1
        simp only [encode]
        cases hj : encode x <;> simp [hj, J.isNull] at h <;> simp only [decode] <;> rw [← hj, hx] <;> rfl
    | vec σ' =>
      cases v <;> simp [wt] at h
      rename_i l
      simp only [encode, decode]
      rw [decodeList_encode (decode env n σ') (wt env n σ') (fun v hv => ih σ' v hv) l (by simpa using h)]
      rfl
    | named nm =>
      cases v <;> simp only [wt, reduceCtorEq, Bool.false_eq_true] at h
      · -- record
        rename_i tag fs
        cases hd : env.get nm with
        | none => simp [hd] at h
        | some d =>
          cases d <;> simp only [hd, Bool.and_eq_true, decide_eq_true_eq, Bool.false_eq_true] at h
          rename_i tag' fields
          obtain ⟨rfl, hf⟩ := h
          have hdok := env_get_ok hok hd
          simp only [Decl.ok, Bool.and_eq_true, decide_eq_true_eq] at hdok
          simp only [encode, decode, hd]
          have hpre : ∀ f ∈ fields, lookup (tagPrefix tag) f.key = none := by
            intro f hf'
            cases tag with
            | none => simp [lookup, tagPrefix]
            | some kn =>
              obtain ⟨k, nm'⟩ := kn
              simp only [lookup, tagPrefix, List.find?_cons, List.find?_nil]
              have hk : k ≠ f.key := by
                intro heq
                have := hdok.2
                simp only [Bool.not_eq_eq_eq_not, Bool.not_true, List.contains_eq_mem, decide_eq_false_iff_not] at this
                exact this (heq ▸ List.mem_map.2 ⟨f, hf', rfl⟩)
              have hkb : (k == f.key) = false := by simpa using hk
              simp [hkb]
          rw [decodeFields_encode (decode env n) (wt env n) (fun σ v hv => ih σ v hv) fields fs _ hf hdok.1 hpre]
          rfl
      · -- variant
        rename_i key t fs
        cases hd : env.get nm with
        | none => simp [hd] at h
        | some d =>
          cases d <;> simp only [hd, Bool.and_eq_true, beq_iff_eq, Bool.false_eq_true] at h
          rename_i key' variants
          obtain ⟨rfl, hv⟩ := h
          cases hfind : (variants.find? (·.1 == t)).map (·.2) with
          | none => simp [hfind] at hv
          | some fields =>
            simp only [hfind] at hv
            have hdok := env_get_ok hok hd
            simp only [Decl.ok, List.all_eq_true, Bool.and_eq_true, decide_eq_true_eq] at hdok
            obtain ⟨p, hp, hp2⟩ : ∃ p, variants.find? (·.1 == t) = some p ∧ p.2 = fields := by
              cases hq : variants.find? (·.1 == t) with
              | none => simp [hq] at hfind
              | some p => exact ⟨p, rfl, by simpa [hq] using hfind⟩
            have hmem := List.mem_of_find?_eq_some hp
            have hvok := hdok p hmem
            rw [hp2] at hvok
            simp only [encode, decode, hd, lookup_cons_self, hfind]
            have hpre : ∀ f ∈ fields, lookup [(key, J.str t)] f.key = none := by
              intro f hf'
              simp only [lookup, List.find?_cons, List.find?_nil]
              have hk : key ≠ f.key := by
                intro heq
                have := hvok.2
                simp only [Bool.not_eq_eq_eq_not, Bool.not_true, List.contains_eq_mem, decide_eq_false_iff_not] at this
                exact this (heq ▸ List.mem_map.2 ⟨f, hf', rfl⟩)
              have hkb : (key == f.key) = false := by simpa using hk
              simp [hkb]
            have := decodeFields_encode (decode env n) (wt env n) (fun σ v hv => ih σ v hv) fields fs [(key, J.str t)] hv hvok.1 hpre
            simp only [List.singleton_append] at this
            rw [this]
            rfl
      · -- unit
        rename_i s
        cases hd : env.get nm with
        | none => simp [hd] at h
        | some d =>
          cases d with
          | unitEnum names =>
            simp only [hd] at h
            have hmem : s ∈ names := by simpa using h
            simp [encode, decode, hd, hmem]
          | struct _ _ => simp [hd] at h
          | tagged _ _ => simp [hd] at h

end Gql.C20

namespace Gql.C20
open Gql.Codec

/-- parsing never produces a value that serialises to `null` from a non-null JSON -/
theorem decode_nonnull (env : Env) : ∀ (n : Nat) (σ : Shape) (j : J) (v : Val),
    decode env n σ j = some v → j.isNull = false → (encode v).isNull = false := by
  intro n
  induction n with
  | zero => intro σ j v h; simp [decode] at h
  | succ n ih =>
    intro σ j v h hj
    cases σ with
    | str => cases j <;> simp [decode] at h <;> subst h <;> simp [encode, J.isNull]
    | bool => cases j <;> simp [decode] at h <;> subst h <;> simp [encode, J.isNull]
    | any => cases j <;> simp [decode] at h <;> subst h <;> simp_all [encode, J.isNull]
    | opt σ' =>
      cases j <;> simp [J.isNull] at hj <;> simp only [decode, Option.map_eq_some_iff] at h <;>
        (obtain ⟨x, hx, rfl⟩ := h; simp only [encode]; exact ih σ' _ x hx (by simp [J.isNull]))
    | vec σ' =>
      cases j <;> simp only [decode, Option.map_eq_some_iff, reduceCtorEq] at h
      obtain ⟨l, _, rfl⟩ := h
      simp [encode, J.isNull]
    | named nm =>
      simp only [decode] at h
      cases hd : env.get nm with
      | none => simp [hd] at h
      | some d =>
        cases d with
        | struct tag fields =>
          cases j <;> simp only [hd, Option.map_eq_some_iff, reduceCtorEq] at h
          obtain ⟨l, _, rfl⟩ := h; simp [encode, J.isNull]
        | tagged key variants =>
          cases j <;> simp only [hd, reduceCtorEq] at h
          rename_i kvs
          cases hl : lookup kvs key with
          | none => simp [hl] at h
          | some jt =>
            cases jt <;> simp only [hl, reduceCtorEq] at h
            rename_i t
            cases hf : (variants.find? (·.1 == t)).map (·.2) with
            | none => simp [hf] at h
            | some fs =>
              simp only [hf, Option.map_eq_some_iff] at h
              obtain ⟨l, _, rfl⟩ := h; simp [encode, J.isNull]
        | unitEnum names =>
          cases j <;> simp only [hd, reduceCtorEq] at h
          split at h <;> simp at h
          subst h; simp [encode, J.isNull]

theorem decodeFields_wt (dec : Shape → J → Option Val) (w : Shape → Val → Bool)
    (hdec : ∀ σ j v, dec σ j = some v → w σ v = true) (hnone : ∀ σ, σ.isOpt = true → w σ Val.none = true)
    (kvs : List (String × J)) :
    ∀ (fields : List FieldSpec) (fs : List (String × Val)),
      decodeFieldsWith dec kvs fields = some fs → fieldsWt w fields fs = true
  | [], fs, h => by simp [decodeFieldsWith] at h; subst h; rfl
  | f :: fields, fs, h => by
      simp only [decodeFieldsWith] at h
      cases hl : lookup kvs f.key with
      | none =>
        simp only [hl] at h
        cases ho : f.shape.isOpt with
        | false => simp [ho] at h
        | true =>
          simp only [ho, if_true, Option.map_eq_some_iff] at h
          obtain ⟨rest, hr, rfl⟩ := h
          simp [fieldsWt, hnone _ ho, decodeFields_wt dec w hdec hnone kvs fields rest hr]
      | some j' =>
        simp only [hl] at h
        cases hd : dec f.shape j' with
        | none => simp [hd] at h
        | some v =>
          simp only [hd, Option.map_eq_some_iff] at h
          obtain ⟨rest, hr, rfl⟩ := h
          simp [fieldsWt, hdec _ _ _ hd, decodeFields_wt dec w hdec hnone kvs fields rest hr]

theorem decodeList_wt (dec : J → Option Val) (w : Val → Bool) (hdec : ∀ j v, dec j = some v → w v = true) :
    ∀ (l : List J) (vs : List Val), decodeListWith dec l = some vs → vs.all w = true
  | [], vs, h => by simp [decodeListWith] at h; subst h; rfl
  | x :: xs, vs, h => by
      simp only [decodeListWith] at h
      cases hd : dec x with
      | none => simp [hd] at h
      | some v =>
        simp only [hd, Option.map_eq_some_iff] at h
        obtain ⟨rest, hr, rfl⟩ := h
        simp [hdec _ _ hd, decodeList_wt dec w hdec xs rest hr]

/-- what the parser returns is well-typed (one more unit of fuel: members absent from the JSON
    are filled in without consulting the member decoder) -/
theorem decode_wt (env : Env) : ∀ (n : Nat) (σ : Shape) (j : J) (v : Val),
    decode env n σ j = some v → wt env (n + 1) σ v = true := by
  intro n
  induction n with
  | zero => intro σ j v h; simp [decode] at h
  | succ n ih =>
    intro σ j v h
    have hnone : ∀ σ : Shape, σ.isOpt = true → wt env (n + 1) σ Val.none = true := by
      intro σ hσ
      cases σ <;> simp [Shape.isOpt] at hσ
      simp [wt]
    cases σ with
    | str => cases j <;> simp [decode] at h <;> subst h <;> simp [wt]
    | bool => cases j <;> simp [decode] at h <;> subst h <;> simp [wt]
    | any => cases j <;> simp [decode] at h <;> subst h <;> simp [wt]
    | opt σ' =>
      cases j <;> simp only [decode, Option.map_eq_some_iff, Option.some.injEq] at h <;>
        first
          | (subst h; simp [wt])
          | (obtain ⟨x, hx, rfl⟩ := h
             simp only [wt, Bool.and_eq_true, Bool.not_eq_eq_eq_not, Bool.not_true]
             exact ⟨ih σ' _ x hx, decode_nonnull env n σ' _ x hx (by simp [J.isNull])⟩)
    | vec σ' =>
      cases j <;> simp only [decode, Option.map_eq_some_iff, reduceCtorEq] at h
      obtain ⟨l, hl, rfl⟩ := h
      simp only [wt]
      exact decodeList_wt (decode env n σ') (wt env (n + 1) σ') (fun j v hv => ih σ' j v hv) _ l hl
    | named nm =>
      simp only [decode] at h
      cases hd : env.get nm with
      | none => simp [hd] at h
      | some d =>
        cases d with
        | struct tag fields =>
          cases j <;> simp only [hd, Option.map_eq_some_iff, reduceCtorEq] at h
          obtain ⟨l, hl, rfl⟩ := h
          simp only [wt, hd, decide_true, Bool.true_and]
          exact decodeFields_wt (decode env n) (wt env (n + 1)) (fun σ j v hv => ih σ j v hv) hnone _ fields l hl
        | tagged key variants =>
          cases j <;> simp only [hd, reduceCtorEq] at h
          rename_i kvs
          cases hl : lookup kvs key with
          | none => simp [hl] at h
          | some jt =>
            cases jt <;> simp only [hl, reduceCtorEq] at h
            rename_i t
            cases hf : (variants.find? (·.1 == t)).map (·.2) with
            | none => simp [hf] at h
            | some fs =>
              simp only [hf, Option.map_eq_some_iff] at h
              obtain ⟨l, hl', rfl⟩ := h
              simp only [wt, hd, beq_self_eq_true, Bool.true_and, hf]
              exact decodeFields_wt (decode env n) (wt env (n + 1)) (fun σ j v hv => ih σ j v hv) hnone _ fs l hl'
        | unitEnum names =>
          cases j <;> simp only [hd, reduceCtorEq] at h
          rename_i s
          by_cases hc : names.contains s = true
          · simp only [hc, if_true, Option.some.injEq] at h
            subst h
            have hm : s ∈ names := by simpa using hc
            simp [wt, hd, hm]
          · have hm : s ∉ names := by simpa using hc
            simp [hm] at h

/-- **Re-serialisation is a fixpoint**: serialising what was parsed and parsing it again yields
    the same structure. -/
theorem reserialise_fixpoint (env : Env) (hok : env.ok = true) (n : Nat) (σ : Shape) (j : J) (v : Val)
    (h : decode env n σ j = some v) : decode env (n + 1) σ (encode v) = some v :=
  decode_encode env hok (n + 1) σ v (decode_wt env n σ j v h)

/-- the table regenerated from introspection.rs is well-formed (re-decided on every run), so the
    two theorems above apply to the real types -/
theorem introspectionEnv_ok : Gen.introspectionEnv.ok = true := by decide

theorem introspection_reserialise (n : Nat) (j : J) (v : Val)
    (h : decode Gen.introspectionEnv n Gen.introspectionRoot j = some v) :
    decode Gen.introspectionEnv (n + 1) Gen.introspectionRoot (encode v) = some v :=
  reserialise_fixpoint _ introspectionEnv_ok n _ j v h

/-! Non-vacuity: a minimal conforming result parses, with absent optional members -/
example : (decode Gen.introspectionEnv 12 Gen.introspectionRoot
    (.obj [("__schema", .obj [("queryType", .obj [("name", .str "Q")]), ("types", .arr []), ("directives", .arr [])])])).isSome = true := by
  decide

end Gql.C20
