/-
  Thm/TieBounds.lean — the model has no size, depth, count or precision threshold: lists, recursion
  depth, numbers of errors and of visited nodes are unbounded in it, and every theorem about it is
  proved for all sizes.  That is a faithful reading of the code only as long as the code has no such
  threshold either.  `Gen/Bounds.lean` is regenerated on every run (translator/extract_bounds.py) from
  the non-test code of the modelled files and lists every numeric `const`/`static`, every comparison
  with a numeric literal other than 0, 1 and 2, every `take/skip/nth/truncate/…(N)`, `% N`, `[_; N]`,
  `EPSILON` and `MAX_*`-like name.  These theorems state that the lists are empty NOW; a cap added to
  the code (nesting limit, budget of visited selections, maximum number of errors, float tolerance)
  breaks the one for its file, whatever inputs the correspondence run contains.
-/
import GqlVerif.Gen.Bounds
namespace Gql.Tie

/-- the visitor, `validate` and the error type: every rule sees every node, every error is kept -/
theorem no_bounds_visitor : Gen.boundsVisitor = [] := rfl
/-- the 24 rules (and the default plan) -/
theorem no_bounds_rules : Gen.boundsRules = [] := rfl
/-- `collect_fields` follows fragment chains of any length -/
theorem no_bounds_collect : Gen.boundsCollect = [] := rfl
/-- the schema visitor -/
theorem no_bounds_schema_visitor : Gen.boundsSchemaVisitor = [] := rfl
/-- the transformer -/
theorem no_bounds_transformer : Gen.boundsTransformer = [] := rfl
/-- the helpers of ext.rs (value comparison is exact) -/
theorem no_bounds_ext : Gen.boundsExt = [] := rfl
/-- the introspection types and entry points -/
theorem no_bounds_introspection : Gen.boundsIntrospection = [] := rfl

end Gql.Tie
