/-
  Thm/Tie.lean — the model has exactly one node kind / hook per callback of the three traits it
  mirrors.  The callback names are regenerated from the trait definitions in /repo/src/ast on every
  run (Gen/Callbacks.lean), so adding, removing or renaming a callback breaks these obligations.
-/
import GqlVerif.Gen.Callbacks
import GqlVerif.Model.Visitor
import GqlVerif.Model.SchemaVisitor
import GqlVerif.Model.Transformer
namespace Gql.Tie

/-- the two lists hold the same names, each once (the generated lists are sorted, so the order in
    which the source declares its methods does not matter) -/
def sameNames (a b : List String) : Bool :=
  a.length == b.length && a.all (fun x => b.contains x) && b.all (fun x => a.contains x)

/-- the (enter, leave) callbacks of `trait OperationVisitor` a model node stands for -/
def nodeCallbacks : Node → String × String
  | .document _ => ("enter_document", "leave_document")
  | .operation _ => ("enter_operation_definition", "leave_operation_definition")
  | .fragmentDef _ => ("enter_fragment_definition", "leave_fragment_definition")
  | .varDef _ => ("enter_variable_definition", "leave_variable_definition")
  | .directive _ => ("enter_directive", "leave_directive")
  | .argument _ => ("enter_argument", "leave_argument")
  | .selectionSet _ => ("enter_selection_set", "leave_selection_set")
  | .field _ => ("enter_field", "leave_field")
  | .spread _ => ("enter_fragment_spread", "leave_fragment_spread")
  | .inline _ => ("enter_inline_fragment", "leave_inline_fragment")
  | .nullValue => ("enter_null_value", "leave_null_value")
  | .scalar _ => ("enter_scalar_value", "leave_scalar_value")
  | .enumValue _ => ("enter_enum_value", "leave_enum_value")
  | .variable _ => ("enter_variable_value", "leave_variable_value")
  | .list _ => ("enter_list_value", "leave_list_value")
  | .object _ => ("enter_object_value", "leave_object_value")
  | .objectField _ => ("enter_object_field", "leave_object_field")

/-- one representative node per kind, in the order of the trait -/
def nodeSamples : List Node :=
  [.document [], .operation default, .fragmentDef default, .varDef default, .directive default, .argument default,
   .selectionSet [], .field default, .spread default, .inline default, .nullValue, .scalar .null, .enumValue 0,
   .variable 0, .list [], .object [], .objectField default]

/-- every callback of the trait is the enter or leave callback of one model node kind, and conversely -/
theorem operation_callbacks_modelled :
    sameNames Gen.operationVisitorCallbacks (nodeSamples.flatMap (fun n => [(nodeCallbacks n).1, (nodeCallbacks n).2])) = true := by decide

/-- and every model node kind stands for a pair of trait callbacks -/
theorem operation_nodes_are_callbacks (n : Node) :
    (nodeCallbacks n).1 ∈ Gen.operationVisitorCallbacks ∧ (nodeCallbacks n).2 ∈ Gen.operationVisitorCallbacks := by
  cases n <;> simp only [nodeCallbacks] <;> decide

def snodeCallbacks : SNode → String × String
  | .document => ("enter_document", "leave_document")
  | .schemaDef _ => ("enter_schema_definition", "leave_schema_definition")
  | .directiveDef _ => ("enter_directive_definition", "leave_directive_definition")
  | .typeDef _ => ("enter_type_definition", "leave_type_definition")
  | .interfaceType _ => ("enter_interface_type", "leave_interface_type")
  | .interfaceField _ _ => ("enter_interface_type_field", "leave_interface_type_field")
  | .objectType _ => ("enter_object_type", "leave_object_type")
  | .objectField _ _ => ("enter_object_type_field", "leave_object_type_field")
  | .inputObjectType _ => ("enter_input_object_type", "leave_input_object_type")
  | .inputField _ _ => ("enter_input_object_type_field", "leave_input_object_type_field")
  | .unionType _ => ("enter_union_type", "leave_union_type")
  | .scalarType _ => ("enter_scalar_type", "leave_scalar_type")
  | .enumType _ => ("enter_enum_type", "leave_enum_type")
  | .enumValue _ _ => ("enter_enum_value", "leave_enum_value")

def snodeSamples : List SNode :=
  [.document, .schemaDef default, .directiveDef default, .typeDef default, .interfaceType default, .interfaceField default 0,
   .objectType default, .objectField default 0, .inputObjectType default, .inputField default 0, .unionType default,
   .scalarType default, .enumType default, .enumValue 0 0]

theorem schema_callbacks_modelled :
    sameNames Gen.schemaVisitorCallbacks (snodeSamples.flatMap (fun n => [(snodeCallbacks n).1, (snodeCallbacks n).2])) = true := by decide

theorem schema_nodes_are_callbacks (n : SNode) :
    (snodeCallbacks n).1 ∈ Gen.schemaVisitorCallbacks ∧ (snodeCallbacks n).2 ∈ Gen.schemaVisitorCallbacks := by
  cases n <;> simp only [snodeCallbacks] <;> decide

/-- the overridable method of `trait OperationTransformer` a model hook stands for -/
def hookMethod : HookId → String
  | .definition => "transform_definition"
  | .operation => "transform_operation"
  | .fragment => "transform_fragment"
  | .selectionSet => "transform_selection_set"
  | .field => "transform_field"
  | .spread => "transform_fragment_spread"
  | .inline => "transform_inline_fragment"
  | .directive => "transform_directive"
  | .argument => "transform_argument"
  | .value => "transform_value"
  | .varDef => "transform_variable_definition"

/-- the trait's methods, all accounted for: the eleven hooks, the structural methods the model
    fixes to their default behaviour, and the `default_*` bodies -/
def transformerMethodsExpected : List String :=
  ["transform_document", "default_transform_document", "transform_definition", "default_transform_definition",
   "transform_operation", "default_transform_operation", "transform_query", "default_transform_query",
   "transform_mutation", "default_transform_mutation", "transform_subscription", "default_transform_subscription",
   "transform_fragment", "default_transform_fragment", "transform_selection_set", "transform_selection",
   "default_transform_selection", "transform_field", "default_transform_field", "transform_fragment_spread",
   "default_transform_fragment_spread", "transform_inline_fragment", "default_transform_inline_fragment",
   "transform_directives", "transform_directive", "default_transform_directive", "transform_arguments",
   "transform_argument", "default_transform_argument", "transform_value", "default_transform_value",
   "transform_variable_definitions", "default_transform_variable_definitions", "transform_variable_definition",
   "default_transform_variable_definition", "transform_list"]

theorem transformer_methods_modelled : sameNames Gen.transformerMethods transformerMethodsExpected = true := by decide

theorem hooks_are_methods (h : HookId) : hookMethod h ∈ Gen.transformerMethods := by
  cases h <;> decide

end Gql.Tie
