/-
  Thm/C15Schema.lean — PROPERTY C15 (schema visitor part): for every schema document without
  type extensions the schema visitor's callbacks are the pre/post-order flattening of the
  schema's node tree (every definition, field, input field and enum value entered and left once,
  children between their parent's enter and leave, siblings in list order); with a type
  extension it panics (documented limitation, excluded by the property).
-/
import GqlVerif.Spec.SchemaTree
namespace Gql.C15

theorem flattenAll_leaves {α : Type} (mk : α → SNode) (xs : List α) :
    STree.flattenAll (xs.map fun x => STree.node (mk x) []) = xs.flatMap fun x => [.enter (mk x), .leave (mk x)] := by
  induction xs with
  | nil => simp [STree.flattenAll]
  | cons x xs ih => simp [STree.flattenAll, STree.flatten, ih]

theorem svFields_eq (mk : FieldDef → SNode) (fs : List FieldDef) :
    svFields mk fs = fs.flatMap fun f => [.enter (mk f), .leave (mk f)] := by
  induction fs with
  | nil => simp [svFields]
  | cons f fs ih => simp [svFields, ih]

theorem svInputFields_eq (o : Name) (fs : List InputValueDef) :
    svInputFields o fs = fs.flatMap fun f => [.enter (.inputField f o), .leave (.inputField f o)] := by
  induction fs with
  | nil => simp [svInputFields]
  | cons f fs ih => simp [svInputFields, ih]

theorem svEnumValues_eq (o : Name) (vs : List Name) :
    svEnumValues o vs = vs.flatMap fun v => [.enter (.enumValue v o), .leave (.enumValue v o)] := by
  induction vs with
  | nil => simp [svEnumValues]
  | cons v vs ih => simp [svEnumValues, ih]

theorem typeTree_flatten (t : TypeDef) :
    (typeTree t).flatten = [.enter (.typeDef t)] ++ svTypeBody t ++ [.leave (.typeDef t)] := by
  cases t <;>
    simp [typeTree, STree.flatten, STree.flattenAll, svTypeBody, leafT, flattenAll_leaves,
      svFields_eq, svInputFields_eq, svEnumValues_eq]

theorem svDefinitions_eq (s : Schema) :
    svDefinitions s = if s.hasExtension then none else some (STree.flattenAll (s.filterMap sdefTree)) := by
  induction s with
  | nil => simp [svDefinitions, Schema.hasExtension, STree.flattenAll]
  | cons d rest ih =>
    simp only [Schema.hasExtension] at ih
    cases d <;> simp [svDefinitions, Schema.hasExtension, ih, sdefTree, STree.flattenAll,
      STree.flatten, leafT, typeTree_flatten] <;> split <;> simp

/-- Main statement. -/
theorem schemaVisit_eq_flatten (s : Schema) :
    schemaVisit s = if s.hasExtension then none else some (schemaTree s).flatten := by
  simp only [schemaVisit, svDefinitions_eq]
  split <;> simp [schemaTree, STree.flatten]

/-- No panic without type extensions. -/
theorem schemaVisit_total (s : Schema) (h : s.hasExtension = false) : (schemaVisit s).isSome = true := by
  simp [schemaVisit_eq_flatten, h]

example : schemaVisit [.type (.enum 20 [22, 24]), .schema ⟨some 0, none, none⟩] =
    some [.enter .document, .enter (.typeDef (.enum 20 [22, 24])), .enter (.enumType (.enum 20 [22, 24])),
      .enter (.enumValue 22 20), .leave (.enumValue 22 20), .enter (.enumValue 24 20), .leave (.enumValue 24 20),
      .leave (.enumType (.enum 20 [22, 24])), .leave (.typeDef (.enum 20 [22, 24])),
      .enter (.schemaDef ⟨some 0, none, none⟩), .leave (.schemaDef ⟨some 0, none, none⟩), .leave .document] := by
  rfl

end Gql.C15
