/-
  Thm/C01.lean — PROPERTIES C01 and C02: with the default plan, a document is accepted iff it
  violates none of the 24 spec conditions (`Violates`), assembled from the per-rule iff theorems
  (C04, C06-C11), the plan algebra (C13) and the generated default plan.

  What stays visible in the statements:
  * the field-merging rule enters through the hypothesis `MergeAgrees` (C05 is explored, not
    proved; it is false in general: F15);
  * `Violates .variablesInAllowedPosition` is the usage rule WITHOUT the allowance for locations
    declaring a default value (F13: such spec-valid documents are rejected).
-/
import GqlVerif.Thm.C03
import GqlVerif.Thm.C04
import GqlVerif.Thm.C05
import GqlVerif.Thm.C08
import GqlVerif.Thm.C10
import GqlVerif.Thm.C11
import GqlVerif.Gen.DefaultPlan
namespace Gql.C01
open Gql.Spec

/-- the spec condition each rule is responsible for -/
def Violates : RuleId → Schema → Document → Prop
  | .uniqueOperationNames => fun _ d => DuplicateOperationName d
  | .loneAnonymousOperation => fun _ d => AnonymousNotAlone d
  | .singleFieldSubscriptions => SubscriptionNotSingleField
  | .knownTypeNames => UnknownTypeReferenced
  | .fragmentsOnCompositeTypes => FragmentOnNonComposite
  | .variablesAreInputTypes => NonInputVariable
  | .leafFieldSelections => LeafSelectionViolated
  | .fieldsOnCorrectType => fun s d => UndefinedFieldSelected s d ∨ TypenameAtSubscriptionRoot d
  | .uniqueFragmentNames => fun _ d => DuplicateFragmentName d
  | .knownFragmentNames => UndefinedFragmentSpread
  | .noUnusedFragments => fun _ d => UnusedFragment d
  | .overlappingFieldsCanBeMerged => MergeViolated
  | .noFragmentsCycle => fun _ d => FragmentCycle d
  | .possibleFragmentSpreads => ImpossibleSpread
  | .noUnusedVariables => UnusedVariable
  | .noUndefinedVariables => UndefinedVariable
  | .knownArgumentNames => UnknownArgumentUsed
  | .uniqueArgumentNames => DuplicateArgument
  | .uniqueVariableNames => fun _ d => DuplicateVariable d
  | .providedRequiredArguments => RequiredArgumentMissing
  | .knownDirectives => KnownDirectivesViolated
  | .variablesInAllowedPosition => BadVariablePosition
  | .valuesOfCorrectType => fun s d => ∃ τ v, (some τ, v) ∈ C08.literalSites s d ∧ ¬ Coercible s τ v
  | .uniqueDirectivesPerLocation => UniqueDirectivesViolated

/-- 'self-contained and well-formed' schema, as far as the theorems need it -/
structure SchemaOk (s : Schema) : Prop where
  queryRoot : s.queryType.isSome = true
  typeNames : s.typeNames.Nodup
  directiveNames : (s.directives.map (·.name)).Nodup
  inputsClosed : InputsClosed s
  argsGood : ArgsGood s

/-- what the parser guarantees about variable types (no `T!!`), and no introspection type used
    as a variable type (the schema text does not declare those; see DESIGN.md) -/
def DocOk (d : Document) : Prop :=
  ∀ o ∈ d.operations, ∀ v ∈ o.vars, v.ty.ok = true ∧ v.ty.inner ∉ introspectionTypeNames

/-- the hypothesis under which the field-merging rule enters (C05) -/
def MergeAgrees (s : Schema) (d : Document) : Prop :=
  fires .overlappingFieldsCanBeMerged s d ↔ MergeViolated s d

/-- a rule other than the field-merging one and the three that need document-level side
    conditions fires iff its spec condition is violated -/
theorem fires_iff_violates_basic (s : Schema) (d : Document) (hs : SchemaOk s) :
    ∀ r : RuleId, r ≠ .overlappingFieldsCanBeMerged → r ≠ .noFragmentsCycle → r ≠ .valuesOfCorrectType →
      (fires r s d ↔ Violates r s d) := by
  intro r h1 h2 h3
  cases r
  · exact C11.uniqueOperationNames_iff s d hs.queryRoot
  · exact C11.loneAnonymous_iff s d hs.queryRoot
  · exact C11.singleFieldSubscriptions_iff s d hs.queryRoot hs.typeNames
  · exact C06.knownTypeNames_iff s d hs.queryRoot
  · exact C06.fragmentsOnCompositeTypes_iff s d hs.queryRoot
  · exact C07.variablesAreInputTypes_iff s d hs.queryRoot
  · exact C04.leafFieldSelections_iff s d
  · exact C04.fieldsOnCorrectType_iff s d hs.queryRoot
  · exact C06.uniqueFragmentNames_iff s d hs.queryRoot
  · exact C06.knownFragmentNames_iff s d
  · exact C06.noUnusedFragments_iff s d hs.queryRoot
  · exact absurd rfl h1
  · exact absurd rfl h2
  · exact C06.possibleFragmentSpreads_iff s d hs.typeNames
  · exact C07.noUnusedVariables_iff s d hs.queryRoot
  · exact C07.noUndefinedVariables_iff s d hs.queryRoot
  · exact C09.knownArgumentNames_iff s d
  · exact C09.uniqueArgumentNames_iff s d
  · exact C07.uniqueVariableNames_iff s d hs.queryRoot
  · exact C09.providedRequiredArguments_iff s d hs.directiveNames
  · exact C10.knownDirectives_iff s d hs.queryRoot hs.directiveNames
  · exact C07.variablesInAllowedPosition_iff_partial s d hs.queryRoot
  · exact absurd rfl h3
  · exact C10.uniqueDirectives_iff s d hs.queryRoot hs.directiveNames

/-- no rule fires iff nothing is violated -/
theorem none_fires_iff (s : Schema) (d : Document) (hs : SchemaOk s) (hd : DocOk d) (hm : MergeAgrees s d) :
    (∀ r, ¬ fires r s d) ↔ (∀ r, ¬ Violates r s d) := by
  constructor
  · intro hno r hv
    -- a violated condition makes its rule fire, possibly another one when a side condition fails
    by_cases h1 : r = .overlappingFieldsCanBeMerged
    · subst h1; exact hno _ (hm.2 hv)
    by_cases h2 : r = .noFragmentsCycle
    · subst h2
      by_cases hn : (d.fragments.map (·.name)).Nodup
      · exact hno _ ((C06.noFragmentsCycle_iff s d hs.queryRoot hn).2 hv)
      · exact hno .uniqueFragmentNames ((C06.uniqueFragmentNames_iff s d hs.queryRoot).2 hn)
    by_cases h3 : r = .valuesOfCorrectType
    · subst h3
      by_cases hvt : VarTypesGood s d
      · exact hno _ ((C08.valuesOfCorrectType_iff_wf s d hs.inputsClosed hs.argsGood hvt).2 hv)
      · -- some variable's type is undeclared or not an input type: reported by another rule
        have : ∃ o, Definition.op o ∈ d ∧ ∃ v ∈ o.vars, ¬ GoodTy s v.ty := by
          refine Classical.byContradiction fun hc => hvt ?_
          intro o ho v hv'
          exact Classical.byContradiction fun hg => hc ⟨o, ho, v, hv', hg⟩
        obtain ⟨o, ho, v, hv', hbad⟩ := this
        have ho' := (mem_operations_iff d o).2 ho
        obtain ⟨hok, hni⟩ := hd o ho' v hv'
        cases ht : s.typeByName v.ty.inner with
        | none =>
          refine hno .knownTypeNames ((C06.knownTypeNames_iff s d hs.queryRoot).2 (Or.inr (Or.inr ⟨v, ?_, ?_⟩)))
          · exact (C07.enter_varDef_in_walk s d hs.queryRoot v).2 ⟨o, ho', hv'⟩
          · rintro (h | h)
            · rw [ht] at h; cases h
            · exact hni h
        | some t =>
          cases hi : t.isInput with
          | true => exact hbad ⟨hok, by simp [Schema.isInputName, ht, hi]⟩
          | false =>
            exact hno .variablesAreInputTypes ((C07.variablesAreInputTypes_iff s d hs.queryRoot).2 ⟨o, ho', v, hv', t, ht, hi⟩)
    exact hno r ((fires_iff_violates_basic s d hs r h1 h2 h3).2 hv)
  · intro hno r hf
    by_cases h1 : r = .overlappingFieldsCanBeMerged
    · subst h1; exact hno .overlappingFieldsCanBeMerged (hm.1 hf)
    by_cases h2 : r = .noFragmentsCycle
    · subst h2
      by_cases hn : (d.fragments.map (·.name)).Nodup
      · exact hno .noFragmentsCycle ((C06.noFragmentsCycle_iff s d hs.queryRoot hn).1 hf)
      · exact hno .uniqueFragmentNames hn
    by_cases h3 : r = .valuesOfCorrectType
    · subst h3
      by_cases hvt : VarTypesGood s d
      · exact hno .valuesOfCorrectType ((C08.valuesOfCorrectType_iff_wf s d hs.inputsClosed hs.argsGood hvt).1 hf)
      · have : ∃ o, Definition.op o ∈ d ∧ ∃ v ∈ o.vars, ¬ GoodTy s v.ty := by
          refine Classical.byContradiction fun hc => hvt ?_
          intro o ho v hv'
          exact Classical.byContradiction fun hg => hc ⟨o, ho, v, hv', hg⟩
        obtain ⟨o, ho, v, hv', hbad⟩ := this
        have ho' := (mem_operations_iff d o).2 ho
        obtain ⟨hok, hni⟩ := hd o ho' v hv'
        cases ht : s.typeByName v.ty.inner with
        | none =>
          refine hno .knownTypeNames (Or.inr (Or.inr ⟨v, ?_, ?_⟩))
          · exact (C07.enter_varDef_in_walk s d hs.queryRoot v).2 ⟨o, ho', hv'⟩
          · rintro (h | h)
            · rw [ht] at h; cases h
            · exact hni h
        | some t =>
          cases hi : t.isInput with
          | true => exact hbad ⟨hok, by simp [Schema.isInputName, ht, hi]⟩
          | false => exact hno .variablesAreInputTypes ⟨o, ho', v, hv', t, ht, hi⟩
    exact hno r ((fires_iff_violates_basic s d hs r h1 h2 h3).1 hf)

/-- the default plan returns the empty list iff no rule fires -/
theorem accepted_iff_none_fires (s : Schema) (d : Document) (hq : s.queryType.isSome = true) :
    validate s d Gen.defaultPlan = some [] ↔ ∀ r, ¬ fires r s d := by
  rw [C03.no_panic s d hq, Option.some.injEq, List.flatMap_eq_nil_iff]
  constructor
  · intro h r hf; exact hf (h r (C13.defaultPlan_complete r))
  · intro h r _
    exact Classical.byContradiction fun hne => h r hne

/-- **C01 ∧ C02** (partial: `MergeAgrees`; `Violates` for variable positions without the
    location-default allowance): the default plan accepts a document iff it violates none of the
    24 conditions. -/
theorem accepted_iff_valid_partial (s : Schema) (d : Document) (hs : SchemaOk s) (hd : DocOk d) (hm : MergeAgrees s d) :
    validate s d Gen.defaultPlan = some [] ↔ ∀ r, ¬ Violates r s d := by
  rw [accepted_iff_none_fires s d hs.queryRoot, none_fires_iff s d hs hd hm]

/-- **C01**: a document that violates none of the conditions is accepted -/
theorem valid_accepted_partial (s : Schema) (d : Document) (hs : SchemaOk s) (hd : DocOk d) (hm : MergeAgrees s d)
    (hv : ∀ r, ¬ Violates r s d) : validate s d Gen.defaultPlan = some [] :=
  (accepted_iff_valid_partial s d hs hd hm).2 hv

/-- **C02**: a document that violates some condition gets at least one error -/
theorem invalid_rejected_partial (s : Schema) (d : Document) (hs : SchemaOk s) (hd : DocOk d) (hm : MergeAgrees s d)
    (r : RuleId) (hv : Violates r s d) : ∃ errs, validate s d Gen.defaultPlan = some errs ∧ errs ≠ [] := by
  refine ⟨_, C03.no_panic s d hs.queryRoot _, fun he => ?_⟩
  have := (accepted_iff_valid_partial s d hs hd hm).1 (by rw [C03.no_panic s d hs.queryRoot, he])
  exact this r hv

/-- soundness needs less: whatever the merging rule does, every OTHER rule that fires points at a
    violated condition (so a rejected valid document can only be blamed on the merging rule) -/
theorem fires_sound (s : Schema) (d : Document) (hs : SchemaOk s) (hd : DocOk d) (r : RuleId)
    (hr : r ≠ .overlappingFieldsCanBeMerged) (hf : fires r s d) : ∃ r', Violates r' s d := by
  by_cases h2 : r = .noFragmentsCycle
  · subst h2
    by_cases hn : (d.fragments.map (·.name)).Nodup
    · exact ⟨.noFragmentsCycle, (C06.noFragmentsCycle_iff s d hs.queryRoot hn).1 hf⟩
    · exact ⟨.uniqueFragmentNames, hn⟩
  by_cases h3 : r = .valuesOfCorrectType
  · subst h3
    by_cases hvt : VarTypesGood s d
    · exact ⟨.valuesOfCorrectType, (C08.valuesOfCorrectType_iff_wf s d hs.inputsClosed hs.argsGood hvt).1 hf⟩
    · have : ∃ o, Definition.op o ∈ d ∧ ∃ v ∈ o.vars, ¬ GoodTy s v.ty := by
        refine Classical.byContradiction fun hc => hvt ?_
        intro o ho v hv'
        exact Classical.byContradiction fun hg => hc ⟨o, ho, v, hv', hg⟩
      obtain ⟨o, ho, v, hv', hbad⟩ := this
      have ho' := (mem_operations_iff d o).2 ho
      obtain ⟨hok, hni⟩ := hd o ho' v hv'
      cases ht : s.typeByName v.ty.inner with
      | none =>
        refine ⟨.knownTypeNames, Or.inr (Or.inr ⟨v, (C07.enter_varDef_in_walk s d hs.queryRoot v).2 ⟨o, ho', hv'⟩, ?_⟩)⟩
        rintro (h | h)
        · rw [ht] at h; cases h
        · exact hni h
      | some t =>
        cases hi : t.isInput with
        | true => exact absurd ⟨hok, by simp [Schema.isInputName, ht, hi]⟩ hbad
        | false => exact ⟨.variablesAreInputTypes, o, ho', v, hv', t, ht, hi⟩
  exact ⟨r, (fires_iff_violates_basic s d hs r hr h2 h3).1 hf⟩

end Gql.C01
