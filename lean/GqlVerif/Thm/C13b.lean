/-
  Thm/C13b.lean — PROPERTY C13, the clause on locations: every location of every error any rule
  reports is the position of a node of the validated document (`locations_in_document`), for all
  24 rules, every schema with a query root and every document.
-/
import GqlVerif.Lemmas.PositionsMerge
import GqlVerif.Thm.C13
import GqlVerif.Thm.C03
namespace Gql.C13
open Gql.Spec

/-- every location of the error is the position of a node of `d` -/
def LocOk (d : Document) (x : Err) : Prop := ∀ p ∈ x.locs, p ∈ docPositions d

/-- errors raised at an `enter` callback are located at the node entered (or nowhere); `leave`
    callbacks and the final step raise none with a location -/
def LocalLoc (r : Rule) : Prop :=
  (∀ s d σ n sn, ∀ x ∈ (r.on s d σ (.enter n, sn)).2, ∀ p ∈ x.locs, n.pos? = some p) ∧
  (∀ s d σ n sn, ∀ x ∈ (r.on s d σ (.leave n, sn)).2, x.locs = []) ∧
  (∀ s d σ, ∀ x ∈ r.finish s d σ, x.locs = [])

theorem locs_of_localLoc (r : Rule) (hl : LocalLoc r) (s : Schema) (d : Document) (hq : s.queryType.isSome = true) :
    ∀ x ∈ r.runOn s d (walkOf s d), LocOk d x := by
  refine runOn_inv r s d (fun _ => True) (LocOk d) _ trivial ?_ ?_
  · intro σ _ e he
    refine ⟨trivial, fun x hx p hp => ?_⟩
    obtain ⟨ev, sn⟩ := e
    cases ev with
    | enter n => exact pos_of_walk s d hq he (hl.1 s d σ n sn x hx p hp)
    | leave n => rw [hl.2.1 s d σ n sn x hx] at hp; cases hp
  · intro σ _ x hx p hp
    rw [hl.2.2 s d σ x hx] at hp; cases hp

theorem ll_uniqueOperationNames : LocalLoc uniqueOperationNames := by
  refine ⟨?_, ?_, ?_⟩
  · intro s d σ n sn x hx p hp
    cases n <;> simp [uniqueOperationNames] at hx <;> grind [Node.pos?]
  · intro s d σ n sn x hx
    cases n <;> simp [uniqueOperationNames] at hx <;> grind
  · intro s d σ x hx
    simp [uniqueOperationNames] at hx <;> grind

theorem ll_singleFieldSubscriptions : LocalLoc singleFieldSubscriptions := by
  refine ⟨?_, ?_, ?_⟩
  · intro s d σ n sn x hx p hp
    cases n <;> simp [singleFieldSubscriptions, Rule.stateless] at hx <;> grind [Node.pos?]
  · intro s d σ n sn x hx
    cases n <;> simp [singleFieldSubscriptions, Rule.stateless] at hx <;> grind
  · intro s d σ x hx
    simp [singleFieldSubscriptions, Rule.stateless] at hx <;> grind

theorem ll_knownTypeNames : LocalLoc knownTypeNames := by
  refine ⟨?_, ?_, ?_⟩
  · intro s d σ n sn x hx p hp
    cases n <;> simp [knownTypeNames, Rule.stateless, unknownTypeErr] at hx <;> grind [Node.pos?]
  · intro s d σ n sn x hx
    cases n <;> simp [knownTypeNames, Rule.stateless, unknownTypeErr] at hx <;> grind
  · intro s d σ x hx
    simp [knownTypeNames, Rule.stateless, unknownTypeErr] at hx <;> grind

theorem ll_fragmentsOnCompositeTypes : LocalLoc fragmentsOnCompositeTypes := by
  refine ⟨?_, ?_, ?_⟩
  · intro s d σ n sn x hx p hp
    cases n <;> simp [fragmentsOnCompositeTypes, Rule.stateless] at hx <;> grind [Node.pos?]
  · intro s d σ n sn x hx
    cases n <;> simp [fragmentsOnCompositeTypes, Rule.stateless] at hx <;> grind
  · intro s d σ x hx
    simp [fragmentsOnCompositeTypes, Rule.stateless] at hx <;> grind

theorem ll_variablesAreInputTypes : LocalLoc variablesAreInputTypes := by
  refine ⟨?_, ?_, ?_⟩
  · intro s d σ n sn x hx p hp
    cases n <;> simp [variablesAreInputTypes, Rule.stateless] at hx <;> grind [Node.pos?]
  · intro s d σ n sn x hx
    cases n <;> simp [variablesAreInputTypes, Rule.stateless] at hx <;> grind
  · intro s d σ x hx
    simp [variablesAreInputTypes, Rule.stateless] at hx <;> grind

theorem ll_leafFieldSelections : LocalLoc leafFieldSelections := by
  refine ⟨?_, ?_, ?_⟩
  · intro s d σ n sn x hx p hp
    cases n <;> simp [leafFieldSelections, Rule.stateless] at hx <;> grind [Node.pos?]
  · intro s d σ n sn x hx
    cases n <;> simp [leafFieldSelections, Rule.stateless] at hx <;> grind
  · intro s d σ x hx
    simp [leafFieldSelections, Rule.stateless] at hx <;> grind

theorem ll_fieldsOnCorrectType : LocalLoc fieldsOnCorrectType := by
  refine ⟨?_, ?_, ?_⟩
  · intro s d σ n sn x hx p hp
    cases n <;> simp [fieldsOnCorrectType, Rule.stateless] at hx <;> grind [Node.pos?]
  · intro s d σ n sn x hx
    cases n <;> simp [fieldsOnCorrectType, Rule.stateless] at hx <;> grind
  · intro s d σ x hx
    simp [fieldsOnCorrectType, Rule.stateless] at hx <;> grind

theorem ll_uniqueFragmentNames : LocalLoc uniqueFragmentNames := by
  refine ⟨?_, ?_, ?_⟩
  · intro s d σ n sn x hx p hp
    cases n <;> simp [uniqueFragmentNames] at hx <;> grind [Node.pos?]
  · intro s d σ n sn x hx
    cases n <;> simp [uniqueFragmentNames] at hx <;> grind
  · intro s d σ x hx
    simp [uniqueFragmentNames] at hx <;> grind

theorem ll_knownFragmentNames : LocalLoc knownFragmentNames := by
  refine ⟨?_, ?_, ?_⟩
  · intro s d σ n sn x hx p hp
    cases n <;> simp [knownFragmentNames, Rule.stateless] at hx <;> grind [Node.pos?]
  · intro s d σ n sn x hx
    cases n <;> simp [knownFragmentNames, Rule.stateless] at hx <;> grind
  · intro s d σ x hx
    simp [knownFragmentNames, Rule.stateless] at hx <;> grind

theorem ll_noUnusedFragments : LocalLoc noUnusedFragments := by
  refine ⟨?_, ?_, ?_⟩
  · intro s d σ n sn x hx p hp
    cases n <;> simp [noUnusedFragments] at hx <;> grind [Node.pos?]
  · intro s d σ n sn x hx
    cases n <;> simp [noUnusedFragments] at hx <;> grind
  · intro s d σ x hx
    simp [noUnusedFragments] at hx <;> grind

theorem ll_possibleFragmentSpreads : LocalLoc possibleFragmentSpreads := by
  refine ⟨?_, ?_, ?_⟩
  · intro s d σ n sn x hx p hp
    cases n <;> simp [possibleFragmentSpreads, Rule.stateless] at hx <;> grind [Node.pos?]
  · intro s d σ n sn x hx
    cases n <;> simp [possibleFragmentSpreads, Rule.stateless] at hx <;> grind
  · intro s d σ x hx
    simp [possibleFragmentSpreads, Rule.stateless] at hx <;> grind

theorem ll_noUnusedVariables : LocalLoc noUnusedVariables := by
  refine ⟨?_, ?_, ?_⟩
  · intro s d σ n sn x hx p hp
    cases n <;> simp [noUnusedVariables, collRule, unusedReport] at hx <;> grind [Node.pos?]
  · intro s d σ n sn x hx
    cases n <;> simp [noUnusedVariables, collRule, unusedReport] at hx <;> grind
  · intro s d σ x hx
    simp [noUnusedVariables, collRule, unusedReport] at hx <;> grind

theorem ll_noUndefinedVariables : LocalLoc noUndefinedVariables := by
  refine ⟨?_, ?_, ?_⟩
  · intro s d σ n sn x hx p hp
    cases n <;> simp [noUndefinedVariables, collRule, undefinedReport] at hx <;> grind [Node.pos?]
  · intro s d σ n sn x hx
    cases n <;> simp [noUndefinedVariables, collRule, undefinedReport] at hx <;> grind
  · intro s d σ x hx
    simp [noUndefinedVariables, collRule, undefinedReport] at hx <;> grind

theorem ll_knownArgumentNames : LocalLoc knownArgumentNames := by
  refine ⟨?_, ?_, ?_⟩
  · intro s d σ n sn x hx p hp
    cases n <;> simp [knownArgumentNames, kaArgCheck] at hx <;> grind [Node.pos?]
  · intro s d σ n sn x hx
    cases n <;> simp [knownArgumentNames, kaArgCheck] at hx <;> grind
  · intro s d σ x hx
    simp [knownArgumentNames, kaArgCheck] at hx <;> grind

theorem ll_uniqueArgumentNames : LocalLoc uniqueArgumentNames := by
  refine ⟨?_, ?_, ?_⟩
  · intro s d σ n sn x hx p hp
    cases n <;> simp [uniqueArgumentNames, Rule.stateless, duplicateArgErrors] at hx <;> grind [Node.pos?]
  · intro s d σ n sn x hx
    cases n <;> simp [uniqueArgumentNames, Rule.stateless, duplicateArgErrors] at hx <;> grind
  · intro s d σ x hx
    simp [uniqueArgumentNames, Rule.stateless, duplicateArgErrors] at hx <;> grind

theorem ll_providedRequiredArguments : LocalLoc providedRequiredArguments := by
  refine ⟨?_, ?_, ?_⟩
  · intro s d σ n sn x hx p hp
    cases n <;> simp [providedRequiredArguments, Rule.stateless] at hx <;> grind [Node.pos?]
  · intro s d σ n sn x hx
    cases n <;> simp [providedRequiredArguments, Rule.stateless] at hx <;> grind
  · intro s d σ x hx
    simp [providedRequiredArguments, Rule.stateless] at hx <;> grind

theorem ll_knownDirectives : LocalLoc knownDirectives := by
  refine ⟨?_, ?_, ?_⟩
  · intro s d σ n sn x hx p hp
    cases n <;> simp [knownDirectives] at hx <;> grind [Node.pos?]
  · intro s d σ n sn x hx
    cases n <;> simp [knownDirectives] at hx <;> grind
  · intro s d σ x hx
    simp [knownDirectives] at hx <;> grind

/-- 'values of correct type' attaches no location -/
theorem voc_noloc (s : Schema) (d : Document) (σ : valuesOfCorrectType.σ) (e : Ev × Snap) :
    ∀ x ∈ (valuesOfCorrectType.on s d σ e).2, x.locs = [] := by
  simp only [valuesOfCorrectType, Rule.stateless, validateValue, validateCompositeValue]
  repeat' split
  all_goals simp
  all_goals (first | done | (rintro x (⟨_, _, rfl⟩ | ⟨_, _, rfl⟩) <;> rfl))

theorem ll_valuesOfCorrectType : LocalLoc valuesOfCorrectType := by
  refine ⟨?_, ?_, ?_⟩
  · intro s d σ n sn x hx p hp
    rw [voc_noloc s d σ _ x hx] at hp; cases hp
  · intro s d σ n sn x hx
    exact voc_noloc s d σ _ x hx
  · intro s d σ x hx
    simp [valuesOfCorrectType, Rule.stateless] at hx

/-! ### the rules whose locations are not those of the entered node -/

/-- 'lone anonymous operation' reports, at the document callback, the positions of operations -/
theorem loc_loneAnonymous (s : Schema) (d : Document) (hq : s.queryType.isSome = true) :
    ∀ x ∈ loneAnonymousOperation.runOn s d (walkOf s d), LocOk d x := by
  refine runOn_inv _ s d (fun _ => True) (LocOk d) _ trivial ?_ (by intro σ _ x hx; simp [loneAnonymousOperation, Rule.stateless] at hx)
  intro σ _ e he
  refine ⟨trivial, fun x hx p hp => ?_⟩
  obtain ⟨ev, sn⟩ := e
  cases ev with
  | leave n => simp [loneAnonymousOperation, Rule.stateless] at hx
  | enter n =>
    cases n <;> simp [loneAnonymousOperation, Rule.stateless] at hx
    rename_i d'
    have hd : d' = d := (enter_document_in_walk s d hq d').1 ⟨sn, he⟩
    subst hd
    obtain ⟨o, ho, _, rfl⟩ := hx
    split at hp
    · cases hp
    · simp only [List.mem_singleton] at hp
      subst hp
      obtain ⟨env, henv⟩ := (enter_operation_in_walk s d' hq o).2 ho
      exact pos_of_walk s d' hq henv rfl

/-- 'unique variable names' remembers positions of variable definitions it has seen -/
theorem loc_uniqueVariableNames (s : Schema) (d : Document) (hq : s.queryType.isSome = true) :
    ∀ x ∈ uniqueVariableNames.runOn s d (walkOf s d), LocOk d x := by
  refine runOn_inv _ s d (fun (found : List (Name × Pos)) => ∀ q ∈ found, q.2 ∈ docPositions d) (LocOk d) _
    (by intro q h; simp [uniqueVariableNames] at h) ?_ (by intro σ _ x hx; simp [uniqueVariableNames] at hx)
  intro found hinv e he
  obtain ⟨ev, sn⟩ := e
  cases ev with
  | leave n => exact ⟨by simpa [uniqueVariableNames] using hinv, by intro x hx; simp [uniqueVariableNames] at hx⟩
  | enter n =>
    cases n with
    | operation o => exact ⟨by intro q h; simp [uniqueVariableNames] at h, by intro x hx; simp [uniqueVariableNames] at hx⟩
    | varDef v =>
      have hv : v.pos ∈ docPositions d := pos_of_walk s d hq he rfl
      simp only [uniqueVariableNames]
      split
      · rename_i p hg
        refine ⟨hinv, ?_⟩
        intro x hx p' hp'
        simp only [List.mem_singleton] at hx
        subst hx
        simp only [List.mem_cons, List.not_mem_nil, or_false] at hp'
        rcases hp' with rfl | rfl
        · exact hinv (v.name, p') (mem_of_alGet found v.name p' hg)
        · exact hv
      · refine ⟨?_, by intro x hx; simp at hx⟩
        intro q hq'
        have hq2 : q ∈ (show List (Name × Pos) from found) ++ [(v.name, v.pos)] := hq'
        rcases List.mem_append.1 hq2 with hq3 | hq3
        · exact hinv q hq3
        · rw [List.mem_singleton.1 hq3]; exact hv
    | _ => exact ⟨by simpa [uniqueVariableNames] using hinv, by intro x hx; simp [uniqueVariableNames] at hx⟩

theorem dupDir_locs (s : Schema) : ∀ (ds : List Directive) (seen : List Name), ∀ x ∈ duplicateDirectiveErrors s ds seen,
    ∀ p ∈ x.locs, ∃ dir ∈ ds, p = dir.pos
  | [], _, x, hx, _, _ => by simp [duplicateDirectiveErrors] at hx
  | dir :: rest, seen, x, hx, p, hp => by
      simp only [duplicateDirectiveErrors] at hx
      have lift : ∀ seen', x ∈ duplicateDirectiveErrors s rest seen' → ∃ dir' ∈ dir :: rest, p = dir'.pos := by
        intro seen' h
        obtain ⟨dir', hd', hp'⟩ := dupDir_locs s rest seen' x h p hp
        exact ⟨dir', by simp [hd'], hp'⟩
      split at hx
      · split at hx
        · split at hx
          · rcases List.mem_cons.1 hx with rfl | hx
            · simp only [List.mem_singleton] at hp
              exact ⟨dir, by simp, hp⟩
            · exact lift _ hx
          · exact lift _ hx
        · exact lift _ hx
      · exact lift _ hx

/-- 'unique directives per location' reports at the positions of the entered node's directives -/
theorem loc_uniqueDirectives (s : Schema) (d : Document) (hq : s.queryType.isSome = true) :
    ∀ x ∈ uniqueDirectivesPerLocation.runOn s d (walkOf s d), LocOk d x := by
  refine runOn_inv _ s d (fun _ => True) (LocOk d) _ trivial ?_ (by intro σ _ x hx; simp [uniqueDirectivesPerLocation, Rule.stateless] at hx)
  intro σ _ e he
  refine ⟨trivial, fun x hx p hp => ?_⟩
  obtain ⟨ev, sn⟩ := e
  have hT := enter_of_walk s d hq he
  have fin : ∀ (n : Node) (ds : List Directive), ev = .enter n → n.dirs = ds → x ∈ duplicateDirectiveErrors s ds [] → p ∈ docPositions d := by
    intro n ds hev hds hx'
    obtain ⟨dir, hdir, rfl⟩ := dupDir_locs s ds [] x hx' p hp
    subst hev
    exact pos_of_enter (dirsIn_document d n hT dir (hds ▸ hdir)) rfl
  cases ev with
  | leave n => simp [uniqueDirectivesPerLocation, Rule.stateless, udCheck] at hx
  | enter n =>
    cases n <;> simp [uniqueDirectivesPerLocation, Rule.stateless, udCheck] at hx
    all_goals exact fin _ _ rfl rfl hx

/-- the cycle search reports positions of spreads inside fragment definitions of the document -/
theorem detectCycles_locs (d : Document) : ∀ (n : Nat) (frag : FragDef) (path : List SpreadNode) (idx : List (Name × Nat)) (st : CycleState),
    Incl d frag.sel → (∀ sp ∈ path, sp.pos ∈ docPositions d) → (∀ x ∈ st.errs, LocOk d x) →
      ∀ x ∈ (detectCycles d n frag path idx st).errs, LocOk d x := by
  intro n
  induction n with
  | zero => intro frag path idx st _ _ h; simpa [detectCycles] using h
  | succ n ih =>
    intro frag path idx st hin hpath h
    simp only [detectCycles]
    split
    · exact h
    · split
      · exact h
      · have key : ∀ (L : List SpreadNode), (∀ sp ∈ L, sp ∈ recursiveSpreads frag.sel) → ∀ st' : CycleState, (∀ x ∈ st'.errs, LocOk d x) →
            ∀ x ∈ (L.foldl (cycleStep d (detectCycles d n) path (alInsert idx frag.name path.length)) st').errs, LocOk d x := by
          intro L
          induction L with
          | nil => intro _ st' h'; exact h'
          | cons sp L ihL =>
            intro hsub st' h'
            simp only [List.foldl_cons]
            refine ihL (fun x hx => hsub x (by simp [hx])) _ ?_
            have hsp : sp.pos ∈ docPositions d :=
              pos_of_enter (hin _ (spread_traversed_sels frag.sel sp (hsub sp (by simp)))) rfl
            have hpath' : ∀ q ∈ path ++ [sp], q.pos ∈ docPositions d := by
              intro q hq'
              simp only [List.mem_append, List.mem_singleton] at hq'
              rcases hq' with hq' | rfl
              · exact hpath q hq'
              · exact hsp
            simp only [cycleStep]
            split
            · split
              · rename_i fd hfd
                exact ih fd _ _ st' (incl_fragByName d _ fd hfd) hpath' h'
              · exact h'
            · intro x hx
              simp only [List.mem_append, List.mem_singleton] at hx
              rcases hx with hx | rfl
              · exact h' x hx
              · intro p hp
                simp only [cycleError, List.mem_map] at hp
                obtain ⟨q, hq', rfl⟩ := hp
                exact hpath' q (List.mem_of_mem_drop hq')
        exact key _ (fun _ h => h) _ (by simpa using h)

theorem loc_noFragmentsCycle (s : Schema) (d : Document) (hq : s.queryType.isSome = true) :
    ∀ x ∈ noFragmentsCycle.runOn s d (walkOf s d), LocOk d x := by
  refine runOn_inv _ s d (fun _ => True) (LocOk d) _ trivial ?_ (by intro σ _ x hx; simp [noFragmentsCycle] at hx)
  intro σ _ e he
  refine ⟨trivial, ?_⟩
  obtain ⟨ev, sn⟩ := e
  cases ev with
  | leave n => intro x hx; simp [noFragmentsCycle] at hx
  | enter n =>
    cases n with
    | fragmentDef f =>
      simp only [noFragmentsCycle]
      have hf : f ∈ d.fragments := (enter_fragmentDef_in_walk s d hq f).1 ⟨sn, he⟩
      exact detectCycles_locs d _ f [] [] _ (incl_fragment d f hf) (by simp) (by simp)
    | _ => intro x hx; simp [noFragmentsCycle] at hx

/-- the field-merging rule reports positions of fields it collected -/
theorem loc_merge (s : Schema) (d : Document) (hq : s.queryType.isSome = true) :
    ∀ x ∈ overlappingFieldsCanBeMerged.runOn s d (walkOf s d), LocOk d x := by
  refine runOn_inv _ s d (fun _ => True) (LocOk d) _ trivial ?_ (by intro σ _ x hx; simp [overlappingFieldsCanBeMerged] at hx)
  intro σ _ e he
  refine ⟨trivial, ?_⟩
  obtain ⟨ev, sn⟩ := e
  cases ev with
  | leave n => intro x hx; simp [overlappingFieldsCanBeMerged] at hx
  | enter n =>
    cases n with
    | selectionSet sel =>
      intro x hx
      simp only [overlappingFieldsCanBeMerged, List.mem_map] at hx
      obtain ⟨c, hc, rfl⟩ := hx
      exact selset_positions s d _ _ sel _ (incl_of_walk s d hq he) c hc
    | _ => intro x hx; simp [overlappingFieldsCanBeMerged] at hx

theorem addItems_defs {ι : Type} (st : Coll ι) (sc : Scope) (its : List ι) : (st.addItems sc its).defs = st.defs := by
  unfold Coll.addItems
  cases its <;> rfl

/-- 'variables in allowed position' reports the position of a variable definition it has collected -/
theorem loc_vip (s : Schema) (d : Document) (hq : s.queryType.isSome = true) :
    ∀ x ∈ variablesInAllowedPosition.runOn s d (walkOf s d), LocOk d x := by
  refine runOn_inv _ s d (fun (st : Coll (Name × Ty)) => ∀ q ∈ st.defs, ∀ v ∈ q.2, v.pos ∈ docPositions d) (LocOk d) _
    (by intro q h; simp [variablesInAllowedPosition, collRule] at h) ?_
    (by intro σ _ x hx; simp [variablesInAllowedPosition, collRule] at hx)
  intro st hinv e he
  obtain ⟨ev, sn⟩ := e
  simp only [variablesInAllowedPosition, collRule]
  cases ev with
  | leave n =>
    cases n with
    | document d' =>
      refine ⟨hinv, ?_⟩
      intro x hx p hp
      simp only [vipReport, List.mem_flatMap] at hx
      obtain ⟨q, hq', u, _, hx⟩ := hx
      simp only [vipCheck] at hx
      split at hx
      · rename_i vd hvd
        split at hx
        · simp only [List.mem_singleton] at hx
          subst hx
          simp only [List.mem_singleton] at hp
          subst hp
          exact hinv q hq' vd (List.mem_of_find?_eq_some hvd)
        · cases hx
      · cases hx
    | _ =>
      refine ⟨?_, by intro x hx; cases hx⟩
      simp only [Coll.on]
      cases hsc : st.scope with
      | none => exact hinv
      | some sc =>
        intro q hq'
        exact hinv q (by rw [← addItems_defs st sc _]; exact hq')
  | enter n =>
    refine ⟨?_, by intro x hx; cases hx⟩
    cases n with
    | operation o =>
      simp only [Coll.on]
      intro q hq' v hv
      simp only [List.mem_append, List.mem_singleton] at hq'
      rcases hq' with hq' | rfl
      · exact hinv q hq' v hv
      · cases hv
    | fragmentDef f => simpa only [Coll.on] using hinv
    | spread sp => simp only [Coll.on]; cases st.scope <;> exact hinv
    | varDef v =>
      have hv : v.pos ∈ docPositions d := pos_of_walk s d hq he rfl
      simp only [Coll.on]
      cases hsc : st.scope with
      | none => exact hinv
      | some sc =>
        cases sc with
        | frag _ => exact hinv
        | op i nm =>
          intro q hq' w hw
          simp only at hq'
          unfold alUpdate at hq'
          split at hq'
          · simp only [List.mem_map] at hq'
            obtain ⟨q0, hq0, rfl⟩ := hq'
            split at hw
            · simp only [List.mem_append, List.mem_singleton] at hw
              rcases hw with hw | rfl
              · exact hinv q0 hq0 w hw
              · exact hv
            · exact hinv q0 hq0 w hw
          · simp only [List.mem_append, List.mem_singleton] at hq'
            rcases hq' with hq' | rfl
            · exact hinv q hq' w hw
            · simp at hw; subst hw; exact hv
    | _ =>
      simp only [Coll.on]
      cases hsc : st.scope with
      | none => exact hinv
      | some sc =>
        intro q hq'
        exact hinv q (by rw [← addItems_defs st sc _]; exact hq')

/-- **C13, locations.**  Every location of every error a rule reports on a document is the
    position of a node of that document. -/
theorem locations_in_document (s : Schema) (d : Document) (hq : s.queryType.isSome = true) (r : RuleId) :
    ∀ x ∈ errsOf r s d, ∀ p ∈ x.locs, p ∈ docPositions d := by
  unfold errsOf
  cases r <;> simp only [ruleOf]
  · exact locs_of_localLoc _ ll_uniqueOperationNames s d hq
  · exact loc_loneAnonymous s d hq
  · exact locs_of_localLoc _ ll_singleFieldSubscriptions s d hq
  · exact locs_of_localLoc _ ll_knownTypeNames s d hq
  · exact locs_of_localLoc _ ll_fragmentsOnCompositeTypes s d hq
  · exact locs_of_localLoc _ ll_variablesAreInputTypes s d hq
  · exact locs_of_localLoc _ ll_leafFieldSelections s d hq
  · exact locs_of_localLoc _ ll_fieldsOnCorrectType s d hq
  · exact locs_of_localLoc _ ll_uniqueFragmentNames s d hq
  · exact locs_of_localLoc _ ll_knownFragmentNames s d hq
  · exact locs_of_localLoc _ ll_noUnusedFragments s d hq
  · exact loc_merge s d hq
  · exact loc_noFragmentsCycle s d hq
  · exact locs_of_localLoc _ ll_possibleFragmentSpreads s d hq
  · exact locs_of_localLoc _ ll_noUnusedVariables s d hq
  · exact locs_of_localLoc _ ll_noUndefinedVariables s d hq
  · exact locs_of_localLoc _ ll_knownArgumentNames s d hq
  · exact locs_of_localLoc _ ll_uniqueArgumentNames s d hq
  · exact loc_uniqueVariableNames s d hq
  · exact locs_of_localLoc _ ll_providedRequiredArguments s d hq
  · exact locs_of_localLoc _ ll_knownDirectives s d hq
  · exact loc_vip s d hq
  · exact locs_of_localLoc _ ll_valuesOfCorrectType s d hq
  · exact loc_uniqueDirectives s d hq

/-- the same for whatever `validate` returns for a plan -/
theorem validate_locations (s : Schema) (d : Document) (hq : s.queryType.isSome = true) (plan : List RuleId) (errs : List Err)
    (h : validate s d plan = some errs) : ∀ x ∈ errs, ∀ p ∈ x.locs, p ∈ docPositions d := by
  rw [C03.no_panic s d hq plan] at h
  cases h
  intro x hx
  obtain ⟨r, _, hr⟩ := List.mem_flatMap.1 hx
  exact locations_in_document s d hq r x hr

/-- not vacuous: `{ zz }` against `type Query { a: Int }` gives an error located at the field,
    and that position is one of the two positions of the document -/
example :
    let s : Schema := [.type (.object 0 [] [⟨100, [], .named 6⟩]), .type (.scalar 6)]
    let d : Document := [.op ⟨.shorthand, ⟨1, 1⟩, none, [], [], [.field ⟨1, 3⟩ none 102 [] [] []]⟩]
    (errsOf .fieldsOnCorrectType s d).map (·.locs) = [[⟨1, 3⟩]] ∧ docPositions d = [⟨1, 1⟩, ⟨1, 3⟩] := by
  decide

end Gql.C13
