/-
  Thm/C11.lean — PROPERTY C11: the operation-level rules fire exactly when the spec condition
  is violated.
-/
import GqlVerif.Spec.Rules
import GqlVerif.Spec.Subscription
import GqlVerif.Lemmas.TraverseMem
import GqlVerif.Thm.C09
import GqlVerif.Thm.C19
import GqlVerif.Thm.C18
namespace Gql.C11
open Gql.Spec

/-! ### unique operation names -/

/-- the rule's step with its state type spelled out -/
def uonStep (s : Schema) (d : Document) (acc : List Name × List Err) (e : Ev × Snap) : List Name × List Err :=
  uniqueOperationNames.step s d acc e

/-- one step: an entered operation's name is appended -/
theorem uon_step (s : Schema) (d : Document) (σ : List Name) (errs : List Err) (e : Ev × Snap) :
    uonStep s d (σ, errs) e = (σ ++ ((enterOp? e.1).bind (·.name)).toList, errs) := by
  obtain ⟨ev, sn⟩ := e
  cases ev with
  | enter n =>
    cases n <;> simp [uonStep, Rule.step, uniqueOperationNames, enterOp?]
    next o => cases o.name <;> simp
  | leave n => simp [uonStep, Rule.step, uniqueOperationNames, enterOp?]

/-- the names the rule has seen after a trace -/
theorem uon_state (s : Schema) (d : Document) (tr : Trace) (σ : List Name) (errs : List Err) :
    tr.foldl (uonStep s d) (σ, errs)
      = (σ ++ ((tr.map Prod.fst).filterMap enterOp?).filterMap (·.name), errs) := by
  induction tr generalizing σ with
  | nil => simp
  | cons e tr ih =>
    rw [List.foldl_cons, uon_step, ih]
    simp only [List.map_cons, List.filterMap_cons]
    cases h : enterOp? e.1 with
    | none => simp
    | some o => cases h2 : o.name <;> simp [h2, List.append_assoc]

/-- 'unique operation names' reports iff two operations share a name -/
theorem uniqueOperationNames_iff (s : Schema) (d : Document) (hq : s.queryType.isSome = true) :
    fires .uniqueOperationNames s d ↔ DuplicateOperationName d := by
  unfold fires errsOf DuplicateOperationName
  have h := uon_state s d (walkOf s d) [] []
  rw [walkOf_events s d hq, filterMap_enterOp_document] at h
  have hrun : (ruleOf .uniqueOperationNames).runOn s d (walkOf s d)
      = (dupNames (d.operations.filterMap (·.name))).map fun n => (⟨.uniqueOperationNames, [], .uniqueOperationName n⟩ : Err) := by
    show (List.foldl (uonStep s d) ([], []) (walkOf s d)).2
      ++ uniqueOperationNames.finish s d (List.foldl (uonStep s d) ([], []) (walkOf s d)).1 = _
    rw [h]
    simp [uniqueOperationNames]
  rw [hrun, ne_eq, List.map_eq_nil_iff]
  exact C09.dupNames_ne_nil _

/-! ### lone anonymous operation -/

theorem loneAnonymous_iff (s : Schema) (d : Document) (hq : s.queryType.isSome = true) :
    fires .loneAnonymousOperation s d ↔ AnonymousNotAlone d := by
  unfold fires errsOf AnonymousNotAlone
  simp only [ruleOf, loneAnonymousOperation]
  rw [stateless_fires_iff]
  have key : ∀ d' : Document,
      (d'.operations.filterMap fun o =>
        if o.name.isNone && decide (d'.operations.length > 1) then
          some (⟨.loneAnonymousOperation, if o.kind == .shorthand then [] else [o.pos], .loneAnonymous⟩ : Err)
        else none) ≠ [] ↔ ((∃ o ∈ d'.operations, o.name = none) ∧ d'.operations.length > 1) := by
    intro d'
    rw [ne_eq, List.filterMap_eq_nil_iff]
    constructor
    · intro h
      refine Classical.byContradiction fun hc => h ?_
      intro o ho
      by_cases hn : o.name = none
      · by_cases hl : d'.operations.length > 1
        · exact absurd ⟨⟨o, ho, hn⟩, hl⟩ hc
        · simp [hl]
      · cases hname : o.name with
        | none => exact absurd hname hn
        | some x => simp
    · rintro ⟨⟨o, ho, hn⟩, hl⟩ h
      have := h o ho
      simp [hn, hl] at this
  constructor
  · rintro ⟨⟨ev, env⟩, hmem, hne⟩
    cases ev with
    | leave n => simp at hne
    | enter n =>
      cases n with
      | document d' =>
        have hd : d' = d := (enter_document_in_walk s d hq d').1 ⟨env, hmem⟩
        subst hd
        exact (key d').1 hne
      | _ => simp at hne
  · intro h
    obtain ⟨env, hmem⟩ := (enter_document_in_walk s d hq d).2 rfl
    exact ⟨(.enter (.document d), env), hmem, (key d).2 h⟩

/-! ### single field subscriptions -/

theorem groupKeys_mem (fs : List FieldNode) (g : Groups) (k : Name) :
    k ∈ alKeys (fs.foldl addField g) ↔ (k ∈ alKeys g ∨ ∃ f ∈ fs, f.responseKey = k) := by
  induction fs generalizing g with
  | nil => simp
  | cons f fs ih =>
    rw [List.foldl_cons, ih]
    have hk1 : k ∈ alKeys (addField g f) ↔ (k ∈ alKeys g ∨ f.responseKey = k) := by
      unfold addField
      rw [alKeys_alUpdate]
      by_cases hk : f.responseKey ∈ alKeys g
      · simp only [hk, if_true]
        exact ⟨fun h => Or.inl h, fun h => h.elim id (fun h' => h' ▸ hk)⟩
      · simp only [hk, if_false, List.mem_append, List.mem_singleton]
        exact ⟨fun h => h.elim Or.inl (fun h' => Or.inr h'.symm), fun h => h.elim Or.inl (fun h' => Or.inr h'.symm)⟩
    rw [hk1]
    simp only [List.mem_cons, exists_eq_or_imp]
    constructor
    · rintro ((h | h) | h)
      · exact Or.inl h
      · exact Or.inr (Or.inl h)
      · exact Or.inr (Or.inr h)
    · rintro (h | h | h)
      · exact Or.inl (Or.inl h)
      · exact Or.inl (Or.inr h)
      · exact Or.inr h

theorem groupKeys_nodup (fs : List FieldNode) (g : Groups) (hg : (alKeys g).Nodup) :
    (alKeys (fs.foldl addField g)).Nodup := by
  induction fs generalizing g with
  | nil => simpa
  | cons f fs ih =>
    rw [List.foldl_cons]
    apply ih
    unfold addField
    rw [alKeys_alUpdate]
    by_cases hk : f.responseKey ∈ alKeys g
    · simpa [hk] using hg
    · simp only [hk, if_false]
      rw [List.nodup_append]
      exact ⟨hg, by simp, by intro a ha b hb; simp at hb; subst hb; exact fun h => hk (h ▸ ha)⟩

/-- 'single field subscriptions' reports iff a subscription's root selection set — fragments
    expanded per CollectFields and grouped by response key — has more than one entry or selects
    an introspection field.  The root type is the one named by the schema definition or, absent
    one, the type named Subscription (`s.subscriptionType`, characterised in C18). -/
theorem singleFieldSubscriptions_iff (s : Schema) (d : Document) (hq : s.queryType.isSome = true)
    (hn : s.typeNames.Nodup) :
    fires .singleFieldSubscriptions s d ↔ SubscriptionNotSingleField s d := by
  unfold fires errsOf SubscriptionNotSingleField
  simp only [ruleOf, singleFieldSubscriptions]
  rw [stateless_fires_iff]
  -- the per-operation statement
  have key : ∀ (o : Operation) (R : TypeDef), s.subscriptionType = some R →
      (((if (collectFields s d R o.sel).groups.length > 1 then
          [(⟨.singleFieldSubscriptions, [o.pos], .subscriptionSingle o.name⟩ : Err)] else [])
        ++ ((collectFields s d R o.sel).groups.filter fun g => g.2.any fun f => f.name.dunder).map fun _ =>
            (⟨.singleFieldSubscriptions, [o.pos], .subscriptionIntrospection o.name⟩ : Err)) ≠ [] ↔
       ∃ fs vis, Collects s d R o.sel [] fs vis ∧
        ((∃ f ∈ fs, ∃ g ∈ fs, f.responseKey ≠ g.responseKey) ∨ ∃ f ∈ fs, f.name.dunder = true)) := by
    intro o R hR
    have hpar : ParentOk s R := by
      unfold Schema.subscriptionType at hR
      cases hsub : s.schemaDefinition.subscription with
      | none => simp [hsub] at hR
      | some nm =>
        simp only [hsub, Option.bind_some] at hR
        have := (C18.objectTypeByName_iff s hn nm R).1 hR
        exact ⟨hn, this.1, this.2.2⟩
    obtain ⟨fs, vis, hc, hg⟩ := C19.collect_sound s d R hpar o.sel
    have hkeys : ∀ k, k ∈ alKeys (groupFields fs) ↔ ∃ f ∈ fs, f.responseKey = k := by
      intro k; simpa [groupFields, alKeys] using groupKeys_mem fs [] k
    have hnd : (alKeys (groupFields fs)).Nodup := groupKeys_nodup fs [] (by simp [alKeys])
    have hlen : (groupFields fs).length > 1 ↔ ∃ f ∈ fs, ∃ g ∈ fs, f.responseKey ≠ g.responseKey := by
      have : (groupFields fs).length = (alKeys (groupFields fs)).length := by simp [alKeys]
      rw [this, gt_iff_lt, nodup_length_gt_one _ hnd]
      constructor
      · rintro ⟨a, ha, b, hb, hab⟩
        obtain ⟨f, hf, rfl⟩ := (hkeys a).1 ha
        obtain ⟨g, hg', rfl⟩ := (hkeys b).1 hb
        exact ⟨f, hf, g, hg', hab⟩
      · rintro ⟨f, hf, g, hg', hab⟩
        exact ⟨_, (hkeys _).2 ⟨f, hf, rfl⟩, _, (hkeys _).2 ⟨g, hg', rfl⟩, hab⟩
    have hintro : ((groupFields fs).filter fun g => g.2.any fun f => f.name.dunder) ≠ [] ↔ ∃ f ∈ fs, f.name.dunder = true := by
      rw [ne_eq, List.filter_eq_nil_iff]
      constructor
      · intro h
        refine Classical.byContradiction fun hc' => h ?_
        intro g hgm hany
        obtain ⟨k, l⟩ := g
        have hget := alGet_of_mem (groupFields fs) hnd k l hgm
        have hl : l = fs.filter (fun f => f.responseKey = k) := by
          have := C19.group_lookup fs k
          rw [hget] at this
          simpa using this
        obtain ⟨f, hf, hd⟩ := List.any_eq_true.1 hany
        rw [hl] at hf
        exact hc' ⟨f, (List.mem_filter.1 hf).1, hd⟩
      · rintro ⟨f, hf, hd⟩ h
        have hk : f.responseKey ∈ alKeys (groupFields fs) := (hkeys _).2 ⟨f, hf, rfl⟩
        obtain ⟨g, hgm, hgk⟩ := List.mem_map.1 hk
        obtain ⟨k, l⟩ := g
        simp only at hgk
        subst hgk
        have hget := alGet_of_mem (groupFields fs) hnd _ l hgm
        have hl : l = fs.filter (fun f' => f'.responseKey = f.responseKey) := by
          have := C19.group_lookup fs f.responseKey
          rw [hget] at this
          simpa using this
        apply h _ hgm
        rw [List.any_eq_true]
        exact ⟨f, by rw [hl]; simp [hf], hd⟩
    rw [hg]
    constructor
    · intro hne
      refine ⟨fs, vis, hc, ?_⟩
      by_cases h1 : (groupFields fs).length > 1
      · exact Or.inl (hlen.1 h1)
      · right
        apply hintro.1
        intro hnil
        apply hne
        simp [h1, hnil]
    · rintro ⟨fs', vis', hc', hcond⟩
      obtain ⟨rfl, _⟩ := C19.collects_functional s d R hc hc'
      rcases hcond with h | h
      · simp [hlen.2 h]
      · have := hintro.2 h
        intro hnil
        have h2 := (List.append_eq_nil_iff.1 hnil).2
        exact this (List.map_eq_nil_iff.1 h2)
  constructor
  · rintro ⟨⟨ev, env⟩, hmem, hne⟩
    cases ev with
    | leave n => simp at hne
    | enter n =>
      cases n with
      | operation o =>
        simp only at hne
        by_cases hk : o.kind = .subscription
        · simp only [hk, beq_self_eq_true, if_true] at hne
          cases hR : s.subscriptionType with
          | none => simp [hR] at hne
          | some R =>
            simp only [hR] at hne
            exact ⟨o, (enter_operation_in_walk s d hq o).1 ⟨env, hmem⟩, hk, R, rfl, (key o R hR).1 hne⟩
        · have : (o.kind == OpKind.subscription) = false := by simpa using hk
          simp [this] at hne
      | _ => simp at hne
  · rintro ⟨o, ho, hk, R, hR, hspec⟩
    obtain ⟨env, hmem⟩ := (enter_operation_in_walk s d hq o).2 ho
    refine ⟨(.enter (.operation o), env), hmem, ?_⟩
    simp only [hk, beq_self_eq_true, if_true, hR]
    exact (key o R hR).2 hspec

theorem codes_C11 (s : Schema) (d : Document) :
    (∀ e ∈ errsOf .uniqueOperationNames s d, e.code = .uniqueOperationNames) ∧
    (∀ e ∈ errsOf .loneAnonymousOperation s d, e.code = .loneAnonymousOperation) ∧
    (∀ e ∈ errsOf .singleFieldSubscriptions s d, e.code = .singleFieldSubscriptions) :=
  ⟨C13.codes s d _ _, C13.codes s d _ _, C13.codes s d _ _⟩

/-! Non-vacuity: implicit `Subscription` root (regression witness of the repaired F2/F3) -/
def exSchema : Schema :=
  [ .type (.object 0 [] [⟨20, [], .named 6⟩]), .type (.object 4 [] [⟨22, [], .named 6⟩, ⟨24, [], .named 6⟩]), .type (.scalar 6) ]
def sub (sel : List Selection) : Document := [.op ⟨.subscription, ⟨1, 1⟩, none, [], [], sel⟩]
def fld (alias : Option Name) (n : Name) : Selection := .field ⟨1, 2⟩ alias n [] [] []

example : ¬ fires .singleFieldSubscriptions exSchema (sub [fld none 22]) := by decide
example : fires .singleFieldSubscriptions exSchema (sub [fld none 22, fld none 24]) := by decide
example : fires .singleFieldSubscriptions exSchema (sub [fld (some 26) 22, fld (some 28) 22]) := by decide   -- a: s1 b: s1
example : ¬ fires .singleFieldSubscriptions exSchema (sub [fld (some 26) 22, fld (some 26) 22]) := by decide -- a: s1 a: s1
example : fires .singleFieldSubscriptions exSchema (sub [fld none 1]) := by decide                           -- __typename
example : fires .uniqueOperationNames exSchema
    [.op ⟨.query, ⟨1, 1⟩, some 30, [], [], [fld none 20]⟩, .op ⟨.query, ⟨2, 1⟩, some 30, [], [], [fld none 20]⟩] := by decide
example : fires .loneAnonymousOperation exSchema
    [.op ⟨.shorthand, ⟨0, 0⟩, none, [], [], [fld none 20]⟩, .op ⟨.query, ⟨2, 1⟩, some 30, [], [], [fld none 20]⟩] := by decide

end Gql.C11
