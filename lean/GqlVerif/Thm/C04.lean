/-
  Thm/C04.lean — PROPERTY C04: the field-selection rules fire exactly when the spec condition
  is violated, and every error carries the reporting rule's code.
-/
import GqlVerif.Spec.Rules
import GqlVerif.Lemmas.TraverseMem
import GqlVerif.Thm.C13
namespace Gql.C04
open Gql.Spec

/-- 'fields on correct type' reports iff some selected non-meta field is not defined on the
    schema-known type of its selection set, or `__typename` sits directly at a subscription root
    (the extra report the property statement allows). -/
theorem fieldsOnCorrectType_iff (s : Schema) (d : Document) (hq : s.queryType.isSome = true) :
    fires .fieldsOnCorrectType s d ↔ (UndefinedFieldSelected s d ∨ TypenameAtSubscriptionRoot d) := by
  unfold fires errsOf
  simp only [ruleOf, fieldsOnCorrectType]
  rw [stateless_fires_iff]
  constructor
  · rintro ⟨⟨ev, env⟩, hmem, hne⟩
    cases ev with
    | leave n => simp at hne
    | enter n =>
      cases n with
      | operation o =>
        right
        simp only [] at hne
        split at hne
        · next hk =>
          refine ⟨o, (enter_operation_in_walk s d hq o).1 ⟨env, hmem⟩, by simpa using hk, ?_⟩
          intro h; simp [h] at hne
        · simp at hne
      | field f =>
        left
        simp only [] at hne
        cases hp : env.parent with
        | none => simp [hp] at hne
        | some P =>
          simp only [hp] at hne
          refine ⟨f, env, P, hmem, hp, ?_, ?_⟩
          · intro hmeta
            rcases hmeta with h | ⟨h1, h2⟩
            · simp [h] at hne
            · split at hne
              · simp at hne
              · next hn =>
                rcases h1 with h1 | h1 <;> simp [h1, h2, queryRootName, nSchemaField, nTypeField, nTypename] at hne
          · repeat' split at hne
            all_goals first | (simp at hne; done) | (exact Option.isNone_iff_eq_none.1 ‹_›)
      | _ => simp at hne
  · rintro (⟨f, env, P, hmem, hp, hmeta, hundef⟩ | ⟨o, ho, hk, hne⟩)
    · refine ⟨(.enter (.field f), env), hmem, ?_⟩
      simp only [hp]
      have h1 : ¬ f.name = nTypename := fun h => hmeta (Or.inl h)
      have h2 : ¬ ((f.name == nSchemaField || f.name == nTypeField) && P.name == s.schemaDefinition.query.getD nQuery) = true := by
        intro h
        simp only [Bool.and_eq_true, Bool.or_eq_true, beq_iff_eq] at h
        exact hmeta (Or.inr ⟨h.1, h.2⟩)
      simp [h1, h2, hundef]
    · obtain ⟨env, hmem⟩ := (enter_operation_in_walk s d hq o).2 ho
      refine ⟨(.enter (.operation o), env), hmem, ?_⟩
      simp only [hk]
      simpa using hne

/-- 'leaf field selections' reports iff a field of scalar/enum type has a sub-selection or a
    field whose (known) type is not a leaf type lacks one. -/
theorem leafFieldSelections_iff (s : Schema) (d : Document) :
    fires .leafFieldSelections s d ↔ LeafSelectionViolated s d := by
  unfold fires errsOf
  simp only [ruleOf, leafFieldSelections]
  rw [stateless_fires_iff]
  constructor
  · rintro ⟨⟨ev, env⟩, hmem, hne⟩
    cases ev with
    | leave n => simp at hne
    | enter n =>
      cases n with
      | field f =>
        simp only [] at hne
        cases hc : env.cur with
        | none => simp [hc] at hne
        | some t =>
          cases hl : env.curLit with
          | none => simp [hc, hl] at hne
          | some lit =>
            simp only [hc, hl] at hne
            refine ⟨f, env, t, hmem, hc, by simp [hl], ?_⟩
            cases hleaf : t.isLeaf
            · right
              refine ⟨rfl, ?_⟩
              simp only [hleaf, Bool.false_eq_true, if_false] at hne
              split at hne
              · next h => simpa using h
              · simp at hne
            · left
              refine ⟨rfl, ?_⟩
              simp only [hleaf, if_true] at hne
              split at hne
              · next h => intro hnil; simp [hnil] at h
              · simp at hne
      | _ => simp at hne
  · rintro ⟨f, env, t, hmem, hc, hl, hcases⟩
    refine ⟨(.enter (.field f), env), hmem, ?_⟩
    obtain ⟨lit, hlit⟩ := Option.isSome_iff_exists.1 hl
    simp only [hc, hlit]
    rcases hcases with ⟨h1, h2⟩ | ⟨h1, h2⟩
    · have : f.sel.length > 0 := List.length_pos_iff.2 h2
      simp [h1, this]
    · simp [h1, h2]

/-- every error carries the reporting rule's own code -/
theorem codes_C04 (s : Schema) (d : Document) :
    (∀ e ∈ errsOf .fieldsOnCorrectType s d, e.code = .fieldsOnCorrectType) ∧
    (∀ e ∈ errsOf .leafFieldSelections s d, e.code = .leafFieldSelections) :=
  ⟨C13.codes s d _ _, C13.codes s d _ _⟩

/-! ### Non-vacuity: a schema and documents on both sides, decided by evaluation -/
/-- `type Query { t: T  a: Int }  type T { a: Int }  scalar Int`; ids Query=0 Int=6 T=20 t=22 a=24 zz=26 -/
def exSchema : Schema :=
  [ .type (.object 0 [] [⟨22, [], .named 20⟩, ⟨24, [], .named 6⟩]), .type (.object 20 [] [⟨24, [], .named 6⟩]), .type (.scalar 6) ]
def q (sel : List Selection) : Document := [.op ⟨.shorthand, ⟨0, 0⟩, none, [], [], sel⟩]
def fld (n : Name) (sel : List Selection) : Selection := .field ⟨1, 1⟩ none n [] [] sel

example : exSchema.queryType.isSome = true := by decide
example : ¬ fires .fieldsOnCorrectType exSchema (q [fld 22 [fld 24 [], fld 1 []]]) := by decide   -- { t { a __typename } }
example : fires .fieldsOnCorrectType exSchema (q [fld 22 [fld 26 []]]) := by decide                -- { t { zz } }
example : fires .fieldsOnCorrectType exSchema (q [fld 22 [fld 3 []]]) := by decide                 -- { t { __schema } }
example : ¬ fires .fieldsOnCorrectType exSchema (q [fld 3 []]) := by decide                        -- { __schema }
example : fires .leafFieldSelections exSchema (q [fld 22 []]) := by decide                         -- { t }
example : fires .leafFieldSelections exSchema (q [fld 24 [fld 24 []]]) := by decide                -- { a { a } }
example : ¬ fires .leafFieldSelections exSchema (q [fld 22 [fld 24 []]]) := by decide              -- { t { a } }

end Gql.C04
