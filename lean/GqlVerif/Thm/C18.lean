/-
  Thm/C18.lean — PROPERTY C18: type-system and value helpers agree with the specification's
  definitions.
-/
import GqlVerif.Spec.TypeSystem
import GqlVerif.Lemmas.Schema
namespace Gql.C18

/-! ### Structural value comparison is tree equality -/
mutual
theorem compare_eq : ∀ a b : Value, Value.compare a b = true → a = b
  | .null, b => by cases b <;> simp [Value.compare]
  | .bool x, b => by cases b <;> simp [Value.compare]
  | .int x, b => by cases b <;> simp [Value.compare]
  | .float x, b => by cases b <;> simp [Value.compare]
  | .str x, b => by cases b <;> simp [Value.compare]
  | .enum x, b => by cases b <;> simp [Value.compare]
  | .var x, b => by cases b <;> simp [Value.compare]
  | .list xs, b => by
      cases b <;> simp [Value.compare]
      exact compareList_eq xs _
  | .obj xs, b => by
      cases b <;> simp [Value.compare]
      exact compareFields_eq xs _
theorem compareList_eq : ∀ a b : List Value, Value.compareList a b = true → a = b
  | [], b => by cases b <;> simp [Value.compareList]
  | x :: xs, b => by
      cases b with
      | nil => simp [Value.compareList]
      | cons y ys =>
        simp only [Value.compareList, Bool.and_eq_true, List.cons.injEq]
        exact fun h => ⟨compare_eq x y h.1, compareList_eq xs ys h.2⟩
theorem compareFields_eq : ∀ a b : List (Name × Value), Value.compareFields a b = true → a = b
  | [], b => by cases b <;> simp [Value.compareFields]
  | (k, x) :: xs, b => by
      cases b with
      | nil => simp [Value.compareFields]
      | cons y ys =>
        obtain ⟨k', y⟩ := y
        simp only [Value.compareFields, Bool.and_eq_true, beq_iff_eq, List.cons.injEq, Prod.mk.injEq]
        exact fun h => ⟨⟨h.1.1, compare_eq x y h.1.2⟩, compareFields_eq xs ys h.2⟩
end

mutual
theorem compare_refl : ∀ a : Value, Value.compare a a = true
  | .null | .bool _ | .int _ | .float _ | .str _ | .enum _ | .var _ => by simp [Value.compare]
  | .list xs => by simp [Value.compare, compareList_refl xs]
  | .obj xs => by simp [Value.compare, compareFields_refl xs]
theorem compareList_refl : ∀ a : List Value, Value.compareList a a = true
  | [] => by simp [Value.compareList]
  | x :: xs => by simp [Value.compareList, compare_refl x, compareList_refl xs]
theorem compareFields_refl : ∀ a : List (Name × Value), Value.compareFields a a = true
  | [] => by simp [Value.compareFields]
  | (k, x) :: xs => by simp [Value.compareFields, compare_refl x, compareFields_refl xs]
end

/-- `compare` is true iff the two values are equal as trees (same list lengths, same object keys). -/
theorem compare_iff_eq (a b : Value) : Value.compare a b = true ↔ a = b :=
  ⟨compare_eq a b, fun h => h ▸ compare_refl a⟩

instance : DecidableEq Value := fun a b => decidable_of_iff _ (compare_iff_eq a b)

example : Value.list [.int 1] ≠ Value.list [.int 1, .int 2] := by decide
example : Value.obj [(20, .int 1)] ≠ Value.obj [(22, .int 1)] := by decide

/-! ### A value's variables are exactly its variable leaves -/
mutual
theorem mem_variablesInUse (n : Name) : ∀ v : Value, n ∈ v.variablesInUse ↔ VarLeaf n v
  | .var m => by
      simp only [Value.variablesInUse, List.mem_singleton]
      constructor
      · rintro rfl; exact .var
      · intro h; cases h; rfl
  | .null | .bool _ | .int _ | .float _ | .str _ | .enum _ => by
      simp only [Value.variablesInUse, List.not_mem_nil, false_iff]; intro h; cases h
  | .list vs => by
      simp only [Value.variablesInUse, mem_variablesInUseList n vs]
      constructor
      · rintro ⟨v, hv, hl⟩; exact .list hv hl
      · intro h; cases h with | list hv hl => exact ⟨_, hv, hl⟩
  | .obj fs => by
      simp only [Value.variablesInUse, mem_variablesInUseFields n fs]
      constructor
      · rintro ⟨k, v, hv, hl⟩; exact .obj hv hl
      · intro h; cases h with | obj hv hl => exact ⟨_, _, hv, hl⟩
theorem mem_variablesInUseList (n : Name) :
    ∀ vs : List Value, n ∈ Value.variablesInUseList vs ↔ ∃ v, v ∈ vs ∧ VarLeaf n v
  | [] => by simp [Value.variablesInUseList]
  | v :: vs => by
      simp [Value.variablesInUseList, mem_variablesInUse n v, mem_variablesInUseList n vs]
theorem mem_variablesInUseFields (n : Name) :
    ∀ fs : List (Name × Value), n ∈ Value.variablesInUseFields fs ↔ ∃ k v, (k, v) ∈ fs ∧ VarLeaf n v
  | [] => by simp [Value.variablesInUseFields]
  | (k, v) :: fs => by
      simp only [Value.variablesInUseFields, List.mem_append, mem_variablesInUse n v,
        mem_variablesInUseFields n fs, List.mem_cons, Prod.mk.injEq]
      constructor
      · rintro (h | ⟨k', v', h1, h2⟩)
        · exact ⟨k, v, Or.inl ⟨rfl, rfl⟩, h⟩
        · exact ⟨k', v', Or.inr h1, h2⟩
      · rintro ⟨k', v', (⟨rfl, rfl⟩ | h1), h2⟩
        · exact Or.inl h2
        · exact Or.inr ⟨k', v', h1, h2⟩
end

/-- An input value is required iff it is non-null without default. -/
theorem isRequired_iff (d : InputValueDef) :
    d.isRequired = true ↔ (∃ t, d.ty = .nonNull t) ∧ d.default = none := by
  unfold InputValueDef.isRequired
  cases d.ty <;> simp [Option.isNone_iff_eq_none]

end Gql.C18

namespace Gql.C18

/-! ### Subtyping -/

theorem isPossibleType_iff (tb ta : TypeDef) :
    isPossibleType tb ta = true ↔
      ((∃ n ms, tb = .union n ms ∧ ta.name ∈ ms) ∨ (∃ n is fs, tb = .interface n is fs ∧ n ∈ ta.interfaces)) := by
  cases tb with
  | union n ms =>
    simp only [isPossibleType, List.any_eq_true, beq_iff_eq]
    constructor
    · rintro ⟨x, hx, rfl⟩; exact Or.inl ⟨n, ms, rfl, hx⟩
    · rintro (⟨n', ms', h, hm⟩ | ⟨n', is, fs, h, _⟩)
      · cases h; exact ⟨_, hm, rfl⟩
      · cases h
  | interface n is fs =>
    simp only [isPossibleType, List.contains_eq_mem, decide_eq_true_eq]
    constructor
    · intro h; exact Or.inr ⟨n, is, fs, rfl, h⟩
    · rintro (⟨n', ms', h, _⟩ | ⟨n', is', fs', h, hm⟩)
      · cases h
      · cases h; exact hm
  | scalar _ | object _ _ _ | enum _ _ | inputObject _ _ => simp [isPossibleType]

theorem namedCheck_iff (s : Schema) (a b : Name) :
    s.namedSubtypeCheck a b = true ↔ NamedSub s a b := by
  unfold NamedSub Schema.namedSubtypeCheck
  cases ha : s.typeByName a with
  | none => simp
  | some ta =>
    cases hb : s.typeByName b with
    | none => simp
    | some tb =>
      simp only [Bool.and_eq_true, Bool.or_eq_true, isPossibleType_iff, Option.some.injEq]
      constructor
      · rintro ⟨⟨h1, h2⟩, h3⟩; exact ⟨ta, tb, rfl, rfl, h1, h2, h3⟩
      · rintro ⟨ta', tb', rfl, rfl, h1, h2, h3⟩; exact ⟨⟨h1, h2⟩, h3⟩

theorem isSubtype_named (s : Schema) (a : Name) (sup : Ty) :
    s.isSubtype (.named a) sup =
      if Ty.named a = sup then true else
      match sup with
      | .named b => s.namedSubtypeCheck a b
      | _ => false := by
  rw [Schema.isSubtype.eq_def]
  cases sup <;> simp

theorem isSubtype_list (s : Schema) (t : Ty) (sup : Ty) :
    s.isSubtype (.list t) sup =
      if Ty.list t = sup then true else
      match sup with
      | .list t' => s.isSubtype t t'
      | _ => false := by
  rw [Schema.isSubtype.eq_def]
  cases sup <;> simp

theorem isSubtype_nonNull (s : Schema) (t : Ty) (sup : Ty) :
    s.isSubtype (.nonNull t) sup =
      if Ty.nonNull t = sup then true else
      match sup with
      | .nonNull t' => s.isSubtype t t'
      | sup => s.isSubtype t sup := by
  rw [Schema.isSubtype.eq_def]
  cases sup <;> simp

theorem isSubtype_sound (s : Schema) : ∀ sub sup, s.isSubtype sub sup = true → Subtype s sub sup := by
  intro sub
  induction sub with
  | named a =>
    intro sup h
    rw [isSubtype_named] at h
    split at h
    · next heq => subst heq; exact .refl _
    · cases sup with
      | named b => exact .named ((namedCheck_iff s a b).1 h)
      | list t => simp at h
      | nonNull t => simp at h
  | list t ih =>
    intro sup h
    rw [isSubtype_list] at h
    split at h
    · next heq => subst heq; exact .refl _
    · cases sup with
      | named b => simp at h
      | list t' => exact .list (ih t' h)
      | nonNull t' => simp at h
  | nonNull t ih =>
    intro sup h
    rw [isSubtype_nonNull] at h
    split at h
    · next heq => subst heq; exact .refl _
    · cases sup with
      | named b => exact .strengthen rfl (ih _ h)
      | list t' => exact .strengthen rfl (ih _ h)
      | nonNull t' => exact .nonNull (ih t' h)

theorem isSubtype_complete (s : Schema) {sub sup : Ty} (h : Subtype s sub sup) :
    s.isSubtype sub sup = true := by
  induction h with
  | refl t => cases t <;> simp [isSubtype_named, isSubtype_list, isSubtype_nonNull]
  | nonNull _ ih => rw [isSubtype_nonNull]; split <;> simp [ih]
  | @strengthen a b hb _ ih =>
    rw [isSubtype_nonNull]
    split
    · rfl
    · cases b with
      | named n => exact ih
      | list t => exact ih
      | nonNull t => simp [Ty.isNonNull] at hb
  | list _ ih => rw [isSubtype_list]; split <;> simp [ih]
  | @named a b hn =>
    rw [isSubtype_named]
    split
    · rfl
    · exact (namedCheck_iff s a b).2 hn

/-- `is_subtype` decides the spec's subtype relation. -/
theorem isSubtype_iff (s : Schema) (sub sup : Ty) : s.isSubtype sub sup = true ↔ Subtype s sub sup :=
  ⟨isSubtype_sound s sub sup, isSubtype_complete s⟩

theorem subtype_refl (s : Schema) (t : Ty) : s.isSubtype t t = true := isSubtype_complete s (.refl t)

end Gql.C18

namespace Gql.C18

/-! ### Name lookups return the definition with that name iff one exists -/

theorem typeByName_spec (s : Schema) (n : Name) :
    (∀ t, s.typeByName n = some t → SDef.type t ∈ s ∧ t.name = n) ∧
    (s.typeByName n = none ↔ ¬ ∃ t, SDef.type t ∈ s ∧ t.name = n) := by
  refine ⟨fun t h => typeByName_some h, ?_⟩
  rw [← typeByName_isSome_iff]
  cases s.typeByName n <;> simp

theorem directiveByName_spec (s : Schema) (n : Name) :
    (∀ d, s.directiveByName n = some d → SDef.directive d ∈ s ∧ d.name = n) ∧
    (s.directiveByName n = none ↔ ¬ ∃ d, SDef.directive d ∈ s ∧ d.name = n) := by
  refine ⟨fun t h => directiveByName_some h, ?_⟩
  rw [← directiveByName_isSome_iff]
  cases s.directiveByName n <;> simp

/-- with unique names the lookup is the inverse of "is defined in the schema" -/
theorem typeByName_iff_mem (s : Schema) (hn : s.typeNames.Nodup) (n : Name) (t : TypeDef) :
    s.typeByName n = some t ↔ SDef.type t ∈ s ∧ t.name = n :=
  ⟨typeByName_some, fun ⟨h1, h2⟩ => h2 ▸ typeByName_of_mem hn h1⟩

theorem objectTypeByName_iff (s : Schema) (hn : s.typeNames.Nodup) (n : Name) (t : TypeDef) :
    s.objectTypeByName n = some t ↔ SDef.type t ∈ s ∧ t.name = n ∧ t.isObject = true := by
  unfold Schema.objectTypeByName
  constructor
  · intro h
    cases h1 : s.typeByName n with
    | none => simp [h1] at h
    | some t' =>
      have := typeByName_some h1
      cases t' <;> simp [h1] at h
      subst h; exact ⟨this.1, this.2, rfl⟩
  · rintro ⟨h1, h2, h3⟩
    rw [(typeByName_iff_mem s hn n t).2 ⟨h1, h2⟩]
    cases t <;> simp [TypeDef.isObject] at h3 ⊢

/-- `type_map()` agrees with `type_by_name` when names are unique -/
theorem typeMapGet_eq_typeByName (s : Schema) (hn : s.typeNames.Nodup) (n : Name) :
    s.typeMapGet n = s.typeByName n := by
  unfold Schema.typeMapGet
  cases h : s.typeByName n with
  | some t =>
    have ⟨hm, hname⟩ := typeByName_some h
    rw [List.find?_eq_some_iff_append]
    have hmem : t ∈ s.types.reverse := by simpa using (mem_types_iff s t).2 hm
    obtain ⟨as, bs, hsplit⟩ := List.append_of_mem hmem
    refine ⟨by simpa using hname, as, bs, hsplit, ?_⟩
    intro x hx
    simp only [Bool.not_eq_eq_eq_not, Bool.not_true, beq_eq_false_iff_ne, ne_eq]
    intro hxn
    have hnd : (s.types.reverse.map (·.name)).Nodup := by
      rw [List.map_reverse]; exact hn.perm (List.reverse_perm _).symm
    rw [hsplit] at hnd
    simp only [List.map_append, List.map_cons] at hnd
    have := (List.nodup_append.1 hnd).2.2 x.name (List.mem_map.2 ⟨x, hx, rfl⟩) t.name (by simp)
    exact this (hxn.trans hname.symm)
  | none =>
    rw [List.find?_eq_none]
    intro x hx
    have hx' : SDef.type x ∈ s := (mem_types_iff s x).1 (by simpa using hx)
    have := (typeByName_spec s n).2.1 h
    simp only [beq_iff_eq]
    intro hxn
    exact this ⟨x, hx', hxn⟩

/-! ### Root operation types -/

/-- Roots resolve to the schema definition's entries or else to the types named
    Query/Mutation/Subscription (object types only). -/
theorem rootTypes_spec (s : Schema) :
    let sd := s.explicitSchemaDef.getD defaultSchemaDef
    s.queryType = s.objectTypeByName (sd.query.getD nQuery) ∧
    s.mutationType = sd.mutation.bind s.objectTypeByName ∧
    s.subscriptionType = sd.subscription.bind s.objectTypeByName ∧
    (s.explicitSchemaDef = none →
      s.queryType = s.objectTypeByName nQuery ∧ s.mutationType = s.objectTypeByName nMutation ∧
      s.subscriptionType = s.objectTypeByName nSubscription) := by
  refine ⟨rfl, rfl, rfl, ?_⟩
  intro h
  simp [Schema.queryType, Schema.mutationType, Schema.subscriptionType, Schema.schemaDefinition, h,
    defaultSchemaDef]

/-- `explicitSchemaDef` is the first schema definition of the document, if any -/
theorem explicitSchemaDef_none_iff (s : Schema) :
    s.explicitSchemaDef = none ↔ ∀ d, SDef.schema d ∉ s := by
  induction s with
  | nil => simp [Schema.explicitSchemaDef]
  | cons x rest ih =>
    cases x with
    | schema d =>
      simp only [Schema.explicitSchemaDef, reduceCtorEq, false_iff]
      intro h; exact h d (by simp)
    | type _ | directive _ | ext => simp [Schema.explicitSchemaDef, ih]

/-! ### Possible types and overlap -/

theorem any_eq_iff_mem (x : Name) (l : List Name) : (l.any fun v => x == v) = true ↔ x ∈ l := by
  simp only [List.any_eq_true, beq_iff_eq]
  exact ⟨fun ⟨v, hv, h⟩ => h ▸ hv, fun h => ⟨x, h, rfl⟩⟩

theorem hasConcreteSubType_iff (t o : TypeDef) :
    t.hasConcreteSubType o = true ↔
      match t with
      | .interface n _ _ => n ∈ o.interfaces
      | .union _ ms => o.name ∈ ms
      | _ => False := by
  cases t <;> simp only [TypeDef.hasConcreteSubType, isImplementedBy, any_eq_iff_mem] <;> simp

theorem hasSubType_iff (t o : TypeDef) :
    t.hasSubType o = true ↔
      match t with
      | .interface n _ _ => n ∈ o.interfaces
      | .union _ ms => o.name ∈ ms
      | _ => False := by
  cases t <;> simp only [TypeDef.hasSubType, isImplementedBy, any_eq_iff_mem] <;> simp

/-- The possible types of an interface are exactly its implementing objects, of a union exactly
    its member objects (unique type names). -/
theorem mem_possibleTypes_iff (s : Schema) (hn : s.typeNames.Nodup) (t o : TypeDef)
    (ht : t.isAbstract = true) : o ∈ t.possibleTypes s ↔ Possible s t o := by
  cases t with
  | interface n is fs =>
    simp only [TypeDef.possibleTypes, typeMapEntries_of_nodup hn, List.mem_filter, mem_types_iff,
      Bool.and_eq_true, isImplementedBy, any_eq_iff_mem, Possible]
    constructor
    · rintro ⟨h1, h2, h3⟩; exact ⟨h2, h1, h3⟩
    · rintro ⟨h1, h2, h3⟩; exact ⟨h2, h1, h3⟩
  | union n ms =>
    simp only [TypeDef.possibleTypes, List.mem_filterMap, Possible]
    constructor
    · rintro ⟨m, hm, h⟩
      cases h1 : s.typeByName m with
      | none => simp [h1] at h
      | some t' =>
        have ⟨h2, h3⟩ := typeByName_some h1
        cases t' <;> simp [h1] at h
        subst h
        simp only [TypeDef.name] at h3
        exact ⟨rfl, h2, by simpa [TypeDef.name, h3] using hm⟩
    · rintro ⟨h1, h2, h3⟩
      refine ⟨o.name, h3, ?_⟩
      rw [typeByName_of_mem hn h2]
      cases o <;> simp [TypeDef.isObject] at h1 ⊢
  | scalar _ | object _ _ _ | enum _ _ | inputObject _ _ => simp [TypeDef.isAbstract] at ht

/-- Two composite types of the schema overlap iff they are the same type or their sets of
    possible object types intersect. -/
theorem doTypesOverlap_iff (s : Schema) (hn : s.typeNames.Nodup) (t1 t2 : TypeDef)
    (h1 : SDef.type t1 ∈ s) (h2 : SDef.type t2 ∈ s)
    (hc1 : t1.isComposite = true) (hc2 : t2.isComposite = true) :
    doTypesOverlap s t1 t2 = true ↔ (t1.name = t2.name ∨ ∃ o, Possible s t1 o ∧ Possible s t2 o) := by
  unfold doTypesOverlap
  by_cases hname : t1.name = t2.name
  · simp [hname]
  · simp only [beq_iff_eq, hname, if_false, false_or]
    -- an object type's only possible type is itself
    have hobj : ∀ (t : TypeDef), SDef.type t ∈ s → t.isObject = true → ∀ o, Possible s t o ↔ o = t := by
      intro t ht hto o
      cases t <;> simp [TypeDef.isObject] at hto
      simp only [Possible]
      constructor
      · rintro ⟨_, ho, hnm⟩
        have e1 := typeByName_of_mem hn ho
        have e2 := typeByName_of_mem hn ht
        rw [hnm] at e1
        simp only [TypeDef.name] at e2
        rw [e2] at e1
        exact (Option.some.inj e1).symm
      · rintro rfl; exact ⟨rfl, ht, rfl⟩
    by_cases ha1 : t1.isAbstract = true
    · by_cases ha2 : t2.isAbstract = true
      · simp only [ha1, ha2, if_true, gt_iff_lt, decide_eq_true_eq]
        rw [List.length_pos_iff_exists_mem]
        simp only [List.mem_filter, mem_possibleTypes_iff s hn t1 _ ha1, hasConcreteSubType_iff]
        constructor
        · rintro ⟨o, ⟨hp, hc⟩⟩
          refine ⟨o, hp, hp.1, hp.2.1, ?_⟩
          cases t2 <;> simp_all [TypeDef.isAbstract]
        · rintro ⟨o, hp1, hp2⟩
          refine ⟨o, hp1, ?_⟩
          cases t2 <;> simp_all [TypeDef.isAbstract, Possible]
      · have ho2 : t2.isObject = true := by cases t2 <;> simp_all [TypeDef.isAbstract, TypeDef.isComposite, TypeDef.isObject]
        simp only [ha1, ha2, if_true, Bool.false_eq_true, if_false, hasSubType_iff]
        constructor
        · intro h
          refine ⟨t2, ⟨ho2, h2, ?_⟩, (hobj t2 h2 ho2 t2).2 rfl⟩
          cases t1 <;> simp_all [TypeDef.isAbstract]
        · rintro ⟨o, hp1, hp2⟩
          have := (hobj t2 h2 ho2 o).1 hp2
          subst this
          cases t1 <;> simp_all [TypeDef.isAbstract, Possible]
    · have ho1 : t1.isObject = true := by cases t1 <;> simp_all [TypeDef.isAbstract, TypeDef.isComposite, TypeDef.isObject]
      by_cases ha2 : t2.isAbstract = true
      · simp only [ha1, ha2, if_true, Bool.false_eq_true, if_false, hasSubType_iff]
        constructor
        · intro h
          refine ⟨t1, (hobj t1 h1 ho1 t1).2 rfl, ho1, h1, ?_⟩
          cases t2 <;> simp_all [TypeDef.isAbstract]
        · rintro ⟨o, hp1, hp2⟩
          have := (hobj t1 h1 ho1 o).1 hp1
          subst this
          cases t2 <;> simp_all [TypeDef.isAbstract, Possible]
      · have ho2 : t2.isObject = true := by cases t2 <;> simp_all [TypeDef.isAbstract, TypeDef.isComposite, TypeDef.isObject]
        simp only [ha1, ha2, Bool.false_eq_true, if_false, false_iff, not_exists, not_and]
        intro o hp1 hp2
        have e1 := (hobj t1 h1 ho1 o).1 hp1
        have e2 := (hobj t2 h2 ho2 o).1 hp2
        exact hname (by rw [← e1, e2])

/-- Overlap is symmetric. -/
theorem doTypesOverlap_comm (s : Schema) (hn : s.typeNames.Nodup) (t1 t2 : TypeDef)
    (h1 : SDef.type t1 ∈ s) (h2 : SDef.type t2 ∈ s)
    (hc1 : t1.isComposite = true) (hc2 : t2.isComposite = true) :
    doTypesOverlap s t1 t2 = doTypesOverlap s t2 t1 := by
  have a := doTypesOverlap_iff s hn t1 t2 h1 h2 hc1 hc2
  have b := doTypesOverlap_iff s hn t2 t1 h2 h1 hc2 hc1
  have : (t1.name = t2.name ∨ ∃ o, Possible s t1 o ∧ Possible s t2 o) ↔
      (t2.name = t1.name ∨ ∃ o, Possible s t2 o ∧ Possible s t1 o) := by
    constructor
    · rintro (h | ⟨o, p, q⟩); exact Or.inl h.symm; exact Or.inr ⟨o, q, p⟩
    · rintro (h | ⟨o, p, q⟩); exact Or.inl h.symm; exact Or.inr ⟨o, q, p⟩
  cases hx : doTypesOverlap s t1 t2 <;> cases hy : doTypesOverlap s t2 t1
  · rfl
  · exact absurd (a.2 (this.2 (b.1 hy))) (by simp [hx])
  · exact absurd (b.2 (this.1 (a.1 hx))) (by simp [hy])
  · rfl

end Gql.C18

namespace Gql.C18

/-! ### Transitivity (needs a well-formed schema: union members are objects, and an implementer
    lists the interfaces of its interfaces) -/

theorem wf_parts {s : Schema} (h : s.WF = true) :
    s.typeNames.Nodup ∧ (∀ t ∈ s.types, t.refsOk s = true ∧ s.interfacesClosed t = true) := by
  simp only [Schema.WF, Bool.and_eq_true, List.all_eq_true, decide_eq_true_eq] at h
  exact ⟨h.1.1.1.1.1, fun t ht => h.1.1.1.2 t ht⟩

theorem namedSub_trans {s : Schema} (hwf : s.WF = true) {a b c : Name}
    (h1 : NamedSub s a b) (h2 : NamedSub s b c) : NamedSub s a c := by
  obtain ⟨hnd, hall⟩ := wf_parts hwf
  obtain ⟨ta, tb, hta, htb, _, haKind, hab⟩ := h1
  obtain ⟨tb', tc, htb', htc, hcAbs, hbKind, hbc⟩ := h2
  rw [htb] at htb'; cases htb'
  have hbname := (typeByName_some htb).2
  have hamem := (mem_types_iff s ta).2 (typeByName_some hta).1
  have hcmem := (mem_types_iff s tc).2 (typeByName_some htc).1
  -- `tb` is an interface (abstract and object-or-interface)
  refine ⟨ta, tc, hta, htc, hcAbs, haKind, ?_⟩
  rcases hbc with ⟨n, ms, rfl, hm⟩ | ⟨n, is, fs, rfl, hm⟩
  · -- `c` is a union listing `b`: impossible, members are object types but `b` is abstract
    exfalso
    have := (hall _ hcmem).1
    simp only [TypeDef.refsOk, List.all_eq_true] at this
    have hobj := this _ hm
    rw [hbname] at hobj
    simp only [Schema.isObjectName, htb] at hobj
    cases tb <;> simp_all [TypeDef.isAbstract]
  · right
    refine ⟨n, is, fs, rfl, ?_⟩
    -- `tb` is an interface whose interface list contains `n`; `a` lists `b`, hence also `n`
    rcases hab with ⟨nb, ms, rfl, _⟩ | ⟨nb, isb, fsb, rfl, hmem⟩
    · rcases hbKind with h | h <;> simp [TypeDef.isInterface, TypeDef.isObject] at h
    · have hclosed := (hall _ hamem).2
      simp only [Schema.interfacesClosed, List.all_eq_true] at hclosed
      have := hclosed nb hmem
      simp only [TypeDef.name] at hbname
      subst hbname
      rw [htb] at this
      simp only [List.all_eq_true, List.contains_eq_mem, decide_eq_true_eq] at this
      exact this n (by simpa [TypeDef.interfaces] using hm)

theorem subtype_nonNull_of {s : Schema} {b c : Ty} (h : Subtype s b c) (hb : b.isNonNull = false) :
    c.isNonNull = false := by
  cases h <;> simp_all [Ty.isNonNull]

theorem Subtype.trans {s : Schema} (hwf : s.WF = true) {a b c : Ty}
    (h1 : Subtype s a b) (h2 : Subtype s b c) : Subtype s a c := by
  induction h1 generalizing c with
  | refl t => exact h2
  | @nonNull a' b' h ih =>
    cases h2 with
    | refl => exact .nonNull h
    | nonNull h' => exact .nonNull (ih h')
    | strengthen hc h' => exact .strengthen hc (ih h')
  | @strengthen a' b' hb h ih =>
    exact .strengthen (subtype_nonNull_of h2 hb) (ih h2)
  | @list a' b' h ih =>
    cases h2 with
    | refl => exact .list h
    | list h' => exact .list (ih h')
  | @named a' b' hn =>
    cases h2 with
    | refl => exact .named hn
    | named hn' => exact .named (namedSub_trans hwf hn hn')

/-- `is_subtype` is transitive on well-formed schemas. -/
theorem isSubtype_trans (s : Schema) (hwf : s.WF = true) (a b c : Ty)
    (h1 : s.isSubtype a b = true) (h2 : s.isSubtype b c = true) : s.isSubtype a c = true :=
  isSubtype_complete s (Subtype.trans hwf (isSubtype_sound s a b h1) (isSubtype_sound s b c h2))

/-! Non-vacuity: a well-formed schema with an interface chain. -/
def exSchema : Schema :=
  [ .type (.scalar 6),
    .type (.interface 20 [] [⟨30, [], .named 6⟩]),
    .type (.interface 22 [20] [⟨30, [], .named 6⟩]),
    .type (.object 24 [22, 20] [⟨30, [], .named 6⟩]),
    .type (.union 26 [24]),
    .type (.object 0 [] [⟨32, [], .named 22⟩]) ]

example : exSchema.WF = true := by decide
example : exSchema.isSubtype (.nonNull (.list (.named 24))) (.list (.named 20)) = true := by decide
example : exSchema.isSubtype (.list (.named 24)) (.nonNull (.list (.named 20))) = false := by decide
example : exSchema.isSubtype (.named 24) (.named 26) = true := by decide

end Gql.C18
