/-
  Thm/C15.lean — PROPERTY C15 (operation visitor part): visitors enter/leave every AST node
  exactly once, nested, in list order — for every schema (known names or not) and every document.
  Property statements only; helper lemmas live in Lemmas/.
-/
import GqlVerif.Lemmas.Visit
import GqlVerif.Lemmas.Traverse
namespace Gql.C15

/-- The callback sequence of the model visitor is the plain pre/post-order traversal of the
    document: independent of the schema `s` and of the context `st` it starts from. -/
theorem visit_events_eq_traverse (s : Schema) (d : Document) (v : V) (st : Stacks)
    (h : visitDocument s d = some v) :
    (v st).2.map Prod.fst = traverseDocument d := by
  have hl := visitDocument_lexical s d
  rw [h] at hl
  obtain ⟨t, ht, hv⟩ := hl st
  rw [hv]
  exact walkDocument_events s _ d t ht

/-- The walk can only fail to return (`none` = the crate's `query_type().unwrap()` panic) when
    the document has a query/short-hand operation and the schema has no query root object type. -/
theorem visit_none_iff (s : Schema) (d : Document) :
    visitDocument s d = none ↔
      ∃ o, Definition.op o ∈ d ∧ (o.kind = .query ∨ o.kind = .shorthand) ∧ s.queryType = none := by
  simp only [visitDocument, Option.map_eq_none_iff]
  induction d with
  | nil => simp [visitDefinitions]
  | cons x xs ih =>
    cases x with
    | frag f => simp [visitDefinitions, ih]
    | op o =>
      simp only [visitDefinitions]
      cases hk : o.kind <;> simp [rootTypeName, hk] <;>
        cases hq : s.queryType <;> simp [ih, hq] <;>
        first
          | exact ⟨o, Or.inl rfl, by simp [hk]⟩
          | (constructor
             · rintro ⟨o', h1, h2⟩; exact ⟨o', Or.inr h1, h2⟩
             · rintro ⟨o', h1 | h1, h2⟩
               · subst h1; simp [hk] at h2
               · exact ⟨o', h1, h2⟩)

/-- Well-nestedness: a sequence of complete sub-traversals, each `enter n … leave n` with the
    *same* node as payload and a well-nested inside. -/
inductive Nested : List Ev → Prop
  | nil : Nested []
  | node (n : Node) (inner rest : List Ev) :
      Nested inner → Nested rest → Nested (.enter n :: inner ++ .leave n :: rest)

theorem Nested.append {a b : List Ev} (ha : Nested a) (hb : Nested b) : Nested (a ++ b) := by
  induction ha with
  | nil => simpa
  | node n inner rest _ _ _ ih2 =>
    have := Nested.node n inner (rest ++ b) ‹_› ih2
    simpa [List.append_assoc] using this

theorem Nested.wrap (n : Node) {inner : List Ev} (h : Nested inner) :
    Nested (.enter n :: inner ++ [.leave n]) := by
  simpa using Nested.node n inner [] h Nested.nil

theorem Nested.leaf (n : Node) : Nested [.enter n, .leave n] := by
  simpa using Nested.node n [] [] Nested.nil Nested.nil

mutual
theorem nested_value : ∀ v, Nested (traverseValue v)
  | .bool _ | .float _ | .int _ | .str _ | .null | .enum _ | .var _ => by
      simp only [traverseValue]; exact Nested.leaf _
  | .list vs => by simp only [traverseValue]; exact Nested.wrap _ (nested_values vs)
  | .obj fs => by simp only [traverseValue]; exact Nested.wrap _ (nested_objFields fs)
theorem nested_values : ∀ vs, Nested (traverseValues vs)
  | [] => by simp only [traverseValues]; exact Nested.nil
  | v :: vs => by simp only [traverseValues]; exact (nested_value v).append (nested_values vs)
theorem nested_objFields : ∀ fs, Nested (traverseObjFields fs)
  | [] => by simp only [traverseObjFields]; exact Nested.nil
  | (k, v) :: fs => by
      simp only [traverseObjFields]
      exact (Nested.wrap _ (nested_value v)).append (nested_objFields fs)
end

theorem nested_arguments : ∀ as, Nested (traverseArguments as)
  | [] => Nested.nil
  | a :: as => by
      simp only [traverseArguments]
      exact (Nested.wrap _ (nested_value a.2)).append (nested_arguments as)

theorem nested_directives : ∀ ds, Nested (traverseDirectives ds)
  | [] => Nested.nil
  | d :: ds => by
      simp only [traverseDirectives]
      exact (Nested.wrap _ (nested_arguments d.args)).append (nested_directives ds)

theorem nested_varDefs : ∀ vs, Nested (traverseVarDefs vs)
  | [] => Nested.nil
  | v :: vs => by
      simp only [traverseVarDefs]
      refine (Nested.wrap _ ?_).append (nested_varDefs vs)
      cases v.default with
      | none => exact Nested.nil
      | some dv => exact nested_value dv

mutual
theorem nested_selection : ∀ x, Nested (traverseSelection x)
  | .field pos alias name args dirs sel => by
      simp only [traverseSelection]
      have h := ((nested_arguments args).append (nested_directives dirs)).append
        (Nested.wrap (.selectionSet sel) (nested_selections sel))
      simpa [List.append_assoc] using Nested.wrap (.field ⟨pos, alias, name, args, dirs, sel⟩) h
  | .spread pos name dirs => by
      simp only [traverseSelection]; exact Nested.wrap _ (nested_directives dirs)
  | .inline pos tc dirs sel => by
      simp only [traverseSelection]
      have h := (nested_directives dirs).append (Nested.wrap (.selectionSet sel) (nested_selections sel))
      simpa [List.append_assoc] using Nested.wrap (.inline ⟨pos, tc, dirs, sel⟩) h
theorem nested_selections : ∀ xs, Nested (traverseSelections xs)
  | [] => by simp only [traverseSelections]; exact Nested.nil
  | x :: xs => by
      simp only [traverseSelections]; exact (nested_selection x).append (nested_selections xs)
end

theorem nested_selectionSet (sel : List Selection) : Nested (traverseSelectionSet sel) :=
  Nested.wrap _ (nested_selections sel)

theorem nested_definition : ∀ d, Nested (traverseDefinition d)
  | .frag f => by
      simp only [traverseDefinition]
      simpa [List.append_assoc] using
        Nested.wrap (.fragmentDef f) ((nested_directives f.dirs).append (nested_selectionSet f.sel))
  | .op o => by
      simp only [traverseDefinition]
      simpa [List.append_assoc] using
        Nested.wrap (.operation o)
          (((nested_directives o.dirs).append (nested_varDefs o.vars)).append (nested_selectionSet o.sel))

theorem nested_definitions : ∀ ds, Nested (traverseDefinitions ds)
  | [] => Nested.nil
  | d :: ds => by
      simp only [traverseDefinitions]; exact (nested_definition d).append (nested_definitions ds)

/-- Every callback sequence of the visitor is well nested: each node is entered once and left
    once with the same payload, and everything in between belongs to its children. -/
theorem visit_events_nested (s : Schema) (d : Document) (v : V) (st : Stacks)
    (h : visitDocument s d = some v) : Nested ((v st).2.map Prod.fst) := by
  rw [visit_events_eq_traverse s d v st h]
  exact Nested.wrap _ (nested_definitions d)

/-- Siblings are visited in list order: the traversal of a list is the concatenation of the
    traversals of its members (stated for every child list kind). -/
theorem selections_in_order (xs ys : List Selection) :
    traverseSelections (xs ++ ys) = traverseSelections xs ++ traverseSelections ys := by
  induction xs with
  | nil => simp [traverseSelections]
  | cons x xs ih => simp [traverseSelections, ih]

theorem values_in_order (xs ys : List Value) :
    traverseValues (xs ++ ys) = traverseValues xs ++ traverseValues ys := by
  induction xs with
  | nil => simp [traverseValues]
  | cons x xs ih => simp [traverseValues, ih]

theorem arguments_in_order (xs ys : List Arg) :
    traverseArguments (xs ++ ys) = traverseArguments xs ++ traverseArguments ys := by
  induction xs with
  | nil => simp [traverseArguments]
  | cons x xs ih => simp [traverseArguments, ih]

theorem directives_in_order (xs ys : List Directive) :
    traverseDirectives (xs ++ ys) = traverseDirectives xs ++ traverseDirectives ys := by
  induction xs with
  | nil => simp [traverseDirectives]
  | cons x xs ih => simp [traverseDirectives, ih]

theorem varDefs_in_order (xs ys : List VarDef) :
    traverseVarDefs (xs ++ ys) = traverseVarDefs xs ++ traverseVarDefs ys := by
  induction xs with
  | nil => simp [traverseVarDefs]
  | cons x xs ih => simp [traverseVarDefs, ih]

theorem definitions_in_order (xs ys : List Definition) :
    traverseDefinitions (xs ++ ys) = traverseDefinitions xs ++ traverseDefinitions ys := by
  induction xs with
  | nil => simp [traverseDefinitions]
  | cons x xs ih => simp [traverseDefinitions, ih]

/-! Non-vacuity: a concrete document over the empty schema is walked (hypothesis satisfiable). -/
example : ∃ v, visitDocument [] [.frag ⟨⟨1, 1⟩, 20, 22, [], [.spread ⟨1, 2⟩ 20 []]⟩] = some v :=
  ⟨_, rfl⟩

end Gql.C15
