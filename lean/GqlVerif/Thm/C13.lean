/-
  Thm/C13.lean — PROPERTY C13: a plan's result is the in-order union of its rules' results;
  every error carries the code of the rule that produced it; the default plan contains each of
  the 24 rules exactly once (Gen/DefaultPlan.lean, regenerated from defaults.rs on every run).
-/
import GqlVerif.Lemmas.Visit
import GqlVerif.Lemmas.Rules
import GqlVerif.Gen.DefaultPlan
import GqlVerif.Gen.ErrorCodes
namespace Gql.C13

/-- with a balanced visitor, running a plan over the shared context is running each rule on the
    same callback trace -/
theorem runPlan_eq_map (s : Schema) (d : Document) (v : V) (hv : visitDocument s d = some v)
    (plan : List RuleId) (st : Stacks) :
    runPlan s d v plan st = plan.map fun r => (ruleOf r).runOn s d (v st).2 := by
  have hl := visitDocument_lexical s d
  rw [hv] at hl
  induction plan with
  | nil => simp [runPlan]
  | cons r rs ih =>
    obtain ⟨t, _, hst⟩ := hl st
    simp only [runPlan, List.map_cons, hst]
    rw [ih]
    simp [hst]

/-- result of a one-rule plan -/
theorem validate_single (s : Schema) (d : Document) (r : RuleId) :
    validate s d [r] = (visitDocument s d).map fun v => (ruleOf r).runOn s d (v Stacks.empty).2 := by
  cases hv : visitDocument s d with
  | none => simp [validate, validateGrouped, hv]
  | some v => simp [validate, validateGrouped, hv, runPlan]

/-- **A plan's result is the in-order union of its rules' results**: grouped per plan entry, group
    `i` is exactly what rule `plan[i]` returns when run alone on the same input. -/
theorem validateGrouped_eq_singles (s : Schema) (d : Document) (plan : List RuleId) (v : V)
    (hv : visitDocument s d = some v) :
    validateGrouped s d plan = some (plan.map fun r => (validate s d [r]).getD []) := by
  cases plan with
  | nil => simp [validateGrouped]
  | cons r rs =>
    simp only [validateGrouped, hv, Option.map_some, runPlan_eq_map s d v hv]
    congr 1
    simp [validate_single, hv]

/-- the only way not to return: the `query_type().unwrap()` panic, and then every non-empty plan
    (hence every single rule) panics alike -/
theorem validate_none_iff (s : Schema) (d : Document) (plan : List RuleId) (hne : plan ≠ []) :
    validate s d plan = none ↔ visitDocument s d = none := by
  cases plan with
  | nil => exact absurd rfl hne
  | cons r rs => cases hv : visitDocument s d <;> simp [validate, validateGrouped, hv]

/-- flat version: the returned list is the concatenation, in plan order, of the single-rule results -/
theorem validate_eq_flatMap_single (s : Schema) (d : Document) (plan : List RuleId) (v : V)
    (hv : visitDocument s d = some v) :
    validate s d plan = some (plan.flatMap fun r => (validate s d [r]).getD []) := by
  cases plan with
  | nil => simp [validate, validateGrouped]
  | cons r rs =>
    simp only [validate, validateGrouped, hv, Option.map_some, runPlan_eq_map s d v hv]
    congr 1
    simp [List.flatMap, runPlan]

/-- appending plans appends results -/
theorem validate_append (s : Schema) (d : Document) (p q : List RuleId) (v : V)
    (hv : visitDocument s d = some v) :
    validate s d (p ++ q) = some ((validate s d p).getD [] ++ (validate s d q).getD []) := by
  rw [validate_eq_flatMap_single s d (p ++ q) v hv, validate_eq_flatMap_single s d p v hv,
    validate_eq_flatMap_single s d q v hv]
  simp

/-! ### Every error carries the code of the rule that produced it -/

theorem foldl_inv {α β : Type} (P : β → Prop) (f : β → α → β) (l : List α) (b : β)
    (hb : P b) (hf : ∀ b a, a ∈ l → P b → P (f b a)) : P (l.foldl f b) := by
  induction l generalizing b with
  | nil => simpa
  | cons x xs ih =>
    simp only [List.foldl_cons]
    exact ih _ (hf b x (by simp) hb) (fun b a ha => hf b a (by simp [ha]))

theorem detectCycles_codes (d : Document) :
    ∀ (n : Nat) (frag : FragDef) (path : List SpreadNode) (idx : List (Name × Nat)) (st : CycleState),
      AllCode .noFragmentsCycle st.errs → AllCode .noFragmentsCycle (detectCycles d n frag path idx st).errs := by
  intro n
  induction n with
  | zero => intro frag path idx st h; simpa [detectCycles] using h
  | succ n ih =>
    intro frag path idx st h
    simp only [detectCycles]
    split
    · exact h
    · split
      · exact h
      · apply foldl_inv (fun st : CycleState => AllCode .noFragmentsCycle st.errs)
        · exact h
        · intro b a _ hb
          simp only [cycleStep]
          split
          · split
            · exact ih _ _ _ _ hb
            · exact hb
          · simp [hb, cycleError]

theorem on_codes (s : Schema) (d : Document) (r : RuleId) (σ : (ruleOf r).σ) (e : Ev × Snap) :
    AllCode r ((ruleOf r).on s d σ e).2 := by
  cases r <;> simp only [ruleOf] at σ ⊢
  · simp only [uniqueOperationNames]
    repeat' split
    all_goals simp
  · simp only [loneAnonymousOperation, Rule.stateless]
    repeat' split
    all_goals simp
  · simp only [singleFieldSubscriptions, Rule.stateless]
    repeat' split
    all_goals simp
  · simp only [knownTypeNames, Rule.stateless, unknownTypeErr]
    repeat' split
    all_goals simp
  · simp only [fragmentsOnCompositeTypes, Rule.stateless]
    repeat' split
    all_goals simp
  · simp only [variablesAreInputTypes, Rule.stateless]
    repeat' split
    all_goals simp
  · simp only [leafFieldSelections, Rule.stateless]
    repeat' split
    all_goals simp
  · simp only [fieldsOnCorrectType, Rule.stateless]
    repeat' split
    all_goals simp
  · simp only [uniqueFragmentNames]
    repeat' split
    all_goals simp
  · simp only [knownFragmentNames, Rule.stateless]
    repeat' split
    all_goals simp
  · simp only [noUnusedFragments]
    repeat' split
    all_goals simp
  · simp only [overlappingFieldsCanBeMerged]
    repeat' split
    all_goals simp
  · simp only [noFragmentsCycle]
    split
    · exact detectCycles_codes d _ _ _ _ _ (by simp)
    · simp
  · simp only [possibleFragmentSpreads, Rule.stateless]
    repeat' split
    all_goals simp
  · simp only [noUnusedVariables, collRule]
    split
    · simp [unusedReport, allCode_flatMap]
    · simp
  · simp only [noUndefinedVariables, collRule]
    split
    · simp [undefinedReport, allCode_flatMap]
    · simp
  · simp only [knownArgumentNames, kaArgCheck]
    repeat' split
    all_goals simp
  · simp only [uniqueArgumentNames, Rule.stateless, duplicateArgErrors]
    repeat' split
    all_goals simp
  · simp only [uniqueVariableNames]
    repeat' split
    all_goals simp
  · simp only [providedRequiredArguments, Rule.stateless]
    repeat' split
    all_goals simp
  · simp only [knownDirectives]
    repeat' split
    all_goals simp
  · have hv : ∀ (defs : List VarDef) (u : Name × Ty), AllCode .variablesInAllowedPosition (vipCheck s defs u) := by
      intro defs u
      simp only [vipCheck]
      repeat' split
      all_goals simp
    simp only [variablesInAllowedPosition, collRule]
    split
    · simp only [vipReport, allCode_flatMap]
      intro p _ u _
      exact hv _ _
    · simp
  · simp only [valuesOfCorrectType, Rule.stateless, validateValue, validateCompositeValue]
    repeat' split
    all_goals simp
  · simp only [uniqueDirectivesPerLocation, Rule.stateless, udCheck]
    have h : ∀ (ds : List Directive) (seen : List Name),
        AllCode .uniqueDirectivesPerLocation (duplicateDirectiveErrors s ds seen) := by
      intro ds
      induction ds with
      | nil => intro seen; simp [duplicateDirectiveErrors]
      | cons x xs ih =>
        intro seen
        simp only [duplicateDirectiveErrors]
        repeat' split
        all_goals simp [ih]
    repeat' split
    all_goals simp [h]

theorem finish_codes (s : Schema) (d : Document) (r : RuleId) (σ : (ruleOf r).σ) :
    AllCode r ((ruleOf r).finish s d σ) := by
  cases r <;> simp only [ruleOf] at σ ⊢ <;>
    first
      | (simp [uniqueOperationNames])
      | (simp [uniqueFragmentNames])
      | (simp [Rule.stateless, loneAnonymousOperation, singleFieldSubscriptions, knownTypeNames,
          fragmentsOnCompositeTypes, variablesAreInputTypes, leafFieldSelections, fieldsOnCorrectType,
          knownFragmentNames, noUnusedFragments, overlappingFieldsCanBeMerged, noFragmentsCycle,
          possibleFragmentSpreads, noUnusedVariables, noUndefinedVariables, knownArgumentNames,
          uniqueArgumentNames, uniqueVariableNames, providedRequiredArguments, knownDirectives,
          variablesInAllowedPosition, valuesOfCorrectType, uniqueDirectivesPerLocation, collRule])

/-- **Every error carries the code of the rule that produced it** (for any callback trace). -/
theorem codes (s : Schema) (d : Document) (r : RuleId) (tr : Trace) :
    ∀ e ∈ (ruleOf r).runOn s d tr, e.code = r :=
  runOn_all (ruleOf r) s d (fun e => e.code = r) (fun σ e => on_codes s d r σ e)
    (fun σ => finish_codes s d r σ) tr

/-- hence: every error of `validate` carries the code of a rule of the plan -/
theorem validate_codes_in_plan (s : Schema) (d : Document) (plan : List RuleId) (errs : List Err)
    (h : validate s d plan = some errs) : ∀ e ∈ errs, e.code ∈ plan := by
  cases hv : visitDocument s d with
  | none =>
    cases plan with
    | nil => simp [validate, validateGrouped] at h; subst h; simp
    | cons r rs => simp [validate, validateGrouped, hv] at h
  | some v =>
    rw [validate_eq_flatMap_single s d plan v hv] at h
    simp only [Option.some.injEq] at h
    subst h
    intro e he
    simp only [List.mem_flatMap] at he
    obtain ⟨r, hr, he⟩ := he
    rw [validate_single, hv] at he
    simp only [Option.map_some, Option.getD_some] at he
    rw [codes s d r _ e he]
    exact hr

/-! ### The default plan (regenerated from defaults.rs) holds each of the 24 rules exactly once -/

theorem defaultPlan_nodup : Gen.defaultPlan.Nodup := by decide
theorem defaultPlan_length : Gen.defaultPlan.length = 24 := by decide
theorem defaultPlan_complete : ∀ r : RuleId, r ∈ Gen.defaultPlan := by
  intro r; cases r <;> decide
/-- the order the model's `RuleId.all` uses is the order of defaults.rs -/
theorem defaultPlan_eq_all : Gen.defaultPlan = RuleId.all := by decide

/-- every rule's `error_code()` literal is its own name (one entry per rule) -/
theorem errorCodes_identity : ∀ p ∈ Gen.errorCodes, p.1 = p.2 := by decide
theorem errorCodes_cover : ∀ r : RuleId, (Gen.errorCodes.filter fun p => p.1 == r).length = 1 := by
  intro r; cases r <;> decide

end Gql.C13
