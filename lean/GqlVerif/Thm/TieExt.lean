/-
  Thm/TieExt.lean — every helper method of /repo/src/ast/ext.rs (Gen/ExtApi.lean, regenerated on
  every run) has a named counterpart in the model: `ext_api_modelled`.  The counterparts are given
  as checked name literals, so renaming or deleting the model function breaks the build; a helper
  added to, removed from or renamed in ext.rs breaks the theorem.
-/
import GqlVerif.Gen.ExtApi
import GqlVerif.Model.Ext
import GqlVerif.Model.Rules.Basic
import GqlVerif.Thm.Tie
namespace Gql.Tie

/-- (trait, [(method, the model definition that stands for it)]) -/
def extModelled : List (String × List (String × Lean.Name)) :=
  [("FieldByNameExtension", [("field_by_name", ``TypeDef.fieldByName), ("input_field_by_name", ``TypeDef.inputFieldByName)]),
   ("OperationDefinitionExtension", [("variable_definitions", ``Operation.vars), ("directives", ``Operation.dirs),
      ("selection_set", ``Operation.sel)]),
   ("SchemaDocumentExtension", [("type_by_name", ``Schema.typeByName), ("type_map", ``Schema.typeMapEntries),
      ("directive_by_name", ``Schema.directiveByName), ("object_type_by_name", ``Schema.objectTypeByName),
      ("schema_definition", ``Schema.schemaDefinition), ("query_type", ``Schema.queryType),
      ("mutation_type", ``Schema.mutationType), ("subscription_type", ``Schema.subscriptionType),
      ("is_subtype", ``Schema.isSubtype), ("is_named_subtype", ``Schema.isNamedSubtype),
      ("is_possible_type", ``isPossibleType)]),
   ("TypeExtension", [("inner_type", ``Ty.inner), ("is_non_null", ``Ty.isNonNull), ("is_list_type", ``Ty.isList),
      ("is_named_type", ``Ty.isNamed), ("of_type", ``Ty.ofType)]),
   ("ValueExtension", [("compare", ``Value.compare), ("variables_in_use", ``Value.variablesInUse)]),
   ("InputValueHelpers", [("is_required", ``InputValueDef.isRequired)]),
   ("AbstractTypeDefinitionExtension", [("is_implemented_by", ``isImplementedBy)]),
   ("TypeDefinitionExtension", [("is_leaf_type", ``TypeDef.isLeaf), ("is_composite_type", ``TypeDef.isComposite),
      ("is_input_type", ``TypeDef.isInput), ("is_object_type", ``TypeDef.isObject), ("is_union_type", ``TypeDef.isUnion),
      ("is_interface_type", ``TypeDef.isInterface), ("is_enum_type", ``TypeDef.isEnum), ("is_scalar_type", ``TypeDef.isScalar),
      ("is_abstract_type", ``TypeDef.isAbstract), ("name", ``TypeDef.name)]),
   ("ImplementingInterfaceExtension", [("interfaces", ``TypeDef.interfaces), ("has_sub_type", ``TypeDef.hasSubType),
      ("has_concrete_sub_type", ``TypeDef.hasConcreteSubType)]),
   ("PossibleTypesExtension", [("possible_types", ``TypeDef.possibleTypes)]),
   ("SubTypeExtension", [("has_sub_type", ``TypeDef.hasSubType)]),
   ("AstNodeWithName", [("node_name", ``Operation.name)]),
   ("FragmentSpreadExtraction", [("get_recursive_fragment_spreads", ``recursiveSpreads), ("get_fragment_spreads", ``directSpreads)])]

/-- the helper API read from ext.rs now is the one the model was written against -/
theorem ext_api_modelled :
    (Gen.extApi.length == extModelled.length &&
      Gen.extApi.all fun p => extModelled.any fun q => q.1 == p.1 && sameNames p.2 (q.2.map (·.1))) = true := by decide

end Gql.Tie
