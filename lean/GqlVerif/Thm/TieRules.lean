/-
  Thm/TieRules.lean — each rule of the model looks at the document through exactly the visitor
  callbacks the rule's `impl OperationVisitor` block overrides in /repo (Gen/RuleCallbacks.lean,
  regenerated from src/validation/rules/*.rs on every run):

  * `rule_callbacks_expected`: the generated table is the one the model was written against — a
    callback added to, removed from or renamed in a rule breaks this obligation;
  * `rule_ignores_other_events`: at every event that is not one of those callbacks the model of
    the rule keeps its state and reports nothing, for every schema, document, state and snapshot.
-/
import GqlVerif.Gen.RuleCallbacks
import GqlVerif.Thm.Tie
import GqlVerif.Model.Validate
namespace Gql.Tie

/-- the trait callback an event of the model's trace stands for -/
def evCallback : Ev → String
  | .enter n => (nodeCallbacks n).1
  | .leave n => (nodeCallbacks n).2

/-- the callbacks each rule was modelled with (rules and callbacks in alphabetical order, as generated) -/
def expectedRuleCallbacks : List (RuleId × List String) :=
  [(.fieldsOnCorrectType, ["enter_field", "enter_operation_definition"]),
   (.fragmentsOnCompositeTypes, ["enter_fragment_definition", "enter_inline_fragment"]),
   (.knownArgumentNames, ["enter_argument", "enter_directive", "enter_field", "leave_directive", "leave_field"]),
   (.knownDirectives, ["enter_directive", "enter_field", "enter_fragment_definition", "enter_fragment_spread", "enter_inline_fragment", "enter_operation_definition", "leave_field", "leave_fragment_definition", "leave_fragment_spread", "leave_inline_fragment", "leave_operation_definition"]),
   (.knownFragmentNames, ["enter_fragment_spread"]),
   (.knownTypeNames, ["enter_fragment_definition", "enter_inline_fragment", "enter_variable_definition"]),
   (.leafFieldSelections, ["enter_field"]),
   (.loneAnonymousOperation, ["enter_document"]),
   (.noFragmentsCycle, ["enter_fragment_definition"]),
   (.noUndefinedVariables, ["enter_argument", "enter_fragment_definition", "enter_fragment_spread", "enter_operation_definition", "enter_variable_definition", "leave_document"]),
   (.noUnusedFragments, ["enter_fragment_definition", "enter_fragment_spread", "leave_document", "leave_fragment_definition"]),
   (.noUnusedVariables, ["enter_argument", "enter_fragment_definition", "enter_fragment_spread", "enter_operation_definition", "enter_variable_definition", "leave_document"]),
   (.overlappingFieldsCanBeMerged, ["enter_document", "enter_selection_set"]),
   (.possibleFragmentSpreads, ["enter_fragment_spread", "enter_inline_fragment"]),
   (.providedRequiredArguments, ["enter_directive", "enter_field"]),
   (.singleFieldSubscriptions, ["enter_operation_definition"]),
   (.uniqueArgumentNames, ["enter_directive", "enter_field"]),
   (.uniqueDirectivesPerLocation, ["enter_field", "enter_fragment_definition", "enter_fragment_spread", "enter_inline_fragment", "enter_operation_definition"]),
   (.uniqueFragmentNames, ["enter_fragment_definition"]),
   (.uniqueOperationNames, ["enter_operation_definition"]),
   (.uniqueVariableNames, ["enter_operation_definition", "enter_variable_definition"]),
   (.valuesOfCorrectType, ["enter_enum_value", "enter_list_value", "enter_null_value", "enter_object_value", "enter_scalar_value"]),
   (.variablesAreInputTypes, ["enter_variable_definition"]),
   (.variablesInAllowedPosition, ["enter_fragment_definition", "enter_fragment_spread", "enter_operation_definition", "enter_variable_definition", "enter_variable_value", "leave_document"])]

/-- the table read from the code now is the one the model was written against -/
theorem rule_callbacks_expected : Gen.ruleCallbacks = expectedRuleCallbacks := by decide

/-- every rule has exactly one entry -/
theorem rule_callbacks_cover (r : RuleId) : (Gen.ruleCallbacks.filter fun p => p.1 == r).length = 1 := by
  cases r <;> decide

/-- every listed callback is a callback of the trait -/
theorem rule_callbacks_are_callbacks :
    ∀ p ∈ Gen.ruleCallbacks, ∀ c ∈ p.2, c ∈ Gen.operationVisitorCallbacks := by decide

/-- the callbacks of the code's rule `r` -/
def callbacksOf (r : RuleId) : List String := (alGet Gen.ruleCallbacks r).getD []

/-- the three graph-walking variable rules at an event that contributes nothing to their scope -/
macro "coll_idle" : tactic => `(tactic|
  (simp only [ruleOf, noUnusedVariables, noUndefinedVariables, variablesInAllowedPosition, collRule, Coll.on, argVars, varUsage]
   split <;> simp [Coll.addItems]))

/-- **At an event that is none of the callbacks the code's rule overrides, the model of the rule
    does nothing** — it keeps its state and reports no error. -/
theorem rule_ignores_other_events (s : Schema) (d : Document) (r : RuleId) (σ : (ruleOf r).σ) (e : Ev × Snap)
    (h : evCallback e.1 ∉ callbacksOf r) : (ruleOf r).on s d σ e = (σ, []) := by
  obtain ⟨ev, sn⟩ := e
  cases r <;> cases ev with
    | enter n => cases n <;> first | rfl | (exfalso; revert h; simp only [evCallback, nodeCallbacks]; decide) | coll_idle
    | leave n => cases n <;> first | rfl | (exfalso; revert h; simp only [evCallback, nodeCallbacks]; decide) | coll_idle

end Gql.Tie
