/-
  Thm/C17.lean — PROPERTY C17: the transformer rewrites exactly what its hooks replace and keeps
  the rest.  Hooks are the probe family of Model/Transformer.lean (each logs its invocation, runs
  the default function, and replaces the node by a recognisable rewrite when its selector hits).
-/
import GqlVerif.Lemmas.Transform
namespace Gql.C17
open Gql.Spec

/-- **Refinement**: the transformer returns `Replace (mapDocument h d)` or `Keep`, and its hook
    invocations are exactly `hookSites h d`: one per node of the hook's kind, parent before
    children, list order within every list. -/
theorem transform_char (h : Hooks) (d : Document) :
    transformDocument h d = (trOf (changedDocument h d) (mapDocument h d), hookSites h d) :=
  char_document h d

theorem hook_log_eq (h : Hooks) (d : Document) : (transformDocument h d).2 = hookSites h d := by
  rw [transform_char]

theorem unchanged_id (h : Hooks) (d : Document) (hc : changedDocument h d = false) : mapDocument h d = d :=
  map_id_of_not_any _ _ (fun x => (char_definition h x).2) d hc

/-- the result applied to the input is the structural map: the input with each selected node
    replaced by what its hook returned, everything else copied -/
theorem transform_eq_mapDoc (h : Hooks) (d : Document) :
    (transformDocument h d).1.getD d = mapDocument h d := by
  rw [transform_char]
  cases hc : changedDocument h d
  · simp [unchanged_id h d hc]
  · simp

/-- if the transformer reports Keep, the denoted document is the input -/
theorem keep_unchanged (h : Hooks) (d : Document) (hk : (transformDocument h d).1.shouldKeep = true) :
    mapDocument h d = d := by
  rw [transform_char] at hk
  simp only [trOf_shouldKeep, Bool.not_eq_eq_eq_not, Bool.not_true] at hk
  exact unchanged_id h d hk

/-! ### no hook overridden: the result equals the input -/

def noHooks : Hooks := {}

@[simp] theorem nh_definition : noHooks.definition = none := rfl
@[simp] theorem nh_operation : noHooks.operation = none := rfl
@[simp] theorem nh_fragment : noHooks.fragment = none := rfl
@[simp] theorem nh_selectionSet : noHooks.selectionSet = none := rfl
@[simp] theorem nh_field : noHooks.field = none := rfl
@[simp] theorem nh_spread : noHooks.spread = none := rfl
@[simp] theorem nh_inlineFrag : noHooks.inlineFrag = none := rfl
@[simp] theorem nh_directive : noHooks.directive = none := rfl
@[simp] theorem nh_argument : noHooks.argument = none := rfl
@[simp] theorem nh_value : noHooks.value = none := rfl
@[simp] theorem nh_varDef : noHooks.varDef = none := rfl

theorem mapValue_none (v : Value) : mapValue noHooks v = v := rfl
theorem mapArg_none (a : Arg) : mapArg noHooks a = a := rfl
theorem mapArgs_none (l : List Arg) : l.map (mapArg noHooks) = l := by
  induction l with | nil => rfl | cons x xs ih => simp [ih, mapArg_none]
theorem mapDirective_none (d : Directive) : mapDirective noHooks d = d := by
  simp [mapDirective, mapArgs_none]
theorem mapDirectives_none (l : List Directive) : l.map (mapDirective noHooks) = l := by
  induction l with | nil => rfl | cons x xs ih => simp [ih, mapDirective_none]
theorem mapVarDef_none (v : VarDef) : mapVarDef noHooks v = v := by
  cases v with | mk pos name ty dflt => cases dflt <;> simp [mapVarDef, mapValue]
theorem mapVarDefs_none (l : List VarDef) : l.map (mapVarDef noHooks) = l := by
  induction l with | nil => rfl | cons x xs ih => simp [ih, mapVarDef_none]

mutual
theorem mapSelection_none : ∀ x : Selection, mapSelection noHooks x = x
  | .spread pos name dirs => by simp [mapSelection, mapDirectives_none]
  | .inline pos tc dirs sel => by
      have := mapSelections_none sel
      simp [mapSelection, withMarker, this]; exact mapDirectives_none dirs
  | .field pos alias name args dirs sel => by
      have := mapSelections_none sel
      simp [mapSelection, withMarker, this]
      exact ⟨mapArgs_none args, mapDirectives_none dirs⟩
theorem mapSelections_none : ∀ l : List Selection, mapSelections noHooks l = l
  | [] => rfl
  | x :: xs => by simp [mapSelections, mapSelection_none x, mapSelections_none xs]
end

theorem mapSelSet_none (sel : List Selection) : mapSelSet noHooks sel = sel := by
  simp [mapSelSet, withMarker, mapSelections_none]

theorem mapDefinition_none (x : Definition) : mapDefinition noHooks x = x := by
  cases x with
  | op o =>
    cases o with | mk kind pos name vars dirs sel =>
    simp only [mapDefinition, mapOperation, mapSelSet_none]
    by_cases hk : (kind == OpKind.shorthand) = true
    · simp [hk]
    · simp [hk]; exact ⟨mapVarDefs_none vars, mapDirectives_none dirs⟩
  | frag f =>
    cases f with | mk pos name tc dirs sel =>
    simp [mapDefinition, mapFragment, mapSelSet_none]
    exact mapDirectives_none dirs

/-- **Transforming a document with no hook overridden yields a document equal to the input**
    (the transformer may still answer Replace: the default fragment-spread function always does) -/
theorem transform_default_id (d : Document) : (transformDocument noHooks d).1.getD d = d := by
  rw [transform_eq_mapDoc]
  unfold mapDocument
  induction d with
  | nil => rfl
  | cons x xs ih => simp [mapDefinition_none, ih]

/-- no hook is invoked when none is overridden -/
theorem transform_default_log (d : Document) : (transformDocument noHooks d).2 = [] := by
  rw [hook_log_eq]
  have hv : ∀ v, sitesValue noHooks v = [] := fun _ => rfl
  have ha : ∀ a, sitesArg noHooks a = [] := fun _ => rfl
  have hd : ∀ x, sitesDirective noHooks x = [] := by intro x; simp [sitesDirective, siteOpt, sitesArg, sitesValue]
  have hvd : ∀ x, sitesVarDef noHooks x = [] := by intro x; cases x with | mk p n t dv => cases dv <;> simp [sitesVarDef, siteOpt, sitesValue]
  have hsel : (∀ x, sitesSelection noHooks x = []) ∧ (∀ l, sitesSelections noHooks l = []) := by
    have key : ∀ x : Selection, sitesSelection noHooks x = [] := by
      intro x
      induction x using Selection.rec (motive_2 := fun l => sitesSelections noHooks l = []) with
      | field pos alias name args dirs sel ih => simp [sitesSelection, siteOpt, ih, ha, hd]
      | spread pos name dirs => simp [sitesSelection, siteOpt, hd]
      | inline pos tc dirs sel ih => simp [sitesSelection, siteOpt, ih, hd]
      | nil => rfl
      | cons x xs ihx ihxs => simp [sitesSelections, ihx, ihxs]
    refine ⟨key, fun l => ?_⟩
    induction l with
    | nil => rfl
    | cons x xs ih => simp [sitesSelections, key x, ih]
  unfold hookSites
  rw [List.flatMap_eq_nil_iff]
  intro x _
  cases x with
  | op o => simp [sitesDefinition, sitesOperation, sitesSelSet, siteOpt, hsel.2, hd, hvd]
  | frag f => simp [sitesDefinition, sitesFragment, sitesSelSet, siteOpt, hsel.2, hd]

/-! ### `transform_list` (all Keep/Replace patterns, any length) -/

/-- Keep iff every item is kept; otherwise item `i` of the result is the replacement of item `i`
    if there is one and a copy of item `i` otherwise (so: same length, same order); the item
    function is called once per item, in list order. -/
theorem transformList_items {α : Type} (f : α → W (Tr α)) (l : List α) :
    transformList f l =
      (if l.all (fun x => (f x).1.shouldKeep) then .keep else .replace (l.map fun x => (f x).1.getD x),
       l.flatMap fun x => (f x).2) := by
  have h := transformList_spec f (fun x => (f x).1.getD x) (fun x => !(f x).1.shouldKeep) (fun x => (f x).2)
    (by intro x; cases hx : (f x).1 <;> (rw [Prod.ext_iff]; simp [hx, trOf, Tr.shouldKeep, Tr.getD]))
    (by intro x hx; cases hfx : (f x).1 <;> simp_all [Tr.shouldKeep, Tr.getD]) l
  rw [h]
  congr 1
  cases hall : l.all (fun x => (f x).1.shouldKeep)
  · have : l.any (fun x => !(f x).1.shouldKeep) = true := by
      rw [List.all_eq_false] at hall
      obtain ⟨x, hx, hnk⟩ := hall
      exact List.any_eq_true.2 ⟨x, hx, by simpa using hnk⟩
    simp [trOf, this]
  · have : l.any (fun x => !(f x).1.shouldKeep) = false := by
      rw [List.any_eq_false]
      intro x hx
      have := (List.all_eq_true.1 hall) x hx
      simp [this]
    simp [trOf, this]

/-! ### structure that the map preserves -/
theorem mapDocument_length (h : Hooks) (d : Document) : (mapDocument h d).length = d.length := by
  simp [mapDocument]

/-! Non-vacuity: a field probe that hits renames exactly that field -/
example :
    (transformDocument { field := some ⟨1, 0, 99, false⟩ } [.op ⟨.shorthand, ⟨0, 0⟩, none, [], [], [.field ⟨1, 3⟩ none 20 [] [] []]⟩]).1.getD []
      = [.op ⟨.shorthand, ⟨0, 0⟩, none, [], [], [.field ⟨1, 3⟩ none 99 [] [] []]⟩] := by rfl

/-! Non-vacuity: a value probe answering `null` for a variable default yields the definition with default `null`, not without default -/
example :
    (transformVariableDefinition { value := some ⟨1, 0, 99, true⟩ } ⟨⟨1, 8⟩, 20, .named 3, some (.int 1)⟩).1.getD default
      = ⟨⟨1, 8⟩, 20, .named 3, some .null⟩ := by rfl

end Gql.C17
