/-
  Thm/C14f.lean — PROPERTY C14, permuting the variable definitions of operations: which of the 24
  rules report is the same for a document and for the document with the variable definitions of
  any of its operations reordered (`DocRelV`), provided variable names are unique per operation
  (with a duplicate name the first-match lookup of 'variables in allowed position' makes its report
  depend on the order: known finding F18; 'unique variable names' reports in every order).
-/
import GqlVerif.Thm.C14e
import GqlVerif.Thm.C14b
namespace Gql.C14
open Gql.Spec

/-- `d'` is `d` with the variable definitions of some operations reordered -/
inductive DocRelV : Document → Document → Prop
  | refl (d : Document) : DocRelV d d
  | op (o : Operation) {vars' : List VarDef} (l : Document) : o.vars.Perm vars' → DocRelV (.op o :: l) (.op { o with vars := vars' } :: l)
  | cons (x : Definition) {l l' : Document} : DocRelV l l' → DocRelV (x :: l) (x :: l')
  | trans {a b c : Document} : DocRelV a b → DocRelV b c → DocRelV a c

theorem DocRelV.symm {d d' : Document} (h : DocRelV d d') : DocRelV d' d := by
  induction h with
  | refl d => exact .refl d
  | op o l hp =>
    have := DocRelV.op { o with vars := _ } l hp.symm
    exact this
  | cons x _ ih => exact .cons x ih
  | trans _ _ ih1 ih2 => exact .trans ih2 ih1

section
variable {s : Schema} {d d' : Document}

theorem fragmentsV (h : DocRelV d d') : d.fragments = d'.fragments := by
  induction h with
  | refl d => rfl
  | op o l _ => simp only [Document.fragments]
  | cons x _ ih => cases x <;> simp only [Document.fragments, ih]
  | trans _ _ ih1 ih2 => exact ih1.trans ih2

theorem fragByNameV (h : DocRelV d d') : d.fragByName = d'.fragByName := by
  funext n; unfold Document.fragByName; rw [fragmentsV h]

theorem spreadsOfV (h : DocRelV d d') : spreadsOf d = spreadsOf d' := by
  funext n; unfold spreadsOf; rw [fragmentsV h]

theorem opsRelV (h : DocRelV d d') : ∀ o ∈ d.operations, ∃ vars', o.vars.Perm vars' ∧ ({ o with vars := vars' } : Operation) ∈ d'.operations := by
  induction h with
  | refl d => intro o ho; exact ⟨o.vars, .refl _, ho⟩
  | op o0 l hp =>
    intro o ho
    simp only [Document.operations, List.mem_cons] at ho ⊢
    rcases ho with rfl | ho
    · exact ⟨_, hp, Or.inl rfl⟩
    · exact ⟨o.vars, .refl _, Or.inr ho⟩
  | cons x _ ih =>
    intro o ho
    cases x with
    | op o0 =>
      simp only [Document.operations, List.mem_cons] at ho ⊢
      rcases ho with rfl | ho
      · exact ⟨o.vars, .refl _, Or.inl rfl⟩
      · obtain ⟨v', hp, hm⟩ := ih o ho
        exact ⟨v', hp, Or.inr hm⟩
    | frag f =>
      simp only [Document.operations] at ho ⊢
      exact ih o ho
  | trans _ _ ih1 ih2 =>
    intro o ho
    obtain ⟨v1, h1, m1⟩ := ih1 o ho
    obtain ⟨v2, h2, m2⟩ := ih2 _ m1
    exact ⟨v2, h1.trans h2, m2⟩

theorem opNamesV (h : DocRelV d d') : d.operations.map (·.name) = d'.operations.map (·.name) := by
  induction h with
  | refl d => rfl
  | op o l _ => simp only [Document.operations, List.map_cons]
  | cons x _ ih => cases x <;> simp only [Document.operations, List.map_cons, ih]
  | trans _ _ ih1 ih2 => exact ih1.trans ih2

theorem docDepthV (h : DocRelV d d') : docDepth d = docDepth d' := by
  induction h with
  | refl d => rfl
  | op o l _ => simp only [docDepth, Definition.selections]
  | cons x _ ih => simp only [docDepth, ih]
  | trans _ _ ih1 ih2 => exact ih1.trans ih2

/-! ### the walk -/

/-- the callbacks of one variable definition -/
def vdBlock (s : Schema) (e : Snap) (v : VarDef) : Trace :=
  (.enter (.varDef v), e.withInput s (some v.ty))
    :: (match v.default with | some dv => walkValue s (e.withInput s (some v.ty)) dv | none => [])
    ++ [(.leave (.varDef v), e.withInput s (some v.ty))]

theorem walkVarDefs_cons (e : Snap) (v : VarDef) (vs : List VarDef) :
    walkVarDefs s e (v :: vs) = vdBlock s e v ++ walkVarDefs s e vs := by
  cases hd : v.default <;> simp [walkVarDefs, vdBlock, hd]

theorem walkVarDefs_perm (e : Snap) {vs vs' : List VarDef} (h : vs.Perm vs') (x : Ev × Snap) :
    x ∈ walkVarDefs s e vs ↔ x ∈ walkVarDefs s e vs' := by
  induction h with
  | nil => exact Iff.rfl
  | cons v _ ih => rw [walkVarDefs_cons, walkVarDefs_cons]; simp only [List.mem_append, ih]
  | swap a b l =>
    rw [walkVarDefs_cons, walkVarDefs_cons, walkVarDefs_cons, walkVarDefs_cons]
    simp only [List.mem_append]
    constructor <;> (rintro (h | h | h); exact Or.inr (Or.inl h); exact Or.inl h; exact Or.inr (Or.inr h))
  | trans _ _ ih1 ih2 => exact ih1.trans ih2

/-- the same callback, up to the order of the variable definitions carried by an operation / document node -/
inductive EvRelV : Ev → Ev → Prop
  | same (e : Ev) : EvRelV e e
  | enterOp (o : Operation) {vars' : List VarDef} : o.vars.Perm vars' → EvRelV (.enter (.operation o)) (.enter (.operation { o with vars := vars' }))
  | leaveOp (o : Operation) {vars' : List VarDef} : o.vars.Perm vars' → EvRelV (.leave (.operation o)) (.leave (.operation { o with vars := vars' }))

theorem EvRelV.trans {a b c : Ev} (h1 : EvRelV a b) (h2 : EvRelV b c) : EvRelV a c := by
  cases h1 with
  | same => exact h2
  | enterOp o hp =>
    cases h2 with
    | same => exact .enterOp o hp
    | enterOp _ hp2 => exact .enterOp o (hp.trans hp2)
  | leaveOp o hp =>
    cases h2 with
    | same => exact .leaveOp o hp
    | leaveOp _ hp2 => exact .leaveOp o (hp.trans hp2)

theorem ev_defs_relV (h : DocRelV d d') :
    ∀ (ev : Ev) (env : Snap), (ev, env) ∈ d.flatMap (defTrace s) → ∃ ev', EvRelV ev ev' ∧ (ev', env) ∈ d'.flatMap (defTrace s) := by
  induction h with
  | refl d => intro ev env hm; exact ⟨ev, .same ev, hm⟩
  | op o l hp =>
    intro ev env hm
    simp only [List.flatMap_cons, List.mem_append] at hm ⊢
    rcases hm with h | h
    · simp only [defTrace, walkDefinition] at h ⊢
      generalize rootTypeName s o.kind = r at h ⊢
      cases r with
      | none => simp at h
      | some tn =>
        simp only [Option.map_some, Option.getD_some, List.cons_append, List.mem_cons, List.mem_append, List.not_mem_nil, or_false, or_assoc] at h ⊢
        rcases h with h | h | h | h | h
        · obtain ⟨h1, h2⟩ := Prod.mk.inj h
          subst h1
          exact ⟨_, .enterOp o hp, Or.inl (by rw [h2])⟩
        · exact ⟨ev, .same ev, Or.inr (Or.inl h)⟩
        · exact ⟨ev, .same ev, Or.inr (Or.inr (Or.inl ((walkVarDefs_perm _ hp _).1 h)))⟩
        · exact ⟨ev, .same ev, Or.inr (Or.inr (Or.inr (Or.inl h)))⟩
        · obtain ⟨h1, h2⟩ := Prod.mk.inj h
          subst h1
          exact ⟨_, .leaveOp o hp, Or.inr (Or.inr (Or.inr (Or.inr (Or.inl (by rw [h2])))))⟩
    · exact ⟨ev, .same ev, Or.inr h⟩
  | cons x _ ih =>
    intro ev env hm
    simp only [List.flatMap_cons, List.mem_append] at hm ⊢
    rcases hm with h | h
    · exact ⟨ev, .same ev, Or.inl h⟩
    · obtain ⟨ev', hr, hm'⟩ := ih ev env h
      exact ⟨ev', hr, Or.inr hm'⟩
  | trans _ _ ih1 ih2 =>
    intro ev env hm
    obtain ⟨ev1, hr1, hm1⟩ := ih1 ev env hm
    obtain ⟨ev2, hr2, hm2⟩ := ih2 ev1 env hm1
    exact ⟨ev2, hr1.trans hr2, hm2⟩

/-- a callback whose node is neither an operation nor the document is a callback of the other document too -/
theorem mem_walkV (hq : s.queryType.isSome = true) (h : DocRelV d d') (ev : Ev) (env : Snap)
    (ho : ∀ o, ev ≠ .enter (.operation o) ∧ ev ≠ .leave (.operation o)) (hd : ∀ x, ev ≠ .enter (.document x) ∧ ev ≠ .leave (.document x))
    (hm : (ev, env) ∈ walkOf s d) : (ev, env) ∈ walkOf s d' := by
  rw [(walkOf_defs s d hq).1] at hm
  rw [(walkOf_defs s d' hq).1]
  simp only [List.cons_append, List.mem_cons, List.mem_append, List.not_mem_nil, or_false] at hm ⊢
  rcases hm with h1 | h1 | h1
  · exact absurd (congrArg Prod.fst h1) (hd d).1
  · obtain ⟨ev', hr, hm'⟩ := ev_defs_relV h ev env h1
    cases hr with
    | same => exact Or.inr (Or.inl hm')
    | enterOp o _ => exact absurd rfl (ho o).1
    | leaveOp o _ => exact absurd rfl (ho o).2
  · exact absurd (congrArg Prod.fst h1) (hd d).2

/-- what a definition's walk yields through a function that ignores operation nodes -/
theorem defTrace_opV {β : Type} (g : Ev × Snap → List β) (hg : ∀ o env, g (.enter (.operation o), env) = [] ∧ g (.leave (.operation o), env) = [])
    (o : Operation) {vars' : List VarDef} (hp : o.vars.Perm vars') (x : β) (hx : x ∈ (defTrace s (.op o)).flatMap g) :
    x ∈ (defTrace s (.op { o with vars := vars' })).flatMap g := by
  obtain ⟨⟨ev, env⟩, hm, hxe⟩ := List.mem_flatMap.1 hx
  have hm1 : (ev, env) ∈ [Definition.op o].flatMap (defTrace s) := by simpa using hm
  obtain ⟨ev', hr, hm'⟩ := ev_defs_relV (s := s) (DocRelV.op o [] hp) ev env hm1
  have hm2 : (ev', env) ∈ defTrace s (.op { o with vars := vars' }) := by simpa using hm'
  cases hr with
  | same => exact List.mem_flatMap.2 ⟨_, hm2, hxe⟩
  | enterOp o1 _ => rw [(hg o1 env).1] at hxe; cases hxe
  | leaveOp o1 _ => rw [(hg o1 env).2] at hxe; cases hxe

theorem usedByV (h : DocRelV d d') (o : Operation) {vars' : List VarDef} (hp : o.vars.Perm vars') (v : Name)
    (hu : UsedBy s d o v) : UsedBy s d' { o with vars := vars' } v := by
  rcases hu with h1 | ⟨f, hf, ⟨sp, hsp, hr⟩, hv⟩
  · exact Or.inl (defTrace_opV argVars (fun _ _ => ⟨rfl, rfl⟩) o hp v h1)
  · exact Or.inr ⟨f, by rw [← fragmentsV h]; exact hf, ⟨sp, hsp, by rw [← spreadsOfV h]; exact hr⟩, hv⟩

theorem usageOfV (h : DocRelV d d') (o : Operation) {vars' : List VarDef} (hp : o.vars.Perm vars') (u : Name × Ty)
    (hu : UsageOf s d o u) : UsageOf s d' { o with vars := vars' } u := by
  rcases hu with h1 | ⟨f, hf, ⟨sp, hsp, hr⟩, hv⟩
  · exact Or.inl (defTrace_opV varUsage (fun _ _ => ⟨rfl, rfl⟩) o hp u h1)
  · exact Or.inr ⟨f, by rw [← fragmentsV h]; exact hf, ⟨sp, hsp, by rw [← spreadsOfV h]; exact hr⟩, hv⟩

theorem usedByV_back (h : DocRelV d d') (o : Operation) {vars' : List VarDef} (hp : o.vars.Perm vars') (v : Name)
    (hu : UsedBy s d' { o with vars := vars' } v) : UsedBy s d o v :=
  usedByV h.symm { o with vars := vars' } (vars' := o.vars) hp.symm v hu

theorem directivesAtV (h : DocRelV d d') : directivesAt d = directivesAt d' := by
  induction h with
  | refl d => rfl
  | op o l _ => simp only [directivesAt, List.flatMap_cons, directivesOfDefinition]
  | cons x _ ih => simp only [directivesAt, List.flatMap_cons] at ih ⊢; rw [ih]
  | trans _ _ ih1 ih2 => exact ih1.trans ih2

theorem directiveListsV (h : DocRelV d d') : directiveLists d = directiveLists d' := by
  induction h with
  | refl d => rfl
  | op o l _ => simp only [directiveLists, List.flatMap_cons, directiveListsOfDefinition]
  | cons x _ ih => simp only [directiveLists, List.flatMap_cons] at ih ⊢; rw [ih]
  | trans _ _ ih1 ih2 => exact ih1.trans ih2

theorem literalSitesV (hq : s.queryType.isSome = true) (h : DocRelV d d') (p : Option Ty × Value)
    (hp : p ∈ C08.literalSites s d) : p ∈ C08.literalSites s d' := by
  unfold C08.literalSites litSites at hp ⊢
  obtain ⟨⟨ev, env⟩, he, hs⟩ := List.mem_filterMap.1 hp
  refine List.mem_filterMap.2 ⟨(ev, env), mem_walkV hq h ev env ?_ ?_ he, hs⟩
  · intro o; constructor <;> (intro hx; subst hx; simp [siteOf] at hs)
  · intro x; constructor <;> (intro hx; subst hx; simp [siteOf] at hs)

theorem collectsV (h : DocRelV d d') {R : TypeDef} {sel : List Selection} {vis vis' : List Name} {fs : List FieldNode}
    (hc : Collects s d R sel vis fs vis') : Collects s d' R sel vis fs vis' := collects_perm (fragByNameV h) hc

theorem mergeViolatedV (hq : s.queryType.isSome = true) (h : DocRelV d d') (hv : MergeViolated s d) : MergeViolated s d' := by
  obtain ⟨sel, env, hm, hf⟩ := hv
  refine ⟨sel, env, mem_walkV hq h _ env (by intro o; simp) (by intro x; simp) hm, ?_⟩
  have hfb := fragByNameV h
  have hsf : spreadFuelOf d' = spreadFuelOf d := by unfold spreadFuelOf; rw [fragmentsV h]
  have hnf : nestFuelOf d' = nestFuelOf d := by unfold nestFuelOf; rw [fragmentsV h, docDepthV h]
  rw [hsf, hnf, ← cm_congr hfb]
  unfold specFields at hf ⊢
  have : spreadFields s d' (spreadFuelOf d) = spreadFields s d (spreadFuelOf d) := (funext (spreadFields_congr hfb _)).symm
  rw [this]
  exact hf

/-- one direction for every one of the 24 conditions; unique variable names are needed where a name is resolved -/
theorem violatesV_mp (hq : s.queryType.isSome = true) (h : DocRelV d d') (hu : ¬ DuplicateVariable d) (r : RuleId)
    (hv : C01.Violates r s d) : C01.Violates r s d' := by
  have hfr := fragmentsV h
  have hfb := fragByNameV h
  have same : ∀ (n : Node) (env : Snap), (∀ o, n ≠ .operation o) → (∀ x, n ≠ .document x) →
      (Ev.enter n, env) ∈ walkOf s d → (Ev.enter n, env) ∈ walkOf s d' := by
    intro n env h1 h2 hm
    exact mem_walkV hq h _ env (fun o => ⟨fun e => h1 o (by cases e; rfl), by simp⟩) (fun x => ⟨fun e => h2 x (by cases e; rfl), by simp⟩) hm
  cases r <;> simp only [C01.Violates] at hv ⊢
  · unfold DuplicateOperationName at hv ⊢
    rw [← filterMap_of_map (fun o : Operation => o.name) (opNamesV h)]; exact hv
  · obtain ⟨⟨o, ho, hnone⟩, hl⟩ := hv
    obtain ⟨v', _, hm⟩ := opsRelV h o ho
    have hlen : d'.operations.length = d.operations.length := by
      have := congrArg List.length (opNamesV h); simp only [List.length_map] at this; exact this.symm
    exact ⟨⟨_, hm, hnone⟩, by rw [hlen]; exact hl⟩
  · obtain ⟨o, ho, hk, R, hR, fs, vis, hc, hrest⟩ := hv
    obtain ⟨v', _, hm⟩ := opsRelV h o ho
    exact ⟨_, hm, hk, R, hR, fs, vis, collectsV h hc, hrest⟩
  · rcases hv with ⟨f, hf, hk⟩ | ⟨i, env, c, hi, htc, hk⟩ | ⟨v, ⟨env, hm⟩, hk⟩
    · exact Or.inl ⟨f, by rw [← hfr]; exact hf, hk⟩
    · exact Or.inr (Or.inl ⟨i, env, c, same _ env (by simp) (by simp) hi, htc, hk⟩)
    · exact Or.inr (Or.inr ⟨v, ⟨env, same _ env (by simp) (by simp) hm⟩, hk⟩)
  · rcases hv with ⟨f, hf, t, ht, hc⟩ | ⟨i, env, c, t, hi, htc, ht, hc⟩
    · exact Or.inl ⟨f, by rw [← hfr]; exact hf, t, ht, hc⟩
    · exact Or.inr ⟨i, env, c, t, same _ env (by simp) (by simp) hi, htc, ht, hc⟩
  · obtain ⟨o, ho, v, hv', t, ht, hi⟩ := hv
    obtain ⟨v', hp, hm⟩ := opsRelV h o ho
    exact ⟨_, hm, v, hp.mem_iff.1 hv', t, ht, hi⟩
  · obtain ⟨f, env, t, hf, e1, e2, e3⟩ := hv
    exact ⟨f, env, t, same _ env (by simp) (by simp) hf, e1, e2, e3⟩
  · rcases hv with ⟨f, env, P, hf, e1, e2, e3⟩ | ⟨o, ho, hk, hne⟩
    · exact Or.inl ⟨f, env, P, same _ env (by simp) (by simp) hf, e1, e2, e3⟩
    · obtain ⟨v', _, hm⟩ := opsRelV h o ho
      exact Or.inr ⟨_, hm, hk, hne⟩
  · unfold DuplicateFragmentName at hv ⊢; rw [← hfr]; exact hv
  · obtain ⟨sp, env, hsp, hall⟩ := hv
    exact ⟨sp, env, same _ env (by simp) (by simp) hsp, by rw [← hfr]; exact hall⟩
  · obtain ⟨f, hf, hnu⟩ := hv
    refine ⟨f, by rw [← hfr]; exact hf, fun hu' => hnu ?_⟩
    obtain ⟨o, ho, sp, hsp, hr'⟩ := hu'
    obtain ⟨v', _, hm⟩ := opsRelV h.symm o ho
    exact ⟨_, hm, sp, hsp, by rw [spreadsOfV h]; exact hr'⟩
  · exact mergeViolatedV hq h hv
  · obtain ⟨a, b, hb, hr'⟩ := hv
    exact ⟨a, b, by rw [← spreadsOfV h]; exact hb, by rw [← spreadsOfV h]; exact hr'⟩
  · rcases hv with ⟨i, env, ft, pt, hi, e1, e2, e3, e4, e5⟩ | ⟨sp, env, frag, ft, pt, hsp, hf, e1, e2, e3, e4, e5⟩
    · exact Or.inl ⟨i, env, ft, pt, same _ env (by simp) (by simp) hi, e1, e2, e3, e4, e5⟩
    · exact Or.inr ⟨sp, env, frag, ft, pt, same _ env (by simp) (by simp) hsp, by rw [← hfb]; exact hf, e1, e2, e3, e4, e5⟩
  · obtain ⟨o, ho, vd, hvd, hnu⟩ := hv
    obtain ⟨v', hp, hm⟩ := opsRelV h o ho
    exact ⟨_, hm, vd, hp.mem_iff.1 hvd, fun hu' => hnu (usedByV_back h o hp vd.name hu')⟩
  · obtain ⟨o, ho, v, hu', hund⟩ := hv
    obtain ⟨v', hp, hm⟩ := opsRelV h o ho
    exact ⟨_, hm, v, usedByV h o hp v hu', fun vd hvd => hund vd (hp.mem_iff.2 hvd)⟩
  · rcases hv with ⟨f, env, P, fd, a, hf, e1, e2, e3, e4⟩ | ⟨dir, dd, a, ⟨env, hm⟩, e1, e2, e3⟩
    · exact Or.inl ⟨f, env, P, fd, a, same _ env (by simp) (by simp) hf, e1, e2, e3, e4⟩
    · exact Or.inr ⟨dir, dd, a, ⟨env, same _ env (by simp) (by simp) hm⟩, e1, e2, e3⟩
  · rcases hv with ⟨f, env, hf, hd⟩ | ⟨dir, ⟨env, hm⟩, hd⟩
    · exact Or.inl ⟨f, env, same _ env (by simp) (by simp) hf, hd⟩
    · exact Or.inr ⟨dir, ⟨env, same _ env (by simp) (by simp) hm⟩, hd⟩
  · exact absurd hv hu
  · rcases hv with ⟨f, env, P, fd, ad, hf, e1, e2, e3, e4, e5⟩ | ⟨dir, dd, ad, ⟨env, hm⟩, e1, e2, e3, e4⟩
    · exact Or.inl ⟨f, env, P, fd, ad, same _ env (by simp) (by simp) hf, e1, e2, e3, e4, e5⟩
    · exact Or.inr ⟨dir, dd, ad, ⟨env, same _ env (by simp) (by simp) hm⟩, e1, e2, e3, e4⟩
  · obtain ⟨p, hp, hk⟩ := hv
    exact ⟨p, by rw [← directivesAtV h]; exact hp, hk⟩
  · obtain ⟨o, ho, u, huu, vd, hvd, hsub⟩ := hv
    obtain ⟨v', hp, hm⟩ := opsRelV h o ho
    refine ⟨_, hm, u, usageOfV h o hp u huu, vd, ?_, hsub⟩
    have hnd : (o.vars.map (·.name)).Nodup := Classical.byContradiction fun hc => hu ⟨o, ho, hc⟩
    rw [← find?_perm_of_nodup (fun v : VarDef => v.name) hp hnd u.1]
    exact hvd
  · obtain ⟨τ, v, hm, hnc⟩ := hv
    exact ⟨τ, v, literalSitesV hq h _ hm, hnc⟩
  · obtain ⟨l, hl, hrest⟩ := hv
    exact ⟨l, by rw [← directiveListsV h]; exact hl, hrest⟩

theorem dupVarV (h : DocRelV d d') (hv : DuplicateVariable d) : DuplicateVariable d' := by
  obtain ⟨o, ho, hd⟩ := hv
  obtain ⟨v', hp, hm⟩ := opsRelV h o ho
  exact ⟨_, hm, fun hn => hd ((hp.map _).nodup_iff.2 hn)⟩

theorem violatesV (hq : s.queryType.isSome = true) (h : DocRelV d d') (hu : ¬ DuplicateVariable d) (r : RuleId) :
    C01.Violates r s d ↔ C01.Violates r s d' :=
  ⟨violatesV_mp hq h hu r, violatesV_mp hq h.symm (fun hc => hu (dupVarV h.symm hc)) r⟩

theorem docOkV (h : DocRelV d d') (hd : C01.DocOk d) : C01.DocOk d' := by
  intro o ho v hv
  obtain ⟨v', hp, hm⟩ := opsRelV h.symm o ho
  exact hd _ hm v (hp.mem_iff.1 hv)

theorem noIntroV (hq : s.queryType.isSome = true) (h : DocRelV d d') (hi : C01.NoIntrospectionConditions s d) :
    C01.NoIntrospectionConditions s d' := by
  intro i env c hm hc
  exact hi i env c (mem_walkV hq h.symm _ env (by intro o; simp) (by intro x; simp) hm) hc

/-- **C14, variable definitions, accept/reject**: the default plan accepts a document iff it accepts the
    document with the variable definitions of its operations reordered (every document: a duplicate
    variable name is rejected in every order). -/
theorem accepted_varperm (hs : C01.SchemaOk s) (hd : C01.DocOk d) (hi : C01.NoIntrospectionConditions s d) (h : DocRelV d d') :
    validate s d Gen.defaultPlan = some [] ↔ validate s d' Gen.defaultPlan = some [] := by
  have hq := hs.queryRoot
  have hd' := docOkV h hd
  have hi' := noIntroV hq h hi
  by_cases hu : DuplicateVariable d
  · have hu' := dupVarV h hu
    have r1 : ¬ validate s d Gen.defaultPlan = some [] := fun ha =>
      (C01.accepted_iff_valid_plain s d hs hd hi).1 ha .uniqueVariableNames hu
    have r2 : ¬ validate s d' Gen.defaultPlan = some [] := fun ha =>
      (C01.accepted_iff_valid_plain s d' hs hd' hi').1 ha .uniqueVariableNames hu'
    exact ⟨fun ha => absurd ha r1, fun ha => absurd ha r2⟩
  · rw [C01.accepted_iff_valid_plain s d hs hd hi, C01.accepted_iff_valid_plain s d' hs hd' hi']
    exact ⟨fun hv r hr => hv r ((violatesV hq h hu r).2 hr), fun hv r hr => hv r ((violatesV hq h hu r).1 hr)⟩

/-- **C14, variable definitions, which rules report**: with unique variable names, each of the 23 rules
    other than the field-merging one reports for the one document iff it reports for the other. -/
theorem fires_varperm (hs : C01.SchemaOk s) (hd : C01.DocOk d) (h : DocRelV d d')
    (hn : (d.fragments.map (·.name)).Nodup) (hu : ¬ DuplicateVariable d) (r : RuleId) (h1 : r ≠ .overlappingFieldsCanBeMerged) :
    fires r s d ↔ fires r s d' := by
  have hq := hs.queryRoot
  have hd' := docOkV h hd
  by_cases h3 : r = .noFragmentsCycle
  · subst h3
    have hn' : (d'.fragments.map (·.name)).Nodup := by rw [← fragmentsV h]; exact hn
    rw [C06.noFragmentsCycle_iff s d hq hn, C06.noFragmentsCycle_iff s d' hq hn']
    exact violatesV hq h hu .noFragmentsCycle
  by_cases h4 : r = .valuesOfCorrectType
  · subst h4
    unfold fires
    rw [C08.errs_eq, C08.errs_eq, flatMap_ne_nil_iff, flatMap_ne_nil_iff]
    constructor
    · rintro ⟨p, hp, hne⟩; exact ⟨p, literalSitesV hq h p hp, hne⟩
    · rintro ⟨p, hp, hne⟩; exact ⟨p, literalSitesV hq h.symm p hp, hne⟩
  rw [C01.fires_iff_violates_basic s d hs r h1 h3 h4, C01.fires_iff_violates_basic s d' hs r h1 h3 h4]
  exact violatesV hq h hu r

theorem selectionsV (h : DocRelV d d') : ∀ x ∈ d', ∃ y ∈ d, y.selections = x.selections := by
  induction h with
  | refl d => intro x hx; exact ⟨x, hx, rfl⟩
  | op o l _ =>
    intro x hx
    rcases List.mem_cons.1 hx with rfl | hx
    · exact ⟨.op o, by simp, rfl⟩
    · exact ⟨x, by simp [hx], rfl⟩
  | cons y _ ih =>
    intro x hx
    rcases List.mem_cons.1 hx with rfl | hx
    · exact ⟨x, by simp, rfl⟩
    · obtain ⟨z, hz, he⟩ := ih x hx
      exact ⟨z, by simp [hz], he⟩
  | trans _ _ ih1 ih2 =>
    intro x hx
    obtain ⟨y, hy, he⟩ := ih2 x hx
    obtain ⟨z, hz, he'⟩ := ih1 y hy
    exact ⟨z, hz, he'.trans he⟩

/-- the field-merging rule does not look at variable definitions at all -/
theorem fires_varperm_merge (hq : s.queryType.isSome = true) (h : DocRelV d d') (ht : TcKnown s d) (hau : ArgsUniq s d)
    (hac : ¬ FragmentCycle d) : fires .overlappingFieldsCanBeMerged s d ↔ fires .overlappingFieldsCanBeMerged s d' := by
  have ht' : TcKnown s d' := by
    intro x hx
    obtain ⟨y, hy, he⟩ := selectionsV h x hx
    rw [← he]; exact ht y hy
  have hau' : ArgsUniq s d' := fun f env hm => hau f env (mem_walkV hq h.symm _ env (by intro o; simp) (by intro x; simp) hm)
  have hac' : ¬ FragmentCycle d' := by
    rintro ⟨a, b, hb, hr⟩
    exact hac ⟨a, b, by rw [spreadsOfV h]; exact hb, by rw [spreadsOfV h]; exact hr⟩
  rw [C05.merge_iff_acyclic s d hq ht hau hac, C05.merge_iff_acyclic s d' hq ht' hau' hac']
  exact ⟨mergeViolatedV hq h, mergeViolatedV hq h.symm⟩

end
end Gql.C14
