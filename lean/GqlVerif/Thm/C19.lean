/-
  Thm/C19.lean — PROPERTY C19: collect_fields implements the spec's CollectFields: it returns
  exactly the fields the relation `Collects` (Spec/Collect.lean) gathers, grouped by response key
  in encounter order, and it terminates on every document (cyclic fragment graphs included).
-/
import GqlVerif.Lemmas.Collect
import GqlVerif.Lemmas.AssocList
namespace Gql.C19
open Gql.Spec

/-- **Termination**: with the fuel the model uses (number of fragment definitions + 1) the
    collection never gets stuck — for every schema, document, parent type and selection set. -/
theorem collect_terminates (s : Schema) (d : Document) (R : TypeDef) (sel : List Selection) :
    (collectFields s d R sel).stuck = false := by
  unfold collectFields
  have hr : remaining d ([] : List Name) < d.fragments.length + 1 := by
    unfold remaining
    have := List.length_filter_le (fun f : FragDef => !([] : List Name).contains f.name) d.fragments
    omega
  exact (collectN_term s d R _ sel {} rfl hr).1

/-- **Refinement**: the result is the grouping of the fields the spec relation collects. -/
theorem collect_sound (s : Schema) (d : Document) (R : TypeDef) (h : ParentOk s R) (sel : List Selection) :
    ∃ fs vis, Collects s d R sel [] fs vis ∧ (collectFields s d R sel).groups = groupFields fs := by
  have hok := collectN_ok s d R h (d.fragments.length + 1) sel {}
  obtain ⟨_, fs, hc, hg⟩ := hok (collect_terminates s d R sel)
  exact ⟨fs, _, hc, hg⟩

/-- the spec relation is a function of (selection set, visited names) -/
theorem collects_functional (s : Schema) (d : Document) (R : TypeDef) :
    ∀ {sel vis fs1 vis1 fs2 vis2}, Collects s d R sel vis fs1 vis1 → Collects s d R sel vis fs2 vis2 →
      fs1 = fs2 ∧ vis1 = vis2 := by
  intro sel vis fs1 vis1 fs2 vis2 h1
  induction h1 generalizing fs2 vis2 with
  | nil vis => intro h2; cases h2; exact ⟨rfl, rfl⟩
  | field _ ih => intro h2; cases h2 with | field h2' => obtain ⟨a, b⟩ := ih h2'; exact ⟨by rw [a], b⟩
  | spreadVisited hv _ ih =>
    intro h2
    cases h2 with
    | spreadVisited _ h2' => exact ih h2'
    | spreadUnknown hn _ _ => exact absurd hv hn
    | spreadSkip hn _ _ _ => exact absurd hv hn
    | spreadExpand hn _ _ _ _ => exact absurd hv hn
  | spreadUnknown hn hf _ ih =>
    intro h2
    cases h2 with
    | spreadVisited hv _ => exact absurd hv hn
    | spreadUnknown _ _ h2' => exact ih h2'
    | spreadSkip _ hf' _ _ => rw [hf] at hf'; cases hf'
    | spreadExpand _ hf' _ _ _ => rw [hf] at hf'; cases hf'
  | spreadSkip hn hf hna _ ih =>
    intro h2
    cases h2 with
    | spreadVisited hv _ => exact absurd hv hn
    | spreadUnknown _ hf' _ => rw [hf] at hf'; cases hf'
    | spreadSkip _ _ _ h2' => exact ih h2'
    | spreadExpand _ hf' ha _ _ => rw [hf] at hf'; cases hf'; exact absurd ha hna
  | spreadExpand hn hf ha _ _ ih1 ih2 =>
    intro h2
    cases h2 with
    | spreadVisited hv _ => exact absurd hv hn
    | spreadUnknown _ hf' _ => rw [hf] at hf'; cases hf'
    | spreadSkip _ hf' hna _ => rw [hf] at hf'; cases hf'; exact absurd ha hna
    | spreadExpand _ hf' _ h2a h2b =>
      rw [hf] at hf'; cases hf'
      obtain ⟨a, b⟩ := ih1 h2a
      subst b
      obtain ⟨c, e⟩ := ih2 h2b
      exact ⟨by rw [a, c], e⟩
  | inlineSkip hna _ ih =>
    intro h2
    cases h2 with
    | inlineSkip _ h2' => exact ih h2'
    | inlineExpand ha _ _ => exact absurd ha hna
  | inlineExpand ha _ _ ih1 ih2 =>
    intro h2
    cases h2 with
    | inlineSkip hna _ => exact absurd ha hna
    | inlineExpand _ h2a h2b =>
      obtain ⟨a, b⟩ := ih1 h2a
      subst b
      obtain ⟨c, e⟩ := ih2 h2b
      exact ⟨by rw [a, c], e⟩

/-- **collect_fields = CollectFields**: whatever fields the spec relation gathers, the helper
    returns exactly their grouping (every collected field, nothing else). -/
theorem collect_eq_spec (s : Schema) (d : Document) (R : TypeDef) (h : ParentOk s R) (sel : List Selection)
    (fs : List FieldNode) (vis : List Name) (hc : Collects s d R sel [] fs vis) :
    (collectFields s d R sel).groups = groupFields fs := by
  obtain ⟨fs', vis', hc', hg⟩ := collect_sound s d R h sel
  rw [hg, (collects_functional s d R hc hc').1]

/-! ### What "grouped by response key, in document order within each group" means -/

theorem alGet_addField (g : Groups) (f : FieldNode) (k : Name) :
    (alGet (addField g f) k).getD [] =
      (alGet g k).getD [] ++ (if f.responseKey = k then [f] else []) := by
  unfold addField
  rw [alGet_alUpdate]
  by_cases hk : k = f.responseKey
  · subst hk; simp
  · have : ¬ f.responseKey = k := fun h => hk h.symm
    simp [hk, this]

/-- the group stored under key `k` is the list of collected fields with response key `k`, in the
    order they were collected; a key is present iff some collected field has it -/
theorem group_lookup (fs : List FieldNode) (k : Name) :
    (alGet (groupFields fs) k).getD [] = fs.filter (fun f => f.responseKey = k) := by
  have h : ∀ (fs : List FieldNode) (g : Groups),
      (alGet (fs.foldl addField g) k).getD [] = (alGet g k).getD [] ++ fs.filter (fun f => f.responseKey = k) := by
    intro fs
    induction fs with
    | nil => intro g; simp
    | cons f fs ih =>
      intro g
      simp only [List.foldl_cons, ih, alGet_addField, List.filter_cons]
      by_cases hk : f.responseKey = k <;> simp [hk, List.append_assoc]
  have := h fs []
  simpa [groupFields, alGet] using this

/-! Non-vacuity: `subscription { a: s1 b: s1 ...F } fragment F on Subscription { s2 ...F }` -/
def exSchema : Schema := [ .type (.object 4 [] [⟨20, [], .named 6⟩, ⟨22, [], .named 6⟩]), .type (.scalar 6), .type (.object 0 [] []) ]
def exFrag : FragDef := ⟨⟨2, 1⟩, 30, 4, [], [.field ⟨2, 9⟩ none 22 [] [] [], .spread ⟨2, 12⟩ 30 []]⟩
def exSel : List Selection :=
  [.field ⟨1, 1⟩ (some 24) 20 [] [] [], .field ⟨1, 2⟩ (some 26) 20 [] [] [], .spread ⟨1, 3⟩ 30 []]
def exDoc : Document := [.op ⟨.subscription, ⟨1, 1⟩, none, [], [], exSel⟩, .frag exFrag]

example : ParentOk exSchema (.object 4 [] [⟨20, [], .named 6⟩, ⟨22, [], .named 6⟩]) :=
  ⟨by decide, List.mem_cons_self, rfl⟩
example : ((collectFields exSchema exDoc (.object 4 [] [⟨20, [], .named 6⟩, ⟨22, [], .named 6⟩]) exSel).groups.map (·.1)) = [24, 26, 22] := by
  decide

end Gql.C19
