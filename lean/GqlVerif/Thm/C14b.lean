/-
  Thm/C14b.lean — PROPERTY C14, the schema side: permuting the definitions of the schema changes
  nothing.  For every schema with unique type and directive names and at most one `schema { … }`
  block, every permutation of its definitions, every document (valid or not, cyclic or not) and
  every plan, `validate` returns the same list of errors in the same order — all 24 rules, the
  field-merging rule included; in particular accept/reject and the set of rules that report are
  the same.  (Permutations *inside* a definition — fields, enum values, union members, interface
  lists — change the `TypeDef` values the context hands to the rules and are explored by the
  metamorphic run, not proved.)
-/
import GqlVerif.Lemmas.SchemaPerm
import GqlVerif.Thm.C14
namespace Gql.C14
open Gql.Spec

/-- **C14, schema definitions.**  The result of validation does not depend on the order of the
    schema's definitions. -/
theorem validate_schema_perm {s s' : Schema} (h : s.Perm s') (hu : SchemaUniq s) (hq : s.queryType.isSome = true)
    (d : Document) (plan : List RuleId) : validate s d plan = validate s' d plan :=
  agree_validate (agree_of_perm h hu) hq d plan

/-- each rule alone reports the same errors -/
theorem errsOf_schema_perm {s s' : Schema} (h : s.Perm s') (hu : SchemaUniq s) (r : RuleId) (d : Document) :
    errsOf r s d = errsOf r s' d :=
  agree_errsOf (agree_of_perm h hu) r d

/-- hence the same rules report -/
theorem fires_schema_perm {s s' : Schema} (h : s.Perm s') (hu : SchemaUniq s) (r : RuleId) (d : Document) :
    fires r s d ↔ fires r s' d := by
  unfold fires; rw [errsOf_schema_perm h hu r d]

/-- and the callbacks, with every context answer, are the same (C16 under the rewrite) -/
theorem walkOf_schema_perm {s s' : Schema} (h : s.Perm s') (hu : SchemaUniq s) (d : Document) : walkOf s d = walkOf s' d :=
  agree_walkOf (agree_of_perm h hu) d

/-- the hypotheses are met by a schema of `C01`'s form: a well-formed schema has unique names -/
theorem schemaUniq_of_ok {s : Schema} (hs : C01.SchemaOk s) (h1 : s.schemaBlocks.length ≤ 1) : SchemaUniq s :=
  ⟨hs.typeNames, hs.directiveNames, h1⟩

/-- non-vacuity: a schema with a `schema` block, two types and a directive, and its reversal -/
def exS : Schema :=
  [.schema ⟨some 0, none, none⟩, .type (.object 0 [] [⟨100, [], .named 6⟩]), .type (.scalar 6), .directive ⟨200, false, [.field], []⟩]

example : SchemaUniq exS ∧ exS.Perm exS.reverse ∧ exS.queryType.isSome = true := by
  refine ⟨⟨by decide, by decide, by decide⟩, (List.reverse_perm _).symm, by decide⟩

end Gql.C14
