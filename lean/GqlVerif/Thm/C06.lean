/-
  Thm/C06.lean — PROPERTY C06: the seven fragment rules fire exactly when their spec condition
  is violated.
-/
import GqlVerif.Lemmas.FragRules
import GqlVerif.Lemmas.WalkAll
import GqlVerif.Lemmas.SitesGood
import GqlVerif.Thm.C09
import GqlVerif.Thm.C18
import GqlVerif.Thm.C13
namespace Gql.C06
open Gql.Spec

/-! ### unique fragment names -/

def GEv.frag? : GEv → Option FragDef
  | .enterFrag f => some f
  | _ => none

theorem frag?_spreads (sps : List SpreadNode) : (sps.map GEv.spread).filterMap GEv.frag? = [] := by
  induction sps with
  | nil => rfl
  | cons x xs ih => simpa [List.filterMap_cons, GEv.frag?] using ih

theorem frag?_defs : ∀ ds : List Definition, (ds.flatMap defGEvs).filterMap GEv.frag? = Document.fragments ds
  | [] => rfl
  | .op o :: ds => by
      simp only [List.flatMap_cons, defGEvs, List.filterMap_append, frag?_spreads, List.nil_append,
        Document.fragments, frag?_defs ds]
  | .frag f :: ds => by
      simp only [List.flatMap_cons, defGEvs, List.cons_append, List.filterMap_cons, List.filterMap_append,
        frag?_spreads, GEv.frag?, List.filterMap_nil, List.nil_append, Document.fragments, frag?_defs ds]

/-- the fragment definitions are entered in document order, each once -/
theorem entered_fragments (d : Document) :
    ((traverseDocument d).filterMap gev).filterMap GEv.frag? = d.fragments := by
  rw [gev_document, List.filterMap_append, frag?_defs]
  simp [GEv.frag?]

def ufnG (seen : List Name) : GEv → List Name
  | .enterFrag f => seen ++ [f.name]
  | _ => seen

/-- the rule's step with its state type spelled out -/
def ufnStep (s : Schema) (d : Document) (acc : List Name × List Err) (e : Ev × Snap) : List Name × List Err :=
  uniqueFragmentNames.step s d acc e

theorem ufn_step_eq (s : Schema) (d : Document) (seen : List Name) (errs : List Err) (e : Ev × Snap) :
    ufnStep s d (seen, errs) e =
      ((match gev e.1 with | some b => ufnG seen b | none => seen), errs) := by
  obtain ⟨ev, sn⟩ := e
  cases ev with
  | enter n => cases n <;> simp [ufnStep, Rule.step, uniqueFragmentNames, gev, ufnG]
  | leave n => cases n <;> simp [ufnStep, Rule.step, uniqueFragmentNames, gev, ufnG]

theorem ufn_fold (s : Schema) (d : Document) : ∀ (tr : Trace) (seen : List Name) (errs : List Err),
    tr.foldl (ufnStep s d) (seen, errs)
      = (seen ++ (((tr.map Prod.fst).filterMap gev).filterMap GEv.frag?).map (·.name), errs)
  | [], seen, errs => by simp
  | e :: tr, seen, errs => by
      rw [List.foldl_cons, ufn_step_eq, ufn_fold s d tr]
      simp only [List.map_cons, List.filterMap_cons]
      cases hg : gev e.1 with
      | none => simp
      | some b => cases b <;> simp only [ufnG, List.filterMap_cons, GEv.frag?, List.map_cons, List.append_assoc, List.cons_append, List.nil_append]

/-- 'unique fragment names' reports iff two fragment definitions share a name -/
theorem uniqueFragmentNames_iff (s : Schema) (d : Document) (hq : s.queryType.isSome = true) :
    fires .uniqueFragmentNames s d ↔ DuplicateFragmentName d := by
  unfold fires errsOf DuplicateFragmentName
  have h := ufn_fold s d (walkOf s d) [] []
  rw [walkOf_events s d hq, entered_fragments] at h
  have hrun : (ruleOf .uniqueFragmentNames).runOn s d (walkOf s d)
      = (dupNames (d.fragments.map (·.name))).map fun n => (⟨.uniqueFragmentNames, [], .uniqueFragmentName n⟩ : Err) := by
    show (List.foldl (ufnStep s d) ([], []) (walkOf s d)).2
      ++ uniqueFragmentNames.finish s d (List.foldl (ufnStep s d) ([], []) (walkOf s d)).1 = _
    rw [h]
    simp [uniqueFragmentNames]
  rw [hrun, ne_eq, List.map_eq_nil_iff]
  exact C09.dupNames_ne_nil _

/-! ### the stateless rules -/

/-- 'known fragment names' reports iff some spread names a fragment the document does not define -/
theorem knownFragmentNames_iff (s : Schema) (d : Document) :
    fires .knownFragmentNames s d ↔ UndefinedFragmentSpread s d := by
  unfold fires errsOf UndefinedFragmentSpread SpreadAt
  simp only [ruleOf, knownFragmentNames]
  rw [stateless_fires_iff]
  constructor
  · rintro ⟨⟨ev, env⟩, hmem, hne⟩
    cases ev with
    | leave n => simp at hne
    | enter n =>
      cases n with
      | spread sp =>
        simp at hne
        exact ⟨sp, env, hmem, (fragByName_none_iff d sp.name).1 hne⟩
      | _ => simp at hne
  · rintro ⟨sp, env, hmem, hnone⟩
    refine ⟨(.enter (.spread sp), env), hmem, ?_⟩
    simp [(fragByName_none_iff d sp.name).2 hnone]

theorem unknownTypeErr_ne_nil (s : Schema) (n : Name) (p : Pos) : unknownTypeErr s n p ≠ [] ↔ ¬ KnownType s n := by
  unfold unknownTypeErr KnownType
  cases h : s.typeByName n <;> by_cases hi : n ∈ introspectionTypeNames <;> simp [h, hi]

/-- 'known type names' reports iff a type condition or a variable type names a type absent from
    the schema -/
theorem knownTypeNames_iff (s : Schema) (d : Document) (hq : s.queryType.isSome = true) :
    fires .knownTypeNames s d ↔ UnknownTypeReferenced s d := by
  unfold fires errsOf UnknownTypeReferenced InlineAt VarDefAt
  simp only [ruleOf, knownTypeNames]
  rw [stateless_fires_iff]
  constructor
  · rintro ⟨⟨ev, env⟩, hmem, hne⟩
    cases ev with
    | leave n => simp at hne
    | enter n =>
      cases n with
      | varDef v => exact Or.inr (Or.inr ⟨v, ⟨env, hmem⟩, (unknownTypeErr_ne_nil s _ _).1 hne⟩)
      | inline i =>
        cases htc : i.tc with
        | none => simp [htc] at hne
        | some c =>
          simp only [htc] at hne
          exact Or.inr (Or.inl ⟨i, env, c, hmem, htc, (unknownTypeErr_ne_nil s _ _).1 hne⟩)
      | fragmentDef f =>
        exact Or.inl ⟨f, (enter_fragmentDef_in_walk s d hq f).1 ⟨env, hmem⟩, (unknownTypeErr_ne_nil s _ _).1 hne⟩
      | _ => simp at hne
  · rintro (⟨f, hf, hk⟩ | ⟨i, env, c, hmem, htc, hk⟩ | ⟨v, ⟨env, hmem⟩, hk⟩)
    · obtain ⟨env, hmem⟩ := (enter_fragmentDef_in_walk s d hq f).2 hf
      exact ⟨(.enter (.fragmentDef f), env), hmem, (unknownTypeErr_ne_nil s _ _).2 hk⟩
    · refine ⟨(.enter (.inline i), env), hmem, ?_⟩
      simp only [htc]
      exact (unknownTypeErr_ne_nil s _ _).2 hk
    · exact ⟨(.enter (.varDef v), env), hmem, (unknownTypeErr_ne_nil s _ _).2 hk⟩

/-- 'fragments on composite types' reports iff a type condition names a scalar, enum or input type -/
theorem fragmentsOnCompositeTypes_iff (s : Schema) (d : Document) (hq : s.queryType.isSome = true) :
    fires .fragmentsOnCompositeTypes s d ↔ FragmentOnNonComposite s d := by
  unfold fires errsOf FragmentOnNonComposite InlineAt
  simp only [ruleOf, fragmentsOnCompositeTypes]
  rw [stateless_fires_iff]
  constructor
  · rintro ⟨⟨ev, env⟩, hmem, hne⟩
    cases ev with
    | leave n => simp at hne
    | enter n =>
      cases n with
      | inline i =>
        cases htc : i.tc with
        | none => simp [htc] at hne
        | some c =>
          cases ht : s.typeByName c with
          | none => simp [htc, ht] at hne
          | some t =>
            cases hcomp : t.isComposite with
            | true => simp [htc, ht, hcomp] at hne
            | false => exact Or.inr ⟨i, env, c, t, hmem, htc, ht, hcomp⟩
      | fragmentDef f =>
        cases ht : s.typeByName f.tc with
        | none => simp [ht] at hne
        | some t =>
          cases hcomp : t.isComposite with
          | true => simp [ht, hcomp] at hne
          | false => exact Or.inl ⟨f, (enter_fragmentDef_in_walk s d hq f).1 ⟨env, hmem⟩, t, ht, hcomp⟩
      | _ => simp at hne
  · rintro (⟨f, hf, t, ht, hcomp⟩ | ⟨i, env, c, t, hmem, htc, ht, hcomp⟩)
    · obtain ⟨env, hmem⟩ := (enter_fragmentDef_in_walk s d hq f).2 hf
      exact ⟨(.enter (.fragmentDef f), env), hmem, by simp [ht, hcomp]⟩
    · exact ⟨(.enter (.inline i), env), hmem, by simp [htc, ht, hcomp]⟩

/-! ### possible fragment spreads -/

theorem snapOk_closed (s : Schema) : EnvClosed s (SnapOk s) where
  withType := fun _ t h => h.withType t
  withParent := fun _ h => h.withParent
  withField := fun _ f h => h.withField f
  withInput := fun _ _ h => h

theorem overlap_iff (s : Schema) (hn : s.typeNames.Nodup) (a b : TypeDef) (ha : SDef.type a ∈ s) (hb : SDef.type b ∈ s)
    (hca : a.isComposite = true) (hcb : b.isComposite = true) :
    doTypesOverlap s a b = false ↔ ¬ TypesOverlap s a b := by
  have := C18.doTypesOverlap_iff s hn a b ha hb hca hcb
  unfold TypesOverlap
  rw [← this]
  cases doTypesOverlap s a b <;> simp

/-- 'possible fragment spreads' reports iff an inline fragment's type, or the type of the
    fragment a spread names, cannot overlap the enclosing type -/
theorem possibleFragmentSpreads_iff (s : Schema) (d : Document) (hn : s.typeNames.Nodup) :
    fires .possibleFragmentSpreads s d ↔ ImpossibleSpread s d := by
  unfold fires errsOf ImpossibleSpread InlineAt SpreadAt
  simp only [ruleOf, possibleFragmentSpreads]
  rw [stateless_fires_iff]
  have hok := allSnap_walkOf (snapOk_closed s) d (SnapOk.empty s)
  constructor
  · rintro ⟨⟨ev, env⟩, hmem, hne⟩
    have henv : SnapOk s env := hok _ hmem
    cases ev with
    | leave n => simp at hne
    | enter n =>
      cases n with
      | inline i =>
        cases hc : env.cur with
        | none => simp [hc] at hne
        | some fragT =>
          cases hp : env.parent with
          | none => simp [hc, hp] at hne
          | some parentT =>
            simp only [hc, hp] at hne
            by_cases h1 : fragT.isComposite = true
            · by_cases h2 : parentT.isComposite = true
              · cases ho : doTypesOverlap s fragT parentT with
                | true => simp [h1, h2, ho] at hne
                | false =>
                  exact Or.inl ⟨i, env, fragT, parentT, hmem, hc, hp, h1, h2,
                    (overlap_iff s hn _ _ (henv.1 _ hc) (henv.2 _ hp) h1 h2).1 ho⟩
              · simp [h1, h2] at hne
            · simp [h1] at hne
      | spread sp =>
        cases hf : d.fragByName sp.name with
        | none => simp [hf] at hne
        | some frag =>
          cases ht : s.typeByName frag.tc with
          | none => simp [hf, ht] at hne
          | some fragT =>
            cases hp : env.parent with
            | none => simp [hf, ht, hp] at hne
            | some parentT =>
              simp only [hf, ht, hp] at hne
              by_cases h1 : fragT.isComposite = true
              · by_cases h2 : parentT.isComposite = true
                · cases ho : doTypesOverlap s fragT parentT with
                  | true => simp [h1, h2, ho] at hne
                  | false =>
                    exact Or.inr ⟨sp, env, frag, fragT, parentT, hmem, hf, ht, hp, h1, h2,
                      (overlap_iff s hn _ _ (typeByName_some ht).1 (henv.2 _ hp) h1 h2).1 ho⟩
                · simp [h1, h2] at hne
              · simp [h1] at hne
      | _ => simp at hne
  · rintro (⟨i, env, fragT, parentT, hmem, hc, hp, h1, h2, hno⟩ | ⟨sp, env, frag, fragT, parentT, hmem, hf, ht, hp, h1, h2, hno⟩)
    · have henv : SnapOk s env := hok _ hmem
      have ho := (overlap_iff s hn _ _ (henv.1 _ hc) (henv.2 _ hp) h1 h2).2 hno
      exact ⟨(.enter (.inline i), env), hmem, by simp [hc, hp, h1, h2, ho]⟩
    · have henv : SnapOk s env := hok _ hmem
      have ho := (overlap_iff s hn _ _ (typeByName_some ht).1 (henv.2 _ hp) h1 h2).2 hno
      exact ⟨(.enter (.spread sp), env), hmem, by simp [hf, ht, hp, h1, h2, ho]⟩

/-! ### the two graph rules -/

/-- the rule's fold with its state type spelled out -/
def cycStepT (s : Schema) (d : Document) (acc : CycAcc) (e : Ev × Snap) : CycAcc :=
  noFragmentsCycle.step s d acc e
def cycFold (s : Schema) (d : Document) (tr : Trace) (acc : CycAcc) : CycAcc :=
  tr.foldl (cycStepT s d) acc

theorem cycFold_eq (s : Schema) (d : Document) (tr : Trace) (acc : CycAcc) :
    cycFold s d tr acc = ((tr.map Prod.fst).filterMap gev).foldl (cycG d) acc := by
  unfold cycFold
  rw [foldl_map_fst (cycStepT s d) (cycEv d) (fun acc e => cyc_step_eq s d acc e)]
  exact foldl_gev (cycEv d) (cycG d) (fun _ _ => rfl) _ _

/-- 'no fragment cycles' reports iff some fragment reaches itself through spreads
    (fragment names unique, so that the spread graph is well defined) -/
theorem noFragmentsCycle_iff (s : Schema) (d : Document) (hq : s.queryType.isSome = true)
    (hn : (d.fragments.map (·.name)).Nodup) :
    fires .noFragmentsCycle s d ↔ FragmentCycle d := by
  unfold fires errsOf
  have hrun : (ruleOf .noFragmentsCycle).runOn s d (walkOf s d) = (cycFold s d (walkOf s d) ({}, [])).2 := by
    show (cycFold s d (walkOf s d) ({}, [])).2 ++ [] = _
    simp
  rw [hrun, cycFold_eq, walkOf_events s d hq, gev_document]
  exact cyc_document d hn

def nufStepT (s : Schema) (d : Document) (acc : NufAcc) (e : Ev × Snap) : NufAcc :=
  noUnusedFragments.step s d acc e
def nufFold (s : Schema) (d : Document) (tr : Trace) (acc : NufAcc) : NufAcc :=
  tr.foldl (nufStepT s d) acc

theorem nufFold_eq (s : Schema) (d : Document) (tr : Trace) (acc : NufAcc) :
    nufFold s d tr acc = ((tr.map Prod.fst).filterMap gev).foldl (nufAcc d) acc := by
  unfold nufFold
  rw [foldl_map_fst (nufStepT s d) (nufEv d) (fun acc e => nuf_step_eq s d acc e)]
  exact foldl_gev (nufEv d) (nufAcc d) (fun _ _ => rfl) _ _

theorem leaveDoc_not_mem_defs : ∀ ds : List Definition, GEv.leaveDoc ∉ ds.flatMap defGEvs := by
  intro ds h
  obtain ⟨x, _, hx⟩ := List.mem_flatMap.1 h
  cases x with
  | op o => simp [defGEvs] at hx
  | frag f => simp [defGEvs] at hx

theorem alGet_some_mem {κ ν : Type} [DecidableEq κ] (m : List (κ × ν)) (k : κ) (v : ν) (h : alGet m k = some v) :
    (k, v) ∈ m := by
  unfold alGet at h
  simp only [Option.map_eq_some_iff] at h
  obtain ⟨p, hp, rfl⟩ := h
  have h1 := List.find?_some hp
  have h2 := List.mem_of_find?_eq_some hp
  simp only [decide_eq_true_eq] at h1
  rw [← h1]; exact h2

/-- the marking pass of the rule never runs out of fuel -/
theorem used_not_stuck (st : UnusedState) : st.used.stuck = false := by
  have h := dfsList_roots_not_stuck (fragSucc st.fragSpreads) (st.opSpreads ++ st.fragSpreads.flatMap (·.2))
    (by
      intro u _ w hw
      unfold fragSucc at hw
      cases hg : alGet st.fragSpreads u with
      | none => simp [hg] at hw
      | some v =>
        simp only [hg, Option.getD_some] at hw
        exact List.mem_append_right _ (List.mem_flatMap.2 ⟨(u, v), alGet_some_mem _ _ _ hg, hw⟩))
    (unusedFuel st) st.opSpreads (fun y hy => List.mem_append_left _ hy)
    (by simp [unusedFuel, List.length_flatMap])
  exact h

/-- a name is marked as used iff an operation spreads it directly or through other fragments -/
theorem used_iff (d : Document) (st : UnusedState) (h1 : st.opSpreads = opSpreadNames d)
    (h2 : ∀ n, fragSucc st.fragSpreads n = spreadsOf d n) (n : Name) :
    n ∈ st.used.visited ↔ FragmentUsed d n := by
  have hfun : fragSucc st.fragSpreads = spreadsOf d := funext h2
  have := mem_dfsList_iff (fragSucc st.fragSpreads) (unusedFuel st) st.opSpreads (used_not_stuck st) n
  unfold UnusedState.used
  unfold dfsList at this
  rw [this, hfun, h1, opSpreadNames_eq]
  unfold FragmentUsed
  simp only [List.mem_flatMap, List.mem_map]
  constructor
  · rintro ⟨x, ⟨o, ho, sp, hsp, rfl⟩, hr⟩
    exact ⟨o, ho, sp, hsp, hr⟩
  · rintro ⟨o, ho, sp, hsp, hr⟩
    exact ⟨sp.name, ⟨o, ho, sp, hsp, rfl⟩, hr⟩

/-- 'no unused fragments' reports iff some fragment definition is not reachable from any operation -/
theorem noUnusedFragments_iff (s : Schema) (d : Document) (hq : s.queryType.isSome = true) :
    fires .noUnusedFragments s d ↔ UnusedFragment d := by
  unfold fires errsOf
  have hrun : (ruleOf .noUnusedFragments).runOn s d (walkOf s d) = (nufFold s d (walkOf s d) ({}, [])).2 := by
    show (nufFold s d (walkOf s d) ({}, [])).2 ++ [] = _
    simp
  rw [hrun, nufFold_eq, walkOf_events s d hq, gev_document, List.foldl_append,
    nufAcc_fold d _ _ (leaveDoc_not_mem_defs d)]
  simp only [List.foldl_cons, List.foldl_nil, nufAcc, List.nil_append]
  obtain ⟨_, hops, hfr⟩ := nufG_defs d {} rfl
  have h1 : (List.foldl nufG ({} : UnusedState) (d.flatMap defGEvs)).opSpreads = opSpreadNames d := by simpa using hops
  have h2 : ∀ n, fragSucc (List.foldl nufG ({} : UnusedState) (d.flatMap defGEvs)).fragSpreads n = spreadsOf d n := by
    intro n
    have := hfr n
    rw [fragSpreadNames_eq] at this
    simpa [fragSucc] using this
  unfold nufReport UnusedFragment
  rw [ne_eq, List.map_eq_nil_iff, List.filter_eq_nil_iff]
  constructor
  · intro h
    refine Classical.byContradiction fun hc => h ?_
    intro n hn
    have hn' : n ∈ d.fragments.map (·.name) := by simpa [Document.fragNames] using hn
    obtain ⟨f, hf, rfl⟩ := List.mem_map.1 hn'
    have : FragmentUsed d f.name := Classical.byContradiction fun hu => hc ⟨f, hf, hu⟩
    have := (used_iff d _ h1 h2 f.name).2 this
    simpa using this
  · rintro ⟨f, hf, hu⟩ h
    have hn : f.name ∈ d.fragNames := by
      simp only [Document.fragNames, List.mem_eraseDups, List.mem_map]
      exact ⟨f, hf, rfl⟩
    have := h f.name hn
    simp only [Bool.not_eq_eq_eq_not, Bool.not_true, List.contains_eq_mem, decide_eq_false_iff_not, Decidable.not_not] at this
    exact hu ((used_iff d _ h1 h2 f.name).1 this)

theorem codes_C06 (s : Schema) (d : Document) :
    (∀ e ∈ errsOf .uniqueFragmentNames s d, e.code = .uniqueFragmentNames) ∧
    (∀ e ∈ errsOf .knownFragmentNames s d, e.code = .knownFragmentNames) ∧
    (∀ e ∈ errsOf .knownTypeNames s d, e.code = .knownTypeNames) ∧
    (∀ e ∈ errsOf .fragmentsOnCompositeTypes s d, e.code = .fragmentsOnCompositeTypes) ∧
    (∀ e ∈ errsOf .noUnusedFragments s d, e.code = .noUnusedFragments) ∧
    (∀ e ∈ errsOf .noFragmentsCycle s d, e.code = .noFragmentsCycle) ∧
    (∀ e ∈ errsOf .possibleFragmentSpreads s d, e.code = .possibleFragmentSpreads) :=
  ⟨C13.codes s d _ _, C13.codes s d _ _, C13.codes s d _ _, C13.codes s d _ _, C13.codes s d _ _,
   C13.codes s d _ _, C13.codes s d _ _⟩

/-! Non-vacuity and regression witnesses (F4: cycles through nested fields; F5: fragments used only
    by unused fragments; F6: undeclared `__` type names).
    `type Query { a: Int  t: T }  type T { a: Int  t: T }  union U = T  enum E { X }`
    ids: Query=0 Int=6 a=20 t=22 T=24 U=26 E=28 X=40 A=30 B=32 C=34 -/
def exSchema : Schema :=
  [ .type (.object 0 [] [⟨20, [], .named 6⟩, ⟨22, [], .named 24⟩]),
    .type (.object 24 [] [⟨20, [], .named 6⟩, ⟨22, [], .named 24⟩]),
    .type (.union 26 [24]), .type (.enum 28 [40]), .type (.scalar 6) ]
def fld (n : Name) (sel : List Selection) : Selection := .field ⟨1, 1⟩ none n [] [] sel
def spr (n : Name) : Selection := .spread ⟨1, 2⟩ n []
def q (sel : List Selection) : Definition := .op ⟨.shorthand, ⟨0, 0⟩, none, [], [], sel⟩
def frag (n tc : Name) (sel : List Selection) : Definition := .frag ⟨⟨2, 1⟩, n, tc, [], sel⟩

-- { ...A } fragment A on Query { t { t { ...B } } } fragment B on T { t { ...A } }  (cycle through nested fields; wrong type too)
example : fires .noFragmentsCycle exSchema
    [q [spr 30], frag 30 0 [fld 22 [fld 22 [spr 32]]], frag 32 24 [fld 22 [spr 30]]] := by decide
example : ¬ fires .noFragmentsCycle exSchema
    [q [spr 30], frag 30 0 [fld 22 [spr 32], spr 32], frag 32 24 [fld 20 []]] := by decide   -- diamond, no cycle
example : fires .noFragmentsCycle exSchema [q [fld 20 []], frag 30 0 [spr 30]] := by decide    -- self loop
-- { a } fragment A on Query { ...B } fragment B on Query { ...A }: both unused (reachable from no operation)
example : fires .noUnusedFragments exSchema [q [fld 20 []], frag 30 0 [spr 32], frag 32 0 [spr 30]] := by decide
example : ¬ fires .noUnusedFragments exSchema [q [fld 22 [spr 30]], frag 30 24 [spr 32], frag 32 24 [fld 20 []]] := by decide
example : fires .uniqueFragmentNames exSchema [q [spr 30], frag 30 0 [fld 20 []], frag 30 0 [fld 20 []]] := by decide
example : fires .knownFragmentNames exSchema [q [fld 22 [spr 36]]] := by decide
example : fires .knownTypeNames exSchema [q [.inline ⟨1, 3⟩ (some 41) [] [fld 20 []]]] := by decide    -- ... on __Foo (id 41, undeclared)
example : ¬ fires .knownTypeNames exSchema [q [.inline ⟨1, 3⟩ (some 13) [] [fld 20 []]]] := by decide  -- ... on __Type
example : fires .fragmentsOnCompositeTypes exSchema [q [spr 30], frag 30 28 [fld 20 []]] := by decide  -- on an enum
example : fires .possibleFragmentSpreads exSchema [q [spr 30], frag 30 24 [fld 20 []]] := by decide    -- T inside Query
example : ¬ fires .possibleFragmentSpreads exSchema [q [fld 22 [.inline ⟨1, 3⟩ (some 26) [] [spr 30]]], frag 30 24 [fld 20 []]] := by decide -- U inside T, T inside U

end Gql.C06
